(* SGE/DelEquiv.v -- the deletion loops of symbolic_gaussian_elimination_fraction.py, literally.

   The Python code removes the collected zero lines with
       Z = sorted(Z, reverse=True)
       for z in Z:  del x[z]                      (x = matrix, every row of Op_l, Op_r, ...)
   SGE/Model.v idealises this as `del_idx Z x` = "drop the positions that occur in Z".
   This file defines the literal loop (one `del` at a time, on the shrinking list, indices taken in
   non-increasing order) and proves
     1. loop = del_idx whenever Z is duplicate-free (for ANY non-increasing arrangement of Z, so
        nothing depends on the sorting algorithm), and no `del` is out of range (no IndexError) when
        the indices are in range of the original list;
     2. what happens with duplicates: the filter ignores them, the loop does not (extra element
        deleted, or IndexError) -- so the idealisation is exact only on duplicate-free Z;
     3. every Z the algorithm passes (deparallelize_rows/cols, the zero-line lists of
        row_elimination/column_elimination) is duplicate-free and in range;
     4. consequently the algorithm written with the literal loops everywhere is equal to the model
        (`gaussian_elimination_lit M = gaussian_elimination M` for every M).
   New definitions are only the literal loops; Model.v / ModelProofs.v are unchanged. *)
From Coq Require Import ZArith QArith Qcanon List Arith Bool Lia Sorted Permutation.
From PTN Require Import SGE.Model SGE.ModelProofs.
Import ListNotations.
Local Close Scope Q_scope.
Local Open Scope nat_scope.

(* ================================================================== the literal loop *)

(* `del l[z]` for 0 <= z; Python raises IndexError when z >= len(l) *)
Fixpoint del_at_chk {A} (z : nat) (l : list A) {struct l} : option (list A) :=
  match l with
  | [] => None
  | x :: l' => match z with 0 => Some l' | S z' => option_map (cons x) (del_at_chk z' l') end
  end.

(* the same, totalised: an out-of-range index leaves the list alone *)
Fixpoint del_at {A} (z : nat) (l : list A) {struct l} : list A :=
  match l with
  | [] => []
  | x :: l' => match z with 0 => l' | S z' => x :: del_at z' l' end
  end.

(* `for z in S: del l[z]` *)
Definition del_loop {A} (S : list nat) (l : list A) : list A :=
  fold_left (fun acc z => del_at z acc) S l.

Definition del_loop_chk {A} (S : list nat) (l : list A) : option (list A) :=
  fold_left (fun acc z => match acc with Some a => del_at_chk z a | None => None end) S (Some l).

(* `sorted(Z, reverse=True)`: insertion sort into non-increasing order.  (On integers the result
   of any correct sort is the same list; the theorems below are stated for an arbitrary
   non-increasing permutation S of Z and then instantiated with this one.) *)
Fixpoint ins_desc (z : nat) (S : list nat) : list nat :=
  match S with
  | [] => [z]
  | y :: S' => if y <=? z then z :: S else y :: ins_desc z S'
  end.
Definition sort_desc (Z : list nat) : list nat := fold_right ins_desc [] Z.

(* the statement block of the Python code: `for z in sorted(Z, reverse=True): del l[z]` *)
Definition del_sorted_loop {A} (Z : list nat) (l : list A) : list A := del_loop (sort_desc Z) l.

(* the two-container form the code actually has:
     for z in S:  del X[z];  for row in Y: del row[z]          (rows: X = matrix, Y = Op_l)
     for z in S:  for row in Y: del row[z];  del X[z]          (cols: X = Op_r,  Y = matrix) *)
Definition del_lines_loop {A B} (S : list nat) (X : list A) (Y : list (list B))
  : list A * list (list B) :=
  fold_left (fun st z => (del_at z (fst st), map (del_at z) (snd st))) S (X, Y).

(* ================================================================== sort_desc *)

Lemma ins_desc_perm : forall z S, Permutation (ins_desc z S) (z :: S).
Proof.
  induction S as [|y S IH]; simpl; auto.
  destruct (y <=? z); auto.
  eapply perm_trans; [apply perm_skip, IH|apply perm_swap].
Qed.

Lemma sort_desc_perm : forall Z, Permutation (sort_desc Z) Z.
Proof.
  induction Z as [|z Z IH]; simpl; auto.
  eapply perm_trans; [apply ins_desc_perm|apply perm_skip, IH].
Qed.

Lemma ins_desc_sorted : forall z S, StronglySorted ge S -> StronglySorted ge (ins_desc z S).
Proof.
  induction S as [|y S IH]; simpl; intros H.
  - repeat constructor.
  - inversion H as [|? ? HS HF]; subst.
    destruct (Nat.leb_spec y z).
    + constructor; auto. constructor; [lia|].
      eapply Forall_impl; [|exact HF]. simpl; intros; lia.
    + constructor; auto.
      assert (P : Permutation (ins_desc z S) (z :: S)) by apply ins_desc_perm.
      apply Forall_forall. intros w Hw.
      apply (Permutation_in _ P) in Hw. destruct Hw as [<-|Hw]; [lia|].
      rewrite Forall_forall in HF. apply HF, Hw.
Qed.

Lemma sort_desc_sorted : forall Z, StronglySorted ge (sort_desc Z).
Proof.
  induction Z; simpl; [constructor|]. apply ins_desc_sorted; auto.
Qed.

(* a duplicate-free non-increasing list is strictly decreasing *)
Lemma sorted_nodup_strict : forall S, StronglySorted ge S -> NoDup S -> StronglySorted gt S.
Proof.
  induction 1 as [|z S HS IH HF]; intros ND; [constructor|].
  inversion ND as [|? ? Hn ND']; subst. constructor; auto.
  rewrite Forall_forall in *. intros w Hw.
  specialize (HF w Hw). assert (w <> z) by (intros ->; auto). lia.
Qed.

(* ================================================================== the filter *)

Lemma del_from_ext : forall A Z Z' (l : list A) k,
  (forall i, mem i Z = mem i Z') -> del_from k Z l = del_from k Z' l.
Proof.
  induction l as [|x l IH]; simpl; intros k H; auto.
  rewrite H. rewrite (IH (S k) H). reflexivity.
Qed.

Lemma mem_perm : forall i Z Z', Permutation Z Z' -> mem i Z = mem i Z'.
Proof.
  intros i Z Z' P.
  destruct (mem i Z) eqn:E1; destruct (mem i Z') eqn:E2; auto.
  - apply mem_In in E1. apply mem_nIn in E2. exfalso. apply E2. eapply Permutation_in; eauto.
  - apply mem_In in E2. apply mem_nIn in E1. exfalso. apply E1.
    eapply Permutation_in; [apply Permutation_sym|]; eauto.
Qed.

(* the filter only looks at the SET of indices *)
Lemma del_idx_perm : forall A Z Z' (l : list A), Permutation Z Z' -> del_idx Z l = del_idx Z' l.
Proof. intros. unfold del_idx. apply del_from_ext. intros. now apply mem_perm. Qed.

Lemma mem_nodup : forall i Z, mem i (nodup Nat.eq_dec Z) = mem i Z.
Proof.
  intros i Z.
  destruct (mem i Z) eqn:E.
  - apply mem_In. apply nodup_In. now apply mem_In.
  - apply mem_nIn. rewrite nodup_In. now apply mem_nIn.
Qed.

Lemma del_idx_nodup : forall A Z (l : list A), del_idx (nodup Nat.eq_dec Z) l = del_idx Z l.
Proof. intros. unfold del_idx. apply del_from_ext. intros. apply mem_nodup. Qed.

(* indices below the current position are irrelevant *)
Lemma del_from_noop : forall A Z (l : list A) k, (forall z, In z Z -> z < k) -> del_from k Z l = l.
Proof.
  induction l as [|x l IH]; simpl; intros k H; auto.
  assert (E : mem k Z = false).
  { apply mem_nIn. intros Hin. specialize (H _ Hin). lia. }
  rewrite E. f_equal. apply IH. intros z Hz. specialize (H _ Hz). lia.
Qed.

(* one literal `del` of the largest index, then the filter for the smaller ones *)
Lemma del_from_del_at : forall A S' (l : list A) k z,
  (forall s, In s S' -> s < k + z) ->
  del_from k S' (del_at z l) = del_from k ((k + z) :: S') l.
Proof.
  induction l as [|x l IH]; intros k z H; [reflexivity|].
  destruct z as [|z]; cbn [del_at].
  - cbn [del_from mem]. rewrite Nat.add_0_r, Nat.eqb_refl.
    rewrite Nat.add_0_r in H.
    rewrite del_from_noop by exact H.
    rewrite del_from_noop; [reflexivity|].
    intros s [<-|Hs]; [lia|]. specialize (H _ Hs). lia.
  - cbn [del_from mem].
    destruct (Nat.eqb_spec (k + S z) k); [lia|].
    replace (k + S z) with (S k + z) by lia.
    rewrite (IH (S k) z) by (intros s Hs; specialize (H _ Hs); lia).
    reflexivity.
Qed.

(* ================================================================== loop = filter *)

Lemma del_loop_strict : forall A S (l : list A),
  StronglySorted gt S -> del_loop S l = del_from 0 S l.
Proof.
  induction S as [|z S IH]; intros l H.
  - cbn. symmetry. apply del_from_noop. intros z [].
  - inversion H as [|? ? HS HF]; subst. unfold del_loop. cbn [fold_left].
    change (del_loop S (del_at z l) = del_from 0 (z :: S) l).
    rewrite IH by exact HS.
    rewrite (del_from_del_at A S l 0 z); [reflexivity|].
    rewrite Forall_forall in HF. intros s Hs. specialize (HF _ Hs). lia.
Qed.

(* MAIN: for a duplicate-free Z and any non-increasing arrangement S of it, the literal loop
   deletes exactly the positions in Z *)
Theorem descending_del_is_filter_gen : forall A (Z S : list nat) (l : list A),
  NoDup Z -> Permutation S Z -> StronglySorted ge S -> del_loop S l = del_idx Z l.
Proof.
  intros A Z S l ND P HS.
  rewrite del_loop_strict.
  - rewrite <- (del_idx_perm A S Z l P). reflexivity.
  - apply sorted_nodup_strict; auto.
    eapply Permutation_NoDup; [apply Permutation_sym|]; eauto.
Qed.

Theorem descending_del_is_filter : forall A (Z : list nat) (l : list A),
  NoDup Z -> del_sorted_loop Z l = del_idx Z l.
Proof.
  intros. apply descending_del_is_filter_gen; auto using sort_desc_perm, sort_desc_sorted.
Qed.

(* for an arbitrary Z the filter is the loop over the de-duplicated list *)
Theorem del_idx_is_loop_on_nodup : forall A (Z : list nat) (l : list A),
  del_idx Z l = del_sorted_loop (nodup Nat.eq_dec Z) l.
Proof.
  intros. rewrite descending_del_is_filter by apply NoDup_nodup. symmetry. apply del_idx_nodup.
Qed.

(* ---- no IndexError *)
Lemma del_at_chk_some : forall A z (l : list A), z < length l -> del_at_chk z l = Some (del_at z l).
Proof.
  induction z as [|z IH]; destruct l as [|x l]; simpl; intros H; try lia; auto.
  rewrite IH by lia. reflexivity.
Qed.

Lemma del_at_chk_none : forall A z (l : list A), length l <= z -> del_at_chk z l = None.
Proof.
  induction z as [|z IH]; destruct l as [|x l]; simpl; intros H; try lia; auto.
  rewrite IH by lia. reflexivity.
Qed.

Lemma del_at_length : forall A z (l : list A), z < length l -> length (del_at z l) = length l - 1.
Proof.
  induction z as [|z IH]; destruct l as [|x l]; simpl; intros H; try lia.
  rewrite IH by lia. lia.
Qed.

Lemma del_loop_chk_strict : forall A S (l : list A),
  StronglySorted gt S -> (forall z, In z S -> z < length l) ->
  del_loop_chk S l = Some (del_loop S l).
Proof.
  induction S as [|z S IH]; intros l H Hr; [reflexivity|].
  inversion H as [|? ? HS HF]; subst. unfold del_loop_chk, del_loop. cbn [fold_left].
  rewrite del_at_chk_some by (apply Hr; now left).
  apply IH; auto.
  rewrite Forall_forall in HF. intros s Hs.
  rewrite del_at_length by (apply Hr; now left).
  specialize (HF _ Hs). assert (z < length l) by (apply Hr; now left). lia.
Qed.

Theorem descending_del_no_index_error : forall A (Z : list nat) (l : list A),
  NoDup Z -> (forall z, In z Z -> z < length l) ->
  del_loop_chk (sort_desc Z) l = Some (del_idx Z l).
Proof.
  intros A Z l ND Hr.
  assert (P := sort_desc_perm Z).
  rewrite del_loop_chk_strict.
  - f_equal. now apply descending_del_is_filter.
  - apply sorted_nodup_strict; [apply sort_desc_sorted|].
    eapply Permutation_NoDup; [apply Permutation_sym|]; eauto.
  - intros z Hz. apply Hr. eapply Permutation_in; eauto.
Qed.

(* ---- with duplicates the two differ: the loop deletes once per occurrence *)
Example dup_extra_delete :
  del_sorted_loop [1; 1] [10; 20; 30] = [10] /\ del_idx [1; 1] [10; 20; 30] = [10; 30].
Proof. split; reflexivity. Qed.

Example dup_index_error :
  del_loop_chk (sort_desc [2; 2]) [10; 20; 30] = None /\ del_idx [2; 2] [10; 20; 30] = [10; 20].
Proof. split; reflexivity. Qed.

(* general form: a repeated index z deletes positions z and z+1 of the original list *)
Lemma dup_two : forall A z (l : list A), S z < length l ->
  del_loop [z; z] l = del_idx [z; S z] l /\ (del_idx [z; z] l = del_idx [z] l).
Proof.
  intros A z l H. split.
  - rewrite <- (descending_del_is_filter_gen A [z; S z] [S z; z] l).
    + unfold del_loop. cbn [fold_left].
      revert l H. induction z as [|z IH]; intros l H.
      * destruct l as [|a [|b l]]; simpl in *; try lia; reflexivity.
      * destruct l as [|a l]; simpl in *; try lia. f_equal. apply IH. lia.
    + repeat constructor; simpl; intuition lia.
    + apply perm_swap.
    + repeat constructor; lia.
  - rewrite <- (del_idx_nodup A [z; z]). simpl.
    destruct (Nat.eq_dec z z) as [_|n]; [|congruence]. reflexivity.
Qed.

(* ---- the two-container loop *)
Lemma del_lines_loop_split : forall A B S (X : list A) (Y : list (list B)),
  del_lines_loop S X Y = (del_loop S X, map (del_loop S) Y).
Proof.
  unfold del_lines_loop, del_loop. induction S as [|z S IH]; intros X Y; cbn [fold_left fst snd].
  - f_equal. symmetry. apply map_id.
  - rewrite IH. f_equal. rewrite map_map. reflexivity.
Qed.

Theorem del_lines_is_filter : forall A B Z (X : list A) (Y : list (list B)),
  NoDup Z -> del_lines_loop (sort_desc Z) X Y = (del_idx Z X, map (del_idx Z) Y).
Proof.
  intros A B Z X Y ND. rewrite del_lines_loop_split. f_equal.
  - now apply descending_del_is_filter.
  - apply map_ext. intros r. now apply descending_del_is_filter.
Qed.

(* ================================================================== the reachable Z are duplicate-free *)

Lemma NoDup_snoc : forall (Z : list nat) j, NoDup Z -> ~ In j Z -> NoDup (Z ++ [j]).
Proof.
  induction Z as [|z Z IH]; simpl; intros j ND Hn.
  - repeat constructor. simpl; tauto.
  - inversion ND; subst. constructor.
    + rewrite in_app_iff. simpl. intuition.
    + apply IH; auto.
Qed.

(* Z is duplicate-free and below the bound b *)
Definition Zok (b : nat) (Z : list nat) : Prop := NoDup Z /\ forall z, In z Z -> z < b.

Lemma Zok_nil : forall b, Zok b [].
Proof. split; [constructor|intros z []]. Qed.

Lemma Zok_snoc : forall b Z j, Zok b Z -> ~ In j Z -> j < b -> Zok b (Z ++ [j]).
Proof.
  intros b Z j [ND Hb] Hn Hj. split; [now apply NoDup_snoc|].
  intros z Hz. apply in_app_iff in Hz. destruct Hz as [Hz|[<-|[]]]; auto.
Qed.

(* ---- deparallelize_rows / deparallelize_cols: `if j in zero_rows: continue` guards the append *)
Lemma depar_rows_inner_Z : forall b M i js L Z,
  (forall j, In j js -> j < b) -> Zok b Z -> Zok b (snd (depar_rows_inner M i js L Z)).
Proof.
  induction js as [|j js IH]; intros L Z Hjs HZ; [exact HZ|]. cbn [depar_rows_inner].
  assert (Hjs' : forall j', In j' js -> j' < b) by (intros; apply Hjs; now right).
  destruct (mem j Z) eqn:E; [now apply IH|].
  destruct (Qc_eq_bool _ _); [now apply IH|].
  apply IH; auto. apply Zok_snoc; auto; [now apply mem_nIn|apply Hjs; now left].
Qed.

Lemma depar_rows_outer_Z : forall M is L Z,
  Zok (length M) Z -> Zok (length M) (snd (depar_rows_outer M is L Z)).
Proof.
  induction is as [|i is IH]; intros L Z HZ; [exact HZ|]. cbn [depar_rows_outer].
  destruct (mem i Z); [now apply IH|].
  destruct (depar_rows_inner M i (seq (S i) (length M - S i)) L Z) as [L' Z'] eqn:E.
  apply IH. change Z' with (snd (L', Z')). rewrite <- E.
  apply depar_rows_inner_Z; auto. intros j Hj. apply in_seq in Hj. lia.
Qed.

Lemma depar_cols_inner_Z : forall b M i js R Z,
  (forall j, In j js -> j < b) -> Zok b Z -> Zok b (snd (depar_cols_inner M i js R Z)).
Proof.
  induction js as [|j js IH]; intros R Z Hjs HZ; [exact HZ|]. cbn [depar_cols_inner].
  assert (Hjs' : forall j', In j' js -> j' < b) by (intros; apply Hjs; now right).
  destruct (mem j Z) eqn:E; [now apply IH|].
  destruct (Qc_eq_bool _ _); [now apply IH|].
  apply IH; auto. apply Zok_snoc; auto; [now apply mem_nIn|apply Hjs; now left].
Qed.

Lemma depar_cols_outer_Z : forall M is R Z,
  Zok (ncols M) Z -> Zok (ncols M) (snd (depar_cols_outer M is R Z)).
Proof.
  induction is as [|i is IH]; intros R Z HZ; [exact HZ|]. cbn [depar_cols_outer].
  destruct (mem i Z); [now apply IH|].
  destruct (depar_cols_inner M i (seq (S i) (ncols M - S i)) R Z) as [R' Z'] eqn:E.
  apply IH. change Z' with (snd (R', Z')). rewrite <- E.
  apply depar_cols_inner_Z; auto. intros j Hj. apply in_seq in Hj. lia.
Qed.

(* the list handed to the deletion loop of deparallelize_rows / deparallelize_cols *)
Theorem deparallelize_rows_Z_ok : forall L M,
  Zok (length M) (snd (depar_rows_outer M (seq 0 (length M)) L [])).
Proof. intros. apply depar_rows_outer_Z, Zok_nil. Qed.

Theorem deparallelize_cols_Z_ok : forall R M,
  Zok (ncols M) (snd (depar_cols_outer M (seq 0 (ncols M)) R [])).
Proof. intros. apply depar_cols_outer_Z, Zok_nil. Qed.

(* ---- row_elimination / column_elimination: `while j < len(matrix)` visits each j once *)
Section FoldZ.
  Variables (X Y : Type) (f : X * Y * list nat -> nat -> X * Y * list nat).
  Hypothesis f_cases : forall st j, snd (f st j) = snd st \/ snd (f st j) = snd st ++ [j].

  Lemma fold_Z_ok : forall b js st,
    NoDup js -> (forall j, In j js -> j < b) ->
    Zok b (snd st) -> (forall z, In z (snd st) -> ~ In z js) ->
    Zok b (snd (fold_left f js st)).
  Proof.
    induction js as [|j js IH]; intros st ND Hb HZ Hd; [exact HZ|]. cbn [fold_left].
    inversion ND as [|? ? Hnj ND']; subst.
    assert (Hb' : forall j', In j' js -> j' < b) by (intros; apply Hb; now right).
    destruct (f_cases st j) as [E|E].
    - apply IH; auto; rewrite E; auto. intros z Hz Hin. apply (Hd z Hz). now right.
    - apply IH; auto; rewrite E.
      + apply Zok_snoc; auto; [|apply Hb; now left]. intros Hin. apply (Hd j Hin). now left.
      + intros z Hz Hin. apply in_app_iff in Hz. destruct Hz as [Hz|[<-|[]]]; auto.
        apply (Hd z Hz). now right.
  Qed.
End FoldZ.

Lemma row_elim_target_Z : forall pivot i st j,
  snd (row_elim_target pivot i st j) = snd st \/ snd (row_elim_target pivot i st j) = snd st ++ [j].
Proof.
  intros pivot i [[M L] Z] j.
  destruct (row_elim_target_cases pivot i M L Z j) as [E|[_ [f [M' [L' [iz [_ E]]]]]]]; rewrite E; simpl; auto.
  destruct iz; auto.
Qed.

Lemma col_elim_target_Z : forall pivot j st i,
  snd (col_elim_target pivot j st i) = snd st \/ snd (col_elim_target pivot j st i) = snd st ++ [i].
Proof.
  intros pivot j [[M R] Z] i.
  destruct (col_elim_target_cases pivot j M R Z i) as [E|[_ [f [M' [R' [iz [_ E]]]]]]]; rewrite E; simpl; auto.
  destruct iz; auto.
Qed.

(* the zero_rows / zero_cols list at the end of one pass of the inner while loop *)
Theorem row_elim_Z_ok : forall pivot i M L,
  Zok (length M) (snd (fold_left (row_elim_target pivot i) (seq 0 (length M)) (M, L, []))).
Proof.
  intros. apply fold_Z_ok.
  - apply row_elim_target_Z.
  - apply seq_NoDup.
  - intros j Hj. apply in_seq in Hj. lia.
  - apply Zok_nil.
  - intros z [].
Qed.

Theorem col_elim_Z_ok : forall pivot j M R,
  Zok (ncols M) (snd (fold_left (col_elim_target pivot j) (seq 0 (ncols M)) (M, R, []))).
Proof.
  intros. apply fold_Z_ok.
  - apply col_elim_target_Z.
  - apply seq_NoDup.
  - intros i Hi. apply in_seq in Hi. lia.
  - apply Zok_nil.
  - intros z [].
Qed.

(* ================================================================== the algorithm with literal loops *)
(* Copies of the definitions of Model.v in which every `del_idx` is replaced by the literal
   `for z in sorted(Z, reverse=True): del ..` loop over both containers. *)

Definition deparallelize_rows_lit (L : qmat) (M : mat) : qmat * mat :=
  let '(L', Z) := depar_rows_outer M (seq 0 (length M)) L [] in
  let '(M2, L2) := del_lines_loop (sort_desc Z) M L' in (L2, M2).

Definition deparallelize_cols_lit (R : qmat) (M : mat) : qmat * mat :=
  let '(R', Z) := depar_cols_outer M (seq 0 (ncols M)) R [] in
  del_lines_loop (sort_desc Z) R' M.

Definition row_elim_step_lit (i : nat) (L : qmat) (M : mat) : qmat * mat :=
  let '(M1, L1) :=
    if ent_is_zero (get M i i) then
      match find_row_pivot M i with Some j => row_swap M L i j | None => (M, L) end
    else (M, L) in
  let pivot := get M1 i i in
  if ent_is_zero pivot then (L1, M1)
  else
    let '(M2, L2, Z) := fold_left (row_elim_target pivot i) (seq 0 (length M1)) (M1, L1, []) in
    let '(M3, L3) := del_lines_loop (sort_desc Z) M2 L2 in (L3, M3).

Fixpoint row_elim_loop_lit (fuel i : nat) (L : qmat) (M : mat) : option (qmat * mat) :=
  if i <? Nat.min (length M) (ncols M) then
    match fuel with
    | 0 => None
    | S fuel' => let '(L', M') := row_elim_step_lit i L M in row_elim_loop_lit fuel' (S i) L' M'
    end
  else Some (L, M).

Definition row_elimination_lit (L : qmat) (M : mat) : option (qmat * mat) :=
  row_elim_loop_lit (length M) 0 L M.

Definition col_elim_step_lit (j : nat) (R : qmat) (M : mat) : qmat * mat :=
  let '(M1, R1) :=
    if ent_is_zero (get M j j) then
      match find_col_pivot M j with Some i => col_swap M R j i | None => (M, R) end
    else (M, R) in
  let pivot := get M1 j j in
  if ent_is_zero pivot then (R1, M1)
  else
    let '(M2, R2, Z) := fold_left (col_elim_target pivot j) (seq 0 (ncols M1)) (M1, R1, []) in
    del_lines_loop (sort_desc Z) R2 M2.

Fixpoint col_elim_loop_lit (fuel j : nat) (R : qmat) (M : mat) : option (qmat * mat) :=
  if j <? Nat.min (length M) (ncols M) then
    match fuel with
    | 0 => None
    | S fuel' => let '(R', M') := col_elim_step_lit j R M in col_elim_loop_lit fuel' (S j) R' M'
    end
  else Some (R, M).

Definition column_elimination_lit (R : qmat) (M : mat) : option (qmat * mat) :=
  col_elim_loop_lit (ncols M) 0 R M.

Fixpoint ge_loop_lit (fuel r c r_old c_old : nat) (L : qmat) (M : mat) (R : qmat)
  : option (qmat * mat * qmat) :=
  if (r =? r_old) && (c =? c_old) then Some (L, M, R)
  else
    match fuel with
    | 0 => None
    | S fuel' =>
        match row_elimination_lit L M with
        | None => None
        | Some (L', M1) =>
            match column_elimination_lit R M1 with
            | None => None
            | Some (R', M2) => ge_loop_lit fuel' (length M2) (ncols M2) r c L' M2 R'
            end
        end
    end.

Definition gaussian_elimination_lit (M : mat) : option (qmat * mat * qmat) :=
  match M with
  | [] => None
  | row0 :: _ =>
      let m := length M in
      let n := length row0 in
      let '(L1, M1) := deparallelize_rows_lit (identity m) M in
      let '(R1, M2) := deparallelize_cols_lit (identity n) M1 in
      ge_loop_lit (m + n + 1) m n 0 0 L1 M2 R1
  end.

Lemma deparallelize_rows_lit_eq : forall L M, deparallelize_rows_lit L M = deparallelize_rows L M.
Proof.
  intros. unfold deparallelize_rows_lit, deparallelize_rows.
  pose proof (deparallelize_rows_Z_ok L M) as [ND _].
  destruct (depar_rows_outer M (seq 0 (length M)) L []) as [L' Z]. cbn [snd] in ND.
  rewrite del_lines_is_filter by exact ND. reflexivity.
Qed.

Lemma deparallelize_cols_lit_eq : forall R M, deparallelize_cols_lit R M = deparallelize_cols R M.
Proof.
  intros. unfold deparallelize_cols_lit, deparallelize_cols.
  pose proof (deparallelize_cols_Z_ok R M) as [ND _].
  destruct (depar_cols_outer M (seq 0 (ncols M)) R []) as [R' Z]. cbn [snd] in ND.
  rewrite del_lines_is_filter by exact ND. reflexivity.
Qed.

Lemma row_elim_step_lit_eq : forall i L M, row_elim_step_lit i L M = row_elim_step i L M.
Proof.
  intros. unfold row_elim_step_lit, row_elim_step.
  destruct (if ent_is_zero (get M i i)
            then match find_row_pivot M i with Some j => row_swap M L i j | None => (M, L) end
            else (M, L)) as [M1 L1].
  destruct (ent_is_zero (get M1 i i)); [reflexivity|].
  destruct (fold_left (row_elim_target (get M1 i i) i) (seq 0 (length M1)) (M1, L1, [])) as [[M2 L2] Z] eqn:E.
  assert (ND : NoDup Z).
  { change Z with (snd (M2, L2, Z)). rewrite <- E. apply (row_elim_Z_ok (get M1 i i) i M1 L1). }
  rewrite del_lines_is_filter by exact ND. reflexivity.
Qed.

Lemma col_elim_step_lit_eq : forall j R M, col_elim_step_lit j R M = col_elim_step j R M.
Proof.
  intros. unfold col_elim_step_lit, col_elim_step.
  destruct (if ent_is_zero (get M j j)
            then match find_col_pivot M j with Some i => col_swap M R j i | None => (M, R) end
            else (M, R)) as [M1 R1].
  destruct (ent_is_zero (get M1 j j)); [reflexivity|].
  destruct (fold_left (col_elim_target (get M1 j j) j) (seq 0 (ncols M1)) (M1, R1, [])) as [[M2 R2] Z] eqn:E.
  assert (ND : NoDup Z).
  { change Z with (snd (M2, R2, Z)). rewrite <- E. apply (col_elim_Z_ok (get M1 j j) j M1 R1). }
  rewrite del_lines_is_filter by exact ND. reflexivity.
Qed.

Lemma row_elim_loop_lit_eq : forall fuel i L M, row_elim_loop_lit fuel i L M = row_elim_loop fuel i L M.
Proof.
  induction fuel as [|fuel IH]; intros; cbn [row_elim_loop_lit row_elim_loop]; [reflexivity|].
  destruct (i <? Nat.min (length M) (ncols M)); [|reflexivity].
  rewrite row_elim_step_lit_eq. destruct (row_elim_step i L M). apply IH.
Qed.

Lemma col_elim_loop_lit_eq : forall fuel j R M, col_elim_loop_lit fuel j R M = col_elim_loop fuel j R M.
Proof.
  induction fuel as [|fuel IH]; intros; cbn [col_elim_loop_lit col_elim_loop]; [reflexivity|].
  destruct (j <? Nat.min (length M) (ncols M)); [|reflexivity].
  rewrite col_elim_step_lit_eq. destruct (col_elim_step j R M). apply IH.
Qed.

Lemma ge_loop_lit_eq : forall fuel r c ro co L M R,
  ge_loop_lit fuel r c ro co L M R = ge_loop fuel r c ro co L M R.
Proof.
  induction fuel as [|fuel IH]; intros; cbn [ge_loop_lit ge_loop]; [reflexivity|].
  destruct ((r =? ro) && (c =? co)); [reflexivity|].
  unfold row_elimination_lit, column_elimination_lit, row_elimination, column_elimination.
  rewrite row_elim_loop_lit_eq. destruct (row_elim_loop (length M) 0 L M) as [[L' M1]|]; [|reflexivity].
  rewrite col_elim_loop_lit_eq. destruct (col_elim_loop (ncols M1) 0 R M1) as [[R' M2]|]; [|reflexivity].
  apply IH.
Qed.

(* the algorithm with the literal deletion loops is the model, on every input *)
Theorem gaussian_elimination_lit_eq : forall M, gaussian_elimination_lit M = gaussian_elimination M.
Proof.
  intros [|row0 M]; [reflexivity|]. unfold gaussian_elimination_lit, gaussian_elimination.
  rewrite deparallelize_rows_lit_eq. destruct (deparallelize_rows _ _) as [L1 M1].
  rewrite deparallelize_cols_lit_eq. destruct (deparallelize_cols _ _) as [R1 M2].
  apply ge_loop_lit_eq.
Qed.
