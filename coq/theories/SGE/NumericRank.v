(* SGE/NumericRank.v -- vocabulary for the minimality theorem of the symbolic Gaussian
   elimination (SGE/Model.v) on NUMERIC coefficient matrices (property C12).

   Concrete side (about `Model.mat`):
     numeric M          every entry of M is a rational constant `Num q` (no symbol)
     val M i j          the rational in position (i,j)  (0 outside the matrix)
     nonzero_lines      no row and no column of the m x n matrix is identically zero
     diag_nz r M        the r x r matrix M is diagonal with a non-zero diagonal

   Abstract side (matrices as functions nat -> nat -> Qc with explicit dimensions): one
   iteration of the outer loop of row_elimination as a relation `estep` (pivot search = row
   swap `s`, elimination `elim2`, deletion of the rows that became zero = re-indexing `kp`),
   the loop `erun`, and the deletion of parallel lines `edep`.  column_elimination is the
   same relation on the transposed function (`tr`).  No proofs in this file. *)
From Coq Require Import ZArith QArith Qcanon List Arith Bool.
From PTN Require Import SGE.Model SGE.ModelProofs.
Import ListNotations.
Local Close Scope Q_scope.
Local Open Scope nat_scope.

(* ---------------------------------------------------------------- concrete vocabulary *)

Definition is_num (e : ent) : Prop := match e with Num _ => True | Sym _ _ => False end.
Definition numeric (M : mat) : Prop := Forall (Forall is_num) M.

Definition val (M : mat) (i j : nat) : Qc := coef (get M i j) None.

Definition nonzero_lines (m n : nat) (M : mat) : Prop :=
  (forall i, i < m -> exists j, j < n /\ val M i j <> q0) /\
  (forall j, j < n -> exists i, i < m /\ val M i j <> q0).

Definition diag_nz (r : nat) (M : mat) : Prop :=
  forall i j, i < r -> j < r -> (i = j -> val M i j <> q0) /\ (i <> j -> val M i j = q0).

(* executable versions of the two hypotheses (sound: NumericRankProofs.numericb_ok,
   nonzero_linesb_ok) and a constructor for numeric matrices from integers *)
Definition is_numb (e : ent) : bool := match e with Num _ => true | Sym _ _ => false end.
Definition numericb (M : mat) : bool := forallb (forallb is_numb) M.
Definition nonzero_linesb (m n : nat) (M : mat) : bool :=
  forallb (fun i => existsb (fun j => negb (ent_is_zero (get M i j))) (seq 0 n)) (seq 0 m) &&
  forallb (fun j => existsb (fun i => negb (ent_is_zero (get M i j))) (seq 0 m)) (seq 0 n).
Definition num_mat (l : list (list Z)) : mat := map (map (fun z => Num (Q2Qc (inject_Z z)))) l.

(* ---------------------------------------------------------------- abstract matrices *)

Definition fmat := nat -> nat -> Qc.
Definition tr (A : fmat) : fmat := fun r c => A c r.

Definition nz_rows (m n : nat) (A : fmat) : Prop :=
  forall r, r < m -> exists c, c < n /\ A r c <> q0.
Definition good (m n : nat) (A : fmat) : Prop := nz_rows m n A /\ nz_rows n m (tr A).

(* A = X * Y through an inner dimension k *)
Definition factors (k m n : nat) (A : fmat) : Prop :=
  exists X Y : fmat, forall r c, r < m -> c < n -> A r c = sumn k (fun l => (X r l * Y l c)%Qc).

Definition fdiag (r : nat) (A : fmat) : Prop :=
  forall i j, i < r -> j < r -> (i = j -> A i j <> q0) /\ (i <> j -> A i j = q0).

(* `kp` enumerates, in increasing order, the m' positions of 0..m-1 that are not in Z *)
Definition kappa_ok (m m' : nat) (Z : list nat) (kp : nat -> nat) : Prop :=
  m' <= m /\
  (forall r, r < m' -> kp r < m /\ ~ In (kp r) Z) /\
  (forall r, r < m -> ~ In r Z -> exists r', r' < m' /\ kp r' = r) /\
  ((forall r, r < m -> ~ In r Z) -> m' = m /\ forall r, r < m -> kp r = r) /\
  ((exists r, r < m /\ In r Z) -> m' < m).

(* the pivot search of step i: nothing (diagonal entry non-zero, or no candidate below it),
   or a swap of row i with the first row j > i that is non-zero in column i *)
Definition swap_ok (i m : nat) (A : fmat) (s : nat -> nat) : Prop :=
  ((forall r, s r = r) /\ (A i i <> q0 \/ forall r, i < r < m -> A r i = q0)) \/
  (exists j, i < j < m /\ A i i = q0 /\ A j i <> q0 /\ forall r, s r = sw i j r).

(* the matrix after the inner `while j < len(matrix)` loop: every row r <> i gets
   row r - (entry (r,i) / pivot) * row i (rows with a zero in column i are unchanged by it) *)
Definition elim2 (i : nat) (A : fmat) (s : nat -> nat) : fmat :=
  fun r c => if r =? i then A (s i) c
             else (A (s r) c - (A (s r) i / A (s i) i) * A (s i) c)%Qc.

(* one iteration of the outer loop, index i, on the m x n matrix A; result m' x n *)
Definition estep (i m n : nat) (A : fmat) (m' : nat) (A' : fmat) : Prop :=
  exists s, swap_ok i m A s /\
   ((A (s i) i = q0 /\ m' = m /\ forall r c, r < m -> c < n -> A' r c = A (s r) c) \/
    (A (s i) i <> q0 /\ exists Z kp,
       (forall r, In r Z <->
          (r < m /\ r <> i /\ A (s r) i <> q0 /\ forall c, c < n -> elim2 i A s r c = q0)) /\
       kappa_ok m m' Z kp /\
       forall r c, r < m' -> c < n -> A' r c = elim2 i A s (kp r) c)).

(* the outer loop from index i *)
Inductive erun : nat -> nat -> nat -> fmat -> nat -> fmat -> Prop :=
| erun_stop : forall i m n A A',
    ~ (i < Nat.min m n) -> (forall r c, r < m -> c < n -> A' r c = A r c) -> erun i m n A m A'
| erun_step : forall i m n A m1 A1 m2 A2,
    i < Nat.min m n -> estep i m n A m1 A1 -> erun (S i) m1 n A1 m2 A2 -> erun i m n A m2 A2.

(* deletion of rows each of which is a non-zero multiple of an earlier row *)
Definition edep (m n : nat) (A : fmat) (m' : nat) (A' : fmat) : Prop :=
  exists Z kp, kappa_ok m m' Z kp /\
    (forall z, In z Z -> exists i mult, i < z /\ mult <> q0 /\
                                         forall c, c < n -> A z c = (mult * A i c)%Qc) /\
    forall r c, r < m' -> c < n -> A' r c = A (kp r) c.
