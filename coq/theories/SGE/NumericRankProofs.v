(* SGE/NumericRankProofs.v -- the symbolic Gaussian elimination of SGE/Model.v on a NUMERIC
   matrix computes the rank (property C12).

   Part I  (abstract matrices nat -> nat -> Qc, SGE/NumericRank.v: estep, erun, edep): what every
           loop iteration preserves (no zero line; every factorisation through k), and the shape
           of the result of a round that deletes nothing (`last_round`: square, diagonal, non-zero
           diagonal).
   Part II (the model): every iteration of row_elimination / column_elimination of the model
           on a numeric matrix is an `estep` (column_elimination: on the transposed matrix), the
           deparallelisation an `edep`; hence gaussian_elimination returns a square diagonal
           reduced matrix with non-zero diagonal and the input factors through no inner dimension
           smaller than its size (`ge_numeric_minimal`). *)
From Coq Require Import ZArith QArith Qcanon List Arith Bool Lia.
From PTN Require Import SGE.Model SGE.ModelProofs SGE.NumericRank.
Import ListNotations.
Local Close Scope Q_scope.
Local Open Scope nat_scope.

(* ################################################################## Part I: abstract matrices *)

(* ------------------------------------------------------------------ small facts *)

Lemma row_zero_dec : forall n (f : nat -> Qc),
  (forall c, c < n -> f c = q0) \/ (exists c, c < n /\ f c <> q0).
Proof.
  induction n as [|n IH]; intros f.
  - left. intros. lia.
  - destruct (IH f) as [H|(c & H1 & H2)].
    + destruct (Qc_eq_dec (f n) q0) as [E|E].
      * left. intros c Hc. destruct (Nat.eq_dec c n) as [->|]; auto. apply H. lia.
      * right. exists n. split; auto.
    + right. exists c. split; auto.
Qed.

Lemma sw_invol : forall i j r, sw i j (sw i j r) = r.
Proof.
  intros. unfold sw.
  destruct (Nat.eqb_spec r i); destruct (Nat.eqb_spec r j); subst;
    repeat match goal with |- context [?a =? ?b] => destruct (Nat.eqb_spec a b) end; try lia; auto.
Qed.

Lemma swap_facts : forall i m A s, i < m -> swap_ok i m A s ->
  (forall r, r < m -> s r < m) /\ (forall r, s (s r) = r) /\
  (forall r, r < i -> s r = r) /\ (forall r, i <= r -> i <= s r).
Proof.
  intros i m A s Hi [(Hs & _)|(j & Hj & _ & _ & Hs)].
  - repeat split; intros; rewrite ?Hs; auto.
  - repeat split; intros; rewrite ?Hs.
    + apply sw_lt; lia.
    + apply sw_invol.
    + unfold sw. destruct (Nat.eqb_spec r i); destruct (Nat.eqb_spec r j); lia.
    + unfold sw. destruct (Nat.eqb_spec r i); destruct (Nat.eqb_spec r j); lia.
Qed.

Lemma estep_le : forall i m n A m' A', estep i m n A m' A' -> m' <= m.
Proof.
  intros i m n A m' A' (s & Hs & [(_ & -> & _)|(_ & Z & kp & _ & K & _)]); [lia | apply K].
Qed.

Lemma erun_le : forall i m n A m' A', erun i m n A m' A' -> m' <= m.
Proof.
  induction 1; auto. apply estep_le in H0. lia.
Qed.

Lemma elim2_pivot_row : forall i A s c, elim2 i A s i c = A (s i) c.
Proof. intros. unfold elim2. rewrite Nat.eqb_refl. reflexivity. Qed.

Lemma elim2_other : forall i A s r c, r <> i ->
  elim2 i A s r c = (A (s r) c - (A (s r) i / A (s i) i) * A (s i) c)%Qc.
Proof. intros. unfold elim2. destruct (Nat.eqb_spec r i); try lia. reflexivity. Qed.

(* ------------------------------------------------------------------ no zero line *)

Lemma estep_good : forall i m n A m' A', i < m -> i < n ->
  good m n A -> estep i m n A m' A' -> good m' n A'.
Proof.
  intros i m n A m' A' Hi Hin [Hr Hc] (s & Hs & Hcase).
  destruct (swap_facts i m A s Hi Hs) as (S1 & S2 & S3 & S4).
  destruct Hcase as [(Hp & -> & HA')|(Hp & Z & kp & HZ & K & HA')].
  - split.
    + intros r Hr'. destruct (Hr (s r) (S1 r Hr')) as (c & Hc1 & Hc2).
      exists c. split; auto. rewrite HA'; auto.
    + intros c Hc'. unfold tr. destruct (Hc c Hc') as (r & Hr1 & Hr2). unfold tr in Hr2.
      exists (s r). split. apply S1; auto. rewrite HA' by auto. rewrite S2. auto.
  - destruct K as (K1 & K2 & K3 & K4 & K5). split.
    + intros r' Hr'. destruct (K2 r' Hr') as (Kr & KnZ).
      destruct (row_zero_dec n (fun c => elim2 i A s (kp r') c)) as [Hz|(c & Hc1 & Hc2)].
      * exfalso. destruct (Nat.eq_dec (kp r') i) as [e|ne].
        -- destruct (Hr (s i) (S1 i Hi)) as (c & Hlt & Hne). apply Hne.
           specialize (Hz c Hlt). simpl in Hz. rewrite e, elim2_pivot_row in Hz. auto.
        -- destruct (Qc_eq_dec (A (s (kp r')) i) q0) as [e|ne2].
           ++ destruct (Hr (s (kp r')) (S1 _ Kr)) as (c & Hlt & Hne). apply Hne.
              specialize (Hz c Hlt). simpl in Hz. rewrite elim2_other in Hz by auto.
              rewrite e in Hz. rewrite <- Hz. field. auto.
           ++ apply KnZ. apply HZ. repeat split; auto.
      * exists c. split; auto. rewrite HA' by auto. auto.
    + intros c Hc'. unfold tr.
      destruct (row_zero_dec m' (fun r => A' r c)) as [Hz|(r & H1 & H2)]; [exfalso | exists r; auto].
      assert (H2z : forall r, r < m -> elim2 i A s r c = q0).
      { intros r Hr'. destruct (in_dec Nat.eq_dec r Z) as [Hin'|Hnin].
        - apply HZ in Hin'. apply Hin'; auto.
        - destruct (K3 r Hr' Hnin) as (r' & R1 & R2). rewrite <- R2. rewrite <- HA' by auto.
          apply Hz; auto. }
      assert (Hic : A (s i) c = q0).
      { specialize (H2z i Hi). rewrite elim2_pivot_row in H2z. auto. }
      destruct (Hc c Hc') as (r & Hr1 & Hr2). unfold tr in Hr2. apply Hr2.
      specialize (H2z (s r) (S1 r Hr1)).
      destruct (Nat.eq_dec (s r) i) as [e|ne].
      * rewrite <- e, S2 in Hic. auto.
      * rewrite elim2_other in H2z by auto. rewrite S2, Hic in H2z. rewrite <- H2z. field. auto.
Qed.

Lemma good_ext : forall m n A A', (forall r c, r < m -> c < n -> A' r c = A r c) ->
  good m n A -> good m n A'.
Proof.
  intros m n A A' E [Hr Hc]. split.
  - intros r Hr'. destruct (Hr r Hr') as (c & H1 & H2). exists c. split; auto. rewrite E; auto.
  - intros c Hc'. destruct (Hc c Hc') as (r & H1 & H2). exists r. split; auto. unfold tr in *.
    rewrite E; auto.
Qed.

Lemma erun_good : forall i m n A m' A', erun i m n A m' A' -> good m n A -> good m' n A'.
Proof.
  induction 1; intros G.
  - eapply good_ext; eauto.
  - apply IHerun. apply (estep_good i m n A m1 A1); auto; lia.
Qed.

Lemma good_tr : forall m n A, good m n A -> good n m (tr A).
Proof. intros m n A [H1 H2]. split; auto. Qed.

(* ------------------------------------------------------------------ factorisations *)

Lemma factors_tr : forall k m n A, factors k m n A -> factors k n m (tr A).
Proof.
  intros k m n A (X & Y & H). exists (tr Y), (tr X). intros r c Hr Hc. unfold tr.
  rewrite H by auto. apply sumn_ext. intros. ring.
Qed.

Lemma factors_reindex : forall k m n A m' A' (f : nat -> nat),
  (forall r, r < m' -> f r < m) -> (forall r c, r < m' -> c < n -> A' r c = A (f r) c) ->
  factors k m n A -> factors k m' n A'.
Proof.
  intros k m n A m' A' f Hf HA (X & Y & H). exists (fun r l => X (f r) l), Y.
  intros r c Hr Hc. rewrite HA by auto. apply H; auto.
Qed.

Lemma estep_factors : forall k i m n A m' A', i < m -> i < n ->
  factors k m n A -> estep i m n A m' A' -> factors k m' n A'.
Proof.
  intros k i m n A m' A' Hi Hin F (s & Hs & Hcase).
  destruct (swap_facts i m A s Hi Hs) as (S1 & S2 & S3 & S4).
  destruct Hcase as [(Hp & -> & HA')|(Hp & Z & kp & HZ & K & HA')].
  - apply (factors_reindex k m n A m A' s); auto.
  - destruct K as (K1 & K2 & K3 & K4 & K5).
    apply (factors_reindex k m n (elim2 i A s) m' A' kp); auto.
    { intros r Hr. apply K2; auto. }
    destruct F as (X & Y & H).
    exists (fun r l => if r =? i then X (s i) l
                       else (X (s r) l - (A (s r) i / A (s i) i) * X (s i) l)%Qc), Y.
    intros r c Hr Hc. cbv beta. unfold elim2. destruct (Nat.eqb_spec r i).
    + apply H; auto.
    + generalize (A (s r) i / A (s i) i)%Qc. intro f. rewrite !H by auto.
      rewrite (sumn_ext k (fun l => ((X (s r) l - f * X (s i) l) * Y l c)%Qc)
                 (fun l => (X (s r) l * Y l c + (- f) * (X (s i) l * Y l c))%Qc))
        by (intros; ring).
      rewrite sumn_plus, sumn_scal_l. ring.
Qed.

Lemma factors_ext : forall k m n A A', (forall r c, r < m -> c < n -> A' r c = A r c) ->
  factors k m n A -> factors k m n A'.
Proof. intros k m n A A' E. apply (factors_reindex k m n A m A' (fun r => r)); auto. Qed.

Lemma erun_factors : forall k i m n A m' A', erun i m n A m' A' -> factors k m n A -> factors k m' n A'.
Proof.
  induction 1; intros F.
  - eapply factors_ext; eauto.
  - apply IHerun. apply (estep_factors k i m n A m1 A1); auto; lia.
Qed.

(* ------------------------------------------------------------------ deparallelisation *)

Lemma edep_le : forall m n A m' A', edep m n A m' A' -> m' <= m.
Proof. intros m n A m' A' (Z & kp & K & _). apply K. Qed.

Lemma edep_factors : forall k m n A m' A', factors k m n A -> edep m n A m' A' -> factors k m' n A'.
Proof.
  intros k m n A m' A' F (Z & kp & (K1 & K2 & _) & _ & HA').
  apply (factors_reindex k m n A m' A' kp); auto. intros. apply K2; auto.
Qed.

Lemma edep_good : forall m n A m' A', good m n A -> edep m n A m' A' -> good m' n A'.
Proof.
  intros m n A m' A' [Hr Hc] (Z & kp & (K1 & K2 & K3 & _) & Hpar & HA'). split.
  - intros r Hr'. destruct (K2 r Hr') as (Kr & _). destruct (Hr _ Kr) as (c & H1 & H2).
    exists c. split; auto. rewrite HA'; auto.
  - intros c Hc'. unfold tr. destruct (Hc c Hc') as (r0 & Hr0 & Hne). unfold tr in Hne.
    assert (Hkept : forall r, r < m -> A r c <> q0 -> exists r1, r1 < m /\ ~ In r1 Z /\ A r1 c <> q0).
    { intros r. induction r as [r IH] using lt_wf_ind. intros Hr' Hn.
      destruct (in_dec Nat.eq_dec r Z) as [Hin|Hnin].
      - destruct (Hpar r Hin) as (i & mult & Hi & Hm & Hrow).
        apply (IH i Hi). lia. intro E. apply Hn. rewrite Hrow by auto. rewrite E. ring.
      - exists r. auto. }
    destruct (Hkept r0 Hr0 Hne) as (r1 & R1 & R2 & R3).
    destruct (K3 r1 R1 R2) as (r' & P1 & P2). exists r'. split; auto.
    rewrite HA' by auto. rewrite P2. auto.
Qed.

(* ------------------------------------------------------------------ a step that deletes nothing *)

Lemma estep_same : forall i m n A A', estep i m n A m A' ->
  exists s, swap_ok i m A s /\
   ((A (s i) i = q0 /\ forall r c, r < m -> c < n -> A' r c = A (s r) c) \/
    (A (s i) i <> q0 /\
     (forall r, r < m -> r <> i -> A (s r) i <> q0 -> exists c, c < n /\ elim2 i A s r c <> q0) /\
     forall r c, r < m -> c < n -> A' r c = elim2 i A s r c)).
Proof.
  intros i m n A A' (s & Hs & Hcase). exists s. split; auto.
  destruct Hcase as [(Hp & _ & HA')|(Hp & Z & kp & HZ & K & HA')]; [left; auto | right].
  destruct K as (K1 & K2 & K3 & K4 & K5).
  assert (HnZ : forall r, r < m -> ~ In r Z).
  { intros r Hr Hin. assert (m < m) by (apply K5; exists r; auto). lia. }
  destruct (K4 HnZ) as (_ & Hkp).
  split; auto. split.
  - intros r Hr Hne Hnz.
    destruct (row_zero_dec n (fun c => elim2 i A s r c)) as [Hz|Hex]; auto.
    exfalso. apply (HnZ r Hr). apply HZ. auto.
  - intros r c Hr Hc. rewrite HA' by auto. rewrite Hkp; auto.
Qed.

Lemma sw_left : forall i j, sw i j i = j.
Proof. intros. unfold sw. rewrite Nat.eqb_refl. reflexivity. Qed.

(* column k is "done": a single non-zero entry, on the diagonal -- or nothing on and below the
   diagonal *)
Definition colP (m : nat) (A : fmat) (k : nat) : Prop :=
  (A k k <> q0 /\ forall r, r < m -> r <> k -> A r k = q0) \/ (forall r, k <= r < m -> A r k = q0).

Lemma colP_ext : forall m A A' k, k < m -> (forall r, r < m -> A' r k = A r k) ->
  colP m A k -> colP m A' k.
Proof.
  intros m A A' k Hk E [(H1 & H2)|H].
  - left. split. rewrite E; auto. intros. rewrite E; auto.
  - right. intros. rewrite E by lia. auto.
Qed.

Lemma estep_colP : forall i m n A A', i < m -> i < n -> estep i m n A m A' ->
  (forall k, k < i -> colP m A k) -> forall k, k < S i -> colP m A' k.
Proof.
  intros i m n A A' Hi Hin St Hold k Hk.
  destruct (estep_same _ _ _ _ _ St) as (s & Hs & Hcase).
  destruct (swap_facts i m A s Hi Hs) as (S1 & S2 & S3 & S4).
  assert (Hsw : forall k, k < i -> colP m (fun r c => A (s r) c) k).
  { intros k0 Hk0. destruct (Hold k0 Hk0) as [(H1 & H2)|H].
    - left. split. rewrite S3; auto. intros r Hr Hne. apply H2. apply S1; auto.
      intro E. apply Hne. rewrite <- (S2 r), E. apply S3; auto.
    - right. intros r Hr. apply H. split. 2:{ apply S1. lia. }
      destruct (Nat.lt_ge_cases r i). rewrite S3; lia. specialize (S4 r H0). lia. }
  assert (Hik : forall k, k < i -> A (s i) k = q0).
  { intros k0 Hk0. destruct (Hsw k0 Hk0) as [(H1 & H2)|H]. apply H2; auto; lia. apply H. lia. }
  destruct (Nat.eq_dec k i) as [->|Hne].
  - (* the new column *)
    destruct Hcase as [(Hp & HA')|(Hp & Hnz & HA')].
    + right. intros r Hr. rewrite HA' by lia.
      destruct Hs as [(Hid & [Hd|Hb])|(j & Hj & Hd & Hjn & Hsj)].
      * rewrite Hid in Hp. contradiction.
      * rewrite Hid in *. destruct (Nat.eq_dec r i) as [->|]; auto. apply Hb. lia.
      * rewrite Hsj, sw_left in Hp. contradiction.
    + left. split.
      * rewrite HA' by auto. rewrite elim2_pivot_row. auto.
      * intros r Hr Hne. rewrite HA' by auto. rewrite elim2_other by auto. field. auto.
  - assert (Hki : k < i) by lia.
    apply (colP_ext m (fun r c => A (s r) c)); try lia; auto.
    intros r Hr. destruct Hcase as [(Hp & HA')|(Hp & Hnz & HA')]; rewrite HA' by lia; auto.
    destruct (Nat.eq_dec r i) as [->|Hri].
    + apply elim2_pivot_row.
    + rewrite elim2_other by auto. rewrite (Hik k Hki). field. auto.
Qed.

Lemma erun_colP : forall i m n A m' B, erun i m n A m' B -> m' = m ->
  (forall k, k < i -> colP m A k) -> forall k, k < Nat.min m n -> colP m B k.
Proof.
  induction 1 as [i m n A A' Hstop E|i m n A m1 A1 m2 A2 Hlt St Run IH]; intros Hm Hold k Hk.
  - apply (colP_ext m A); try lia. intros; apply E; lia. apply Hold. lia.
  - pose proof (estep_le _ _ _ _ _ _ St). pose proof (erun_le _ _ _ _ _ _ Run).
    assert (m1 = m) by lia. subst m1. subst m2.
    apply IH; auto. apply (estep_colP i m n A A1); auto; lia.
Qed.

(* ------------------------------------------------------------------ a step that must delete *)

(* rows j..e-1 are non-zero multiples of unit vectors (on the diagonal) and some later row is
   non-zero but supported on the columns j..e-1: the loop from j deletes a row *)
Lemma erun_deletes : forall j m n G m' G', erun j m n G m' G' ->
  forall e i0, j <= e -> e <= Nat.min m n -> e <= i0 < m ->
  (forall k, j <= k < e -> G k k <> q0 /\ forall c, c < n -> c <> k -> G k c = q0) ->
  (forall c, c < n -> G i0 c <> q0 -> j <= c < e) ->
  (exists c, c < n /\ G i0 c <> q0) -> m' < m.
Proof.
  induction 1 as [j m n G G' Hstop E|j m n G m1 G1 m2 G2 Hlt St Run IH];
    intros e i0 Hje Hem Hi0 Hunit Hsupp (c0 & Hc0 & Hnz0).
  - exfalso. specialize (Hsupp c0 Hc0 Hnz0). lia.
  - pose proof (estep_le _ _ _ _ _ _ St) as Le1. pose proof (erun_le _ _ _ _ _ _ Run) as Le2.
    destruct (Nat.eq_dec m1 m) as [->|]; [|lia].
    destruct (Nat.eq_dec j e) as [->|Hne]. { specialize (Hsupp c0 Hc0 Hnz0). lia. }
    assert (Hj : j < e) by lia.
    destruct (Hunit j (conj (le_n _) Hj)) as (Hjj & Hjrow).
    destruct (estep_same _ _ _ _ _ St) as (s & Hs & Hcase).
    assert (Hid : forall r, s r = r).
    { destruct Hs as [(Hid & _)|(j' & _ & Hd & _)]; auto. contradiction. }
    rewrite Hid in Hcase.
    destruct Hcase as [(Hp & _)|(_ & Hnz & HG1)]; [contradiction|].
    (* the elimination only clears column j *)
    assert (Hel : forall r c, r < m -> c < n -> r <> j ->
              G1 r c = if c =? j then q0 else G r c).
    { intros r c Hr Hc Hrj. rewrite HG1 by auto. rewrite elim2_other by auto. rewrite !Hid.
      destruct (Nat.eqb_spec c j) as [->|Hcj]. field; auto.
      rewrite (Hjrow c Hc Hcj). field. auto. }
    apply (IH e i0); auto; try lia.
    + intros k Hk. destruct (Hunit k) as (Hkk & Hkrow). lia. split.
      * rewrite Hel by lia. destruct (Nat.eqb_spec k j); try lia. auto.
      * intros c Hc Hck. rewrite Hel by lia. destruct (Nat.eqb_spec c j); auto.
    + intros c Hc Hn. rewrite Hel in Hn by lia. destruct (Nat.eqb_spec c j). contradiction.
      specialize (Hsupp c Hc Hn). lia.
    + destruct (Qc_eq_dec (G i0 j) q0) as [Ez|Enz].
      * exists c0. split; auto. rewrite Hel by lia.
        destruct (Nat.eqb_spec c0 j) as [->|]; auto.
      * destruct (Hnz i0) as (c & Hc & Hn); try lia. rewrite Hid; auto.
        exists c. split; auto. rewrite HG1 by lia. auto.
Qed.

(* ------------------------------------------------------------------ a diagonal matrix is left alone *)

Lemma erun_diag : forall j m n G m' G', erun j m n G m' G' -> m = n -> fdiag m G ->
  m' = m /\ fdiag m G'.
Proof.
  induction 1 as [j m n G G' Hstop E|j m n G m1 G1 m2 G2 Hlt St Run IH]; intros Hmn D.
  - split; auto. subst n. intros a b Ha Hb. rewrite E by auto. apply D; auto.
  - subst n. assert (Hj : j < m) by lia.
    destruct St as (s & Hs & Hcase).
    destruct (D j j Hj Hj) as (Djj & _). specialize (Djj eq_refl).
    assert (Hid : forall r, s r = r).
    { destruct Hs as [(Hid & _)|(j' & _ & Hd & _)]; auto. contradiction. }
    rewrite Hid in Hcase.
    destruct Hcase as [(Hp & _)|(_ & Z & kp & HZ & K & HG1)]; [contradiction|].
    destruct K as (K1 & K2 & K3 & K4 & K5).
    assert (HnZ : forall r, r < m -> ~ In r Z).
    { intros r Hr Hin. apply HZ in Hin. destruct Hin as (_ & Hrj & Hn & _). apply Hn.
      rewrite Hid. apply D; auto. }
    destruct (K4 HnZ) as (-> & Hkp).
    apply IH; auto.
    intros a b Ha Hb. rewrite HG1 by auto. rewrite Hkp by auto.
    destruct (Nat.eq_dec a j) as [->|Haj].
    + rewrite elim2_pivot_row, Hid. apply D; auto.
    + rewrite elim2_other by auto. rewrite !Hid.
      assert (Ez : G a j = q0) by (apply D; auto). rewrite Ez.
      replace (G a b - q0 / G j j * G j b)%Qc with (G a b) by (field; auto). apply D; auto.
Qed.

(* ------------------------------------------------------------------ the last round *)

(* a row round followed by a column round on a matrix without zero lines, neither of which
   deletes anything, ends in a square diagonal matrix with a non-zero diagonal *)
Theorem last_round : forall m n A B C, good m n A ->
  erun 0 m n A m B -> erun 0 n m (tr B) n (tr C) -> m = n /\ fdiag m C.
Proof.
  intros m n A B C GA RB RC.
  pose proof (erun_good _ _ _ _ _ _ RB GA) as [GBr GBc].
  assert (P : forall k, k < Nat.min m n -> colP m B k).
  { apply (erun_colP 0 m n A m B RB eq_refl). intros. lia. }
  assert (U : forall i, i < Nat.min m n -> B i i <> q0 /\ forall r, r < m -> r <> i -> B r i = q0).
  { intros i. induction i as [i IHi] using lt_wf_ind. intros Hi.
    destruct (P i Hi) as [H|H]; auto. exfalso.
    assert (n < n); [|lia].
    apply (erun_deletes 0 n m (tr B) n (tr C) RC i i); try lia.
    - intros k Hk. destruct (IHi k) as (U1 & U2); try lia. split; auto.
    - intros c Hc Hn. unfold tr in Hn. split; try lia.
      destruct (Nat.lt_ge_cases c i); auto. exfalso. apply Hn. apply H. lia.
    - apply GBc. lia. }
  assert (Hnm : n <= m).
  { destruct (Nat.le_gt_cases n m); auto. exfalso.
    assert (n < n); [|lia].
    apply (erun_deletes 0 n m (tr B) n (tr C) RC m m); try lia.
    - intros k Hk. destruct (U k) as (U1 & U2); try lia. split; auto.
    - apply GBc. lia. }
  assert (Hmn : m <= n).
  { destruct (Nat.le_gt_cases m n); auto. exfalso.
    destruct (GBr n) as (c & Hc & Hn); try lia. apply Hn. apply U; lia. }
  assert (m = n) by lia. subst n. split; auto.
  assert (D : fdiag m (tr B)).
  { intros a b Ha Hb. unfold tr. destruct (U a) as (U1 & U2). lia. split.
    - intros ->. auto.
    - intros Hab. apply U2; auto. }
  destruct (erun_diag 0 m m (tr B) m (tr C) RC eq_refl D) as (_ & D').
  intros a b Ha Hb. destruct (D' b a Hb Ha) as (D1 & D2). unfold tr in *. split.
  - intros ->. auto.
  - intros Hab. apply D2. auto.
Qed.

(* a diagonal r x r matrix with a non-zero diagonal *)
Lemma fdiag_entry : forall r A a b, fdiag r A -> a < r -> b < r ->
  A a b = if a =? b then A a a else q0.
Proof.
  intros r A a b D Ha Hb. destruct (Nat.eqb_spec a b) as [->|Hne]; auto. apply D; auto.
Qed.

(* ################################################################## Part II: the model *)

(* ================================================================== numeric matrices *)

Lemma is_num_default : is_num (Num q0).
Proof. exact I. Qed.

Lemma numeric_row : forall M i, numeric M -> Forall is_num (nth i M []).
Proof. intros. apply Forall_nth_default; auto. Qed.

Lemma numeric_get : forall M i j, numeric M -> is_num (get M i j).
Proof. intros. unfold get. apply Forall_nth_default. apply numeric_row; auto. exact I. Qed.

Lemma get_num : forall M i j, numeric M -> get M i j = Num (val M i j).
Proof.
  intros M i j H. pose proof (numeric_get M i j H) as N. unfold val.
  destruct (get M i j); simpl in *; [reflexivity|contradiction].
Qed.

Lemma is_zero_val : forall M i j, numeric M ->
  ent_is_zero (get M i j) = Qc_eq_bool (val M i j) q0.
Proof. intros. rewrite (get_num M i j H) at 1. reflexivity. Qed.

Lemma val_out_row : forall M k l, length M <= k -> val M k l = q0.
Proof. intros. unfold val. rewrite get_out_row; auto. Qed.

Lemma numeric_col : forall M k, numeric M -> Forall is_num (col k M).
Proof.
  intros M k H. unfold col. rewrite Forall_map. unfold numeric in H.
  eapply Forall_impl; [|exact H]. simpl. intros r Hr. apply Forall_nth_default; auto. exact I.
Qed.

Lemma numericb_ok : forall M, numericb M = true -> numeric M.
Proof.
  intros M H. unfold numericb in H. rewrite forallb_forall in H. apply Forall_forall.
  intros r Hr. specialize (H r Hr). rewrite forallb_forall in H. apply Forall_forall.
  intros e He. specialize (H e He). destruct e; simpl in *; [exact I|discriminate].
Qed.

Lemma nonzero_linesb_ok : forall m n M, numeric M -> nonzero_linesb m n M = true ->
  nonzero_lines m n M.
Proof.
  intros m n M HN H. unfold nonzero_linesb in H. apply andb_true_iff in H. destruct H as [H1 H2].
  rewrite forallb_forall in H1, H2. split.
  - intros i Hi. assert (Hin : In i (seq 0 m)) by (apply in_seq; lia).
    specialize (H1 i Hin). apply existsb_exists in H1. destruct H1 as (j & Hj & Hnz).
    apply in_seq in Hj. exists j. split; [lia|].
    rewrite (is_zero_val M i j HN), negb_true_iff, Qceqb_false in Hnz. auto.
  - intros j Hj. assert (Hin : In j (seq 0 n)) by (apply in_seq; lia).
    specialize (H2 j Hin). apply existsb_exists in H2. destruct H2 as (i & Hi & Hnz).
    apply in_seq in Hi. exists i. split; [lia|].
    rewrite (is_zero_val M i j HN), negb_true_iff, Qceqb_false in Hnz. auto.
Qed.

(* ================================================================== deletion = re-indexing *)

Definition keepf (Z : list nat) (x : nat) : bool := negb (mem x Z).
Definition kept (Z : list nat) (len : nat) : list nat := filter (keepf Z) (seq 0 len).

Lemma del_from_map : forall A (d : A) Z l k,
  del_from k Z l = map (fun x => nth (x - k) l d) (filter (keepf Z) (seq k (length l))).
Proof.
  induction l as [|a l IH]; intros k; simpl; auto.
  assert (E : map (fun x => nth (x - S k) l d) (filter (keepf Z) (seq (S k) (length l))) =
              map (fun x => nth (x - k) (a :: l) d) (filter (keepf Z) (seq (S k) (length l)))).
  { apply map_ext_in. intros x Hx. apply filter_In in Hx. destruct Hx as [Hx _].
    apply in_seq in Hx. replace (x - k) with (S (x - S k)) by lia. reflexivity. }
  unfold keepf at 1. destruct (mem k Z); simpl.
  - rewrite IH. exact E.
  - rewrite Nat.sub_diag. f_equal. rewrite IH. exact E.
Qed.

Lemma del_idx_map : forall A (d : A) Z l,
  del_idx Z l = map (fun x => nth x l d) (kept Z (length l)).
Proof.
  intros. unfold del_idx, kept. rewrite (del_from_map A d). apply map_ext. intros.
  rewrite Nat.sub_0_r. reflexivity.
Qed.

Lemma filter_all : forall A (f : A -> bool) l, (forall x, In x l -> f x = true) -> filter f l = l.
Proof.
  induction l; simpl; intros; auto. rewrite H by auto. f_equal. apply IHl. auto.
Qed.
Lemma filter_len_le : forall A (f : A -> bool) l, length (filter f l) <= length l.
Proof. induction l; simpl; auto. destruct (f a); simpl; lia. Qed.
Lemma filter_drop : forall A (f : A -> bool) l x, In x l -> f x = false ->
  length (filter f l) < length l.
Proof.
  induction l; simpl; intros x Hin Hf. contradiction.
  destruct Hin as [->|Hin].
  - rewrite Hf. pose proof (filter_len_le A f l). lia.
  - specialize (IHl x Hin Hf). destruct (f a); simpl; lia.
Qed.

Lemma kappa_kept : forall Z m, kappa_ok m (length (kept Z m)) Z (fun r => nth r (kept Z m) 0).
Proof.
  intros Z m. unfold kept.
  assert (Hin : forall x, In x (filter (keepf Z) (seq 0 m)) <-> x < m /\ ~ In x Z).
  { intros x. rewrite filter_In, in_seq. unfold keepf. rewrite negb_true_iff, mem_nIn. intuition lia. }
  split; [|split; [|split; [|split]]].
  - pose proof (filter_len_le nat (keepf Z) (seq 0 m)). rewrite seq_length in H. auto.
  - intros r Hr. apply Hin. apply nth_In. auto.
  - intros r Hr HnZ. apply (In_nth _ _ 0). apply Hin. auto.
  - intros H. rewrite filter_all.
    + rewrite seq_length. split; auto. intros. rewrite seq_nth; auto.
    + intros x Hx. apply in_seq in Hx. unfold keepf. rewrite negb_true_iff, mem_nIn. apply H. lia.
  - intros (r & Hr & HZ). pose proof (filter_drop nat (keepf Z) (seq 0 m) r) as D.
    rewrite seq_length in D. apply D. apply in_seq; lia.
    unfold keepf. rewrite negb_false_iff, mem_In. auto.
Qed.

Lemma del_rows_len : forall (M : mat) Z, length (del_idx Z M) = length (kept Z (length M)).
Proof. intros. rewrite (del_idx_map _ [] Z M). apply map_length. Qed.

Lemma val_del_rows : forall (M : mat) Z r c, r < length (kept Z (length M)) ->
  val (del_idx Z M) r c = val M (nth r (kept Z (length M)) 0) c.
Proof.
  intros M Z r c Hr. unfold val, get. rewrite (del_idx_map _ [] Z M).
  rewrite nth_map_in with (d := 0) by auto. reflexivity.
Qed.

Lemma shape_del_cols_kept : forall m n (M : mat) Z, shapeE m n M ->
  shapeE m (length (kept Z n)) (map (del_idx Z) M).
Proof.
  intros m n M Z [H1 H2]. split. rewrite map_length; auto.
  unfold rectE in *. rewrite Forall_map. eapply Forall_impl; [|exact H2]. simpl. intros r Hr.
  rewrite (del_idx_map _ (Num q0) Z r), map_length, Hr. reflexivity.
Qed.

Lemma val_del_cols : forall m n (M : mat) Z r c, shapeE m n M -> r < m -> c < length (kept Z n) ->
  val (map (del_idx Z) M) r c = val M r (nth c (kept Z n) 0).
Proof.
  intros m n M Z r c HM Hr Hc. unfold val, get.
  rewrite (nth_map_nil _ _ (del_idx Z)) by reflexivity.
  rewrite (del_idx_map _ (Num q0) Z (nth r M [])). rewrite (shapeE_row m n) by auto.
  rewrite nth_map_in with (d := 0) by auto. reflexivity.
Qed.

Lemma numeric_del_rows : forall M Z, numeric M -> numeric (del_idx Z M).
Proof. intros. apply Forall_del_from. auto. Qed.
Lemma numeric_del_cols : forall M Z, numeric M -> numeric (map (del_idx Z) M).
Proof.
  intros M Z H. unfold numeric in *. rewrite Forall_map. eapply Forall_impl; [|exact H].
  simpl. intros. apply Forall_del_from. auto.
Qed.

(* ================================================================== line additions on numbers *)

Lemma add_line_num : forall f tl sl, length tl = length sl -> Forall is_num tl -> Forall is_num sl ->
  exists r, add_line f tl sl = Some r /\ Forall is_num r.
Proof.
  induction tl as [|t tl IH]; intros sl Hl Ht Hs; simpl.
  - exists []. auto.
  - destruct sl as [|s sl]; simpl in Hl; try discriminate.
    inversion Ht; subst. inversion Hs; subst.
    destruct t as [tq|]; simpl in *; try contradiction.
    destruct s as [sq|]; simpl in *; try contradiction.
    destruct (IH sl) as (r & E & Hr); auto. rewrite E.
    exists (Num (tq + f * sq)%Qc :: r). split; auto.
Qed.

Lemma all_zero_num : forall r, Forall is_num r ->
  (all_zero r = true <-> forall l, l < length r -> coef (nth l r (Num q0)) None = q0).
Proof.
  induction r as [|e r IH]; intros H; simpl.
  - split; auto. intros. lia.
  - inversion H; subst. destruct e as [q|]; simpl in *; try contradiction.
    rewrite andb_true_iff, Qceqb_true, (IH H3). split.
    + intros [E Hr] l Hl. destruct l; auto. apply Hr. lia.
    + intros Hall. split. apply (Hall 0). lia. intros l Hl. apply (Hall (S l)). lia.
Qed.

Lemma elim2_congr : forall i m n (A A1 : fmat) s, i < m -> i < n ->
  (forall r c, r < m -> c < n -> A1 r c = A (s r) c) ->
  forall r c, r < m -> c < n -> elim2 i A1 (fun x => x) r c = elim2 i A s r c.
Proof.
  intros i m n A A1 s Hi Hin E r c Hr Hc. unfold elim2.
  destruct (r =? i); rewrite !E by auto; reflexivity.
Qed.

(* ================================================================== one iteration of row_elimination *)

(* state of the inner loop after the rows < a: those rows carry their final value, the others are
   untouched; Z lists exactly the treated rows that became zero *)
Definition rfinv (m n i a : nat) (M1 : mat) (st : mat * qmat * list nat) : Prop :=
  let '(Mc, Lc, Zc) := st in
  shapeE m n Mc /\ numeric Mc /\
  (forall r c, r < m -> c < n ->
     val Mc r c = if r <? a then elim2 i (val M1) (fun x => x) r c else val M1 r c) /\
  (forall r, In r Zc <->
     (r < a /\ r <> i /\ val M1 r i <> q0 /\
      forall c, c < n -> elim2 i (val M1) (fun x => x) r c = q0)).

Lemma row_target_inv : forall m n i M1 st a, i < m -> i < n -> a < m -> val M1 i i <> q0 ->
  rfinv m n i a M1 st -> rfinv m n i (S a) M1 (row_elim_target (Num (val M1 i i)) i st a).
Proof.
  intros m n i M1 [[Mc Lc] Zc] a Hi Hin Ha Hp (HS & HN & HV & HZ).
  unfold row_elim_target.
  assert (He : get Mc a i = Num (val M1 a i)).
  { rewrite (get_num Mc a i HN). f_equal. rewrite HV by auto. rewrite Nat.ltb_irrefl. reflexivity. }
  rewrite He.
  destruct (Nat.eqb_spec a i) as [->|Hai]; cbn [negb andb].
  - split; auto. split; auto. split.
    + intros r c Hr Hc. rewrite HV by auto.
      destruct (Nat.ltb_spec r i); destruct (Nat.ltb_spec r (S i)); try lia; auto.
      assert (r = i) by lia. subst r. rewrite elim2_pivot_row. auto.
    + intros r. rewrite HZ. split; intros (H1 & H2 & H3 & H4); repeat split; auto; lia.
  - cbn [ent_is_zero]. destruct (Qc_eq_bool (val M1 a i) q0) eqn:Ez; cbn [negb].
    + apply Qceqb_true in Ez. split; auto. split; auto. split.
      * intros r c Hr Hc. rewrite HV by auto.
        destruct (Nat.ltb_spec r a); destruct (Nat.ltb_spec r (S a)); try lia; auto.
        assert (r = a) by lia. subst r. rewrite elim2_other by auto. rewrite Ez. field. auto.
      * intros r. rewrite HZ. split; intros (H1 & H2 & H3 & H4); repeat split; auto; try lia.
        destruct (Nat.eq_dec r a); [subst r; contradiction | lia].
    + apply Qceqb_false in Ez. cbv beta iota. unfold row_add.
      destruct (add_line_num (- val M1 a i / val M1 i i)%Qc (nth a Mc []) (nth i Mc []))
        as (rw & Ea & Hrw).
      { rewrite !(shapeE_row m n); auto. }
      { apply numeric_row; auto. }
      { apply numeric_row; auto. }
      rewrite Ea.
      destruct (add_line_spec _ _ _ _ Ea) as (Hlen & Hco).
      rewrite (shapeE_row m n) in Hlen, Hco by auto.
      assert (Hnew : forall c, c < n ->
                coef (nth c rw (Num q0)) None = elim2 i (val M1) (fun x => x) a c).
      { intros c Hc. rewrite Hco by auto.
        change (coef (nth c (nth a Mc []) (Num q0)) None) with (val Mc a c).
        change (coef (nth c (nth i Mc []) (Num q0)) None) with (val Mc i c).
        rewrite !HV by auto. rewrite Nat.ltb_irrefl.
        assert (Ei : (if i <? a then elim2 i (val M1) (fun x => x) i c else val M1 i c) = val M1 i c).
        { destruct (i <? a); auto. apply elim2_pivot_row. }
        rewrite Ei. rewrite elim2_other by auto. field. auto. }
      assert (HlM : length Mc = m) by apply HS.
      split. { apply shapeE_upd_row; auto. }
      split. { apply Forall_upd; auto. }
      split.
      * intros r c Hr Hc. unfold val. rewrite get_upd_row by lia.
        destruct (Nat.eqb_spec r a) as [->|Hra].
        -- rewrite Hnew by auto. destruct (Nat.ltb_spec a (S a)); try lia. auto.
        -- fold (val Mc r c). rewrite HV by auto.
           destruct (Nat.ltb_spec r a); destruct (Nat.ltb_spec r (S a)); try lia; auto.
      * assert (Hiz : all_zero rw = true <->
                      forall c, c < n -> elim2 i (val M1) (fun x => x) a c = q0).
        { rewrite (all_zero_num rw Hrw). rewrite Hlen.
          split; intros H c Hc; [rewrite <- Hnew | rewrite Hnew]; auto. }
        intros r. destruct (all_zero rw) eqn:Eaz.
        -- rewrite in_app_iff, HZ. simpl. split.
           ++ intros [(H1 & H2 & H3 & H4)|[<-|[]]]; repeat split; auto. apply Hiz; auto.
           ++ intros (H1 & H2 & H3 & H4). destruct (Nat.eq_dec r a); auto.
              left. repeat split; auto. lia.
        -- rewrite HZ. split; intros (H1 & H2 & H3 & H4); repeat split; auto; try lia.
           destruct (Nat.eq_dec r a) as [->|]; try lia. exfalso.
           assert (X : false = true) by (apply Hiz; auto). discriminate.
Qed.

Lemma row_fold_inv : forall m n i M1 len a st, i < m -> i < n -> a + len <= m -> val M1 i i <> q0 ->
  rfinv m n i a M1 st ->
  rfinv m n i (a + len) M1 (fold_left (row_elim_target (Num (val M1 i i)) i) (seq a len) st).
Proof.
  induction len; intros a st Hi Hin Hb Hp Hinv; simpl.
  - rewrite Nat.add_0_r. auto.
  - replace (a + S len) with (S a + len) by lia. apply IHlen; auto; try lia.
    apply row_target_inv; auto. lia.
Qed.

Lemma row_swap_part : forall m n i L M, numeric M -> shapeE m n M -> i < m ->
  exists M1 L1 s,
    (if ent_is_zero (get M i i)
     then match find_row_pivot M i with Some j => row_swap M L i j | None => (M, L) end
     else (M, L)) = (M1, L1) /\
    numeric M1 /\ shapeE m n M1 /\ swap_ok i m (val M) s /\
    forall r c, r < m -> val M1 r c = val M (s r) c.
Proof.
  intros m n i L M HN HS Hi. assert (HlM : length M = m) by apply HS.
  rewrite (is_zero_val M i i HN). destruct (Qc_eq_bool (val M i i) q0) eqn:E.
  - apply Qceqb_true in E. destruct (find_row_pivot M i) as [j|] eqn:Ef.
    + unfold find_row_pivot in Ef. apply find_seq_some in Ef. destruct Ef as [Hj Hnz].
      rewrite (is_zero_val M j i HN), negb_true_iff, Qceqb_false in Hnz.
      exists (swap_nth i j M), (map (swap_nth i j) L), (sw i j).
      split. reflexivity.
      split. { apply Forall_swap_nth; auto. }
      split. { apply shape_swap; auto. }
      split. { right. exists j. repeat split; auto; lia. }
      intros r c Hr. unfold val. rewrite get_swap_rows by lia. reflexivity.
    + exists M, L, (fun r => r). repeat split; auto; try apply HS.
      left. split; auto. right. intros r Hr.
      unfold find_row_pivot in Ef.
      pose proof (find_none _ _ Ef r) as F. cbv beta in F. rewrite (is_zero_val M r i HN) in F.
      rewrite negb_false_iff, Qceqb_true in F. apply F. apply in_seq. lia.
  - apply Qceqb_false in E. exists M, L, (fun r => r). repeat split; auto; try apply HS.
    left. split; auto.
Qed.

Theorem row_step_estep : forall m n i L M, numeric M -> shapeE m n M -> i < m -> i < n ->
  exists m', shapeE m' n (snd (row_elim_step i L M)) /\ numeric (snd (row_elim_step i L M)) /\
             estep i m n (val M) m' (val (snd (row_elim_step i L M))).
Proof.
  intros m n i L M HN HS Hi Hin. unfold row_elim_step.
  destruct (row_swap_part m n i L M HN HS Hi) as (M1 & L1 & s & E & N1 & S1 & Hsw & Hv).
  rewrite E. cbv zeta. rewrite (is_zero_val M1 i i N1).
  assert (Hpv : val M1 i i = val M (s i) i) by (apply Hv; auto).
  destruct (Qc_eq_bool (val M1 i i) q0) eqn:Ep.
  - apply Qceqb_true in Ep. simpl. exists m. split; auto. split; auto.
    exists s. split; auto. left. rewrite <- Hpv. split; auto.
  - apply Qceqb_false in Ep. rewrite (get_num M1 i i N1).
    assert (HlM1 : length M1 = m) by apply S1. rewrite HlM1.
    pose proof (row_fold_inv m n i M1 m 0 (M1, L1, []) Hi Hin (le_n _) Ep) as F.
    change (0 + m) with m in F.
    destruct (fold_left (row_elim_target (Num (val M1 i i)) i) (seq 0 m) (M1, L1, []))
      as [[M2 L2] Z].
    destruct F as (S2 & N2 & V2 & Z2).
    { split; auto. split; auto. split. intros; reflexivity.
      intros r. simpl. split; [tauto | intros (H & _); lia]. }
    simpl snd. assert (HlM2 : length M2 = m) by apply S2.
    exists (length (kept Z m)). split; [|split].
    + destruct (shape_del_rows 0 m n [] M2 Z) as (_ & Sd & _); auto. { split; auto. constructor. }
      rewrite del_rows_len, HlM2 in Sd. auto.
    + apply numeric_del_rows; auto.
    + exists s. split; auto. right. rewrite <- Hpv. split; auto.
      exists Z, (fun r => nth r (kept Z m) 0).
      pose proof (kappa_kept Z m) as K.
      split; [|split; auto].
      * intros r. rewrite Z2. split; intros (H1 & H2 & H3 & H4); repeat split; auto.
        -- rewrite <- Hv; auto.
        -- intros c Hc. rewrite <- (elim2_congr i m n (val M) (val M1) s); auto.
        -- rewrite Hv; auto.
        -- intros c Hc. rewrite (elim2_congr i m n (val M) (val M1) s); auto.
      * intros r c Hr Hc. rewrite <- HlM2 at 1. rewrite val_del_rows by (rewrite HlM2; auto).
        rewrite HlM2. destruct K as (_ & K2 & _). destruct (K2 r Hr) as (Kr & _).
        rewrite V2 by auto. destruct (Nat.ltb_spec (nth r (kept Z m) 0) m); try lia.
        apply (elim2_congr i m n (val M) (val M1) s); auto.
Qed.

(* ================================================================== one iteration of column_elimination *)

Lemma numeric_set_col : forall M t c, numeric M -> Forall is_num c -> numeric (set_col t c M).
Proof.
  intros M t c HM Hc. unfold numeric, set_col. rewrite Forall_map. apply Forall_forall.
  intros [r e] Hin. simpl. apply Forall_upd.
  - unfold numeric in HM. rewrite Forall_forall in HM. apply HM. eapply in_combine_l; eauto.
  - rewrite Forall_forall in Hc. apply Hc. eapply in_combine_r; eauto.
Qed.

Lemma numeric_map_swap : forall M i j, numeric M -> numeric (map (swap_nth i j) M).
Proof.
  intros M i j H. unfold numeric in *. rewrite Forall_map. eapply Forall_impl; [|exact H].
  simpl. intros. apply Forall_swap_nth. auto.
Qed.

(* the same state description as for rows, on the transposed matrix *)
Definition cfinv (m n j a : nat) (M1 : mat) (st : mat * qmat * list nat) : Prop :=
  let '(Mc, Rc, Zc) := st in
  shapeE m n Mc /\ numeric Mc /\
  (forall r c, r < m -> c < n ->
     val Mc r c = if c <? a then elim2 j (tr (val M1)) (fun x => x) c r else val M1 r c) /\
  (forall c, In c Zc <->
     (c < a /\ c <> j /\ val M1 j c <> q0 /\
      forall r, r < m -> elim2 j (tr (val M1)) (fun x => x) c r = q0)).

Lemma col_target_inv : forall m n j M1 st a, j < m -> j < n -> a < n -> val M1 j j <> q0 ->
  cfinv m n j a M1 st -> cfinv m n j (S a) M1 (col_elim_target (Num (val M1 j j)) j st a).
Proof.
  intros m n j M1 [[Mc Rc] Zc] a Hj Hjn Ha Hp (HS & HN & HV & HZ).
  unfold col_elim_target.
  assert (He : get Mc j a = Num (val M1 j a)).
  { rewrite (get_num Mc j a HN). f_equal. rewrite HV by auto. rewrite Nat.ltb_irrefl. reflexivity. }
  rewrite He.
  destruct (Nat.eqb_spec a j) as [->|Haj]; cbn [negb andb].
  - split; auto. split; auto. split.
    + intros r c Hr Hc. rewrite HV by auto.
      destruct (Nat.ltb_spec c j); destruct (Nat.ltb_spec c (S j)); try lia; auto.
      assert (c = j) by lia. subst c. rewrite elim2_pivot_row. reflexivity.
    + intros c. rewrite HZ. split; intros (H1 & H2 & H3 & H4); repeat split; auto; lia.
  - cbn [ent_is_zero]. destruct (Qc_eq_bool (val M1 j a) q0) eqn:Ez; cbn [negb].
    + apply Qceqb_true in Ez. split; auto. split; auto. split.
      * intros r c Hr Hc. rewrite HV by auto.
        destruct (Nat.ltb_spec c a); destruct (Nat.ltb_spec c (S a)); try lia; auto.
        assert (c = a) by lia. subst c. rewrite elim2_other by auto. unfold tr. rewrite Ez.
        field. auto.
      * intros c. rewrite HZ. split; intros (H1 & H2 & H3 & H4); repeat split; auto; try lia.
        destruct (Nat.eq_dec c a); [subst c; contradiction | lia].
    + apply Qceqb_false in Ez. cbv beta iota. unfold col_add.
      assert (HlM : length Mc = m) by apply HS.
      destruct (add_line_num (- val M1 j a / val M1 j j)%Qc (col a Mc) (col j Mc))
        as (cw & Ea & Hcw).
      { rewrite !col_length. auto. }
      { apply numeric_col; auto. }
      { apply numeric_col; auto. }
      rewrite Ea.
      destruct (add_line_spec _ _ _ _ Ea) as (Hlen & Hco).
      rewrite col_length, HlM in Hlen, Hco.
      assert (Hnew : forall r, r < m ->
                coef (nth r cw (Num q0)) None = elim2 j (tr (val M1)) (fun x => x) a r).
      { intros r Hr. rewrite Hco by auto. rewrite !nth_col.
        change (coef (get Mc r a) None) with (val Mc r a).
        change (coef (get Mc r j) None) with (val Mc r j).
        rewrite !HV by auto. rewrite Nat.ltb_irrefl.
        assert (Ej : (if j <? a then elim2 j (tr (val M1)) (fun x => x) j r else val M1 r j)
                     = val M1 r j).
        { destruct (j <? a); auto. apply elim2_pivot_row. }
        rewrite Ej. rewrite elim2_other by auto. unfold tr. field. auto. }
      split. { apply shapeE_set_col; auto. }
      split. { apply numeric_set_col; auto. }
      split.
      * intros r c Hr Hc. unfold val. rewrite (get_set_col m n) by auto.
        destruct (Nat.eqb_spec c a) as [->|Hca].
        -- rewrite Hnew by auto. destruct (Nat.ltb_spec a (S a)); try lia. auto.
        -- fold (val Mc r c). rewrite HV by auto.
           destruct (Nat.ltb_spec c a); destruct (Nat.ltb_spec c (S a)); try lia; auto.
      * assert (Hiz : all_zero cw = true <->
                      forall r, r < m -> elim2 j (tr (val M1)) (fun x => x) a r = q0).
        { rewrite (all_zero_num cw Hcw). rewrite Hlen.
          split; intros H r Hr; [rewrite <- Hnew | rewrite Hnew]; auto. }
        intros c. destruct (all_zero cw) eqn:Eaz.
        -- rewrite in_app_iff, HZ. simpl. split.
           ++ intros [(H1 & H2 & H3 & H4)|[<-|[]]]; repeat split; auto. apply Hiz; auto.
           ++ intros (H1 & H2 & H3 & H4). destruct (Nat.eq_dec c a); auto.
              left. repeat split; auto. lia.
        -- rewrite HZ. split; intros (H1 & H2 & H3 & H4); repeat split; auto; try lia.
           destruct (Nat.eq_dec c a) as [->|]; try lia. exfalso.
           assert (X : false = true) by (apply Hiz; auto). discriminate.
Qed.

Lemma col_fold_inv : forall m n j M1 len a st, j < m -> j < n -> a + len <= n -> val M1 j j <> q0 ->
  cfinv m n j a M1 st ->
  cfinv m n j (a + len) M1 (fold_left (col_elim_target (Num (val M1 j j)) j) (seq a len) st).
Proof.
  induction len; intros a st Hj Hjn Hb Hp Hinv; simpl.
  - rewrite Nat.add_0_r. auto.
  - replace (a + S len) with (S a + len) by lia. apply IHlen; auto; try lia.
    apply col_target_inv; auto. lia.
Qed.

Lemma col_swap_part : forall m n j R M, numeric M -> shapeE m n M -> j < m -> j < n ->
  exists M1 R1 s,
    (if ent_is_zero (get M j j)
     then match find_col_pivot M j with Some i => col_swap M R j i | None => (M, R) end
     else (M, R)) = (M1, R1) /\
    numeric M1 /\ shapeE m n M1 /\ swap_ok j n (tr (val M)) s /\
    forall r c, c < n -> val M1 r c = val M r (s c).
Proof.
  intros m n j R M HN HS Hj Hjn.
  assert (Hnc : ncols M = n) by (apply (ncols_shape m); auto; lia).
  rewrite (is_zero_val M j j HN). destruct (Qc_eq_bool (val M j j) q0) eqn:E.
  - apply Qceqb_true in E. destruct (find_col_pivot M j) as [i|] eqn:Ef.
    + unfold find_col_pivot in Ef. apply find_seq_some in Ef. destruct Ef as [Hi Hnz].
      rewrite Hnc in Hi.
      rewrite (is_zero_val M j i HN), negb_true_iff, Qceqb_false in Hnz.
      exists (map (swap_nth j i) M), (swap_nth j i R), (sw j i).
      split. reflexivity.
      split. { apply numeric_map_swap; auto. }
      split. { apply shape_map_swap; auto. }
      split. { right. exists i. unfold tr. repeat split; auto; lia. }
      intros r c Hc. unfold val. rewrite (get_swap_cols m n) by (auto; lia). reflexivity.
    + exists M, R, (fun r => r). repeat split; auto; try apply HS.
      left. split; auto. right. intros r Hr. unfold tr.
      unfold find_col_pivot in Ef. rewrite Hnc in Ef.
      pose proof (find_none _ _ Ef r) as F. cbv beta in F. rewrite (is_zero_val M j r HN) in F.
      rewrite negb_false_iff, Qceqb_true in F. apply F. apply in_seq. lia.
  - apply Qceqb_false in E. exists M, R, (fun r => r). repeat split; auto; try apply HS.
    left. split; auto.
Qed.

Theorem col_step_estep : forall m n j R M, numeric M -> shapeE m n M -> j < m -> j < n ->
  exists n', shapeE m n' (snd (col_elim_step j R M)) /\ numeric (snd (col_elim_step j R M)) /\
             estep j n m (tr (val M)) n' (tr (val (snd (col_elim_step j R M)))).
Proof.
  intros m n j R M HN HS Hj Hjn. unfold col_elim_step.
  destruct (col_swap_part m n j R M HN HS Hj Hjn) as (M1 & R1 & s & E & N1 & S1 & Hsw & Hv).
  rewrite E. cbv zeta. rewrite (is_zero_val M1 j j N1).
  destruct (swap_facts j n (tr (val M)) s Hjn Hsw) as (F1 & _).
  assert (Hpv : val M1 j j = tr (val M) (s j) j) by (unfold tr; apply Hv; auto).
  assert (Htr : forall r c, r < n -> c < m -> tr (val M1) r c = tr (val M) (s r) c).
  { intros r c Hr Hc. unfold tr. apply Hv; auto. }
  destruct (Qc_eq_bool (val M1 j j) q0) eqn:Ep.
  - apply Qceqb_true in Ep. simpl. exists n. split; auto. split; auto.
    exists s. split; auto. left. rewrite <- Hpv. split; auto.
  - apply Qceqb_false in Ep. rewrite (get_num M1 j j N1).
    assert (Hnc1 : ncols M1 = n) by (apply (ncols_shape m); auto; lia). rewrite Hnc1.
    pose proof (col_fold_inv m n j M1 n 0 (M1, R1, []) Hj Hjn (le_n _) Ep) as F.
    change (0 + n) with n in F.
    destruct (fold_left (col_elim_target (Num (val M1 j j)) j) (seq 0 n) (M1, R1, []))
      as [[M2 R2] Z].
    destruct F as (S2 & N2 & V2 & Z2).
    { split; auto. split; auto. split. intros; reflexivity.
      intros r. simpl. split; [tauto | intros (H & _); lia]. }
    simpl snd.
    exists (length (kept Z n)). split; [|split].
    + apply shape_del_cols_kept; auto.
    + apply numeric_del_cols; auto.
    + exists s. split; auto. right. rewrite <- Hpv. split; auto.
      exists Z, (fun r => nth r (kept Z n) 0).
      pose proof (kappa_kept Z n) as K.
      split; [|split; auto].
      * intros c. rewrite Z2. split; intros (H1 & H2 & H3 & H4); repeat split; auto.
        -- unfold tr. rewrite <- Hv; auto.
        -- intros r Hr. rewrite <- (elim2_congr j n m (tr (val M)) (tr (val M1)) s); auto.
        -- unfold tr in H3. rewrite Hv; auto.
        -- intros r Hr. rewrite (elim2_congr j n m (tr (val M)) (tr (val M1)) s); auto.
      * intros c r Hc Hr. unfold tr at 1. rewrite (val_del_cols m n) by auto.
        destruct K as (_ & K2 & _). destruct (K2 c Hc) as (Kc & _).
        rewrite V2 by auto. destruct (Nat.ltb_spec (nth c (kept Z n) 0) n); try lia.
        apply (elim2_congr j n m (tr (val M)) (tr (val M1)) s); auto.
Qed.

(* ================================================================== the two loops *)

Lemma shapeE_unique : forall m m' n n' (M : mat), shapeE m n M -> shapeE m' n' M -> m = m'.
Proof. intros m m' n n' M [H1 _] [H2 _]. lia. Qed.

Lemma row_loop_erun : forall p n fuel i m L M L' M',
  shapeQ p m L -> shapeE m n M -> numeric M -> 1 <= m ->
  row_elim_loop fuel i L M = Some (L', M') ->
  exists m', 1 <= m' /\ shapeQ p m' L' /\ shapeE m' n M' /\ numeric M' /\
             erun i m n (val M) m' (val M').
Proof.
  induction fuel; intros i m L M L' M' HL HM HN Hm H; cbn [row_elim_loop] in H;
    assert (Hlen : length M = m) by apply HM;
    assert (Hnc : ncols M = n) by (apply (ncols_shape m); auto);
    rewrite Hlen, Hnc in H; destruct (Nat.ltb_spec i (Nat.min m n)); try discriminate.
  - inversion H; subst. exists (length M'). repeat split; auto; try apply HL; try apply HM.
    apply erun_stop; auto. lia.
  - pose proof (row_elim_step_ok p m n i L M HL HM) as S.
    destruct (row_step_estep m n i L M HN HM) as (m1' & S1' & N1 & St); try lia.
    destruct (row_elim_step i L M) as [L1 M1]. simpl in *.
    destruct S as (m1 & A1 & A2 & A3 & A4 & _). lia.
    assert (m1' = m1) by (eapply shapeE_unique; eauto). subst m1'.
    destruct (IHfuel (S i) m1 L1 M1 L' M' A3 A4 N1 A2 H) as (m' & B1 & B2 & B3 & B4 & B5).
    exists m'. repeat split; auto; try apply B2; try apply B3.
    eapply erun_step; eauto.
  - inversion H; subst. exists (length M'). repeat split; auto; try apply HL; try apply HM.
    apply erun_stop; auto. lia.
Qed.

Lemma col_loop_erun : forall m q fuel j n R M R' M',
  shapeE m n M -> shapeQ n q R -> numeric M -> 1 <= m -> 1 <= n ->
  col_elim_loop fuel j R M = Some (R', M') ->
  exists n', 1 <= n' /\ shapeE m n' M' /\ shapeQ n' q R' /\ numeric M' /\
             erun j n m (tr (val M)) n' (tr (val M')).
Proof.
  induction fuel; intros j n R M R' M' HM HR HN Hm Hn H; cbn [col_elim_loop] in H;
    assert (Hlen : length M = m) by apply HM;
    assert (Hnc : ncols M = n) by (apply (ncols_shape m); auto);
    rewrite Hlen, Hnc in H; destruct (Nat.ltb_spec j (Nat.min m n)); try discriminate.
  - inversion H; subst. exists (ncols M'). repeat split; auto; try apply HR; try apply HM.
    apply erun_stop; auto. lia.
  - pose proof (col_elim_step_ok m n q j R M HM HR Hm) as S.
    destruct (col_step_estep m n j R M HN HM) as (n1' & S1' & N1 & St); try lia.
    destruct (col_elim_step j R M) as [R1 M1]. simpl in *.
    destruct S as (n1 & A1 & A2 & A3 & A4 & _). lia.
    assert (n1' = n1).
    { rewrite <- (ncols_shape m n1' M1 S1' Hm). apply (ncols_shape m); auto. }
    subst n1'.
    destruct (IHfuel (S j) n1 R1 M1 R' M' A3 A4 N1 Hm A2 H) as (n' & B1 & B2 & B3 & B4 & B5).
    exists n'. repeat split; auto; try apply B2; try apply B3.
    eapply erun_step; eauto. lia.
  - inversion H; subst. exists (ncols M'). repeat split; auto; try apply HR; try apply HM.
    apply erun_stop; auto. lia.
Qed.

(* ================================================================== the driver loop *)

Lemma ge_loop_num : forall p q fuel r c ro co m n L M R L' M' R',
  shapeQ p m L -> shapeE m n M -> shapeQ n q R -> numeric M -> 1 <= m -> 1 <= n ->
  good m n (val M) -> m <= r -> n <= c ->
  (r = ro -> c = co -> m = n /\ fdiag m (val M)) ->
  ge_loop fuel r c ro co L M R = Some (L', M', R') ->
  exists d, 1 <= d /\ shapeE d d M' /\ numeric M' /\ fdiag d (val M') /\
            forall k, factors k m n (val M) -> factors k d d (val M').
Proof.
  induction fuel; intros r c ro co m n L M R L' M' R' HL HM HR HN Hm Hn G Hr Hc Hpre H;
    cbn [ge_loop] in H; destruct ((r =? ro) && (c =? co)) eqn:Eq; try discriminate.
  - apply andb_true_iff in Eq. destruct Eq as [E1 E2]. apply Nat.eqb_eq in E1, E2.
    destruct (Hpre E1 E2) as (<- & D). inversion H; subst. exists m.
    split; [auto|]. split; [auto|]. split; [auto|]. split; auto.
  - apply andb_true_iff in Eq. destruct Eq as [E1 E2]. apply Nat.eqb_eq in E1, E2.
    destruct (Hpre E1 E2) as (<- & D). inversion H; subst. exists m.
    split; [auto|]. split; [auto|]. split; [auto|]. split; auto.
  - unfold row_elimination, column_elimination in H.
    destruct (row_elim_loop (length M) 0 L M) as [[L1 M1]|] eqn:E1; try discriminate.
    destruct (col_elim_loop (ncols M1) 0 R M1) as [[R1 M2]|] eqn:E2; try discriminate.
    destruct (row_loop_erun p n _ _ m L M L1 M1 HL HM HN Hm E1) as (m1 & A1 & A2 & A3 & A4 & A5).
    destruct (col_loop_erun m1 q _ _ n R M1 R1 M2 A3 HR A4 A1 Hn E2) as (n2 & B1 & B2 & B3 & B4 & B5).
    assert (HlM2 : length M2 = m1) by apply B2.
    assert (Hnc2 : ncols M2 = n2) by (apply (ncols_shape m1); auto).
    rewrite HlM2, Hnc2 in H.
    pose proof (erun_le _ _ _ _ _ _ A5) as Le1. pose proof (erun_le _ _ _ _ _ _ B5) as Le2.
    pose proof (erun_good _ _ _ _ _ _ A5 G) as G1.
    pose proof (erun_good _ _ _ _ _ _ B5 (good_tr _ _ _ G1)) as G2.
    assert (G2' : good m1 n2 (val M2)) by (exact (good_tr _ _ _ G2)).
    destruct (IHfuel m1 n2 r c m1 n2 L1 M2 R1 L' M' R' A2 B2 B3 B4 A1 B1 G2' (le_n _) (le_n _))
      as (d & D1 & D2 & D3 & D4 & D5); auto.
    { intros Er Ec. assert (Hm1 : m1 = m) by lia. assert (Hn2 : n2 = n) by lia.
      rewrite Hm1 in A5, B5 |- *. rewrite Hn2 in B5 |- *.
      apply (last_round m n (val M) (val M1) (val M2)); auto. }
    exists d. split; [auto|]. split; [auto|]. split; [auto|]. split; [auto|].
    intros k F. apply D5.
    pose proof (erun_factors k _ _ _ _ _ _ A5 F) as F1.
    pose proof (erun_factors k _ _ _ _ _ _ B5 (factors_tr _ _ _ _ F1)) as F2.
    exact (factors_tr _ _ _ _ F2).
Qed.

(* ================================================================== deparallelisation *)

Definition zpar_rows (M : mat) (m z : nat) : Prop :=
  z < m /\ exists i, i < z /\ are_parallel_row (nth i M []) (nth z M []) <> q0.

Lemma depar_rows_inner_Z : forall M m i js L Z, (forall j, In j js -> i < j < m) ->
  (forall z, In z Z -> zpar_rows M m z) ->
  forall z, In z (snd (depar_rows_inner M i js L Z)) -> zpar_rows M m z.
Proof.
  intros M m i. induction js as [|j js IH]; intros L Z Hjs HZ; simpl; auto.
  assert (Hjs' : forall j0, In j0 js -> i < j0 < m) by (intros; apply Hjs; simpl; auto).
  destruct (mem j Z). { apply IH; auto. }
  destruct (Qc_eq_bool (are_parallel_row (nth i M []) (nth j M [])) q0) eqn:Ep. { apply IH; auto. }
  apply Qceqb_false in Ep. apply IH; auto.
  intros z Hz. apply in_app_or in Hz. destruct Hz as [Hz|[<-|[]]]; auto.
  destruct (Hjs j) as [J1 J2]; simpl; auto. split; auto. exists i. auto.
Qed.

Lemma depar_rows_outer_Z : forall M is L Z, (forall i, In i is -> i < length M) ->
  (forall z, In z Z -> zpar_rows M (length M) z) ->
  forall z, In z (snd (depar_rows_outer M is L Z)) -> zpar_rows M (length M) z.
Proof.
  intros M. induction is as [|i is IH]; intros L Z His HZ; simpl; auto.
  assert (His' : forall i0, In i0 is -> i0 < length M) by (intros; apply His; simpl; auto).
  destruct (mem i Z). { apply IH; auto. }
  pose proof (depar_rows_inner_Z M (length M) i (seq (S i) (length M - S i)) L Z) as Inn.
  destruct (depar_rows_inner M i (seq (S i) (length M - S i)) L Z) as [L' Z']. simpl in Inn.
  apply IH; auto. apply Inn; auto.
  intros j Hj. apply in_seq in Hj. lia.
Qed.

Theorem depar_rows_edep : forall m n L M, shapeE m n M -> numeric M ->
  exists m', shapeE m' n (snd (deparallelize_rows L M)) /\ numeric (snd (deparallelize_rows L M)) /\
             edep m n (val M) m' (val (snd (deparallelize_rows L M))).
Proof.
  intros m n L M HS HN. unfold deparallelize_rows.
  assert (HlM : length M = m) by apply HS.
  pose proof (depar_rows_outer_Z M (seq 0 (length M)) L []) as O.
  destruct (depar_rows_outer M (seq 0 (length M)) L []) as [L' Z]. simpl in O. simpl snd.
  assert (HZ : forall z, In z Z -> zpar_rows M m z).
  { rewrite <- HlM. apply O. intros i Hi. apply in_seq in Hi. lia. intros z []. }
  exists (length (kept Z m)). split; [|split].
  - destruct (shape_del_rows 0 m n [] M Z) as (_ & Sd & _); auto. { split; auto. constructor. }
    rewrite del_rows_len, HlM in Sd. auto.
  - apply numeric_del_rows; auto.
  - exists Z, (fun r => nth r (kept Z m) 0). split. apply kappa_kept. split.
    + intros z Hz. destruct (HZ z Hz) as (Hzm & i & Hi & Hp).
      exists i, (are_parallel_row (nth i M []) (nth z M [])). split; auto. split; auto.
      intros c Hc. unfold val, get. apply par_row_spec; auto.
      rewrite !(shapeE_row m n); auto. lia.
    + intros r c Hr Hc. rewrite <- HlM in *. apply val_del_rows; auto.
Qed.

Definition zpar_cols (M : mat) (n z : nat) : Prop :=
  z < n /\ exists i, i < z /\ are_parallel_col M i z <> q0.

Lemma depar_cols_inner_Z : forall M n i js R Z, (forall j, In j js -> i < j < n) ->
  (forall z, In z Z -> zpar_cols M n z) ->
  forall z, In z (snd (depar_cols_inner M i js R Z)) -> zpar_cols M n z.
Proof.
  intros M n i. induction js as [|j js IH]; intros R Z Hjs HZ; simpl; auto.
  assert (Hjs' : forall j0, In j0 js -> i < j0 < n) by (intros; apply Hjs; simpl; auto).
  destruct (mem j Z). { apply IH; auto. }
  destruct (Qc_eq_bool (are_parallel_col M i j) q0) eqn:Ep. { apply IH; auto. }
  apply Qceqb_false in Ep. apply IH; auto.
  intros z Hz. apply in_app_or in Hz. destruct Hz as [Hz|[<-|[]]]; auto.
  destruct (Hjs j) as [J1 J2]; simpl; auto. split; auto. exists i. auto.
Qed.

Lemma depar_cols_outer_Z : forall M is R Z, (forall i, In i is -> i < ncols M) ->
  (forall z, In z Z -> zpar_cols M (ncols M) z) ->
  forall z, In z (snd (depar_cols_outer M is R Z)) -> zpar_cols M (ncols M) z.
Proof.
  intros M. induction is as [|i is IH]; intros R Z His HZ; simpl; auto.
  assert (His' : forall i0, In i0 is -> i0 < ncols M) by (intros; apply His; simpl; auto).
  destruct (mem i Z). { apply IH; auto. }
  pose proof (depar_cols_inner_Z M (ncols M) i (seq (S i) (ncols M - S i)) R Z) as Inn.
  destruct (depar_cols_inner M i (seq (S i) (ncols M - S i)) R Z) as [R' Z']. simpl in Inn.
  apply IH; auto. apply Inn; auto.
  intros j Hj. apply in_seq in Hj. lia.
Qed.

Theorem depar_cols_edep : forall m n R M, shapeE m n M -> numeric M -> 1 <= m ->
  exists n', shapeE m n' (snd (deparallelize_cols R M)) /\ numeric (snd (deparallelize_cols R M)) /\
             edep n m (tr (val M)) n' (tr (val (snd (deparallelize_cols R M)))).
Proof.
  intros m n R M HS HN Hm. unfold deparallelize_cols.
  assert (Hnc : ncols M = n) by (apply (ncols_shape m); auto).
  pose proof (depar_cols_outer_Z M (seq 0 (ncols M)) R []) as O.
  destruct (depar_cols_outer M (seq 0 (ncols M)) R []) as [R' Z]. simpl in O. simpl snd.
  assert (HZ : forall z, In z Z -> zpar_cols M n z).
  { rewrite <- Hnc. apply O. intros i Hi. apply in_seq in Hi. lia. intros z []. }
  exists (length (kept Z n)). split; [|split].
  - apply shape_del_cols_kept; auto.
  - apply numeric_del_cols; auto.
  - exists Z, (fun r => nth r (kept Z n) 0). split. apply kappa_kept. split.
    + intros z Hz. destruct (HZ z Hz) as (Hzn & i & Hi & Hp).
      exists i, (are_parallel_col M i z). split; auto. split; auto.
      intros c Hc. unfold tr, val. apply par_col_spec; auto.
    + intros c r Hc Hr. unfold tr. apply (val_del_cols m n); auto.
Qed.

(* ================================================================== the whole algorithm *)

Theorem ge_numeric_diag : forall m n M L M' R,
  shapeE m n M -> 1 <= m -> 1 <= n -> numeric M -> nonzero_lines m n M ->
  gaussian_elimination M = Some (L, M', R) ->
  exists d, 1 <= d /\ shapeE d d M' /\ numeric M' /\ diag_nz d M' /\
            forall k, factors k m n (val M) -> factors k d d (val M').
Proof.
  intros m n M L M' R HM Hm Hn HN HZ H.
  assert (HlM : length M = m) by apply HM.
  destruct M as [|row0 M0]. { simpl in HlM. lia. }
  assert (Hr0 : length row0 = n) by (apply (ncols_shape m n _ HM Hm)).
  rewrite ge_unfold in H. cbv zeta in H. rewrite Hr0, HlM in H.
  set (Mx := row0 :: M0) in *.
  assert (G0 : good m n (val Mx)) by exact HZ.
  pose proof (deparallelize_rows_ok m m n (identity m) Mx (identity_shape m) HM Hm) as D1.
  destruct (depar_rows_edep m n (identity m) Mx HM HN) as (m1' & S1 & N1 & E1).
  destruct (deparallelize_rows (identity m) Mx) as [L1 M1]. simpl in D1, S1, N1, E1.
  destruct D1 as (m1 & A1 & A2 & A3 & A4 & _).
  assert (m1' = m1) by (eapply shapeE_unique; eauto). subst m1'.
  pose proof (deparallelize_cols_ok m1 n n (identity n) M1 A4 (identity_shape n) A2 Hn) as D2.
  destruct (depar_cols_edep m1 n (identity n) M1 A4 N1 A2) as (n1' & S2 & N2 & E2).
  destruct (deparallelize_cols (identity n) M1) as [R1 M2]. simpl in D2, S2, N2, E2.
  destruct D2 as (n1 & B1 & B2 & B3 & B4 & _).
  assert (n1' = n1).
  { rewrite <- (ncols_shape m1 n1' M2 S2 A2). apply (ncols_shape m1); auto. }
  subst n1'.
  pose proof (edep_good _ _ _ _ _ G0 E1) as G1.
  pose proof (edep_good _ _ _ _ _ (good_tr _ _ _ G1) E2) as G2.
  assert (G2' : good m1 n1 (val M2)) by (exact (good_tr _ _ _ G2)).
  destruct (ge_loop_num m n (m + n + 1) m n 0 0 m1 n1 L1 M2 R1 L M' R A3 B3 B4 N2 A2 B2 G2' A1 B1)
    as (d & D1 & D2 & D3 & D4 & D5); auto.
  { intros. lia. }
  exists d. split; [auto|]. split; [auto|]. split; [auto|]. split; [exact D4|].
  intros k F. apply D5.
  pose proof (edep_factors k _ _ _ _ _ F E1) as F1.
  pose proof (edep_factors k _ _ _ _ _ (factors_tr _ _ _ _ F1) E2) as F2.
  exact (factors_tr _ _ _ _ F2).
Qed.

(* ================================================================== over Q: the rank *)
From PTN Require SD.Rank SD.RankProofs.

Lemma this_Q2Qc : forall y : Q, (this (Q2Qc y) == y)%Q.
Proof. intros. unfold Q2Qc. cbn [this]. apply Qred_correct. Qed.
Lemma this_plus : forall a b : Qc, (this (a + b)%Qc == this a + this b)%Q.
Proof. intros. unfold Qcplus. apply this_Q2Qc. Qed.
Lemma this_mult : forall a b : Qc, (this (a * b)%Qc == this a * this b)%Q.
Proof. intros. unfold Qcmult. apply this_Q2Qc. Qed.
Lemma this_sumn : forall n (f : nat -> Qc),
  (this (sumn n f) == Rank.sumn n (fun k => this (f k)))%Q.
Proof.
  induction n; intros. reflexivity.
  cbn [sumn Rank.sumn]. rewrite this_plus, IHn. reflexivity.
Qed.

(* a factorisation over Q is one over the canonical rationals *)
Lemma factors_of_Q : forall k m n (A : fmat) (X Y : nat -> nat -> Q),
  (forall i j, i < m -> j < n -> (this (A i j) == Rank.sumn k (fun l => X i l * Y l j))%Q) ->
  factors k m n A.
Proof.
  intros k m n A X Y H. exists (fun i l => Q2Qc (X i l)), (fun l j => Q2Qc (Y l j)).
  intros r c Hr Hc. apply Qc_is_canon. rewrite (H r c Hr Hc). rewrite this_sumn.
  apply RankProofs.sumn_ext. intros l Hl. rewrite this_mult, !this_Q2Qc. reflexivity.
Qed.

(* a diagonal r x r matrix with a non-zero diagonal factors through no k < r *)
Lemma fdiag_no_factor : forall r k (A : fmat), fdiag r A -> k < r -> ~ factors k r r A.
Proof.
  intros r k A D Hk (X & Y & H).
  apply (RankProofs.identity_no_factor r k (fun a l => this (X a l / A a a)%Qc)
           (fun l b => this (Y l b)) Hk).
  intros a b Ha Hb.
  destruct (D a a Ha Ha) as (Daa & _). specialize (Daa eq_refl).
  assert (E : sumn k (fun l => (X a l / A a a * Y l b)%Qc) = (A a b / A a a)%Qc).
  { rewrite (H a b Ha Hb).
    rewrite (sumn_ext k _ (fun l => (/ A a a * (X a l * Y l b))%Qc)).
    - rewrite sumn_scal_l. field. auto.
    - intros. field. auto. }
  rewrite <- (RankProofs.sumn_ext k (fun l => this (X a l / A a a * Y l b)%Qc)).
  2:{ intros l Hl. apply this_mult. }
  rewrite <- this_sumn, E. unfold Rank.delta.
  destruct (Nat.eqb_spec a b) as [->|Hab].
  - replace (A b b / A b b)%Qc with 1%Qc by (field; auto). reflexivity.
  - destruct (D a b Ha Hb) as (_ & Dab). rewrite (Dab Hab).
    replace (q0 / A a a)%Qc with 0%Qc by (field; auto). reflexivity.
Qed.

(* THE THEOREM.  For a numeric m x n matrix M without a zero row or column, the model's
   gaussian_elimination returns (L, M', R) with M' an r x r diagonal matrix with non-zero
   diagonal, L * M' * R = M exactly -- a factorisation of M through r --, and M factors
   through no inner dimension k < r, whatever X (m x k) and Y (k x n) over Q: r = rank M. *)
Theorem ge_numeric_minimal : forall m n M L M' R,
  shapeE m n M -> 1 <= m -> 1 <= n -> numeric M -> nonzero_lines m n M ->
  gaussian_elimination M = Some (L, M', R) ->
  exists r, 1 <= r /\ r <= m /\ r <= n /\
    shapeQ m r L /\ shapeE r r M' /\ shapeQ r n R /\ numeric M' /\ diag_nz r M' /\
    (forall i j, i < m -> j < n -> prod3 r r L M' R i j None = val M i j) /\
    forall (k : nat) (X Y : nat -> nat -> Q), k < r ->
      ~ (forall i j, i < m -> j < n ->
           (this (val M i j) == Rank.sumn k (fun l => X i l * Y l j))%Q).
Proof.
  intros m n M L M' R HM Hm Hn HN HZ H.
  destruct (ge_numeric_diag m n M L M' R HM Hm Hn HN HZ H) as (d & D1 & D2 & D3 & D4 & D5).
  destruct (ge_correct m n M HM Hm Hn) as (L0 & M0 & R0 & m' & n' & E & C1 & C2 & C3 & C4 & C5 & C6 & C7 & C8).
  rewrite H in E. inversion E; subst L0 M0 R0. clear E.
  assert (m' = d) by (eapply shapeE_unique; eauto). subst m'.
  assert (n' = d).
  { rewrite <- (ncols_shape d n' M' C6 D1). apply (ncols_shape d); auto. }
  subst n'.
  exists d. repeat (split; [solve [auto]|]). split.
  - intros i j Hi Hj. apply C8; auto.
  - intros k X Y Hk F.
    apply (fdiag_no_factor d k (val M') D4 Hk). apply D5.
    apply (factors_of_Q k m n (val M) X Y). exact F.
Qed.

(* the easy direction, over Q: M does factor through r *)
Corollary ge_numeric_factor : forall m n M L M' R,
  shapeE m n M -> 1 <= m -> 1 <= n -> gaussian_elimination M = Some (L, M', R) ->
  exists (X Y : nat -> nat -> Q),
    forall i j, i < m -> j < n ->
      (this (val M i j) == Rank.sumn (length M') (fun l => X i l * Y l j))%Q.
Proof.
  intros m n M L M' R HM Hm Hn H.
  destruct (ge_correct m n M HM Hm Hn) as (L0 & M0 & R0 & m' & n' & E & C1 & C2 & C3 & C4 & C5 & C6 & C7 & C8).
  rewrite H in E. inversion E; subst L0 M0 R0. clear E.
  assert (Hl : length M' = m') by apply C6. rewrite Hl.
  exists (fun i k => this (qget L i k)), (fun k j => this (rowB n' M' R j None k)).
  intros i j Hi Hj. unfold val. rewrite <- C8 by auto. rewrite prod3_rows, this_sumn.
  apply RankProofs.sumn_ext. intros. apply this_mult.
Qed.
