(* SGE/ModelProofs.v -- proofs about SGE/Model.v (property C13). *)
From Coq Require Import ZArith QArith Qcanon List Arith Bool Lia.
From PTN Require Import SGE.Model.
Import ListNotations.
Local Close Scope Q_scope.
Local Open Scope nat_scope.

(* ================================================================== basics *)

Lemma Qceqb_true : forall x y : Qc, Qc_eq_bool x y = true <-> x = y.
Proof.
  intros x y. unfold Qc_eq_bool. destruct (Qc_eq_dec x y); split; intros; auto; congruence.
Qed.
Lemma Qceqb_false : forall x y : Qc, Qc_eq_bool x y = false <-> x <> y.
Proof.
  intros x y. unfold Qc_eq_bool. destruct (Qc_eq_dec x y); split; intros; auto; congruence.
Qed.

Lemma mem_In : forall k l, mem k l = true <-> In k l.
Proof.
  induction l as [|x l IH]; simpl. { split; [discriminate|tauto]. }
  destruct (Nat.eqb_spec x k).
  - split; auto.
  - rewrite IH. split; auto. intros [H|H]; auto. congruence.
Qed.
Lemma mem_nIn : forall k l, mem k l = false <-> ~ In k l.
Proof.
  intros. rewrite <- mem_In. destruct (mem k l); split; intros; congruence.
Qed.
Lemma mem_app : forall k l1 l2, mem k (l1 ++ l2) = mem k l1 || mem k l2.
Proof.
  induction l1; simpl; intros; auto. destruct (a =? k); auto.
Qed.

(* ---- upd *)
Lemma upd_length : forall A k (x : A) l, length (upd k x l) = length l.
Proof. induction k; destruct l; simpl; auto. Qed.
Lemma nth_upd_same : forall A k (x d : A) l, k < length l -> nth k (upd k x l) d = x.
Proof. induction k; destruct l; simpl; intros; try lia; auto. apply IHk. lia. Qed.
Lemma nth_upd_other : forall A k j (x d : A) l, j <> k -> nth j (upd k x l) d = nth j l d.
Proof.
  induction k; destruct l; simpl; intros; auto.
  - destruct j; try lia. auto.
  - destruct j; auto.
Qed.
Lemma upd_nil : forall A k (x : A), upd k x [] = [].
Proof. destruct k; auto. Qed.
Lemma Forall_upd : forall A (P : A -> Prop) k x l, Forall P l -> P x -> Forall P (upd k x l).
Proof.
  induction k; destruct l; simpl; intros; auto.
  - inversion H; subst. constructor; auto.
  - inversion H; subst. constructor; auto.
Qed.

(* ---- mapi_from *)
Lemma mapi_from_length : forall A B (f : nat -> A -> B) l a, length (mapi_from a f l) = length l.
Proof. induction l; simpl; intros; auto. Qed.
Lemma nth_mapi_from : forall A B (f : nat -> A -> B) l a j d d',
  j < length l -> nth j (mapi_from a f l) d' = f (a + j) (nth j l d).
Proof.
  induction l; simpl; intros; try lia.
  destruct j. { rewrite Nat.add_0_r. auto. }
  rewrite IHl with (d := d) by lia. f_equal. lia.
Qed.

(* ---- swap_nth *)
Lemma swap_nth_length : forall A i j (l : list A), length (swap_nth i j l) = length l.
Proof. intros. apply mapi_from_length. Qed.
Lemma nth_swap_nth : forall A i j k (l : list A) d,
  i < length l -> j < length l -> k < length l ->
  nth k (swap_nth i j l) d =
  if k =? i then nth j l d else if k =? j then nth i l d else nth k l d.
Proof.
  intros. unfold swap_nth. rewrite nth_mapi_from with (d := d) by auto. simpl.
  destruct (k =? i). { apply nth_indep. auto. }
  destruct (k =? j). { apply nth_indep. auto. }
  auto.
Qed.
Lemma swap_nth_nil : forall A i j, swap_nth i j (@nil A) = [].
Proof. reflexivity. Qed.
Lemma Forall_mapi_from : forall A B (P : B -> Prop) (f : nat -> A -> B) l a,
  (forall k x, In x l -> P (f k x)) -> Forall P (mapi_from a f l).
Proof.
  induction l; simpl; intros; constructor; auto.
Qed.
Lemma Forall_swap_nth : forall A (P : A -> Prop) i j l, Forall P l -> Forall P (swap_nth i j l).
Proof.
  intros. unfold swap_nth. apply Forall_mapi_from. intros k x Hx.
  rewrite Forall_forall in H.
  destruct (k =? i).
  { destruct (Nat.lt_ge_cases j (length l)). apply H, nth_In; auto. rewrite nth_overflow; auto. }
  destruct (k =? j).
  { destruct (Nat.lt_ge_cases i (length l)). apply H, nth_In; auto. rewrite nth_overflow; auto. }
  auto.
Qed.

(* ---- del_from *)
Lemma del_from_length_le : forall A Z (l : list A) k, length (del_from k Z l) <= length l.
Proof.
  induction l; simpl; intros; auto. destruct (mem k Z); simpl; specialize (IHl (S k)); lia.
Qed.
Lemma Forall_del_from : forall A (P : A -> Prop) Z l k, Forall P l -> Forall P (del_from k Z l).
Proof.
  induction l; simpl; intros; auto. inversion H; subst.
  destruct (mem k Z); auto.
Qed.
Lemma del_from_nil : forall A k Z, del_from k Z (@nil A) = [].
Proof. reflexivity. Qed.
(* all lists of one length lose the same positions *)
Lemma del_from_length_eq : forall A B Z (l : list A) (l' : list B) k,
  length l = length l' -> length (del_from k Z l) = length (del_from k Z l').
Proof.
  induction l; destruct l'; simpl; intros; try discriminate; auto.
  destruct (mem k Z); simpl; auto.
Qed.
Lemma del_from_keep_pos : forall A Z (l : list A) k i,
  i < length l -> mem (k + i) Z = false -> 1 <= length (del_from k Z l).
Proof.
  induction l; simpl; intros; try lia.
  destruct i.
  - rewrite Nat.add_0_r in H0. rewrite H0. simpl. lia.
  - destruct (mem k Z); simpl; try lia. apply IHl with (i := i); try lia.
    replace (S k + i) with (k + S i) by lia. auto.
Qed.
Lemma del_from_combine : forall A B Z (l : list A) (l' : list B) k,
  del_from k Z (combine l l') = combine (del_from k Z l) (del_from k Z l').
Proof.
  induction l; destruct l'; simpl; intros; auto.
  - destruct (mem k Z); auto. destruct (del_from (S k) Z l); auto.
  - destruct (mem k Z); simpl; auto. f_equal; auto.
Qed.

Lemma nth_map_in : forall A B (f : A -> B) l k d d',
  k < length l -> nth k (map f l) d' = f (nth k l d).
Proof.
  induction l; simpl; intros; try lia. destruct k; auto. apply IHl. lia.
Qed.
Lemma nth_map_nil : forall A B (g : list A -> list B) L i,
  g [] = [] -> nth i (map g L) [] = g (nth i L []).
Proof. intros. rewrite <- H at 1. apply map_nth. Qed.

(* ================================================================== finite sums *)
Local Open Scope Qc_scope.

Lemma sumn_ext : forall n f g, (forall k, (k < n)%nat -> f k = g k) -> sumn n f = sumn n g.
Proof.
  induction n; simpl; intros; auto. rewrite (IHn f g), H by auto. reflexivity.
Qed.
Lemma sumn_zero : forall n f, (forall k, (k < n)%nat -> f k = 0) -> sumn n f = 0.
Proof.
  induction n; simpl; intros; auto. rewrite IHn, H by auto. ring.
Qed.
Lemma sumn_plus : forall n f g, sumn n (fun k => f k + g k) = sumn n f + sumn n g.
Proof. induction n; simpl; intros. ring. rewrite IHn. ring. Qed.
Lemma sumn_scal_l : forall n c f, sumn n (fun k => c * f k) = c * sumn n f.
Proof. induction n; simpl; intros. ring. rewrite IHn. ring. Qed.
Lemma sumn_scal_r : forall n c f, sumn n (fun k => f k * c) = sumn n f * c.
Proof. induction n; simpl; intros. ring. rewrite IHn. ring. Qed.
Lemma sumn_exchange : forall n m (f : nat -> nat -> Qc),
  sumn n (fun i => sumn m (fun j => f i j)) = sumn m (fun j => sumn n (fun i => f i j)).
Proof.
  induction n; simpl; intros.
  - symmetry. apply sumn_zero. auto.
  - rewrite IHn. rewrite <- sumn_plus. auto.
Qed.
Lemma sumn_S_l : forall n f, sumn (S n) f = f O + sumn n (fun k => f (S k)).
Proof.
  induction n; intros. simpl. ring.
  change (sumn (S (S n)) f) with (sumn (S n) f + f (S n)). rewrite IHn. simpl. ring.
Qed.

(* changing a function at one / two points *)
Lemma sumn_upd1 : forall n f g a, (a < n)%nat -> (forall k, k <> a -> g k = f k) ->
  sumn n g = sumn n f + (g a - f a).
Proof.
  induction n; intros; try lia. simpl.
  destruct (Nat.eq_dec a n).
  - subst. rewrite (sumn_ext n g f). ring. intros. apply H0. lia.
  - rewrite (IHn f g a) by (auto; lia). rewrite (H0 n) by auto. ring.
Qed.
Lemma sumn_upd2 : forall n f g a b, (a < n)%nat -> (b < n)%nat -> a <> b ->
  (forall k, k <> a -> k <> b -> g k = f k) ->
  sumn n g = sumn n f + (g a - f a) + (g b - f b).
Proof.
  intros.
  set (h := fun k => if Nat.eqb k a then g a else f k).
  rewrite (sumn_upd1 n h g b); auto.
  - rewrite (sumn_upd1 n f h a); auto.
    + unfold h. rewrite Nat.eqb_refl. destruct (Nat.eqb_spec b a); try lia. ring.
    + intros. unfold h. destruct (Nat.eqb_spec k a); try lia. auto.
  - intros. unfold h. destruct (Nat.eqb_spec k a); subst; auto.
Qed.

(* Sum_k a'(k) b'(k) = Sum_k a(k) b(k) for the paired elementary operations *)
Lemma pair_add : forall n (a b a' b' : nat -> Qc) src tgt f,
  (src < n)%nat -> (tgt < n)%nat -> src <> tgt ->
  (forall k, k <> src -> a' k = a k) -> a' src = a src - f * a tgt ->
  (forall k, k <> tgt -> b' k = b k) -> b' tgt = b tgt + f * b src ->
  sumn n (fun k => a' k * b' k) = sumn n (fun k => a k * b k).
Proof.
  intros n a b a' b' src tgt f Hs Ht Hne Ha Has Hb Hbt.
  rewrite (sumn_upd2 n (fun k => a k * b k) (fun k => a' k * b' k) src tgt); auto.
  - rewrite Has, Hbt, (Hb src), (Ha tgt) by auto. ring.
  - intros. rewrite Ha, Hb; auto.
Qed.
Lemma pair_swap : forall n (a b a' b' : nat -> Qc) i j,
  (i < n)%nat -> (j < n)%nat ->
  (forall k, (k < n)%nat -> a' k = a (if Nat.eqb k i then j else if Nat.eqb k j then i else k)) ->
  (forall k, (k < n)%nat -> b' k = b (if Nat.eqb k i then j else if Nat.eqb k j then i else k)) ->
  sumn n (fun k => a' k * b' k) = sumn n (fun k => a k * b k).
Proof.
  intros n a b a' b' i j Hi Hj Ha Hb.
  rewrite (sumn_ext n _ (fun k => (fun x => a x * b x) (if Nat.eqb k i then j else if Nat.eqb k j then i else k))).
  2:{ intros. rewrite Ha, Hb; auto. }
  destruct (Nat.eq_dec i j).
  { subst. apply sumn_ext. intros. destruct (Nat.eqb_spec k j); subst; auto. }
  rewrite (sumn_upd2 n (fun k => a k * b k) _ i j); auto.
  - rewrite Nat.eqb_refl. destruct (Nat.eqb_spec j i); try lia. rewrite Nat.eqb_refl. ring.
  - intros. destruct (Nat.eqb_spec k i); try lia. destruct (Nat.eqb_spec k j); try lia. auto.
Qed.

(* deleting positions = masking them *)
Lemma sum_del : forall A (F : A -> Qc) (d : A) Z l a,
  sumn (length (del_from a Z l)) (fun k => F (nth k (del_from a Z l) d)) =
  sumn (length l) (fun k => if mem (a + k) Z then 0 else F (nth k l d)).
Proof.
  induction l; intros. reflexivity.
  cbn [del_from]. rewrite (sumn_S_l (length l)). rewrite Nat.add_0_r.
  destruct (mem a0 Z) eqn:E.
  - rewrite IHl. rewrite Qcplus_0_l. apply sumn_ext. intros.
    replace (a0 + S k)%nat with (S a0 + k)%nat by lia. reflexivity.
  - cbn [length]. rewrite sumn_S_l. cbn [nth]. f_equal. rewrite IHl. apply sumn_ext. intros.
    replace (a0 + S k)%nat with (S a0 + k)%nat by lia. reflexivity.
Qed.

(* ================================================================== shapes and access *)

Definition shapeQ (p m : nat) (L : qmat) : Prop := length L = p /\ rectQ m L.
Definition shapeE (m n : nat) (M : mat) : Prop := length M = m /\ rectE n M.

Lemma rect_nth_len : forall A n (M : list (list A)) k,
  Forall (fun r => length r = n) M -> (k < length M)%nat -> length (nth k M []) = n.
Proof.
  intros. rewrite Forall_forall in H. apply H. apply nth_In. auto.
Qed.
Lemma shapeQ_row : forall p m L i, shapeQ p m L -> (i < p)%nat -> length (nth i L []) = m.
Proof. intros p m L i [H1 H2] Hi. apply rect_nth_len; auto. unfold rectQ in H2. auto. lia. Qed.
Lemma shapeE_row : forall m n M k, shapeE m n M -> (k < m)%nat -> length (nth k M []) = n.
Proof. intros m n M k [H1 H2] Hk. apply rect_nth_len; auto. lia. Qed.

Lemma get_out_row : forall M k l, (length M <= k)%nat -> get M k l = Num q0.
Proof. intros. unfold get. rewrite (nth_overflow M) by auto. destruct l; auto. Qed.
Lemma get_out_col : forall m n M k l, shapeE m n M -> (n <= l)%nat -> get M k l = Num q0.
Proof.
  intros. destruct (Nat.lt_ge_cases k m).
  - unfold get. apply nth_overflow. rewrite (shapeE_row m n); auto.
  - apply get_out_row. destruct H. lia.
Qed.
Lemma qget_out_col : forall p m L i k, shapeQ p m L -> (m <= k)%nat -> qget L i k = q0.
Proof.
  intros. unfold qget. destruct (Nat.lt_ge_cases i p).
  - apply nth_overflow. rewrite (shapeQ_row p m); auto.
  - rewrite (nth_overflow L). destruct k; auto. destruct H. lia.
Qed.

(* ---- the two views of the triple product *)
Definition rowB (n : nat) (M : mat) (R : qmat) (j : nat) (s : option nat) (k : nat) : Qc :=
  sumn n (fun l => coef (get M k l) s * qget R l j).
Definition colA (m : nat) (L : qmat) (M : mat) (i : nat) (s : option nat) (l : nat) : Qc :=
  sumn m (fun k => qget L i k * coef (get M k l) s).

Lemma prod3_rows : forall m n L M R i j s,
  prod3 m n L M R i j s = sumn m (fun k => qget L i k * rowB n M R j s k).
Proof.
  intros. unfold prod3, rowB. apply sumn_ext. intros. rewrite <- sumn_scal_l.
  apply sumn_ext. intros. ring.
Qed.
Lemma prod3_cols : forall m n L M R i j s,
  prod3 m n L M R i j s = sumn n (fun l => colA m L M i s l * qget R l j).
Proof.
  intros. unfold prod3, colA. rewrite sumn_exchange. apply sumn_ext. intros.
  rewrite <- sumn_scal_r. apply sumn_ext. intros. ring.
Qed.

(* ---- zero lines (as linear forms) *)
Definition zero_row (M : mat) (z : nat) : Prop := forall l s, coef (get M z l) s = 0.
Definition zero_col (M : mat) (z : nat) : Prop := forall k s, coef (get M k z) s = 0.

Lemma ent_is_zero_coef : forall e s, ent_is_zero e = true -> coef e s = 0.
Proof.
  destruct e; simpl; intros; try discriminate. apply Qceqb_true in H. subst. destruct s; auto.
Qed.
Lemma all_zero_nth : forall r l s, all_zero r = true -> coef (nth l r (Num q0)) s = 0.
Proof.
  intros. destruct (Nat.lt_ge_cases l (length r)).
  - apply ent_is_zero_coef. unfold all_zero in H. rewrite forallb_forall in H. apply H, nth_In; auto.
  - rewrite nth_overflow by auto. destruct s; auto.
Qed.
Lemma rowB_zero : forall n M R j s z, zero_row M z -> rowB n M R j s z = 0.
Proof. intros. unfold rowB. apply sumn_zero. intros. rewrite H. ring. Qed.
Lemma colA_zero : forall m L M i s z, zero_col M z -> colA m L M i s z = 0.
Proof. intros. unfold colA. apply sumn_zero. intros. rewrite H. ring. Qed.

(* ---- entries *)
Lemma add_entry_coef : forall f t s e, add_entry f t s = Some e ->
  forall x, coef e x = coef t x + f * coef s x.
Proof.
  intros f t s e H x. destruct s as [sq|sc sv]; destruct t as [tq|tc tv]; simpl in H.
  - inversion H; subst. destruct x; simpl; ring.
  - destruct (Qc_eq_bool sq q0) eqn:E; try discriminate. inversion H; subst.
    apply Qceqb_true in E. subst. destruct x; simpl; ring.
  - destruct (Qc_eq_bool tq q0) eqn:E; try discriminate. inversion H; subst.
    apply Qceqb_true in E. subst. destruct x; simpl; try ring. destruct (sv =? n)%nat; ring.
  - destruct (Nat.eqb_spec tv sv); try discriminate. subst.
    destruct (Qc_eq_bool (tc + f * sc) q0) eqn:E; inversion H; subst.
    + apply Qceqb_true in E. destruct x; simpl; try ring.
      destruct (sv =? n)%nat; try ring. rewrite E. reflexivity.
    + destruct x; simpl; try ring. destruct (sv =? n)%nat; ring.
Qed.

Lemma add_line_spec : forall f tl sl r, add_line f tl sl = Some r ->
  length r = length tl /\
  forall l x, (l < length tl)%nat ->
    coef (nth l r (Num q0)) x = coef (nth l tl (Num q0)) x + f * coef (nth l sl (Num q0)) x.
Proof.
  induction tl as [|t tl IH]; intros sl r H; simpl in H.
  - inversion H; subst. split; auto. simpl. intros. lia.
  - destruct sl as [|s sl]; try discriminate.
    destruct (add_entry f t s) eqn:E; try discriminate.
    destruct (add_line f tl sl) eqn:E2; try discriminate. inversion H; subst.
    destruct (IH _ _ E2) as [H1 H2]. split. simpl; congruence.
    intros l0 x Hl. destruct l0; simpl.
    + apply add_entry_coef; auto.
    + apply H2. simpl in Hl. lia.
Qed.

(* ---- access to updated matrices *)
Lemma get_upd_row : forall M t r k l, (t < length M)%nat ->
  get (upd t r M) k l = if (k =? t)%nat then nth l r (Num q0) else get M k l.
Proof.
  intros. unfold get. destruct (Nat.eqb_spec k t).
  - subst. rewrite nth_upd_same; auto.
  - rewrite nth_upd_other; auto.
Qed.

Lemma qget_col_add_float : forall p m L t s f i k, shapeQ p m L -> (i < p)%nat -> (t < m)%nat ->
  qget (col_add_float L t s f) i k =
  if (k =? t)%nat then qget L i t + f * qget L i s else qget L i k.
Proof.
  intros. unfold qget, col_add_float.
  rewrite (nth_map_nil _ _ (fun row => upd t (nth t row q0 + f * nth s row q0) row)).
  2:{ apply upd_nil. }
  destruct (Nat.eqb_spec k t).
  - subst. apply nth_upd_same. rewrite (shapeQ_row p m); auto.
  - apply nth_upd_other. auto.
Qed.
Lemma shapeQ_col_add_float : forall p m L t s f, shapeQ p m L -> shapeQ p m (col_add_float L t s f).
Proof.
  intros p m L t s f [H1 H2]. split. unfold col_add_float. rewrite map_length. auto.
  unfold rectQ, col_add_float in *. rewrite Forall_map. eapply Forall_impl; eauto.
  simpl. intros. rewrite upd_length. auto.
Qed.

Lemma qget_row_add_float : forall n q R t s f l j, shapeQ n q R -> (t < n)%nat -> (s < n)%nat ->
  qget (row_add_float R t s f) l j =
  if (l =? t)%nat then qget R t j + f * qget R s j else qget R l j.
Proof.
  intros n q R t s f l j HR Ht Hs. unfold qget, row_add_float. destruct HR as [H1 H2].
  destruct (Nat.eqb_spec l t).
  - subst l. rewrite nth_upd_same by lia.
    destruct (Nat.lt_ge_cases j q).
    + rewrite nth_mapi_from with (d := q0). reflexivity.
      rewrite (rect_nth_len _ q); auto. lia.
    + rewrite !nth_overflow. ring.
      * rewrite (rect_nth_len _ q); auto. lia.
      * rewrite (rect_nth_len _ q); auto. lia.
      * rewrite mapi_from_length. rewrite (rect_nth_len _ q); auto. lia.
  - rewrite nth_upd_other; auto.
Qed.
Lemma shapeQ_row_add_float : forall n q R t s f, shapeQ n q R -> (t < n)%nat ->
  shapeQ n q (row_add_float R t s f).
Proof.
  intros n q R t s f [H1 H2] Ht. split. unfold row_add_float. rewrite upd_length. auto.
  unfold row_add_float. apply Forall_upd; auto. rewrite mapi_from_length.
  apply rect_nth_len; auto. lia.
Qed.

Lemma nth_col : forall M t k, nth k (col t M) (Num q0) = get M k t.
Proof.
  intros. unfold col, get.
  rewrite <- (map_nth (fun row => nth t row (Num q0)) M [] k). destruct t; reflexivity.
Qed.
Lemma col_length : forall M t, length (col t M) = length M.
Proof. intros. apply map_length. Qed.

Lemma get_set_col : forall m n M t c k l, shapeE m n M -> length c = m -> (t < n)%nat -> (k < m)%nat ->
  get (set_col t c M) k l = if (l =? t)%nat then nth k c (Num q0) else get M k l.
Proof.
  intros m n M t c k l [H1 H2] Hc Ht Hk. unfold get, set_col.
  rewrite nth_map_in with (d := ([], Num q0)) by (rewrite combine_length; lia).
  rewrite combine_nth by lia. simpl.
  destruct (Nat.eqb_spec l t).
  - subst. apply nth_upd_same. rewrite (rect_nth_len _ n) by (auto; lia). auto.
  - apply nth_upd_other. auto.
Qed.
Lemma shapeE_set_col : forall m n M t c, shapeE m n M -> length c = m -> shapeE m n (set_col t c M).
Proof.
  intros m n M t c [H1 H2] Hc. split.
  - unfold set_col. rewrite map_length, combine_length. lia.
  - unfold set_col, rectE in *. rewrite Forall_map. rewrite Forall_forall in *. intros [r e] Hin.
    simpl. rewrite upd_length. apply H2. eapply in_combine_l; eauto.
Qed.
Lemma shapeE_upd_row : forall m n M t r, shapeE m n M -> length r = n -> shapeE m n (upd t r M).
Proof.
  intros m n M t r [H1 H2] Hr. split. rewrite upd_length; auto. apply Forall_upd; auto.
Qed.

Definition sw (i j k : nat) : nat := if (k =? i)%nat then j else if (k =? j)%nat then i else k.
Lemma sw_lt : forall i j k n, (i < n)%nat -> (j < n)%nat -> (k < n)%nat -> (sw i j k < n)%nat.
Proof. intros. unfold sw. destruct (k =? i)%nat; auto. destruct (k =? j)%nat; auto. Qed.

Lemma get_swap_rows : forall M i j k l, (i < length M)%nat -> (j < length M)%nat -> (k < length M)%nat ->
  get (swap_nth i j M) k l = get M (sw i j k) l.
Proof.
  intros. unfold get, sw. rewrite nth_swap_nth by auto.
  destruct (k =? i)%nat; auto. destruct (k =? j)%nat; auto.
Qed.
Lemma get_swap_cols : forall m n M i j k l, shapeE m n M -> (i < n)%nat -> (j < n)%nat -> (l < n)%nat ->
  get (map (swap_nth i j) M) k l = get M k (sw i j l).
Proof.
  intros m n M i j k l HM Hi Hj Hl. unfold get.
  rewrite (nth_map_nil _ _ (swap_nth i j)) by reflexivity.
  destruct (Nat.lt_ge_cases k m).
  - rewrite nth_swap_nth; try (rewrite (shapeE_row m n); auto).
    unfold sw. destruct (l =? i)%nat; auto. destruct (l =? j)%nat; auto.
  - destruct HM as [H1 H2]. rewrite (nth_overflow M) by lia. simpl.
    destruct l; destruct (sw i j _); auto.
Qed.
Lemma qget_swap_cols : forall p m L i j i0 k, shapeQ p m L -> (i < m)%nat -> (j < m)%nat -> (k < m)%nat ->
  qget (map (swap_nth i j) L) i0 k = qget L i0 (sw i j k).
Proof.
  intros p m L i j i0 k HL Hi Hj Hk. unfold qget.
  rewrite (nth_map_nil _ _ (swap_nth i j)) by reflexivity.
  destruct (Nat.lt_ge_cases i0 p).
  - rewrite nth_swap_nth; try (rewrite (shapeQ_row p m); auto).
    unfold sw. destruct (k =? i)%nat; auto. destruct (k =? j)%nat; auto.
  - destruct HL as [H1 H2]. rewrite (nth_overflow L) by lia. simpl.
    destruct k; destruct (sw i j _); auto.
Qed.
Lemma qget_swap_rows : forall R i j l c, (i < length R)%nat -> (j < length R)%nat -> (l < length R)%nat ->
  qget (swap_nth i j R) l c = qget R (sw i j l) c.
Proof.
  intros. unfold qget, sw. rewrite nth_swap_nth by auto.
  destruct (l =? i)%nat; auto. destruct (l =? j)%nat; auto.
Qed.
Lemma shape_map_swap : forall A p m (L : list (list A)) i j,
  length L = p /\ Forall (fun r => length r = m) L ->
  length (map (swap_nth i j) L) = p /\ Forall (fun r => length r = m) (map (swap_nth i j) L).
Proof.
  intros A p m L i j [H1 H2]. split. rewrite map_length; auto.
  rewrite Forall_map. eapply Forall_impl; eauto. simpl. intros. rewrite swap_nth_length. auto.
Qed.
Lemma shape_swap : forall A p m (L : list (list A)) i j,
  length L = p /\ Forall (fun r => length r = m) L ->
  length (swap_nth i j L) = p /\ Forall (fun r => length r = m) (swap_nth i j L).
Proof.
  intros A p m L i j [H1 H2]. split. rewrite swap_nth_length; auto.
  apply Forall_swap_nth; auto. 
Qed.

(* ================================================================== primitives preserve L*M*R *)

Lemma row_add_spec : forall p m n L M tgt src f M' L' z,
  shapeQ p m L -> shapeE m n M -> (tgt < m)%nat -> (src < m)%nat -> tgt <> src ->
  row_add M L tgt src f = (M', L', z) ->
  shapeQ p m L' /\ shapeE m n M' /\
  (forall R i j s, (i < p)%nat -> prod3 m n L' M' R i j s = prod3 m n L M R i j s) /\
  (forall k, k <> tgt -> nth k M' [] = nth k M []) /\
  (z = true -> zero_row M' tgt).
Proof.
  intros p m n L M tgt src f M' L' z HL HM Ht Hs Hne H. unfold row_add in H.
  destruct (add_line f (nth tgt M []) (nth src M [])) as [r|] eqn:E.
  2:{ inversion H; subst. repeat split; auto; try apply HL; try apply HM. discriminate. }
  inversion H; subst; clear H.
  destruct (add_line_spec _ _ _ _ E) as [Hlen Hco].
  rewrite (shapeE_row m n) in Hlen, Hco by auto.
  assert (HlM : length M = m) by apply HM.
  split. { apply shapeQ_col_add_float; auto. }
  split. { apply shapeE_upd_row; auto. }
  split.
  { intros R i j s Hi. rewrite !prod3_rows.
    apply pair_add with (src := src) (tgt := tgt) (f := f); auto.
    - intros. rewrite (qget_col_add_float p m) by auto. destruct (Nat.eqb_spec k src); try lia. auto.
    - rewrite (qget_col_add_float p m) by auto. rewrite Nat.eqb_refl. ring.
    - intros. unfold rowB. apply sumn_ext. intros. rewrite get_upd_row by lia.
      destruct (Nat.eqb_spec k tgt); try lia. auto.
    - unfold rowB. rewrite <- sumn_scal_l, <- sumn_plus. apply sumn_ext. intros l Hl.
      rewrite get_upd_row by lia. rewrite Nat.eqb_refl. rewrite Hco by auto. unfold get. ring. }
  split.
  { intros. apply nth_upd_other. auto. }
  intros Hz l s. rewrite get_upd_row by lia. rewrite Nat.eqb_refl. apply all_zero_nth. auto.
Qed.

Lemma col_add_spec : forall m n q M R tgt src f M' R' z,
  shapeE m n M -> shapeQ n q R -> (tgt < n)%nat -> (src < n)%nat -> tgt <> src ->
  col_add M R tgt src f = (M', R', z) ->
  shapeE m n M' /\ shapeQ n q R' /\
  (forall L i j s, prod3 m n L M' R' i j s = prod3 m n L M R i j s) /\
  (forall k l, l <> tgt -> get M' k l = get M k l) /\
  (z = true -> zero_col M' tgt).
Proof.
  intros m n q M R tgt src f M' R' z HM HR Ht Hs Hne H. unfold col_add in H.
  destruct (add_line f (col tgt M) (col src M)) as [c|] eqn:E.
  2:{ inversion H; subst. repeat split; auto; try apply HL; try apply HM; try apply HR. discriminate. }
  inversion H; subst; clear H.
  destruct (add_line_spec _ _ _ _ E) as [Hlen Hco].
  rewrite col_length in Hlen, Hco.
  assert (HlM : length M = m) by apply HM. rewrite HlM in Hlen, Hco.
  assert (Hget : forall k l, get (set_col tgt c M) k l =
                   if (l =? tgt)%nat then (if (k <? m)%nat then nth k c (Num q0) else Num q0) else get M k l).
  { intros. destruct (Nat.ltb_spec k m).
    - apply (get_set_col m n); auto.
    - rewrite !get_out_row; try lia. destruct (l =? tgt)%nat; auto.
      destruct (shapeE_set_col m n M tgt c HM Hlen). lia. }
  split. { apply shapeE_set_col; auto. }
  split. { apply shapeQ_row_add_float; auto. }
  split.
  { intros L i j s. rewrite !prod3_cols.
    rewrite (sumn_ext n _ (fun l => qget (row_add_float R src tgt (- f)) l j * colA m L (set_col tgt c M) i s l))
      by (intros; ring).
    rewrite (sumn_ext n (fun l => colA m L M i s l * qget R l j) (fun l => qget R l j * colA m L M i s l))
      by (intros; ring).
    apply pair_add with (src := src) (tgt := tgt) (f := f); auto.
    - intros. rewrite (qget_row_add_float n q) by auto. destruct (Nat.eqb_spec k src); try lia. auto.
    - rewrite (qget_row_add_float n q) by auto. rewrite Nat.eqb_refl. ring.
    - intros. unfold colA. apply sumn_ext. intros. rewrite Hget.
      destruct (Nat.eqb_spec k tgt); try lia. auto.
    - unfold colA. rewrite <- sumn_scal_l, <- sumn_plus. apply sumn_ext. intros k Hk.
      rewrite Hget. rewrite Nat.eqb_refl. destruct (Nat.ltb_spec k m); try lia.
      rewrite Hco by auto. rewrite !nth_col. ring. }
  split.
  { intros. rewrite Hget. destruct (Nat.eqb_spec l tgt); try lia. auto. }
  intros Hz k s. rewrite Hget. rewrite Nat.eqb_refl. destruct (k <? m)%nat.
  - apply all_zero_nth. auto.
  - destruct s; auto.
Qed.

Lemma row_swap_spec : forall p m n L M i j,
  shapeQ p m L -> shapeE m n M -> (i < m)%nat -> (j < m)%nat ->
  shapeQ p m (snd (row_swap M L i j)) /\ shapeE m n (fst (row_swap M L i j)) /\
  (forall R i0 j0 s, prod3 m n (snd (row_swap M L i j)) (fst (row_swap M L i j)) R i0 j0 s
                     = prod3 m n L M R i0 j0 s).
Proof.
  intros p m n L M i j HL HM Hi Hj. simpl.
  assert (HlM : length M = m) by apply HM.
  split. { apply shape_map_swap. auto. }
  split. { apply shape_swap. auto. }
  intros. rewrite !prod3_rows. apply pair_swap with (i := i) (j := j); auto.
  - intros. apply (qget_swap_cols p m); auto.
  - intros. unfold rowB. apply sumn_ext. intros. rewrite get_swap_rows by lia. reflexivity.
Qed.

Lemma col_swap_spec : forall m n q M R i j,
  shapeE m n M -> shapeQ n q R -> (i < n)%nat -> (j < n)%nat ->
  shapeE m n (fst (col_swap M R i j)) /\ shapeQ n q (snd (col_swap M R i j)) /\
  (forall L i0 j0 s, prod3 m n L (fst (col_swap M R i j)) (snd (col_swap M R i j)) i0 j0 s
                     = prod3 m n L M R i0 j0 s).
Proof.
  intros m n q M R i j HM HR Hi Hj. simpl.
  assert (HlR : length R = n) by apply HR.
  split. { apply shape_map_swap. auto. }
  split. { apply shape_swap. auto. }
  intros. rewrite !prod3_cols. apply pair_swap with (i := i) (j := j); auto.
  - intros. unfold colA. apply sumn_ext. intros. rewrite (get_swap_cols m n) by auto. reflexivity.
  - intros. apply qget_swap_rows; lia.
Qed.

(* ---- deletion of lines *)

Lemma sum_del2 : forall A B (F : A -> B -> Qc) dA dB Z (xs : list A) (ys : list B),
  length xs = length ys ->
  sumn (length (del_idx Z ys)) (fun k => F (nth k (del_idx Z xs) dA) (nth k (del_idx Z ys) dB)) =
  sumn (length ys) (fun k => if mem k Z then 0 else F (nth k xs dA) (nth k ys dB)).
Proof.
  intros. unfold del_idx.
  pose proof (sum_del (A * B) (fun pr => F (fst pr) (snd pr)) (dA, dB) Z (combine xs ys) 0) as S.
  rewrite del_from_combine in S. rewrite !combine_length in S.
  rewrite (del_from_length_eq _ _ Z xs ys 0 H) in S. rewrite H in S. rewrite !Nat.min_id in S.
  simpl in S.
  rewrite (sumn_ext _ _ (fun k => F (fst (nth k (combine (del_from 0 Z xs) (del_from 0 Z ys)) (dA, dB)))
                                    (snd (nth k (combine (del_from 0 Z xs) (del_from 0 Z ys)) (dA, dB))))).
  2:{ intros. rewrite combine_nth. reflexivity. apply del_from_length_eq; auto. }
  rewrite S. apply sumn_ext. intros. destruct (mem k Z); auto. rewrite combine_nth; auto.
Qed.

Definition mprod_rows (m n : nat) (L : qmat) (M : mat) (R : qmat) (Z : list nat) i j s : Qc :=
  sumn m (fun k => if mem k Z then 0 else qget L i k * rowB n M R j s k).
Definition mprod_cols (m n : nat) (L : qmat) (M : mat) (R : qmat) (Z : list nat) i j s : Qc :=
  sumn n (fun l => if mem l Z then 0 else colA m L M i s l * qget R l j).

Lemma shape_del_rows : forall p m n L M Z, shapeQ p m L -> shapeE m n M ->
  shapeQ p (length (del_idx Z M)) (map (del_idx Z) L) /\ shapeE (length (del_idx Z M)) n (del_idx Z M) /\
  (length (del_idx Z M) <= m)%nat.
Proof.
  intros p m n L M Z [L1 L2] [M1 M2]. split; [split|split; [split|]].
  - rewrite map_length. auto.
  - unfold rectQ in *. rewrite Forall_map. eapply Forall_impl; eauto. simpl. intros.
    apply del_from_length_eq. lia.
  - auto.
  - apply Forall_del_from. auto.
  - rewrite <- M1. apply del_from_length_le.
Qed.
Lemma shape_del_cols : forall m n q M R Z, shapeE m n M -> shapeQ n q R ->
  shapeE m (length (del_idx Z R)) (map (del_idx Z) M) /\ shapeQ (length (del_idx Z R)) q (del_idx Z R) /\
  (length (del_idx Z R) <= n)%nat.
Proof.
  intros m n q M R Z [M1 M2] [R1 R2]. split; [split|split; [split|]].
  - rewrite map_length. auto.
  - unfold rectE in *. rewrite Forall_map. eapply Forall_impl; eauto. simpl. intros.
    apply del_from_length_eq. lia.
  - auto.
  - apply Forall_del_from. auto.
  - rewrite <- R1. apply del_from_length_le.
Qed.

Lemma del_rows_masked : forall p m n L M Z R i j s,
  shapeQ p m L -> shapeE m n M -> (i < p)%nat ->
  prod3 (length (del_idx Z M)) n (map (del_idx Z) L) (del_idx Z M) R i j s = mprod_rows m n L M R Z i j s.
Proof.
  intros p m n L M Z R i j s HL HM Hi. rewrite prod3_rows. unfold mprod_rows.
  pose proof (sum_del2 Qc (list ent)
     (fun x row => x * sumn n (fun l => coef (nth l row (Num q0)) s * qget R l j)) q0 [] Z (nth i L []) M) as S.
  rewrite (shapeQ_row p m) in S by auto. destruct HM as [M1 M2]. rewrite M1 in S.
  specialize (S eq_refl).
  unfold qget at 1. rewrite (nth_map_nil _ _ (del_idx Z)) by reflexivity.
  unfold rowB, get. exact S.
Qed.
Lemma del_cols_masked : forall m n q L M Z R i j s,
  shapeE m n M -> shapeQ n q R ->
  prod3 m (length (del_idx Z R)) L (map (del_idx Z) M) (del_idx Z R) i j s = mprod_cols m n L M R Z i j s.
Proof.
  intros m n q L M Z R i j s HM HR. rewrite prod3_rows. unfold mprod_cols.
  rewrite (sumn_ext m _ (fun k => sumn n (fun l => if mem l Z then 0 else qget L i k * coef (get M k l) s * qget R l j))).
  - rewrite sumn_exchange. apply sumn_ext. intros l Hl. destruct (mem l Z).
    + apply sumn_zero. auto.
    + unfold colA. rewrite <- sumn_scal_r. apply sumn_ext. intros. ring.
  - intros k Hk.
    pose proof (sum_del2 ent (list Qc) (fun e rr => coef e s * nth j rr q0) (Num q0) [] Z (nth k M []) R) as S.
    rewrite (shapeE_row m n) in S by auto. destruct HR as [R1 R2]. rewrite R1 in S.
    specialize (S eq_refl).
    unfold rowB, get, qget. rewrite (nth_map_nil _ _ (del_idx Z)) by reflexivity.
    rewrite S. rewrite <- sumn_scal_l. apply sumn_ext. intros. destruct (mem k0 Z); ring.
Qed.

Lemma mprod_rows_unmask : forall m n L M R Z i j s,
  (forall z, In z Z -> zero_row M z) -> mprod_rows m n L M R Z i j s = prod3 m n L M R i j s.
Proof.
  intros. rewrite prod3_rows. unfold mprod_rows. apply sumn_ext. intros.
  destruct (mem k Z) eqn:E; auto. apply mem_In in E. rewrite rowB_zero by auto. ring.
Qed.
Lemma mprod_cols_unmask : forall m n L M R Z i j s,
  (forall z, In z Z -> zero_col M z) -> mprod_cols m n L M R Z i j s = prod3 m n L M R i j s.
Proof.
  intros. rewrite prod3_cols. unfold mprod_cols. apply sumn_ext. intros.
  destruct (mem k Z) eqn:E; auto. apply mem_In in E. rewrite colA_zero by auto. ring.
Qed.

(* ================================================================== row elimination *)
Local Open Scope nat_scope.

Lemma zero_row_same : forall M M' z, nth z M' [] = nth z M [] -> zero_row M z -> zero_row M' z.
Proof. unfold zero_row, get. intros. rewrite H. auto. Qed.
Lemma zero_col_same : forall M M' z, (forall k, get M' k z = get M k z) -> zero_col M z -> zero_col M' z.
Proof. unfold zero_col. intros. rewrite H. auto. Qed.

Lemma row_elim_target_cases : forall pivot i M L Z j,
  row_elim_target pivot i (M, L, Z) j = (M, L, Z) \/
  (j <> i /\ exists f M' L' iz, row_add M L j i f = (M', L', iz) /\
     row_elim_target pivot i (M, L, Z) j = (M', L', if iz then Z ++ [j] else Z)).
Proof.
  intros. unfold row_elim_target.
  destruct (Nat.eqb_spec j i); simpl; auto.
  destruct (ent_is_zero (get M j i)); simpl; auto.
  destruct pivot as [pq|pc pv]; destruct (get M j i) as [eq|ec ev]; auto.
  - right. split; auto. destruct (row_add M L j i (- eq / pq)%Qc) as [[M' L'] iz] eqn:E.
    exists (- eq / pq)%Qc, M', L', iz. auto.
  - destruct (pv =? ev); auto.
    right. split; auto. destruct (row_add M L j i (- ec / pc)%Qc) as [[M' L'] iz] eqn:E.
    exists (- ec / pc)%Qc, M', L', iz. auto.
Qed.

(* invariant of the inner loop of row_elimination *)
Definition rinv (p m n i a : nat) (L0 : qmat) (M0 : mat) (st : mat * qmat * list nat) : Prop :=
  let '(M, L, Z) := st in
  shapeQ p m L /\ shapeE m n M /\
  (forall R i0 j0 s, i0 < p -> prod3 m n L M R i0 j0 s = prod3 m n L0 M0 R i0 j0 s) /\
  (forall z, In z Z -> zero_row M z /\ z < a /\ z <> i).

Lemma row_elim_target_inv : forall p m n i L0 M0 pivot st j,
  i < m -> j < m -> rinv p m n i j L0 M0 st -> rinv p m n i (S j) L0 M0 (row_elim_target pivot i st j).
Proof.
  intros p m n i L0 M0 pivot [[M L] Z] j Hi Hj (HL & HM & HP & HZ).
  destruct (row_elim_target_cases pivot i M L Z j) as [E|(Hne & f & M' & L' & iz & Ea & E)]; rewrite E.
  - split; auto. split; auto. split; auto. intros z Hz. apply HZ in Hz. intuition lia.
  - destruct (row_add_spec p m n L M j i f M' L' iz HL HM Hj Hi Hne Ea) as (HL' & HM' & HP' & Hoth & Hzr).
    split; auto. split; auto. split.
    { intros. rewrite HP' by auto. apply HP; auto. }
    intros z Hz.
    assert (Hold : In z Z -> zero_row M' z /\ z < S j /\ z <> i).
    { intros Hin. destruct (HZ z Hin) as (Z1 & Z2 & Z3). repeat split; auto.
      apply (zero_row_same M); auto. apply Hoth. lia. }
    destruct iz; auto. apply in_app_or in Hz. destruct Hz as [Hz|[Hz|[]]]; auto.
    subst z. repeat split; auto.
Qed.

Lemma row_elim_fold_inv : forall p m n i L0 M0 pivot len a st,
  i < m -> a + len <= m -> rinv p m n i a L0 M0 st ->
  rinv p m n i (a + len) L0 M0 (fold_left (row_elim_target pivot i) (seq a len) st).
Proof.
  induction len; intros a st Hi Hb Hinv; simpl.
  - rewrite Nat.add_0_r. auto.
  - replace (a + S len) with (S a + len) by lia. apply IHlen; auto; try lia.
    apply row_elim_target_inv; auto. lia.
Qed.

Lemma find_seq_some : forall f a len j, find f (seq a len) = Some j -> a <= j < a + len /\ f j = true.
Proof.
  intros. apply find_some in H. destruct H as [H1 H2]. apply in_seq in H1. auto.
Qed.

(* result of one outer iteration *)
Definition rstep_ok (p m n : nat) (L : qmat) (M : mat) (L' : qmat) (M' : mat) : Prop :=
  exists m', m' <= m /\ 1 <= m' /\ shapeQ p m' L' /\ shapeE m' n M' /\
    forall R i0 j0 s, i0 < p -> prod3 m' n L' M' R i0 j0 s = prod3 m n L M R i0 j0 s.

Lemma rstep_ok_refl : forall p m n L M, 1 <= m -> shapeQ p m L -> shapeE m n M -> rstep_ok p m n L M L M.
Proof. intros. exists m. repeat split; auto; try apply H0; try apply H1. Qed.
Lemma rstep_ok_trans : forall p m n L M L1 M1 L2 M2,
  rstep_ok p m n L M L1 M1 ->
  (forall m1, m1 <= m -> 1 <= m1 -> shapeQ p m1 L1 -> shapeE m1 n M1 -> rstep_ok p m1 n L1 M1 L2 M2) ->
  rstep_ok p m n L M L2 M2.
Proof.
  intros p m n L M L1 M1 L2 M2 (m1 & A1 & A2 & A3 & A4 & A5) H.
  destruct (H m1 A1 A2 A3 A4) as (m2 & B1 & B2 & B3 & B4 & B5).
  exists m2. repeat split; auto; try apply B3; try apply B4; try lia.
  intros. rewrite B5, A5; auto.
Qed.

Lemma row_elim_step_ok : forall p m n i L M,
  shapeQ p m L -> shapeE m n M -> i < m ->
  rstep_ok p m n L M (fst (row_elim_step i L M)) (snd (row_elim_step i L M)).
Proof.
  intros p m n i L M HL HM Hi. unfold row_elim_step.
  assert (Hm : length M = m) by apply HM.
  (* the pivot search *)
  set (sw0 := if ent_is_zero (get M i i)
              then match find_row_pivot M i with Some j => row_swap M L i j | None => (M, L) end
              else (M, L)).
  assert (Hsw : shapeQ p m (snd sw0) /\ shapeE m n (fst sw0) /\
                forall R i0 j0 s, prod3 m n (snd sw0) (fst sw0) R i0 j0 s = prod3 m n L M R i0 j0 s).
  { unfold sw0. destruct (ent_is_zero (get M i i)); auto.
    destruct (find_row_pivot M i) as [j|] eqn:E; auto.
    unfold find_row_pivot in E. apply find_seq_some in E. destruct E as [E _].
    apply row_swap_spec; auto. lia. }
  destruct sw0 as [M1 L1]. simpl in Hsw. destruct Hsw as (HL1 & HM1 & HP1).
  destruct (ent_is_zero (get M1 i i)).
  { simpl. exists m. repeat split; auto; try apply HL1; try apply HM1. lia. }
  assert (Hm1 : length M1 = m) by apply HM1. rewrite Hm1.
  pose proof (row_elim_fold_inv p m n i L1 M1 (get M1 i i) m 0 (M1, L1, []) Hi (le_n _)) as F.
  simpl in F.
  destruct (fold_left (row_elim_target (get M1 i i) i) (seq 0 m) (M1, L1, [])) as [[M2 L2] Z].
  destruct F as (HL2 & HM2 & HP2 & HZ).
  { repeat split; auto; try apply HL1; try apply HM1; simpl in *; try contradiction. }
  simpl.
  destruct (shape_del_rows p m n L2 M2 Z HL2 HM2) as (S1 & S2 & S3).
  exists (length (del_idx Z M2)). split; auto. split.
  { unfold del_idx. apply del_from_keep_pos with (i := i). destruct HM2; lia.
    simpl. apply mem_nIn. intro Hin. apply HZ in Hin. lia. }
  split; auto. split; auto.
  intros. rewrite (del_rows_masked p m n) by auto.
  rewrite mprod_rows_unmask. rewrite HP2 by auto. apply HP1.
  intros z Hz. apply HZ. auto.
Qed.

Lemma row_elim_loop_ok : forall p n fuel i m L M,
  shapeQ p m L -> shapeE m n M -> 1 <= m -> m <= fuel + i ->
  exists L' M', row_elim_loop fuel i L M = Some (L', M') /\ rstep_ok p m n L M L' M'.
Proof.
  induction fuel; intros i m L M HL HM H1 Hf; simpl.
  - assert (Hm : length M = m) by apply HM.
    destruct (Nat.ltb_spec i (Nat.min (length M) (ncols M))). lia.
    exists L, M. split; auto. apply rstep_ok_refl; auto.
  - assert (Hm : length M = m) by apply HM.
    destruct (Nat.ltb_spec i (Nat.min (length M) (ncols M))).
    2:{ exists L, M. split; auto. apply rstep_ok_refl; auto. }
    pose proof (row_elim_step_ok p m n i L M HL HM) as S.
    destruct (row_elim_step i L M) as [L1 M1]. simpl in S.
    assert (Hi : i < m) by lia. specialize (S Hi).
    destruct S as (m1 & A1 & A2 & A3 & A4 & A5).
    destruct (IHfuel (S i) m1 L1 M1 A3 A4 A2) as (L2 & M2 & E & S2). lia.
    exists L2, M2. split; auto.
    apply rstep_ok_trans with (L1 := L1) (M1 := M1).
    + exists m1. repeat split; auto; try apply A3; try apply A4.
    + intros m0 B1 B2 B3 B4. assert (m0 = m1) by (destruct B4 as [X _]; destruct A4 as [Y _]; lia).
      subst. auto.
Qed.

(* ================================================================== column elimination *)

Lemma ncols_shape : forall m n M, shapeE m n M -> 1 <= m -> ncols M = n.
Proof.
  intros m n M [H1 H2] Hm. unfold ncols. destruct M; simpl in *; try lia. inversion H2; auto.
Qed.

Lemma col_elim_target_cases : forall pivot j M R Z i,
  col_elim_target pivot j (M, R, Z) i = (M, R, Z) \/
  (i <> j /\ exists f M' R' iz, col_add M R i j f = (M', R', iz) /\
     col_elim_target pivot j (M, R, Z) i = (M', R', if iz then Z ++ [i] else Z)).
Proof.
  intros. unfold col_elim_target.
  destruct (Nat.eqb_spec i j); simpl; auto.
  destruct (ent_is_zero (get M j i)); simpl; auto.
  destruct pivot as [pq|pc pv]; destruct (get M j i) as [eq|ec ev]; auto.
  - right. split; auto. destruct (col_add M R i j (- eq / pq)%Qc) as [[M' R'] iz] eqn:E.
    exists (- eq / pq)%Qc, M', R', iz. auto.
  - destruct (pv =? ev); auto.
    right. split; auto. destruct (col_add M R i j (- ec / pc)%Qc) as [[M' R'] iz] eqn:E.
    exists (- ec / pc)%Qc, M', R', iz. auto.
Qed.

Definition cinv (m n q j a : nat) (R0 : qmat) (M0 : mat) (st : mat * qmat * list nat) : Prop :=
  let '(M, R, Z) := st in
  shapeE m n M /\ shapeQ n q R /\
  (forall L i0 j0 s, prod3 m n L M R i0 j0 s = prod3 m n L M0 R0 i0 j0 s) /\
  (forall z, In z Z -> zero_col M z /\ z < a /\ z <> j).

Lemma col_elim_target_inv : forall m n q j R0 M0 pivot st i,
  j < n -> i < n -> cinv m n q j i R0 M0 st -> cinv m n q j (S i) R0 M0 (col_elim_target pivot j st i).
Proof.
  intros m n q j R0 M0 pivot [[M R] Z] i Hj Hi (HM & HR & HP & HZ).
  destruct (col_elim_target_cases pivot j M R Z i) as [E|(Hne & f & M' & R' & iz & Ea & E)]; rewrite E.
  - split; auto. split; auto. split; auto. intros z Hz. apply HZ in Hz. intuition lia.
  - destruct (col_add_spec m n q M R i j f M' R' iz HM HR Hi Hj Hne Ea) as (HM' & HR' & HP' & Hoth & Hzr).
    split; auto. split; auto. split.
    { intros. rewrite HP'. apply HP. }
    intros z Hz.
    assert (Hold : In z Z -> zero_col M' z /\ z < S i /\ z <> j).
    { intros Hin. destruct (HZ z Hin) as (Z1 & Z2 & Z3). repeat split; auto.
      apply (zero_col_same M); auto. intros. apply Hoth. lia. }
    destruct iz; auto. apply in_app_or in Hz. destruct Hz as [Hz|[Hz|[]]]; auto.
    subst z. repeat split; auto.
Qed.

Lemma col_elim_fold_inv : forall m n q j R0 M0 pivot len a st,
  j < n -> a + len <= n -> cinv m n q j a R0 M0 st ->
  cinv m n q j (a + len) R0 M0 (fold_left (col_elim_target pivot j) (seq a len) st).
Proof.
  induction len; intros a st Hj Hb Hinv; simpl.
  - rewrite Nat.add_0_r. auto.
  - replace (a + S len) with (S a + len) by lia. apply IHlen; auto; try lia.
    apply col_elim_target_inv; auto. lia.
Qed.

Definition cstep_ok (m n q : nat) (R : qmat) (M : mat) (R' : qmat) (M' : mat) : Prop :=
  exists n', n' <= n /\ 1 <= n' /\ shapeE m n' M' /\ shapeQ n' q R' /\
    forall L i0 j0 s, prod3 m n' L M' R' i0 j0 s = prod3 m n L M R i0 j0 s.

Lemma cstep_ok_refl : forall m n q R M, 1 <= n -> shapeE m n M -> shapeQ n q R -> cstep_ok m n q R M R M.
Proof. intros. exists n. repeat split; auto; try apply H0; try apply H1. Qed.
Lemma cstep_ok_trans : forall m n q R M R1 M1 R2 M2,
  cstep_ok m n q R M R1 M1 ->
  (forall n1, n1 <= n -> 1 <= n1 -> shapeE m n1 M1 -> shapeQ n1 q R1 -> cstep_ok m n1 q R1 M1 R2 M2) ->
  cstep_ok m n q R M R2 M2.
Proof.
  intros m n q R M R1 M1 R2 M2 (n1 & A1 & A2 & A3 & A4 & A5) H.
  destruct (H n1 A1 A2 A3 A4) as (n2 & B1 & B2 & B3 & B4 & B5).
  exists n2. repeat split; auto; try apply B3; try apply B4; try lia.
  intros. rewrite B5, A5; auto.
Qed.

Lemma col_elim_step_ok : forall m n q j R M,
  shapeE m n M -> shapeQ n q R -> 1 <= m -> j < n ->
  cstep_ok m n q R M (fst (col_elim_step j R M)) (snd (col_elim_step j R M)).
Proof.
  intros m n q j R M HM HR Hm1 Hj. unfold col_elim_step.
  assert (Hn : ncols M = n) by (apply (ncols_shape m); auto).
  set (sw0 := if ent_is_zero (get M j j)
              then match find_col_pivot M j with Some i => col_swap M R j i | None => (M, R) end
              else (M, R)).
  assert (Hsw : shapeE m n (fst sw0) /\ shapeQ n q (snd sw0) /\
                forall L i0 j0 s, prod3 m n L (fst sw0) (snd sw0) i0 j0 s = prod3 m n L M R i0 j0 s).
  { unfold sw0. destruct (ent_is_zero (get M j j)); auto.
    destruct (find_col_pivot M j) as [i|] eqn:E; auto.
    unfold find_col_pivot in E. apply find_seq_some in E. destruct E as [E _].
    apply col_swap_spec; auto. lia. }
  destruct sw0 as [M1 R1]. simpl in Hsw. destruct Hsw as (HM1 & HR1 & HP1).
  destruct (ent_is_zero (get M1 j j)).
  { simpl. exists n. repeat split; auto; try apply HR1; try apply HM1. lia. }
  assert (Hn1 : ncols M1 = n) by (apply (ncols_shape m); auto). rewrite Hn1.
  pose proof (col_elim_fold_inv m n q j R1 M1 (get M1 j j) n 0 (M1, R1, []) Hj (le_n _)) as F.
  simpl in F.
  destruct (fold_left (col_elim_target (get M1 j j) j) (seq 0 n) (M1, R1, [])) as [[M2 R2] Z].
  destruct F as (HM2 & HR2 & HP2 & HZ).
  { repeat split; auto; try apply HR1; try apply HM1; simpl in *; try contradiction. }
  simpl.
  destruct (shape_del_cols m n q M2 R2 Z HM2 HR2) as (S1 & S2 & S3).
  exists (length (del_idx Z R2)). split; auto. split.
  { unfold del_idx. apply del_from_keep_pos with (i := j). destruct HR2; lia.
    simpl. apply mem_nIn. intro Hin. apply HZ in Hin. lia. }
  split; auto. split; auto.
  intros. rewrite (del_cols_masked m n q) by auto.
  rewrite mprod_cols_unmask. rewrite HP2. apply HP1.
  intros z Hz. apply HZ. auto.
Qed.

Lemma col_elim_loop_ok : forall m q fuel j n R M,
  shapeE m n M -> shapeQ n q R -> 1 <= m -> 1 <= n -> n <= fuel + j ->
  exists R' M', col_elim_loop fuel j R M = Some (R', M') /\ cstep_ok m n q R M R' M'.
Proof.
  induction fuel; intros j n R M HM HR Hm H1 Hf; simpl.
  - assert (Hn : ncols M = n) by (apply (ncols_shape m); auto).
    destruct (Nat.ltb_spec j (Nat.min (length M) (ncols M))). lia.
    exists R, M. split; auto. apply cstep_ok_refl; auto.
  - assert (Hn : ncols M = n) by (apply (ncols_shape m); auto).
    destruct (Nat.ltb_spec j (Nat.min (length M) (ncols M))).
    2:{ exists R, M. split; auto. apply cstep_ok_refl; auto. }
    pose proof (col_elim_step_ok m n q j R M HM HR Hm) as S.
    destruct (col_elim_step j R M) as [R1 M1]. simpl in S.
    assert (Hj : j < n) by lia. specialize (S Hj).
    destruct S as (n1 & A1 & A2 & A3 & A4 & A5).
    destruct (IHfuel (S j) n1 R1 M1 A3 A4 Hm A2) as (R2 & M2 & E & S2). lia.
    exists R2, M2. split; auto.
    apply cstep_ok_trans with (R1 := R1) (M1 := M1).
    + exists n1. repeat split; auto; try apply A3; try apply A4.
    + intros n0 B1 B2 B3 B4. assert (n0 = n1) by (destruct B4 as [X _]; destruct A4 as [Y _]; lia).
      subst. auto.
Qed.

(* ================================================================== the driver loop *)

Definition ge_ok (p q m n : nat) (L : qmat) (M : mat) (R : qmat) (res : qmat * mat * qmat) : Prop :=
  let '(L', M', R') := res in
  exists m' n', m' <= m /\ n' <= n /\ 1 <= m' /\ 1 <= n' /\
    shapeQ p m' L' /\ shapeE m' n' M' /\ shapeQ n' q R' /\
    forall i j s, i < p -> prod3 m' n' L' M' R' i j s = prod3 m n L M R i j s.

Lemma ge_loop_ok : forall p q fuel r c ro co m n L M R,
  shapeQ p m L -> shapeE m n M -> shapeQ n q R -> 1 <= m -> 1 <= n -> m <= r -> n <= c ->
  ((r = ro /\ c = co) \/ r + c < fuel) ->
  exists res, ge_loop fuel r c ro co L M R = Some res /\ ge_ok p q m n L M R res.
Proof.
  induction fuel; intros r c ro co m n L M R HL HM HR Hm Hn Hr Hc Hf.
  - simpl. destruct Hf as [[-> ->]|Hf]; try lia. rewrite !Nat.eqb_refl. simpl.
    exists (L, M, R). split; auto. exists m, n. repeat split; auto; try apply HL; try apply HM; try apply HR.
  - cbn [ge_loop]. destruct ((r =? ro) && (c =? co)) eqn:Eq.
    { exists (L, M, R). split; auto. exists m, n. repeat split; auto; try apply HL; try apply HM; try apply HR. }
    assert (Hf' : r + c < S fuel).
    { destruct Hf as [[-> ->]|Hf]; auto. rewrite !Nat.eqb_refl in Eq. discriminate. }
    unfold row_elimination, column_elimination.
    assert (HlM : length M = m) by apply HM.
    destruct (row_elim_loop_ok p n (length M) 0 m L M HL HM Hm) as (L1 & M1 & E1 & S1). lia.
    rewrite E1. destruct S1 as (m1 & A1 & A2 & A3 & A4 & A5).
    assert (Hn1 : ncols M1 = n) by (apply (ncols_shape m1); auto).
    destruct (col_elim_loop_ok m1 q (ncols M1) 0 n R M1 A4 HR A2 Hn) as (R1 & M2 & E2 & S2). lia.
    rewrite E2. destruct S2 as (n2 & B1 & B2 & B3 & B4 & B5).
    assert (HlM2 : length M2 = m1) by apply B3.
    assert (Hn2 : ncols M2 = n2) by (apply (ncols_shape m1); auto).
    destruct (IHfuel (length M2) (ncols M2) r c m1 n2 L1 M2 R1 A3 B3 B4 A2 B2) as (res & E3 & S3); try lia.
    exists res. split; auto.
    destruct res as [[L' M'] R']. destruct S3 as (m' & n' & C1 & C2 & C3 & C4 & C5 & C6 & C7 & C8).
    exists m', n'. repeat split; auto; try apply C5; try apply C6; try apply C7; try lia.
    intros. rewrite C8, B5, A5; auto.
Qed.

(* ================================================================== deparallelisation *)
Local Open Scope Qc_scope.

Definition vmatch (v s : option nat) : bool :=
  match v, s with
  | None, None => true
  | Some t, Some t' => (t =? t')%nat
  | _, _ => false
  end.
Lemma coef_cv : forall e s, coef e s = if vmatch (snd (coeff_var e)) s then fst (coeff_var e) else 0.
Proof. intros e s. destruct e as [q|q t]; destruct s as [t'|]; simpl; auto. Qed.
Lemma var_eqb_eq : forall a b, var_eqb a b = true -> a = b.
Proof.
  destruct a, b; simpl; intros; try discriminate; auto. apply Nat.eqb_eq in H. subst. auto.
Qed.
Lemma Qcdiv_nonzero : forall x y : Qc, x <> 0 -> y <> 0 -> x / y <> 0.
Proof.
  intros x y Hx Hy H. apply Hx. assert (E : x = x / y * y) by (field; auto). rewrite E, H. ring.
Qed.

Lemma par_fold_spec : forall ps ratio, par_fold ratio ps <> 0 ->
  (ratio <> 0 -> par_fold ratio ps = ratio) /\
  forall a b, In (a, b) ps -> forall s, coef b s = par_fold ratio ps * coef a s.
Proof.
  induction ps as [|[a b] ps IH]; intros ratio Hne.
  - simpl. split; auto. intros. contradiction.
  - cbn [par_fold] in *.
    destruct (coeff_var a) as [ac av] eqn:Ea. destruct (coeff_var b) as [bc bv] eqn:Eb.
    destruct (var_eqb av bv) eqn:Ev; cbn [negb] in *; try congruence.
    apply var_eqb_eq in Ev. subst bv.
    assert (Hab : forall mult s, bc = mult * ac -> coef b s = mult * coef a s).
    { intros. rewrite !coef_cv, Ea, Eb. cbn [fst snd]. destruct (vmatch av s); try ring. auto. }
    destruct (Qc_eq_bool ac q0) eqn:E1; destruct (Qc_eq_bool bc q0) eqn:E2; cbn [andb orb] in *; try congruence.
    + apply Qceqb_true in E1, E2. destruct (IH ratio Hne) as [A B]. split; auto.
      intros a' b' [Heq|Hin] s; auto. injection Heq as <- <-. apply Hab. rewrite E1, E2. ring.
    + apply Qceqb_false in E1, E2.
      destruct (Qc_eq_bool ratio q0) eqn:E3.
      * apply Qceqb_true in E3. destruct (IH (bc / ac) Hne) as [A B].
        assert (Hc : bc / ac <> 0) by (apply Qcdiv_nonzero; auto).
        split. { intros; contradiction. }
        intros a' b' [Heq|Hin] s; auto. injection Heq as <- <-. apply Hab. rewrite A by auto. field. auto.
      * apply Qceqb_false in E3.
        destruct (Qc_eq_bool (bc / ac) ratio) eqn:E4; cbn [negb] in *; try congruence.
        apply Qceqb_true in E4. destruct (IH ratio Hne) as [A B]. split; auto.
        intros a' b' [Heq|Hin] s; auto. injection Heq as <- <-. apply Hab. rewrite A by auto.
        rewrite <- E4. field. auto.
Qed.

Lemma par_row_spec : forall r1 r2, are_parallel_row r1 r2 <> 0 -> length r1 = length r2 ->
  forall l s, coef (nth l r2 (Num q0)) s = are_parallel_row r1 r2 * coef (nth l r1 (Num q0)) s.
Proof.
  intros r1 r2 Hne Hlen l s. unfold are_parallel_row in *.
  destruct (Nat.lt_ge_cases l (length r1)).
  - destruct (par_fold_spec _ _ Hne) as [_ B]. apply B.
    rewrite <- combine_nth by auto. apply nth_In. rewrite combine_length. lia.
  - rewrite !nth_overflow by lia. destruct s; simpl; ring.
Qed.
Lemma par_col_spec : forall M c1 c2, are_parallel_col M c1 c2 <> 0 ->
  forall k s, coef (get M k c2) s = are_parallel_col M c1 c2 * coef (get M k c1) s.
Proof.
  intros M c1 c2 Hne k s. unfold are_parallel_col in *.
  destruct (Nat.lt_ge_cases k (length M)).
  - destruct (par_fold_spec _ _ Hne) as [_ B]. apply B.
    apply in_map_iff. exists (nth k M []). split; auto. apply nth_In. auto.
  - rewrite !get_out_row by auto. destruct s; simpl; ring.
Qed.

Lemma mem_snoc : forall k Z j, mem k (Z ++ [j]) = if (k =? j)%nat then true else mem k Z.
Proof.
  intros. rewrite mem_app. simpl.
  destruct (Nat.eqb_spec j k); destruct (Nat.eqb_spec k j); try lia; destruct (mem k Z); auto.
Qed.

Lemma absorb_row : forall p m n L M Z i j mult,
  shapeQ p m L -> (i < m)%nat -> (j < m)%nat -> i <> j -> ~ In i Z -> ~ In j Z ->
  (forall l s, coef (get M j l) s = mult * coef (get M i l) s) ->
  forall R i0 j0 s, (i0 < p)%nat ->
  mprod_rows m n (col_add_float L i j mult) M R (Z ++ [j]) i0 j0 s = mprod_rows m n L M R Z i0 j0 s.
Proof.
  intros p m n L M Z i j mult HL Hi Hj Hne HiZ HjZ Hpar R i0 j0 s Hi0. unfold mprod_rows.
  assert (Hb : rowB n M R j0 s j = mult * rowB n M R j0 s i).
  { unfold rowB. rewrite <- sumn_scal_l. apply sumn_ext. intros. rewrite Hpar. ring. }
  apply mem_nIn in HiZ. apply mem_nIn in HjZ.
  rewrite (sumn_upd2 m (fun k => if mem k Z then 0 else qget L i0 k * rowB n M R j0 s k) _ i j); auto.
  - rewrite !mem_snoc, HiZ, HjZ, !(qget_col_add_float p m) by auto.
    rewrite !Nat.eqb_refl. destruct (Nat.eqb_spec i j); try lia. rewrite Hb. ring.
  - intros. rewrite mem_snoc. destruct (Nat.eqb_spec k j); try lia.
    rewrite (qget_col_add_float p m) by auto. destruct (Nat.eqb_spec k i); try lia. auto.
Qed.

Lemma absorb_col : forall m n q L M R Z i j mult,
  shapeQ n q R -> (i < n)%nat -> (j < n)%nat -> i <> j -> ~ In i Z -> ~ In j Z ->
  (forall k s, coef (get M k j) s = mult * coef (get M k i) s) ->
  forall i0 j0 s,
  mprod_cols m n L M (row_add_float R i j mult) (Z ++ [j]) i0 j0 s = mprod_cols m n L M R Z i0 j0 s.
Proof.
  intros m n q L M R Z i j mult HR Hi Hj Hne HiZ HjZ Hpar i0 j0 s. unfold mprod_cols.
  assert (Hb : colA m L M i0 s j = mult * colA m L M i0 s i).
  { unfold colA. rewrite <- sumn_scal_l. apply sumn_ext. intros. rewrite Hpar. ring. }
  apply mem_nIn in HiZ. apply mem_nIn in HjZ.
  rewrite (sumn_upd2 n (fun l => if mem l Z then 0 else colA m L M i0 s l * qget R l j0) _ i j); auto.
  - rewrite !mem_snoc, HiZ, HjZ, !(qget_row_add_float n q) by auto.
    rewrite !Nat.eqb_refl. destruct (Nat.eqb_spec i j); try lia. rewrite Hb. ring.
  - intros. rewrite mem_snoc. destruct (Nat.eqb_spec k j); try lia.
    rewrite (qget_row_add_float n q) by auto. destruct (Nat.eqb_spec k i); try lia. auto.
Qed.

Definition drinv (p m n : nat) (M : mat) (F : qmat -> nat -> nat -> option nat -> Qc)
           (L : qmat) (Z : list nat) : Prop :=
  shapeQ p m L /\ ~ In O Z /\
  forall R i0 j0 s, (i0 < p)%nat -> mprod_rows m n L M R Z i0 j0 s = F R i0 j0 s.

Lemma depar_rows_inner_inv : forall p m n M F i, shapeE m n M -> (i < m)%nat ->
  forall js L Z, (forall j, In j js -> (j < m)%nat /\ j <> i /\ j <> O) -> ~ In i Z ->
  drinv p m n M F L Z ->
  drinv p m n M F (fst (depar_rows_inner M i js L Z)) (snd (depar_rows_inner M i js L Z)).
Proof.
  intros p m n M F i HM Hi. induction js as [|j js IH]; intros L Z Hjs HiZ Hinv; simpl; auto.
  assert (Hjs' : forall j0, In j0 js -> (j0 < m)%nat /\ j0 <> i /\ j0 <> O) by (intros; apply Hjs; simpl; auto).
  destruct (mem j Z) eqn:Ej; auto.
  destruct (Qc_eq_bool (are_parallel_row (nth i M []) (nth j M [])) q0) eqn:Ep; auto.
  apply Qceqb_false in Ep. destruct (Hjs j) as (J1 & J2 & J3); simpl; auto.
  apply mem_nIn in Ej. destruct Hinv as (I1 & I2 & I3).
  apply IH; auto.
  - intro Hin. apply in_app_or in Hin. destruct Hin as [Hin|[Hin|[]]]; auto.
  - split. apply shapeQ_col_add_float; auto. split.
    + intro Hin. apply in_app_or in Hin. destruct Hin as [Hin|[Hin|[]]]; auto.
    + intros. rewrite (absorb_row p m n); auto.
      intros. unfold get. apply par_row_spec; auto.
      rewrite !(shapeE_row m n); auto.
Qed.

Lemma depar_rows_outer_inv : forall p m n M F, shapeE m n M ->
  forall is L Z, (forall i, In i is -> (i < m)%nat) -> drinv p m n M F L Z ->
  drinv p m n M F (fst (depar_rows_outer M is L Z)) (snd (depar_rows_outer M is L Z)).
Proof.
  intros p m n M F HM. induction is as [|i is IH]; intros L Z His Hinv; simpl; auto.
  assert (His' : forall i0, In i0 is -> (i0 < m)%nat) by (intros; apply His; simpl; auto).
  destruct (mem i Z) eqn:Ei; auto.
  apply mem_nIn in Ei.
  pose proof (depar_rows_inner_inv p m n M F i HM (His i (or_introl eq_refl))
                (seq (S i) (length M - S i)) L Z) as Inn.
  destruct (depar_rows_inner M i (seq (S i) (length M - S i)) L Z) as [L' Z']. simpl in Inn.
  apply IH; auto. apply Inn; auto.
  intros j Hj. apply in_seq in Hj. destruct HM as [M1 _]. lia.
Qed.

Lemma deparallelize_rows_ok : forall p m n L M,
  shapeQ p m L -> shapeE m n M -> (1 <= m)%nat ->
  rstep_ok p m n L M (fst (deparallelize_rows L M)) (snd (deparallelize_rows L M)).
Proof.
  intros p m n L M HL HM Hm. unfold deparallelize_rows.
  assert (HlM : length M = m) by apply HM.
  pose proof (depar_rows_outer_inv p m n M (fun R i0 j0 s => prod3 m n L M R i0 j0 s) HM
                (seq 0 (length M)) L []) as O.
  destruct (depar_rows_outer M (seq 0 (length M)) L []) as [L' Z]. simpl in O.
  destruct O as (O1 & O2 & O3).
  { intros i Hi. apply in_seq in Hi. lia. }
  { split; auto. split. simpl; tauto. intros. apply mprod_rows_unmask. simpl. tauto. }
  simpl. destruct (shape_del_rows p m n L' M Z O1 HM) as (S1 & S2 & S3).
  exists (length (del_idx Z M)). split; auto. split.
  { unfold del_idx. apply del_from_keep_pos with (i := O). lia. simpl. apply mem_nIn. auto. }
  split; auto. split; auto.
  intros. rewrite (del_rows_masked p m n) by auto. apply O3. auto.
Qed.

Definition dcinv (m n q : nat) (M : mat) (F : qmat -> nat -> nat -> option nat -> Qc)
           (R : qmat) (Z : list nat) : Prop :=
  shapeQ n q R /\ ~ In O Z /\
  forall L i0 j0 s, mprod_cols m n L M R Z i0 j0 s = F L i0 j0 s.

Lemma depar_cols_inner_inv : forall m n q M F i, shapeE m n M -> (i < n)%nat ->
  forall js R Z, (forall j, In j js -> (j < n)%nat /\ j <> i /\ j <> O) -> ~ In i Z ->
  dcinv m n q M F R Z ->
  dcinv m n q M F (fst (depar_cols_inner M i js R Z)) (snd (depar_cols_inner M i js R Z)).
Proof.
  intros m n q M F i HM Hi. induction js as [|j js IH]; intros R Z Hjs HiZ Hinv; simpl; auto.
  assert (Hjs' : forall j0, In j0 js -> (j0 < n)%nat /\ j0 <> i /\ j0 <> O) by (intros; apply Hjs; simpl; auto).
  destruct (mem j Z) eqn:Ej; auto.
  destruct (Qc_eq_bool (are_parallel_col M i j) q0) eqn:Ep; auto.
  apply Qceqb_false in Ep. destruct (Hjs j) as (J1 & J2 & J3); simpl; auto.
  apply mem_nIn in Ej. destruct Hinv as (I1 & I2 & I3).
  apply IH; auto.
  - intro Hin. apply in_app_or in Hin. destruct Hin as [Hin|[Hin|[]]]; auto.
  - split. apply shapeQ_row_add_float; auto. split.
    + intro Hin. apply in_app_or in Hin. destruct Hin as [Hin|[Hin|[]]]; auto.
    + intros. rewrite (absorb_col m n q); auto.
      intros. apply par_col_spec; auto.
Qed.

Lemma depar_cols_outer_inv : forall m n q M F, shapeE m n M -> (1 <= m)%nat ->
  forall is R Z, (forall i, In i is -> (i < n)%nat) -> dcinv m n q M F R Z ->
  dcinv m n q M F (fst (depar_cols_outer M is R Z)) (snd (depar_cols_outer M is R Z)).
Proof.
  intros m n q M F HM Hm. induction is as [|i is IH]; intros R Z His Hinv; simpl; auto.
  assert (His' : forall i0, In i0 is -> (i0 < n)%nat) by (intros; apply His; simpl; auto).
  destruct (mem i Z) eqn:Ei; auto.
  apply mem_nIn in Ei.
  pose proof (depar_cols_inner_inv m n q M F i HM (His i (or_introl eq_refl))
                (seq (S i) (ncols M - S i)) R Z) as Inn.
  destruct (depar_cols_inner M i (seq (S i) (ncols M - S i)) R Z) as [R' Z']. simpl in Inn.
  apply IH; auto. apply Inn; auto.
  intros j Hj. apply in_seq in Hj. rewrite (ncols_shape m n) in Hj by auto. lia.
Qed.

Lemma deparallelize_cols_ok : forall m n q R M,
  shapeE m n M -> shapeQ n q R -> (1 <= m)%nat -> (1 <= n)%nat ->
  cstep_ok m n q R M (fst (deparallelize_cols R M)) (snd (deparallelize_cols R M)).
Proof.
  intros m n q R M HM HR Hm Hn. unfold deparallelize_cols.
  assert (Hnc : ncols M = n) by (apply (ncols_shape m); auto).
  pose proof (depar_cols_outer_inv m n q M (fun L i0 j0 s => prod3 m n L M R i0 j0 s) HM Hm
                (seq 0 (ncols M)) R []) as O.
  destruct (depar_cols_outer M (seq 0 (ncols M)) R []) as [R' Z]. simpl in O.
  destruct O as (O1 & O2 & O3).
  { intros i Hi. apply in_seq in Hi. lia. }
  { split; auto. split. simpl; tauto. intros. apply mprod_cols_unmask. simpl. tauto. }
  simpl. destruct (shape_del_cols m n q M R' Z HM O1) as (S1 & S2 & S3).
  exists (length (del_idx Z R')). split; auto. split.
  { unfold del_idx. apply del_from_keep_pos with (i := O). destruct O1; lia. simpl. apply mem_nIn. auto. }
  split; auto. split; auto.
  intros. rewrite (del_cols_masked m n q) by auto. apply O3.
Qed.

(* ================================================================== identity and the main theorem *)

Lemma identity_shape : forall n, shapeQ n n (identity n).
Proof.
  intros. unfold identity. split. rewrite map_length, seq_length. auto.
  unfold rectQ. rewrite Forall_map. apply Forall_forall. intros. rewrite map_length, seq_length. auto.
Qed.
Lemma qget_identity : forall n i k, (i < n)%nat -> (k < n)%nat ->
  qget (identity n) i k = if (i =? k)%nat then q1 else q0.
Proof.
  intros. unfold qget, identity.
  rewrite nth_map_in with (d := O) by (rewrite seq_length; auto).
  rewrite nth_map_in with (d := O) by (rewrite seq_length; auto).
  rewrite !seq_nth by auto. reflexivity.
Qed.
Lemma sumn_delta_l : forall n i f, (i < n)%nat ->
  sumn n (fun k => (if (i =? k)%nat then q1 else q0) * f k) = f i.
Proof.
  intros. rewrite (sumn_upd1 n (fun _ => 0) _ i); auto.
  - rewrite sumn_zero by auto. rewrite Nat.eqb_refl. ring.
  - intros. destruct (Nat.eqb_spec i k); try lia. ring.
Qed.
Lemma sumn_delta_r : forall n j f, (j < n)%nat ->
  sumn n (fun l => f l * (if (l =? j)%nat then q1 else q0)) = f j.
Proof.
  intros. rewrite (sumn_upd1 n (fun _ => 0) _ j); auto.
  - rewrite sumn_zero by auto. rewrite Nat.eqb_refl. ring.
  - intros. destruct (Nat.eqb_spec k j); try lia. ring.
Qed.
Lemma prod3_identity : forall m n M i j s, (i < m)%nat -> (j < n)%nat ->
  prod3 m n (identity m) M (identity n) i j s = coef (get M i j) s.
Proof.
  intros. unfold prod3.
  rewrite (sumn_ext m _ (fun k => (if (i =? k)%nat then q1 else q0) * coef (get M k j) s)).
  - apply sumn_delta_l; auto.
  - intros k Hk. rewrite qget_identity by auto.
    rewrite (sumn_ext n _ (fun l => ((if (i =? k)%nat then q1 else q0) * coef (get M k l) s) *
                                    (if (l =? j)%nat then q1 else q0))).
    + apply sumn_delta_r; auto.
    + intros. rewrite qget_identity by auto. reflexivity.
Qed.

Lemma ge_unfold : forall row0 M0,
  gaussian_elimination (row0 :: M0) =
  let M := row0 :: M0 in
  let '(L1, M1) := deparallelize_rows (identity (length M)) M in
  let '(R1, M2) := deparallelize_cols (identity (length row0)) M1 in
  ge_loop (length M + length row0 + 1) (length M) (length row0) 0 0 L1 M2 R1.
Proof. reflexivity. Qed.

Theorem ge_correct : forall m n M, shapeE m n M -> (1 <= m)%nat -> (1 <= n)%nat ->
  exists L M' R m' n', gaussian_elimination M = Some (L, M', R) /\
    (m' <= m)%nat /\ (n' <= n)%nat /\ (1 <= m')%nat /\ (1 <= n')%nat /\
    shapeQ m m' L /\ shapeE m' n' M' /\ shapeQ n' n R /\
    forall i j s, (i < m)%nat -> (j < n)%nat -> prod3 m' n' L M' R i j s = coef (get M i j) s.
Proof.
  intros m n M HM Hm Hn.
  assert (HlM : length M = m) by apply HM.
  destruct M as [|row0 M0]. { simpl in HlM. lia. }
  assert (Hr0 : length row0 = n) by (apply (ncols_shape m n _ HM Hm)).
  rewrite ge_unfold. cbv zeta. rewrite Hr0, HlM.
  set (Mx := row0 :: M0) in *.
  pose proof (deparallelize_rows_ok m m n (identity m) Mx (identity_shape m) HM Hm) as D1.
  destruct (deparallelize_rows (identity m) Mx) as [L1 M1]. simpl in D1.
  destruct D1 as (m1 & A1 & A2 & A3 & A4 & A5).
  pose proof (deparallelize_cols_ok m1 n n (identity n) M1 A4 (identity_shape n) A2 Hn) as D2.
  destruct (deparallelize_cols (identity n) M1) as [R1 M2]. simpl in D2.
  destruct D2 as (n1 & B1 & B2 & B3 & B4 & B5).
  destruct (ge_loop_ok m n (m + n + 1) m n 0 0 m1 n1 L1 M2 R1 A3 B3 B4 A2 B2 A1 B1) as (res & E & S).
  { right. lia. }
  destruct res as [[L' M'] R']. destruct S as (m' & n' & C1 & C2 & C3 & C4 & C5 & C6 & C7 & C8).
  exists L', M', R', m', n'. split; auto.
  repeat split; auto; try apply C5; try apply C6; try apply C7; try lia.
  intros i j s Hi Hj. rewrite C8, B5, A5 by auto. apply prod3_identity; auto.
Qed.

(* ================================================================== well-formed entries are preserved *)
(* every Sym coefficient stays non-zero: no division by a zero pivot coefficient, and no
   branch ever needs an entry that is not `Num q` or `Sym q s` with q <> 0 *)

Lemma Forall_nth_default : forall A (P : A -> Prop) l k d, Forall P l -> P d -> P (nth k l d).
Proof.
  intros. destruct (Nat.lt_ge_cases k (length l)).
  - rewrite Forall_forall in H. apply H, nth_In; auto.
  - rewrite nth_overflow; auto.
Qed.
Lemma get_wf : forall M k l, mat_wf M -> ent_wf (get M k l).
Proof.
  intros. unfold get. apply Forall_nth_default; simpl; auto.
  apply (Forall_nth_default _ (Forall ent_wf)); auto.
Qed.
Lemma factor_nz : forall e p : Qc, e <> 0 -> p <> 0 -> - e / p <> 0.
Proof.
  intros e p He Hp. apply Qcdiv_nonzero; auto. intro H. apply He.
  assert (E : e = - - e) by ring. rewrite E, H. ring.
Qed.
Lemma add_entry_wf : forall f t s e, f <> 0 -> ent_wf t -> ent_wf s -> add_entry f t s = Some e -> ent_wf e.
Proof.
  intros f t s e Hf Ht Hs H. destruct s as [sq|sc sv]; destruct t as [tq|tc tv]; simpl in *.
  - inversion H; subst. simpl. auto.
  - destruct (Qc_eq_bool sq q0); inversion H; subst. simpl. auto.
  - destruct (Qc_eq_bool tq q0); inversion H; subst. simpl.
    intro E. apply Qcmult_integral in E. tauto.
  - destruct (tv =? sv)%nat; try discriminate.
    destruct (Qc_eq_bool (tc + f * sc) q0) eqn:E; inversion H; subst; simpl; auto.
    apply Qceqb_false in E. auto.
Qed.
Lemma add_line_wf : forall f tl sl r, f <> 0 -> Forall ent_wf tl -> Forall ent_wf sl ->
  add_line f tl sl = Some r -> Forall ent_wf r.
Proof.
  induction tl as [|t tl IH]; intros sl r Hf Ht Hs H; simpl in H.
  - inversion H. auto.
  - destruct sl as [|s sl]; try discriminate.
    destruct (add_entry f t s) eqn:E; try discriminate.
    destruct (add_line f tl sl) eqn:E2; try discriminate. inversion H; subst.
    inversion Ht as [|? ? Ht1 Ht2]; inversion Hs as [|? ? Hs1 Hs2]; subst. constructor.
    + apply (add_entry_wf f t s); auto.
    + apply (IH sl); auto.
Qed.
Lemma col_wf : forall M k, mat_wf M -> Forall ent_wf (col k M).
Proof.
  intros. unfold col. rewrite Forall_map. unfold mat_wf in H. eapply Forall_impl; eauto.
  simpl. intros. apply Forall_nth_default; simpl; auto.
Qed.
Lemma row_add_wf : forall M L t s f, f <> 0 -> mat_wf M -> mat_wf (fst (fst (row_add M L t s f))).
Proof.
  intros. unfold row_add. destruct (add_line f (nth t M []) (nth s M [])) eqn:E; simpl; auto.
  apply Forall_upd; auto.
  apply (add_line_wf f (nth t M []) (nth s M [])); auto;
    apply (Forall_nth_default _ (Forall ent_wf)); auto.
Qed.
Lemma col_add_wf : forall M R t s f, f <> 0 -> mat_wf M -> mat_wf (fst (fst (col_add M R t s f))).
Proof.
  intros. unfold col_add. destruct (add_line f (col t M) (col s M)) eqn:E; simpl; auto.
  pose proof (add_line_wf _ _ _ _ H (col_wf M t H0) (col_wf M s H0) E) as W.
  unfold set_col, mat_wf. rewrite Forall_map. apply Forall_forall. intros [r e] Hin. simpl.
  apply Forall_upd.
  - unfold mat_wf in H0. rewrite Forall_forall in H0. apply H0. eapply in_combine_l; eauto.
  - rewrite Forall_forall in W. apply W. eapply in_combine_r; eauto.
Qed.
Lemma mat_wf_map_swap : forall M i j, mat_wf M -> mat_wf (map (swap_nth i j) M).
Proof.
  intros. unfold mat_wf in *. rewrite Forall_map. eapply Forall_impl; eauto. simpl. intros.
  apply Forall_swap_nth. auto.
Qed.
Lemma mat_wf_map_del : forall M Z, mat_wf M -> mat_wf (map (del_idx Z) M).
Proof.
  intros. unfold mat_wf in *. rewrite Forall_map. eapply Forall_impl; eauto. simpl. intros.
  apply Forall_del_from. auto.
Qed.
Lemma nz_Num : forall q, ent_is_zero (Num q) = false -> q <> 0.
Proof. simpl. intros. apply Qceqb_false. auto. Qed.

Lemma row_elim_target_wf : forall pivot i st j,
  ent_wf pivot -> ent_is_zero pivot = false ->
  mat_wf (fst (fst st)) -> mat_wf (fst (fst (row_elim_target pivot i st j))).
Proof.
  intros pivot i [[M L] Z] j Hp Hz HM. simpl in HM. unfold row_elim_target.
  destruct (negb (j =? i)%nat); simpl; auto.
  destruct (ent_is_zero (get M j i)) eqn:Ez; simpl; auto.
  pose proof (get_wf M j i HM) as We.
  destruct pivot as [pq|pc pv]; destruct (get M j i) as [eq|ec ev]; simpl; auto.
  - pose proof (row_add_wf M L j i (- eq / pq) (factor_nz _ _ (nz_Num _ Ez) (nz_Num _ Hz)) HM) as W.
    destruct (row_add M L j i (- eq / pq)) as [[M' L'] iz]. auto.
  - destruct (pv =? ev)%nat; simpl; auto.
    pose proof (row_add_wf M L j i (- ec / pc) (factor_nz _ _ We Hp) HM) as W.
    destruct (row_add M L j i (- ec / pc)) as [[M' L'] iz]. auto.
Qed.
Lemma col_elim_target_wf : forall pivot j st i,
  ent_wf pivot -> ent_is_zero pivot = false ->
  mat_wf (fst (fst st)) -> mat_wf (fst (fst (col_elim_target pivot j st i))).
Proof.
  intros pivot j [[M R] Z] i Hp Hz HM. simpl in HM. unfold col_elim_target.
  destruct (negb (i =? j)%nat); simpl; auto.
  destruct (ent_is_zero (get M j i)) eqn:Ez; simpl; auto.
  pose proof (get_wf M j i HM) as We.
  destruct pivot as [pq|pc pv]; destruct (get M j i) as [eq|ec ev]; simpl; auto.
  - pose proof (col_add_wf M R i j (- eq / pq) (factor_nz _ _ (nz_Num _ Ez) (nz_Num _ Hz)) HM) as W.
    destruct (col_add M R i j (- eq / pq)) as [[M' R'] iz]. auto.
  - destruct (pv =? ev)%nat; simpl; auto.
    pose proof (col_add_wf M R i j (- ec / pc) (factor_nz _ _ We Hp) HM) as W.
    destruct (col_add M R i j (- ec / pc)) as [[M' R'] iz]. auto.
Qed.
Lemma fold_left_inv : forall A B (P : A -> Prop) (f : A -> B -> A) l st,
  (forall st x, P st -> P (f st x)) -> P st -> P (fold_left f l st).
Proof. induction l; simpl; intros; auto. Qed.

Lemma row_elim_step_wf : forall i L M, mat_wf M -> mat_wf (snd (row_elim_step i L M)).
Proof.
  intros i L M HM. unfold row_elim_step.
  set (sw0 := if ent_is_zero (get M i i)
              then match find_row_pivot M i with Some j => row_swap M L i j | None => (M, L) end
              else (M, L)).
  assert (Hsw : mat_wf (fst sw0)).
  { unfold sw0. destruct (ent_is_zero (get M i i)); auto.
    destruct (find_row_pivot M i); auto. simpl. apply Forall_swap_nth. auto. }
  destruct sw0 as [M1 L1]. simpl in Hsw.
  destruct (ent_is_zero (get M1 i i)) eqn:Ez; auto.
  pose proof (fold_left_inv _ _ (fun st => mat_wf (fst (fst st))) (row_elim_target (get M1 i i) i)
                (seq 0 (length M1)) (M1, L1, [])) as F.
  destruct (fold_left (row_elim_target (get M1 i i) i) (seq 0 (length M1)) (M1, L1, [])) as [[M2 L2] Z].
  simpl in *. apply Forall_del_from. apply F; auto.
  intros. apply row_elim_target_wf; auto. apply get_wf. auto.
Qed.
Lemma col_elim_step_wf : forall j R M, mat_wf M -> mat_wf (snd (col_elim_step j R M)).
Proof.
  intros j R M HM. unfold col_elim_step.
  set (sw0 := if ent_is_zero (get M j j)
              then match find_col_pivot M j with Some i => col_swap M R j i | None => (M, R) end
              else (M, R)).
  assert (Hsw : mat_wf (fst sw0)).
  { unfold sw0. destruct (ent_is_zero (get M j j)); auto.
    destruct (find_col_pivot M j); auto. simpl. apply mat_wf_map_swap. auto. }
  destruct sw0 as [M1 R1]. simpl in Hsw.
  destruct (ent_is_zero (get M1 j j)) eqn:Ez; auto.
  pose proof (fold_left_inv _ _ (fun st => mat_wf (fst (fst st))) (col_elim_target (get M1 j j) j)
                (seq 0 (ncols M1)) (M1, R1, [])) as F.
  destruct (fold_left (col_elim_target (get M1 j j) j) (seq 0 (ncols M1)) (M1, R1, [])) as [[M2 R2] Z].
  simpl in *. apply mat_wf_map_del. apply F; auto.
  intros. apply col_elim_target_wf; auto. apply get_wf. auto.
Qed.
Lemma row_elim_loop_wf : forall fuel i L M L' M',
  row_elim_loop fuel i L M = Some (L', M') -> mat_wf M -> mat_wf M'.
Proof.
  induction fuel; intros i L M L' M' H HM; simpl in H.
  - destruct (i <? Nat.min (length M) (ncols M))%nat; inversion H; subst; auto.
  - destruct (i <? Nat.min (length M) (ncols M))%nat. 2:{ inversion H; subst; auto. }
    pose proof (row_elim_step_wf i L M HM) as W.
    destruct (row_elim_step i L M) as [L1 M1]. eapply IHfuel; eauto.
Qed.
Lemma col_elim_loop_wf : forall fuel j R M R' M',
  col_elim_loop fuel j R M = Some (R', M') -> mat_wf M -> mat_wf M'.
Proof.
  induction fuel; intros j R M R' M' H HM; simpl in H.
  - destruct (j <? Nat.min (length M) (ncols M))%nat; inversion H; subst; auto.
  - destruct (j <? Nat.min (length M) (ncols M))%nat. 2:{ inversion H; subst; auto. }
    pose proof (col_elim_step_wf j R M HM) as W.
    destruct (col_elim_step j R M) as [R1 M1]. eapply IHfuel; eauto.
Qed.
Lemma ge_loop_wf : forall fuel r c ro co L M R L' M' R',
  ge_loop fuel r c ro co L M R = Some (L', M', R') -> mat_wf M -> mat_wf M'.
Proof.
  induction fuel; intros r c ro co L M R L' M' R' H HM; cbn [ge_loop] in H.
  - destruct ((r =? ro)%nat && (c =? co)%nat); inversion H; subst; auto.
  - destruct ((r =? ro)%nat && (c =? co)%nat). { inversion H; subst; auto. }
    destruct (row_elimination L M) as [[L1 M1]|] eqn:E1; try discriminate.
    destruct (column_elimination R M1) as [[R1 M2]|] eqn:E2; try discriminate.
    eapply IHfuel; eauto.
    eapply col_elim_loop_wf; eauto. eapply row_elim_loop_wf; eauto.
Qed.
Theorem ge_wf : forall M L M' R, mat_wf M -> gaussian_elimination M = Some (L, M', R) -> mat_wf M'.
Proof.
  intros M L M' R HM H. destruct M as [|row0 M0]. { discriminate. }
  rewrite ge_unfold in H. cbv zeta in H.
  set (Mx := row0 :: M0) in *.
  assert (W1 : mat_wf (snd (deparallelize_rows (identity (length Mx)) Mx))).
  { unfold deparallelize_rows. destruct (depar_rows_outer _ _ _ _). simpl. apply Forall_del_from. auto. }
  destruct (deparallelize_rows (identity (length Mx)) Mx) as [L1 M1]. simpl in W1.
  assert (W2 : mat_wf (snd (deparallelize_cols (identity (length row0)) M1))).
  { unfold deparallelize_cols. destruct (depar_cols_outer _ _ _ _). simpl. apply mat_wf_map_del. auto. }
  destruct (deparallelize_cols (identity (length row0)) M1) as [R1 M2]. simpl in W2.
  eapply ge_loop_wf; eauto.
Qed.

(* ================================================================== corollaries in the form used by Props/C13.v *)
Lemma row_swap_prod : forall p m n L M i j,
  shapeQ p m L -> shapeE m n M -> (i < m)%nat -> (j < m)%nat ->
  forall R i0 j0 x, prod3 m n (snd (row_swap M L i j)) (fst (row_swap M L i j)) R i0 j0 x
                    = prod3 m n L M R i0 j0 x.
Proof. intros p m n L M i j HL HM Hi Hj. exact (proj2 (proj2 (row_swap_spec p m n L M i j HL HM Hi Hj))). Qed.
Lemma col_swap_prod : forall m n q M R i j,
  shapeE m n M -> shapeQ n q R -> (i < n)%nat -> (j < n)%nat ->
  forall L i0 j0 x, prod3 m n L (fst (col_swap M R i j)) (snd (col_swap M R i j)) i0 j0 x
                    = prod3 m n L M R i0 j0 x.
Proof. intros m n q M R i j HM HR Hi Hj. exact (proj2 (proj2 (col_swap_spec m n q M R i j HM HR Hi Hj))). Qed.
Lemma del_rows_prod : forall p m n L M Z R i j x,
  shapeQ p m L -> shapeE m n M -> (i < p)%nat -> (forall z, In z Z -> zero_row M z) ->
  prod3 (length (del_idx Z M)) n (map (del_idx Z) L) (del_idx Z M) R i j x = prod3 m n L M R i j x.
Proof.
  intros p m n L M Z R i j x HL HM Hi HZ.
  exact (eq_trans (del_rows_masked p m n L M Z R i j x HL HM Hi) (mprod_rows_unmask m n L M R Z i j x HZ)).
Qed.
Lemma del_cols_prod : forall m n q L M Z R i j x,
  shapeE m n M -> shapeQ n q R -> (forall z, In z Z -> zero_col M z) ->
  prod3 m (length (del_idx Z R)) L (map (del_idx Z) M) (del_idx Z R) i j x = prod3 m n L M R i j x.
Proof.
  intros m n q L M Z R i j x HM HR HZ.
  exact (eq_trans (del_cols_masked m n q L M Z R i j x HM HR) (mprod_cols_unmask m n L M R Z i j x HZ)).
Qed.
