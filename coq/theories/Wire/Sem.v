(* Layer W, semantics: what a diagram (TTN/Store.v, record sarr) *denotes*.
   A diagram  {| axes; atoms; bnd |}  denotes, for every assignment rho of indices to wires,
        value d rho  =  SUM over all assignments of the wires in (bnd d), each within its dimension,
                        of  PROD_{a in atoms d}  tbl a (map rho' (wires of a))
   where rho' is rho overridden on the bound wires.  The entries live in an arbitrary commutative
   semiring (R, zero, one, add, mul); tbl gives the entries of the opaque atom tensors.
   Definitions only (executable once R is instantiated); the theorems are in SemProofs.v.
   Store.v is imported read-only. *)
From Coq Require Import List Arith Bool.
Import ListNotations.
From PTN Require Import TTN.Store.

(* the laws of a commutative semiring, bundled (hypothesis of every theorem in SemProofs.v) *)
Record comm_semiring {R : Type} (zero one : R) (add mul : R -> R -> R) : Prop := {
  csr_add_comm : forall x y, add x y = add y x;
  csr_add_assoc : forall x y z, add x (add y z) = add (add x y) z;
  csr_add_0_l : forall x, add zero x = x;
  csr_mul_comm : forall x y, mul x y = mul y x;
  csr_mul_assoc : forall x y z, mul x (mul y z) = mul (mul x y) z;
  csr_mul_1_l : forall x, mul one x = x;
  csr_mul_0_r : forall x, mul x zero = zero;
  csr_mul_add_distr_l : forall x y z, mul x (add y z) = add (mul x y) (mul x z)
}.

Section Sem.
  Variable R : Type.
  Variables (zero one : R) (add mul : R -> R -> R).

  (* bounded sum  f 0 + f 1 + ... + f (n-1) *)
  Fixpoint sum_upto (n : nat) (f : nat -> R) : R :=
    match n with O => zero | S n' => add (sum_upto n' f) (f n') end.

  (* product over a list *)
  Fixpoint prod_over {A : Type} (f : A -> R) (l : list A) : R :=
    match l with [] => one | x :: t => mul (f x) (prod_over f t) end.

  (* assignments of indices to wires, and their update *)
  Definition assignment := wire -> nat.
  Definition upd (rho : assignment) (w : wire) (k : nat) : assignment :=
    fun x => if Nat.eqb x w then k else rho x.

  (* the static data of a diagram world: which wire sits on each axis of each atom, and the
     dimension of every wire *)
  Variable wires_of : nat -> list wire.
  Variable dim : wire -> nat.
  (* the environment: entries of the atom tensors (atom id, multi-index -> entry) *)
  Variable tbl : nat -> list nat -> R.

  Definition atom_val (rho : assignment) (a : nat) : R := tbl a (map rho (wires_of a)).

  Definition atoms_val (atms : list nat) (rho : assignment) : R :=
    prod_over (atom_val rho) atms.

  (* iterated bounded sum over the wires ws (first wire outermost) of a function of the assignment *)
  Fixpoint sum_bnd (ws : list wire) (F : assignment -> R) (rho : assignment) : R :=
    match ws with
    | [] => F rho
    | w :: t => sum_upto (dim w) (fun k => sum_bnd t F (upd rho w k))
    end.

  Definition value (d : sarr) (rho : assignment) : R :=
    sum_bnd (bnd d) (atoms_val (atoms d)) rho.

  (* the entry of the denoted tensor at a multi-index of the open axes: the i-th axis wire gets
     idx_i (the earlier axis wins if a wire is repeated; the store invariant makes axes NoDup) *)
  Fixpoint assign (rho : assignment) (ws : list wire) (idx : list nat) : assignment :=
    match ws, idx with
    | w :: ws', k :: idx' => upd (assign rho ws' idx') w k
    | _, _ => rho
    end.
  Definition entry (d : sarr) (rho0 : assignment) (idx : list nat) : R :=
    value d (assign rho0 (axes d) idx).
End Sem.

(* executable form of the freshness side condition of the variable-elimination theorem: no atom
   in atms has an axis on a wire of ws *)
Definition atoms_avoidb (wires_of : nat -> list wire) (atms : list nat) (ws : list wire) : bool :=
  forallb (fun a => forallb (fun x => negb (memb x ws)) (wires_of a)) atms.

(* every wire of every atom of d is an axis of d or bound in d (the diagram has no dangling wire) *)
Definition closedb (wires_of : nat -> list wire) (d : sarr) : bool :=
  forallb (fun a => forallb (fun x => memb x (axes d) || memb x (bnd d)) (wires_of a)) (atoms d).

(* instantiation with the static data recorded in a store *)
Definition atom_wires (s : store) (a : nat) : list wire :=
  match aget a (atab s) with Some ws => ws | None => [] end.

Definition value_s {R : Type} (zero one : R) (add mul : R -> R -> R)
           (s : store) (tbl : nat -> list nat -> R) (d : sarr) (rho : wire -> nat) : R :=
  value R zero one add mul (atom_wires s) (wdim s) tbl d rho.
