(* Layer W, semantics: theorems about Wire/Sem.v.
   Everything is proved for an arbitrary commutative semiring; the semiring laws are Section
   hypotheses (so every theorem carries them as premises once the Section is closed); no
   functional extensionality: functions of assignments are compared pointwise. *)
From Coq Require Import List Arith Bool Lia Permutation.
Import ListNotations.
From PTN Require Import TTN.Store Wire.Sem.

Section SemProofs.
  Variable R : Type.
  Variables (zero one : R) (add mul : R -> R -> R).
  Hypothesis SR : comm_semiring zero one add mul.

  Local Lemma sr_add_comm : forall x y, add x y = add y x.
  Proof. apply SR. Qed.
  Local Lemma sr_add_assoc : forall x y z, add x (add y z) = add (add x y) z.
  Proof. apply SR. Qed.
  Local Lemma sr_add_0_l : forall x, add zero x = x.
  Proof. apply SR. Qed.
  Local Lemma sr_mul_comm : forall x y, mul x y = mul y x.
  Proof. apply SR. Qed.
  Local Lemma sr_mul_assoc : forall x y z, mul x (mul y z) = mul (mul x y) z.
  Proof. apply SR. Qed.
  Local Lemma sr_mul_1_l : forall x, mul one x = x.
  Proof. apply SR. Qed.
  Local Lemma sr_mul_0_r : forall x, mul x zero = zero.
  Proof. apply SR. Qed.
  Local Lemma sr_mul_add_distr_l : forall x y z, mul x (add y z) = add (mul x y) (mul x z).
  Proof. apply SR. Qed.

  Local Notation sum_upto := (sum_upto R zero add).
  Local Notation prod_over := (prod_over R one mul).

  (* ---- bounded sums ---------------------------------------------------------------------- *)
  Lemma sum_upto_ext n f g :
    (forall k, k < n -> f k = g k) -> sum_upto n f = sum_upto n g.
  Proof.
    induction n as [|n IH]; intros H; cbn; [reflexivity|].
    rewrite IH by (intros; apply H; lia). rewrite (H n) by lia. reflexivity.
  Qed.

  Lemma sum_upto_zero n : sum_upto n (fun _ => zero) = zero.
  Proof. induction n as [|n IH]; cbn; [reflexivity|]. rewrite IH. apply sr_add_0_l. Qed.

  Lemma add_interchange a b c d : add (add a b) (add c d) = add (add a c) (add b d).
  Proof.
    rewrite <- (sr_add_assoc a b (add c d)), (sr_add_assoc b c d), (sr_add_comm b c),
      <- (sr_add_assoc c b d), (sr_add_assoc a c (add b d)). reflexivity.
  Qed.

  Lemma sum_upto_add n f g :
    sum_upto n (fun k => add (f k) (g k)) = add (sum_upto n f) (sum_upto n g).
  Proof.
    induction n as [|n IH]; cbn.
    - symmetry; apply sr_add_0_l.
    - rewrite IH. apply add_interchange.
  Qed.

  (* Fubini for two bounded sums *)
  Lemma sum_upto_swap n m (f : nat -> nat -> R) :
    sum_upto n (fun i => sum_upto m (fun j => f i j))
    = sum_upto m (fun j => sum_upto n (fun i => f i j)).
  Proof.
    induction n as [|n IH]; cbn.
    - symmetry; apply sum_upto_zero.
    - rewrite IH. symmetry. apply sum_upto_add.
  Qed.

  Lemma sum_upto_mul_l n c f :
    sum_upto n (fun k => mul c (f k)) = mul c (sum_upto n f).
  Proof.
    induction n as [|n IH]; cbn.
    - symmetry; apply sr_mul_0_r.
    - rewrite IH. symmetry. apply sr_mul_add_distr_l.
  Qed.

  Lemma sum_upto_mul_r n c f :
    sum_upto n (fun k => mul (f k) c) = mul (sum_upto n f) c.
  Proof.
    rewrite (sr_mul_comm _ c), <- sum_upto_mul_l. apply sum_upto_ext; intros; apply sr_mul_comm.
  Qed.

  (* ---- products over lists ------------------------------------------------------------------ *)
  Lemma prod_over_ext {A} (f g : A -> R) l :
    (forall x, In x l -> f x = g x) -> prod_over f l = prod_over g l.
  Proof.
    induction l as [|x t IH]; intros H; cbn; [reflexivity|].
    rewrite (H x) by (left; reflexivity). rewrite IH by (intros; apply H; right; assumption).
    reflexivity.
  Qed.

  Lemma prod_over_app {A} (f : A -> R) l1 l2 :
    prod_over f (l1 ++ l2) = mul (prod_over f l1) (prod_over f l2).
  Proof.
    induction l1 as [|x t IH]; cbn.
    - symmetry; apply sr_mul_1_l.
    - rewrite IH. apply sr_mul_assoc.
  Qed.

  Lemma prod_over_perm {A} (f : A -> R) l l' :
    Permutation l l' -> prod_over f l = prod_over f l'.
  Proof.
    induction 1; cbn.
    - reflexivity.
    - rewrite IHPermutation; reflexivity.
    - rewrite !sr_mul_assoc, (sr_mul_comm (f y) (f x)). reflexivity.
    - etransitivity; eassumption.
  Qed.

  (* ---- assignments ---------------------------------------------------------------------------- *)
  Local Notation assignment := (wire -> nat).

  (* r and r' agree on every wire outside ws *)
  Definition agree_out (ws : list wire) (r r' : assignment) : Prop :=
    forall x, ~ In x ws -> r x = r' x.
  (* F does not look at the wires in ws (and respects pointwise equality of assignments) *)
  Definition indep (F : assignment -> R) (ws : list wire) : Prop :=
    forall r r', agree_out ws r r' -> F r = F r'.
  (* F respects pointwise equality of assignments *)
  Definition ext (F : assignment -> R) : Prop :=
    forall r r', (forall x, r x = r' x) -> F r = F r'.

  Lemma indep_ext F ws : indep F ws -> ext F.
  Proof. intros H r r' E. apply H. intros x _. apply E. Qed.

  Lemma ext_indep_nil F : ext F -> indep F [].
  Proof. intros H r r' E. apply H. intros x. apply E. intros []. Qed.

  Lemma indep_incl F ws ws' : incl ws' ws -> indep F ws -> indep F ws'.
  Proof. intros I H r r' E. apply H. intros x Hx. apply E. intros Hx'. apply Hx, I, Hx'. Qed.

  Lemma upd_same r w k : upd r w k w = k.
  Proof. unfold upd. rewrite Nat.eqb_refl. reflexivity. Qed.

  Lemma upd_other r w k x : x <> w -> upd r w k x = r x.
  Proof. intros H. unfold upd. apply Nat.eqb_neq in H. rewrite H. reflexivity. Qed.

  Lemma upd_comm r x y k k' : x <> y ->
    forall z, upd (upd r x k) y k' z = upd (upd r y k') x k z.
  Proof.
    intros N z. unfold upd.
    destruct (Nat.eqb_spec z y), (Nat.eqb_spec z x); try reflexivity. congruence.
  Qed.

  Lemma upd_agree_in ws r w k : In w ws -> agree_out ws (upd r w k) r.
  Proof. intros I x Hx. apply upd_other. intros ->. apply Hx, I. Qed.

  Lemma upd_agree_out ws r r' w k :
    agree_out ws r r' -> agree_out ws (upd r w k) (upd r' w k).
  Proof.
    intros E x Hx. unfold upd. destruct (Nat.eqb x w); [reflexivity|]. apply E, Hx.
  Qed.

  Lemma upd_pointwise r r' w k :
    (forall x, r x = r' x) -> forall x, upd r w k x = upd r' w k x.
  Proof. intros E x. unfold upd. destruct (Nat.eqb x w); [reflexivity|apply E]. Qed.

  (* ---- the static world -------------------------------------------------------------------------- *)
  Variable wires_of : nat -> list wire.
  Variable dim : wire -> nat.
  Variable tbl : nat -> list nat -> R.

  Local Notation atom_val := (atom_val R wires_of tbl).
  Local Notation atoms_val := (atoms_val R one mul wires_of tbl).
  Local Notation sum_bnd := (sum_bnd R zero add dim).
  Local Notation value := (value R zero one add mul wires_of dim tbl).
  Local Notation entry := (entry R zero one add mul wires_of dim tbl).

  (* atom a's wires avoid ws *)
  Definition atoms_avoid (atms : list nat) (ws : list wire) : Prop :=
    forall a, In a atms -> forall x, In x (wires_of a) -> ~ In x ws.

  Lemma atom_val_agree r r' a :
    (forall x, In x (wires_of a) -> r x = r' x) -> atom_val r a = atom_val r' a.
  Proof. intros H. unfold Sem.atom_val. f_equal. apply map_ext_in, H. Qed.

  Lemma atoms_val_indep atms ws : atoms_avoid atms ws -> indep (atoms_val atms) ws.
  Proof.
    intros H r r' E. unfold Sem.atoms_val. apply prod_over_ext. intros a Ha.
    apply atom_val_agree. intros x Hx. apply E. apply (H a Ha x Hx).
  Qed.

  Lemma atoms_val_ext atms : ext (atoms_val atms).
  Proof.
    apply (indep_ext _ []). apply atoms_val_indep. intros a _ x _ [].
  Qed.

  Lemma atoms_val_perm atms atms' r :
    Permutation atms atms' -> atoms_val atms r = atoms_val atms' r.
  Proof. apply prod_over_perm. Qed.

  Lemma atoms_val_app a1 a2 r :
    atoms_val (a1 ++ a2) r = mul (atoms_val a1 r) (atoms_val a2 r).
  Proof. apply prod_over_app. Qed.

  (* ---- iterated bounded sums over wires ------------------------------------------------------------ *)
  Lemma sum_bnd_ext_F ws F G :
    (forall r, F r = G r) -> forall r, sum_bnd ws F r = sum_bnd ws G r.
  Proof.
    intros H. induction ws as [|w t IH]; intros r; cbn; [apply H|].
    apply sum_upto_ext. intros k _. apply IH.
  Qed.

  Lemma sum_bnd_indep ws F S : indep F S -> indep (sum_bnd ws F) S.
  Proof.
    intros H. induction ws as [|w t IH]; intros r r' E; cbn; [apply H, E|].
    apply sum_upto_ext. intros k _. apply IH. apply upd_agree_out, E.
  Qed.

  Lemma sum_bnd_ext ws F : ext F -> ext (sum_bnd ws F).
  Proof. intros H. apply (indep_ext _ []), sum_bnd_indep, ext_indep_nil, H. Qed.

  Lemma sum_bnd_app l1 l2 F r :
    sum_bnd (l1 ++ l2) F r = sum_bnd l1 (sum_bnd l2 F) r.
  Proof.
    revert r. induction l1 as [|w t IH]; intros r; cbn; [reflexivity|].
    apply sum_upto_ext. intros k _. apply IH.
  Qed.

  (* Fubini for the iterated sums: any reordering of the bound wires (no NoDup needed) *)
  Lemma sum_bnd_perm F l l' :
    ext F -> Permutation l l' -> forall r, sum_bnd l F r = sum_bnd l' F r.
  Proof.
    intros HF P. induction P; intros r; cbn.
    - reflexivity.
    - apply sum_upto_ext. intros k _. apply IHP.
    - destruct (Nat.eq_dec x y) as [->|N]; [reflexivity|].
      rewrite sum_upto_swap.
      apply sum_upto_ext. intros k _. apply sum_upto_ext. intros k' _.
      apply (sum_bnd_ext l F HF). apply upd_comm. congruence.
    - rewrite IHP1. apply IHP2.
  Qed.

  (* a factor that does not look at the summed wires can be pulled out *)
  Lemma sum_bnd_mul_l ws G F :
    indep G ws -> forall r, sum_bnd ws (fun r => mul (G r) (F r)) r = mul (G r) (sum_bnd ws F r).
  Proof.
    induction ws as [|w t IH]; intros HG r; cbn; [reflexivity|].
    rewrite <- sum_upto_mul_l. apply sum_upto_ext. intros k _.
    rewrite IH by (apply (indep_incl G (w :: t)); [apply incl_tl, incl_refl|exact HG]).
    f_equal. apply HG. apply upd_agree_in. left; reflexivity.
  Qed.

  Lemma sum_bnd_mul_r ws G F :
    indep G ws -> forall r, sum_bnd ws (fun r => mul (F r) (G r)) r = mul (sum_bnd ws F r) (G r).
  Proof.
    intros HG r. rewrite (sr_mul_comm _ (G r)), <- (sum_bnd_mul_l ws G F HG).
    apply sum_bnd_ext_F. intros; apply sr_mul_comm.
  Qed.

  (* ---- theorems about diagrams ------------------------------------------------------------------------ *)

  (* 2a: transposing the axes does not change the value at any wire assignment *)
  Theorem value_transpose p d rho : value (s_transpose p d) rho = value d rho.
  Proof. reflexivity. Qed.

  (* value respects pointwise equality of assignments (used instead of functional extensionality) *)
  Theorem value_ext d : ext (value d).
  Proof. apply sum_bnd_ext, atoms_val_ext. Qed.

  (* value does not look at the bound wires *)
  Theorem value_indep_bnd d : indep (value d) (bnd d).
  Proof.
    unfold Sem.value. generalize (atoms_val (atoms d)) (atoms_val_ext (atoms d)).
    intros F HF. induction (bnd d) as [|w t IH]; intros r r' E; cbn.
    - apply HF. intros x. apply E. intros [].
    - apply sum_upto_ext. intros k _. apply IH. intros x Hx. unfold upd.
      destruct (Nat.eqb_spec x w); [reflexivity|]. apply E. intros [->|H]; [congruence|auto].
  Qed.

  (* 2b: the value depends only on the multiset of atoms and the multiset of bound wires.
     (NoDup (bnd d) is not needed; the statement with it is value_perm below.) *)
  Theorem value_perm_gen d d' rho :
    Permutation (atoms d) (atoms d') -> Permutation (bnd d) (bnd d') ->
    value d rho = value d' rho.
  Proof.
    intros PA PB. unfold Sem.value.
    rewrite (sum_bnd_perm _ _ _ (atoms_val_ext (atoms d)) PB).
    apply sum_bnd_ext_F. intros r. apply atoms_val_perm, PA.
  Qed.

  Theorem value_perm d d' rho :
    Permutation (atoms d) (atoms d') -> Permutation (bnd d) (bnd d') -> NoDup (bnd d) ->
    value d rho = value d' rho.
  Proof. intros PA PB _. apply value_perm_gen; assumption. Qed.

  (* 2d: same axes, permutation-equal atoms and bound wires => same value everywhere and same
     entries of the denoted tensor *)
  Theorem diagram_determines_value d d' :
    axes d = axes d' -> Permutation (atoms d) (atoms d') -> Permutation (bnd d) (bnd d') ->
    forall rho, value d rho = value d' rho.
  Proof. intros _ PA PB rho. apply value_perm_gen; assumption. Qed.

  Theorem diagram_determines_entry d d' :
    axes d = axes d' -> Permutation (atoms d) (atoms d') -> Permutation (bnd d) (bnd d') ->
    forall rho0 idx, entry d rho0 idx = entry d' rho0 idx.
  Proof.
    intros EA PA PB rho0 idx. unfold Sem.entry. rewrite EA. apply value_perm_gen; assumption.
  Qed.

  (* ---- 2c: the variable-elimination step ----------------------------------------------------------------- *)
  Lemma pop_nth {A} (dflt : A) i (l : list A) x r : pop i l = Some (x, r) -> nth i l dflt = x.
  Proof.
    revert i x r. induction l as [|y t IH]; intros [|i] x r H; cbn in *; try discriminate.
    - congruence.
    - destruct (pop i t) as [[z t']|] eqn:E; [|discriminate].
      injection H as <- _. apply (IH i z t' E).
  Qed.

  Lemma s_tensordot_shape a b ia ib c :
    s_tensordot a b ia ib = Some c ->
    exists w ra rb,
      pop ia (axes a) = Some (w, ra) /\ pop ib (axes b) = Some (w, rb) /\
      c = {| axes := ra ++ rb; atoms := atoms a ++ atoms b; bnd := w :: bnd a ++ bnd b |}.
  Proof.
    unfold s_tensordot. intros H.
    destruct (pop ia (axes a)) as [[wa ra]|]; [|discriminate].
    destruct (pop ib (axes b)) as [[wb rb]|]; [|discriminate].
    destruct (Nat.eqb_spec wa wb) as [->|]; [|discriminate].
    injection H as <-. exists wb, ra, rb. repeat split.
  Qed.

  (* the sum-product core, independent of s_tensordot *)
  Lemma value_join atomsA atomsB bndA bndB rho :
    atoms_avoid atomsA bndB -> atoms_avoid atomsB bndA ->
    sum_bnd (bndA ++ bndB) (atoms_val (atomsA ++ atomsB)) rho
    = mul (sum_bnd bndA (atoms_val atomsA) rho) (sum_bnd bndB (atoms_val atomsB) rho).
  Proof.
    intros HA HB. rewrite sum_bnd_app.
    transitivity (sum_bnd bndA (fun r => mul (atoms_val atomsA r) (sum_bnd bndB (atoms_val atomsB) r)) rho).
    - apply sum_bnd_ext_F. intros r.
      rewrite <- (sum_bnd_mul_l bndB (atoms_val atomsA) (atoms_val atomsB) (atoms_val_indep _ _ HA)).
      apply sum_bnd_ext_F. intros r'. apply atoms_val_app.
    - apply (sum_bnd_mul_r bndA (sum_bnd bndB (atoms_val atomsB)) (atoms_val atomsA)).
      apply sum_bnd_indep, atoms_val_indep, HB.
  Qed.

  Theorem value_tensordot a b ia ib c :
    s_tensordot a b ia ib = Some c ->
    atoms_avoid (atoms a) (bnd b) ->       (* no atom of a touches a wire bound in b *)
    atoms_avoid (atoms b) (bnd a) ->       (* no atom of b touches a wire bound in a *)
    let w := nth ia (axes a) 0 in
    nth ib (axes b) 0 = w /\
    forall rho,
      value c rho = sum_upto (dim w) (fun k => mul (value a (upd rho w k)) (value b (upd rho w k))).
  Proof.
    intros H HA HB w0. subst w0.
    destruct (s_tensordot_shape _ _ _ _ _ H) as (w & ra & rb & Pa & Pb & ->).
    rewrite (pop_nth (0 : wire) _ _ _ _ Pa), (pop_nth (0 : wire) _ _ _ _ Pb). split; [reflexivity|].
    intros rho. unfold Sem.value; cbn [bnd atoms Sem.sum_bnd].
    apply sum_upto_ext. intros k _. apply value_join; assumption.
  Qed.

  (* the executable freshness check decides atoms_avoid *)
  Lemma memb_In x l : memb x l = true <-> In x l.
  Proof.
    unfold memb. rewrite existsb_exists. split.
    - intros (y & Hy & E). apply Nat.eqb_eq in E. subst; assumption.
    - intros H. exists x. split; [assumption|apply Nat.eqb_refl].
  Qed.

  Lemma atoms_avoidb_spec atms ws :
    atoms_avoidb wires_of atms ws = true <-> atoms_avoid atms ws.
  Proof.
    unfold atoms_avoidb, atoms_avoid. rewrite forallb_forall. split.
    - intros H a Ha x Hx I. specialize (H a Ha). rewrite forallb_forall in H.
      specialize (H x Hx). apply memb_In in I. rewrite I in H. discriminate.
    - intros H a Ha. apply forallb_forall. intros x Hx.
      destruct (memb x ws) eqn:E; [|reflexivity]. apply memb_In in E. destruct (H a Ha x Hx E).
  Qed.

  Corollary value_tensordot_b a b ia ib c :
    s_tensordot a b ia ib = Some c ->
    atoms_avoidb wires_of (atoms a) (bnd b) = true ->
    atoms_avoidb wires_of (atoms b) (bnd a) = true ->
    forall rho,
      value c rho = sum_upto (dim (nth ia (axes a) 0))
                      (fun k => mul (value a (upd rho (nth ia (axes a) 0) k))
                                    (value b (upd rho (nth ia (axes a) 0) k))).
  Proof.
    intros H HA HB. apply atoms_avoidb_spec in HA, HB.
    exact (proj2 (value_tensordot a b ia ib c H HA HB)).
  Qed.
End SemProofs.

