(* Layer W, semantics, entry level: the diagram operations denote the numpy operations on the
   denoted tensors.  [entry d rho0 idx] (Wire/Sem.v) is the entry of the tensor denoted by d at
   the multi-index idx of its axes (rho0 fixes the indices of wires that are not axes of d; for a
   closed diagram it is irrelevant: entry_rho0_irrelevant).
     entry_transpose : s_transpose p denotes np.transpose(., p)
     entry_tensordot : s_tensordot a b ia ib denotes np.tensordot(a, b, axes=(ia, ib))
   Same setting as SemProofs.v: arbitrary commutative semiring, no functional extensionality. *)
From Coq Require Import List Arith Bool Lia Permutation.
Import ListNotations.
From PTN Require Import TTN.Store Wire.Sem Wire.SemProofs.

(* ---- association lists / list surgery ------------------------------------------------------- *)
Lemma aget_perm {V} (x : nat) (l l' : list (nat * V)) :
  NoDup (map fst l) -> Permutation l l' -> aget x l = aget x l'.
Proof.
  intros ND P. induction P.
  - reflexivity.
  - destruct x0 as [k v]; cbn in *. inversion ND; subst.
    destruct (Nat.eqb x k); [reflexivity|auto].
  - destruct x0 as [k1 v1], y as [k2 v2]; cbn in *.
    inversion ND as [|? ? N1 _]; subst.
    destruct (Nat.eqb_spec x k2), (Nat.eqb_spec x k1); try reflexivity.
    subst. exfalso. apply N1. left; reflexivity.
  - rewrite IHP1 by assumption. apply IHP2.
    apply (Permutation_NoDup (Permutation_map fst P1) ND).
Qed.

Lemma aget_app {V} (x : nat) (l1 l2 : list (nat * V)) :
  aget x (l1 ++ l2) = match aget x l1 with Some v => Some v | None => aget x l2 end.
Proof.
  induction l1 as [|[k v] t IH]; cbn; [reflexivity|]. destruct (Nat.eqb x k); [reflexivity|exact IH].
Qed.

Lemma aget_combine_None {V} (x : wire) (ks : list wire) (vs : list V) :
  ~ In x ks -> aget x (combine ks vs) = None.
Proof.
  revert vs. induction ks as [|k t IH]; intros [|v vs] H; cbn in *; try reflexivity.
  destruct (Nat.eqb_spec x k); [subst; exfalso; auto|]. apply IH. auto.
Qed.

Lemma aget_combine_Some {V} (x : wire) (ks : list wire) (vs : list V) :
  In x ks -> length ks = length vs -> exists v, aget x (combine ks vs) = Some v.
Proof.
  revert vs. induction ks as [|k t IH]; intros [|v vs] H L; cbn in *; try (destruct H; fail); try discriminate.
  destruct (Nat.eqb_spec x k); [eexists; reflexivity|].
  apply IH; [destruct H; congruence|lia].
Qed.

Lemma map_fst_combine {A B} (l : list A) (l' : list B) :
  length l = length l' -> map fst (combine l l') = l.
Proof.
  revert l'. induction l as [|x t IH]; intros [|y t'] L; cbn in *; try discriminate; [reflexivity|].
  f_equal. apply IH. lia.
Qed.

Lemma combine_app_eq {A B} (l1 l2 : list A) (m1 m2 : list B) :
  length l1 = length m1 -> combine (l1 ++ l2) (m1 ++ m2) = combine l1 m1 ++ combine l2 m2.
Proof.
  revert m1. induction l1 as [|x t IH]; intros [|y m1] L; cbn in *; try discriminate; [reflexivity|].
  f_equal. apply IH. lia.
Qed.

Lemma insert_length {A} i (x : A) l : length (insert i x l) = S (length l).
Proof.
  revert i. induction l as [|y t IH]; intros [|i]; cbn; try reflexivity. rewrite IH. reflexivity.
Qed.

Lemma pop_perm {A} i (l : list A) x r : pop i l = Some (x, r) -> Permutation l (x :: r).
Proof.
  revert i x r. induction l as [|y t IH]; intros [|i] x r H; cbn in *; try discriminate.
  - injection H as <- <-. reflexivity.
  - destruct (pop i t) as [[z t']|] eqn:E; [|discriminate]. injection H as <- <-.
    rewrite (IH i z t' E). apply perm_swap.
Qed.

Lemma pop_length {A} i (l : list A) x r : pop i l = Some (x, r) -> length l = S (length r).
Proof. intros H. apply (Permutation_length (pop_perm _ _ _ _ H)). Qed.

(* zipping a list with an index list into which k was inserted at the popped position *)
Lemma pop_combine_insert {A B} i (l : list A) x r (k : B) (js : list B) :
  pop i l = Some (x, r) -> length js = length r ->
  Permutation (combine l (insert i k js)) ((x, k) :: combine r js).
Proof.
  revert i x r js. induction l as [|y t IH]; intros [|i] x r js H L; cbn in *; try discriminate.
  - injection H as <- <-. reflexivity.
  - destruct (pop i t) as [[z t']|] eqn:E; [|discriminate]. injection H as <- <-.
    destruct js as [|j js]; cbn in L; [discriminate|]. cbn.
    rewrite (IH i z t' js E) by lia. apply perm_swap.
Qed.

Lemma combine_nth_seq (ws : list wire) (idx : list nat) n :
  length ws = n -> length idx = n ->
  combine ws idx = map (fun i => (nth i ws 0, nth i idx 0)) (seq 0 n).
Proof.
  revert idx n. induction ws as [|w t IH]; intros [|k idx] [|n] L1 L2; cbn in *; try discriminate; [reflexivity|].
  f_equal. rewrite <- seq_shift, map_map. apply IH; lia.
Qed.

Lemma combine_map_pair {A B C} (f : A -> B) (g : A -> C) (l : list A) :
  combine (map f l) (map g l) = map (fun i => (f i, g i)) l.
Proof. induction l as [|x t IH]; cbn; [reflexivity|]. f_equal. exact IH. Qed.

Section SemEntry.
  Variable R : Type.
  Variables (zero one : R) (add mul : R -> R -> R).
  Hypothesis SR : comm_semiring zero one add mul.
  Variable wires_of : nat -> list wire.
  Variable dim : wire -> nat.
  Variable tbl : nat -> list nat -> R.

  Local Notation sum_upto := (sum_upto R zero add).
  Local Notation atoms_val := (atoms_val R one mul wires_of tbl).
  Local Notation sum_bnd := (sum_bnd R zero add dim).
  Local Notation value := (value R zero one add mul wires_of dim tbl).
  Local Notation entry := (entry R zero one add mul wires_of dim tbl).
  Local Notation assignment := (wire -> nat).

  (* ---- assign as a lookup ------------------------------------------------------------------ *)
  Definition lookup (rho : assignment) (l : list (nat * nat)) (x : wire) : nat :=
    match aget x l with Some k => k | None => rho x end.

  Lemma assign_lookup rho ws idx x : assign rho ws idx x = lookup rho (combine ws idx) x.
  Proof.
    revert idx. induction ws as [|w t IH]; intros [|k idx]; cbn; try reflexivity.
    unfold upd, lookup; cbn. destruct (Nat.eqb x w); [reflexivity|]. apply IH.
  Qed.

  (* ---- closed diagrams: the value only looks at the axis wires ---------------------------------- *)
  Definition closedd (d : sarr) : Prop :=
    forall a, In a (atoms d) -> forall x, In x (wires_of a) -> In x (axes d) \/ In x (bnd d).

  Lemma closedb_spec d : closedb wires_of d = true <-> closedd d.
  Proof.
    unfold closedb, closedd. rewrite forallb_forall. split.
    - intros H a Ha x Hx. specialize (H a Ha). rewrite forallb_forall in H. specialize (H x Hx).
      apply orb_true_iff in H. destruct H as [H|H]; apply (memb_In) in H; auto.
    - intros H a Ha. apply forallb_forall. intros x Hx. apply orb_true_iff.
      destruct (H a Ha x Hx) as [I|I]; [left|right]; apply memb_In; exact I.
  Qed.

  Lemma sum_bnd_supp ws F :
    forall S, (forall r r', (forall x, In x S \/ In x ws -> r x = r' x) -> F r = F r') ->
    forall r r', (forall x, In x S -> r x = r' x) -> sum_bnd ws F r = sum_bnd ws F r'.
  Proof.
    induction ws as [|w t IH]; intros S HF r r' E; cbn.
    - apply HF. intros x [H|[]]. apply E, H.
    - apply sum_upto_ext. intros k _. apply (IH (w :: S)).
      + intros q q' Hq. apply HF. intros x [H|[H|H]]; apply Hq; cbn; auto.
      + intros x [<-|H]; unfold upd; [rewrite Nat.eqb_refl; reflexivity|].
        destruct (Nat.eqb x w); [reflexivity|apply E, H].
  Qed.

  Theorem value_supp d r r' :
    closedd d -> (forall x, In x (axes d) -> r x = r' x) -> value d r = value d r'.
  Proof.
    intros C E. unfold Sem.value. apply (sum_bnd_supp (bnd d) _ (axes d)); [|exact E].
    intros q q' Hq. unfold Sem.atoms_val. apply prod_over_ext. intros a Ha.
    apply atom_val_agree. intros x Hx. apply Hq. apply (C a Ha x Hx).
  Qed.

  (* for a closed diagram the background assignment does not matter *)
  Theorem entry_rho0_irrelevant d rho0 rho0' idx :
    closedd d -> length idx = length (axes d) -> entry d rho0 idx = entry d rho0' idx.
  Proof.
    intros C L. unfold Sem.entry. apply value_supp; [exact C|]. intros x Hx.
    rewrite !assign_lookup. unfold lookup.
    destruct (aget_combine_Some x (axes d) idx Hx (eq_sym L)) as [v ->]. reflexivity.
  Qed.

  (* closedness is preserved by the two diagram operations, so the entry-level theorems chain *)
  Lemma closedd_transpose p d :
    Permutation p (seq 0 (length (axes d))) -> closedd d -> closedd (s_transpose p d).
  Proof.
    intros P C a Ha x Hx. destruct (C a Ha x Hx) as [I|I]; [left|right; exact I].
    cbn. unfold permute. destruct (In_nth _ _ (0 : wire) I) as (i & Hi & <-).
    apply (in_map (fun i => nth i (axes d) 0)).
    apply (Permutation_in _ (Permutation_sym P)). apply in_seq. lia.
  Qed.

  Lemma closedd_tensordot a b ia ib c :
    s_tensordot a b ia ib = Some c -> closedd a -> closedd b -> closedd c.
  Proof.
    intros H CA CB. destruct (s_tensordot_shape _ _ _ _ _ H) as (w & ra & rb & Pa & Pb & ->).
    pose proof (pop_perm _ _ _ _ Pa) as PPa. pose proof (pop_perm _ _ _ _ Pb) as PPb.
    intros x Hx y Hy. cbn in *. apply in_app_or in Hx. destruct Hx as [Hx|Hx].
    - destruct (CA x Hx y Hy) as [I|I].
      + apply (Permutation_in _ PPa) in I. destruct I as [<-|I]; [right; left; reflexivity|].
        left. apply in_or_app. left; exact I.
      + right. right. apply in_or_app. left; exact I.
    - destruct (CB x Hx y Hy) as [I|I].
      + apply (Permutation_in _ PPb) in I. destruct I as [<-|I]; [right; left; reflexivity|].
        left. apply in_or_app. right; exact I.
      + right. right. apply in_or_app. right; exact I.
  Qed.

  (* ---- transpose ---------------------------------------------------------------------------------- *)
  Theorem entry_transpose p d rho0 idx :
    NoDup (axes d) -> Permutation p (seq 0 (length (axes d))) -> length idx = length (axes d) ->
    entry (s_transpose p d) rho0 (permute 0 p idx) = entry d rho0 idx.
  Proof.
    intros ND P L. unfold Sem.entry. cbn [axes s_transpose].
    rewrite value_transpose. apply value_ext. intros x.
    rewrite !assign_lookup. unfold lookup.
    assert (E : aget x (combine (permute 0 p (axes d)) (permute 0 p idx))
                = aget x (combine (axes d) idx)).
    { unfold permute. rewrite combine_map_pair.
      rewrite (combine_nth_seq (axes d) idx (length (axes d)) eq_refl L).
      symmetry. apply aget_perm.
      - rewrite <- (combine_nth_seq (axes d) idx (length (axes d)) eq_refl L).
        rewrite map_fst_combine by (symmetry; exact L). exact ND.
      - symmetry. apply Permutation_map, P. }
    first [rewrite E; reflexivity | rewrite <- E; reflexivity].
  Qed.

  (* ---- tensordot ------------------------------------------------------------------------------------ *)
  Theorem entry_tensordot a b ia ib c rho0 ja jb :
    s_tensordot a b ia ib = Some c ->
    atoms_avoid wires_of (atoms a) (bnd b) ->
    atoms_avoid wires_of (atoms b) (bnd a) ->
    closedd a -> closedd b ->
    NoDup (axes a) -> NoDup (axes b) ->
    (forall x, In x (axes a) -> In x (axes b) -> x = nth ia (axes a) 0) ->
    S (length ja) = length (axes a) -> S (length jb) = length (axes b) ->
    entry c rho0 (ja ++ jb)
    = sum_upto (dim (nth ia (axes a) 0))
        (fun k => mul (entry a rho0 (insert ia k ja)) (entry b rho0 (insert ib k jb))).
  Proof.
    intros H HA HB CA CB NDa NDb Sh La Lb.
    destruct (value_tensordot R zero one add mul SR wires_of dim tbl a b ia ib c H HA HB) as [Wb V].
    destruct (s_tensordot_shape _ _ _ _ _ H) as (w & ra & rb & Pa & Pb & Ec).
    assert (Ew : nth ia (axes a) 0 = w) by apply (pop_nth (0 : wire) _ _ _ _ Pa).
    rewrite Ew in *. clear Wb.
    pose proof (pop_perm _ _ _ _ Pa) as PPa. pose proof (pop_perm _ _ _ _ Pb) as PPb.
    pose proof (pop_length _ _ _ _ Pa) as LLa. pose proof (pop_length _ _ _ _ Pb) as LLb.
    assert (Lja : length ja = length ra) by lia. assert (Ljb : length jb = length rb) by lia.
    pose proof (Permutation_NoDup PPa NDa) as NDa'. pose proof (Permutation_NoDup PPb NDb) as NDb'.
    apply NoDup_cons_iff in NDa'. destruct NDa' as [Nwa NDra].
    apply NoDup_cons_iff in NDb'. destruct NDb' as [Nwb NDrb].
    unfold Sem.entry at 1. rewrite V. rewrite Ec. cbn [axes].
    apply sum_upto_ext. intros k _. unfold Sem.entry.
    (* the assignment used on the left, as a lookup *)
    assert (EL : forall x, upd (assign rho0 (ra ++ rb) (ja ++ jb)) w k x
                           = if Nat.eqb x w then k
                             else lookup rho0 (combine ra ja ++ combine rb jb) x).
    { intros x. unfold upd. destruct (Nat.eqb x w); [reflexivity|].
      rewrite assign_lookup, combine_app_eq by (symmetry; exact Lja). reflexivity. }
    (* the assignments used on the right, as lookups *)
    assert (ER : forall (l r : list wire) i js, pop i l = Some (w, r) -> NoDup l -> length js = length r ->
                 forall x, assign rho0 l (insert i k js) x
                           = if Nat.eqb x w then k else lookup rho0 (combine r js) x).
    { intros l r i js Pl NDl Ljs x. rewrite assign_lookup. unfold lookup.
      rewrite (aget_perm x (combine l (insert i k js)) ((w, k) :: combine r js)).
      - cbn. destruct (Nat.eqb x w); reflexivity.
      - rewrite map_fst_combine; [exact NDl|].
        rewrite insert_length. pose proof (pop_length _ _ _ _ Pl). unfold wire in *. lia.
      - apply pop_combine_insert; assumption. }
    f_equal.
    - apply value_supp; [exact CA|]. intros x Hx.
      rewrite EL, (ER (axes a) ra ia ja Pa NDa Lja).
      destruct (Nat.eqb_spec x w); [reflexivity|].
      assert (Ix : In x ra).
      { apply (Permutation_in _ PPa) in Hx. destruct Hx; [congruence|assumption]. }
      unfold lookup. rewrite aget_app.
      destruct (aget_combine_Some x ra ja Ix (eq_sym Lja)) as [v ->]. reflexivity.
    - apply value_supp; [exact CB|]. intros x Hx.
      rewrite EL, (ER (axes b) rb ib jb Pb NDb Ljb).
      destruct (Nat.eqb_spec x w); [reflexivity|].
      assert (Nx : ~ In x ra).
      { intros I. apply n. apply Sh; [|exact Hx].
        apply (Permutation_in _ (Permutation_sym PPa)). right; exact I. }
      unfold lookup. rewrite aget_app, (aget_combine_None x ra ja Nx). reflexivity.
  Qed.
End SemEntry.
