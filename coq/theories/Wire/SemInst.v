(* Layer W, semantics: instances of the commutative-semiring interface, a worked example on a
   store produced by the model (hypotheses of the theorems are satisfiable), and the axiom audit
   of every theorem of Wire/SemProofs.v and Wire/SemEntryProofs.v. *)
From Coq Require Import List Arith Bool Lia ZArith Permutation.
Import ListNotations.
From PTN Require Import TTN.Store Wire.Sem Wire.SemProofs Wire.SemEntryProofs.

Lemma nat_csr : comm_semiring 0 1 Nat.add Nat.mul.
Proof. split; intros; lia. Qed.

Lemma Z_csr : comm_semiring 0%Z 1%Z Z.add Z.mul.
Proof. split; intros; lia. Qed.

(* ---- a worked example --------------------------------------------------------------------- *)
(* root 0 of shape (2,3), child 1 of shape (3,4) attached through the root's leg 1 *)
Definition ex_store : store := fst (run empty_store [AddRoot 0 [2; 3]; AddChild 1 [3; 4] 0 0 1]).
Definition ex_a : sarr := {| axes := [0; 1]; atoms := [0]; bnd := [] |}.
Definition ex_b : sarr := {| axes := [1; 3]; atoms := [1]; bnd := [] |}.
Definition ex_c : sarr := {| axes := [0; 3]; atoms := [0; 1]; bnd := [1] |}.
(* some atom entries over nat *)
Definition ex_tbl (a : nat) (idx : list nat) : nat := fold_left (fun acc i => 5 * acc + i + a) idx (a + 1).

Example ex_tensors : tensors ex_store = [(0, ex_a); (1, ex_b)].
Proof. vm_compute. reflexivity. Qed.

Example ex_contract :
  tensors (fst (run ex_store [Contract 0 1 2])) = [(2, ex_c)] /\ s_tensordot ex_a ex_b 1 0 = Some ex_c.
Proof. vm_compute. split; reflexivity. Qed.

(* the side conditions of value_tensordot / entry_tensordot hold on it *)
Example ex_side :
  atoms_avoidb (atom_wires ex_store) (atoms ex_a) (bnd ex_b) = true
  /\ atoms_avoidb (atom_wires ex_store) (atoms ex_b) (bnd ex_a) = true
  /\ closedb (atom_wires ex_store) ex_a = true /\ closedb (atom_wires ex_store) ex_b = true
  /\ closedb (atom_wires ex_store) ex_c = true.
Proof. vm_compute. repeat split; reflexivity. Qed.

(* the denoted tensor of the contracted diagram is the matrix product of the denoted matrices *)
Example ex_value :
  forallb (fun i => forallb (fun j =>
     Nat.eqb (entry nat 0 1 Nat.add Nat.mul (atom_wires ex_store) (wdim ex_store) ex_tbl ex_c (fun _ => 0) [i; j])
             (ex_tbl 0 [i; 0] * ex_tbl 1 [0; j] + ex_tbl 0 [i; 1] * ex_tbl 1 [1; j] + ex_tbl 0 [i; 2] * ex_tbl 1 [2; j]))
     (seq 0 4)) (seq 0 2) = true.
Proof. vm_compute. reflexivity. Qed.

(* instance of the general theorem on the example *)
Example ex_tensordot_instance : forall rho0 i j,
  entry nat 0 1 Nat.add Nat.mul (atom_wires ex_store) (wdim ex_store) ex_tbl ex_c rho0 ([i] ++ [j])
  = sum_upto nat 0 Nat.add 3
      (fun k => entry nat 0 1 Nat.add Nat.mul (atom_wires ex_store) (wdim ex_store) ex_tbl ex_a rho0 (insert 1 k [i])
                * entry nat 0 1 Nat.add Nat.mul (atom_wires ex_store) (wdim ex_store) ex_tbl ex_b rho0 (insert 0 k [j])).
Proof.
  intros rho0 i j.
  apply (entry_tensordot nat 0 1 Nat.add Nat.mul nat_csr (atom_wires ex_store) (wdim ex_store) ex_tbl
           ex_a ex_b 1 0 ex_c rho0 [i] [j]).
  - reflexivity.
  - apply atoms_avoidb_spec. reflexivity.
  - apply atoms_avoidb_spec. reflexivity.
  - apply closedb_spec. reflexivity.
  - apply closedb_spec. reflexivity.
  - repeat constructor; cbn; intuition congruence.
  - repeat constructor; cbn; intuition congruence.
  - cbn. intros x [<-|[<-|[]]] [E|[E|[]]]; congruence.
  - reflexivity.
  - reflexivity.
Qed.

(* ---- axiom audit -------------------------------------------------------------------------------- *)
Print Assumptions value_transpose.
Print Assumptions value_ext.
Print Assumptions value_indep_bnd.
Print Assumptions value_perm_gen.
Print Assumptions value_perm.
Print Assumptions diagram_determines_value.
Print Assumptions diagram_determines_entry.
Print Assumptions value_join.
Print Assumptions value_tensordot.
Print Assumptions value_tensordot_b.
Print Assumptions atoms_avoidb_spec.
Print Assumptions closedb_spec.
Print Assumptions value_supp.
Print Assumptions entry_rho0_irrelevant.
Print Assumptions closedd_transpose.
Print Assumptions closedd_tensordot.
Print Assumptions entry_transpose.
Print Assumptions entry_tensordot.
Print Assumptions sum_upto_swap.
Print Assumptions sum_bnd_perm.
Print Assumptions ex_tensordot_instance.
