(* Proofs about Special/FromTensor.v, part 1: one factor-and-attach step of _from_tensor_rec.
   - inversion lemmas for factor / link_set / attach_child (explicit result stores);
   - the step is accepted and preserves the store invariant wf (TTN/Inv.v);
   - its local effect: only the current node and the new child change; the current node gains the child
     as its LAST child, its logical legs  V ++ Oq ++ Or  become  V ++ [bond] ++ Oq,  the child has the
     logical legs  bond :: Or  and an identity leg permutation. *)
From Coq Require Import List Arith Bool Lia Permutation.
From PTN Require Import TTN.Store TTN.StoreProofs TTN.Inv TTN.InvProofs TTN.InvNode TTN.InvBuild
  Tree.RTree Special.Chain Special.FromTensor.
Import ListNotations.

Local Notation wf := Inv.wf.

Ltac ulia := unfold id, wire in *; lia.

(* ---- lists -------------------------------------------------------------------------------------------- *)
Lemma permute_seq_firstn {A} (d : A) k (l : list A) : k <= length l -> permute d (seq 0 k) l = firstn k l.
Proof. intros H. unfold permute. rewrite map_nth_seq by lia. reflexivity. Qed.

Lemma permute_seq_skipn {A} (d : A) k r (l : list A) : k + r = length l -> permute d (seq k r) l = skipn k l.
Proof.
  intros H. unfold permute. rewrite map_nth_seq by lia. apply firstn_all2. rewrite skipn_length. lia.
Qed.

(* ---- factor ------------------------------------------------------------------------------------------- *)
Definition bond_dim (s : store) (t : sarr) (r : nat) (dm : dmode) (tb : nat) : nat :=
  let n := length (axes t) in
  let mrows := prod_list (map (wdim s) (firstn (n - r) (axes t))) in
  let ncols := prod_list (map (wdim s) (skipn (n - r) (axes t))) in
  match dm with DQR => Nat.min mrows ncols | DSVD => Nat.min mrows ncols | DTSVD => tb end.

Definition q_of (s : store) (t : sarr) (r : nat) : sarr :=
  {| axes := firstn (length (axes t) - r) (axes t) ++ [next_wire s]; atoms := [next_atom s]; bnd := [] |}.
Definition r_of (s : store) (t : sarr) (r : nat) : sarr :=
  {| axes := next_wire s :: skipn (length (axes t) - r) (axes t); atoms := [S (next_atom s)]; bnd := [] |}.
Definition def_of (s : store) (t : sarr) (dm : dmode) : kdef :=
  {| kq := next_atom s; kr := S (next_atom s); kbond := next_wire s; kinput := t; kkind := dmode_kind dm;
     kmode := match dm with DQR => Some Reduced | _ => None end |}.

(* the world after the kernel call: one more wire, two more atoms, one more definition *)
Definition factored (s : store) (t : sarr) (r : nat) (dm : dmode) (tb : nat) : store :=
  {| nodes := nodes s; tensors := tensors s; root := root s;
     dims := dims s ++ [(next_wire s, bond_dim s t r dm tb)];
     next_wire := S (next_wire s); next_atom := S (S (next_atom s));
     defs := defs s ++ [def_of s t dm];
     atab := (atab s ++ [(next_atom s, axes (q_of s t r))]) ++ [(S (next_atom s), axes (r_of s t r))] |}.

Lemma factor_inv s t r dm tb sg Q R : factor s t r dm tb = Some (sg, Q, R) ->
  r <= length (axes t) /\ sg = factored s t r dm tb /\ Q = q_of s t r /\ R = r_of s t r.
Proof.
  unfold factor. destruct (Nat.ltb_spec (length (axes t)) r) as [Hlt|Hge]; [discriminate|].
  cbn [fresh_wires fresh_atom hd add_def nodes tensors root dims next_wire next_atom defs atab].
  rewrite (permute_seq_firstn 0 (length (axes t) - r) (axes t)) by ulia.
  rewrite (permute_seq_skipn 0 (length (axes t) - r) r (axes t)) by ulia.
  intros [= <- <- <-]. split; [exact Hge|]. unfold factored, q_of, r_of, def_of, bond_dim.
  repeat split; try reflexivity; destruct dm; reflexivity.
Qed.

Lemma factor_some s t r dm tb : r <= length (axes t) ->
  factor s t r dm tb = Some (factored s t r dm tb, q_of s t r, r_of s t r).
Proof.
  intros H. unfold factor. destruct (Nat.ltb_spec (length (axes t)) r) as [Hlt|Hge]; [ulia|].
  cbn [fresh_wires fresh_atom hd add_def nodes tensors root dims next_wire next_atom defs atab].
  rewrite (permute_seq_firstn 0 (length (axes t) - r) (axes t)) by ulia.
  rewrite (permute_seq_skipn 0 (length (axes t) - r) r (axes t)) by ulia.
  unfold factored, q_of, r_of, def_of, bond_dim. destruct dm; reflexivity.
Qed.

(* ---- growing the world (dims / atab / defs / counters) keeps the invariant ----------------------------- *)
Lemma wf_world s s' :
  wf s -> nodes s' = nodes s -> tensors s' = tensors s -> root s' = root s ->
  (forall w, w < next_wire s -> wdim s' w = wdim s w) -> next_wire s <= next_wire s' ->
  (forall w, In w (akeys (dims s')) -> w < next_wire s') -> wf s'.
Proof.
  intros W En Et Er Hd Hn Hk.
  assert (Tk : forall k, tens s' k = tens s k) by (intros k; unfold tens; rewrite Et; reflexivity).
  assert (Lk : forall k n, lax s' k n = lax s k n) by (intros k n; unfold lax; rewrite Tk; reflexivity).
  constructor.
  - rewrite En. apply (wf_nd s W).
  - rewrite Et. apply (wf_tnd s W).
  - intros k. rewrite Et, En. apply (wf_tn s W).
  - rewrite Er, En. apply (wf_root s W).
  - intros k n E. rewrite En in E. pose proof (wf_node s W k n E) as Hni. constructor.
    + rewrite Et. apply (ni_t _ _ _ Hni).
    + apply (ni_perm _ _ _ Hni).
    + rewrite Tk, (ni_shape _ _ _ Hni). apply map_ext_in. intros w Hw. symmetry. apply Hd.
      apply (wf_wires s W k (tens s k) w); [apply (wf_tens s k n W E)|exact Hw].
    + apply (ni_virt _ _ _ Hni).
    + apply (ni_chnd _ _ _ Hni).
    + rewrite En. apply (ni_ch _ _ _ Hni).
    + intros p Hp. destruct (ni_par _ _ _ Hni p Hp) as (pn & i & E1 & E2 & E3 & E4).
      exists pn, i. rewrite En, !Lk. auto.
  - intros k n E. rewrite En in E. rewrite Tk. apply (wf_own1 s W k n E).
  - intros k1 n1 k2 n2 w E1 E2. rewrite En in E1, E2. rewrite !Tk. apply (wf_own2 s W k1 n1 k2 n2 w E1 E2).
  - intros k t w E Hw. rewrite Et in E. pose proof (wf_wires s W k t w E Hw). lia.
  - exact Hk.
  - rewrite En. apply (wf_acyc s W).
Qed.

Lemma factored_wdim_old s t r dm tb w : wf s -> w < next_wire s -> wdim (factored s t r dm tb) w = wdim s w.
Proof.
  intros W Hw. unfold wdim, factored. cbn [dims]. rewrite InvProofs.aget_app.
  destruct (aget w (dims s)) as [v|]; [reflexivity|]. cbn. destruct (Nat.eqb_spec w (next_wire s)) as [->|_]; [lia|reflexivity].
Qed.

Lemma factored_wf s t r dm tb : wf s -> wf (factored s t r dm tb).
Proof.
  intros W. apply (wf_world s); try reflexivity; auto.
  - intros w Hw. apply factored_wdim_old; assumption.
  - cbn. lia.
  - intros w Hw. unfold factored in Hw. cbn [dims next_wire factored] in *. rewrite akeys_app in Hw.
    apply in_app_or in Hw. destruct Hw as [Hw|[<-|[]]]; [pose proof (wf_dims s W w Hw); lia|cbn; lia].
Qed.

(* ---- link_set + attach_child, explicitly ------------------------------------------------------------- *)
Lemma move_app {A} (a b : list A) x c : move (length a + length b) (length a) (a ++ b ++ x :: c) = Some (a ++ x :: b ++ c).
Proof.
  unfold move. rewrite app_assoc, <- app_length, pop_app, <- app_assoc. rewrite ib_insert_app. reflexivity.
Qed.

(* the node records after the step *)
Definition nd_linked (s : store) (nd : node) (Q : sarr) : node :=
  {| parent := parent nd; children := children nd; perm := seq 0 (length (axes Q)); shape := map (wdim s) (axes Q) |}.
Definition nd_parent (s : store) (nd : node) (Q : sarr) (c : id) (lo : nat) : node :=
  {| parent := parent nd; children := children nd ++ [c];
     perm := seq 0 (nvirt nd) ++ (nvirt nd + lo) :: seq (nvirt nd) lo; shape := map (wdim s) (axes Q) |}.
Definition nd_child (s : store) (cur : id) (R : sarr) : node :=
  {| parent := Some cur; children := []; perm := seq 0 (length (axes R)); shape := map (wdim s) (axes R) |}.

Definition attached (s : store) (cur c : id) (nd : node) (Q R : sarr) (lo : nat) : store :=
  {| nodes := aset cur (nd_parent s nd Q c lo) (aset c (nd_child s cur R) (aset cur (nd_linked s nd Q) (nodes s)));
     tensors := aset c R (aset cur Q (tensors s));
     root := root s; dims := dims s; next_wire := next_wire s; next_atom := next_atom s; defs := defs s; atab := atab s |}.

Lemma link_attach_some s cur c nd Q R VO b rw :
  aget cur (nodes s) = Some nd -> aget c (nodes s) = None ->
  axes Q = VO ++ [b] -> nvirt nd <= length VO -> axes R = b :: rw ->
  exists s2, link_set s cur Q = Some s2 /\
    attach_child s2 c R 0 cur (length (axes Q) - 1) = Some (attached s cur c nd Q R (length VO - nvirt nd)).
Proof.
  intros En Ec HQ Hv HR.
  assert (Hne : c <> cur) by (intros ->; congruence).
  unfold link_set. rewrite En. eexists. split; [reflexivity|].
  unfold attach_child. cbn [nodes tensors upd_nodes upd_tensors dims].
  rewrite !aget_aset_same. fold (nd_linked s nd Q).
  unfold amem. rewrite aget_aset_other by exact Hne. rewrite Ec.
  rewrite map_length, HR. cbn [length Nat.ltb Nat.leb negb].
  assert (HL : length (axes Q) = S (length VO)) by (rewrite HQ, app_length; cbn; ulia).
  unfold nlegs at 1. cbn [perm nd_linked]. rewrite seq_length, HL.
  replace (S (length VO) - 1) with (length VO) by lia.
  destruct (Nat.ltb_spec (length VO) (S (length VO))) as [_|]; [|lia]. cbn [negb].
  rewrite seq_nth by lia. cbn [Nat.add]. rewrite HQ, nth_middle. cbn [map nth].
  unfold wdim at 1 2. cbn [dims upd_tensors upd_nodes]. fold (wdim s b). rewrite Nat.eqb_refl. cbn [negb].
  (* the child *)
  unfold open_leg_to_parent. cbn [is_root new_node parent negb].
  unfold open_leg_ok, nopen, nlegs, nvirt, nparents. cbn [new_node perm parent children length].
  rewrite seq_length. cbn [map length Nat.sub Nat.eqb negb Nat.ltb Nat.leb andb Nat.add].
  cbn [seq move pop insert].
  (* the parent *)
  set (nv := nvirt nd) in *. set (lo := length VO - nv).
  assert (Hmove : move (length VO) nv (seq 0 (S (length VO))) = Some (seq 0 nv ++ (nv + lo) :: seq nv lo)).
  { assert (Hseq : seq 0 (S (length VO)) = seq 0 nv ++ seq nv lo ++ (nv + lo) :: []).
    { replace (S (length VO)) with (nv + (lo + 1)) by (unfold lo; lia). rewrite seq_app, seq_app. cbn. reflexivity. }
    rewrite Hseq.
    replace (length VO) with (length (seq 0 nv) + length (seq nv lo)) by (rewrite !seq_length; unfold lo; lia).
    replace nv with (length (seq 0 nv)) at 3 by apply seq_length.
    rewrite move_app. rewrite app_nil_r. reflexivity. }
  unfold open_leg_to_child, open_leg_ok.
  assert (Hnv : nvirt (nd_linked s nd Q) = nv) by reflexivity.
  assert (Hnl : nlegs (nd_linked s nd Q) = S (length VO)) by (unfold nlegs; cbn; rewrite seq_length; exact HL).
  unfold nopen. rewrite Hnv, Hnl.
  destruct (Nat.eqb_spec (S (length VO) - nv) 0) as [|_]; [lia|].
  destruct (Nat.ltb_spec (length VO) nv) as [|_]; [lia|].
  destruct (Nat.ltb_spec (length VO) (S (length VO))) as [_|]; [|lia]. cbn [negb andb].
  cbn [perm nd_linked]. rewrite HL, Hmove.
  unfold attached, nd_parent, nd_child. cbn [parent children shape nd_linked new_node]. rewrite HR. cbn [length map seq].
  rewrite ?Nat.leb_refl, ?map_length. cbn [negb]. fold nv. fold lo. reflexivity.
Qed.

(* ---- the step preserves the invariant -------------------------------------------------------------- *)
Section FA.
  Variables (s : store) (cur c : id) (nd : node) (t Q R : sarr) (V Oq rw : list wire) (b : wire).
  Hypothesis W : wf s.
  Hypothesis En : aget cur (nodes s) = Some nd.
  Hypothesis Et : aget cur (tensors s) = Some t.
  Hypothesis Hperm : perm nd = seq 0 (length (axes t)).
  Hypothesis Hax : axes t = V ++ Oq ++ rw.
  Hypothesis HV : length V = nvirt nd.
  Hypothesis Ec : aget c (nodes s) = None.
  Hypothesis Hb1 : b < next_wire s.
  Hypothesis Hb2 : forall k tk, aget k (tensors s) = Some tk -> ~ In b (axes tk).
  Hypothesis HQ : axes Q = (V ++ Oq) ++ [b].
  Hypothesis HR : axes R = b :: rw.

  Local Notation lo := (length Oq).
  Local Notation ndP := (nd_parent s nd Q c lo).
  Local Notation ndC := (nd_child s cur R).
  Local Notation s' := (attached s cur c nd Q R lo).
  Local Notation nv := (nvirt nd).
  Local Notation np := (nparents nd).

  Lemma fa_c_ne : c <> cur.
  Proof. intros ->. congruence. Qed.

  Lemma fa_tens_cur : tens s cur = t.
  Proof. apply tens_aget. exact Et. Qed.

  Lemma fa_nodes k :
    aget k (nodes s') = if Nat.eqb k cur then Some ndP else if Nat.eqb k c then Some ndC else aget k (nodes s).
  Proof.
    unfold attached. cbn [nodes]. rewrite !aget_aset. destruct (Nat.eqb k cur); [reflexivity|].
    destruct (Nat.eqb k c); reflexivity.
  Qed.

  Lemma fa_tens k : tens s' k = if Nat.eqb k c then R else if Nat.eqb k cur then Q else tens s k.
  Proof.
    unfold tens, attached. cbn [tensors]. rewrite !aget_aset. destruct (Nat.eqb k c); [reflexivity|].
    destruct (Nat.eqb k cur); reflexivity.
  Qed.

  Lemma fa_tens_P : tens s' cur = Q.
  Proof. rewrite fa_tens, Nat.eqb_refl. destruct (Nat.eqb_spec cur c) as [E|_]; [symmetry in E; destruct (fa_c_ne E)|reflexivity]. Qed.

  Lemma fa_tens_C : tens s' c = R.
  Proof. rewrite fa_tens, Nat.eqb_refl. reflexivity. Qed.

  Lemma fa_tens_other k : k <> cur -> k <> c -> tens s' k = tens s k.
  Proof.
    intros H1 H2. rewrite fa_tens. destruct (Nat.eqb_spec k c); [contradiction|]. destruct (Nat.eqb_spec k cur); [contradiction|reflexivity].
  Qed.

  Lemma fa_node_cases k nk' : aget k (nodes s') = Some nk' ->
    (k = cur /\ nk' = ndP) \/ (k = c /\ nk' = ndC) \/ (k <> cur /\ k <> c /\ aget k (nodes s) = Some nk').
  Proof.
    rewrite fa_nodes. destruct (Nat.eqb_spec k cur) as [->|Hp]; [intros [= <-]; auto|].
    destruct (Nat.eqb_spec k c) as [->|Hc]; [intros [= <-]; auto|]. auto.
  Qed.

  Lemma fa_old_ne_c k nk : aget k (nodes s) = Some nk -> k <> c.
  Proof. intros E ->. rewrite Ec in E. discriminate. Qed.

  Lemma fa_c_absent_t : aget c (tensors s) = None.
  Proof.
    destruct (aget c (tensors s)) as [tc|] eqn:E; [|reflexivity].
    assert (H : amem c (nodes s) = true) by (apply (wf_tn s W); apply amem_aget; eauto).
    apply amem_aget in H. destruct H as [v Hv]. congruence.
  Qed.

  (* -- logical axes -- *)
  Lemma fa_len_t : length (axes t) = nv + lo + length rw.
  Proof. rewrite Hax, !app_length. ulia. Qed.

  Lemma fa_lax_cur : lax s cur nd = V ++ Oq ++ rw.
  Proof. unfold lax, laxes. rewrite fa_tens_cur, Hperm, permute_seq. exact Hax. Qed.

  Lemma fa_laxes_P : laxes ndP Q = V ++ b :: Oq.
  Proof.
    unfold laxes. cbn [perm nd_parent]. rewrite ib_permute_app. unfold permute at 2. cbn [map].
    rewrite HQ. f_equal; [|f_equal].
    - rewrite permute_seq_firstn by (rewrite !app_length; ulia).
      rewrite <- app_assoc, <- HV. apply firstn_app_len.
    - rewrite <- HV. replace (length V + lo) with (length (V ++ Oq)) by (rewrite app_length; reflexivity). apply nth_middle.
    - unfold permute. rewrite map_nth_seq by (rewrite !app_length; cbn; ulia).
      rewrite <- !app_assoc, <- HV, skipn_app_len. apply firstn_app_len.
  Qed.

  Lemma fa_laxes_C : laxes ndC R = b :: rw.
  Proof. unfold laxes. cbn [perm nd_child]. rewrite permute_seq. exact HR. Qed.

  Lemma fa_lax_P : lax s' cur ndP = V ++ b :: Oq.
  Proof. unfold lax. rewrite fa_tens_P. apply fa_laxes_P. Qed.

  Lemma fa_lax_C : lax s' c ndC = b :: rw.
  Proof. unfold lax. rewrite fa_tens_C. apply fa_laxes_C. Qed.

  Lemma fa_nvirt_P : nvirt ndP = S nv.
  Proof. unfold nvirt, nparents. cbn [parent children nd_parent]. rewrite app_length. cbn. lia. Qed.

  Lemma fa_np_le : np <= length V.
  Proof. rewrite HV. unfold nvirt. lia. Qed.

  Lemma fa_own_cur : own_of nd t = firstn np V ++ Oq ++ rw.
  Proof.
    pose proof fa_lax_cur as L. unfold lax in L. rewrite fa_tens_cur in L. unfold own_of. rewrite L.
    rewrite (ib_firstn_app_le _ V _ fa_np_le), <- HV, skipn_app_len. reflexivity.
  Qed.

  Lemma fa_own_P : own_of ndP Q = firstn np V ++ Oq.
  Proof.
    unfold own_of. rewrite fa_laxes_P, fa_nvirt_P.
    replace (nparents ndP) with np by reflexivity.
    rewrite (ib_firstn_app_le _ V _ fa_np_le). f_equal. apply ib_skipn_app_len_S. exact HV.
  Qed.

  Lemma fa_open_P : open_of ndP Q = Oq.
  Proof. unfold open_of. rewrite fa_laxes_P, fa_nvirt_P. apply ib_skipn_app_len_S. exact HV. Qed.

  Lemma fa_own_C : own_of ndC R = b :: rw.
  Proof. unfold own_of. rewrite fa_laxes_C. reflexivity. Qed.

  Lemma fa_open_C : open_of ndC R = rw.
  Proof. unfold open_of. rewrite fa_laxes_C. reflexivity. Qed.

  Lemma fa_own_nodup : NoDup (firstn np V ++ Oq ++ rw).
  Proof. rewrite <- fa_own_cur, <- fa_tens_cur. apply (wf_own1 s W cur nd En). Qed.

  Lemma fa_b_notin_t : ~ In b (axes t).
  Proof. apply (Hb2 cur t Et). Qed.

  Lemma fa_C_nodup : NoDup (b :: rw).
  Proof.
    constructor.
    - intros H. apply fa_b_notin_t. rewrite Hax. apply in_or_app. right. apply in_or_app. right. exact H.
    - pose proof fa_own_nodup as H. rewrite app_assoc in H. apply NoDup_app_iff in H. tauto.
  Qed.

  (* -- every old node has a counterpart with the same parent, at least the same children and the same
        wires on its old neighbour legs -- *)
  Lemma fa_old_to_new q qn : aget q (nodes s) = Some qn ->
    exists qn', aget q (nodes s') = Some qn' /\ parent qn' = parent qn /\ incl (children qn) (children qn') /\
      (forall x i, neighbour_index qn x = Some i ->
                   neighbour_index qn' x = Some i /\ nth i (lax s' q qn') 0 = nth i (lax s q qn) 0) /\
      (parent qn <> None -> nth 0 (lax s' q qn') 0 = nth 0 (lax s q qn) 0).
  Proof.
    intros E. pose proof (fa_old_ne_c _ _ E) as Hc. rewrite fa_nodes.
    destruct (Nat.eqb_spec q c) as [Hqc|_]; [contradiction|].
    destruct (Nat.eqb_spec q cur) as [->|Hp].
    - rewrite En in E. injection E as <-. exists ndP. rewrite fa_lax_P, fa_lax_cur.
      split; [reflexivity|]. split; [reflexivity|].
      split; [cbn [children nd_parent]; apply incl_appl, incl_refl|]. split.
      + intros x i Hi. split.
        * apply (ib_neighbour_index_snoc_old nd ndP c); [reflexivity|reflexivity|exact Hi].
        * pose proof (ib_neighbour_index_lt _ _ _ Hi). rewrite !app_nth1 by ulia. reflexivity.
      + intros Hpar. assert (0 < nv) by (unfold nvirt, nparents; destruct (parent nd); [lia|congruence]).
        rewrite !app_nth1 by ulia. reflexivity.
    - exists qn. split; [exact E|]. split; [reflexivity|]. split; [apply incl_refl|].
      unfold lax. rewrite (fa_tens_other q Hp Hc). split; auto.
  Qed.

  Lemma fa_f_nd : NoDup (akeys (nodes s')).
  Proof. unfold attached. cbn [nodes]. apply NoDup_akeys_aset, NoDup_akeys_aset, NoDup_akeys_aset. apply (wf_nd s W). Qed.

  Lemma fa_f_tnd : NoDup (akeys (tensors s')).
  Proof. unfold attached. cbn [tensors]. apply NoDup_akeys_aset, NoDup_akeys_aset. apply (wf_tnd s W). Qed.

  Lemma fa_amem_t k : amem k (tensors s') = Nat.eqb k c || Nat.eqb k cur || amem k (tensors s).
  Proof.
    unfold amem, attached. cbn [tensors]. rewrite !aget_aset. destruct (Nat.eqb k c); [reflexivity|].
    destruct (Nat.eqb k cur); reflexivity.
  Qed.

  Lemma fa_f_tn k : amem k (tensors s') = true -> amem k (nodes s') = true.
  Proof.
    intros H. apply amem_aget. rewrite fa_nodes. destruct (Nat.eqb k cur) eqn:E1; [eauto|].
    destruct (Nat.eqb k c) eqn:E2; [eauto|]. rewrite fa_amem_t, E1, E2 in H. cbn in H.
    apply amem_aget. apply (wf_tn s W). exact H.
  Qed.

  Lemma fa_f_root : exists r rn, root s' = Some r /\ aget r (nodes s') = Some rn /\ parent rn = None /\
    forall k n, aget k (nodes s') = Some n -> parent n = None -> k = r.
  Proof.
    destruct (wf_root s W) as (r & rn & Hr & Er & Hpr & Huniq).
    destruct (fa_old_to_new r rn Er) as (rn' & E1 & E2 & _). exists r, rn'.
    split; [exact Hr|]. split; [exact E1|]. split; [congruence|].
    intros k n E Hpar. destruct (fa_node_cases k n E) as [[-> ->]|[[-> ->]|(Hp & Hc & E0)]].
    - apply (Huniq cur nd En). exact Hpar.
    - discriminate.
    - apply (Huniq k n E0 Hpar).
  Qed.

  Lemma fa_shape_old k nk : aget k (nodes s) = Some nk -> shape nk = map (wdim s') (axes (tens s k)).
  Proof. intros E. apply (ni_shape _ _ _ (wf_node s W k nk E)). Qed.

  Lemma fa_c_notin_children : ~ In c (children nd).
  Proof.
    intros Hin. destruct (ni_ch _ _ _ (wf_node s W cur nd En) c Hin) as (xn & Ex & _). congruence.
  Qed.

  Lemma fa_node_P : node_inv s' cur ndP.
  Proof.
    pose proof (wf_node s W cur nd En) as Hn.
    constructor.
    - rewrite fa_amem_t, Nat.eqb_refl, orb_true_r. reflexivity.
    - cbn [perm shape nd_parent]. rewrite map_length, HQ, !app_length. cbn [length].
      replace (length V + lo + 1) with (nv + (lo + 1)) by ulia. rewrite seq_app, seq_app. cbn [seq].
      apply Permutation_app_head. replace (nv + lo) with (nv + lo + 0) at 1 by lia.
      rewrite Nat.add_0_r. apply Permutation_cons_append.
    - rewrite fa_tens_P. reflexivity.
    - rewrite fa_nvirt_P. unfold nlegs. cbn [perm nd_parent]. rewrite app_length. cbn [length]. rewrite !seq_length. lia.
    - cbn [children nd_parent]. apply NoDup_app_iff. split; [apply (ni_chnd _ _ _ Hn)|]. split.
      + constructor; [intros []|constructor].
      + intros x Hx [<-|[]]. apply fa_c_notin_children. exact Hx.
    - intros x Hx. cbn [children nd_parent] in Hx. apply in_app_or in Hx. destruct Hx as [Hx|[<-|[]]].
      + destruct (ni_ch _ _ _ Hn x Hx) as (xn & Ex & Hxp).
        destruct (fa_old_to_new x xn Ex) as (xn' & E1 & E2 & _). exists xn'. split; [exact E1|congruence].
      + exists ndC. split; [|reflexivity]. rewrite fa_nodes.
        destruct (Nat.eqb_spec c cur) as [E|_]; [destruct (fa_c_ne E)|]. rewrite Nat.eqb_refl. reflexivity.
    - intros q Hq. cbn [parent nd_parent] in Hq.
      destruct (ni_par _ _ _ Hn q Hq) as (qn & i & Eq & Hin & Hi & Hw).
      destruct (fa_old_to_new q qn Eq) as (qn' & E1 & E2 & E3 & E4 & _). destruct (E4 cur i Hi) as [E5 E6].
      exists qn', i. split; [exact E1|]. split; [apply E3; exact Hin|]. split; [exact E5|].
      rewrite E6, <- Hw, fa_lax_P, fa_lax_cur.
      assert (0 < nv) by (unfold nvirt, nparents; rewrite Hq; lia).
      rewrite !app_nth1 by ulia. reflexivity.
  Qed.

  Lemma fa_node_C : node_inv s' c ndC.
  Proof.
    pose proof (wf_node s W cur nd En) as Hn.
    constructor.
    - rewrite fa_amem_t, Nat.eqb_refl. reflexivity.
    - cbn [perm shape nd_child]. rewrite map_length. apply Permutation_refl.
    - rewrite fa_tens_C. reflexivity.
    - unfold nvirt, nparents, nlegs. cbn [parent children perm nd_child length]. rewrite seq_length, HR. cbn. lia.
    - constructor.
    - intros x [].
    - intros q Hq. cbn [parent nd_child] in Hq. injection Hq as <-. exists ndP, nv.
      split; [rewrite fa_nodes, Nat.eqb_refl; reflexivity|].
      split; [cbn [children nd_parent]; apply in_or_app; right; left; reflexivity|]. split.
      + apply (ib_neighbour_index_snoc_new nd ndP c); [reflexivity|reflexivity| |apply fa_c_notin_children].
        intros Hq. destruct (ni_par _ _ _ Hn c Hq) as (qn & i & Eq & _). congruence.
      + rewrite fa_lax_C, fa_lax_P, <- HV, nth_middle. reflexivity.
  Qed.

  Lemma fa_node_other k nk : k <> cur -> k <> c -> aget k (nodes s) = Some nk -> node_inv s' k nk.
  Proof.
    intros Hp Hc E. pose proof (wf_node s W k nk E) as Hn.
    pose proof (fa_tens_other k Hp Hc) as Ht.
    constructor.
    - rewrite fa_amem_t. apply orb_true_iff. right. apply (ni_t _ _ _ Hn).
    - apply (ni_perm _ _ _ Hn).
    - rewrite Ht. apply fa_shape_old. exact E.
    - apply (ni_virt _ _ _ Hn).
    - apply (ni_chnd _ _ _ Hn).
    - intros x Hx. destruct (ni_ch _ _ _ Hn x Hx) as (xn & Ex & Hxp).
      destruct (fa_old_to_new x xn Ex) as (xn' & E1 & E2 & _). exists xn'. split; [exact E1|congruence].
    - intros q Hq. destruct (ni_par _ _ _ Hn q Hq) as (qn & i & Eq & Hin & Hi & Hw).
      destruct (fa_old_to_new q qn Eq) as (qn' & E1 & E2 & E3 & E4 & _). destruct (E4 k i Hi) as [E5 E6].
      exists qn', i. split; [exact E1|]. split; [apply E3; exact Hin|]. split; [exact E5|].
      rewrite E6, <- Hw. unfold lax. rewrite Ht. reflexivity.
  Qed.

  Lemma fa_f_node k n : aget k (nodes s') = Some n -> node_inv s' k n.
  Proof.
    intros E. destruct (fa_node_cases k n E) as [[-> ->]|[[-> ->]|(Hp & Hc & E0)]].
    - apply fa_node_P.
    - apply fa_node_C.
    - apply fa_node_other; assumption.
  Qed.

  (* owned wires: the child owns the bond and the split-off legs; every other node owns a duplicate-free
     subset of what it owned before, without the split-off legs *)
  Lemma fa_own k nk' : aget k (nodes s') = Some nk' ->
    (k = c /\ own_of nk' (tens s' k) = b :: rw) \/
    (k <> c /\ NoDup (own_of nk' (tens s' k)) /\ (forall w, In w (own_of nk' (tens s' k)) -> ~ In w (b :: rw)) /\
     exists nk, aget k (nodes s) = Some nk /\ incl (own_of nk' (tens s' k)) (own_of nk (tens s k))).
  Proof.
    intros E. destruct (fa_node_cases k nk' E) as [[-> ->]|[[-> ->]|(Hp & Hc & E0)]].
    - right. split; [intros H; symmetry in H; exact (fa_c_ne H)|]. rewrite fa_tens_P, fa_own_P.
      pose proof fa_own_nodup as Hnd. rewrite app_assoc in Hnd. apply NoDup_app_iff in Hnd. destruct Hnd as (N1 & N2 & N3).
      split; [exact N1|]. split.
      + intros w Hw [<-|Hin]; [|exact (N3 w Hw Hin)].
        apply fa_b_notin_t. rewrite Hax. apply in_app_or in Hw. destruct Hw as [Hw|Hw].
        * apply in_or_app. left. apply (firstn_In _ _ _ _ Hw) || (rewrite <- (firstn_skipn np V); apply in_or_app; left; exact Hw).
        * apply in_or_app. right. apply in_or_app. left. exact Hw.
      + exists nd. split; [exact En|]. rewrite fa_tens_cur, fa_own_cur. intros w Hw.
        rewrite app_assoc. apply in_or_app. left. exact Hw.
    - left. split; [reflexivity|]. rewrite fa_tens_C. apply fa_own_C.
    - right. split; [exact Hc|]. rewrite (fa_tens_other k Hp Hc).
      split; [apply (wf_own1 s W k nk' E0)|]. split.
      + intros w Hw [<-|Hin].
        * pose proof (own_of_incl _ _ _ Hw) as Hl. apply (wf_lax_incl s k nk' W E0) in Hl.
          apply (Hb2 k (tens s k) (wf_tens s k nk' W E0) Hl).
        * apply Hp. apply (wf_own2 s W k nk' cur nd w E0 En Hw). rewrite fa_tens_cur, fa_own_cur.
          apply in_or_app. right. apply in_or_app. right. exact Hin.
      + exists nk'. split; [exact E0|apply incl_refl].
  Qed.

  Lemma fa_f_own1 k n : aget k (nodes s') = Some n -> NoDup (own_of n (tens s' k)).
  Proof.
    intros E. destruct (fa_own k n E) as [[_ ->]|(_ & H & _)]; [apply fa_C_nodup|exact H].
  Qed.

  Lemma fa_f_own2 k1 n1 k2 n2 w : aget k1 (nodes s') = Some n1 -> aget k2 (nodes s') = Some n2 ->
    In w (own_of n1 (tens s' k1)) -> In w (own_of n2 (tens s' k2)) -> k1 = k2.
  Proof.
    intros E1 E2 H1 H2.
    destruct (fa_own k1 n1 E1) as [[-> O1]|(Hc1 & _ & D1 & m1 & G1 & I1)];
    destruct (fa_own k2 n2 E2) as [[-> O2]|(Hc2 & _ & D2 & m2 & G2 & I2)].
    - reflexivity.
    - exfalso. rewrite O1 in H1. apply (D2 w H2 H1).
    - exfalso. rewrite O2 in H2. apply (D1 w H1 H2).
    - apply (wf_own2 s W k1 m1 k2 m2 w G1 G2); [apply I1; exact H1|apply I2; exact H2].
  Qed.

  Lemma fa_f_wires k tk w : aget k (tensors s') = Some tk -> In w (axes tk) -> w < next_wire s'.
  Proof.
    unfold attached. cbn [tensors next_wire]. rewrite !aget_aset.
    assert (Hin : forall x, In x (axes t) -> x < next_wire s) by (intros x Hx; apply (wf_wires s W cur t x Et Hx)).
    destruct (Nat.eqb k c).
    - intros [= <-]. rewrite HR. intros [<-|Hw]; [exact Hb1|]. apply Hin. rewrite Hax.
      apply in_or_app. right. apply in_or_app. right. exact Hw.
    - destruct (Nat.eqb k cur).
      + intros [= <-]. rewrite HQ. intros Hw. apply in_app_or in Hw. destruct Hw as [Hw|[<-|[]]]; [|exact Hb1].
        apply Hin. rewrite Hax, app_assoc. apply in_or_app. left. exact Hw.
      + intros E Hw. apply (wf_wires s W k tk w E Hw).
  Qed.

  Lemma fa_f_acyc : exists depth : id -> nat,
    forall k kn q, aget k (nodes s') = Some kn -> parent kn = Some q -> depth q < depth k.
  Proof.
    destruct (wf_acyc s W) as [d Hd]. exists (fun k => if Nat.eqb k c then S (d cur) else d k).
    assert (Hpc : Nat.eqb cur c = false) by (apply Nat.eqb_neq; intros E; symmetry in E; exact (fa_c_ne E)).
    assert (Hpar : forall k kn q, aget k (nodes s) = Some kn -> parent kn = Some q -> q <> c).
    { intros k kn q E Hq. destruct (ni_par _ _ _ (wf_node s W k kn E) q Hq) as (qn & i & Eq & _). apply (fa_old_ne_c q qn Eq). }
    intros k kn q E Hq. destruct (fa_node_cases k kn E) as [[-> ->]|[[-> ->]|(Hp & Hc & E0)]].
    - cbn [parent nd_parent] in Hq. pose proof (Hpar cur nd q En Hq) as Hqc.
      apply Nat.eqb_neq in Hqc. rewrite Hqc, Hpc. apply (Hd cur nd q En Hq).
    - cbn [parent nd_child] in Hq. injection Hq as <-. rewrite Nat.eqb_refl, Hpc. lia.
    - pose proof (Hpar k kn q E0 Hq) as Hqc. apply Nat.eqb_neq in Hqc. apply Nat.eqb_neq in Hc.
      rewrite Hqc, Hc. apply (Hd k kn q E0 Hq).
  Qed.

  Theorem fa_wf : wf s'.
  Proof.
    constructor.
    - exact fa_f_nd.
    - exact fa_f_tnd.
    - exact fa_f_tn.
    - exact fa_f_root.
    - exact fa_f_node.
    - exact fa_f_own1.
    - exact fa_f_own2.
    - exact fa_f_wires.
    - apply (wf_dims s W).
    - exact fa_f_acyc.
  Qed.
End FA.

(* ---- one whole step: factor, link, attach ---------------------------------------------------------------- *)
(* the hypotheses under which the step is analysed: the current node was just accessed (identity leg
   permutation, raw tensor t), the new identifier is unused, the r trailing legs are open legs *)
Record step_pre (s : store) (cur c : id) (nd : node) (t : sarr) (r : nat) : Prop := {
  sp_wf : wf s;
  sp_node : aget cur (nodes s) = Some nd;
  sp_tensor : aget cur (tensors s) = Some t;
  sp_perm : perm nd = seq 0 (length (axes t));
  sp_fresh : aget c (nodes s) = None;
  sp_legs : nvirt nd + r <= length (axes t)
}.

Definition step_result (s : store) (cur c : id) (nd : node) (t : sarr) (r : nat) (dm : dmode) (tb : nat) : store :=
  attached (factored s t r dm tb) cur c nd (q_of s t r) (r_of s t r) (length (axes t) - r - nvirt nd).

Section Step.
  Variables (s : store) (cur c : id) (nd : node) (t : sarr) (r : nat) (dm : dmode) (tb : nat).
  Hypothesis P : step_pre s cur c nd t r.

  Local Notation n := (length (axes t)).
  Local Notation nv := (nvirt nd).
  Local Notation V := (firstn nv (axes t)).
  Local Notation Oq := (skipn nv (firstn (n - r) (axes t))).
  Local Notation rw := (skipn (n - r) (axes t)).
  Local Notation b := (next_wire s).
  Local Notation sg := (factored s t r dm tb).
  Local Notation s3 := (step_result s cur c nd t r dm tb).

  Lemma st_VO : firstn (n - r) (axes t) = V ++ Oq.
  Proof.
    pose proof (sp_legs _ _ _ _ _ _ P) as L.
    rewrite <- (firstn_skipn nv (firstn (n - r) (axes t))) at 1. f_equal.
    rewrite firstn_firstn. f_equal. ulia.
  Qed.

  Lemma st_axes : axes t = V ++ Oq ++ rw.
  Proof. rewrite app_assoc, <- st_VO. symmetry. apply firstn_skipn. Qed.

  Lemma st_len_V : length V = nv.
  Proof. pose proof (sp_legs _ _ _ _ _ _ P). apply firstn_length_le. ulia. Qed.

  Lemma st_len_Oq : length Oq = n - r - nv.
  Proof. pose proof (sp_legs _ _ _ _ _ _ P). rewrite skipn_length, firstn_length_le by ulia. reflexivity. Qed.

  Lemma st_len_rw : length rw = r.
  Proof. pose proof (sp_legs _ _ _ _ _ _ P). rewrite skipn_length. ulia. Qed.

  Theorem step_accepts : factor_attach s cur c t r dm tb = Some s3.
  Proof.
    pose proof (sp_legs _ _ _ _ _ _ P) as L.
    unfold factor_attach. rewrite (factor_some s t r dm tb) by ulia.
    destruct (link_attach_some sg cur c nd (q_of s t r) (r_of s t r) (V ++ Oq) b rw) as (s2 & E1 & E2).
    - apply (sp_node _ _ _ _ _ _ P).
    - apply (sp_fresh _ _ _ _ _ _ P).
    - unfold q_of; cbn [axes]; exact (f_equal (fun l => l ++ [next_wire s]) st_VO).
    - rewrite app_length, st_len_V. lia.
    - reflexivity.
    - rewrite E1, E2. unfold step_result. do 2 f_equal.
      rewrite app_length, st_len_V, st_len_Oq. lia.
  Qed.

  Theorem step_wf : wf s3.
  Proof.
    pose proof (sp_wf _ _ _ _ _ _ P) as W. unfold step_result. rewrite <- st_len_Oq.
    apply (fa_wf sg cur c nd t (q_of s t r) (r_of s t r) V Oq rw b).
    - apply factored_wf. exact W.
    - apply (sp_node _ _ _ _ _ _ P).
    - apply (sp_tensor _ _ _ _ _ _ P).
    - apply (sp_perm _ _ _ _ _ _ P).
    - apply st_axes.
    - apply st_len_V.
    - apply (sp_fresh _ _ _ _ _ _ P).
    - cbn. lia.
    - intros k tk E Hin. pose proof (wf_wires s W k tk b E Hin). lia.
    - unfold q_of; cbn [axes]; exact (f_equal (fun l => l ++ [next_wire s]) st_VO).
    - reflexivity.
  Qed.

  (* -- the local effect -- *)
  Lemma step_c_ne : c <> cur.
  Proof. intros ->. pose proof (sp_node _ _ _ _ _ _ P). pose proof (sp_fresh _ _ _ _ _ _ P). congruence. Qed.

  Lemma step_other k : k <> cur -> k <> c ->
    aget k (nodes s3) = aget k (nodes s) /\ aget k (tensors s3) = aget k (tensors s).
  Proof.
    intros H1 H2. unfold step_result, attached. cbn [nodes tensors factored].
    rewrite !aget_aset. apply Nat.eqb_neq in H1, H2. rewrite H1, H2. split; reflexivity.
  Qed.

  Lemma step_keys : akeys (nodes s3) = akeys (nodes s) ++ [c].
  Proof.
    pose proof (sp_node _ _ _ _ _ _ P) as En. pose proof (sp_fresh _ _ _ _ _ _ P) as Ec.
    unfold step_result, attached. cbn [nodes factored].
    rewrite !akeys_aset. unfold amem. rewrite !aget_aset, Nat.eqb_refl.
    destruct (Nat.eqb_spec c cur) as [E|_]; [destruct (step_c_ne E)|].
    rewrite En, Ec. destruct (Nat.eqb cur c); reflexivity.
  Qed.

  Lemma step_root : root s3 = root s.
  Proof. reflexivity. Qed.

  Lemma step_node_cur : aget cur (nodes s3) = Some (nd_parent sg nd (q_of s t r) c (n - r - nv)).
  Proof. unfold step_result, attached. cbn [nodes]. apply aget_aset_same. Qed.

  Lemma step_node_c : aget c (nodes s3) = Some (nd_child sg cur (r_of s t r)).
  Proof.
    unfold step_result, attached. cbn [nodes]. rewrite aget_aset_other by exact step_c_ne. apply aget_aset_same.
  Qed.

  Lemma step_tens_cur : aget cur (tensors s3) = Some (q_of s t r).
  Proof.
    unfold step_result, attached. cbn [tensors].
    rewrite aget_aset_other by (intros E; apply step_c_ne; symmetry; exact E). apply aget_aset_same.
  Qed.

  Lemma step_tens_c : aget c (tensors s3) = Some (r_of s t r).
  Proof. unfold step_result, attached. cbn [tensors]. apply aget_aset_same. Qed.

  Lemma step_open_cur : open_of (nd_parent sg nd (q_of s t r) c (n - r - nv)) (q_of s t r) = Oq.
  Proof.
    rewrite <- st_len_Oq.
    apply (fa_open_P sg c nd (q_of s t r) V Oq b).
    - apply st_len_V.
    - cbn. lia.
    - unfold q_of; cbn [axes]; exact (f_equal (fun l => l ++ [next_wire s]) st_VO).
  Qed.

  Lemma step_open_c : open_of (nd_child sg cur (r_of s t r)) (r_of s t r) = rw.
  Proof. apply (fa_open_C sg cur (r_of s t r) rw b). reflexivity. Qed.
End Step.

(* the step in one statement *)
Theorem factor_attach_spec s cur c nd t r dm tb : step_pre s cur c nd t r ->
  exists s3, factor_attach s cur c t r dm tb = Some s3 /\ wf s3
    /\ akeys (nodes s3) = akeys (nodes s) ++ [c] /\ root s3 = root s
    /\ (forall k, k <> cur -> k <> c -> aget k (nodes s3) = aget k (nodes s) /\ aget k (tensors s3) = aget k (tensors s))
    /\ (exists nP, aget cur (nodes s3) = Some nP /\ parent nP = parent nd /\ children nP = children nd ++ [c]
          /\ open_of nP (tens s3 cur) = skipn (nvirt nd) (firstn (length (axes t) - r) (axes t)))
    /\ (exists nC, aget c (nodes s3) = Some nC /\ parent nC = Some cur /\ children nC = []
          /\ open_of nC (tens s3 c) = skipn (length (axes t) - r) (axes t) /\ perm nC = seq 0 (nlegs nC)).
Proof.
  intros P. exists (step_result s cur c nd t r dm tb).
  split; [apply (step_accepts s cur c nd t r dm tb P)|]. split; [apply (step_wf s cur c nd t r dm tb P)|].
  split; [apply (step_keys s cur c nd t r dm tb P)|]. split; [reflexivity|].
  split; [intros k H1 H2; apply (step_other s cur c nd t r dm tb k H1 H2)|]. split.
  - eexists. split; [apply (step_node_cur s cur c nd t r dm tb)|]. split; [reflexivity|]. split; [reflexivity|].
    unfold tens. rewrite (step_tens_cur s cur c nd t r dm tb P). apply (step_open_cur s cur c nd t r dm tb P).
  - eexists. split; [apply (step_node_c s cur c nd t r dm tb P)|]. split; [reflexivity|]. split; [reflexivity|]. split.
    + unfold tens. rewrite (step_tens_c s cur c nd t r dm tb). apply (step_open_c s cur t r dm tb).
    + unfold nlegs. cbn [perm nd_child]. rewrite seq_length. reflexivity.
Qed.
