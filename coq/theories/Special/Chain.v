(* Model of pytreenet/special_ttn/{mps,star,fttn,binary,special_nodes}.py and of the structural part
   of TTNO.from_tensor (pytreenet/ttno/ttno_class.py), as programs over the Layer-W store model
   (TTN/Store.v): every constructor is the sequence of add_root / add_child_to_parent / replace_node
   calls the Python code performs, in the option monad (a Python exception aborts the constructor).
   Identifiers are natural numbers; each program also returns the *label* of every identifier it
   creates (site i, centre, arm (c, j), main i, sub (i, j), virtual (level, position)); the harness
   renders a label with the documented format string ("site{i}", "central", "{prefix}{c}_{j}", ...).
   Definitions only (executable); proofs are in ChainProofs.v. *)
From Coq Require Import List Arith Bool ZArith NArith.
From PTN Require Import TTN.Store Tree.RTree.
Import ListNotations.

Inductive lbl :=
| LSite (i : nat)            (* node_prefix + str(i) / phys_prefix + str(i) *)
| LCenter                    (* central_node_identifier *)
| LArm (c j : nat)           (* f"{non_center_prefix}{c}_{j}" *)
| LMain (i : nat)            (* main_identifier_prefix + str(i) *)
| LSub (i j : nat)           (* subchain_identifier_prefix + str(i) + "_" + str(j) *)
| LVirt (lev pos : nat).     (* virtual_prefix + str(level) + "_" + str(position) *)

Definition bind {A B} (o : option A) (f : A -> option B) : option B :=
  match o with Some a => f a | None => None end.

(* for ... in xs: body  (an exception leaves the loop and the constructor) *)
Definition forM {A S} (xs : list A) (s0 : option S) (body : S -> A -> option S) : option S :=
  fold_left (fun acc x => bind acc (fun s => body s x)) xs s0.

Definition root_or0 (s : store) : id := match root s with Some r => r | None => 0 end.

(* ================================================================================================ *)
(* MatrixProductTree (mps.py)                                                                       *)
(* ================================================================================================ *)
(* site i has identifier i *)
Record mpt := { mst : store; lefts : list id; rights : list id }.

(* attach_node_right_end: parent = rightmost node (the root when there is none), parent leg 1,
   child leg 0 *)
Definition attach_right (m : mpt) (c : id) (shp : list nat) : option mpt :=
  let p := match rights m with [] => root_or0 (mst m) | _ => last (rights m) 0 end in
  bind (add_child (mst m) c shp 0 p 1)
       (fun s => Some {| mst := s; lefts := lefts m; rights := rights m ++ [c] |}).

(* attach_node_left_end: parent = leftmost node with parent leg 1, or the root with parent leg
   len(root.children); child leg = int(not final) *)
Definition attach_left (m : mpt) (c : id) (shp : list nat) (final : bool) : option mpt :=
  let '(p, pleg) :=
    match lefts m with
    | [] => let r := root_or0 (mst m) in
            (r, match aget r (nodes (mst m)) with Some n => length (children n) | None => 0 end)
    | x :: _ => (x, 1)
    end in
  bind (add_child (mst m) c shp (if final then 0 else 1) p pleg)
       (fun s => Some {| mst := s; lefts := c :: lefts m; rights := rights m |}).

(* from_tensor_list_leftmost_node_is_root *)
Definition mps_leftmost (shapes : list (list nat)) : option mpt :=
  bind (add_root empty_store 0 (nth 0 shapes [])) (fun s0 =>
  bind (if 1 <? length shapes
        then bind (add_child s0 1 (nth 1 shapes []) 0 0 0)
                  (fun s1 => Some {| mst := s1; lefts := []; rights := [1] |})
        else Some {| mst := s0; lefts := []; rights := [] |}) (fun m1 =>
  forM (seq 2 (length shapes - 2)) (Some m1) (fun m i => attach_right m i (nth i shapes [])))).

(* from_tensor_list(tensor_list, root_site) for root_site >= 0 *)
Definition mps_from_list (shapes : list (list nat)) (r : nat) : option mpt :=
  if length shapes <=? r then None else
  if r =? 0 then mps_leftmost shapes else
  bind (add_root empty_store r (nth r shapes [])) (fun s0 =>
  let ml := forM (seq 0 r) (Some {| mst := s0; lefts := []; rights := [] |})
                 (fun m i => let site := r - 1 - i in attach_left m site (nth site shapes []) (site =? 0)) in
  forM (seq (S r) (length shapes - S r)) ml (fun m site => attach_right m site (nth site shapes []))).

(* non_negativity_check(root_site) *)
Definition mps_from_list_z (shapes : list (list nat)) (r : Z) : option mpt :=
  if (r <? 0)%Z then None else mps_from_list shapes (Z.to_nat r).

(* the documented input format: tensor i has legs [left, right, open...], the two end tensors
   have a single bond leg *)
Fixpoint mps_shapes_mid (bl : nat) (bonds : list nat) (opens : list (list nat)) : list (list nat) :=
  match bonds, opens with
  | b :: bonds', o :: opens' => (bl :: b :: o) :: mps_shapes_mid b bonds' opens'
  | [], o :: _ => [bl :: o]
  | _, [] => []
  end.
Definition mps_shapes (bonds : list nat) (opens : list (list nat)) : list (list nat) :=
  match bonds, opens with
  | b :: bonds', o :: opens' => (b :: o) :: mps_shapes_mid b bonds' opens'
  | [], o :: _ => [o]
  | _, [] => []
  end.

(* check_product_state_parameters *)
Definition check_ps (sv dim : Z) : bool := (0 <? dim)%Z && (sv <? dim)%Z && (0 <=? sv)%Z.

Fixpoint all_some_z (l : list Z) : option (list nat) :=
  match l with
  | [] => Some []
  | z :: t => if (z <? 1)%Z then None else option_map (cons (Z.to_nat z)) (all_some_z t)
  end.

(* MatrixProductState.constant_product_state: the tensor list has max(num_sites, 2) entries (the two
   end tensors are always created); np.pad rejects a bond dimension < 1.  Result: the shapes and,
   for every tensor, the multi-index of its single non-zero (= 1) entry *)
Definition mps_cps_tensors (sv dim nsites : Z) (bonds : option (list Z)) : option (list (list nat * list nat)) :=
  if negb (check_ps sv dim) then None else
  if (nsites <? 0)%Z then None else
  let d := Z.to_nat dim in
  let v := Z.to_nat sv in
  let nmid := Z.to_nat (nsites - 2) in
  match bonds with
  | None => Some (([1; d], [0; v]) :: repeat ([1; 1; d], [0; 0; v]) nmid ++ [([1; d], [0; v])])
  | Some bz =>
      if negb (Z.of_nat (length bz) =? nsites - 1)%Z then None else
      match all_some_z bz with
      | None => None                                           (* negative pad width *)
      | Some bd =>
          match bd with
          | [] => None                                         (* bond_dimensions[0]: IndexError *)
          | b0 :: _ =>
              Some (([b0; d], [0; v])
                    :: map (fun i => ([nth i bd 0; nth (S i) bd 0; d], [0; 0; v])) (seq 0 nmid)
                    ++ [([last bd 0; d], [0; v])])
          end
      end
  end.

Definition mps_cps (sv dim nsites : Z) (bonds : option (list Z)) (root_site : Z) : option (mpt * list (list nat)) :=
  bind (mps_cps_tensors sv dim nsites bonds) (fun ts =>
  bind (mps_from_list_z (map fst ts) root_site) (fun m => Some (m, map snd ts))).

(* ================================================================================================ *)
(* StarTreeTensorNetwork (star.py): centre = identifier 0, arm (c, j) = 1 + j * C + c  (c < C)       *)
(* ================================================================================================ *)
Record star := { sst : store; chains : list (list id); slabels : list (id * lbl) }.
Definition center_id : id := 0.
Definition arm_id (C c j : nat) : id := 1 + j * C + c.

Definition star_add_center (shp : list nat) : option star :=
  bind (add_root empty_store center_id shp)
       (fun s => Some {| sst := s; chains := []; slabels := [(center_id, LCenter)] |}).

(* add_chain_node(tensor, chain_index) with parent_leg = None (first open leg of the parent) *)
Definition star_add_chain_node (C : nat) (m : star) (shp : list nat) (ci : nat) : option star :=
  match aget center_id (nodes (sst m)) with
  | None => None
  | Some cn =>
      if nlegs cn <? ci then None else
      if length (chains m) <? ci then None else
      if ci =? length (chains m) then
        let c := arm_id C ci 0 in
        bind (add_child (sst m) c shp 0 center_id (nvirt cn))
             (fun s => Some {| sst := s; chains := chains m ++ [[c]]; slabels := slabels m ++ [(c, LArm ci 0)] |})
      else
        let ch := nth ci (chains m) [] in
        let p := last ch 0 in
        match aget p (nodes (sst m)) with
        | None => None
        | Some pn =>
            let c := arm_id C ci (length ch) in
            bind (add_child (sst m) c shp 0 p (nvirt pn))
                 (fun s => Some {| sst := s; chains := set_nth ci (ch ++ [c]) (chains m);
                                   slabels := slabels m ++ [(c, LArm ci (length ch))] |})
        end
  end.

(* a general construction: centre tensor, then add_chain_node calls (shape, chain index) *)
Definition star_build (center : list nat) (calls : list (list nat * nat)) : option star :=
  forM calls (star_add_center center) (fun m sc => star_add_chain_node (S (length calls)) m (fst sc) (snd sc)).

(* the chain tensors of StarTreeTensorState.constant_product_state.  bug = true is the code as
   found: local_state.reshape(1,2) / reshape((1,1,2)) whatever the dimension (numpy raises unless
   dimension = 2); bug = false is reshape(1,dimension) / reshape((1,1,dimension)) *)
Definition star_chain_shape (bug : bool) (d : nat) (is_last : bool) : option (list nat) :=
  if bug then (if d =? 2 then Some (if is_last then [1; 2] else [1; 1; 2]) else None)
  else Some (if is_last then [1; d] else [1; 1; d]).

Definition star_cps (bug : bool) (sv dim clen nch : Z) : option (star * list (id * list nat)) :=
  if negb (check_ps sv dim) then None else
  if (nch <? 0)%Z || (clen <? 0)%Z then None else
  let d := Z.to_nat dim in
  let v := Z.to_nat sv in
  let nc := Z.to_nat nch in
  let cl := Z.to_nat clen in
  let C := S nc in
  bind (star_add_center (repeat 1 nc ++ [d])) (fun m0 =>
  bind (forM (flat_map (fun i => map (fun j => (i, j)) (seq 0 cl)) (seq 0 nc)) (Some m0)
             (fun m ij => bind (star_chain_shape bug d (snd ij =? cl - 1))
                               (fun shp => star_add_chain_node C m shp (fst ij))))
       (fun m => Some (m, (center_id, repeat 0 nc ++ [v])
                          :: flat_map (fun i => map (fun j => (arm_id C i j, if j =? cl - 1 then [0; v] else [0; 0; v]))
                                                    (seq 0 cl)) (seq 0 nc)))).

(* ================================================================================================ *)
(* ForkTreeTensorNetwork (fttn.py): main i = i * W, sub (i, j) = i * W + 1 + j   (j + 1 < W)          *)
(* ================================================================================================ *)
Record fork := { fst_ : store; mainc : list id; subc : list (list id); flabels : list (id * lbl) }.
Definition main_id (W i : nat) : id := i * W.
Definition sub_id (W i j : nat) : id := i * W + 1 + j.
Definition empty_fork : fork := {| fst_ := empty_store; mainc := []; subc := []; flabels := [] |}.

(* add_main_chain_node(tensor) with parent_leg = None *)
Definition fork_add_main (W : nat) (m : fork) (shp : list nat) : option fork :=
  let ml := length (mainc m) in
  let c := main_id W ml in
  bind (if ml =? 0 then add_root (fst_ m) c shp
        else match aget (last (mainc m) 0) (nodes (fst_ m)) with
             | Some pn => add_child (fst_ m) c shp 0 (main_id W (ml - 1)) (nvirt pn)
             | None => None
             end)
       (fun s => Some {| fst_ := s; mainc := mainc m ++ [c]; subc := subc m ++ [[]];
                         flabels := flabels m ++ [(c, LMain ml)] |}).

(* add_sub_chain_node(tensor, subchain_index) with parent_leg = None *)
Definition fork_add_sub (W : nat) (m : fork) (shp : list nat) (idx : nat) : option fork :=
  if length (mainc m) <? idx then None else
  if length (subc m) <=? idx then None else            (* self.sub_chains[index]: IndexError *)
  let sc := nth idx (subc m) [] in
  let sl := length sc in
  let c := sub_id W idx sl in
  let p := if sl =? 0 then main_id W idx else sub_id W idx (sl - 1) in
  let pobj := if sl =? 0 then nth idx (mainc m) 0 else last sc 0 in
  match aget pobj (nodes (fst_ m)) with
  | None => None
  | Some pn =>
      bind (add_child (fst_ m) c shp 0 p (nvirt pn))
           (fun s => Some {| fst_ := s; mainc := mainc m; subc := set_nth idx (sc ++ [c]) (subc m);
                             flabels := flabels m ++ [(c, LSub idx sl)] |})
  end.

Inductive fcall := FMain (shp : list nat) | FSub (shp : list nat) (idx : nat).
Definition fork_build (calls : list fcall) : option fork :=
  forM calls (Some empty_fork)
       (fun m c => match c with
                   | FMain shp => fork_add_main (S (length calls)) m shp
                   | FSub shp idx => fork_add_sub (S (length calls)) m shp idx
                   end).

(* constant_ftps(local_state of dimension phys, width, height, bond_dim): the main chain has
   `height` nodes and every sub chain `width - 1` nodes *)
Definition ftps_calls (phys width height bd : nat) : list fcall :=
  map (fun i => FMain (if (i =? 0) || (i =? height - 1) then [bd; bd; phys] else [bd; bd; bd; phys])) (seq 0 height)
  ++ flat_map (fun i => map (fun j => FSub (if j =? width - 2 then [bd; phys] else [bd; bd; phys]) i)
                            (seq 0 (width - 1))) (seq 0 height).
Definition constant_ftps (phys : nat) (width height bd : Z) : option fork :=
  if (width <? 1)%Z || (height <? 1)%Z || (bd <? 1)%Z then None
  else fork_build (ftps_calls phys (Z.to_nat width) (Z.to_nat height) (Z.to_nat bd)).

(* ================================================================================================ *)
(* TreeTensorNetwork.replace_node (core/ttn.py), used by binary.py                                    *)
(* ================================================================================================ *)
Definition replace_node (s : store) (new old : id) (shp : list nat) : option store :=
  match aget old (nodes s), aget old (tensors s) with
  | Some on, Some ot =>
      (* for every neighbour: new_node.shape[index] (IndexError) == old_node.shape[index] (assert) *)
      if negb (forallb (fun i => (i <? length shp) && (nth i shp 0 =? nth i (node_shape on) 0)) (seq 0 (nvirt on)))
      then None else
      bind (replace_node_in_neighbours s new old true) (fun s1 =>
        let s2 := upd_tensors s1 (adel old) in
        let lw := permute 0 (perm on) (axes ot) in      (* wires of the old node in node order *)
        let '(s3, ws) := fresh_wires s2 shp in
        let ws' := firstn (nvirt on) lw ++ skipn (nvirt on) ws in
        let '(s4, a) := fresh_atom s3 ws' in
        let nn := {| parent := parent on; children := children on; perm := seq 0 (length shp); shape := shp |} in
        Some (upd_tensors (upd_nodes s4 (aset new nn)) (aset new {| axes := ws'; atoms := [a]; bnd := [] |})))
  | _, _ => None
  end.

(* ================================================================================================ *)
(* generate_binary_ttns (binary.py): virtual (level, pos) = 2^level - 1 + pos (heap index),          *)
(* physical site i = 2 * num_phys + i                                                               *)
(* ================================================================================================ *)
Record hn := { hid : id; hlev : nat; hpos : nat }.
Definition virt_id (lev pos : nat) : id := 2 ^ lev - 1 + pos.

(* add_all_nodes: `while len(phys_nodes) != num_phys: pop(0); ...` with the (dead) inner break *)
Fixpoint bin_loop (fuel : nat) (nphys bd : nat) (s : store) (q : list hn) (lab : list (id * lbl))
  : option (store * list hn * list (id * lbl)) :=
  if length q =? nphys then Some (s, q, lab) else
  match fuel with
  | O => None
  | S f =>
      match q with
      | [] => None                                                       (* pop from empty list *)
      | h :: q' =>
          if length q' =? nphys then Some (s, q', lab) else
          let lev := S (hlev h) in
          let lp := 2 * hpos h in
          let rp := 2 * hpos h + 1 in
          let legs := match root s with
                      | Some r => if Nat.eqb r (hid h) then (0, 1) else (1, 2)
                      | None => (1, 2)
                      end in
          let l := virt_id lev lp in
          let r := virt_id lev rp in
          bind (add_child s l [bd; bd; bd; 1] 0 (hid h) (fst legs)) (fun s1 =>
          bind (add_child s1 r [bd; bd; bd; 1] 0 (hid h) (snd legs)) (fun s2 =>
          bin_loop f nphys bd s2 (q' ++ [{| hid := l; hlev := lev; hpos := lp |}; {| hid := r; hlev := lev; hpos := rp |}])
                   (lab ++ [(l, LVirt lev lp); (r, LVirt lev rp)])))
      end
  end.

Definition site_id (nphys i : nat) : id := 2 * nphys + i.

Definition binary_ttns (nphys bd : Z) (phys_shape : list nat) : option (store * list (id * lbl)) :=
  if (nphys <? 1)%Z || (bd <? 1)%Z then None else
  let n := Z.to_nat nphys in
  let b := Z.to_nat bd in
  bind (add_root empty_store (virt_id 0 0) [b; b; 1]) (fun s0 =>
  bind (bin_loop n n b s0 [{| hid := virt_id 0 0; hlev := 0; hpos := 0 |}] [(virt_id 0 0, LVirt 0 0)]) (fun r =>
  let '(s1, q, lab) := r in
  bind (forM (combine (seq 0 (length q)) q) (Some s1)
             (fun s ih => replace_node s (site_id n (fst ih)) (hid (snd ih)) phys_shape))
       (fun s2 => Some (s2, lab ++ map (fun i => (site_id n i, LSite i)) (seq 0 (length q)))))).

(* ================================================================================================ *)
(* observations for the correspondence                                                              *)
(* ================================================================================================ *)
Definition lbl_code (l : lbl) : nat * nat * nat :=
  match l with
  | LSite i => (0, i, 0) | LCenter => (1, 0, 0) | LArm c j => (2, c, j)
  | LMain i => (3, i, 0) | LSub i j => (4, i, j) | LVirt a b => (5, a, b)
  end.
Definition obs_labels (l : list (id * lbl)) := map (fun kl => (fst kl, lbl_code (snd kl))) l.
Definition obs_store (s : store) := (map (obs_node s) (nodes s), map fst (tensors s),
                                     match root s with Some r => [r] | None => [] end,
                                     map (fun kt => (fst kt, map (wdim s) (axes (snd kt)))) (tensors s)).

(* ================================================================================================ *)
(* TTNO.from_tensor (ttno_class.py)                                                                 *)
(* ================================================================================================ *)
(* _get_qr_decomposition_shape(reference_tree, leg_dict, shape_tensor, current_id), literally: the
   accumulator is threaded through the children and every node *prepends* its legs *)
Fixpoint qr_acc (leg : nat -> list nat) (t : rtree) (acc : list nat) : list nat :=
  match t with
  | RNode i cs =>
      leg i ++ (fix go (l : list rtree) (a : list nat) : list nat :=
                  match l with [] => a | c :: l' => go l' (qr_acc leg c a) end) cs acc
  end.
(* from_tensor: leg_dict[node] = lg node (the output leg), the input leg is half + lg node *)
Definition ft_perm (lg : nat -> nat) (half : nat) (t : rtree) : list nat :=
  qr_acc (fun i => [lg i; half + lg i]) t [].

Definition prodN (l : list nat) : N := fold_right (fun d acc => (N.of_nat d * acc)%N) 1%N l.

(* _from_tensor_rec (QR REDUCED / SVD: bond = min(rows, cols)): records (id, parent, children,
   shape) in dictionary order; pb = the bond to the parent (empty at the root), opn = dimensions of
   the open legs of the tensor currently stored at the node *)
Fixpoint ft_nodes (t : rtree) (par : list id) (pb : list nat) (opn : list nat)
  : list (id * list id * list id * list nat) :=
  match t with
  | RNode i cs =>
      let '(sub, bonds, rest) :=
        (fix go (l : list rtree) (bonds : list nat) (rest : list nat)
           : list (id * list id * list id * list nat) * list nat * list nat :=
           match l with
           | [] => ([], bonds, rest)
           | c :: l' =>
               let k := length rest - 2 * size c in
               let rd := skipn k rest in
               let qo := firstn k rest in
               let b := N.to_nat (N.min (prodN (pb ++ bonds ++ qo)) (prodN rd)) in
               let nc := ft_nodes c [i] [b] rd in
               let '(sub', bonds', rest') := go l' (bonds ++ [b]) qo in
               (nc ++ sub', bonds', rest')
           end) cs [] opn in
      (i, par, map rid cs, pb ++ bonds ++ rest) :: sub
  end.

(* from_tensor(reference_tree, tensor of shape `shape`, leg_dict = lg): asserts an even number of
   legs and half = number of nodes *)
Definition from_tensor_nodes (t : rtree) (lg : nat -> nat) (shape : list nat) :=
  let half := length shape / 2 in
  if negb (Nat.even (length shape)) then None else
  if negb (half =? size t) then None else
  Some (ft_nodes t [] [] (map (fun a => nth a shape 0) (ft_perm lg half t))).

(* ================================================================================================ *)
(* what the product-state tensors contract to (value level, chain topology)                          *)
(* ================================================================================================ *)
Definition delta (a b : nat) : Z := if a =? b then 1%Z else 0%Z.
Definition zsum (d : nat) (f : nat -> Z) : Z := fold_right (fun k acc => (f k + acc)%Z) 0%Z (seq 0 d).
(* entries of the (zero-padded) tensors of MatrixProductState.constant_product_state: a single 1 at
   [0, 0, sv] (middle sites) resp. [0, sv] (the two ends), whatever the bond dimensions *)
Definition cps_mid (sv l r p : nat) : Z := (delta l 0 * delta r 0 * delta p sv)%Z.
Definition cps_end (sv b p : nat) : Z := (delta b 0 * delta p sv)%Z.
(* sum over all bond indices of the product of the entries, sites left to right; l = index of the
   bond entering from the left *)
Fixpoint chain_val (sv : nat) (bonds : list nat) (ps : list nat) (l : nat) : Z :=
  match bonds, ps with
  | d :: bonds', p :: ps' => zsum d (fun r => (cps_mid sv l r p * chain_val sv bonds' ps' r)%Z)
  | [], [p] => cps_end sv l p
  | _, _ => 0%Z
  end.
Definition mps_val (sv : nat) (bonds : list nat) (ps : list nat) : Z :=
  match bonds, ps with
  | d :: bonds', p :: ps' => zsum d (fun r => (cps_end sv r p * chain_val sv bonds' ps' r)%Z)
  | _, _ => 0%Z
  end.
