(* TTNO.from_tensor / _from_tensor_rec (pytreenet/ttno/ttno_class.py, lines 141-272) as an executable
   program over the Layer-W store model TTN/Store.v.  Definitions only; the proofs are in
   FromTensorProofs.v (one factor-and-attach step), FromTensorTree.v (the recursion over the reference
   tree) and FromTensorValue.v (the value of the network).

   What is literal:
   - from_tensor: the two asserts (even number of legs, half = number of nodes of the reference tree),
     new_leg_dict[node] = [leg_dict[node], half + leg_dict[node]], the axis list of
     _get_qr_decomposition_shape (Special/Chain.v: qr_acc / ft_perm: every node PREPENDS its two legs, the
     accumulator is threaded through the children, so the block of the first child comes last),
     np.transpose(tensor, axes) (numpy rejects a list that is not a permutation of range(ndim)),
     add_root with the transposed tensor.
   - _from_tensor_rec(current): return at a leaf of the reference tree; self.nodes[current];
     current_tensor = self.tensors[current] (TensorDict.__getitem__ = Store.access: the tensor is transposed
     by the node's lazy permutation, stored back, the permutation reset); for every child, in the reference
     tree's children order: n_recursive_children = 2 * subtree size; q_legs = range(ndim - n_rec),
     r_legs = range(ndim - n_rec, ndim); the kernel call; link_tensor(Q) + tensors[current] = Q
     (UserDict.__setitem__: in place, no transposition); add_child_to_parent(r_node, R, 0, current,
     Q.ndim - 1) with its checks (identifier unused, leg dimensions equal) and the leg bookkeeping of
     open_leg_to_parent / open_leg_to_child (Store.v); the recursive call on the child; and
     current_tensor = self.tensors[current] again (which moves the new child leg in front of the open legs).
   - the kernel (tensor_qr_decomposition REDUCED / tensor_svd + R = diag(S) Vh / truncated_tensor_svd + the
     same product) is opaque: a fresh bond wire, two fresh atoms Q (legs: q_legs..., bond) and R (legs: bond,
     r_legs...), and the recorded definition "Q . R over the bond = current tensor" (kdef, kinds 0 / 1 / 2
     as in Store.split_nodes).  Bond dimension: min(rows, cols) for QR and SVD; for the truncated SVD it is
     an INPUT of the model (the number of singular values the code kept), one value per child identifier.

   The input tensor is atom 0 with one wire per axis: axis a <-> wire a (the first 2n wires of the empty
   store), dimension shape[a]. *)
From Coq Require Import List Arith Bool.
From PTN Require Import TTN.Store Tree.RTree Special.Chain.
Import ListNotations.

(* Decomposition.QR / SVD / tSVD *)
Inductive dmode := DQR | DSVD | DTSVD.

Definition dmode_kind (dm : dmode) : nat := match dm with DQR => 0 | DSVD => 1 | DTSVD => 2 end.

(* the kernel call on `t` with q_legs = range(ndim - r), r_legs = range(ndim - r, ndim); tb = the bond
   dimension the truncated SVD kept (ignored by QR / SVD).  A negative ndim - r cannot occur under the
   asserts of from_tensor; the model rejects it. *)
Definition factor (s : store) (t : sarr) (r : nat) (dm : dmode) (tb : nat) : option (store * sarr * sarr) :=
  let n := length (axes t) in
  if Nat.ltb n r then None else
  let ql := seq 0 (n - r) in
  let rl := seq (n - r) r in
  let ow := permute 0 ql (axes t) in
  let iw := permute 0 rl (axes t) in
  let mrows := prod_list (map (wdim s) ow) in
  let ncols := prod_list (map (wdim s) iw) in
  let bd := match dm with DQR => qr_bond_dim Reduced mrows ncols | DSVD => Nat.min mrows ncols | DTSVD => tb end in
  let '(s2, bw) := fresh_wires s [bd] in
  let b := hd 0 bw in
  let '(s3, qa) := fresh_atom s2 (ow ++ [b]) in
  let '(s4, ra) := fresh_atom s3 (b :: iw) in
  Some (add_def s4 {| kq := qa; kr := ra; kbond := b; kinput := t; kkind := dmode_kind dm;
                      kmode := match dm with DQR => Some Reduced | _ => None end |},
        {| axes := ow ++ [b]; atoms := [qa]; bnd := [] |},
        {| axes := b :: iw; atoms := [ra]; bnd := [] |}).

(* self.nodes[k].link_tensor(t); self.tensors[k] = t *)
Definition link_set (s : store) (k : id) (t : sarr) : option store :=
  match aget k (nodes s) with
  | Some nd =>
      let nd' := {| parent := parent nd; children := children nd;
                    perm := seq 0 (length (axes t)); shape := map (wdim s) (axes t) |} in
      Some (upd_tensors (upd_nodes s (aset k nd')) (aset k t))
  | None => None
  end.

(* add_child_to_parent(Node(ct, c), ct, cleg, p, pleg) with a GIVEN child tensor (Store.add_child creates
   a fresh atom; here the child is the R factor).  Checks of the code: the parent exists, the leg
   dimensions agree (ensure_shape_matching reads parent.shape[pleg], i.e. the logical leg), the
   identifier is unused (_add_node); then open_leg_to_parent / open_leg_to_child *)
Definition attach_child (s : store) (c : id) (ct : sarr) (cleg : nat) (p : id) (pleg : nat) : option store :=
  match aget p (nodes s), aget p (tensors s) with
  | Some pn, Some pt =>
      let shp := map (wdim s) (axes ct) in
      if amem c (nodes s) then None else
      if negb (Nat.ltb cleg (length shp)) then None else
      if negb (Nat.ltb pleg (nlegs pn)) then None else
      let pw := nth (nth pleg (perm pn) 0) (axes pt) 0 in
      if negb (Nat.eqb (nth cleg shp 0) (wdim s pw)) then None else
      match open_leg_to_parent (new_node shp) p cleg, open_leg_to_child pn c pleg with
      | Some cn, Some pn' =>
          Some (upd_tensors (upd_nodes s (fun l => aset p pn' (aset c cn l))) (aset c ct))
      | _, _ => None
      end
  | _, _ => None
  end.

(* one pass of the loop body up to the recursive call: factorise the current tensor, keep Q at the
   current node, attach R as the new (last) child *)
Definition factor_attach (s : store) (cur c : id) (ct : sarr) (r : nat) (dm : dmode) (tb : nat) : option store :=
  match factor s ct r dm tb with
  | None => None
  | Some (s1, Q, R) =>
      match link_set s1 cur Q with
      | None => None
      | Some s2 => attach_child s2 c R 0 cur (length (axes Q) - 1)
      end
  end.

(* _from_tensor_rec(reference_tree, current_node, mode); t = the reference subtree at the current node *)
Fixpoint ft_rec (dm : dmode) (tb : id -> nat) (t : rtree) (s : store) : option store :=
  match t with
  | RNode i cs =>
      match cs with
      | [] => Some s
      | _ :: _ =>
          match access s i with
          | None => None
          | Some (s0, _, t0) =>
              (fix loop (l : list rtree) (s : store) (cur_t : sarr) : option store :=
                 match l with
                 | [] => Some s
                 | c :: l' =>
                     match factor_attach s i (rid c) cur_t (2 * size c) dm (tb (rid c)) with
                     | None => None
                     | Some s3 =>
                         match ft_rec dm tb c s3 with
                         | None => None
                         | Some s4 =>
                             match access s4 i with
                             | None => None
                             | Some (s5, _, t5) => loop l' s5 t5
                             end
                         end
                     end
                 end) cs s0 t0
          end
      end
  end.

(* the input tensor: atom 0 on the wires 0 .. ndim-1 *)
Definition input_tensor (shape : list nat) : store * sarr :=
  let '(s1, ws) := fresh_wires empty_store shape in
  let '(s2, a) := fresh_atom s1 ws in
  (s2, {| axes := ws; atoms := [a]; bnd := [] |}).

(* add_root(Node(t, r), t) with a given tensor on a store without nodes *)
Definition add_root_tensor (s : store) (r : id) (t : sarr) : option store :=
  match root s with
  | Some _ => None
  | None => Some (set_root (upd_tensors (upd_nodes s (aset r (new_node (map (wdim s) (axes t))))) (aset r t)) (Some r))
  end.

Definition from_tensor (t : rtree) (lg : id -> nat) (shape : list nat) (dm : dmode) (tb : id -> nat) : option store :=
  let half := length shape / 2 in
  if negb (Nat.even (length shape)) then None else
  if negb (Nat.eqb half (size t)) then None else
  let p := ft_perm lg half t in
  if negb (is_perm_of_seq p && Nat.eqb (length p) (length shape)) then None else
  let '(s0, t0) := input_tensor shape in
  match add_root_tensor s0 (rid t) (s_transpose p t0) with
  | None => None
  | Some s1 => ft_rec dm tb t s1
  end.

(* ---- what the harness evaluates ---------------------------------------------------------------------- *)
(* the open legs of every node, in node-dictionary order, as axes of the input tensor *)
Definition open_legs (s : store) : list (id * list wire) :=
  map (fun kn => (fst kn,
                  match aget (fst kn) (tensors s) with
                  | Some t => skipn (nvirt (snd kn)) (permute 0 (perm (snd kn)) (axes t))
                  | None => []
                  end)) (nodes s).

(* decidable form of the hypotheses of the theorems: unique identifiers, leg_dict a bijection onto 0..n-1 *)
Definition ft_hyp (t : rtree) (lg : id -> nat) (shape : list nat) : bool :=
  nodupb (ids t) && Nat.eqb (length shape) (2 * size t)
  && nodupb (map lg (ids t)) && forallb (fun k => Nat.ltb (lg k) (size t)) (ids t).

(* the statement of the structure / open-leg theorems, checked on an instance *)
Fixpoint struct_ok (s : store) (par : option id) (t : rtree) : bool :=
  match t with
  | RNode i cs =>
      match aget i (nodes s) with
      | Some nd =>
          (match parent nd, par with Some a, Some b => Nat.eqb a b | None, None => true | _, _ => false end)
          && list_eqb (children nd) (map rid cs)
          && list_eqb (perm nd) (seq 0 (length (perm nd)))
          && forallb (struct_ok s (Some i)) cs
      | None => false
      end
  end.

Definition ft_result_ok (t : rtree) (lg : id -> nat) (half : nat) (s : store) : bool :=
  list_eqb (akeys (nodes s)) (ids t)
  && (match root s with Some r => Nat.eqb r (rid t) | None => false end)
  && struct_ok s None t
  && forallb (fun kl => list_eqb (snd kl) [lg (fst kl); half + lg (fst kl)]) (open_legs s).
