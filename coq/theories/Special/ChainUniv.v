(* Universal (all sizes) versions of the special-topology constructor facts of Special/ChainProofs.v:
   acceptance, closed form of the node dictionary, root, node count, chain lists and the store
   invariant, by induction over the parameters (no evaluation over sample ranges). *)
From Coq Require Import List Arith Bool ZArith Lia Permutation.
From PTN Require Import TTN.Store TTN.Inv TTN.InvProofs TTN.InvBuild Special.Chain Special.ChainProofs.
Import ListNotations.

(* ================================================================================================ *)
(* generic helpers                                                                                  *)
(* ================================================================================================ *)
Lemma lin_inj C c j c' j' : c < C -> c' < C -> j * C + c = j' * C + c' -> c = c' /\ j = j'.
Proof.
  intros Hc Hc' H.
  assert (j = j').
  { destruct (Nat.lt_trichotomy j j') as [L|[E|L]]; auto; exfalso.
    - assert (S j * C <= j' * C) by (apply Nat.mul_le_mono_r; lia). simpl in *. lia.
    - assert (S j' * C <= j * C) by (apply Nat.mul_le_mono_r; lia). simpl in *. lia. }
  subst. lia.
Qed.

Lemma forM_app {A S} (xs ys : list A) (s0 : option S) body :
  forM (xs ++ ys) s0 body = forM ys (forM xs s0 body) body.
Proof. unfold forM. apply fold_left_app. Qed.

Lemma nth_repeat_lt {A} (a d : A) n k : k < n -> nth k (repeat a n) d = a.
Proof. revert k; induction n; intros [|k] H; simpl; auto; try lia. apply IHn; lia. Qed.

Lemma set_nth_app_last {A} (pre : list A) x y : set_nth (length pre) y (pre ++ [x]) = pre ++ [y].
Proof. induction pre; simpl; congruence. Qed.

Lemma flat_map_nil {A B} (l : list A) : flat_map (fun _ : A => @nil B) l = [].
Proof. induction l; simpl; auto. Qed.

Lemma flat_map_length_const {A B} (f : A -> list B) n l : (forall x, In x l -> length (f x) = n) ->
  length (flat_map f l) = length l * n.
Proof.
  induction l as [|x l IH]; intros H; simpl; auto.
  rewrite app_length, H, IH by (simpl; auto; intros; apply H; simpl; auto). reflexivity.
Qed.

Lemma akeys_flat_map {A V} (f : A -> list (nat * V)) l : akeys (flat_map f l) = flat_map (fun x => akeys (f x)) l.
Proof. induction l; simpl; auto. rewrite akeys_app, IHl. reflexivity. Qed.

Lemma aget_flat_map_none {V} (f : nat -> list (nat * V)) (l : list nat) (x : nat) :
  (forall c', In c' l -> ~ In x (akeys (f c'))) -> aget x (flat_map f l) = None.
Proof.
  induction l as [|a l IH]; intros H; simpl; auto.
  rewrite aget_app. rewrite (proj2 (aget_None_keys (f a) x)) by (apply H; simpl; auto).
  apply IH. intros; apply H; simpl; auto.
Qed.

(* looking a key up in a concatenation of blocks with pairwise distinct keys *)
Lemma aget_flat_map_unique {V} (f : nat -> list (nat * V)) (l : list nat) (c : nat) (x : nat) :
  NoDup l -> In c l -> (forall c', In c' l -> c' <> c -> ~ In x (akeys (f c'))) ->
  aget x (flat_map f l) = aget x (f c).
Proof.
  induction l as [|a l IH]; intros Hnd Hin Hd; [destruct Hin|].
  inversion Hnd as [|? ? Hna Hnd']; subst.
  simpl. rewrite aget_app.
  destruct (Nat.eq_dec a c) as [->|Nac].
  - destruct (aget x (f c)) eqn:E; auto.
    apply aget_flat_map_none. intros c' Hc'. apply Hd; simpl; auto. intros ->. auto.
  - rewrite (proj2 (aget_None_keys (f a) x)) by (apply Hd; simpl; auto).
    apply IH; auto.
    + destruct Hin; [contradiction|auto].
    + intros; apply Hd; simpl; auto.
Qed.

Lemma NoDup_app_intro {A} (a b : list A) : NoDup a -> NoDup b -> (forall x, In x a -> ~ In x b) -> NoDup (a ++ b).
Proof.
  induction a as [|x a IH]; intros Ha Hb H; simpl; auto.
  inversion Ha; subst. constructor.
  - rewrite in_app_iff. intros [E|E]; [auto|]. apply (H x); simpl; auto.
  - apply IH; auto. intros; apply H; simpl; auto.
Qed.
(* ================================================================================================ *)
(* STAR                                                                                             *)
(* ================================================================================================ *)
Lemma arm_id_inj C c j c' j' : c < C -> c' < C -> arm_id C c j = arm_id C c' j' -> c = c' /\ j = j'.
Proof. unfold arm_id, id. intros. apply (lin_inj C); auto; lia. Qed.

Lemma arm_id_neq_center C c j : arm_id C c j <> center_id.
Proof. unfold arm_id, center_id, id. lia. Qed.

(* shape of chain node j in a chain of cl nodes; the steps a .. a+k-1 of chain c as a path *)
Definition arm_shape (d cl j : nat) : list nat := if j =? cl - 1 then [1; d] else [1; 1; d].
Definition arm_steps (C d cl c a k : nat) : list pstep :=
  map (fun j => (arm_id C c j, arm_shape d cl j, 0)) (seq a k).
(* the loop body of constant_product_state (bug = false) *)
Definition star_body (C d cl : nat) : star -> nat * nat -> option star :=
  fun m ij => bind (star_chain_shape false d (snd ij =? cl - 1))
                   (fun shp => star_add_chain_node C m shp (fst ij)).

Lemma star_body_eq C d cl m i j : star_body C d cl m (i, j) = star_add_chain_node C m (arm_shape d cl j) i.
Proof. reflexivity. Qed.

Lemma path_ids_arm C d cl c a k : path_ids (arm_steps C d cl c a k) = map (arm_id C c) (seq a k).
Proof. unfold path_ids, arm_steps. rewrite map_map. reflexivity. Qed.

Lemma arm_steps_cleg C d cl c a k : Forall (fun t : pstep => snd t <= 1) (arm_steps C d cl c a k).
Proof. apply Forall_forall. intros t Ht. apply in_map_iff in Ht. destruct Ht as (j & <- & _). simpl; lia. Qed.

(* the rest of a chain whose head exists: one attach_path on the current last node *)
Lemma star_tail C d cl : forall k a m pre ch p pn cn,
  chains m = pre ++ [ch] -> last ch 0 = p -> length ch = a -> p <> center_id ->
  aget center_id (nodes (sst m)) = Some cn -> length pre <= nlegs cn ->
  aget p (nodes (sst m)) = Some pn -> nvirt pn = 1 ->
  forM (map (fun j => (length pre, j)) (seq a k)) (Some m) (star_body C d cl)
  = option_map (fun s' => {| sst := s'; chains := pre ++ [ch ++ map (arm_id C (length pre)) (seq a k)];
                             slabels := slabels m ++ map (fun j => (arm_id C (length pre) j, LArm (length pre) j)) (seq a k) |})
               (attach_path (sst m) p 1 (arm_steps C d cl (length pre) a k)).
Proof.
  induction k as [|k IH]; intros a m pre ch p pn cn Hch Hlast Hlen Hpc Hcn Hle Hpn Hv.
  - simpl. rewrite !app_nil_r, <- Hch. destruct m; reflexivity.
  - unfold arm_steps. cbn [seq map]. rewrite forM_cons. cbn [bind attach_path]. rewrite star_body_eq.
    unfold star_add_chain_node. rewrite Hcn.
    destruct (Nat.ltb_spec (nlegs cn) (length pre)); [lia|].
    rewrite Hch, app_length. cbn [length].
    destruct (Nat.ltb_spec (length pre + 1) (length pre)); [lia|].
    destruct (Nat.eqb_spec (length pre) (length pre + 1)); [lia|].
    rewrite app_nth2, Nat.sub_diag by lia. cbn [nth]. rewrite Hlast, Hpn, Hlen, Hv.
    destruct (add_child (sst m) (arm_id C (length pre) a) (arm_shape d cl a) 0 p 1) as [s1|] eqn:E1; cbn [bind].
    2:{ rewrite forM_None. reflexivity. }
    rewrite <- Hv in E1.
    destruct (add_child_spec _ _ _ _ _ _ _ Hpn E1 (Nat.le_0_l 1)) as (Hx & Hxp & Hcl & Hpl & Hn & _).
    set (c := arm_id C (length pre) a) in *.
    set (m1 := {| sst := s1; chains := set_nth (length pre) (ch ++ [c]) (pre ++ [ch]);
                  slabels := slabels m ++ [(c, LArm (length pre) a)] |}).
    assert (Hc0 : c <> center_id) by apply arm_id_neq_center.
    rewrite (IH (S a) m1 pre (ch ++ [c]) c (mk_child (arm_shape d cl a) p 0) cn).
    + cbn [sst slabels m1]. fold (arm_steps C d cl (length pre) (S a) k).
      destruct (attach_path s1 c 1 (arm_steps C d cl (length pre) (S a) k)); cbn [option_map]; auto.
      rewrite <- !app_assoc. reflexivity.
    + unfold m1; cbn [chains]. apply set_nth_app_last.
    + apply last_snoc.
    + rewrite app_length; simpl; lia.
    + exact Hc0.
    + unfold m1; cbn [sst]. rewrite Hn, aget_aset_neq, aget_app, Hcn by auto. reflexivity.
    + exact Hle.
    + unfold m1; cbn [sst]. rewrite Hn, aget_aset_neq, aget_app, Hx by auto. simpl. rewrite Nat.eqb_refl. reflexivity.
    + reflexivity.
Qed.

(* a whole chain: one attach_path on the centre's first open leg *)
Lemma star_chain C d cl : 1 <= cl -> forall m cn,
  aget center_id (nodes (sst m)) = Some cn -> length (chains m) <= nlegs cn ->
  forM (map (fun j => (length (chains m), j)) (seq 0 cl)) (Some m) (star_body C d cl)
  = option_map (fun s' => {| sst := s'; chains := chains m ++ [map (arm_id C (length (chains m))) (seq 0 cl)];
                             slabels := slabels m ++ map (fun j => (arm_id C (length (chains m)) j, LArm (length (chains m)) j)) (seq 0 cl) |})
               (attach_path (sst m) center_id (nvirt cn) (arm_steps C d cl (length (chains m)) 0 cl)).
Proof.
  intros Hcl m cn Hcn Hle. destruct cl as [|k]; [lia|].
  unfold arm_steps. cbn [seq map]. rewrite forM_cons. cbn [bind attach_path]. rewrite star_body_eq.
  unfold star_add_chain_node. rewrite Hcn.
  destruct (Nat.ltb_spec (nlegs cn) (length (chains m))); [lia|].
  rewrite Nat.ltb_irrefl, Nat.eqb_refl.
  set (i := length (chains m)) in *.
  destruct (add_child (sst m) (arm_id C i 0) (arm_shape d (S k) 0) 0 center_id (nvirt cn)) as [s1|] eqn:E1; cbn [bind].
  2:{ rewrite forM_None. reflexivity. }
  destruct (add_child_spec _ _ _ _ _ _ _ Hcn E1 (Nat.le_0_l 1)) as (Hx & Hxp & Hcl' & Hpl & Hn & _).
  set (c := arm_id C i 0) in *.
  set (m1 := {| sst := s1; chains := chains m ++ [[c]]; slabels := slabels m ++ [(c, LArm i 0)] |}).
  pose proof (star_tail C d (S k) k 1 m1 (chains m) [c] c (mk_child (arm_shape d (S k) 0) center_id 0) (with_child cn c)) as T.
  fold i in T. rewrite T; clear T.
  - cbn [sst slabels m1]. fold (arm_steps C d (S k) i 1 k).
    destruct (attach_path s1 c 1 (arm_steps C d (S k) i 1 k)); cbn [option_map]; auto.
    rewrite <- !app_assoc. reflexivity.
  - reflexivity.
  - reflexivity.
  - reflexivity.
  - apply arm_id_neq_center.
  - unfold m1; cbn [sst]. rewrite Hn, aget_aset_eq. reflexivity.
  - rewrite nlegs_with_child. exact Hle.
  - unfold m1; cbn [sst]. rewrite Hn, aget_aset_neq, aget_app, Hx by auto. simpl. rewrite Nat.eqb_refl. reflexivity.
  - reflexivity.
Qed.

(* acceptance of a chain: all bonds have dimension 1 *)
Lemma arm_dims_ok C d cl c : forall k a, a + k = cl -> path_dims_ok 1 (arm_steps C d cl c a k).
Proof.
  induction k as [|k IH]; intros a Hk; [exact I|].
  unfold arm_steps. cbn [seq map]. fold (arm_steps C d cl c (S a) k).
  cbn [path_dims_ok].
  destruct (Nat.eqb_spec a (cl - 1)) as [E|E].
  - assert (k = 0) by lia. subst k. unfold arm_shape. rewrite (proj2 (Nat.eqb_eq _ _) E). simpl. repeat split; lia.
  - assert (Esh : arm_shape d cl a = [1; 1; d]) by (unfold arm_shape; rewrite (proj2 (Nat.eqb_neq _ _) E); reflexivity).
    rewrite Esh. split; [lia|]. split; [simpl; lia|]. split; [reflexivity|].
    destruct k as [|k]; [exact I|].
    pose proof (IH (S a) ltac:(lia)) as IH'.
    destruct (arm_steps C d cl c (S a) (S k)) eqn:Es; [exact I|].
    split; [simpl; lia|]. exact IH'.
Qed.

(* ---- closed forms -------------------------------------------------------------------------------- *)
Definition star_heads (cl nc i : nat) : list id :=
  if cl =? 0 then [] else map (fun c => arm_id (S nc) c 0) (seq 0 i).
(* the node dictionary after the first i chains *)
Definition star_nodes_upto (d cl nc i : nat) : list (id * node) :=
  (center_id, add_children (new_node (repeat 1 nc ++ [d])) (star_heads cl nc i))
  :: flat_map (fun c => chain_nodes center_id (arm_steps (S nc) d cl c 0 cl)) (seq 0 i).
Definition star_nodes (d cl nc : nat) : list (id * node) := star_nodes_upto d cl nc nc.
Definition star_chains_upto (cl nc i : nat) : list (list id) :=
  if cl =? 0 then [] else map (fun c => map (arm_id (S nc) c) (seq 0 cl)) (seq 0 i).
Definition star_chains (cl nc : nat) : list (list id) := star_chains_upto cl nc nc.
Definition star_labels_upto (cl nc i : nat) : list (id * lbl) :=
  (center_id, LCenter) :: flat_map (fun c => map (fun j => (arm_id (S nc) c j, LArm c j)) (seq 0 cl)) (seq 0 i).
Definition star_labels (cl nc : nat) : list (id * lbl) := star_labels_upto cl nc nc.

Lemma star_upto_keys d cl nc i :
  akeys (star_nodes_upto d cl nc i) = center_id :: flat_map (fun c => map (arm_id (S nc) c) (seq 0 cl)) (seq 0 i).
Proof.
  unfold star_nodes_upto.
  change (akeys (?a :: ?l)) with (fst a :: akeys l). cbn [fst]. f_equal.
  rewrite akeys_flat_map. apply flat_map_ext. intros c. rewrite akeys_chain_nodes. apply path_ids_arm.
Qed.

Lemma star_upto_length cl nc i : length (star_chains_upto cl nc i) = if cl =? 0 then 0 else i.
Proof. unfold star_chains_upto. destruct (cl =? 0); simpl; auto. rewrite map_length, seq_length. reflexivity. Qed.

(* the state after the first i chains *)
Lemma star_prefix d cl nc s0 : 1 <= cl ->
  add_root empty_store center_id (repeat 1 nc ++ [d]) = Some s0 ->
  forall i, i <= nc ->
  exists s, forM (flat_map (fun c => map (fun j => (c, j)) (seq 0 cl)) (seq 0 i))
                 (Some {| sst := s0; chains := []; slabels := [(center_id, LCenter)] |}) (star_body (S nc) d cl)
            = Some {| sst := s; chains := star_chains_upto cl nc i; slabels := star_labels_upto cl nc i |}
    /\ nodes s = star_nodes_upto d cl nc i /\ root s = Some center_id /\ dims_bounded s
    /\ (forall leg, i <= leg -> leg < nc -> leg_dim s center_id leg 1).
Proof.
  intros Hcl E0. destruct (add_root_spec _ _ _ E0) as (Hn0 & Hroot0 & HB0 & Hld0).
  assert (Ecl : (cl =? 0) = false) by (apply Nat.eqb_neq; lia).
  induction i as [|i IH]; intros Hi.
  - exists s0. unfold star_chains_upto, star_labels_upto, star_nodes_upto, star_heads. rewrite Ecl. simpl.
    split; [reflexivity|]. split; [rewrite add_children_nil; exact Hn0|]. split; [exact Hroot0|]. split; [exact HB0|].
    intros leg _ Hl. pose proof (Hld0 leg) as H. rewrite app_length, repeat_length in H. simpl in H.
    rewrite app_nth1, nth_repeat_lt in H by (rewrite ?repeat_length; lia). apply H. lia.
  - destruct (IH ltac:(lia)) as (s & EF & Hn & Hr & HB & Hld). clear IH.
    rewrite seq_S, flat_map_app, forM_app, EF. cbn [flat_map plus]. rewrite app_nil_r.
    set (m := {| sst := s; chains := star_chains_upto cl nc i; slabels := star_labels_upto cl nc i |}).
    set (cn := add_children (new_node (repeat 1 nc ++ [d])) (star_heads cl nc i)).
    assert (Hcn : aget center_id (nodes (sst m)) = Some cn).
    { unfold m; cbn [sst]. rewrite Hn. reflexivity. }
    assert (Hlen : length (chains m) = i).
    { unfold m; cbn [chains]. rewrite star_upto_length, Ecl. reflexivity. }
    assert (Hnl : nlegs cn = S nc).
    { unfold nlegs, cn, add_children, new_node; simpl. rewrite seq_length, app_length, repeat_length. simpl. lia. }
    assert (Hnv : nvirt cn = i).
    { unfold nvirt, nparents, cn, add_children, new_node, star_heads; simpl. rewrite Ecl, map_length, seq_length. reflexivity. }
    pose proof (star_chain (S nc) d cl Hcl m cn Hcn ltac:(lia)) as SC. rewrite Hlen in SC. rewrite SC. clear SC.
    set (steps := arm_steps (S nc) d cl i 0 cl).
    assert (Hfresh : forall x, In x (path_ids steps) -> aget x (nodes s) = None).
    { intros x Hx. unfold steps in Hx. rewrite path_ids_arm in Hx. apply in_map_iff in Hx. destruct Hx as (j & <- & Hj).
      apply aget_None_keys. rewrite Hn, star_upto_keys. intros [E|E].
      - symmetry in E. revert E. apply arm_id_neq_center.
      - apply in_flat_map in E. destruct E as (c & Hc & E). apply in_seq in Hc.
        apply in_map_iff in E. destruct E as (j' & E & _). apply arm_id_inj in E; lia. }
    assert (Hnd : NoDup (path_ids steps)).
    { unfold steps. rewrite path_ids_arm. apply FinFun.Injective_map_NoDup; [|apply seq_NoDup].
      intros j j' E. apply arm_id_inj in E; lia. }
    unfold m in *. clear m. cbn [sst chains slabels] in *.
    destruct (attach_path_accepts steps s center_id cn 1 Hcn ltac:(lia)) as (s' & Hp & HB' & Hfr); auto.
    { rewrite Hnv. apply Hld; lia. }
    { apply arm_dims_ok. lia. }
    rewrite Hp. cbn [option_map].
    destruct (attach_path_nodes _ _ _ _ _ Hcn Hp (arm_steps_cleg _ _ _ _ _ _)) as (Hn' & Hr' & _).
    exists s'. split; [|split; [|split; [|split]]].
    + f_equal. f_equal.
      * unfold star_chains_upto. rewrite Ecl, seq_S, map_app. reflexivity.
      * unfold star_labels_upto. rewrite seq_S, flat_map_app. cbn [flat_map plus]. rewrite app_nil_r. reflexivity.
    + rewrite Hn'. unfold steps. destruct cl as [|k]; [lia|]. unfold arm_steps at 1. cbn [seq map path_nodes].
      fold (arm_steps (S nc) d (S k) i 0 (S k)). rewrite Hn. unfold star_nodes_upto at 1.
      unfold center_id at 1 2. cbn [aset Nat.eqb]. fold center_id.
      unfold star_nodes_upto. rewrite seq_S, flat_map_app. cbn [flat_map plus]. rewrite app_nil_r.
      cbn [app]. f_equal. f_equal. fold cn. unfold cn. rewrite with_child_add, add_children_app. f_equal.
      unfold star_heads. cbn [Nat.eqb]. rewrite seq_S, map_app. reflexivity.
    + congruence.
    + exact HB'.
    + intros leg H1 H2. apply Hfr.
      * unfold steps. rewrite path_ids_arm. intros Hin. apply in_map_iff in Hin. destruct Hin as (j & E & _).
        revert E. apply arm_id_neq_center.
      * apply Hld; lia.
Qed.

(* ---- the closed form, identifier by identifier ---------------------------------------------------- *)
Definition center_node (d cl nc : nat) : node :=
  {| parent := None; children := star_heads cl nc nc; perm := seq 0 (S nc); shape := repeat 1 nc ++ [d] |}.
Definition arm_node (d cl nc c j : nat) : node :=
  {| parent := Some (if j =? 0 then center_id else arm_id (S nc) c (j - 1));
     children := if S j <? cl then [arm_id (S nc) c (S j)] else [];
     perm := seq 0 (length (arm_shape d cl j)); shape := arm_shape d cl j |}.

Lemma aget_arm_chain C d cl c : 0 < C -> forall k a p j, a <= j < a + k ->
  aget (arm_id C c j) (chain_nodes p (arm_steps C d cl c a k))
  = Some {| parent := Some (if j =? a then p else arm_id C c (j - 1));
            children := if S j <? a + k then [arm_id C c (S j)] else [];
            perm := seq 0 (length (arm_shape d cl j)); shape := arm_shape d cl j |}.
Proof.
  intros HC. induction k as [|k IH]; intros a p j Hj; [lia|].
  unfold arm_steps. cbn [seq map chain_nodes]. fold (arm_steps C d cl c (S a) k).
  cbn [aget].
  destruct (Nat.eqb_spec j a) as [->|Nja].
  - rewrite Nat.eqb_refl. f_equal.
    destruct k as [|k].
    + cbn [arm_steps seq map]. destruct (Nat.ltb_spec (S a) (a + 1)); [lia|]. reflexivity.
    + unfold arm_steps. cbn [seq map]. destruct (Nat.ltb_spec (S a) (a + S (S k))); [|lia]. reflexivity.
  - assert (E : (arm_id C c j =? arm_id C c a) = false).
    { apply Nat.eqb_neq. unfold arm_id, id. intros E. assert (j * C = a * C) by lia.
      apply Nat.mul_cancel_r in H; lia. }
    rewrite E. rewrite IH by lia.
    destruct (Nat.eqb_spec j (S a)) as [->|N2].
    + replace (S a - 1) with a by lia. replace (S a + k) with (a + S k) by lia. reflexivity.
    + replace (S a + k) with (a + S k) by lia. reflexivity.
Qed.

Lemma star_nodes_center d cl nc : aget center_id (star_nodes d cl nc) = Some (center_node d cl nc).
Proof.
  unfold star_nodes, star_nodes_upto, center_node, add_children, new_node. cbn [aget center_id Nat.eqb parent children perm shape app].
  rewrite app_length, repeat_length, Nat.add_1_r. reflexivity.
Qed.

Lemma star_nodes_arm d cl nc c j : c < nc -> j < cl ->
  aget (arm_id (S nc) c j) (star_nodes d cl nc) = Some (arm_node d cl nc c j).
Proof.
  intros Hc Hj. unfold star_nodes, star_nodes_upto. cbn [aget].
  assert (E : (arm_id (S nc) c j =? center_id) = false) by (apply Nat.eqb_neq, arm_id_neq_center).
  rewrite E.
  rewrite (aget_flat_map_unique _ _ c).
  - rewrite aget_arm_chain by lia. reflexivity.
  - apply seq_NoDup.
  - apply in_seq; lia.
  - intros c' Hc' N. apply in_seq in Hc'. rewrite akeys_chain_nodes, path_ids_arm. intros Hin.
    apply in_map_iff in Hin. destruct Hin as (j' & E' & _). apply arm_id_inj in E'; lia.
Qed.

Lemma star_nodes_keys d cl nc :
  akeys (star_nodes d cl nc) = center_id :: flat_map (fun c => map (arm_id (S nc) c) (seq 0 cl)) (seq 0 nc).
Proof. apply star_upto_keys. Qed.

Lemma star_nodes_length d cl nc : length (star_nodes d cl nc) = 1 + nc * cl.
Proof.
  rewrite <- (map_length fst). change (map fst (star_nodes d cl nc)) with (akeys (star_nodes d cl nc)).
  rewrite star_nodes_keys. cbn [length]. f_equal.
  rewrite (flat_map_length_const _ cl).
  - rewrite seq_length. reflexivity.
  - intros. rewrite map_length, seq_length. reflexivity.
Qed.

Lemma star_nodes_NoDup d cl nc : NoDup (akeys (star_nodes d cl nc)).
Proof.
  rewrite star_nodes_keys. constructor.
  - intros Hin. apply in_flat_map in Hin. destruct Hin as (c & _ & Hin). apply in_map_iff in Hin.
    destruct Hin as (j & E & _). revert E. apply arm_id_neq_center.
  - assert (G : forall n, n <= nc -> NoDup (flat_map (fun c => map (arm_id (S nc) c) (seq 0 cl)) (seq 0 n))).
    { induction n as [|n IH]; intros Hn; [constructor|].
      rewrite seq_S, flat_map_app. cbn [flat_map plus]. rewrite app_nil_r.
      apply NoDup_app_intro; [apply IH; lia| |].
      - apply FinFun.Injective_map_NoDup; [|apply seq_NoDup]. intros j j' E. apply arm_id_inj in E; lia.
      - intros x Hx Hx'. apply in_flat_map in Hx. destruct Hx as (c & Hc & Hx). apply in_seq in Hc.
        apply in_map_iff in Hx. destruct Hx as (j & <- & _). apply in_map_iff in Hx'. destruct Hx' as (j' & E & _).
        apply arm_id_inj in E; lia. }
    apply G; lia.
Qed.

(* ---- the store invariant ---------------------------------------------------------------------------- *)
Lemma star_add_chain_node_wf C m shp ci m' :
  Inv.wf (sst m) -> star_add_chain_node C m shp ci = Some m' -> Inv.wf (sst m').
Proof.
  intros Hw Hb. unfold star_add_chain_node in Hb.
  destruct (aget center_id (nodes (sst m))) as [cn|]; [|discriminate].
  destruct (nlegs cn <? ci); [discriminate|].
  destruct (length (chains m) <? ci); [discriminate|].
  destruct (ci =? length (chains m)).
  - destruct (add_child (sst m) _ shp 0 center_id (nvirt cn)) as [s2|] eqn:E; simpl in Hb; [|discriminate].
    inversion Hb; subst; simpl. eapply add_child_preserves_wf; eauto.
  - destruct (aget (last (nth ci (chains m) []) 0) (nodes (sst m))) as [pn|]; [|discriminate].
    destruct (add_child (sst m) _ shp 0 _ (nvirt pn)) as [s2|] eqn:E; simpl in Hb; [|discriminate].
    inversion Hb; subst; simpl. eapply add_child_preserves_wf; eauto.
Qed.

Theorem star_cps_wf bug sv dim clen nch m vals :
  star_cps bug sv dim clen nch = Some (m, vals) -> wfb (sst m) = true.
Proof.
  intros H. apply wfb_iff. revert H. unfold star_cps.
  destruct (negb (check_ps sv dim)); [discriminate|].
  destruct ((nch <? 0)%Z || (clen <? 0)%Z); [discriminate|]. cbv zeta.
  unfold star_add_center.
  destruct (add_root empty_store center_id _) as [s0|] eqn:E0; cbn [bind]; [|discriminate].
  pose proof (add_root_wf _ _ _ _ blank_empty E0) as W0.
  match goal with |- context [forM ?l ?s ?b] => destruct (forM l s b) as [m1|] eqn:EF end; cbn [bind]; [|discriminate].
  intros H; inversion H; subst; clear H.
  eapply (forM_inv (fun m => Inv.wf (sst m))); [| |exact EF]; [|exact W0].
  intros s x s1 Hw Hb. cbv beta in Hb.
  destruct (star_chain_shape bug _ _) as [shp|]; cbn [bind] in Hb; [|discriminate].
  eapply star_add_chain_node_wf; eauto.
Qed.

(* ---- the universal statement --------------------------------------------------------------------- *)
(* the multi-index of the single non-zero entry of every tensor *)
Definition star_values (v cl nc : nat) : list (id * list nat) :=
  (center_id, repeat 0 nc ++ [v])
  :: flat_map (fun i => map (fun j => (arm_id (S nc) i j, if j =? cl - 1 then [0; v] else [0; 0; v])) (seq 0 cl)) (seq 0 nc).

Lemma star_cps_unfold sv dim clen nch :
  star_cps false sv dim clen nch
  = if negb (check_ps sv dim) then None else
    if (nch <? 0)%Z || (clen <? 0)%Z then None else
    bind (star_add_center (repeat 1 (Z.to_nat nch) ++ [Z.to_nat dim])) (fun m0 =>
    bind (forM (flat_map (fun i => map (fun j => (i, j)) (seq 0 (Z.to_nat clen))) (seq 0 (Z.to_nat nch))) (Some m0)
               (star_body (S (Z.to_nat nch)) (Z.to_nat dim) (Z.to_nat clen)))
         (fun m => Some (m, star_values (Z.to_nat sv) (Z.to_nat clen) (Z.to_nat nch)))).
Proof. reflexivity. Qed.

Theorem star_cps_univ (sv dim clen nch : Z) :
  check_ps sv dim = true -> (0 <= clen)%Z -> (0 <= nch)%Z ->
  exists m, star_cps false sv dim clen nch
            = Some (m, star_values (Z.to_nat sv) (Z.to_nat clen) (Z.to_nat nch))
    /\ nodes (sst m) = star_nodes (Z.to_nat dim) (Z.to_nat clen) (Z.to_nat nch)
    /\ root (sst m) = Some center_id
    /\ chains m = star_chains (Z.to_nat clen) (Z.to_nat nch)
    /\ slabels m = star_labels (Z.to_nat clen) (Z.to_nat nch)
    /\ wfb (sst m) = true.
Proof.
  intros Hck Hcl Hnc.
  assert (G : exists m, star_cps false sv dim clen nch
            = Some (m, star_values (Z.to_nat sv) (Z.to_nat clen) (Z.to_nat nch))
    /\ nodes (sst m) = star_nodes (Z.to_nat dim) (Z.to_nat clen) (Z.to_nat nch)
    /\ root (sst m) = Some center_id
    /\ chains m = star_chains (Z.to_nat clen) (Z.to_nat nch)
    /\ slabels m = star_labels (Z.to_nat clen) (Z.to_nat nch)).
  { rewrite star_cps_unfold, Hck. cbn [negb].
    destruct (Z.ltb_spec nch 0); [lia|]. destruct (Z.ltb_spec clen 0); [lia|]. cbn [orb].
    set (d := Z.to_nat dim). set (cl := Z.to_nat clen). set (nc := Z.to_nat nch).
    unfold star_add_center.
    destruct (add_root_accepted empty_store center_id (repeat 1 nc ++ [d]) eq_refl) as (s0 & E0).
    rewrite E0. cbn [bind].
    destruct (Nat.eq_dec cl 0) as [Z0|NZ].
    - rewrite Z0. cbn [seq map]. rewrite flat_map_nil. cbn [forM fold_left bind].
      destruct (add_root_spec _ _ _ E0) as (Hn0 & Hroot0 & _).
      eexists. split; [reflexivity|]. cbn [sst chains slabels].
      unfold star_nodes, star_nodes_upto, star_chains, star_chains_upto, star_labels, star_labels_upto, star_heads.
      cbn [Nat.eqb seq map]. rewrite !flat_map_nil, add_children_nil.
      unfold arm_steps. cbn [seq map chain_nodes]. rewrite flat_map_nil. auto.
    - destruct (star_prefix d cl nc s0 ltac:(lia) E0 nc (le_n _)) as (s & EF & Hn & Hr & _).
      rewrite EF. cbn [bind]. eexists. split; [reflexivity|]. cbn [sst chains slabels]. auto. }
  destruct G as (m & E & G). exists m. split; [exact E|].
  destruct G as (G1 & G2 & G3 & G4). repeat split; auto.
  eapply star_cps_wf; eauto.
Qed.

Corollary star_cps_count (sv dim clen nch : Z) m vals :
  check_ps sv dim = true -> (0 <= clen)%Z -> (0 <= nch)%Z ->
  star_cps false sv dim clen nch = Some (m, vals) ->
  length (nodes (sst m)) = 1 + Z.to_nat nch * Z.to_nat clen.
Proof.
  intros Hck Hcl Hnc H. destruct (star_cps_univ sv dim clen nch Hck Hcl Hnc) as (m' & E & Hn & _).
  rewrite E in H. inversion H; subst. rewrite Hn. apply star_nodes_length.
Qed.

(* the same with natural-number parameters: dimension >= 1, state value < dimension *)
Corollary star_cps_univ_nat (sv dim cl nc : nat) : 1 <= dim -> sv < dim ->
  exists m, star_cps false (Z.of_nat sv) (Z.of_nat dim) (Z.of_nat cl) (Z.of_nat nc) = Some (m, star_values sv cl nc)
    /\ nodes (sst m) = star_nodes dim cl nc /\ root (sst m) = Some center_id
    /\ length (nodes (sst m)) = 1 + nc * cl
    /\ chains m = star_chains cl nc /\ slabels m = star_labels cl nc /\ wfb (sst m) = true.
Proof.
  intros Hd Hs.
  assert (Hck : check_ps (Z.of_nat sv) (Z.of_nat dim) = true).
  { unfold check_ps. destruct (Z.ltb_spec 0 (Z.of_nat dim)); [|lia].
    destruct (Z.ltb_spec (Z.of_nat sv) (Z.of_nat dim)); [|lia].
    destruct (Z.leb_spec 0 (Z.of_nat sv)); [|lia]. reflexivity. }
  destruct (star_cps_univ _ _ (Z.of_nat cl) (Z.of_nat nc) Hck ltac:(lia) ltac:(lia)) as (m & E & Hn & Hr & Hc & Hl & Hw).
  rewrite !Nat2Z.id in *. exists m. repeat split; auto. rewrite Hn. apply star_nodes_length.
Qed.

Example star_example :
  option_map (fun mv => (nodes (sst (fst mv)), chains (fst mv))) (star_cps false 1 3 2 3)
  = Some (star_nodes 3 2 3, [[1; 5]; [2; 6]; [3; 7]]).
Proof. vm_compute. reflexivity. Qed.
