(* Universal (all sizes) versions of the special-topology constructor facts of Special/ChainProofs.v:
   acceptance, closed form of the node dictionary, root, node count, chain lists and the store
   invariant, by induction over the sizes (no evaluation over sample ranges). *)
From Coq Require Import List Arith Bool ZArith Lia Permutation.
From PTN Require Import TTN.Store TTN.StoreProofs TTN.Inv TTN.InvProofs TTN.InvBuild TTN.InvEdit Special.Chain Special.ChainProofs.
Import ListNotations.
(* ================================================================================================ *)
(* generic helpers                                                                                  *)
(* ================================================================================================ *)
Lemma lin_inj C c j c' j' : c < C -> c' < C -> j * C + c = j' * C + c' -> c = c' /\ j = j'.
Proof.
  intros Hc Hc' H.
  assert (j = j').
  { destruct (Nat.lt_trichotomy j j') as [L|[E|L]]; auto; exfalso.
    - assert (S j * C <= j' * C) by (apply Nat.mul_le_mono_r; lia). simpl in *. lia.
    - assert (S j' * C <= j * C) by (apply Nat.mul_le_mono_r; lia). simpl in *. lia. }
  subst. lia.
Qed.

Lemma forM_app {A S} (xs ys : list A) (s0 : option S) body :
  forM (xs ++ ys) s0 body = forM ys (forM xs s0 body) body.
Proof. unfold forM. apply fold_left_app. Qed.

Lemma nth_repeat_lt {A} (a d : A) n k : k < n -> nth k (repeat a n) d = a.
Proof. revert k; induction n; intros [|k] H; simpl; auto; try lia. apply IHn; lia. Qed.

Lemma set_nth_app_last {A} (pre : list A) x y : set_nth (length pre) y (pre ++ [x]) = pre ++ [y].
Proof. induction pre; simpl; congruence. Qed.

Lemma flat_map_nil {A B} (l : list A) : flat_map (fun _ : A => @nil B) l = [].
Proof. induction l; simpl; auto. Qed.

Lemma flat_map_length_const {A B} (f : A -> list B) n l : (forall x, In x l -> length (f x) = n) ->
  length (flat_map f l) = length l * n.
Proof.
  induction l as [|x l IH]; intros H; simpl; auto.
  rewrite app_length, H, IH by (simpl; auto; intros; apply H; simpl; auto). reflexivity.
Qed.

Lemma akeys_flat_map {A V} (f : A -> list (nat * V)) l : akeys (flat_map f l) = flat_map (fun x => akeys (f x)) l.
Proof. induction l; simpl; auto. rewrite akeys_app, IHl. reflexivity. Qed.

Lemma aget_flat_map_none {V} (f : nat -> list (nat * V)) (l : list nat) (x : nat) :
  (forall c', In c' l -> ~ In x (akeys (f c'))) -> aget x (flat_map f l) = None.
Proof.
  induction l as [|a l IH]; intros H; simpl; auto.
  rewrite aget_app. rewrite (proj2 (aget_None_keys (f a) x)) by (apply H; simpl; auto).
  apply IH. intros; apply H; simpl; auto.
Qed.

(* looking a key up in a concatenation of blocks with pairwise distinct keys *)
Lemma aget_flat_map_unique {V} (f : nat -> list (nat * V)) (l : list nat) (c : nat) (x : nat) :
  NoDup l -> In c l -> (forall c', In c' l -> c' <> c -> ~ In x (akeys (f c'))) ->
  aget x (flat_map f l) = aget x (f c).
Proof.
  induction l as [|a l IH]; intros Hnd Hin Hd; [destruct Hin|].
  inversion Hnd as [|? ? Hna Hnd']; subst.
  simpl. rewrite aget_app.
  destruct (Nat.eq_dec a c) as [->|Nac].
  - destruct (aget x (f c)) eqn:E; auto.
    apply aget_flat_map_none. intros c' Hc'. apply Hd; simpl; auto. intros ->. auto.
  - rewrite (proj2 (aget_None_keys (f a) x)) by (apply Hd; simpl; auto).
    apply IH; auto.
    + destruct Hin; [contradiction|auto].
    + intros; apply Hd; simpl; auto.
Qed.

Lemma NoDup_app_intro {A} (a b : list A) : NoDup a -> NoDup b -> (forall x, In x a -> ~ In x b) -> NoDup (a ++ b).
Proof.
  induction a as [|x a IH]; intros Ha Hb H; simpl; auto.
  inversion Ha; subst. constructor.
  - rewrite in_app_iff. intros [E|E]; [auto|]. apply (H x); simpl; auto.
  - apply IH; auto. intros; apply H; simpl; auto.
Qed.
(* ================================================================================================ *)
(* STAR                                                                                             *)
(* ================================================================================================ *)
Lemma arm_id_inj C c j c' j' : c < C -> c' < C -> arm_id C c j = arm_id C c' j' -> c = c' /\ j = j'.
Proof. unfold arm_id, id. intros. apply (lin_inj C); auto; lia. Qed.

Lemma arm_id_neq_center C c j : arm_id C c j <> center_id.
Proof. unfold arm_id, center_id, id. lia. Qed.

(* shape of chain node j in a chain of cl nodes; the steps a .. a+k-1 of chain c as a path *)
Definition arm_shape (d cl j : nat) : list nat := if j =? cl - 1 then [1; d] else [1; 1; d].
Definition arm_steps (C d cl c a k : nat) : list pstep :=
  map (fun j => (arm_id C c j, arm_shape d cl j, 0)) (seq a k).
(* the loop body of constant_product_state (bug = false) *)
Definition star_body (C d cl : nat) : star -> nat * nat -> option star :=
  fun m ij => bind (star_chain_shape false d (snd ij =? cl - 1))
                   (fun shp => star_add_chain_node C m shp (fst ij)).

Lemma star_body_eq C d cl m i j : star_body C d cl m (i, j) = star_add_chain_node C m (arm_shape d cl j) i.
Proof. reflexivity. Qed.

Lemma path_ids_arm C d cl c a k : path_ids (arm_steps C d cl c a k) = map (arm_id C c) (seq a k).
Proof. unfold path_ids, arm_steps. rewrite map_map. reflexivity. Qed.

Lemma arm_steps_cleg C d cl c a k : Forall (fun t : pstep => snd t <= 1) (arm_steps C d cl c a k).
Proof. apply Forall_forall. intros t Ht. apply in_map_iff in Ht. destruct Ht as (j & <- & _). simpl; lia. Qed.

(* the rest of a chain whose head exists: one attach_path on the current last node *)
Lemma star_tail C d cl : forall k a m pre ch p pn cn,
  chains m = pre ++ [ch] -> last ch 0 = p -> length ch = a -> p <> center_id ->
  aget center_id (nodes (sst m)) = Some cn -> length pre <= nlegs cn ->
  aget p (nodes (sst m)) = Some pn -> nvirt pn = 1 ->
  forM (map (fun j => (length pre, j)) (seq a k)) (Some m) (star_body C d cl)
  = option_map (fun s' => {| sst := s'; chains := pre ++ [ch ++ map (arm_id C (length pre)) (seq a k)];
                             slabels := slabels m ++ map (fun j => (arm_id C (length pre) j, LArm (length pre) j)) (seq a k) |})
               (attach_path (sst m) p 1 (arm_steps C d cl (length pre) a k)).
Proof.
  induction k as [|k IH]; intros a m pre ch p pn cn Hch Hlast Hlen Hpc Hcn Hle Hpn Hv.
  - simpl. rewrite !app_nil_r, <- Hch. destruct m; reflexivity.
  - unfold arm_steps. cbn [seq map]. rewrite forM_cons. cbn [bind attach_path]. rewrite star_body_eq.
    unfold star_add_chain_node. rewrite Hcn.
    destruct (Nat.ltb_spec (nlegs cn) (length pre)); [lia|].
    rewrite Hch, app_length. cbn [length].
    destruct (Nat.ltb_spec (length pre + 1) (length pre)); [lia|].
    destruct (Nat.eqb_spec (length pre) (length pre + 1)); [lia|].
    rewrite app_nth2, Nat.sub_diag by lia. cbn [nth]. rewrite Hlast, Hpn, Hlen, Hv.
    destruct (add_child (sst m) (arm_id C (length pre) a) (arm_shape d cl a) 0 p 1) as [s1|] eqn:E1; cbn [bind].
    2:{ rewrite forM_None. reflexivity. }
    rewrite <- Hv in E1.
    destruct (add_child_spec _ _ _ _ _ _ _ Hpn E1 (Nat.le_0_l 1)) as (Hx & Hxp & Hcl & Hpl & Hn & _).
    set (c := arm_id C (length pre) a) in *.
    set (m1 := {| sst := s1; chains := set_nth (length pre) (ch ++ [c]) (pre ++ [ch]);
                  slabels := slabels m ++ [(c, LArm (length pre) a)] |}).
    assert (Hc0 : c <> center_id) by apply arm_id_neq_center.
    rewrite (IH (S a) m1 pre (ch ++ [c]) c (mk_child (arm_shape d cl a) p 0) cn).
    + cbn [sst slabels m1]. fold (arm_steps C d cl (length pre) (S a) k).
      destruct (attach_path s1 c 1 (arm_steps C d cl (length pre) (S a) k)); cbn [option_map]; auto.
      rewrite <- !app_assoc. reflexivity.
    + unfold m1; cbn [chains]. apply set_nth_app_last.
    + apply last_snoc.
    + rewrite app_length; simpl; lia.
    + exact Hc0.
    + unfold m1; cbn [sst]. rewrite Hn, aget_aset_neq, aget_app, Hcn by auto. reflexivity.
    + exact Hle.
    + unfold m1; cbn [sst]. rewrite Hn, aget_aset_neq, aget_app, Hx by auto. simpl. rewrite Nat.eqb_refl. reflexivity.
    + reflexivity.
Qed.

(* a whole chain: one attach_path on the centre's first open leg *)
Lemma star_chain C d cl : 1 <= cl -> forall m cn,
  aget center_id (nodes (sst m)) = Some cn -> length (chains m) <= nlegs cn ->
  forM (map (fun j => (length (chains m), j)) (seq 0 cl)) (Some m) (star_body C d cl)
  = option_map (fun s' => {| sst := s'; chains := chains m ++ [map (arm_id C (length (chains m))) (seq 0 cl)];
                             slabels := slabels m ++ map (fun j => (arm_id C (length (chains m)) j, LArm (length (chains m)) j)) (seq 0 cl) |})
               (attach_path (sst m) center_id (nvirt cn) (arm_steps C d cl (length (chains m)) 0 cl)).
Proof.
  intros Hcl m cn Hcn Hle. destruct cl as [|k]; [lia|].
  unfold arm_steps. cbn [seq map]. rewrite forM_cons. cbn [bind attach_path]. rewrite star_body_eq.
  unfold star_add_chain_node. rewrite Hcn.
  destruct (Nat.ltb_spec (nlegs cn) (length (chains m))); [lia|].
  rewrite Nat.ltb_irrefl, Nat.eqb_refl.
  set (i := length (chains m)) in *.
  destruct (add_child (sst m) (arm_id C i 0) (arm_shape d (S k) 0) 0 center_id (nvirt cn)) as [s1|] eqn:E1; cbn [bind].
  2:{ rewrite forM_None. reflexivity. }
  destruct (add_child_spec _ _ _ _ _ _ _ Hcn E1 (Nat.le_0_l 1)) as (Hx & Hxp & Hcl' & Hpl & Hn & _).
  set (c := arm_id C i 0) in *.
  set (m1 := {| sst := s1; chains := chains m ++ [[c]]; slabels := slabels m ++ [(c, LArm i 0)] |}).
  pose proof (star_tail C d (S k) k 1 m1 (chains m) [c] c (mk_child (arm_shape d (S k) 0) center_id 0) (with_child cn c)) as T.
  fold i in T. rewrite T; clear T.
  - cbn [sst slabels m1]. fold (arm_steps C d (S k) i 1 k).
    destruct (attach_path s1 c 1 (arm_steps C d (S k) i 1 k)); cbn [option_map]; auto.
    rewrite <- !app_assoc. reflexivity.
  - reflexivity.
  - reflexivity.
  - reflexivity.
  - apply arm_id_neq_center.
  - unfold m1; cbn [sst]. rewrite Hn, aget_aset_eq. reflexivity.
  - rewrite nlegs_with_child. exact Hle.
  - unfold m1; cbn [sst]. rewrite Hn, aget_aset_neq, aget_app, Hx by auto. simpl. rewrite Nat.eqb_refl. reflexivity.
  - reflexivity.
Qed.

(* acceptance of a chain: all bonds have dimension 1 *)
Lemma arm_dims_ok C d cl c : forall k a, a + k = cl -> path_dims_ok 1 (arm_steps C d cl c a k).
Proof.
  induction k as [|k IH]; intros a Hk; [exact I|].
  unfold arm_steps. cbn [seq map]. fold (arm_steps C d cl c (S a) k).
  cbn [path_dims_ok].
  destruct (Nat.eqb_spec a (cl - 1)) as [E|E].
  - assert (k = 0) by lia. subst k. unfold arm_shape. rewrite (proj2 (Nat.eqb_eq _ _) E). simpl. repeat split; lia.
  - assert (Esh : arm_shape d cl a = [1; 1; d]) by (unfold arm_shape; rewrite (proj2 (Nat.eqb_neq _ _) E); reflexivity).
    rewrite Esh. split; [lia|]. split; [simpl; lia|]. split; [reflexivity|].
    destruct k as [|k]; [exact I|].
    pose proof (IH (S a) ltac:(lia)) as IH'.
    destruct (arm_steps C d cl c (S a) (S k)) eqn:Es; [exact I|].
    split; [simpl; lia|]. exact IH'.
Qed.

(* ---- closed forms -------------------------------------------------------------------------------- *)
Definition star_heads (cl nc i : nat) : list id :=
  if cl =? 0 then [] else map (fun c => arm_id (S nc) c 0) (seq 0 i).
(* the node dictionary after the first i chains *)
Definition star_nodes_upto (d cl nc i : nat) : list (id * node) :=
  (center_id, add_children (new_node (repeat 1 nc ++ [d])) (star_heads cl nc i))
  :: flat_map (fun c => chain_nodes center_id (arm_steps (S nc) d cl c 0 cl)) (seq 0 i).
Definition star_nodes (d cl nc : nat) : list (id * node) := star_nodes_upto d cl nc nc.
Definition star_chains_upto (cl nc i : nat) : list (list id) :=
  if cl =? 0 then [] else map (fun c => map (arm_id (S nc) c) (seq 0 cl)) (seq 0 i).
Definition star_chains (cl nc : nat) : list (list id) := star_chains_upto cl nc nc.
Definition star_labels_upto (cl nc i : nat) : list (id * lbl) :=
  (center_id, LCenter) :: flat_map (fun c => map (fun j => (arm_id (S nc) c j, LArm c j)) (seq 0 cl)) (seq 0 i).
Definition star_labels (cl nc : nat) : list (id * lbl) := star_labels_upto cl nc nc.

Lemma star_upto_keys d cl nc i :
  akeys (star_nodes_upto d cl nc i) = center_id :: flat_map (fun c => map (arm_id (S nc) c) (seq 0 cl)) (seq 0 i).
Proof.
  unfold star_nodes_upto.
  change (akeys (?a :: ?l)) with (fst a :: akeys l). cbn [fst]. f_equal.
  rewrite akeys_flat_map. apply flat_map_ext. intros c. rewrite akeys_chain_nodes. apply path_ids_arm.
Qed.

Lemma star_upto_length cl nc i : length (star_chains_upto cl nc i) = if cl =? 0 then 0 else i.
Proof. unfold star_chains_upto. destruct (cl =? 0); simpl; auto. rewrite map_length, seq_length. reflexivity. Qed.

(* the state after the first i chains *)
Lemma star_prefix d cl nc s0 : 1 <= cl ->
  add_root empty_store center_id (repeat 1 nc ++ [d]) = Some s0 ->
  forall i, i <= nc ->
  exists s, forM (flat_map (fun c => map (fun j => (c, j)) (seq 0 cl)) (seq 0 i))
                 (Some {| sst := s0; chains := []; slabels := [(center_id, LCenter)] |}) (star_body (S nc) d cl)
            = Some {| sst := s; chains := star_chains_upto cl nc i; slabels := star_labels_upto cl nc i |}
    /\ nodes s = star_nodes_upto d cl nc i /\ root s = Some center_id /\ dims_bounded s
    /\ (forall leg, i <= leg -> leg < nc -> leg_dim s center_id leg 1).
Proof.
  intros Hcl E0. destruct (add_root_spec _ _ _ E0) as (Hn0 & Hroot0 & HB0 & Hld0).
  assert (Ecl : (cl =? 0) = false) by (apply Nat.eqb_neq; lia).
  induction i as [|i IH]; intros Hi.
  - exists s0. unfold star_chains_upto, star_labels_upto, star_nodes_upto, star_heads. rewrite Ecl. simpl.
    split; [reflexivity|]. split; [rewrite add_children_nil; exact Hn0|]. split; [exact Hroot0|]. split; [exact HB0|].
    intros leg _ Hl. pose proof (Hld0 leg) as H. rewrite app_length, repeat_length in H. simpl in H.
    rewrite app_nth1, nth_repeat_lt in H by (rewrite ?repeat_length; lia). apply H. lia.
  - destruct (IH ltac:(lia)) as (s & EF & Hn & Hr & HB & Hld). clear IH.
    rewrite seq_S, flat_map_app, forM_app, EF. cbn [flat_map plus]. rewrite app_nil_r.
    set (m := {| sst := s; chains := star_chains_upto cl nc i; slabels := star_labels_upto cl nc i |}).
    set (cn := add_children (new_node (repeat 1 nc ++ [d])) (star_heads cl nc i)).
    assert (Hcn : aget center_id (nodes (sst m)) = Some cn).
    { unfold m; cbn [sst]. rewrite Hn. reflexivity. }
    assert (Hlen : length (chains m) = i).
    { unfold m; cbn [chains]. rewrite star_upto_length, Ecl. reflexivity. }
    assert (Hnl : nlegs cn = S nc).
    { unfold nlegs, cn, add_children, new_node; simpl. rewrite seq_length, app_length, repeat_length. simpl. lia. }
    assert (Hnv : nvirt cn = i).
    { unfold nvirt, nparents, cn, add_children, new_node, star_heads; simpl. rewrite Ecl, map_length, seq_length. reflexivity. }
    pose proof (star_chain (S nc) d cl Hcl m cn Hcn ltac:(lia)) as SC. rewrite Hlen in SC. rewrite SC. clear SC.
    set (steps := arm_steps (S nc) d cl i 0 cl).
    assert (Hfresh : forall x, In x (path_ids steps) -> aget x (nodes s) = None).
    { intros x Hx. unfold steps in Hx. rewrite path_ids_arm in Hx. apply in_map_iff in Hx. destruct Hx as (j & <- & Hj).
      apply aget_None_keys. rewrite Hn, star_upto_keys. intros [E|E].
      - symmetry in E. revert E. apply arm_id_neq_center.
      - apply in_flat_map in E. destruct E as (c & Hc & E). apply in_seq in Hc.
        apply in_map_iff in E. destruct E as (j' & E & _). apply arm_id_inj in E; lia. }
    assert (Hnd : NoDup (path_ids steps)).
    { unfold steps. rewrite path_ids_arm. apply FinFun.Injective_map_NoDup; [|apply seq_NoDup].
      intros j j' E. apply arm_id_inj in E; lia. }
    unfold m in *. clear m. cbn [sst chains slabels] in *.
    destruct (attach_path_accepts steps s center_id cn 1 Hcn ltac:(lia)) as (s' & Hp & HB' & Hfr); auto.
    { rewrite Hnv. apply Hld; lia. }
    { apply arm_dims_ok. lia. }
    rewrite Hp. cbn [option_map].
    destruct (attach_path_nodes _ _ _ _ _ Hcn Hp (arm_steps_cleg _ _ _ _ _ _)) as (Hn' & Hr' & _).
    exists s'. split; [|split; [|split; [|split]]].
    + f_equal. f_equal.
      * unfold star_chains_upto. rewrite Ecl, seq_S, map_app. reflexivity.
      * unfold star_labels_upto. rewrite seq_S, flat_map_app. cbn [flat_map plus]. rewrite app_nil_r. reflexivity.
    + rewrite Hn'. unfold steps. destruct cl as [|k]; [lia|]. unfold arm_steps at 1. cbn [seq map path_nodes].
      fold (arm_steps (S nc) d (S k) i 0 (S k)). rewrite Hn. unfold star_nodes_upto at 1.
      unfold center_id at 1 2. cbn [aset Nat.eqb]. fold center_id.
      unfold star_nodes_upto. rewrite seq_S, flat_map_app. cbn [flat_map plus]. rewrite app_nil_r.
      cbn [app]. f_equal. f_equal. fold cn. unfold cn. rewrite with_child_add, add_children_app. f_equal.
      unfold star_heads. cbn [Nat.eqb]. rewrite seq_S, map_app. reflexivity.
    + congruence.
    + exact HB'.
    + intros leg H1 H2. apply Hfr.
      * unfold steps. rewrite path_ids_arm. intros Hin. apply in_map_iff in Hin. destruct Hin as (j & E & _).
        revert E. apply arm_id_neq_center.
      * apply Hld; lia.
Qed.

(* ---- the closed form, identifier by identifier ---------------------------------------------------- *)
Definition center_node (d cl nc : nat) : node :=
  {| parent := None; children := star_heads cl nc nc; perm := seq 0 (S nc); shape := repeat 1 nc ++ [d] |}.
Definition arm_node (d cl nc c j : nat) : node :=
  {| parent := Some (if j =? 0 then center_id else arm_id (S nc) c (j - 1));
     children := if S j <? cl then [arm_id (S nc) c (S j)] else [];
     perm := seq 0 (length (arm_shape d cl j)); shape := arm_shape d cl j |}.

Lemma aget_arm_chain C d cl c : 0 < C -> forall k a p j, a <= j < a + k ->
  aget (arm_id C c j) (chain_nodes p (arm_steps C d cl c a k))
  = Some {| parent := Some (if j =? a then p else arm_id C c (j - 1));
            children := if S j <? a + k then [arm_id C c (S j)] else [];
            perm := seq 0 (length (arm_shape d cl j)); shape := arm_shape d cl j |}.
Proof.
  intros HC. induction k as [|k IH]; intros a p j Hj; [lia|].
  unfold arm_steps. cbn [seq map chain_nodes]. fold (arm_steps C d cl c (S a) k).
  cbn [aget].
  destruct (Nat.eqb_spec j a) as [->|Nja].
  - rewrite Nat.eqb_refl. f_equal.
    destruct k as [|k].
    + cbn [arm_steps seq map]. destruct (Nat.ltb_spec (S a) (a + 1)); [lia|]. reflexivity.
    + unfold arm_steps. cbn [seq map]. destruct (Nat.ltb_spec (S a) (a + S (S k))); [|lia]. reflexivity.
  - assert (E : (arm_id C c j =? arm_id C c a) = false).
    { apply Nat.eqb_neq. unfold arm_id, id. intros E. assert (j * C = a * C) by lia.
      apply Nat.mul_cancel_r in H; lia. }
    rewrite E. rewrite IH by lia.
    destruct (Nat.eqb_spec j (S a)) as [->|N2].
    + replace (S a - 1) with a by lia. replace (S a + k) with (a + S k) by lia. reflexivity.
    + replace (S a + k) with (a + S k) by lia. reflexivity.
Qed.

Lemma star_nodes_center d cl nc : aget center_id (star_nodes d cl nc) = Some (center_node d cl nc).
Proof.
  unfold star_nodes, star_nodes_upto, center_node, add_children, new_node. cbn [aget center_id Nat.eqb parent children perm shape app].
  rewrite app_length, repeat_length, Nat.add_1_r. reflexivity.
Qed.

Lemma star_nodes_arm d cl nc c j : c < nc -> j < cl ->
  aget (arm_id (S nc) c j) (star_nodes d cl nc) = Some (arm_node d cl nc c j).
Proof.
  intros Hc Hj. unfold star_nodes, star_nodes_upto. cbn [aget].
  assert (E : (arm_id (S nc) c j =? center_id) = false) by (apply Nat.eqb_neq, arm_id_neq_center).
  rewrite E.
  rewrite (aget_flat_map_unique _ _ c).
  - rewrite aget_arm_chain by lia. reflexivity.
  - apply seq_NoDup.
  - apply in_seq; lia.
  - intros c' Hc' N. apply in_seq in Hc'. rewrite akeys_chain_nodes, path_ids_arm. intros Hin.
    apply in_map_iff in Hin. destruct Hin as (j' & E' & _). apply arm_id_inj in E'; lia.
Qed.

Lemma star_nodes_keys d cl nc :
  akeys (star_nodes d cl nc) = center_id :: flat_map (fun c => map (arm_id (S nc) c) (seq 0 cl)) (seq 0 nc).
Proof. apply star_upto_keys. Qed.

Lemma star_nodes_length d cl nc : length (star_nodes d cl nc) = 1 + nc * cl.
Proof.
  rewrite <- (map_length fst). change (map fst (star_nodes d cl nc)) with (akeys (star_nodes d cl nc)).
  rewrite star_nodes_keys. cbn [length]. f_equal.
  rewrite (flat_map_length_const _ cl).
  - rewrite seq_length. reflexivity.
  - intros. rewrite map_length, seq_length. reflexivity.
Qed.

Lemma star_nodes_NoDup d cl nc : NoDup (akeys (star_nodes d cl nc)).
Proof.
  rewrite star_nodes_keys. constructor.
  - intros Hin. apply in_flat_map in Hin. destruct Hin as (c & _ & Hin). apply in_map_iff in Hin.
    destruct Hin as (j & E & _). revert E. apply arm_id_neq_center.
  - assert (G : forall n, n <= nc -> NoDup (flat_map (fun c => map (arm_id (S nc) c) (seq 0 cl)) (seq 0 n))).
    { induction n as [|n IH]; intros Hn; [constructor|].
      rewrite seq_S, flat_map_app. cbn [flat_map plus]. rewrite app_nil_r.
      apply NoDup_app_intro; [apply IH; lia| |].
      - apply FinFun.Injective_map_NoDup; [|apply seq_NoDup]. intros j j' E. apply arm_id_inj in E; lia.
      - intros x Hx Hx'. apply in_flat_map in Hx. destruct Hx as (c & Hc & Hx). apply in_seq in Hc.
        apply in_map_iff in Hx. destruct Hx as (j & <- & _). apply in_map_iff in Hx'. destruct Hx' as (j' & E & _).
        apply arm_id_inj in E; lia. }
    apply G; lia.
Qed.

(* ---- the store invariant ---------------------------------------------------------------------------- *)
Lemma star_add_chain_node_wf C m shp ci m' :
  Inv.wf (sst m) -> star_add_chain_node C m shp ci = Some m' -> Inv.wf (sst m').
Proof.
  intros Hw Hb. unfold star_add_chain_node in Hb.
  destruct (aget center_id (nodes (sst m))) as [cn|]; [|discriminate].
  destruct (nlegs cn <? ci); [discriminate|].
  destruct (length (chains m) <? ci); [discriminate|].
  destruct (ci =? length (chains m)).
  - destruct (add_child (sst m) _ shp 0 center_id (nvirt cn)) as [s2|] eqn:E; simpl in Hb; [|discriminate].
    inversion Hb; subst; simpl. eapply add_child_preserves_wf; eauto.
  - destruct (aget (last (nth ci (chains m) []) 0) (nodes (sst m))) as [pn|]; [|discriminate].
    destruct (add_child (sst m) _ shp 0 _ (nvirt pn)) as [s2|] eqn:E; simpl in Hb; [|discriminate].
    inversion Hb; subst; simpl. eapply add_child_preserves_wf; eauto.
Qed.

Theorem star_cps_wf bug sv dim clen nch m vals :
  star_cps bug sv dim clen nch = Some (m, vals) -> wfb (sst m) = true.
Proof.
  intros H. apply wfb_iff. revert H. unfold star_cps.
  destruct (negb (check_ps sv dim)); [discriminate|].
  destruct ((nch <? 0)%Z || (clen <? 0)%Z); [discriminate|]. cbv zeta.
  unfold star_add_center.
  destruct (add_root empty_store center_id _) as [s0|] eqn:E0; cbn [bind]; [|discriminate].
  pose proof (add_root_wf _ _ _ _ blank_empty E0) as W0.
  match goal with |- context [forM ?l ?s ?b] => destruct (forM l s b) as [m1|] eqn:EF end; cbn [bind]; [|discriminate].
  intros H; inversion H; subst; clear H.
  eapply (forM_inv (fun m => Inv.wf (sst m))); [| |exact EF]; [|exact W0].
  intros s x s1 Hw Hb. cbv beta in Hb.
  destruct (star_chain_shape bug _ _) as [shp|]; cbn [bind] in Hb; [|discriminate].
  eapply star_add_chain_node_wf; eauto.
Qed.

(* ---- the universal statement --------------------------------------------------------------------- *)
(* the multi-index of the single non-zero entry of every tensor *)
Definition star_values (v cl nc : nat) : list (id * list nat) :=
  (center_id, repeat 0 nc ++ [v])
  :: flat_map (fun i => map (fun j => (arm_id (S nc) i j, if j =? cl - 1 then [0; v] else [0; 0; v])) (seq 0 cl)) (seq 0 nc).

Lemma star_cps_unfold sv dim clen nch :
  star_cps false sv dim clen nch
  = if negb (check_ps sv dim) then None else
    if (nch <? 0)%Z || (clen <? 0)%Z then None else
    bind (star_add_center (repeat 1 (Z.to_nat nch) ++ [Z.to_nat dim])) (fun m0 =>
    bind (forM (flat_map (fun i => map (fun j => (i, j)) (seq 0 (Z.to_nat clen))) (seq 0 (Z.to_nat nch))) (Some m0)
               (star_body (S (Z.to_nat nch)) (Z.to_nat dim) (Z.to_nat clen)))
         (fun m => Some (m, star_values (Z.to_nat sv) (Z.to_nat clen) (Z.to_nat nch)))).
Proof. reflexivity. Qed.

Theorem star_cps_univ (sv dim clen nch : Z) :
  check_ps sv dim = true -> (0 <= clen)%Z -> (0 <= nch)%Z ->
  exists m, star_cps false sv dim clen nch
            = Some (m, star_values (Z.to_nat sv) (Z.to_nat clen) (Z.to_nat nch))
    /\ nodes (sst m) = star_nodes (Z.to_nat dim) (Z.to_nat clen) (Z.to_nat nch)
    /\ root (sst m) = Some center_id
    /\ chains m = star_chains (Z.to_nat clen) (Z.to_nat nch)
    /\ slabels m = star_labels (Z.to_nat clen) (Z.to_nat nch)
    /\ wfb (sst m) = true.
Proof.
  intros Hck Hcl Hnc.
  assert (G : exists m, star_cps false sv dim clen nch
            = Some (m, star_values (Z.to_nat sv) (Z.to_nat clen) (Z.to_nat nch))
    /\ nodes (sst m) = star_nodes (Z.to_nat dim) (Z.to_nat clen) (Z.to_nat nch)
    /\ root (sst m) = Some center_id
    /\ chains m = star_chains (Z.to_nat clen) (Z.to_nat nch)
    /\ slabels m = star_labels (Z.to_nat clen) (Z.to_nat nch)).
  { rewrite star_cps_unfold, Hck. cbn [negb].
    destruct (Z.ltb_spec nch 0); [lia|]. destruct (Z.ltb_spec clen 0); [lia|]. cbn [orb].
    set (d := Z.to_nat dim). set (cl := Z.to_nat clen). set (nc := Z.to_nat nch).
    unfold star_add_center.
    destruct (add_root_accepted empty_store center_id (repeat 1 nc ++ [d]) eq_refl) as (s0 & E0).
    rewrite E0. cbn [bind].
    destruct (Nat.eq_dec cl 0) as [Z0|NZ].
    - rewrite Z0. cbn [seq map]. rewrite flat_map_nil. cbn [forM fold_left bind].
      destruct (add_root_spec _ _ _ E0) as (Hn0 & Hroot0 & _).
      eexists. split; [reflexivity|]. cbn [sst chains slabels].
      unfold star_nodes, star_nodes_upto, star_chains, star_chains_upto, star_labels, star_labels_upto, star_heads.
      cbn [Nat.eqb seq map]. rewrite !flat_map_nil, add_children_nil.
      unfold arm_steps. cbn [seq map chain_nodes]. rewrite flat_map_nil. auto.
    - destruct (star_prefix d cl nc s0 ltac:(lia) E0 nc (le_n _)) as (s & EF & Hn & Hr & _).
      rewrite EF. cbn [bind]. eexists. split; [reflexivity|]. cbn [sst chains slabels]. auto. }
  destruct G as (m & E & G). exists m. split; [exact E|].
  destruct G as (G1 & G2 & G3 & G4). repeat split; auto.
  eapply star_cps_wf; eauto.
Qed.

Corollary star_cps_count (sv dim clen nch : Z) m vals :
  check_ps sv dim = true -> (0 <= clen)%Z -> (0 <= nch)%Z ->
  star_cps false sv dim clen nch = Some (m, vals) ->
  length (nodes (sst m)) = 1 + Z.to_nat nch * Z.to_nat clen.
Proof.
  intros Hck Hcl Hnc H. destruct (star_cps_univ sv dim clen nch Hck Hcl Hnc) as (m' & E & Hn & _).
  rewrite E in H. inversion H; subst. rewrite Hn. apply star_nodes_length.
Qed.

(* the same with natural-number parameters: dimension >= 1, state value < dimension *)
Corollary star_cps_univ_nat (sv dim cl nc : nat) : 1 <= dim -> sv < dim ->
  exists m, star_cps false (Z.of_nat sv) (Z.of_nat dim) (Z.of_nat cl) (Z.of_nat nc) = Some (m, star_values sv cl nc)
    /\ nodes (sst m) = star_nodes dim cl nc /\ root (sst m) = Some center_id
    /\ length (nodes (sst m)) = 1 + nc * cl
    /\ chains m = star_chains cl nc /\ slabels m = star_labels cl nc /\ wfb (sst m) = true.
Proof.
  intros Hd Hs.
  assert (Hck : check_ps (Z.of_nat sv) (Z.of_nat dim) = true).
  { unfold check_ps. destruct (Z.ltb_spec 0 (Z.of_nat dim)); [|lia].
    destruct (Z.ltb_spec (Z.of_nat sv) (Z.of_nat dim)); [|lia].
    destruct (Z.leb_spec 0 (Z.of_nat sv)); [|lia]. reflexivity. }
  destruct (star_cps_univ _ _ (Z.of_nat cl) (Z.of_nat nc) Hck ltac:(lia) ltac:(lia)) as (m & E & Hn & Hr & Hc & Hl & Hw).
  rewrite !Nat2Z.id in *. exists m. repeat split; auto. rewrite Hn. apply star_nodes_length.
Qed.

Example star_example :
  option_map (fun mv => (nodes (sst (fst mv)), chains (fst mv))) (star_cps false 1 3 2 3)
  = Some (star_nodes 3 2 3, [[1; 5]; [2; 6]; [3; 7]]).
Proof. vm_compute. reflexivity. Qed.

(* ================================================================================================ *)
(* more generic helpers (paths whose steps are given by functions of an index)                      *)
(* ================================================================================================ *)
Lemma sn_length {A} (l : list A) : forall i x, length (set_nth i x l) = length l.
Proof. induction l as [|a l IH]; intros [|i] x; simpl; auto. Qed.
Lemma sn_same {A} (l : list A) : forall i x d, i < length l -> nth i (set_nth i x l) d = x.
Proof. induction l as [|a l IH]; intros [|i] x d H; simpl in *; auto; try lia. apply IH; lia. Qed.
Lemma sn_twice {A} (l : list A) : forall i x y, set_nth i y (set_nth i x l) = set_nth i y l.
Proof. induction l as [|a l IH]; intros [|i] x y; simpl; auto. rewrite IH; auto. Qed.
Lemma sn_nth {A} (l : list A) : forall i d, set_nth i (nth i l d) l = l.
Proof. induction l as [|a l IH]; intros [|i] d; simpl; auto. rewrite IH; auto. Qed.

(* what success of a path tells about the wires of the attached nodes *)
Theorem attach_path_legs xs : forall s e en s',
  aget e (nodes s) = Some en -> attach_path s e (nvirt en) xs = Some s' ->
  Forall (fun t : pstep => snd t <= 1) xs -> dims_bounded s ->
  dims_bounded s'
  /\ (forall y leg d, leg_dim s y leg d -> leg_dim s' y leg d)
  /\ (forall x shp cleg, In (x, shp, cleg) xs -> forall leg, 1 <= leg -> leg < length shp ->
        leg_dim s' x leg (nth (nth leg (child_perm (length shp) cleg) 0) shp 0)).
Proof.
  induction xs as [|[[x shp] cleg] rest IH]; intros s e en s' He H Hc B.
  - simpl in H. inversion H; subst. repeat split; auto. intros ? ? ? [].
  - simpl in H. destruct (add_child s x shp cleg e (nvirt en)) as [s1|] eqn:E1; simpl in H; [|discriminate].
    inversion Hc as [|? ? Hc0 Hc']; subst. simpl in Hc0.
    destruct (add_child_spec _ _ _ _ _ _ _ He E1 Hc0) as (Hx & Hxe & Hcl & Hpl & Hn & Hr & HB & Hframe & Hnew).
    assert (Hx1 : aget x (nodes s1) = Some (mk_child shp e cleg)).
    { rewrite Hn, aget_aset_neq, aget_app, Hx by auto. simpl. rewrite Nat.eqb_refl. auto. }
    change 1 with (nvirt (mk_child shp e cleg)) in H.
    destruct (IH _ _ _ _ Hx1 H Hc' (HB B)) as (B' & Hfr' & Hnew').
    assert (Hfr : forall y leg d, leg_dim s y leg d -> leg_dim s1 y leg d).
    { intros y leg d Hl. apply Hframe; auto. intros ->. destruct Hl as (yn & yt & Hy & _). congruence. }
    split; [exact B'|]. split.
    + intros y leg d Hl. apply Hfr', Hfr, Hl.
    + intros x' shp' cleg' [E|Hin] leg H1 H2.
      * inversion E; subst. apply Hfr'. apply Hnew; auto.
      * eapply Hnew'; eauto.
Qed.

(* the records of a path given by index functions *)
Lemma chain_nodes_map (key : nat -> id) (shp : nat -> list nat) : forall k a p,
  chain_nodes p (map (fun j => (key j, shp j, 0)) (seq a k))
  = map (fun j => (key j, {| parent := Some (if j =? a then p else key (j - 1));
                            children := if S j <? a + k then [key (S j)] else [];
                            perm := seq 0 (length (shp j)); shape := shp j |})) (seq a k).
Proof.
  induction k as [|k IH]; intros a p; [reflexivity|].
  cbn [seq map chain_nodes]. rewrite IH. rewrite Nat.eqb_refl. f_equal.
  - f_equal. destruct k as [|k].
    + cbn [seq map]. destruct (Nat.ltb_spec (S a) (a + 1)); [lia|]. reflexivity.
    + cbn [seq map]. destruct (Nat.ltb_spec (S a) (a + S (S k))); [|lia]. reflexivity.
  - apply map_ext_in. intros j Hj. apply in_seq in Hj. f_equal.
    destruct (Nat.eqb_spec j a); [lia|]. replace (S a + k) with (a + S k) by lia.
    destruct (Nat.eqb_spec j (S a)) as [->|]; [|reflexivity].
    replace (S a - 1) with a by lia. reflexivity.
Qed.

Lemma aget_map_inj {V} (key : nat -> nat) (f : nat -> V) l i :
  In i l -> (forall k, In k l -> key k = key i -> k = i) ->
  aget (key i) (map (fun k => (key k, f k)) l) = Some (f i).
Proof.
  induction l as [|a l IH]; intros Hin Hinj; [destruct Hin|].
  cbn [map aget]. destruct (Nat.eqb_spec (key i) (key a)) as [E|N].
  - rewrite (Hinj a) by (simpl; auto). reflexivity.
  - destruct Hin as [->|Hin]; [congruence|]. apply IH; auto. intros; apply Hinj; simpl; auto.
Qed.

Lemma aset_map_inj {V} (key : nat -> nat) (f : nat -> V) l i v :
  NoDup l -> In i l -> (forall k, In k l -> key k = key i -> k = i) ->
  aset (key i) v (map (fun k => (key k, f k)) l) = map (fun k => (key k, if k =? i then v else f k)) l.
Proof.
  induction l as [|a l IH]; intros Hnd Hin Hinj; [destruct Hin|].
  inversion Hnd as [|? ? Hna Hnd']; subst.
  cbn [map aset]. destruct (Nat.eqb_spec (key i) (key a)) as [E|N].
  - assert (a = i) by (apply Hinj; simpl; auto). subst a. rewrite Nat.eqb_refl. f_equal.
    apply map_ext_in. intros k Hk. destruct (Nat.eqb_spec k i); [subst; contradiction|reflexivity].
  - destruct (Nat.eqb_spec a i); [subst; congruence|]. f_equal.
    destruct Hin as [->|Hin]; [congruence|]. apply IH; auto. intros; apply Hinj; simpl; auto.
Qed.

Lemma akeys_map_key {V} (key : nat -> nat) (f : nat -> V) l : akeys (map (fun k => (key k, f k)) l) = map key l.
Proof. unfold akeys. rewrite map_map. reflexivity. Qed.

(* ================================================================================================ *)
(* FORK                                                                                             *)
(* ================================================================================================ *)
Definition fmain_shape (phys H bd i : nat) : list nat :=
  if (i =? 0) || (i =? H - 1) then [bd; bd; phys] else [bd; bd; bd; phys].
Definition fsub_shape (phys W bd j : nat) : list nat := if j =? W - 2 then [bd; phys] else [bd; bd; phys].
Definition fork_body (N : nat) : fork -> fcall -> option fork :=
  fun m c => match c with FMain shp => fork_add_main N m shp | FSub shp idx => fork_add_sub N m shp idx end.
Definition main_steps (N : nat) (shp : nat -> list nat) (a k : nat) : list pstep :=
  map (fun i => (main_id N i, shp i, 0)) (seq a k).
Definition sub_steps (N : nat) (shp : nat -> list nat) (i a k : nat) : list pstep :=
  map (fun j => (sub_id N i j, shp j, 0)) (seq a k).

Lemma steps_cleg (key : nat -> id) (shp : nat -> list nat) a k :
  Forall (fun t : pstep => snd t <= 1) (map (fun j => (key j, shp j, 0)) (seq a k)).
Proof. apply Forall_forall. intros t Ht. apply in_map_iff in Ht. destruct Ht as (j & <- & _). simpl; lia. Qed.

(* the main chain after its first node: one path on the current last node *)
Lemma fork_main_tail N shp : forall k a m p pn,
  length (mainc m) = a -> 1 <= a -> last (mainc m) 0 = p -> p = main_id N (a - 1) ->
  aget p (nodes (fst_ m)) = Some pn ->
  forM (map (fun i => FMain (shp i)) (seq a k)) (Some m) (fork_body N)
  = option_map (fun s' => {| fst_ := s'; mainc := mainc m ++ map (main_id N) (seq a k);
                             subc := subc m ++ repeat [] k;
                             flabels := flabels m ++ map (fun i => (main_id N i, LMain i)) (seq a k) |})
               (attach_path (fst_ m) p (nvirt pn) (main_steps N shp a k)).
Proof.
  induction k as [|k IH]; intros a m p pn Hlen Ha Hlast Hp Hpn.
  - simpl. rewrite !app_nil_r. destruct m; reflexivity.
  - unfold main_steps. cbn [seq map]. rewrite forM_cons. cbn [bind attach_path fork_body].
    unfold fork_add_main. rewrite Hlen, Hlast, Hpn, <- Hp.
    destruct (Nat.eqb_spec a 0); [lia|].
    destruct (add_child (fst_ m) (main_id N a) (shp a) 0 p (nvirt pn)) as [s1|] eqn:E1; cbn [bind].
    2:{ rewrite forM_None. reflexivity. }
    destruct (add_child_spec _ _ _ _ _ _ _ Hpn E1 (Nat.le_0_l 1)) as (Hx & Hxp & Hcl & Hpl & Hn & _).
    set (c := main_id N a) in *.
    set (m1 := {| fst_ := s1; mainc := mainc m ++ [c]; subc := subc m ++ [[]]; flabels := flabels m ++ [(c, LMain a)] |}).
    rewrite (IH (S a) m1 c (mk_child (shp a) p 0)).
    + cbn [fst_ mainc subc flabels m1]. fold (main_steps N shp (S a) k).
      change (nvirt (mk_child (shp a) p 0)) with 1.
      destruct (attach_path s1 c 1 (main_steps N shp (S a) k)); cbn [option_map]; auto.
      rewrite <- !app_assoc. reflexivity.
    + unfold m1; cbn [mainc]. rewrite app_length; simpl; lia.
    + lia.
    + unfold m1; cbn [mainc]. apply last_snoc.
    + unfold c. f_equal. lia.
    + unfold m1; cbn [fst_]. rewrite Hn, aget_aset_neq, aget_app, Hx by auto. simpl. rewrite Nat.eqb_refl. reflexivity.
Qed.

(* the rest of a sub chain whose head exists *)
Lemma fork_sub_tail N shp i : forall k a m sc p pn,
  i <= length (mainc m) -> i < length (subc m) -> nth i (subc m) [] = sc ->
  length sc = a -> 1 <= a -> last sc 0 = p -> p = sub_id N i (a - 1) ->
  aget p (nodes (fst_ m)) = Some pn ->
  forM (map (fun j => FSub (shp j) i) (seq a k)) (Some m) (fork_body N)
  = option_map (fun s' => {| fst_ := s'; mainc := mainc m;
                             subc := set_nth i (sc ++ map (sub_id N i) (seq a k)) (subc m);
                             flabels := flabels m ++ map (fun j => (sub_id N i j, LSub i j)) (seq a k) |})
               (attach_path (fst_ m) p (nvirt pn) (sub_steps N shp i a k)).
Proof.
  induction k as [|k IH]; intros a m sc p pn Hi Hi2 Hsc Hlen Ha Hlast Hp Hpn.
  - simpl. rewrite !app_nil_r, <- Hsc, sn_nth. destruct m; reflexivity.
  - unfold sub_steps. cbn [seq map]. rewrite forM_cons. cbn [bind attach_path fork_body].
    unfold fork_add_sub.
    destruct (Nat.ltb_spec (length (mainc m)) i); [lia|].
    destruct (Nat.leb_spec (length (subc m)) i); [lia|].
    rewrite Hsc, Hlen. destruct (Nat.eqb_spec a 0); [lia|]. rewrite Hlast, Hpn, <- Hp.
    destruct (add_child (fst_ m) (sub_id N i a) (shp a) 0 p (nvirt pn)) as [s1|] eqn:E1; cbn [bind].
    2:{ rewrite forM_None. reflexivity. }
    destruct (add_child_spec _ _ _ _ _ _ _ Hpn E1 (Nat.le_0_l 1)) as (Hx & Hxp & Hcl & Hpl & Hn & _).
    set (c := sub_id N i a) in *.
    set (m1 := {| fst_ := s1; mainc := mainc m; subc := set_nth i (sc ++ [c]) (subc m);
                  flabels := flabels m ++ [(c, LSub i a)] |}).
    rewrite (IH (S a) m1 (sc ++ [c]) c (mk_child (shp a) p 0)).
    + cbn [fst_ mainc subc flabels m1]. fold (sub_steps N shp i (S a) k).
      change (nvirt (mk_child (shp a) p 0)) with 1.
      destruct (attach_path s1 c 1 (sub_steps N shp i (S a) k)); cbn [option_map]; auto.
      rewrite sn_twice, <- !app_assoc. reflexivity.
    + exact Hi.
    + unfold m1; cbn [subc]. rewrite sn_length. exact Hi2.
    + unfold m1; cbn [subc]. apply sn_same. exact Hi2.
    + rewrite app_length; simpl; lia.
    + lia.
    + apply last_snoc.
    + unfold c. f_equal. lia.
    + unfold m1; cbn [fst_]. rewrite Hn, aget_aset_neq, aget_app, Hx by auto. simpl. rewrite Nat.eqb_refl. reflexivity.
Qed.

(* a whole sub chain: one path on the first open leg of its main-chain node *)
Lemma fork_sub_chain N shp i k m pn :
  i < length (mainc m) -> i < length (subc m) -> nth i (subc m) [] = [] ->
  nth i (mainc m) 0 = main_id N i -> aget (main_id N i) (nodes (fst_ m)) = Some pn ->
  forM (map (fun j => FSub (shp j) i) (seq 0 k)) (Some m) (fork_body N)
  = option_map (fun s' => {| fst_ := s'; mainc := mainc m;
                             subc := set_nth i (map (sub_id N i) (seq 0 k)) (subc m);
                             flabels := flabels m ++ map (fun j => (sub_id N i j, LSub i j)) (seq 0 k) |})
               (attach_path (fst_ m) (main_id N i) (nvirt pn) (sub_steps N shp i 0 k)).
Proof.
  intros Hi Hi2 Hsc Hmi Hpn. destruct k as [|k].
  - simpl. rewrite app_nil_r, <- Hsc, sn_nth. destruct m; reflexivity.
  - unfold sub_steps. cbn [seq map]. rewrite forM_cons. cbn [bind attach_path fork_body].
    unfold fork_add_sub.
    destruct (Nat.ltb_spec (length (mainc m)) i); [lia|].
    destruct (Nat.leb_spec (length (subc m)) i); [lia|].
    rewrite Hsc. cbn [length Nat.eqb]. rewrite Hmi, Hpn.
    destruct (add_child (fst_ m) (sub_id N i 0) (shp 0) 0 (main_id N i) (nvirt pn)) as [s1|] eqn:E1; cbn [bind].
    2:{ rewrite forM_None. reflexivity. }
    destruct (add_child_spec _ _ _ _ _ _ _ Hpn E1 (Nat.le_0_l 1)) as (Hx & Hxp & Hcl & Hpl & Hn & _).
    set (c := sub_id N i 0) in *.
    set (m1 := {| fst_ := s1; mainc := mainc m; subc := set_nth i ([] ++ [c]) (subc m);
                  flabels := flabels m ++ [(c, LSub i 0)] |}).
    rewrite (fork_sub_tail N shp i k 1 m1 [c] c (mk_child (shp 0) (main_id N i) 0)).
    + cbn [fst_ mainc subc flabels m1]. fold (sub_steps N shp i 1 k).
      change (nvirt (mk_child (shp 0) (main_id N i) 0)) with 1.
      destruct (attach_path s1 c 1 (sub_steps N shp i 1 k)); cbn [option_map]; auto.
      rewrite sn_twice, <- !app_assoc. reflexivity.
    + unfold m1; cbn [mainc]. lia.
    + unfold m1; cbn [subc]. rewrite sn_length. exact Hi2.
    + unfold m1; cbn [subc]. apply sn_same. exact Hi2.
    + reflexivity.
    + lia.
    + reflexivity.
    + reflexivity.
    + unfold m1; cbn [fst_]. rewrite Hn, aget_aset_neq, aget_app, Hx by auto. simpl. rewrite Nat.eqb_refl. reflexivity.
Qed.

Lemma main_id_inj N i j : 0 < N -> main_id N i = main_id N j -> i = j.
Proof. unfold main_id, id. intros HN E. apply Nat.mul_cancel_r in E; lia. Qed.
Lemma sub_main_neq N i j i' : j + 1 < N -> sub_id N i j <> main_id N i'.
Proof.
  unfold sub_id, main_id, id. intros HN E.
  destruct (lin_inj N (1 + j) i 0 i') as (A & _); try lia.
Qed.
Lemma sub_id_inj N i j i' j' : j + 1 < N -> j' + 1 < N -> sub_id N i j = sub_id N i' j' -> i = i' /\ j = j'.
Proof.
  unfold sub_id, id. intros H1 H2 E.
  destruct (lin_inj N (1 + j) i (1 + j') i') as (A & B); try lia.
Qed.

(* ---- closed forms -------------------------------------------------------------------------------- *)
(* main-chain node i when the first t sub chains exist; node j of sub chain i *)
Definition main_node (N phys W H bd i t : nat) : node :=
  {| parent := if i =? 0 then None else Some (main_id N (i - 1));
     children := (if S i <? H then [main_id N (S i)] else [])
                 ++ (if (i <? t) && (1 <? W) then [sub_id N i 0] else []);
     perm := seq 0 (length (fmain_shape phys H bd i)); shape := fmain_shape phys H bd i |}.
Definition sub_node (N phys W bd i j : nat) : node :=
  {| parent := Some (if j =? 0 then main_id N i else sub_id N i (j - 1));
     children := if S j <? W - 1 then [sub_id N i (S j)] else [];
     perm := seq 0 (length (fsub_shape phys W bd j)); shape := fsub_shape phys W bd j |}.
Definition fork_nodes_upto (N phys W H bd t : nat) : list (id * node) :=
  map (fun i => (main_id N i, main_node N phys W H bd i t)) (seq 0 H)
  ++ flat_map (fun i => map (fun j => (sub_id N i j, sub_node N phys W bd i j)) (seq 0 (W - 1))) (seq 0 t).
Definition fork_subc_upto (N W H t : nat) : list (list id) :=
  map (fun i => if i <? t then map (sub_id N i) (seq 0 (W - 1)) else []) (seq 0 H).
Definition fork_labels_upto (N W H t : nat) : list (id * lbl) :=
  map (fun i => (main_id N i, LMain i)) (seq 0 H)
  ++ flat_map (fun i => map (fun j => (sub_id N i j, LSub i j)) (seq 0 (W - 1))) (seq 0 t).
(* the first open leg of a main-chain node before its sub chain is attached *)
Definition mfirst (H i : nat) : nat := (if i =? 0 then 0 else 1) + (if S i <? H then 1 else 0).

Lemma main_node_nvirt N phys W H bd i t : t <= i -> nvirt (main_node N phys W H bd i t) = mfirst H i.
Proof.
  intros Ht. unfold nvirt, nparents, main_node, mfirst; cbn [parent children].
  destruct (Nat.ltb_spec i t); [lia|]. cbn [andb]. rewrite app_nil_r.
  destruct (i =? 0), (S i <? H); reflexivity.
Qed.

Lemma main_dims_ok N phys H bd : forall k a, 1 <= a -> a + k = H ->
  path_dims_ok bd (main_steps N (fmain_shape phys H bd) a k).
Proof.
  induction k as [|k IH]; intros a Ha Hk; [exact I|].
  unfold main_steps. cbn [seq map]. fold (main_steps N (fmain_shape phys H bd) (S a) k).
  cbn [path_dims_ok].
  assert (Esh : fmain_shape phys H bd a = [bd; bd; phys] \/ fmain_shape phys H bd a = [bd; bd; bd; phys]).
  { unfold fmain_shape. destruct ((a =? 0) || (a =? H - 1)); auto. }
  split; [lia|]. split; [destruct Esh as [-> | ->]; simpl; lia|]. split; [destruct Esh as [-> | ->]; reflexivity|].
  destruct k as [|k]; [exact I|].
  pose proof (IH (S a) ltac:(lia) ltac:(lia)) as IH'.
  destruct (main_steps N (fmain_shape phys H bd) (S a) (S k)) eqn:Es; [exact I|].
  split; [destruct Esh as [-> | ->]; simpl; lia|].
  destruct Esh as [-> | ->]; exact IH'.
Qed.

Lemma sub_dims_ok N phys W bd i : forall k a, a + k = W - 1 ->
  path_dims_ok bd (sub_steps N (fsub_shape phys W bd) i a k).
Proof.
  induction k as [|k IH]; intros a Hk; [exact I|].
  unfold sub_steps. cbn [seq map]. fold (sub_steps N (fsub_shape phys W bd) i (S a) k).
  cbn [path_dims_ok].
  destruct (Nat.eqb_spec a (W - 2)) as [E|E].
  - assert (k = 0) by lia. subst k. unfold fsub_shape. rewrite (proj2 (Nat.eqb_eq _ _) E). simpl. repeat split; lia.
  - assert (Esh : fsub_shape phys W bd a = [bd; bd; phys]) by (unfold fsub_shape; rewrite (proj2 (Nat.eqb_neq _ _) E); reflexivity).
    rewrite Esh. split; [lia|]. split; [simpl; lia|]. split; [reflexivity|].
    destruct k as [|k]; [exact I|].
    pose proof (IH (S a) ltac:(lia)) as IH'.
    destruct (sub_steps N (fsub_shape phys W bd) i (S a) (S k)) eqn:Es; [exact I|].
    split; [simpl; lia|]. exact IH'.
Qed.

(* the state after the main chain *)
Lemma fork_phaseA N phys W H bd : 0 < N -> 1 <= H ->
  exists s, forM (map (fun i => FMain (fmain_shape phys H bd i)) (seq 0 H)) (Some empty_fork) (fork_body N)
            = Some {| fst_ := s; mainc := map (main_id N) (seq 0 H); subc := repeat [] H;
                      flabels := map (fun i => (main_id N i, LMain i)) (seq 0 H) |}
    /\ nodes s = fork_nodes_upto N phys W H bd 0 /\ root s = Some (main_id N 0) /\ dims_bounded s
    /\ (forall i, i < H -> leg_dim s (main_id N i) (mfirst H i) bd).
Proof.
  intros HN HH. destruct H as [|h]; [lia|].
  set (shp := fmain_shape phys (S h) bd).
  cbn [seq map]. rewrite forM_cons. cbn [bind fork_body]. unfold fork_add_main.
  cbn [mainc empty_fork length Nat.eqb fst_].
  destruct (add_root_accepted empty_store (main_id N 0) (shp 0) eq_refl) as (s0 & E0).
  rewrite E0. cbn [bind subc flabels empty_fork].
  destruct (add_root_spec _ _ _ E0) as (Hn0 & Hroot0 & HB0 & Hld0).
  set (rn := new_node (shp 0)) in *.
  assert (Hrn : aget (main_id N 0) (nodes s0) = Some rn) by (rewrite Hn0; cbn [aget]; rewrite Nat.eqb_refl; reflexivity).
  set (m0 := {| fst_ := s0; mainc := [] ++ [main_id N 0]; subc := [] ++ [[]]; flabels := [] ++ [(main_id N 0, LMain 0)] |}).
  rewrite (fork_main_tail N shp h 1 m0 (main_id N 0) rn); [|reflexivity|lia|reflexivity|reflexivity|exact Hrn].
  cbn [fst_ mainc subc flabels m0 app].
  set (steps := main_steps N shp 1 h).
  assert (Esh0 : shp 0 = [bd; bd; phys]) by reflexivity.
  assert (Hids : path_ids steps = map (main_id N) (seq 1 h)).
  { unfold steps, main_steps, path_ids. rewrite map_map. reflexivity. }
  destruct (attach_path_accepts steps s0 (main_id N 0) rn bd Hrn) as (s1 & Hp & _).
  { unfold nvirt, nlegs, rn, new_node, nparents; cbn [parent children perm length plus]. rewrite seq_length, Esh0. simpl; lia. }
  { change (nvirt rn) with 0. pose proof (Hld0 0) as Hd. rewrite Esh0 in Hd. apply Hd. simpl; lia. }
  { exact HB0. }
  { rewrite Hids. apply FinFun.Injective_map_NoDup; [|apply seq_NoDup]. intros a b. apply main_id_inj; auto. }
  { intros x Hx. rewrite Hids in Hx. apply in_map_iff in Hx. destruct Hx as (i & <- & Hi). apply in_seq in Hi.
    rewrite Hn0. cbn [aget]. destruct (Nat.eqb_spec (main_id N i) (main_id N 0)) as [E|]; auto.
    apply main_id_inj in E; auto. lia. }
  { apply main_dims_ok; lia. }
  rewrite Hp. cbn [option_map].
  destruct (attach_path_nodes _ _ _ _ _ Hrn Hp (steps_cleg _ _ _ _)) as (Hn1 & Hroot1 & _).
  destruct (attach_path_legs _ _ _ _ _ Hrn Hp (steps_cleg _ _ _ _) HB0) as (HB1 & Hfr1 & Hnew1).
  exists s1. split; [reflexivity|]. split; [|split; [congruence|split; [exact HB1|]]].
  - rewrite Hn1, Hn0. unfold fork_nodes_upto. change (seq 0 0) with (@nil nat). cbn [flat_map]. rewrite app_nil_r.
    destruct h as [|h].
    + cbn [steps main_steps seq map path_nodes]. unfold main_node. cbn [Nat.eqb Nat.ltb Nat.leb andb app].
      reflexivity.
    + match goal with |- _ = ?r => set (rhs := r) end.
      unfold steps, main_steps. cbn [seq map path_nodes]. cbn [aset]. rewrite Nat.eqb_refl.
      change ((main_id N 1, shp 1, 0) :: map (fun i => (main_id N i, shp i, 0)) (seq 2 h))
        with (map (fun i => (main_id N i, shp i, 0)) (seq 1 (S h))).
      rewrite chain_nodes_map. unfold rhs. change (seq 0 (S (S h))) with (0 :: seq 1 (S h)). cbn [app map]. f_equal.
      apply map_ext_in. intros j Hj. apply in_seq in Hj. f_equal. unfold main_node. fold shp.
      destruct (Nat.eqb_spec j 0); [lia|]. destruct (Nat.ltb_spec j 0); [lia|]. cbn [andb]. rewrite app_nil_r.
      replace (1 + S h) with (S (S h)) by lia.
      destruct (Nat.eqb_spec j 1) as [->|]; reflexivity.
  - intros i Hi. destruct i as [|i].
    + apply Hfr1. unfold mfirst. cbn [Nat.eqb plus].
      pose proof (Hld0 (if 1 <? S h then 1 else 0)) as Hd. rewrite Esh0 in Hd.
      destruct (1 <? S h); apply Hd; simpl; lia.
    + assert (Hin : In (main_id N (S i), shp (S i), 0) steps).
      { unfold steps, main_steps. apply in_map_iff. exists (S i). split; auto. apply in_seq. lia. }
      pose proof (Hnew1 _ _ _ Hin) as Hl. unfold mfirst. cbn [Nat.eqb].
      destruct (Nat.ltb_spec (S (S i)) (S h)).
      * assert (Es : shp (S i) = [bd; bd; bd; phys]).
        { unfold shp, fmain_shape. destruct (Nat.eqb_spec (S i) 0); [lia|].
          destruct (Nat.eqb_spec (S i) (S h - 1)); [lia|]. reflexivity. }
        rewrite Es in Hl. apply (Hl 2); simpl; lia.
      * assert (Es : shp (S i) = [bd; bd; phys]).
        { unfold shp, fmain_shape. destruct (Nat.eqb_spec (S i) 0); [lia|].
          destruct (Nat.eqb_spec (S i) (S h - 1)); [|lia]. reflexivity. }
        rewrite Es in Hl. apply (Hl 1); simpl; lia.
Qed.

Lemma nth_map_seq {A} (f : nat -> A) d : forall n a i, i < n -> nth i (map f (seq a n)) d = f (a + i).
Proof.
  induction n as [|n IH]; intros a i Hi; [lia|]. destruct i; cbn [seq map nth].
  - f_equal; lia.
  - rewrite IH by lia. f_equal; lia.
Qed.

Lemma set_nth_map_seq {A} (f : nat -> A) v : forall n a t,
  set_nth t v (map f (seq a n)) = map (fun i => if i =? a + t then v else f i) (seq a n).
Proof.
  induction n as [|n IH]; intros a t; [destruct t; reflexivity|].
  destruct t; cbn [seq map set_nth].
  - rewrite Nat.add_0_r, Nat.eqb_refl. f_equal. apply map_ext_in. intros i Hi. apply in_seq in Hi.
    destruct (Nat.eqb_spec i a); [lia|reflexivity].
  - destruct (Nat.eqb_spec a (a + S t)); [lia|]. f_equal. rewrite IH.
    apply map_ext. intros i. replace (S a + t) with (a + S t) by lia. reflexivity.
Qed.

Lemma fork_upto_keys N phys W H bd t :
  akeys (fork_nodes_upto N phys W H bd t)
  = map (main_id N) (seq 0 H) ++ flat_map (fun i => map (sub_id N i) (seq 0 (W - 1))) (seq 0 t).
Proof.
  unfold fork_nodes_upto. rewrite akeys_app, akeys_map_key, akeys_flat_map. f_equal.
  apply flat_map_ext. intros i. apply akeys_map_key.
Qed.

(* the state after the main chain and the first t sub chains (width >= 2) *)
Lemma fork_prefix N phys W H bd s1 : 0 < N -> W <= N -> 2 <= W -> 1 <= H ->
  nodes s1 = fork_nodes_upto N phys W H bd 0 -> dims_bounded s1 ->
  (forall i, i < H -> leg_dim s1 (main_id N i) (mfirst H i) bd) ->
  forall t, t <= H ->
  exists s, forM (flat_map (fun i => map (fun j => FSub (fsub_shape phys W bd j) i) (seq 0 (W - 1))) (seq 0 t))
                 (Some {| fst_ := s1; mainc := map (main_id N) (seq 0 H); subc := repeat [] H;
                          flabels := map (fun i => (main_id N i, LMain i)) (seq 0 H) |}) (fork_body N)
            = Some {| fst_ := s; mainc := map (main_id N) (seq 0 H); subc := fork_subc_upto N W H t;
                      flabels := fork_labels_upto N W H t |}
    /\ nodes s = fork_nodes_upto N phys W H bd t /\ root s = root s1 /\ dims_bounded s
    /\ (forall i, t <= i -> i < H -> leg_dim s (main_id N i) (mfirst H i) bd).
Proof.
  intros HN HWN HW HH Hn1 HB1 Hld1.
  assert (EW : (1 <? W) = true) by (apply Nat.ltb_lt; lia).
  induction t as [|t IH]; intros Ht.
  - exists s1. cbn [seq flat_map forM fold_left]. split; [|repeat split; auto].
    f_equal. unfold fork_subc_upto, fork_labels_upto. cbn [seq flat_map]. rewrite app_nil_r. f_equal.
    assert (G : forall l : list nat, repeat (@nil id) (length l)
              = map (fun i => if i <? 0 then map (sub_id N i) (seq 0 (W - 1)) else []) l).
    { induction l as [|x l IHl]; [reflexivity|]. cbn [length repeat map]. rewrite IHl. reflexivity. }
    rewrite <- (G (seq 0 H)), seq_length. reflexivity.
  - destruct (IH ltac:(lia)) as (s & EF & Hn & Hr & HB & Hld). clear IH.
    rewrite seq_S, flat_map_app, forM_app, EF. cbn [flat_map plus]. rewrite app_nil_r.
    set (m := {| fst_ := s; mainc := map (main_id N) (seq 0 H); subc := fork_subc_upto N W H t;
                 flabels := fork_labels_upto N W H t |}).
    set (pn := main_node N phys W H bd t t).
    set (shp := fsub_shape phys W bd).
    assert (Hinj : forall k, In k (seq 0 H) -> main_id N k = main_id N t -> k = t).
    { intros k _ E. apply main_id_inj in E; auto. }
    assert (Hpn : aget (main_id N t) (nodes s) = Some pn).
    { rewrite Hn. unfold fork_nodes_upto. rewrite aget_app.
      rewrite (aget_map_inj (main_id N) (fun i => main_node N phys W H bd i t)); auto. apply in_seq; lia. }
    rewrite (fork_sub_chain N shp t (W - 1) m pn).
    2:{ unfold m; cbn [mainc]. rewrite map_length, seq_length. lia. }
    2:{ unfold m; cbn [subc]. unfold fork_subc_upto. rewrite map_length, seq_length. lia. }
    2:{ unfold m; cbn [subc]. unfold fork_subc_upto. rewrite nth_map_seq by lia. cbn [plus]. rewrite Nat.ltb_irrefl. reflexivity. }
    2:{ unfold m; cbn [mainc]. rewrite nth_map_seq by lia. reflexivity. }
    2:{ exact Hpn. }
    unfold m. cbn [fst_ mainc subc flabels]. clear m.
    set (steps := sub_steps N shp t 0 (W - 1)).
    assert (Hids : path_ids steps = map (sub_id N t) (seq 0 (W - 1))).
    { unfold steps, sub_steps, path_ids. rewrite map_map. reflexivity. }
    assert (Hnv : nvirt pn = mfirst H t) by (apply main_node_nvirt; lia).
    assert (Hnl : nvirt pn < nlegs pn).
    { rewrite Hnv. unfold nlegs, pn, main_node, mfirst, fmain_shape; cbn [perm]. rewrite seq_length.
      destruct (Nat.eqb_spec t 0); cbn [orb]; [destruct (S t <? H); simpl; lia|].
      destruct (Nat.eqb_spec t (H - 1)); destruct (Nat.ltb_spec (S t) H); simpl; lia. }
    destruct (attach_path_accepts steps s (main_id N t) pn bd Hpn Hnl) as (s' & Hp & _).
    { rewrite Hnv. apply Hld; lia. }
    { exact HB. }
    { rewrite Hids. apply FinFun.Injective_map_NoDup; [|apply seq_NoDup]. intros a b E.
      unfold sub_id, id in E. lia. }
    { intros x Hx. rewrite Hids in Hx. apply in_map_iff in Hx. destruct Hx as (j & <- & Hj). apply in_seq in Hj.
      apply aget_None_keys. rewrite Hn, fork_upto_keys. rewrite in_app_iff. intros [E|E].
      - apply in_map_iff in E. destruct E as (i' & E & _). symmetry in E. revert E. apply sub_main_neq. lia.
      - apply in_flat_map in E. destruct E as (i' & Hi' & E). apply in_seq in Hi'.
        apply in_map_iff in E. destruct E as (j' & E & Hj'). apply in_seq in Hj'. apply sub_id_inj in E; lia. }
    { apply sub_dims_ok. lia. }
    rewrite Hp. cbn [option_map].
    destruct (attach_path_nodes _ _ _ _ _ Hpn Hp (steps_cleg _ _ _ _)) as (Hn' & Hr' & _).
    destruct (attach_path_legs _ _ _ _ _ Hpn Hp (steps_cleg _ _ _ _) HB) as (HB' & Hfr' & _).
    exists s'. split; [|split; [|split; [congruence|split; [exact HB'|]]]].
    + f_equal. f_equal.
      * unfold fork_subc_upto. rewrite set_nth_map_seq. apply map_ext_in. intros i Hi. cbn [plus].
        destruct (Nat.eqb_spec i t) as [->|].
        -- destruct (Nat.ltb_spec t (S t)); [reflexivity|lia].
        -- destruct (Nat.ltb_spec i t), (Nat.ltb_spec i (S t)); try lia; reflexivity.
      * unfold fork_labels_upto. rewrite seq_S, flat_map_app. cbn [flat_map plus]. rewrite app_nil_r, app_assoc. reflexivity.
    + rewrite Hn'. unfold steps, sub_steps. destruct (W - 1) as [|k] eqn:EWk; [lia|].
      match goal with |- _ = ?r => set (rhs := r) end.
      cbn [seq map path_nodes].
      change ((sub_id N t 0, shp 0, 0) :: map (fun j => (sub_id N t j, shp j, 0)) (seq 1 k))
        with (map (fun j => (sub_id N t j, shp j, 0)) (seq 0 (S k))).
      rewrite chain_nodes_map. rewrite Hn. unfold fork_nodes_upto at 1.
      rewrite (aset_app_l _ _ _ _ pn).
      2:{ rewrite (aget_map_inj (main_id N) (fun i => main_node N phys W H bd i t)); auto. apply in_seq; lia. }
      rewrite (aset_map_inj (main_id N)); auto; [|apply seq_NoDup|apply in_seq; lia].
      unfold rhs, fork_nodes_upto. rewrite (seq_S t 0), flat_map_app. cbn [flat_map plus]. rewrite app_nil_r, EWk, <- app_assoc.
      f_equal; [|f_equal].
      * apply map_ext_in. intros i Hi. f_equal.
        destruct (Nat.eqb_spec i t) as [->|Nit].
        -- unfold pn, with_child, main_node. cbn [parent children perm shape]. f_equal.
           rewrite Nat.ltb_irrefl. cbn [andb]. rewrite app_nil_r, EW.
           destruct (Nat.ltb_spec t (S t)); [reflexivity|lia].
        -- unfold main_node. f_equal.
           destruct (Nat.ltb_spec i t), (Nat.ltb_spec i (S t)); try lia; reflexivity.
      * apply map_ext_in. intros j Hj. f_equal. unfold sub_node. rewrite EWk. reflexivity.
    + intros i H1 H2. apply Hfr'. apply Hld; lia.
Qed.

(* ---- the final closed form ------------------------------------------------------------------------ *)
Definition fork_main_node (N phys W H bd i : nat) : node :=
  {| parent := if i =? 0 then None else Some (main_id N (i - 1));
     children := (if S i <? H then [main_id N (S i)] else []) ++ (if 1 <? W then [sub_id N i 0] else []);
     perm := seq 0 (length (fmain_shape phys H bd i)); shape := fmain_shape phys H bd i |}.
Definition fork_nodes (N phys W H bd : nat) : list (id * node) :=
  map (fun i => (main_id N i, fork_main_node N phys W H bd i)) (seq 0 H)
  ++ flat_map (fun i => map (fun j => (sub_id N i j, sub_node N phys W bd i j)) (seq 0 (W - 1))) (seq 0 H).
Definition fork_mainc (N H : nat) : list id := map (main_id N) (seq 0 H).
Definition fork_subc (N W H : nat) : list (list id) := map (fun i => map (sub_id N i) (seq 0 (W - 1))) (seq 0 H).
Definition fork_labels (N W H : nat) : list (id * lbl) :=
  map (fun i => (main_id N i, LMain i)) (seq 0 H)
  ++ flat_map (fun i => map (fun j => (sub_id N i j, LSub i j)) (seq 0 (W - 1))) (seq 0 H).

Lemma fork_nodes_upto_full N phys W H bd : fork_nodes_upto N phys W H bd H = fork_nodes N phys W H bd.
Proof.
  unfold fork_nodes_upto, fork_nodes. f_equal. apply map_ext_in. intros i Hi. apply in_seq in Hi.
  unfold main_node, fork_main_node. destruct (Nat.ltb_spec i H); [|lia]. reflexivity.
Qed.
Lemma fork_subc_upto_full N W H : fork_subc_upto N W H H = fork_subc N W H.
Proof.
  unfold fork_subc_upto, fork_subc. apply map_ext_in. intros i Hi. apply in_seq in Hi.
  destruct (Nat.ltb_spec i H); [|lia]. reflexivity.
Qed.
(* width 1: no sub chain is ever created *)
Lemma fork_nodes_upto_W1 N phys H bd t : fork_nodes_upto N phys 1 H bd t = fork_nodes_upto N phys 1 H bd 0.
Proof.
  unfold fork_nodes_upto. cbn [Nat.sub seq map]. rewrite !flat_map_nil. f_equal.
  apply map_ext. intros i. unfold main_node. cbn [Nat.ltb Nat.leb]. rewrite !andb_false_r. reflexivity.
Qed.

Lemma ftps_calls_eq phys W H bd :
  ftps_calls phys W H bd
  = map (fun i => FMain (fmain_shape phys H bd i)) (seq 0 H)
    ++ flat_map (fun i => map (fun j => FSub (fsub_shape phys W bd j) i) (seq 0 (W - 1))) (seq 0 H).
Proof. reflexivity. Qed.

Lemma ftps_calls_length phys W H bd : 1 <= W -> length (ftps_calls phys W H bd) = W * H.
Proof.
  intros HW. rewrite ftps_calls_eq, app_length, map_length, seq_length.
  rewrite (flat_map_length_const _ (W - 1)).
  - rewrite seq_length. destruct W as [|w]; [lia|]. simpl. rewrite Nat.sub_0_r. lia.
  - intros. rewrite map_length, seq_length. reflexivity.
Qed.

Lemma fork_nodes_length N phys W H bd : 1 <= W -> length (fork_nodes N phys W H bd) = W * H.
Proof.
  intros HW. unfold fork_nodes. rewrite app_length, map_length, seq_length.
  rewrite (flat_map_length_const _ (W - 1)).
  - rewrite seq_length. destruct W as [|w]; [lia|]. simpl. rewrite Nat.sub_0_r. lia.
  - intros. rewrite map_length, seq_length. reflexivity.
Qed.

Lemma fork_nodes_keys N phys W H bd :
  akeys (fork_nodes N phys W H bd)
  = map (main_id N) (seq 0 H) ++ flat_map (fun i => map (sub_id N i) (seq 0 (W - 1))) (seq 0 H).
Proof. rewrite <- fork_nodes_upto_full. apply fork_upto_keys. Qed.

Lemma fork_nodes_main N phys W H bd i : 0 < N -> i < H ->
  aget (main_id N i) (fork_nodes N phys W H bd) = Some (fork_main_node N phys W H bd i).
Proof.
  intros HN Hi. unfold fork_nodes. rewrite aget_app.
  rewrite (aget_map_inj (main_id N) (fun i => fork_main_node N phys W H bd i)); auto.
  - apply in_seq; lia.
  - intros k _ E. apply main_id_inj in E; auto.
Qed.

Lemma fork_nodes_sub N phys W H bd i j : W <= N -> i < H -> j < W - 1 ->
  aget (sub_id N i j) (fork_nodes N phys W H bd) = Some (sub_node N phys W bd i j).
Proof.
  intros HN Hi Hj. unfold fork_nodes. rewrite aget_app.
  rewrite (proj2 (aget_None_keys _ _)).
  2:{ rewrite akeys_map_key. intros E. apply in_map_iff in E. destruct E as (i' & E & _).
      symmetry in E. revert E. apply sub_main_neq. lia. }
  rewrite (aget_flat_map_unique _ _ i).
  - apply (aget_map_inj (sub_id N i) (fun j => sub_node N phys W bd i j)).
    + apply in_seq; lia.
    + intros k Hk E. apply in_seq in Hk. apply sub_id_inj in E; lia.
  - apply seq_NoDup.
  - apply in_seq; lia.
  - intros i' Hi' Ne. rewrite akeys_map_key. intros E. apply in_map_iff in E. destruct E as (j' & E & Hj').
    apply in_seq in Hj'. apply sub_id_inj in E; lia.
Qed.

Lemma map_const_repeat {A B} (c : B) (l : list A) : map (fun _ => c) l = repeat c (length l).
Proof. induction l; simpl; congruence. Qed.

(* ---- the universal statement --------------------------------------------------------------------- *)
Theorem ftps_univ_nat (phys W H bd : nat) : 1 <= W -> 1 <= H ->
  let N := S (W * H) in
  exists m, fork_build (ftps_calls phys W H bd) = Some m
    /\ nodes (fst_ m) = fork_nodes N phys W H bd
    /\ root (fst_ m) = Some (main_id N 0)
    /\ length (nodes (fst_ m)) = W * H
    /\ mainc m = fork_mainc N H /\ subc m = fork_subc N W H /\ flabels m = fork_labels N W H
    /\ wfb (fst_ m) = true.
Proof.
  intros HW HH N.
  assert (G : exists m, fork_build (ftps_calls phys W H bd) = Some m
    /\ nodes (fst_ m) = fork_nodes N phys W H bd
    /\ root (fst_ m) = Some (main_id N 0)
    /\ mainc m = fork_mainc N H /\ subc m = fork_subc N W H /\ flabels m = fork_labels N W H).
  { assert (Efb : fork_build (ftps_calls phys W H bd)
                  = forM (ftps_calls phys W H bd) (Some empty_fork) (fork_body N)).
    { unfold fork_build, N. rewrite ftps_calls_length by lia. reflexivity. }
    rewrite Efb, ftps_calls_eq, forM_app.
    destruct (fork_phaseA N phys W H bd ltac:(unfold N; lia) HH) as (s1 & EA & Hn1 & Hr1 & HB1 & Hld1).
    rewrite EA.
    destruct (Nat.eq_dec W 1) as [EW1|NW].
    - subst W. cbn [Nat.sub seq map]. rewrite flat_map_nil. cbn [forM fold_left].
      eexists; split; [reflexivity|]. cbn [fst_ mainc subc flabels].
      split; [rewrite Hn1, <- fork_nodes_upto_full, (fork_nodes_upto_W1 N phys H bd H); reflexivity|].
      split; [exact Hr1|]. split; [reflexivity|]. split.
      + unfold fork_subc. cbn [Nat.sub seq map]. rewrite map_const_repeat, seq_length. reflexivity.
      + unfold fork_labels. cbn [Nat.sub seq map]. rewrite flat_map_nil, app_nil_r. reflexivity.
    - assert (HWN : W <= N) by (unfold N; nia).
      destruct (fork_prefix N phys W H bd s1 ltac:(unfold N; lia) HWN ltac:(lia) HH Hn1 HB1 Hld1 H (le_n _))
        as (s & EF & Hn & Hr & _).
      rewrite EF. eexists; split; [reflexivity|]. cbn [fst_ mainc subc flabels].
      rewrite Hn, fork_nodes_upto_full, fork_subc_upto_full. repeat split; auto. congruence. }
  destruct G as (m & E & Hn & Hr & Hm & Hs & Hl). exists m.
  repeat split; auto.
  - rewrite Hn. apply fork_nodes_length; auto.
  - apply (fork_build_wf _ _ E). rewrite Hm. unfold fork_mainc. destruct H; [lia|]. discriminate.
Qed.

Theorem constant_ftps_univ (phys : nat) (width height bd : Z) :
  (1 <= width)%Z -> (1 <= height)%Z -> (1 <= bd)%Z ->
  let W := Z.to_nat width in let H := Z.to_nat height in let B := Z.to_nat bd in
  let N := S (W * H) in
  exists m, constant_ftps phys width height bd = Some m
    /\ nodes (fst_ m) = fork_nodes N phys W H B
    /\ root (fst_ m) = Some (main_id N 0)
    /\ length (nodes (fst_ m)) = W * H
    /\ mainc m = fork_mainc N H /\ subc m = fork_subc N W H /\ flabels m = fork_labels N W H
    /\ wfb (fst_ m) = true.
Proof.
  intros Hw Hh Hb W H B N. unfold constant_ftps.
  destruct (Z.ltb_spec width 1); [lia|]. destruct (Z.ltb_spec height 1); [lia|]. destruct (Z.ltb_spec bd 1); [lia|].
  cbn [orb]. apply ftps_univ_nat; unfold W, H; lia.
Qed.

Example fork_example :
  option_map (fun m => (nodes (fst_ m), mainc m, subc m)) (constant_ftps 2 3 2 4)
  = Some (fork_nodes 7 2 3 2 4, [0; 7], [[1; 2]; [8; 9]]).
Proof. vm_compute. reflexivity. Qed.

(* ================================================================================================ *)
(* BINARY                                                                                           *)
(* ================================================================================================ *)
(* heap arithmetic: the virtual node created k-th (breadth first) has heap index k, level
   log2 (k + 1) and position k + 1 - 2^level; its children have heap indices 2k+1 and 2k+2 *)
Definition hpar (i : nat) : nat := (i - 1) / 2.
Definition hlevel (i : nat) : nat := Nat.log2 (S i).
Definition hposn (i : nat) : nat := S i - 2 ^ hlevel i.
Definition hn_of (i : nat) : hn := {| hid := i; hlev := hlevel i; hpos := hposn i |}.

Ltac dlia :=
  repeat match goal with
  | |- context [?a / 2] => let q := fresh "q" in let E := fresh "E" in
       pose proof (Nat.div_mod a 2 ltac:(lia)) as E; pose proof (Nat.mod_upper_bound a 2 ltac:(lia));
       set (q := a / 2) in *; clearbody q
  | H0 : context [?a / 2] |- _ => let q := fresh "q" in let E := fresh "E" in
       pose proof (Nat.div_mod a 2 ltac:(lia)) as E; pose proof (Nat.mod_upper_bound a 2 ltac:(lia));
       set (q := a / 2) in *; clearbody q
  end; lia.

Lemma hpar_l k : hpar (2 * k + 1) = k.
Proof. unfold hpar. dlia. Qed.
Lemma hpar_r k : hpar (2 * k + 2) = k.
Proof. unfold hpar. dlia. Qed.
Lemma hpar_cases i : 1 <= i -> i = 2 * hpar i + 1 \/ i = 2 * hpar i + 2.
Proof. unfold hpar. intros. dlia. Qed.

Lemma hlevel_spec k : 2 ^ hlevel k <= S k < 2 ^ S (hlevel k).
Proof. unfold hlevel. apply Nat.log2_spec. lia. Qed.
Lemma hlevel_l k : hlevel (2 * k + 1) = S (hlevel k).
Proof. unfold hlevel. replace (S (2 * k + 1)) with (2 * S k) by lia. apply Nat.log2_double. lia. Qed.
Lemma hlevel_r k : hlevel (2 * k + 2) = S (hlevel k).
Proof. unfold hlevel. replace (S (2 * k + 2)) with (2 * S k + 1) by lia. apply Nat.log2_succ_double. lia. Qed.
Lemma hposn_l k : hposn (2 * k + 1) = 2 * hposn k.
Proof. unfold hposn. rewrite hlevel_l, Nat.pow_succ_r'. pose proof (hlevel_spec k). lia. Qed.
Lemma hposn_r k : hposn (2 * k + 2) = 2 * hposn k + 1.
Proof. unfold hposn. rewrite hlevel_r, Nat.pow_succ_r'. pose proof (hlevel_spec k). lia. Qed.
Lemma virt_id_hn k : virt_id (hlevel k) (hposn k) = k.
Proof.
  unfold virt_id, hposn, id. pose proof (hlevel_spec k).
  pose proof (Nat.pow_nonzero 2 (hlevel k) ltac:(lia)). lia.
Qed.
Lemma virt_id_l k : virt_id (S (hlevel k)) (2 * hposn k) = 2 * k + 1.
Proof. rewrite <- hlevel_l, <- hposn_l. apply virt_id_hn. Qed.
Lemma virt_id_r k : virt_id (S (hlevel k)) (2 * hposn k + 1) = 2 * k + 2.
Proof. rewrite <- hlevel_r, <- hposn_r. apply virt_id_hn. Qed.

Lemma bin_loop_eq fuel n b s q lab :
  bin_loop fuel n b s q lab
  = if length q =? n then Some (s, q, lab) else
    match fuel with
    | O => None
    | S f =>
        match q with
        | [] => None
        | h :: q' =>
            if length q' =? n then Some (s, q', lab) else
            let lev := S (hlev h) in
            let lp := 2 * hpos h in
            let rp := 2 * hpos h + 1 in
            let legs := match root s with
                        | Some r => if Nat.eqb r (hid h) then (0, 1) else (1, 2)
                        | None => (1, 2)
                        end in
            let l := virt_id lev lp in
            let r := virt_id lev rp in
            bind (add_child s l [b; b; b; 1] 0 (hid h) (fst legs)) (fun s1 =>
            bind (add_child s1 r [b; b; b; 1] 0 (hid h) (snd legs)) (fun s2 =>
            bin_loop f n b s2 (q' ++ [{| hid := l; hlev := lev; hpos := lp |}; {| hid := r; hlev := lev; hpos := rp |}])
                     (lab ++ [(l, LVirt lev lp); (r, LVirt lev rp)])))
        end
    end.
Proof. destruct fuel; reflexivity. Qed.

(* the virtual tree after k nodes have been expanded: heap indices 0 .. 2k *)
Definition vshape (b i : nat) : list nat := if i =? 0 then [b; b; 1] else [b; b; b; 1].
Definition hnode (b k i : nat) : node :=
  {| parent := if i =? 0 then None else Some (hpar i);
     children := if i <? k then [2 * i + 1; 2 * i + 2] else [];
     perm := seq 0 (length (vshape b i)); shape := vshape b i |}.
Definition heap_nodes (b k : nat) : list (id * node) := map (fun i => (i, hnode b k i)) (seq 0 (2 * k + 1)).
Definition heap_queue (k : nat) : list hn := map hn_of (seq k (S k)).
Definition heap_labels (k : nat) : list (id * lbl) := map (fun i => (i, LVirt (hlevel i) (hposn i))) (seq 0 (2 * k + 1)).
(* the first two open legs of virtual node i *)
Definition bleg (i j : nat) : nat := if i =? 0 then j else S j.

Record binv (b k : nat) (s : store) : Prop := {
  bi_nodes : nodes s = heap_nodes b k;
  bi_root : root s = Some 0;
  bi_dims : dims_bounded s;
  bi_legs : forall i j, k <= i -> i <= 2 * k -> j < 2 -> leg_dim s i (bleg i j) b;
  bi_wf : Inv.wf s
}.

Lemma seq_snoc2 a k : seq a (S (S k)) = seq a k ++ [a + k; a + k + 1].
Proof. replace (S (S k)) with (k + 2) by lia. rewrite seq_app. cbn [seq]. repeat f_equal; lia. Qed.

Lemma heap_nodes_aget b k i : i <= 2 * k -> aget i (heap_nodes b k) = Some (hnode b k i).
Proof.
  intros Hi. unfold heap_nodes.
  apply (aget_map_inj (fun i => i) (fun i => hnode b k i)); [apply in_seq; lia|auto].
Qed.
Lemma heap_nodes_none b k i : 2 * k < i -> aget i (heap_nodes b k) = None.
Proof.
  intros Hi. apply aget_None_keys. unfold heap_nodes.
  rewrite (akeys_map_key (fun i => i) (fun i => hnode b k i)), map_id, in_seq. lia.
Qed.

(* one iteration of add_all_nodes *)
Lemma bin_step b k s : binv b k s ->
  exists s1 s2,
    add_child s (2 * k + 1) [b; b; b; 1] 0 k (if k =? 0 then 0 else 1) = Some s1
    /\ add_child s1 (2 * k + 2) [b; b; b; 1] 0 k (if k =? 0 then 1 else 2) = Some s2
    /\ binv b (S k) s2.
Proof.
  intros [Hn Hr HB Hl Hw].
  set (shp := [b; b; b; 1]). set (pn := hnode b k k).
  assert (Hpn : aget k (nodes s) = Some pn) by (rewrite Hn; apply heap_nodes_aget; lia).
  assert (Hnv : nvirt pn = if k =? 0 then 0 else 1).
  { unfold nvirt, nparents, pn, hnode; cbn [parent children]. rewrite Nat.ltb_irrefl. destruct (k =? 0); reflexivity. }
  assert (Hnl : nlegs pn = if k =? 0 then 3 else 4).
  { unfold nlegs, pn, hnode, vshape; cbn [perm]. rewrite seq_length. destruct (k =? 0); reflexivity. }
  assert (Hb0 : bleg k 0 = nvirt pn) by (rewrite Hnv; unfold bleg; destruct (k =? 0); reflexivity).
  assert (Hb1 : bleg k 1 = S (nvirt pn)) by (rewrite Hnv; unfold bleg; destruct (k =? 0); reflexivity).
  assert (Hf1 : aget (2 * k + 1) (nodes s) = None) by (rewrite Hn; apply heap_nodes_none; lia).
  destruct (add_child_accepts s (2 * k + 1) shp 0 k pn b Hpn) as (s1 & E1); auto.
  { rewrite Hnv, Hnl. destruct (k =? 0); lia. }
  { rewrite <- Hb0. apply Hl; lia. }
  { simpl; lia. }
  destruct (add_child_spec _ _ _ _ _ _ _ Hpn E1 (Nat.le_0_l 1)) as (_ & _ & _ & _ & Hn1 & Hr1 & HB1 & Hfr1 & Hnew1).
  set (pn1 := with_child pn (2 * k + 1)) in *.
  assert (Hpn1 : aget k (nodes s1) = Some pn1) by (rewrite Hn1; apply aget_aset_eq).
  assert (Hf2 : aget (2 * k + 2) (nodes s1) = None).
  { rewrite Hn1, aget_aset_neq, aget_app, Hn, heap_nodes_none by lia. cbn [aget].
    destruct (Nat.eqb_spec (2 * k + 2) (2 * k + 1)); [lia|reflexivity]. }
  destruct (add_child_accepts s1 (2 * k + 2) shp 0 k pn1 b Hpn1) as (s2 & E2); auto.
  { unfold pn1. rewrite nvirt_with_child, nlegs_with_child, Hnv, Hnl. destruct (k =? 0); lia. }
  { unfold pn1. rewrite nvirt_with_child, <- Hb1. apply Hfr1; [lia|]. apply Hl; lia. }
  { simpl; lia. }
  destruct (add_child_spec _ _ _ _ _ _ _ Hpn1 E2 (Nat.le_0_l 1)) as (_ & _ & _ & _ & Hn2 & Hr2 & HB2 & Hfr2 & Hnew2).
  exists s1, s2. split; [rewrite <- Hnv; exact E1|]. split.
  { replace (if k =? 0 then 1 else 2) with (nvirt pn1); [exact E2|].
    unfold pn1. rewrite nvirt_with_child, Hnv. destruct (k =? 0); reflexivity. }
  constructor.
  - rewrite Hn2, Hn1, Hn. unfold heap_nodes.
    replace (2 * S k + 1) with (S (S (2 * k + 1))) by lia. rewrite seq_snoc2, map_app. cbn [map plus].
    set (M := map (fun i => (i, hnode b k i)) (seq 0 (2 * k + 1))).
    assert (HM : aget k M = Some pn) by (apply heap_nodes_aget; lia).
    rewrite (aset_app_l M _ k pn1 pn HM), <- app_assoc.
    rewrite (aset_app_l (aset k pn1 M) _ k _ pn1 (aget_aset_eq _ _ _)).
    unfold M.
    rewrite (aset_map_inj (fun i => i) (fun i => hnode b k i)); auto; [|apply seq_NoDup|apply in_seq; lia].
    rewrite (aset_map_inj (fun i => i)); auto; [|apply seq_NoDup|apply in_seq; lia].
    replace (2 * k + 1 + 1) with (2 * k + 2) by lia.
    cbn [app]. f_equal; [|f_equal; [|f_equal]].
    + apply map_ext_in. intros i Hi. apply in_seq in Hi. f_equal.
      destruct (Nat.eqb_spec i k) as [->|Nik].
      * unfold pn1, pn, with_child, hnode. cbn [parent children perm shape].
        rewrite Nat.ltb_irrefl. destruct (Nat.ltb_spec k (S k)); [|lia]. reflexivity.
      * unfold hnode. f_equal. destruct (Nat.ltb_spec i k), (Nat.ltb_spec i (S k)); try lia; reflexivity.
    + f_equal. unfold mk_child, hnode, vshape, shp.
      destruct (Nat.eqb_spec (2 * k + 1) 0); [lia|]. destruct (Nat.ltb_spec (2 * k + 1) (S k)); [lia|].
      rewrite hpar_l. reflexivity.
    + f_equal. unfold mk_child, hnode, vshape, shp.
      destruct (Nat.eqb_spec (2 * k + 2) 0); [lia|]. destruct (Nat.ltb_spec (2 * k + 2) (S k)); [lia|].
      rewrite hpar_r. reflexivity.
  - congruence.
  - auto.
  - intros i j H1 H2 Hj.
    assert (Hbl : forall i, i <> 0 -> 1 <= bleg i j /\ bleg i j < 4 /\ nth (bleg i j) shp 0 = b).
    { intros i' Hi'. unfold bleg. destruct (Nat.eqb_spec i' 0); [lia|]. unfold shp. destruct j as [|[|]]; try lia; simpl; repeat split; lia. }
    destruct (Nat.eq_dec i (2 * k + 2)) as [->|N2].
    + destruct (Hbl (2 * k + 2) ltac:(lia)) as (A & B & Cc).
      pose proof (Hnew2 (HB1 HB) (bleg (2 * k + 2) j) A B) as G.
      change (child_perm (length shp) 0) with (seq 0 4) in G. rewrite seq_nth in G by lia. cbn [plus] in G.
      rewrite Cc in G. exact G.
    + apply Hfr2; [exact N2|].
      destruct (Nat.eq_dec i (2 * k + 1)) as [->|N1].
      * destruct (Hbl (2 * k + 1) ltac:(lia)) as (A & B & Cc).
        pose proof (Hnew1 HB (bleg (2 * k + 1) j) A B) as G.
        change (child_perm (length shp) 0) with (seq 0 4) in G. rewrite seq_nth in G by lia. cbn [plus] in G.
        rewrite Cc in G. exact G.
      * apply Hfr1; [exact N1|]. apply Hl; lia.
  - eapply add_child_preserves_wf; [|exact E2]. eapply add_child_preserves_wf; [|exact E1]. exact Hw.
Qed.

(* the loop: n - 1 iterations, the fuel n suffices *)
Lemma bin_loop_ok b n : 1 <= n -> forall m k fuel s, k + m = n - 1 -> m <= fuel -> binv b k s ->
  exists s', bin_loop fuel n b s (heap_queue k) (heap_labels k)
             = Some (s', heap_queue (n - 1), heap_labels (n - 1))
             /\ binv b (n - 1) s'.
Proof.
  intros Hn.
  assert (HL : forall k, length (heap_queue k) = S k) by (intros; unfold heap_queue; rewrite map_length, seq_length; reflexivity).
  induction m as [|m IH]; intros k fuel s Hk Hf Hinv.
  - rewrite bin_loop_eq, HL.
    destruct (Nat.eqb_spec (S k) n); [|lia]. replace (n - 1) with k by lia. eauto.
  - rewrite bin_loop_eq, HL.
    destruct (Nat.eqb_spec (S k) n); [lia|].
    destruct fuel as [|f]; [lia|].
    unfold heap_queue at 1. cbn [seq map]. rewrite map_length, seq_length.
    destruct (Nat.eqb_spec k n); [lia|]. cbv zeta.
    rewrite (bi_root _ _ _ Hinv). cbn [hn_of hid hlev hpos].
    rewrite virt_id_l, virt_id_r.
    destruct (bin_step b k s Hinv) as (s1 & s2 & E1 & E2 & Hinv2).
    assert (EL : (if 0 =? k then (0, 1) else (1, 2)) = (if k =? 0 then 0 else 1, if k =? 0 then 1 else 2)).
    { destruct k; reflexivity. }
    rewrite EL. cbn [fst snd]. rewrite E1. cbn [bind]. rewrite E2. cbn [bind].
    assert (EQ : map hn_of (seq (S k) k) ++
                 [{| hid := 2 * k + 1; hlev := S (hlevel k); hpos := 2 * hposn k |};
                  {| hid := 2 * k + 2; hlev := S (hlevel k); hpos := 2 * hposn k + 1 |}] = heap_queue (S k)).
    { unfold heap_queue. rewrite seq_snoc2, map_app. cbn [map]. f_equal. unfold hn_of.
      replace (S k + k) with (2 * k + 1) by lia. replace (2 * k + 1 + 1) with (2 * k + 2) by lia.
      rewrite hlevel_l, hlevel_r, hposn_l, hposn_r. reflexivity. }
    assert (ELb : heap_labels k ++ [(2 * k + 1, LVirt (S (hlevel k)) (2 * hposn k));
                                    (2 * k + 2, LVirt (S (hlevel k)) (2 * hposn k + 1))] = heap_labels (S k)).
    { unfold heap_labels. replace (2 * S k + 1) with (S (S (2 * k + 1))) by lia. rewrite seq_snoc2, map_app. cbn [map plus].
      replace (2 * k + 1 + 1) with (2 * k + 2) by lia.
      rewrite hlevel_l, hlevel_r, hposn_l, hposn_r. reflexivity. }
    rewrite EQ.
    match goal with |- context [bin_loop f n b s2 (heap_queue (S k)) ?L] =>
      replace L with (heap_labels (S k)) by (symmetry; exact ELb) end. apply (IH (S k) f s2); auto; lia.
Qed.

(* ---- replace_node on a leaf ------------------------------------------------------------------------ *)
Lemma aget_adel_neq {V} (l : list (nat * V)) k k' : k' <> k -> aget k' (adel k l) = aget k' l.
Proof.
  intros N. induction l as [|[a v] l IH]; simpl; auto.
  destruct (Nat.eqb_spec k a) as [->|Nka]; simpl.
  - destruct (Nat.eqb_spec k' a); [congruence|reflexivity].
  - destruct (Nat.eqb k' a); auto.
Qed.
Lemma adel_app_r {V} (l1 l2 : list (nat * V)) k : aget k l1 = None -> adel k (l1 ++ l2) = l1 ++ adel k l2.
Proof.
  induction l1 as [|[a v] l1 IH]; simpl; auto.
  destruct (Nat.eqb k a); [discriminate|]. intros H. rewrite IH; auto.
Qed.

Lemma replace_leaf_spec s new old shp on ot p pn :
  aget old (nodes s) = Some on -> aget old (tensors s) = Some ot ->
  children on = [] -> parent on = Some p -> new <> old -> p <> new ->
  aget p (nodes s) = Some pn -> In old (children pn) ->
  1 <= length shp -> nth 0 shp 0 = nth 0 (node_shape on) 0 ->
  exists s', replace_node s new old shp = Some s'
    /\ nodes s' = aset new {| parent := Some p; children := []; perm := seq 0 (length shp); shape := shp |}
                    (adel old (aset p (with_children pn (replace_first old new (children pn))) (nodes s)))
    /\ root s' = root s
    /\ (forall k, k <> old -> k <> new -> aget k (tensors s') = aget k (tensors s)).
Proof.
  intros Hon Hot Hch Hpar Hno Hpn' Hpn Hin Hlen Hdim.
  unfold replace_node. rewrite Hon, Hot.
  assert (Hnv : nvirt on = 1) by (unfold nvirt, nparents; rewrite Hpar, Hch; reflexivity).
  rewrite Hnv. cbn [seq forallb].
  destruct (Nat.ltb_spec 0 (length shp)); [|lia]. rewrite Hdim, Nat.eqb_refl. cbn [andb negb].
  unfold replace_node_in_neighbours.
  destruct (Nat.eqb_spec new old); [congruence|]. rewrite Hon, Hch. cbn [fold_left]. rewrite Hpar.
  destruct (Nat.eqb_spec p new); [congruence|]. rewrite Hpn.
  rewrite (proj2 (memb_true _ _) Hin). cbn [bind].
  match goal with |- context [fresh_wires ?s2 shp] => destruct (fresh_wires s2 shp) as [s3 ws] eqn:E end.
  apply fw_spec in E. cbn [nodes tensors root upd_tensors upd_nodes set_root next_wire dims] in E.
  destruct E as (Ews & En & Et & Er & Ed & Ew).
  unfold fresh_atom. eexists. split; [reflexivity|].
  cbn [nodes tensors root upd_tensors upd_nodes]. rewrite En, Et, Er.
  split; [reflexivity|]. split; [reflexivity|].
  intros k H1 H2. rewrite aget_aset_neq, aget_adel_neq by auto. reflexivity.
Qed.

(* ================================================================================================ *)
(* replace_node keeps the store invariant                                                           *)
(* ================================================================================================ *)
Lemma nth_firstn_eq {A} (l1 l2 : list A) v i d : firstn v l1 = firstn v l2 -> i < v -> nth i l1 d = nth i l2 d.
Proof.
  revert l2 v i. induction l1 as [|a l1 IH]; intros [|b l2] [|v] [|i] H Hi; cbn in *; try lia; try discriminate; auto.
  - injection H; auto.
  - injection H as _ H. apply (IH _ v); [exact H|lia].
Qed.

Lemma firstn_firstn_le {A} (l : list A) a b : a <= b -> firstn a (firstn b l) = firstn a l.
Proof. intros H. rewrite firstn_firstn. f_equal. lia. Qed.

(* node n gets a new record and tensor: same neighbours, the wires of the virtual legs are kept,
   the open legs carry fresh wires *)
Theorem wf_retensor s s' n nd t nd' t' :
  wf s -> aget n (nodes s) = Some nd -> aget n (tensors s) = Some t ->
  nodes s' = aset n nd' (nodes s) -> tensors s' = aset n t' (tensors s) -> root s' = root s ->
  next_wire s <= next_wire s' ->
  (forall w, w < next_wire s -> wdim s' w = wdim s w) ->
  (forall w, In w (akeys (dims s')) -> w < next_wire s') ->
  parent nd' = parent nd -> children nd' = children nd -> nvirt nd <= nlegs nd' ->
  firstn (nvirt nd) (laxes nd' t') = firstn (nvirt nd) (laxes nd t) ->
  (forall w, In w (skipn (nvirt nd) (laxes nd' t')) -> next_wire s <= w) ->
  NoDup (skipn (nvirt nd) (laxes nd' t')) ->
  Permutation (perm nd') (seq 0 (length (shape nd'))) ->
  shape nd' = map (wdim s') (axes t') ->
  (forall w, In w (axes t') -> w < next_wire s') ->
  wf s'.
Proof.
  intros H En Et Hns Hts Hrs Hnw Hwd Hdb Hp Hc Hvl Hfirst Hfresh Hfnd Hperm Hshape Haxes.
  assert (Hv : nvirt nd' = nvirt nd) by (apply nvirt_ext; assumption).
  assert (Hnp : nparents nd' = nparents nd) by (apply nparents_ext; assumption).
  assert (F1 : forall k, aget k (nodes s') = if Nat.eqb k n then Some nd' else aget k (nodes s)).
  { intros k. rewrite Hns. apply InvProofs.aget_aset. }
  assert (F2 : forall k, tens s' k = if Nat.eqb k n then t' else tens s k).
  { intros k. unfold tens. rewrite Hts, InvProofs.aget_aset. destruct (Nat.eqb k n); reflexivity. }
  assert (Ht : tens s n = t) by (apply tens_aget; exact Et).
  assert (F3 : forall k nk', aget k (nodes s') = Some nk' ->
            exists nk, aget k (nodes s) = Some nk /\ parent nk' = parent nk /\ children nk' = children nk
                       /\ firstn (nvirt nk) (lax s' k nk') = firstn (nvirt nk) (lax s k nk)
                       /\ (k <> n -> nk' = nk /\ tens s' k = tens s k)).
  { intros k nk' E. rewrite F1 in E. unfold lax. rewrite F2. destruct (Nat.eqb_spec k n) as [->|Hne].
    - injection E as <-. exists nd. rewrite Ht. repeat split; auto; congruence.
    - exists nk'. repeat split; auto. }
  assert (F4 : forall k nk, aget k (nodes s) = Some nk ->
            exists nk', aget k (nodes s') = Some nk' /\ parent nk' = parent nk /\ children nk' = children nk
                        /\ firstn (nvirt nk) (lax s' k nk') = firstn (nvirt nk) (lax s k nk)).
  { intros k nk E. rewrite F1. unfold lax. rewrite F2. destruct (Nat.eqb_spec k n) as [->|Hne].
    - exists nd'. rewrite E in En. injection En as ->. rewrite Ht. repeat split; auto.
    - exists nk. repeat split; auto. }
  (* owned wires *)
  assert (Own_n : own_of nd' t' = firstn (nparents nd) (laxes nd t) ++ skipn (nvirt nd) (laxes nd' t')).
  { unfold own_of. rewrite Hv, Hnp. f_equal.
    rewrite <- (firstn_firstn_le (laxes nd' t') (nparents nd) (nvirt nd)) by (unfold nvirt; lia).
    rewrite Hfirst. apply firstn_firstn_le. unfold nvirt; lia. }
  assert (Own_o : forall k nk', aget k (nodes s') = Some nk' -> k <> n ->
            exists nk, aget k (nodes s) = Some nk /\ own_of nk' (tens s' k) = own_of nk (tens s k)).
  { intros k nk' E Hne. destruct (F3 k nk' E) as (nk & E1 & _ & _ & _ & E5). destruct (E5 Hne) as [-> ->].
    exists nk. split; [exact E1|reflexivity]. }
  assert (Old_n : forall w, In w (firstn (nparents nd) (laxes nd t)) -> In w (own_of nd (tens s n)) /\ w < next_wire s).
  { intros w Hw. assert (Hin : In w (own_of nd (tens s n))) by (rewrite Ht; unfold own_of; apply in_or_app; left; exact Hw).
    split; [exact Hin|]. eapply wf_own_bound; eauto. }
  constructor.
  - rewrite Hns. apply NoDup_akeys_aset. apply (wf_nd s H).
  - rewrite Hts. apply NoDup_akeys_aset. apply (wf_tnd s H).
  - intros k Hk. apply amem_aget in Hk. destruct Hk as [v Hv']. rewrite Hts, InvProofs.aget_aset in Hv'.
    apply amem_aget. rewrite F1. destruct (Nat.eqb k n); [eauto|].
    apply amem_aget. apply (wf_tn s H). apply amem_aget. eauto.
  - destruct (wf_root s H) as (r & rn & Hr & Er & Hpr & Huniq).
    destruct (F4 r rn Er) as (rn' & E1 & E2 & _). exists r, rn'. repeat split; auto; [congruence|congruence|].
    intros k nk' E Hpar. destruct (F3 k nk' E) as (nk & E3 & E4 & _). apply (Huniq k nk E3). congruence.
  - intros k nk' E. destruct (F3 k nk' E) as (nk & E1 & E2 & E3 & E4 & E5).
    pose proof (wf_node s H k nk E1) as Hn. constructor.
    + apply amem_aget. rewrite Hts, InvProofs.aget_aset. destruct (Nat.eqb k n); [eauto|].
      apply amem_aget. apply (ni_t _ _ _ Hn).
    + destruct (Nat.eq_dec k n) as [->|Hne].
      * rewrite F1, Nat.eqb_refl in E. injection E as <-. exact Hperm.
      * destruct (E5 Hne) as [-> _]. apply (ni_perm _ _ _ Hn).
    + destruct (Nat.eq_dec k n) as [->|Hne].
      * rewrite F1, Nat.eqb_refl in E. injection E as <-. rewrite F2, Nat.eqb_refl. exact Hshape.
      * destruct (E5 Hne) as [-> ->]. rewrite (ni_shape _ _ _ Hn). apply map_ext_in. intros w Hw.
        symmetry. apply Hwd. apply (wf_wires s H k (tens s k) w); [|exact Hw]. eapply wf_tens; eauto.
    + destruct (Nat.eq_dec k n) as [->|Hne].
      * rewrite F1, Nat.eqb_refl in E. injection E as <-. rewrite Hv. exact Hvl.
      * destruct (E5 Hne) as [-> _]. apply (ni_virt _ _ _ Hn).
    + rewrite E3. apply (ni_chnd _ _ _ Hn).
    + intros c Hc'. rewrite E3 in Hc'. destruct (ni_ch _ _ _ Hn c Hc') as (cn & Ec & Epc).
      destruct (F4 c cn Ec) as (cn' & Ec' & Epc' & _). exists cn'. split; [exact Ec'|congruence].
    + intros p Hpar. rewrite E2 in Hpar. destruct (ni_par _ _ _ Hn p Hpar) as (pn & i & Epn & Hin & Hni & Hw).
      destruct (F4 p pn Epn) as (pn' & Epn' & Epp & Epc & Epl). exists pn', i. repeat split.
      * exact Epn'.
      * rewrite Epc. exact Hin.
      * rewrite (neighbour_index_ext _ _ k Epp Epc). exact Hni.
      * transitivity (nth 0 (lax s k nk) 0).
        { apply (nth_firstn_eq _ _ _ _ _ E4). unfold nvirt, nparents; rewrite Hpar; lia. }
        rewrite Hw. symmetry. apply (nth_firstn_eq _ _ _ _ _ Epl). eapply ib_neighbour_index_lt; eauto.
  - intros k nk' E. destruct (Nat.eq_dec k n) as [->|Hne].
    + rewrite F1, Nat.eqb_refl in E. injection E as <-. rewrite F2, Nat.eqb_refl, Own_n.
      apply NoDup_app_iff. split; [|split; [exact Hfnd|]].
      * pose proof (wf_own1 s H n nd En) as Ho. rewrite Ht in Ho. unfold own_of in Ho.
        apply NoDup_app_iff in Ho. apply Ho.
      * intros w Hw1 Hw2. apply Old_n in Hw1. apply Hfresh in Hw2. lia.
    + destruct (Own_o k nk' E Hne) as (nk & E1 & ->). apply (wf_own1 s H k nk E1).
  - intros k1 n1 k2 n2 w E1 E2 H1 H2.
    destruct (Nat.eq_dec k1 n) as [->|N1]; destruct (Nat.eq_dec k2 n) as [->|N2]; auto.
    + rewrite F1, Nat.eqb_refl in E1. injection E1 as <-. rewrite F2, Nat.eqb_refl, Own_n in H1.
      destruct (Own_o k2 n2 E2 N2) as (m2 & G2 & Eo). rewrite Eo in H2.
      apply in_app_or in H1. destruct H1 as [H1|H1].
      * apply Old_n in H1. destruct H1 as [H1 _]. apply (wf_own2 s H n nd k2 m2 w En G2 H1 H2).
      * apply Hfresh in H1. pose proof (wf_own_bound s k2 m2 w H G2 H2). lia.
    + rewrite F1, Nat.eqb_refl in E2. injection E2 as <-. rewrite F2, Nat.eqb_refl, Own_n in H2.
      destruct (Own_o k1 n1 E1 N1) as (m1 & G1 & Eo). rewrite Eo in H1.
      apply in_app_or in H2. destruct H2 as [H2|H2].
      * apply Old_n in H2. destruct H2 as [H2 _]. apply (wf_own2 s H k1 m1 n nd w G1 En H1 H2).
      * apply Hfresh in H2. pose proof (wf_own_bound s k1 m1 w H G1 H1). lia.
    + destruct (Own_o k1 n1 E1 N1) as (m1 & G1 & Eo1). destruct (Own_o k2 n2 E2 N2) as (m2 & G2 & Eo2).
      rewrite Eo1 in H1. rewrite Eo2 in H2. apply (wf_own2 s H k1 m1 k2 m2 w G1 G2 H1 H2).
  - intros k tk w E Hw. rewrite Hts, InvProofs.aget_aset in E. destruct (Nat.eqb k n).
    + injection E as <-. apply Haxes. exact Hw.
    + pose proof (wf_wires s H k tk w E Hw). lia.
  - exact Hdb.
  - destruct (wf_acyc s H) as [d Hd]. exists d. intros c cn' p E Hpar.
    destruct (F3 c cn' E) as (cn & E1 & E2 & _). apply (Hd c cn p E1). congruence.
Qed.

(* the record and the tensor replace_node installs *)
Definition rn_node (on : node) (shp : list nat) : node :=
  {| parent := parent on; children := children on; perm := seq 0 (length shp); shape := shp |}.
Definition rn_axes (on : node) (ot : sarr) (ws : list wire) : list wire :=
  firstn (nvirt on) (permute 0 (perm on) (axes ot)) ++ skipn (nvirt on) ws.

Lemma replace_node_inv s new old shp s' :
  replace_node s new old shp = Some s' ->
  exists on ot s1 s3 ws a,
    aget old (nodes s) = Some on /\ aget old (tensors s) = Some ot
    /\ (forall i, i < nvirt on -> i < length shp /\ nth i shp 0 = nth i (node_shape on) 0)
    /\ replace_node_in_neighbours s new old true = Some s1
    /\ fresh_wires (upd_tensors s1 (adel old)) shp = (s3, ws)
    /\ nodes s' = aset new (rn_node on shp) (nodes s3)
    /\ tensors s' = aset new {| axes := rn_axes on ot ws; atoms := [a]; bnd := [] |} (tensors s3)
    /\ root s' = root s3 /\ dims s' = dims s3 /\ next_wire s' = next_wire s3.
Proof.
  unfold replace_node. intros H.
  destruct (aget old (nodes s)) as [on|] eqn:Eon; [|discriminate].
  destruct (aget old (tensors s)) as [ot|] eqn:Eot; [|discriminate].
  match type of H with context [forallb ?f ?l] => destruct (forallb f l) eqn:Ec end; cbn [negb] in H; [|discriminate].
  destruct (replace_node_in_neighbours s new old true) as [s1|] eqn:E1; cbn [bind] in H; [|discriminate].
  destruct (fresh_wires (upd_tensors s1 (adel old)) shp) as [s3 ws] eqn:E3.
  unfold fresh_atom in H. injection H as <-.
  exists on, ot, s1, s3, ws, (next_atom s3). repeat split; auto.
  - rewrite forallb_forall in Ec. specialize (Ec i ltac:(apply in_seq; lia)).
    apply andb_prop in Ec. destruct Ec as [A _]. apply Nat.ltb_lt in A. exact A.
  - rewrite forallb_forall in Ec. specialize (Ec i ltac:(apply in_seq; lia)).
    apply andb_prop in Ec. destruct Ec as [_ B]. apply Nat.eqb_eq in B. exact B.
Qed.

Lemma in_firstn_l {A} (l : list A) n x : In x (firstn n l) -> In x l.
Proof. intros H. rewrite <- (firstn_skipn n l). apply in_or_app; auto. Qed.
Lemma in_skipn_l {A} (l : list A) n x : In x (skipn n l) -> In x l.
Proof. intros H. rewrite <- (firstn_skipn n l). apply in_or_app; auto. Qed.
Lemma firstn_ext_nth {A} (d : A) : forall v (l1 l2 : list A), v <= length l1 -> v <= length l2 ->
  (forall i, i < v -> nth i l1 d = nth i l2 d) -> firstn v l1 = firstn v l2.
Proof.
  induction v as [|v IH]; intros [|a l1] [|b l2] H1 H2 Hn; cbn in *; try lia; auto.
  f_equal; [apply (Hn 0); lia|]. apply IH; try lia. intros i Hi. apply (Hn (S i)). lia.
Qed.

Lemma remove_first_incl x l : incl (remove_first x l) l.
Proof.
  induction l as [|a l IH]; cbn; [intros y []|]. destruct (Nat.eqb x a).
  - intros y Hy. right. exact Hy.
  - intros y [<-|Hy]; [left; reflexivity|right; apply IH; exact Hy].
Qed.
Lemma remove_first_nodup x l : NoDup l -> NoDup (remove_first x l).
Proof.
  induction l as [|a l IH]; cbn; intros Hnd; [constructor|]. inversion Hnd; subst.
  destruct (Nat.eqb x a); [assumption|]. constructor; [|auto].
  intros Hin. apply remove_first_incl in Hin. contradiction.
Qed.

Theorem replace_node_preserves_wf s new old shp s' :
  wf s -> new <> old -> aget new (nodes s) = None ->
  replace_node s new old shp = Some s' -> wf s'.
Proof.
  intros H Hne Hnew Hr.
  destruct (replace_node_inv _ _ _ _ _ Hr) as (on & ot & s1 & s3 & ws & a & Eon & Eot & Hck & E1 & E3 & Hn' & Ht' & Hr' & Hd' & Hw').
  destruct (replace_node_in_neighbours_fresh s new old true s1 H Hne Hnew E1) as (G & K & R & Ets & Eds & Enw & _).
  destruct (fresh_wires_spec _ _ _ _ E3) as (Ews & E32 & E33 & E34 & E35 & E36 & _).
  cbn [nodes tensors root dims next_wire upd_tensors] in Ews, E32, E33, E34, E35, E36.
  rewrite Enw in Ews, E33. rewrite Eds in E32. rewrite Ets in E35.
  assert (Hdb : forall w, In w (akeys (dims (upd_tensors s1 (adel old)))) -> w < next_wire (upd_tensors s1 (adel old))).
  { cbn [dims next_wire upd_tensors]. rewrite Eds, Enw. apply (wf_dims s H). }
  pose proof (fresh_wires_wdim_new _ _ _ _ E3 Hdb) as Wnew.
  assert (Wold : forall w, w < next_wire s -> wdim s3 w = wdim s w).
  { intros w Hw. rewrite (fresh_wires_wdim_old _ _ _ _ w E3) by (cbn [next_wire upd_tensors]; rewrite Enw; exact Hw).
    unfold wdim. cbn [dims upd_tensors]. rewrite Eds. reflexivity. }
  pose proof (fresh_wires_dims_bound _ _ _ _ E3 Hdb) as Dbound.
  set (f := ren1 old new).
  set (nn := rn_node on shp) in *.
  set (T := {| axes := rn_axes on ot ws; atoms := [a]; bnd := [] |}) in *.
  set (v := nvirt on).
  set (lw := permute 0 (perm on) (axes ot)).
  pose proof (wf_node s H old on Eon) as Hon.
  assert (Htens : tens s old = ot) by (apply tens_aget; exact Eot).
  assert (Hlw : length lw = nlegs on) by (apply permute_length).
  assert (Hv1 : v <= nlegs on) by apply (ni_virt _ _ _ Hon).
  assert (Hv2 : v <= length shp).
  { destruct v as [|v'] eqn:Ev; [lia|]. destruct (Hck v' ltac:(fold v; lia)). lia. }
  assert (Hlws : length ws = length shp) by (rewrite Ews; apply seq_length).
  assert (Hlen : length (rn_axes on ot ws) = length shp).
  { unfold rn_axes. fold v lw. rewrite app_length, firstn_length, skipn_length. lia. }
  assert (Hlax : laxes nn T = rn_axes on ot ws).
  { unfold laxes, nn, rn_node, T. cbn [perm axes]. rewrite <- Hlen. apply permute_seq. }
  assert (Hfl : length (firstn v lw) = v) by (rewrite firstn_length; lia).
  assert (Hf1 : firstn v (rn_axes on ot ws) = firstn v lw).
  { unfold rn_axes. fold v lw. rewrite ib_firstn_app_le by (unfold wire in *; lia). rewrite firstn_firstn. f_equal. lia. }
  assert (Hs1 : skipn v (rn_axes on ot ws) = skipn v ws).
  { unfold rn_axes. fold v lw. apply ib_skipn_app_len. exact Hfl. }
  assert (Hlw_old : forall w, In w lw -> w < next_wire s).
  { intros w Hw. apply (wf_lax_bound s old on w H Eon). unfold lax, laxes. rewrite Htens. exact Hw. }
  assert (Hws_new : forall w, In w ws -> next_wire s <= w < next_wire s + length shp).
  { intros w Hw. rewrite Ews in Hw. apply in_seq in Hw. lia. }
  assert (Hnsh : node_shape on = map (wdim s) lw).
  { unfold node_shape, lw. rewrite (ni_shape _ _ _ Hon), Htens. apply permute_map.
    intros i Hi. pose proof (perm_bound _ _ (ni_perm _ _ _ Hon) i Hi) as Hb.
    pose proof (ni_shape _ _ _ Hon) as Hs. rewrite Htens in Hs. rewrite Hs, map_length in Hb. exact Hb. }
  (* the intermediate store: old keeps its identifier but gets the new record and tensor *)
  set (st := {| nodes := aset old nn (nodes s); tensors := aset old T (tensors s); root := root s;
                dims := dims s'; next_wire := next_wire s'; next_atom := 0; defs := []; atab := [] |}).
  assert (Wst : forall w, wdim st w = wdim s3 w).
  { intros w. unfold wdim, st. cbn [dims]. rewrite Hd'. reflexivity. }
  assert (Hst : wf st).
  { apply (wf_retensor s st old on ot nn T H Eon Eot); try reflexivity.
    - unfold st; cbn [next_wire]. rewrite Hw', E33. lia.
    - intros w Hw. rewrite Wst. apply Wold. exact Hw.
    - unfold st; cbn [dims next_wire]. rewrite Hd', Hw'. exact Dbound.
    - unfold nlegs, nn, rn_node; cbn [perm]. rewrite seq_length. exact Hv2.
    - rewrite Hlax. exact Hf1.
    - fold v. rewrite Hlax, Hs1. intros w Hw. apply in_skipn_l in Hw. apply Hws_new in Hw. lia.
    - fold v. rewrite Hlax, Hs1. assert (Hnd : NoDup ws) by (rewrite Ews; apply seq_NoDup).
      rewrite <- (firstn_skipn v ws) in Hnd. apply NoDup_app_iff in Hnd. apply Hnd.
    - unfold nn, rn_node, T; cbn [shape axes].
      rewrite <- (firstn_skipn v (rn_axes on ot ws)), Hf1, Hs1, map_app.
      rewrite <- (firstn_skipn v shp) at 1. f_equal.
      + transitivity (firstn v (node_shape on)).
        * apply (firstn_ext_nth 0); [lia| |].
          { rewrite Hnsh, map_length. unfold wire in *. lia. }
          { intros i Hi. apply Hck. exact Hi. }
        * rewrite Hnsh, firstn_map. apply map_ext_in. intros w Hw. rewrite Wst. symmetry. apply Wold.
          apply Hlw_old. eapply in_firstn_l; eauto.
      + rewrite <- Wnew at 1. rewrite skipn_map. apply map_ext. intros w. symmetry. apply Wst.
    - unfold T; cbn [axes]. unfold st; cbn [next_wire]. rewrite Hw', E33. intros w Hw.
      unfold rn_axes in Hw. fold v lw in Hw. apply in_app_or in Hw. destruct Hw as [Hw|Hw].
      + apply in_firstn_l in Hw. apply Hlw_old in Hw. lia.
      + apply in_skipn_l in Hw. apply Hws_new in Hw. lia. }
  (* the output is the relabelling old -> new of the intermediate store *)
  apply (relabels_wf f st s' Hst).
  assert (Knodes : forall k, aget k (nodes s') = if Nat.eqb k new then Some nn else aget k (nodes s1)).
  { intros k. rewrite Hn', E34. apply InvProofs.aget_aset. }
  assert (Ktens : forall k, aget k (tensors s') = if Nat.eqb k new then Some T else aget k (adel old (tensors s))).
  { intros k. rewrite Ht', E35. apply InvProofs.aget_aset. }
  assert (Kst : forall k, aget k (nodes st) = if Nat.eqb k old then Some nn else aget k (nodes s)).
  { intros k. unfold st; cbn [nodes]. apply InvProofs.aget_aset. }
  assert (Hkeys_st : forall k, In k (akeys (nodes st)) <-> In k (akeys (nodes s))).
  { intros k. unfold st; cbn [nodes]. rewrite akeys_aset.
    assert (Hm : amem old (nodes s) = true) by (apply amem_aget; eauto). rewrite Hm. tauto. }
  assert (Hnn : ren_node f nn = nn).
  { apply node_ext; cbn [ren_node nn rn_node parent children perm shape]; try reflexivity.
    - destruct (parent on) as [q|] eqn:Eq; [|reflexivity]. cbn. unfold f. rewrite ren1_other; [reflexivity|].
      intros ->. apply (wf_not_self_parent s old on H Eon Eq).
    - unfold f. apply map_ren1_not_in. apply (wf_not_self_child s old on H Eon). }
  assert (Hnew_s1 : aget new (nodes s1) = None).
  { rewrite G. destruct (Nat.eqb new old); cbn [andb]; [reflexivity|]. rewrite Hnew. reflexivity. }
  constructor.
  - intros x y Hx Hy. apply (ren1_inj old new (akeys (nodes s))); [right; apply aget_None; exact Hnew| |];
      apply Hkeys_st; assumption.
  - rewrite Hn', E34. apply NoDup_akeys_aset. rewrite K. apply remove_first_nodup. apply (wf_nd s H).
  - rewrite Ht', E35. apply NoDup_akeys_aset. apply NoDup_akeys_adel. apply (wf_tnd s H).
  - intros k nk E. rewrite Kst in E. unfold f, ren1. destruct (Nat.eqb_spec k old) as [->|Nk].
    + injection E as <-. rewrite Knodes, Nat.eqb_refl. f_equal. symmetry. exact Hnn.
    + assert (k <> new) by (intros ->; congruence).
      rewrite Knodes. destruct (Nat.eqb_spec k new); [contradiction|].
      rewrite G. destruct (Nat.eqb_spec k old); [contradiction|]. cbn [andb]. rewrite E. reflexivity.
  - intros k' Hk'. apply keys_aget in Hk'. destruct Hk' as [v' Hv']. rewrite Knodes in Hv'.
    destruct (Nat.eqb_spec k' new) as [->|Nk'].
    + exists old. split; [unfold f; rewrite ren1_same; reflexivity|]. apply Hkeys_st. eapply aget_Some_keys; eauto.
    + rewrite G in Hv'. destruct (Nat.eqb_spec k' old) as [->|No]; cbn [andb] in Hv'; [discriminate|].
      destruct (aget k' (nodes s)) as [nk|] eqn:Ek; [|discriminate].
      exists k'. split; [unfold f; rewrite ren1_other; auto|]. apply Hkeys_st. eapply aget_Some_keys; eauto.
  - intros k Hk. apply Hkeys_st in Hk. unfold f, ren1. unfold st; cbn [tensors].
    destruct (Nat.eqb_spec k old) as [->|Nk].
    + rewrite Ktens, Nat.eqb_refl, InvProofs.aget_aset, Nat.eqb_refl. reflexivity.
    + assert (k <> new) by (intros ->; apply aget_None in Hnew; contradiction).
      rewrite Ktens. destruct (Nat.eqb_spec k new); [contradiction|].
      rewrite aget_adel_other by exact Nk. rewrite InvProofs.aget_aset. destruct (Nat.eqb_spec k old); [contradiction|reflexivity].
  - intros k' Hk'. apply keys_aget in Hk'. destruct Hk' as [v' Hv']. rewrite Ktens in Hv'.
    destruct (Nat.eqb_spec k' new) as [->|Nk'].
    + exists old. split; [unfold f; rewrite ren1_same; reflexivity|]. apply Hkeys_st. eapply aget_Some_keys; eauto.
    + destruct (Nat.eq_dec k' old) as [->|No].
      * rewrite aget_adel_same in Hv' by apply (wf_tnd s H). discriminate.
      * rewrite aget_adel_other in Hv' by exact No.
        exists k'. split; [unfold f; rewrite ren1_other; auto|]. apply Hkeys_st.
        apply (wf_keys_iff s k' H). eapply aget_Some_keys; eauto.
  - rewrite Hr', E36. cbn [root upd_tensors]. rewrite R. reflexivity.
  - reflexivity.
  - reflexivity.
Qed.

(* ---- the replacement phase (n >= 2): leaf n-1+i becomes site i, in queue order -------------------- *)
Definition bren (n t c : nat) : nat := if (n - 1 <=? c) && (c <? n - 1 + t) then c + n + 1 else c.
Definition inode (b n t i : nat) : node :=
  {| parent := if i =? 0 then None else Some (hpar i);
     children := [bren n t (2 * i + 1); bren n t (2 * i + 2)];
     perm := seq 0 (length (vshape b i)); shape := vshape b i |}.
Definition site_node (n i : nat) (shp : list nat) : node :=
  {| parent := Some (hpar (n - 1 + i)); children := []; perm := seq 0 (length shp); shape := shp |}.
Definition bin_nodes_upto (b n t : nat) (shp : list nat) : list (id * node) :=
  map (fun i => (i, inode b n t i)) (seq 0 (n - 1))
  ++ map (fun i => (i, hnode b (n - 1) i)) (seq (n - 1 + t) (n - t))
  ++ map (fun i => (site_id n i, site_node n i shp)) (seq 0 t).

Lemma bren_step n t c : c <> n - 1 + t -> bren n (S t) c = bren n t c.
Proof.
  intros H. unfold bren.
  destruct (Nat.leb_spec (n - 1) c), (Nat.ltb_spec c (n - 1 + S t)), (Nat.ltb_spec c (n - 1 + t)); cbn [andb]; lia.
Qed.
Lemma bren_old_S n t : 1 <= n -> bren n (S t) (n - 1 + t) = site_id n t.
Proof.
  intros H. unfold bren, site_id, id.
  destruct (Nat.leb_spec (n - 1) (n - 1 + t)), (Nat.ltb_spec (n - 1 + t) (n - 1 + S t)); cbn [andb]; lia.
Qed.
Lemma bren_old n t : bren n t (n - 1 + t) = n - 1 + t.
Proof. unfold bren. destruct (Nat.ltb_spec (n - 1 + t) (n - 1 + t)); [lia|]. rewrite andb_false_r. reflexivity. Qed.
Lemma bren_ge n t c : c <= bren n t c.
Proof. unfold bren. destruct ((n - 1 <=? c) && (c <? n - 1 + t)); lia. Qed.
Lemma bren_cases n t c : bren n t c = c \/ bren n t c = c + n + 1.
Proof. unfold bren. destruct ((n - 1 <=? c) && (c <? n - 1 + t)); auto. Qed.

Record p2inv (b n t : nat) (shp : list nat) (s : store) : Prop := {
  p2_nodes : nodes s = bin_nodes_upto b n t shp;
  p2_root : root s = Some 0;
  p2_tens : forall i, n - 1 + t <= i -> i <= 2 * n - 2 -> exists ot, aget i (tensors s) = Some ot;
  p2_wf : Inv.wf s
}.

Lemma p2_step b n t shp s : 2 <= n -> t < n -> 1 <= length shp -> nth 0 shp 0 = b ->
  p2inv b n t shp s ->
  exists s', replace_node s (site_id n t) (n - 1 + t) shp = Some s' /\ p2inv b n (S t) shp s'.
Proof.
  intros Hn Ht Hlen Hdim [Hnodes Hroot Htens Hwf].
  set (old := n - 1 + t). set (new := site_id n t). set (p := hpar old).
  assert (Hold : 1 <= old) by (unfold old; lia).
  assert (Hpc : old = 2 * p + 1 \/ old = 2 * p + 2) by (apply hpar_cases; exact Hold).
  assert (Hp : p < n - 1) by (unfold old in *; lia).
  set (A := map (fun i => (i, inode b n t i)) (seq 0 (n - 1))).
  set (C := map (fun i => (site_id n i, site_node n i shp)) (seq 0 t)).
  set (B' := map (fun i => (i, hnode b (n - 1) i)) (seq (S old) (n - t - 1))).
  set (on := hnode b (n - 1) old).
  assert (EB : map (fun i => (i, hnode b (n - 1) i)) (seq (n - 1 + t) (n - t)) = (old, on) :: B').
  { replace (n - t) with (S (n - t - 1)) by lia. reflexivity. }
  assert (Hnodes' : nodes s = A ++ ((old, on) :: B') ++ C).
  { rewrite Hnodes. unfold bin_nodes_upto. rewrite EB. reflexivity. }
  assert (HkA : akeys A = seq 0 (n - 1)).
  { unfold A. rewrite (akeys_map_key (fun i => i)), map_id. reflexivity. }
  assert (HoA : aget old A = None) by (apply aget_None_keys; rewrite HkA, in_seq; unfold old; lia).
  set (pn := inode b n t p).
  assert (HpA : aget p A = Some pn).
  { unfold A. apply (aget_map_inj (fun i => i) (fun i => inode b n t i)); [apply in_seq; lia|auto]. }
  assert (Hon : aget old (nodes s) = Some on).
  { rewrite Hnodes', aget_app, HoA. cbn [app aget]. rewrite Nat.eqb_refl. reflexivity. }
  assert (Hpn : aget p (nodes s) = Some pn) by (rewrite Hnodes', aget_app, HpA; reflexivity).
  destruct (Htens old ltac:(unfold old; lia) ltac:(unfold old; lia)) as (ot & Hot).
  assert (Hon0 : (old =? 0) = false) by (apply Nat.eqb_neq; lia).
  assert (Honl : (old <? n - 1) = false) by (apply Nat.ltb_ge; unfold old; lia).
  assert (Hch : children on = []) by (unfold on, hnode; cbn [children]; rewrite Honl; reflexivity).
  assert (Hpar : parent on = Some p) by (unfold on, hnode; cbn [parent]; rewrite Hon0; reflexivity).
  assert (Hsh : nth 0 (node_shape on) 0 = b).
  { unfold on, hnode, node_shape, vshape. cbn [perm shape]. rewrite Hon0. reflexivity. }
  assert (Hnew_old : new <> old) by (unfold new, old, site_id, id; lia).
  assert (Hpnew : p <> new) by (unfold new, site_id, id; lia).
  assert (Hin : In old (children pn)).
  { unfold pn, inode; cbn [children]. destruct Hpc as [E|E].
    - left. rewrite <- E. apply bren_old.
    - right. left. rewrite <- E. apply bren_old. }
  destruct (replace_leaf_spec s new old shp on ot p pn Hon Hot Hch Hpar Hnew_old Hpnew Hpn Hin Hlen)
    as (s' & ER & Hn' & Hr' & Ht'); [rewrite Hsh; exact Hdim|].
  assert (F1 : bren n t old = old) by apply bren_old.
  assert (F2 : bren n (S t) old = new) by (apply bren_old_S; lia).
  exists s'. split; [exact ER|]. constructor.
  - rewrite Hn', Hnodes'.
    set (pn' := with_children pn (replace_first old new (children pn))).
    rewrite (aset_app_l A _ p pn' pn HpA).
    assert (EA : aset p pn' A = map (fun i => (i, inode b n (S t) i)) (seq 0 (n - 1))).
    { unfold A. rewrite (aset_map_inj (fun i => i) (fun i => inode b n t i)); auto; [|apply seq_NoDup|apply in_seq; lia].
      apply map_ext_in. intros i Hi. apply in_seq in Hi. f_equal.
      destruct (Nat.eqb_spec i p) as [->|Nip].
      - unfold pn', pn, with_children, inode. cbn [parent children perm shape]. f_equal.
        cbn [replace_first]. destruct Hpc as [E|E].
        + rewrite <- E, F1, F2, Nat.eqb_refl. rewrite bren_step by (fold old; lia). reflexivity.
        + rewrite <- E, F1, F2, Nat.eqb_refl.
          destruct (Nat.eqb_spec old (bren n t (2 * p + 1))) as [E2|_].
          { exfalso. destruct (bren_cases n t (2 * p + 1)); lia. }
          rewrite bren_step by (fold old; lia). reflexivity.
      - unfold inode. f_equal. rewrite !bren_step; [reflexivity| |]; fold old; lia. }
    rewrite EA.
    rewrite adel_app_r.
    2:{ apply aget_None_keys. rewrite (akeys_map_key (fun i => i)), map_id, in_seq. unfold old; lia. }
    cbn [app adel]. rewrite Nat.eqb_refl.
    rewrite aset_absent.
    2:{ apply aget_None_keys. rewrite !akeys_app, (akeys_map_key (fun i => i)), map_id.
        unfold B', C. rewrite (akeys_map_key (fun i => i)), map_id, (akeys_map_key (site_id n)).
        rewrite !in_app_iff, !in_seq, in_map_iff. intros [E|[E|E]].
        - unfold new, site_id, id in E. lia.
        - unfold new, site_id, id, old in E. lia.
        - destruct E as (i & E & Hi). apply in_seq in Hi. unfold new, site_id, id in E. lia. }
    unfold bin_nodes_upto. rewrite <- !app_assoc. f_equal.
    replace (n - 1 + S t) with (S old) by (unfold old; lia). replace (n - S t) with (n - t - 1) by lia.
    fold B'. f_equal. rewrite seq_S, map_app. fold C. cbn [map plus]. reflexivity.
  - congruence.
  - intros i H1 H2. rewrite Ht' by (unfold old, new, site_id, id; lia). apply Htens; lia.
  - apply (replace_node_preserves_wf s new old shp s' Hwf Hnew_old); [|exact ER].
    apply aget_None_keys. rewrite Hnodes'. rewrite !akeys_app, HkA. unfold C.
    rewrite (akeys_map_key (site_id n)).
    change (akeys ((old, on) :: B')) with (old :: akeys B'). unfold B'. rewrite (akeys_map_key (fun i => i)), map_id.
    rewrite !in_app_iff, in_seq, in_map_iff. cbn [In]. rewrite in_seq. intros [E|[[E|E]|E]].
    + unfold new, site_id, id in E. lia.
    + unfold new, site_id, id, old in E. lia.
    + unfold new, site_id, id, old in E. lia.
    + destruct E as (i & E & Hi). apply in_seq in Hi. unfold new, site_id, id in E. lia.
Qed.

Lemma p2_loop b n shp : 2 <= n -> 1 <= length shp -> nth 0 shp 0 = b ->
  forall m t s, t + m = n -> p2inv b n t shp s ->
  exists s', forM (combine (seq t m) (map hn_of (seq (n - 1 + t) m))) (Some s)
                  (fun s ih => replace_node s (site_id n (fst ih)) (hid (snd ih)) shp) = Some s'
             /\ p2inv b n n shp s'.
Proof.
  intros Hn Hlen Hdim. induction m as [|m IH]; intros t s Ht Hinv.
  - exists s. split; [reflexivity|]. replace n with t by lia. replace (t + 0) with t in Hinv by lia.
    replace n with t in Hinv by lia. exact Hinv.
  - cbn [seq map combine]. rewrite forM_cons. cbn [bind fst snd hn_of hid].
    destruct (p2_step b n t shp s Hn ltac:(lia) Hlen Hdim Hinv) as (s1 & E1 & Hinv1).
    rewrite E1. replace (S (n - 1 + t)) with (n - 1 + S t) by lia. apply IH; [lia|exact Hinv1].
Qed.

(* ---- the final closed form ------------------------------------------------------------------------- *)
(* identifiers: internal virtual node i (heap index, i < n-1) keeps i; the leaf with heap index
   n-1+i becomes site_id n i.  Children of internal node i are the heap children 2i+1, 2i+2,
   renamed when they are leaves *)
Definition bchild (n c : nat) : id := if n - 1 <=? c then site_id n (c - (n - 1)) else c.
Definition bin_inode (b n i : nat) : node :=
  {| parent := if i =? 0 then None else Some (hpar i);
     children := [bchild n (2 * i + 1); bchild n (2 * i + 2)];
     perm := seq 0 (length (vshape b i)); shape := vshape b i |}.
Definition bin_nodes (b n : nat) (shp : list nat) : list (id * node) :=
  map (fun i => (i, bin_inode b n i)) (seq 0 (n - 1))
  ++ map (fun i => (site_id n i, site_node n i shp)) (seq 0 n).
Definition bin_labels (n : nat) : list (id * lbl) :=
  map (fun i => (i, LVirt (hlevel i) (hposn i))) (seq 0 (2 * n - 1))
  ++ map (fun i => (site_id n i, LSite i)) (seq 0 n).

Lemma bin_nodes_upto_full b n shp : 1 <= n -> bin_nodes_upto b n n shp = bin_nodes b n shp.
Proof.
  intros Hn. unfold bin_nodes_upto, bin_nodes. rewrite Nat.sub_diag. cbn [seq map app]. f_equal.
  apply map_ext_in. intros i Hi. apply in_seq in Hi. unfold inode, bin_inode.
  assert (G : forall c, c <= 2 * n - 2 -> bren n n c = bchild n c).
  { intros c Hc. unfold bren, bchild, site_id, id.
    destruct (Nat.leb_spec (n - 1) c), (Nat.ltb_spec c (n - 1 + n)); cbn [andb]; lia. }
  rewrite !G by lia. reflexivity.
Qed.

Lemma bin_nodes_length b n shp : 1 <= n -> length (bin_nodes b n shp) = 2 * n - 1.
Proof. intros. unfold bin_nodes. rewrite app_length, !map_length, !seq_length. lia. Qed.

Lemma bin_nodes_keys b n shp : akeys (bin_nodes b n shp) = seq 0 (n - 1) ++ map (site_id n) (seq 0 n).
Proof.
  unfold bin_nodes. rewrite akeys_app, (akeys_map_key (fun i => i)), map_id, (akeys_map_key (site_id n)). reflexivity.
Qed.

Lemma bin_nodes_virtual b n shp i : i < n - 1 -> aget i (bin_nodes b n shp) = Some (bin_inode b n i).
Proof.
  intros Hi. unfold bin_nodes. rewrite aget_app.
  rewrite (aget_map_inj (fun i => i) (fun i => bin_inode b n i)); auto. apply in_seq; lia.
Qed.

Lemma bin_nodes_site b n shp i : i < n -> aget (site_id n i) (bin_nodes b n shp) = Some (site_node n i shp).
Proof.
  intros Hi. unfold bin_nodes. rewrite aget_app.
  rewrite (proj2 (aget_None_keys _ _)).
  2:{ rewrite (akeys_map_key (fun i => i)), map_id, in_seq. unfold site_id, id. lia. }
  apply (aget_map_inj (site_id n) (fun i => site_node n i shp)); [apply in_seq; lia|].
  intros k _ E. unfold site_id, id in E. lia.
Qed.

(* ---- the virtual tree (any number of sites) ---------------------------------------------------------- *)
Lemma binary_phase1 b n : 1 <= n ->
  exists s0 s1, add_root empty_store (virt_id 0 0) [b; b; 1] = Some s0
    /\ bin_loop n n b s0 [{| hid := virt_id 0 0; hlev := 0; hpos := 0 |}] [(virt_id 0 0, LVirt 0 0)]
       = Some (s1, heap_queue (n - 1), heap_labels (n - 1))
    /\ binv b (n - 1) s1.
Proof.
  intros Hn.
  destruct (add_root_accepted empty_store (virt_id 0 0) [b; b; 1] eq_refl) as (s0 & E0).
  destruct (add_root_spec _ _ _ E0) as (Hn0 & Hroot0 & HB0 & Hld0).
  assert (I0 : binv b 0 s0).
  { constructor; auto.
    - intros i j H1 H2 Hj. assert (i = 0) by lia. subst i. unfold bleg. cbn [Nat.eqb].
      pose proof (Hld0 j) as Hd. destruct j as [|[|]]; try lia; apply Hd; simpl; lia.
    - eapply add_root_wf; [apply blank_empty|exact E0]. }
  destruct (bin_loop_ok b n Hn (n - 1) 0 n s0 ltac:(lia) ltac:(lia) I0) as (s1 & EL & I1).
  exists s0, s1. split; [exact E0|]. split; [exact EL|exact I1].
Qed.

Lemma binv_p2 b n shp s1 : 2 <= n -> binv b (n - 1) s1 -> p2inv b n 0 shp s1.
Proof.
  intros Hn2 [Hn1 Hr1 _ _ Hw1]. constructor; auto.
  - rewrite Hn1. unfold heap_nodes, bin_nodes_upto. cbn [seq map]. rewrite app_nil_r.
    replace (2 * (n - 1) + 1) with ((n - 1) + n) by lia. rewrite seq_app, map_app.
    rewrite Nat.add_0_r, Nat.sub_0_r. cbn [plus]. f_equal.
    apply map_ext_in. intros i Hi. apply in_seq in Hi. f_equal. unfold hnode, inode. f_equal.
    destruct (Nat.ltb_spec i (n - 1)); [|lia].
    assert (G : forall c, bren n 0 c = c).
    { intros c. unfold bren. destruct (Nat.leb_spec (n - 1) c), (Nat.ltb_spec c (n - 1 + 0)); cbn [andb]; lia. }
    rewrite !G. reflexivity.
  - intros i H1 H2. assert (Hi : aget i (nodes s1) = Some (hnode b (n - 1) i)).
    { rewrite Hn1. apply heap_nodes_aget. lia. }
    pose proof (ni_t _ _ _ (wf_node _ Hw1 _ _ Hi)) as Ht. unfold amem in Ht.
    destruct (aget i (tensors s1)) as [ot|]; [eauto|discriminate].
Qed.

(* ---- the universal statement (at least two physical sites) ---------------------------------------- *)
Theorem binary_ttns_univ (nphys bd : Z) (shp : list nat) :
  (2 <= nphys)%Z -> (1 <= bd)%Z -> 1 <= length shp -> nth 0 shp 0 = Z.to_nat bd ->
  let n := Z.to_nat nphys in let b := Z.to_nat bd in
  exists s, binary_ttns nphys bd shp = Some (s, bin_labels n)
    /\ nodes s = bin_nodes b n shp /\ root s = Some 0 /\ length (nodes s) = 2 * n - 1
    /\ wfb s = true.
Proof.
  intros Hn Hb Hlen Hdim n b. unfold binary_ttns.
  destruct (Z.ltb_spec nphys 1); [lia|]. destruct (Z.ltb_spec bd 1); [lia|]. cbn [orb]. fold n. fold b.
  assert (Hn2 : 2 <= n) by (unfold n; lia).
  destruct (binary_phase1 b n ltac:(lia)) as (s0 & s1 & E0 & EL & I1).
  rewrite E0. cbn [bind]. rewrite EL. cbn [bind].
  pose proof (binv_p2 b n shp s1 Hn2 I1) as P0.
  assert (LQ : length (heap_queue (n - 1)) = n).
  { unfold heap_queue. rewrite map_length, seq_length. lia. }
  rewrite LQ. unfold heap_queue. replace (S (n - 1)) with n by lia.
  destruct (p2_loop b n shp Hn2 Hlen Hdim n 0 s1 ltac:(lia) P0) as (s2 & E2 & [Hn2' Hr2 _ Hw2]).
  rewrite Nat.add_0_r in E2. rewrite E2. cbn [bind].
  exists s2. split.
  - f_equal. f_equal. unfold bin_labels, heap_labels. replace (2 * (n - 1) + 1) with (2 * n - 1) by lia. reflexivity.
  - rewrite Hn2', bin_nodes_upto_full by lia. split; [reflexivity|]. split; [exact Hr2|].
    split; [apply bin_nodes_length; lia|]. apply wfb_iff. exact Hw2.
Qed.

(* the condition on the physical tensor is exact: with at least two sites every other shape is rejected
   (replace_node compares the parent leg of the first leaf with axis 0 of the physical tensor) *)
Theorem binary_ttns_rejects (nphys bd : Z) (shp : list nat) :
  (2 <= nphys)%Z -> (1 <= bd)%Z -> (length shp = 0 \/ nth 0 shp 0 <> Z.to_nat bd) ->
  binary_ttns nphys bd shp = None.
Proof.
  intros Hn Hb Hbad. unfold binary_ttns.
  destruct (Z.ltb_spec nphys 1); [lia|]. destruct (Z.ltb_spec bd 1); [lia|]. cbn [orb].
  set (n := Z.to_nat nphys). set (b := Z.to_nat bd) in *.
  assert (Hn2 : 2 <= n) by (unfold n; lia).
  destruct (binary_phase1 b n ltac:(lia)) as (s0 & s1 & E0 & EL & I1).
  rewrite E0. cbn [bind]. rewrite EL. cbn [bind].
  destruct (binv_p2 b n shp s1 Hn2 I1) as [_ _ Ht _].
  destruct (Ht (n - 1) ltac:(lia) ltac:(lia)) as (ot & Hot).
  assert (Hon : aget (n - 1) (nodes s1) = Some (hnode b (n - 1) (n - 1))).
  { rewrite (bi_nodes _ _ _ I1). apply heap_nodes_aget. lia. }
  unfold heap_queue. replace (S (n - 1)) with (S (n - 1)) by lia.
  rewrite map_length, seq_length. cbn [seq map combine]. rewrite forM_cons. cbn [bind fst snd hn_of hid].
  unfold replace_node. rewrite Hon, Hot.
  assert (Hon0 : (n - 1 =? 0) = false) by (apply Nat.eqb_neq; lia).
  assert (Hnv : nvirt (hnode b (n - 1) (n - 1)) = 1).
  { unfold nvirt, nparents, hnode. cbn [parent children]. rewrite Hon0, Nat.ltb_irrefl. reflexivity. }
  assert (Hsh : nth 0 (node_shape (hnode b (n - 1) (n - 1))) 0 = b).
  { unfold hnode, node_shape, vshape. cbn [perm shape]. rewrite Hon0. reflexivity. }
  rewrite Hnv. cbn [seq forallb]. rewrite Hsh.
  assert (Ebad : (0 <? length shp) && (nth 0 shp 0 =? b) = false).
  { destruct Hbad as [E|E].
    - rewrite E. reflexivity.
    - apply Nat.eqb_neq in E. rewrite E. apply andb_false_r. }
  rewrite Ebad. cbn [andb negb]. rewrite forM_None. reflexivity.
Qed.

(* a single physical site: the root itself is replaced, any shape is accepted *)
Lemma replace_root_one b shp s0 : add_root empty_store 0 [b; b; 1] = Some s0 ->
  exists s', replace_node s0 2 0 shp = Some s' /\ nodes s' = [(2, new_node shp)] /\ root s' = Some 2.
Proof.
  unfold add_root. cbn [root empty_store fresh_wires fresh_atom nodes tensors dims next_wire next_atom defs atab
                        upd_nodes upd_tensors set_root aset app bind].
  intros E. injection E as <-.
  unfold replace_node.
  cbn [nodes tensors aget Nat.eqb set_root upd_tensors upd_nodes aset new_node nvirt nparents parent children
       length plus seq forallb negb].
  unfold replace_node_in_neighbours.
  cbn [nodes tensors aget Nat.eqb set_root upd_tensors upd_nodes aset new_node nvirt nparents parent children
       length plus seq forallb negb fold_left adel bind root firstn skipn app].
  match goal with |- context [fresh_wires ?s2 shp] => destruct (fresh_wires s2 shp) as [s3 ws] eqn:E end.
  apply fw_spec in E. cbn [nodes tensors root next_wire dims] in E. destruct E as (Ews & En & Et & Er & Ed & Ew).
  unfold fresh_atom. eexists. split; [reflexivity|].
  cbn [nodes root upd_tensors upd_nodes]. rewrite En, Er. split; reflexivity.
Qed.

Theorem binary_ttns_one (bd : Z) (shp : list nat) : (1 <= bd)%Z ->
  exists s, binary_ttns 1 bd shp = Some (s, [(0, LVirt 0 0); (site_id 1 0, LSite 0)])
    /\ nodes s = [(site_id 1 0, new_node shp)] /\ root s = Some (site_id 1 0) /\ wfb s = true.
Proof.
  intros Hb. unfold binary_ttns. destruct (Z.ltb_spec bd 1); [lia|]. change ((1 <? 1)%Z) with false. cbn [orb].
  change (Z.to_nat 1) with 1. set (b := Z.to_nat bd). change (virt_id 0 0) with 0.
  destruct (add_root_accepted empty_store 0 [b; b; 1] eq_refl) as (s0 & E0).
  rewrite E0. cbn [bind]. rewrite bin_loop_eq. cbn [length Nat.eqb bind seq combine]. rewrite forM_cons.
  cbn [bind fst snd hid forM fold_left]. change (site_id 1 0) with 2.
  destruct (replace_root_one b shp s0 E0) as (s' & ER & Hn & Hr).
  rewrite ER. cbn [bind map app]. exists s'. repeat split; auto.
  apply wfb_iff. apply (replace_node_preserves_wf s0 2 0 shp s'); auto.
  - eapply add_root_wf; [apply blank_empty|exact E0].
  - destruct (add_root_spec _ _ _ E0) as (Hn0 & _). rewrite Hn0. reflexivity.
Qed.

Example binary_example :
  option_map (fun sl => (nodes (fst sl), snd sl, wfb (fst sl))) (binary_ttns 5 2 [2; 3])
  = Some (bin_nodes 2 5 [2; 3], bin_labels 5, true).
Proof. vm_compute. reflexivity. Qed.
