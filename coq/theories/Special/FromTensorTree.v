(* Proofs about Special/FromTensor.v, part 2: the recursion _from_tensor_rec over the reference tree.
   For every reference tree with distinct identifiers: started on a well-formed store in which the subtree's
   root is a childless node whose open legs are the legs of the whole subtree (in the order
   _get_qr_decomposition_shape produces), the recursion is accepted, keeps the store invariant, leaves every
   node outside the subtree untouched, appends the subtree's other identifiers to the node dictionary in
   pre-order, and builds exactly the reference subtree: parents, children IN ORDER, each node left with its
   own legs as open legs and an identity leg permutation.
   The induction is generic in a reflexive-transitive relation Rel on stores that holds across an access
   and across a factor-and-attach step; FromTensorValue.v instantiates it with "the value of the network is
   preserved". *)
From Coq Require Import List Arith Bool Lia Permutation.
From PTN Require Import TTN.Store TTN.StoreProofs TTN.Inv TTN.InvProofs TTN.InvNode TTN.InvBuild TTN.InvContract
  Tree.RTree Tree.RTreeProofs Special.Chain Special.ChainProofs Special.FromTensor Special.FromTensorProofs.
Import ListNotations.

Local Notation wf := Inv.wf.

(* ---- frames ------------------------------------------------------------------------------------------- *)
Definition same_at (s s' : store) (k : id) : Prop :=
  aget k (nodes s') = aget k (nodes s) /\ aget k (tensors s') = aget k (tensors s).

Lemma same_at_refl s k : same_at s s k.
Proof. split; reflexivity. Qed.

Lemma same_at_trans s1 s2 s3 k : same_at s1 s2 k -> same_at s2 s3 k -> same_at s1 s3 k.
Proof. intros [A B] [C D]. split; congruence. Qed.

Lemma same_at_tens s s' k : same_at s s' k -> tens s' k = tens s k.
Proof. intros [_ B]. unfold tens. rewrite B. reflexivity. Qed.

(* node k: parent p, children ch (in order), open legs o (in node order), identity leg permutation *)
Definition node_at (s : store) (k : id) (p : option id) (ch : list id) (o : list wire) : Prop :=
  exists nk, aget k (nodes s) = Some nk /\ parent nk = p /\ children nk = ch
             /\ open_of nk (tens s k) = o /\ perm nk = seq 0 (nlegs nk).

Lemma node_at_same s s' k p ch o : same_at s s' k -> node_at s k p ch o -> node_at s' k p ch o.
Proof.
  intros Hs (nk & E & H1 & H2 & H3 & H4). exists nk. rewrite (same_at_tens _ _ _ Hs). destruct Hs as [A _].
  rewrite A. auto.
Qed.

(* the store contains the tree t below parent `par`: every node has the reference tree's parent and children
   list and exactly its own legs open *)
Inductive built (leg : id -> list wire) (s : store) : option id -> rtree -> Prop :=
| built_node par i cs : node_at s i par (map rid cs) (leg i) -> Forall (built leg s (Some i)) cs ->
    built leg s par (RNode i cs).

Lemma built_same leg s s' t : forall par, (forall k, In k (ids t) -> same_at s s' k) -> built leg s par t -> built leg s' par t.
Proof.
  induction t as [i cs IH] using rtree_ind2. intros par Hs Hb. inversion Hb as [? ? ? Hn Hc]; subst.
  constructor.
  - apply (node_at_same s); [apply Hs; left; reflexivity|exact Hn].
  - rewrite Forall_forall in *. intros c Hin. apply IH; [exact Hin| |apply Hc; exact Hin].
    intros k Hk. apply Hs. apply (in_child_ids i cs c k Hin Hk).
Qed.

(* ---- access, consolidated ------------------------------------------------------------------------------ *)
Lemma access_spec s i nd : wf s -> aget i (nodes s) = Some nd ->
  exists s' nd' t', access s i = Some (s', nd', t') /\ wf s' /\
    aget i (nodes s') = Some nd' /\ aget i (tensors s') = Some t' /\
    parent nd' = parent nd /\ children nd' = children nd /\
    perm nd' = seq 0 (length (axes t')) /\
    open_of nd' t' = open_of nd (tens s i) /\
    (forall k, k <> i -> same_at s s' k) /\ akeys (nodes s') = akeys (nodes s) /\ root s' = root s.
Proof.
  intros W En. pose proof (wf_tens s i nd W En) as Et.
  assert (Ha : access s i = Some (upd_tensors (upd_nodes s (aset i (reset_permutation nd))) (aset i (s_transpose (perm nd) (tens s i))),
                                  reset_permutation nd, s_transpose (perm nd) (tens s i))).
  { unfold access. rewrite En, Et. reflexivity. }
  eexists _, _, _. split; [exact Ha|]. split; [apply (access_preserves_wf _ _ _ _ _ W Ha)|].
  destruct (access_result _ _ _ _ _ Ha) as (R1 & R2 & R3 & R4 & _ & _ & R5 & R6 & _).
  split; [exact R1|]. split; [exact R2|]. split; [reflexivity|]. split; [reflexivity|].
  split; [cbn [perm reset_permutation s_transpose axes]; unfold permute; rewrite map_length; reflexivity|].
  split; [apply open_of_ext; [reflexivity|reflexivity|apply access_laxes]|].
  split; [intros k Hk; exact (R4 k Hk)|]. split; [exact R6|exact R5].
Qed.

(* splitting the open legs  X ++ Y  off the end of the raw axes *)
Lemma split_tail {A} (l : list A) nv X Y : skipn nv l = X ++ Y -> nv <= length l ->
  skipn (length l - length Y) l = Y /\ skipn nv (firstn (length l - length Y) l) = X.
Proof.
  intros H Hn. set (F := firstn nv l).
  assert (HF : length F = nv) by (apply firstn_length_le; exact Hn).
  assert (Hl : l = (F ++ X) ++ Y) by (rewrite <- app_assoc, <- H; symmetry; apply firstn_skipn).
  assert (Hlen : length l - length Y = length (F ++ X)).
  { rewrite Hl at 1. rewrite !app_length. lia. }
  rewrite Hlen. clearbody F. subst l. split.
  - apply skipn_app_len.
  - rewrite firstn_app_len. rewrite <- HF. apply skipn_app_len.
Qed.

(* ---- the loop as a named function ------------------------------------------------------------------------ *)
Definition ft_loop (dm : dmode) (tb : id -> nat) (i : id) : list rtree -> store -> sarr -> option store :=
  fix loop (l : list rtree) (s : store) (cur_t : sarr) : option store :=
    match l with
    | [] => Some s
    | c :: l' =>
        match factor_attach s i (rid c) cur_t (2 * size c) dm (tb (rid c)) with
        | None => None
        | Some s3 =>
            match ft_rec dm tb c s3 with
            | None => None
            | Some s4 =>
                match access s4 i with
                | None => None
                | Some (s5, _, t5) => loop l' s5 t5
                end
            end
        end
    end.

Lemma ft_rec_node dm tb i c cs s :
  ft_rec dm tb (RNode i (c :: cs)) s
  = match access s i with None => None | Some (s0, _, t0) => ft_loop dm tb i (c :: cs) s0 t0 end.
Proof. reflexivity. Qed.

Lemma ft_rec_leaf dm tb i s : ft_rec dm tb (RNode i []) s = Some s.
Proof. reflexivity. Qed.

(* the legs of a whole subtree in the order _get_qr_decomposition_shape lists them *)
Definition sub_legs (leg : id -> list wire) (t : rtree) : list wire := qr_acc leg t [].

Section Tree.
  Variables (dm : dmode) (tb : id -> nat) (leg : id -> list wire).
  Hypothesis leg2 : forall i, length (leg i) = 2.

  Variable Rel : store -> store -> Prop.
  Hypothesis Rel_refl : forall s, Rel s s.
  Hypothesis Rel_trans : forall a b c, Rel a b -> Rel b c -> Rel a c.
  Hypothesis Rel_access : forall s n s' nd t, wf s -> access s n = Some (s', nd, t) -> Rel s s'.
  Hypothesis Rel_step : forall s cur c nd t r, step_pre s cur c nd t r ->
    Rel s (step_result s cur c nd t r dm (tb c)).

  Local Notation G := (sub_legs leg).

  Lemma G_node i cs : G (RNode i cs) = leg i ++ concat (rev (map G cs)).
  Proof. unfold sub_legs. rewrite qr_acc_closed, app_nil_r. reflexivity. Qed.

  Lemma G_length t : length (G t) = 2 * size t.
  Proof.
    unfold sub_legs. pose proof (Permutation_length (qr_acc_perm leg t)) as P. cbv zeta beta in P.
    unfold wire, id in *. rewrite P, size_length_ids. clear P.
    induction (ids t) as [|a l IH]; cbn; [reflexivity|]. rewrite app_length, leg2, IH. lia.
  Qed.

  (* what the recursion needs / what it establishes *)
  Record pre (s : store) (t : rtree) (par : option id) : Prop := {
    pre_wf : wf s;
    pre_node : node_at s (rid t) par [] (G t);
    pre_fresh : forall k, In k (tl (ids t)) -> aget k (nodes s) = None;
    pre_nd : NoDup (ids t)
  }.

  Record post (s s' : store) (t : rtree) (par : option id) : Prop := {
    post_wf : wf s';
    post_keys : akeys (nodes s') = akeys (nodes s) ++ tl (ids t);
    post_root : root s' = root s;
    post_frame : forall k, ~ In k (ids t) -> same_at s s' k;
    post_built : built leg s' par t;
    post_rel : Rel s s'
  }.

  (* the loop invariant: dn = the children already built, l = the children still to be split off *)
  Record linv (s sc : store) (i : id) (par : option id) (cs dn l : list rtree) (ct : sarr) : Prop := {
    li_wf : wf sc;
    li_node : exists nd, aget i (nodes sc) = Some nd /\ parent nd = par /\ children nd = map rid dn
              /\ perm nd = seq 0 (length (axes ct)) /\ open_of nd ct = leg i ++ concat (rev (map G l));
    li_t : aget i (tensors sc) = Some ct;
    li_keys : akeys (nodes sc) = akeys (nodes s) ++ flat_map ids dn;
    li_root : root sc = root s;
    li_frame : forall k, ~ In k (ids (RNode i cs)) -> same_at s sc k;
    li_built : Forall (built leg sc (Some i)) dn;
    li_fresh : forall k, In k (flat_map ids l) -> aget k (nodes sc) = None;
    li_rel : Rel s sc
  }.

  Definition rec_ok (c : rtree) : Prop :=
    forall s par, pre s c par -> exists s', ft_rec dm tb c s = Some s' /\ post s s' c par.

  Lemma loop_spec i par cs s : Forall rec_ok cs -> NoDup (ids (RNode i cs)) ->
    forall l dn sc ct, cs = dn ++ l -> linv s sc i par cs dn l ct ->
    exists s' ct', ft_loop dm tb i l sc ct = Some s' /\ linv s s' i par cs cs [] ct'.
  Proof.
    intros IH ND. induction l as [|c l' IHl]; intros dn sc ct Hcs LI.
    - rewrite app_nil_r in Hcs. subst dn. exists sc, ct. split; [reflexivity|exact LI].
    - destruct LI as [W (nd & En & Hpar & Hch & Hperm & Hopen) Et Hkeys Hroot Hframe Hbuilt Hfresh Hrel].
      (* disjointness of identifiers *)
      subst cs. cbn [ids] in ND. apply NoDup_cons_iff in ND. destruct ND as [Hi ND']. rewrite flat_map_app in Hi, ND'. cbn [flat_map] in Hi, ND'.
      apply InvProofs.NoDup_app_iff in ND'. destruct ND' as (ND1 & ND2 & D12).
      apply InvProofs.NoDup_app_iff in ND2. destruct ND2 as (NDc & NDl & Dcl).
      assert (Hi_c : ~ In i (ids c)) by (intros H; apply Hi; apply in_or_app; right; apply in_or_app; left; exact H).
      assert (Hc_in : In c (dn ++ c :: l')) by (apply in_or_app; right; left; reflexivity).
      assert (Hrc : In (rid c) (ids c)) by apply rid_in_ids.
      (* the raw tensor of the current node *)
      pose proof (wf_node sc W i nd En) as Hni.
      assert (Htens : tens sc i = ct) by (apply tens_aget; exact Et).
      assert (Hlen : length (axes ct) = nlegs nd) by (rewrite <- Htens; apply (wf_axes_length sc i nd W En)).
      assert (Hlax : laxes nd ct = axes ct) by (unfold laxes; rewrite Hperm; apply permute_seq).
      assert (Hsk : skipn (nvirt nd) (axes ct) = (leg i ++ concat (rev (map G l'))) ++ G c).
      { unfold open_of in Hopen. rewrite Hlax in Hopen. rewrite Hopen. cbn [map rev]. rewrite concat_app. cbn [concat].
        rewrite app_nil_r, app_assoc. reflexivity. }
      assert (Hnv : nvirt nd <= length (axes ct)) by (rewrite Hlen; apply (ni_virt _ _ _ Hni)).
      destruct (split_tail (axes ct) (nvirt nd) _ _ Hsk Hnv) as [Hrw HOq]. rewrite (G_length c) in Hrw, HOq.
      assert (Hr : nvirt nd + 2 * size c <= length (axes ct)).
      { assert (E : length (skipn (nvirt nd) (axes ct)) = length ((leg i ++ concat (rev (map G l'))) ++ G c)) by (rewrite Hsk; reflexivity).
        rewrite skipn_length, app_length, (G_length c) in E. unfold wire in *. lia. }
      (* the step *)
      assert (SP : step_pre sc i (rid c) nd ct (2 * size c)).
      { constructor; auto. apply Hfresh. cbn [flat_map]. apply in_or_app. left. exact Hrc. }
      pose proof (step_accepts sc i (rid c) nd ct (2 * size c) dm (tb (rid c)) SP) as Hstep.
      pose proof (step_wf sc i (rid c) nd ct (2 * size c) dm (tb (rid c)) SP) as W3.
      set (s3 := step_result sc i (rid c) nd ct (2 * size c) dm (tb (rid c))) in *.
      assert (Hne : rid c <> i) by (intros E; apply Hi_c; rewrite <- E; exact Hrc).
      (* the recursive call *)
      assert (PRE : pre s3 c (Some i)).
      { constructor.
        - exact W3.
        - unfold s3. eexists. split; [apply (step_node_c sc i (rid c) nd ct (2 * size c) dm (tb (rid c)) SP)|].
          split; [reflexivity|]. split; [reflexivity|]. split.
          + unfold tens. rewrite (step_tens_c sc i (rid c) nd ct (2 * size c) dm (tb (rid c))).
            rewrite (step_open_c sc i ct (2 * size c) dm (tb (rid c))). exact Hrw.
          + unfold nlegs. cbn [perm nd_child]. rewrite seq_length. reflexivity.
        - intros k Hk.
          assert (Hk' : In k (ids c)) by (destruct c as [j cc]; cbn [ids tl] in *; right; exact Hk).
          assert (k <> i) by (intros ->; contradiction).
          assert (k <> rid c).
          { intros ->. destruct c as [j cc]. cbn [ids tl rid] in *. inversion NDc; contradiction. }
          destruct (step_other sc i (rid c) nd ct (2 * size c) dm (tb (rid c)) k) as [A _]; auto.
          unfold s3. rewrite A. apply Hfresh. cbn [flat_map]. apply in_or_app. left. exact Hk'.
        - exact NDc. }
      rewrite Forall_forall in IH. destruct (IH c Hc_in s3 (Some i) PRE) as (s4 & Hrec & [W4 K4 R4 F4 B4 L4]).
      (* the second access *)
      assert (En4 : aget i (nodes s4) = Some (nd_parent (factored sc ct (2 * size c) dm (tb (rid c))) nd (q_of sc ct (2 * size c)) (rid c)
                                               (length (axes ct) - 2 * size c - nvirt nd))).
      { destruct (F4 i Hi_c) as [A _]. rewrite A. apply (step_node_cur sc i (rid c) nd ct (2 * size c) dm (tb (rid c))). }
      assert (Et4 : aget i (tensors s4) = Some (q_of sc ct (2 * size c))).
      { destruct (F4 i Hi_c) as [_ B]. rewrite B. apply (step_tens_cur sc i (rid c) nd ct (2 * size c) dm (tb (rid c)) SP). }
      destruct (access_spec s4 i _ W4 En4) as (s5 & nd5 & t5 & Hacc & W5 & En5 & Et5 & Hp5 & Hc5 & Hperm5 & Hopen5 & F5 & K5 & R5).
      cbn [ft_loop]. fold (ft_loop dm tb i). rewrite Hstep, Hrec, Hacc.
      apply (IHl (dn ++ [c]) s5 t5); [rewrite <- app_assoc; reflexivity|].
      (* frames between the stores *)
      assert (FR : forall k, k <> i -> ~ In k (ids c) -> same_at sc s5 k).
      { intros k H1 H2. apply (same_at_trans sc s3); [|apply (same_at_trans s3 s4); [apply F4; exact H2|apply F5; exact H1]].
        apply (step_other sc i (rid c) nd ct (2 * size c) dm (tb (rid c)) k H1). intros ->. apply H2. exact Hrc. }
      constructor.
      + exact W5.
      + exists nd5. split; [exact En5|]. split; [rewrite Hp5; exact Hpar|]. split.
        * rewrite Hc5. cbn [children nd_parent]. rewrite Hch, map_app. reflexivity.
        * split; [exact Hperm5|]. rewrite Hopen5. unfold tens. rewrite Et4.
          rewrite (step_open_cur sc i (rid c) nd ct (2 * size c) dm (tb (rid c)) SP). exact HOq.
      + exact Et5.
      + rewrite K5, K4. fold s3. unfold s3. rewrite (step_keys sc i (rid c) nd ct (2 * size c) dm (tb (rid c)) SP), Hkeys.
        rewrite flat_map_app. cbn [flat_map]. rewrite app_nil_r, <- !app_assoc. do 2 f_equal.
        destruct c as [j cc]. reflexivity.
      + rewrite R5, R4. exact Hroot.
      + intros k Hk. apply (same_at_trans s sc); [apply Hframe; exact Hk|]. apply FR.
        * intros ->. apply Hk. left. reflexivity.
        * intros Hin. apply Hk. apply (in_child_ids i _ c k Hc_in Hin).
      + apply Forall_app. split.
        * rewrite Forall_forall in *. intros d Hd. apply (built_same leg sc); [|apply Hbuilt; exact Hd].
          intros k Hk. assert (Hkd : In k (flat_map ids dn)) by (apply in_flat_map; exists d; auto).
          apply FR.
          -- intros ->. apply Hi. apply in_or_app. left. exact Hkd.
          -- intros Hkc. apply (D12 k Hkd). apply in_or_app. left. exact Hkc.
        * constructor; [|constructor]. apply (built_same leg s4); [|exact B4].
          intros k Hk. apply F5. intros ->. contradiction.
      + intros k Hk.
        assert (k <> i) by (intros ->; apply Hi; apply in_or_app; right; apply in_or_app; right; exact Hk).
        assert (~ In k (ids c)) by (intros Hkc; apply (Dcl k Hkc Hk)).
        destruct (FR k) as [A _]; auto. rewrite A. apply Hfresh. cbn [flat_map]. apply in_or_app. right. exact Hk.
      + apply (Rel_trans s sc); [exact Hrel|]. apply (Rel_trans sc s3); [apply Rel_step; exact SP|].
        apply (Rel_trans s3 s4); [exact L4|]. apply (Rel_access s4 i s5 nd5 t5 W4 Hacc).
  Qed.

  Theorem ft_rec_spec t : rec_ok t.
  Proof.
    induction t as [i cs IH] using rtree_ind2. intros s par [W Hnode Hfresh ND].
    destruct cs as [|c cs'].
    - exists s. split; [reflexivity|]. constructor; auto.
      + cbn. rewrite app_nil_r. reflexivity.
      + intros k _. apply same_at_refl.
      + constructor; [|constructor]. cbn [rid] in Hnode. rewrite G_node in Hnode. cbn in Hnode. rewrite app_nil_r in Hnode. exact Hnode.
    - destruct Hnode as (nd & En & Hpar & Hch & Hopen & Hperm). cbn [rid] in En, Hopen.
      destruct (access_spec s i nd W En) as (s0 & nd0 & t0 & Hacc & W0 & En0 & Et0 & Hp0 & Hc0 & Hperm0 & Hopen0 & F0 & K0 & R0).
      assert (LI : linv s s0 i par (c :: cs') [] (c :: cs') t0).
      { constructor.
        - exact W0.
        - exists nd0. split; [exact En0|]. split; [congruence|]. split; [rewrite Hc0; exact Hch|]. split; [exact Hperm0|].
          rewrite Hopen0, Hopen. apply G_node.
        - exact Et0.
        - cbn. rewrite app_nil_r. exact K0.
        - exact R0.
        - intros k Hk. apply F0. intros ->. apply Hk. left. reflexivity.
        - constructor.
        - intros k Hk. destruct (F0 k) as [A _].
          + intros ->. cbn [ids] in ND. inversion ND; contradiction.
          + rewrite A. apply Hfresh. exact Hk.
        - apply (Rel_access s i s0 nd0 t0 W Hacc). }
      destruct (loop_spec i par (c :: cs') s IH ND (c :: cs') [] s0 t0 eq_refl LI) as (s' & ct' & Hloop & LF).
      exists s'. split; [rewrite ft_rec_node, Hacc; exact Hloop|].
      destruct LF as [W' (nd' & En' & Hpar' & Hch' & Hperm' & Hopen') Et' Hkeys' Hroot' Hframe' Hbuilt' _ Hrel'].
      constructor; auto.
      constructor; [|exact Hbuilt'].
      exists nd'. split; [exact En'|]. split; [exact Hpar'|]. split; [exact Hch'|]. split.
      + unfold tens. rewrite Et'. rewrite Hopen'. cbn. apply app_nil_r.
      + unfold nlegs. rewrite Hperm' at 2. rewrite seq_length. exact Hperm'.
  Qed.
End Tree.

(* ---- reading a built tree through parent_of / children_ids --------------------------------------------- *)
Lemma children_ids_root i cs : children_ids (RNode i cs) i = map rid cs.
Proof. unfold children_ids. cbn [subtree]. rewrite Nat.eqb_refl. reflexivity. Qed.

Lemma children_ids_child i cs c k : NoDup (ids (RNode i cs)) -> In c cs -> In k (ids c) ->
  children_ids (RNode i cs) k = children_ids c k.
Proof.
  intros ND Hc Hk. apply subtree_Some_iff in Hk. destruct Hk as [u Hu].
  destruct (subtree_sound _ _ _ Hu) as [Hr Hsub].
  assert (Hsub' : is_subtree u (RNode i cs)) by (apply (sub_child u i cs c Hc Hsub)).
  pose proof (subtree_complete _ _ ND Hsub') as E. rewrite Hr in E.
  unfold children_ids. rewrite E, Hu. reflexivity.
Qed.

Lemma parent_of_child_root i cs c : NoDup (ids (RNode i cs)) -> In c cs -> parent_of (rid c) (RNode i cs) = Some i.
Proof. intros ND Hc. apply parent_of_complete; [exact ND|]. apply edges_root. exact Hc. Qed.

Lemma parent_of_child i cs c k : NoDup (ids (RNode i cs)) -> In c cs -> In k (ids c) -> k <> rid c ->
  parent_of k (RNode i cs) = parent_of k c.
Proof.
  intros ND Hc Hk Hne. destruct (parent_of_nonroot c k Hk Hne) as [p Hp].
  rewrite (parent_of_complete c p k (wf_child i cs c ND Hc) Hp).
  apply parent_of_complete; [exact ND|]. apply (edges_child i cs c _ Hc Hp).
Qed.

Lemma built_lookup leg s t : forall par, built leg s par t -> NoDup (ids t) ->
  forall k, In k (ids t) ->
  exists nk, aget k (nodes s) = Some nk /\ parent nk = (if Nat.eqb k (rid t) then par else parent_of k t)
             /\ children nk = children_ids t k /\ open_of nk (tens s k) = leg k /\ perm nk = seq 0 (nlegs nk).
Proof.
  induction t as [i cs IH] using rtree_ind2. intros par Hb ND k Hk. inversion Hb as [? ? ? Hn Hc]; subst.
  cbn [ids] in Hk. destruct Hk as [<-|Hk].
  - destruct Hn as (nk & E & H1 & H2 & H3 & H4). exists nk. cbn [rid]. rewrite Nat.eqb_refl, children_ids_root. auto.
  - apply in_flat_map in Hk. destruct Hk as (c & Hcin & Hkc).
    rewrite Forall_forall in IH, Hc.
    destruct (IH c Hcin (Some i) (Hc c Hcin) (wf_child i cs c ND Hcin) k Hkc) as (nk & E & H1 & H2 & H3 & H4).
    exists nk. split; [exact E|].
    assert (Hki : k <> i) by (intros ->; apply (wf_root_notin_child i cs c ND Hcin Hkc)).
    cbn [rid]. apply Nat.eqb_neq in Hki. rewrite Hki. split.
    + rewrite H1. destruct (Nat.eqb_spec k (rid c)) as [->|Hne].
      * symmetry. apply parent_of_child_root; assumption.
      * symmetry. apply parent_of_child; assumption.
    + split; [|auto]. rewrite H2. symmetry. apply children_ids_child; assumption.
Qed.

(* ---- the initial store ------------------------------------------------------------------------------------ *)
Lemma single_wf s r t :
  nodes s = [(r, new_node (map (wdim s) (axes t)))] -> tensors s = [(r, t)] -> root s = Some r ->
  NoDup (axes t) -> (forall w, In w (axes t) -> w < next_wire s) ->
  (forall w, In w (akeys (dims s)) -> w < next_wire s) -> wf s.
Proof.
  intros Hn Ht Hr Hnd Hw Hd.
  assert (G1 : forall k nd, aget k (nodes s) = Some nd -> k = r /\ nd = new_node (map (wdim s) (axes t))).
  { intros k nd. rewrite Hn. cbn. destruct (Nat.eqb_spec k r); [intros [= <-]; auto|discriminate]. }
  assert (G2 : tens s r = t) by (unfold tens; rewrite Ht; cbn; rewrite Nat.eqb_refl; reflexivity).
  assert (Hown : own_of (new_node (map (wdim s) (axes t))) t = axes t).
  { unfold own_of, laxes. cbn. rewrite map_length. apply permute_seq. }
  constructor.
  - rewrite Hn. cbn. constructor; [intros []|constructor].
  - rewrite Ht. cbn. constructor; [intros []|constructor].
  - intros k. unfold amem. rewrite Hn, Ht. cbn. destruct (Nat.eqb k r); auto.
  - exists r, (new_node (map (wdim s) (axes t))). repeat split.
    + exact Hr.
    + rewrite Hn. cbn. rewrite Nat.eqb_refl. reflexivity.
    + intros k nd E _. apply (G1 k nd E).
  - intros k nd E. destruct (G1 k nd E) as [-> ->]. constructor.
    + unfold amem. rewrite Ht. cbn. rewrite Nat.eqb_refl. reflexivity.
    + cbn. apply Permutation_refl.
    + rewrite G2. reflexivity.
    + cbn. lia.
    + cbn. constructor.
    + intros c [].
    + intros p Hp. discriminate Hp.
  - intros k nd E. destruct (G1 k nd E) as [-> ->]. rewrite G2, Hown. exact Hnd.
  - intros k1 n1 k2 n2 w E1 E2'. destruct (G1 _ _ E1) as [-> _]. destruct (G1 _ _ E2') as [-> _]. reflexivity.
  - intros k tk w E Hin. rewrite Ht in E. cbn in E. destruct (Nat.eqb k r); [|discriminate].
    injection E as <-. apply Hw. exact Hin.
  - exact Hd.
  - exists (fun _ => 0). intros c cn p E Hp. destruct (G1 _ _ E) as [_ ->]. discriminate Hp.
Qed.

Lemma permute_seq_id p n : (forall i, In i p -> i < n) -> permute 0 p (seq 0 n) = p.
Proof.
  intros H. unfold permute. rewrite <- (map_id p) at 2. apply map_ext_in. intros i Hi. apply seq_nth. apply H. exact Hi.
Qed.

(* the store from_tensor hands to _from_tensor_rec *)
Definition init_store (r : id) (shape : list nat) (p : list nat) : store :=
  {| nodes := [(r, new_node (map (fun a => nth a shape 0) p))];
     tensors := [(r, {| axes := p; atoms := [0]; bnd := [] |})];
     root := Some r;
     dims := combine (seq 0 (length shape)) shape;
     next_wire := length shape; next_atom := 1; defs := [];
     atab := [(0, seq 0 (length shape))] |}.

Lemma aget_combine_seq (ds : list nat) : forall a0 j, j < length ds ->
  aget (a0 + j) (combine (seq a0 (length ds)) ds) = Some (nth j ds 0).
Proof.
  induction ds as [|d ds' IH]; intros a0 j Hj; cbn [length] in Hj; [lia|].
  cbn [length seq combine aget]. destruct j as [|j'].
  - rewrite Nat.add_0_r, Nat.eqb_refl. reflexivity.
  - destruct (Nat.eqb_spec (a0 + S j') a0) as [E|_]; [lia|].
    replace (a0 + S j') with (S a0 + j') by lia. rewrite IH by lia. reflexivity.
Qed.

Lemma wdim_init r shape p a : a < length shape -> wdim (init_store r shape p) a = nth a shape 0.
Proof.
  intros Ha. unfold wdim, init_store. cbn [dims].
  pose proof (aget_combine_seq shape 0 a Ha) as E. cbn [Nat.add] in E. unfold wire in *. rewrite E. reflexivity.
Qed.

Lemma from_tensor_init t lg shape dm tb :
  length shape = 2 * size t -> Permutation (map lg (ids t)) (seq 0 (size t)) ->
  from_tensor t lg shape dm tb = ft_rec dm tb t (init_store (rid t) shape (ft_perm lg (size t) t)).
Proof.
  intros Hlen Hlg. unfold from_tensor.
  assert (Hhalf : length shape / 2 = size t) by (rewrite Hlen, Nat.mul_comm; apply Nat.div_mul; lia).
  rewrite Hhalf.
  assert (Hev : Nat.even (length shape) = true) by (rewrite Hlen, Nat.even_mul; reflexivity).
  rewrite Hev, Nat.eqb_refl. cbn [negb].
  pose proof (ft_perm_is_permutation lg (size t) t Hlg) as Pp.
  pose proof (ft_perm_length lg (size t) t) as Lp.
  assert (Hperm : is_perm_of_seq (ft_perm lg (size t) t) = true) by (apply is_perm_of_seq_spec; rewrite Lp; exact Pp).
  rewrite Hperm, Lp, Hlen, Nat.eqb_refl. cbn [negb andb].
  unfold input_tensor. destruct (fresh_wires empty_store shape) as [sw ws] eqn:Ef.
  destruct (fresh_wires_spec _ _ _ _ Ef) as (Ews & E2 & E3 & E4 & E5 & E6 & E7 & E8 & E9).
  cbn [empty_store next_wire dims nodes tensors root next_atom defs atab app Nat.add] in *.
  unfold fresh_atom, add_root_tensor. cbn [root]. rewrite E6.
  f_equal. unfold set_root, upd_tensors, upd_nodes. cbn [nodes tensors root dims next_wire next_atom defs atab s_transpose axes atoms bnd].
  rewrite E4, E5, E2, E3, E7, E8, E9, Ews. cbn [aset app].
  assert (Hb : forall i, In i (ft_perm lg (size t) t) -> i < length shape).
  { intros i Hi. apply (Permutation_in _ Pp) in Hi. apply in_seq in Hi. lia. }
  unfold s_transpose. cbn [axes atoms bnd]. rewrite !(permute_seq_id _ _ Hb). unfold init_store. f_equal. f_equal. f_equal. f_equal.
  apply map_ext_in. intros a Ha. unfold wdim. cbn [dims].
  apply (wdim_init (rid t) shape (ft_perm lg (size t) t) a (Hb a Ha)).
Qed.

(* ---- from_tensor ---------------------------------------------------------------------------------------------- *)
(* new_leg_dict: node i owns the output leg lg i and the input leg half + lg i of the operator *)
Definition op_legs (lg : id -> nat) (half : nat) (i : id) : list wire := [lg i; half + lg i].

Lemma init_wf r shape p : Permutation p (seq 0 (length shape)) -> wf (init_store r shape p).
Proof.
  intros Pp.
  assert (Hb : forall i, In i p -> i < length shape) by (intros i Hi; apply (Permutation_in _ Pp) in Hi; apply in_seq in Hi; lia).
  apply (single_wf _ r {| axes := p; atoms := [0]; bnd := [] |}).
  - cbn [nodes init_store axes]. do 3 f_equal. apply map_ext_in. intros a Ha. symmetry. apply wdim_init. apply Hb. exact Ha.
  - reflexivity.
  - reflexivity.
  - cbn [axes]. apply (Permutation_NoDup (Permutation_sym Pp)). apply seq_NoDup.
  - cbn [axes init_store next_wire]. exact Hb.
  - cbn [dims init_store next_wire]. intros w Hw. apply ib_akeys_combine in Hw. apply in_seq in Hw. lia.
Qed.

Section Main.
  Variables (dm : dmode) (tb : id -> nat) (t : rtree) (lg : id -> nat) (shape : list nat).
  Hypothesis ND : NoDup (ids t).
  Hypothesis Hlen : length shape = 2 * size t.
  Hypothesis Hlg : Permutation (map lg (ids t)) (seq 0 (size t)).

  Variable Rel : store -> store -> Prop.
  Hypothesis Rel_refl : forall s, Rel s s.
  Hypothesis Rel_trans : forall a b c, Rel a b -> Rel b c -> Rel a c.
  Hypothesis Rel_access : forall s n s' nd t, wf s -> access s n = Some (s', nd, t) -> Rel s s'.
  Hypothesis Rel_step : forall s cur c nd t r, step_pre s cur c nd t r ->
    Rel s (step_result s cur c nd t r dm (tb c)).

  Local Notation s0 := (init_store (rid t) shape (ft_perm lg (size t) t)).
  Local Notation leg := (op_legs lg (size t)).

  Lemma init_pre : pre leg s0 t None.
  Proof.
    pose proof (ft_perm_is_permutation lg (size t) t Hlg) as Pp. rewrite <- Hlen in Pp.
    constructor.
    - apply init_wf. exact Pp.
    - eexists. split; [cbn [nodes init_store aget]; rewrite Nat.eqb_refl; reflexivity|].
      split; [reflexivity|]. split; [reflexivity|]. split.
      + unfold tens. cbn [tensors init_store aget]. rewrite Nat.eqb_refl.
        unfold open_of, laxes. cbn [nvirt nparents parent children new_node perm axes length Nat.add skipn].
        rewrite map_length. rewrite permute_seq. reflexivity.
      + unfold nlegs. cbn [perm new_node]. rewrite seq_length. reflexivity.
    - intros k Hk. cbn [nodes init_store aget]. destruct (Nat.eqb_spec k (rid t)) as [->|_]; [|reflexivity].
      exfalso. destruct t as [i cs]. cbn [ids tl rid] in *. inversion ND; contradiction.
    - exact ND.
  Qed.

  Theorem from_tensor_post :
    exists s', from_tensor t lg shape dm tb = Some s' /\ post leg Rel s0 s' t None.
  Proof.
    rewrite (from_tensor_init t lg shape dm tb Hlen Hlg).
    apply (ft_rec_spec dm tb leg (fun i => eq_refl) Rel Rel_refl Rel_trans Rel_access Rel_step t s0 None init_pre).
  Qed.
End Main.

(* (a) acceptance + invariant, (b) structure, (c) open legs *)
Theorem from_tensor_structure dm tb t lg shape :
  NoDup (ids t) -> length shape = 2 * size t -> Permutation (map lg (ids t)) (seq 0 (size t)) ->
  exists s', from_tensor t lg shape dm tb = Some s' /\ wfb s' = true
    /\ akeys (nodes s') = ids t /\ root s' = Some (rid t)
    /\ forall k, In k (ids t) ->
       exists nk, aget k (nodes s') = Some nk /\ parent nk = parent_of k t /\ children nk = children_ids t k
                  /\ open_of nk (tens s' k) = [lg k; size t + lg k] /\ perm nk = seq 0 (nlegs nk).
Proof.
  intros ND Hlen Hlg.
  destruct (from_tensor_post dm tb t lg shape ND Hlen Hlg (fun _ _ => True)) as (s' & E & [W K R F B _]); auto.
  exists s'. split; [exact E|]. split; [apply wf_wfb; exact W|]. split.
  - rewrite K. cbn [nodes init_store akeys map fst app]. destruct t as [i cs]. reflexivity.
  - split; [rewrite R; reflexivity|]. intros k Hk.
    destruct (built_lookup _ _ _ _ B ND k Hk) as (nk & E1 & E2 & E3 & E4 & E5). exists nk.
    split; [exact E1|]. split; [|auto]. rewrite E2. destruct (Nat.eqb_spec k (rid t)) as [->|_]; [|reflexivity].
    symmetry. apply parent_of_root. exact ND.
Qed.

(* the decidable form of the hypotheses (Special/FromTensor.v: ft_hyp) implies them *)
Lemma ft_hyp_sound t lg shape : ft_hyp t lg shape = true ->
  NoDup (ids t) /\ length shape = 2 * size t /\ Permutation (map lg (ids t)) (seq 0 (size t)).
Proof.
  unfold ft_hyp. rewrite !andb_true_iff. intros [[[H1 H2] H3] H4].
  apply nodupb_NoDup in H1. apply Nat.eqb_eq in H2. apply nodupb_NoDup in H3. rewrite forallb_forall in H4.
  split; [exact H1|]. split; [exact H2|].
  apply NoDup_Permutation_bis; [exact H3|rewrite seq_length, map_length, size_length_ids; apply le_n|].
  intros x Hx. apply in_map_iff in Hx. destruct Hx as (k & <- & Hk). apply in_seq. specialize (H4 k Hk).
  apply Nat.ltb_lt in H4. lia.
Qed.
