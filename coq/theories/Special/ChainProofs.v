(* Proofs about Special/Chain.v: the matrix-product constructor in closed form (all lengths, all
   root positions), acceptance on the documented input format, the star dimension defect, and the
   leg permutation of TTNO.from_tensor. *)
From Coq Require Import List Arith Bool ZArith Lia Permutation.
From PTN Require Import TTN.Store Tree.RTree Tree.RTreeProofs Special.Chain.
Import ListNotations.

(* ================================================================================================ *)
(* association lists                                                                                *)
(* ================================================================================================ *)
Section Assoc.
  Context {V : Type}.
  Implicit Types l : list (nat * V).

  Lemma aget_app l1 l2 k : aget k (l1 ++ l2) = match aget k l1 with Some v => Some v | None => aget k l2 end.
  Proof. induction l1 as [|[k' v] t IH]; simpl; auto. destruct (Nat.eqb k k'); auto. Qed.

  Lemma aget_None_keys l k : aget k l = None <-> ~ In k (akeys l).
  Proof.
    induction l as [|[k' v] t IH]; simpl; [tauto|].
    destruct (Nat.eqb_spec k k'); subst; split; intros H; try discriminate; try tauto.
    - exfalso; apply H; auto.
    - intros [E|E]; [congruence|]. apply IH in H; auto.
    - apply IH; intros E; apply H; auto.
  Qed.

  Lemma amem_false_keys l k : amem k l = false <-> ~ In k (akeys l).
  Proof. unfold amem. rewrite <- aget_None_keys. destruct (aget k l); split; congruence. Qed.

  Lemma aset_absent l k v : aget k l = None -> aset k v l = l ++ [(k, v)].
  Proof.
    induction l as [|[k' v'] t IH]; simpl; auto.
    destruct (Nat.eqb k k'); [discriminate|]. intros H; rewrite IH; auto.
  Qed.

  Lemma aget_aset_eq l k v : aget k (aset k v l) = Some v.
  Proof.
    induction l as [|[k' v'] t IH]; simpl; [rewrite Nat.eqb_refl; auto|].
    destruct (Nat.eqb k k') eqn:E; simpl; [rewrite Nat.eqb_refl; auto| rewrite E; auto].
  Qed.

  Lemma aget_aset_neq l k k2 v : k2 <> k -> aget k2 (aset k v l) = aget k2 l.
  Proof.
    intros N. induction l as [|[k' v'] t IH]; simpl.
    - destruct (Nat.eqb_spec k2 k); congruence.
    - destruct (Nat.eqb_spec k k'); subst; simpl.
      + destruct (Nat.eqb_spec k2 k'); congruence.
      + destruct (Nat.eqb k2 k'); auto.
  Qed.

  Lemma aset_app_l l1 l2 k v v0 : aget k l1 = Some v0 -> aset k v (l1 ++ l2) = aset k v l1 ++ l2.
  Proof.
    induction l1 as [|[k' v'] t IH]; simpl; [discriminate|].
    destruct (Nat.eqb k k'); auto. intros H; rewrite IH; auto.
  Qed.

  Lemma akeys_app l1 l2 : akeys (l1 ++ l2) = akeys l1 ++ akeys l2.
  Proof. unfold akeys; apply map_app. Qed.

  Lemma akeys_aset_present l k v v0 : aget k l = Some v0 -> akeys (aset k v l) = akeys l.
  Proof.
    induction l as [|[k' v'] t IH]; simpl; [discriminate|].
    destruct (Nat.eqb_spec k k'); subst; simpl; auto. intros H; rewrite IH; auto.
  Qed.
End Assoc.

(* ================================================================================================ *)
(* list surgery                                                                                     *)
(* ================================================================================================ *)
Lemma pop_insert_same {A} (l : list A) i x l' : pop i l = Some (x, l') -> insert i x l' = l.
Proof.
  revert i x l'. induction l as [|a t IH]; intros [|i] x l'; simpl; try discriminate.
  - intros H; inversion H; subst; destruct l'; auto.
  - destruct (pop i t) as [[y t']|] eqn:E; [|discriminate].
    intros H; inversion H; subst. simpl. f_equal. eauto.
Qed.

Lemma pop_lt {A} (l : list A) i : i < length l -> exists x l', pop i l = Some (x, l').
Proof.
  revert i; induction l as [|a t IH]; intros i H; simpl in *; [lia|].
  destruct i; [eauto|]. destruct (IH i) as (x & l' & E); [lia|]. rewrite E; eauto.
Qed.

Lemma move_same {A} (l : list A) i : i < length l -> move i i l = Some l.
Proof.
  intros H. unfold move. destruct (pop_lt l i H) as (x & l' & E). rewrite E.
  f_equal. eapply pop_insert_same; eauto.
Qed.

Lemma move_0_0 n : 1 <= n -> move 0 0 (seq 0 n) = Some (seq 0 n).
Proof. intros; apply move_same; rewrite seq_length; lia. Qed.

Lemma move_1_0 n : 2 <= n -> move 1 0 (seq 0 n) = Some (1 :: 0 :: seq 2 (n - 2)).
Proof.
  intros H. destruct n as [|[|n]]; try lia. simpl. rewrite Nat.sub_0_r. reflexivity.
Qed.

(* the leg permutation of a freshly attached child: child leg cleg moved to the front *)
Definition child_perm (n cleg : nat) : list nat :=
  match cleg with 0 => seq 0 n | _ => 1 :: 0 :: seq 2 (n - 2) end.

(* ================================================================================================ *)
(* node-level effect of add_child_to_parent with the first-open-leg rule                            *)
(* ================================================================================================ *)
Definition with_child (pn : node) (c : id) : node :=
  {| parent := parent pn; children := children pn ++ [c]; perm := perm pn; shape := shape pn |}.
Definition mk_child (shp : list nat) (p : id) (cleg : nat) : node :=
  {| parent := Some p; children := []; perm := child_perm (length shp) cleg; shape := shp |}.

Lemma nvirt_with_child pn c : nvirt (with_child pn c) = S (nvirt pn).
Proof. unfold nvirt, with_child, nparents; simpl. rewrite app_length; simpl. lia. Qed.
Lemma nlegs_with_child pn c : nlegs (with_child pn c) = nlegs pn.
Proof. reflexivity. Qed.
Lemma nvirt_mk_child shp p cleg : nvirt (mk_child shp p cleg) = 1.
Proof. reflexivity. Qed.

Lemma child_perm_length n cleg : cleg < n -> cleg <= 1 -> length (child_perm n cleg) = n.
Proof.
  intros H H1. destruct cleg as [|[|]]; simpl; try lia; rewrite seq_length; lia.
Qed.

Lemma olp_new shp p cleg : cleg < length shp -> cleg <= 1 ->
  open_leg_to_parent (new_node shp) p cleg = Some (mk_child shp p cleg).
Proof.
  intros H H1. unfold open_leg_to_parent, open_leg_ok, new_node, is_root, nopen, nlegs, nvirt, nparents; simpl.
  rewrite seq_length, Nat.sub_0_r.
  assert (E0 : Nat.eqb (length shp) 0 = false) by (apply Nat.eqb_neq; lia). rewrite E0.
  assert (E1 : Nat.ltb cleg (length shp) = true) by (apply Nat.ltb_lt; lia). rewrite E1. simpl.
  destruct cleg as [|[|]]; try lia.
  - rewrite move_0_0 by lia. reflexivity.
  - rewrite move_1_0 by lia. reflexivity.
Qed.

Lemma olc_first_open pn c : nvirt pn < nlegs pn ->
  open_leg_to_child pn c (nvirt pn) = Some (with_child pn c).
Proof.
  intros H. unfold open_leg_to_child, open_leg_ok, nopen.
  assert (E0 : Nat.eqb (nlegs pn - nvirt pn) 0 = false) by (apply Nat.eqb_neq; lia). rewrite E0.
  rewrite Nat.ltb_irrefl.
  assert (E1 : Nat.ltb (nvirt pn) (nlegs pn) = true) by (apply Nat.ltb_lt; lia). rewrite E1. simpl.
  rewrite move_same by (unfold nlegs in H; lia). reflexivity.
Qed.

Lemma olc_Some_lt pn c leg pn' : open_leg_to_child pn c leg = Some pn' -> nvirt pn <= leg < nlegs pn.
Proof.
  unfold open_leg_to_child, open_leg_ok. intros H.
  destruct (Nat.eqb (nopen pn) 0); simpl in H; [discriminate|].
  destruct (Nat.ltb_spec leg (nvirt pn)); simpl in H; [discriminate|].
  destruct (Nat.ltb_spec leg (nlegs pn)); simpl in H; [|discriminate]. lia.
Qed.

(* ================================================================================================ *)
(* fresh wires / atoms                                                                              *)
(* ================================================================================================ *)
Lemma fresh_wires_spec ds : forall s s' ws, fresh_wires s ds = (s', ws) ->
  ws = seq (next_wire s) (length ds) /\ nodes s' = nodes s /\ tensors s' = tensors s /\ root s' = root s
  /\ dims s' = dims s ++ combine (seq (next_wire s) (length ds)) ds
  /\ next_wire s' = next_wire s + length ds.
Proof.
  induction ds as [|d t IH]; intros s s' ws H; simpl in H.
  - inversion H; subst; simpl. rewrite app_nil_r, Nat.add_0_r. auto.
  - match type of H with context [fresh_wires ?s1 t] => destruct (fresh_wires s1 t) as [s2 ws2] eqn:E end.
    inversion H; subst. apply IH in E. simpl in E. destruct E as (-> & En & Et & Er & Ed & Ew).
    simpl. rewrite En, Et, Er, Ed, Ew, <- app_assoc. simpl. repeat split; auto. lia.
Qed.

Definition dims_bounded (s : store) : Prop := forall w, In w (akeys (dims s)) -> w < next_wire s.

Lemma akeys_combine_seq a (ds : list nat) : akeys (combine (seq a (length ds)) ds) = seq a (length ds).
Proof.
  unfold akeys. revert a; induction ds as [|d t IH]; intros a; simpl; auto. rewrite IH; auto.
Qed.

Lemma aget_combine_seq a (ds : list nat) j : j < length ds -> aget (a + j) (combine (seq a (length ds)) ds) = Some (nth j ds 0).
Proof.
  revert a j; induction ds as [|d t IH]; intros a j H; simpl in *; [lia|].
  destruct j.
  - rewrite Nat.add_0_r, Nat.eqb_refl; auto.
  - destruct (Nat.eqb_spec (a + S j) a); [lia|]. replace (a + S j) with (S a + j) by lia. apply IH; lia.
Qed.

(* ================================================================================================ *)
(* add_root / add_child: exact effect on the observable parts                                        *)
(* ================================================================================================ *)
(* the logical wire on leg `leg` of node y has a recorded dimension d *)
Definition leg_dim (s : store) (y : id) (leg d : nat) : Prop :=
  exists yn yt, aget y (nodes s) = Some yn /\ aget y (tensors s) = Some yt
                /\ aget (nth (nth leg (perm yn) 0) (axes yt) 0) (dims s) = Some d.

Lemma add_root_spec n shp s :
  add_root empty_store n shp = Some s ->
  nodes s = [(n, new_node shp)] /\ root s = Some n /\ dims_bounded s
  /\ (forall j, j < length shp -> leg_dim s n j (nth j shp 0)).
Proof.
  unfold add_root; simpl.
  destruct (fresh_wires empty_store shp) as [s1 ws] eqn:E. apply fresh_wires_spec in E.
  simpl in E. destruct E as (-> & En & Et & Er & Ed & Ew).
  intros H; inversion H; subst; clear H. simpl. rewrite En, Et. simpl. repeat split; auto.
  - intros w Hw. simpl in *. rewrite Ed, akeys_combine_seq in Hw. apply in_seq in Hw. rewrite Ew. lia.
  - intros j Hj. exists (new_node shp), {| axes := seq 0 (length shp); atoms := [next_atom s1]; bnd := [] |}.
    simpl. rewrite Nat.eqb_refl. repeat split; auto.
    rewrite Ed. rewrite !seq_nth by auto. simpl. apply (aget_combine_seq 0 shp j Hj).
Qed.

Lemma set_nth_other {A} (l : list A) i j x d : i <> j -> nth j (set_nth i x l) d = nth j l d.
Proof.
  revert i j; induction l as [|a t IH]; intros [|i] [|j] N; simpl; auto; try lia.
Qed.

(* what add_child does when the parent leg is the parent's first open leg *)
Lemma add_child_spec s c shp cleg p pn s' :
  aget p (nodes s) = Some pn ->
  add_child s c shp cleg p (nvirt pn) = Some s' ->
  cleg <= 1 ->
  aget c (nodes s) = None /\ c <> p /\ cleg < length shp /\ nvirt pn < nlegs pn
  /\ nodes s' = aset p (with_child pn c) (nodes s ++ [(c, mk_child shp p cleg)])
  /\ root s' = root s
  /\ (dims_bounded s -> dims_bounded s')
  /\ (forall y leg d, y <> c -> leg_dim s y leg d -> leg_dim s' y leg d)
  /\ (dims_bounded s -> forall leg, 1 <= leg -> leg < length shp ->
        leg_dim s' c leg (nth (nth leg (child_perm (length shp) cleg) 0) shp 0)).
Proof.
  intros Hp H Hc1. unfold add_child in H. rewrite Hp in H.
  destruct (aget p (tensors s)) as [pt|] eqn:Hpt; [|discriminate].
  destruct (amem c (nodes s)) eqn:Hm; [discriminate|].
  destruct (Nat.ltb_spec cleg (length shp)) as [Hcl|]; simpl in H; [|discriminate].
  destruct (Nat.ltb_spec (nvirt pn) (nlegs pn)) as [Hpl|]; simpl in H; [|discriminate].
  match type of H with context [negb (Nat.eqb ?a ?b)] => destruct (Nat.eqb a b) eqn:Hd end; simpl in H; [|discriminate].
  rewrite olp_new, olc_first_open in H by auto.
  destruct (fresh_wires s shp) as [s1 ws] eqn:E. apply fresh_wires_spec in E.
  destruct E as (-> & En & Et & Er & Ed & Ew).
  inversion H; subst; clear H. simpl.
  assert (Hcn : aget c (nodes s) = None) by (unfold amem in Hm; destruct (aget c (nodes s)); congruence).
  assert (Hcp : c <> p) by congruence.
  rewrite En, Et, Er.
  repeat split; auto.
  - rewrite aset_absent by auto. reflexivity.
  - intros B w Hw. simpl in *. rewrite Ed, akeys_app, akeys_combine_seq in Hw. rewrite Ew.
    apply in_app_or in Hw. destruct Hw as [Hw|Hw]; [apply B in Hw; lia| apply in_seq in Hw; lia].
  - intros y leg d Hy (yn & yt & Hyn & Hyt & Hd'). simpl.
    destruct (Nat.eq_dec y p) as [->|Nyp].
    + exists (with_child pn c), yt. rewrite aget_aset_eq, aget_aset_neq, Hyt by auto.
      rewrite Hp in Hyn; inversion Hyn; subst. simpl. repeat split; auto.
      rewrite Ed, aget_app, Hd'. auto.
    + exists yn, yt. rewrite aget_aset_neq, aget_aset_neq, Hyn, aget_aset_neq, Hyt by auto.
      repeat split; auto. rewrite Ed, aget_app, Hd'. auto.
  - intros B leg Hl1 Hl2. simpl.
    eexists (mk_child shp p cleg), _. rewrite aget_aset_neq, aget_aset_eq, aget_aset_eq by auto.
    repeat split; auto. simpl.
    set (a := nth leg (child_perm (length shp) cleg) 0).
    assert (Ha : a < length shp /\ a <> cleg).
    { unfold a. destruct cleg as [|[|]]; try lia; simpl.
      - rewrite seq_nth by lia. lia.
      - destruct leg as [|[|leg]]; try lia. rewrite seq_nth by lia. lia. }
    destruct Ha as [Ha1 Ha2].
    rewrite set_nth_other by auto. rewrite seq_nth by auto.
    rewrite Ed, aget_app.
    destruct (aget (next_wire s + a) (dims s)) eqn:Eg.
    + exfalso. assert (In (next_wire s + a) (akeys (dims s))).
      { destruct (in_dec Nat.eq_dec (next_wire s + a) (akeys (dims s))); auto.
        apply aget_None_keys in n. congruence. }
      apply B in H. lia.
    + apply aget_combine_seq; auto.
Qed.

(* when does add_child succeed: the dimension guard *)
Lemma add_child_accepts s c shp cleg p pn d :
  aget p (nodes s) = Some pn -> nvirt pn < nlegs pn ->
  leg_dim s p (nvirt pn) d -> aget c (nodes s) = None ->
  cleg < length shp -> cleg <= 1 -> nth cleg shp 0 = d ->
  exists s', add_child s c shp cleg p (nvirt pn) = Some s'.
Proof.
  intros Hp Hl (yn & yt & Hyn & Hyt & Hd) Hc Hcl Hc1 Hdim.
  rewrite Hp in Hyn; inversion Hyn; subst yn.
  unfold add_child. rewrite Hp, Hyt. unfold amem. rewrite Hc.
  destruct (Nat.ltb_spec cleg (length shp)); [|lia]. destruct (Nat.ltb_spec (nvirt pn) (nlegs pn)); [|lia]. simpl.
  unfold wdim. rewrite Hd, Hdim, Nat.eqb_refl. simpl.
  rewrite olp_new, olc_first_open by auto.
  destruct (fresh_wires s shp) as [s1 ws]. eauto.
Qed.

(* ================================================================================================ *)
(* paths: x1 hangs on e, x2 on x1, ... (every attachment uses the parent's first open leg)           *)
(* ================================================================================================ *)
Definition pstep : Type := id * list nat * nat.        (* identifier, shape, child leg *)

Fixpoint attach_path (s : store) (e : id) (pleg : nat) (xs : list pstep) : option store :=
  match xs with
  | [] => Some s
  | (x, shp, cleg) :: rest => bind (add_child s x shp cleg e pleg) (fun s' => attach_path s' x 1 rest)
  end.

(* the node records of a path hanging on p *)
Fixpoint chain_nodes (p : id) (xs : list pstep) : list (id * node) :=
  match xs with
  | [] => []
  | (x, shp, cleg) :: rest =>
      (x, match rest with
          | [] => mk_child shp p cleg
          | (y, _, _) :: _ => with_child (mk_child shp p cleg) y
          end) :: chain_nodes x rest
  end.

Definition path_ids (xs : list pstep) : list id := map (fun t => fst (fst t)) xs.

Lemma akeys_chain_nodes p xs : akeys (chain_nodes p xs) = path_ids xs.
Proof. revert p; induction xs as [|[[x shp] cleg] rest IH]; intros p; simpl; auto. f_equal. apply IH. Qed.

(* closed form of the node dictionary after attaching a path on e *)
Definition path_nodes (l : list (id * node)) (e : id) (en : node) (xs : list pstep) : list (id * node) :=
  match xs with
  | [] => l
  | (x, _, _) :: _ => aset e (with_child en x) l ++ chain_nodes e xs
  end.

Theorem attach_path_nodes xs : forall s e en s',
  aget e (nodes s) = Some en ->
  attach_path s e (nvirt en) xs = Some s' ->
  Forall (fun t => snd t <= 1) xs ->
  nodes s' = path_nodes (nodes s) e en xs /\ root s' = root s
  /\ NoDup (path_ids xs) /\ (forall x, In x (path_ids xs) -> aget x (nodes s) = None).
Proof.
  induction xs as [|[[x shp] cleg] rest IH]; intros s e en s' He H Hc.
  - simpl in H. inversion H; subst. simpl. repeat split; auto. constructor. intros x [].
  - simpl in H. destruct (add_child s x shp cleg e (nvirt en)) as [s1|] eqn:E1; simpl in H; [|discriminate].
    inversion Hc as [|? ? Hc0 Hc']; subst. simpl in Hc0.
    destruct (add_child_spec _ _ _ _ _ _ _ He E1 Hc0) as (Hx & Hxe & Hcl & Hpl & Hn & Hr & _).
    assert (Hx1 : aget x (nodes s1) = Some (mk_child shp e cleg)).
    { rewrite Hn, aget_aset_neq, aget_app, Hx by auto. simpl. rewrite Nat.eqb_refl. auto. }
    change 1 with (nvirt (mk_child shp e cleg)) in H.
    destruct (IH _ _ _ _ Hx1 H Hc') as (Hn' & Hr' & Hnd & Hfresh).
    assert (Hnotin : ~ In x (path_ids rest)).
    { intros Hin. apply Hfresh in Hin. congruence. }
    assert (Hfresh0 : forall y, In y (path_ids rest) -> aget y (nodes s) = None /\ y <> e).
    { intros y Hy. pose proof (Hfresh y Hy) as Hy1. rewrite Hn in Hy1.
      destruct (Nat.eq_dec y e) as [->|Ne]; [rewrite aget_aset_eq in Hy1; discriminate|].
      rewrite aget_aset_neq, aget_app in Hy1 by auto. destruct (aget y (nodes s)); [discriminate|auto]. }
    repeat split.
    + rewrite Hn'. unfold path_nodes. destruct rest as [|[[y shp'] cleg'] rest'].
      * simpl. rewrite Hn. rewrite (aset_app_l _ _ _ _ en) by auto. reflexivity.
      * rewrite Hn. rewrite (aset_app_l _ _ _ _ en) by auto.
        assert (Exe : aget x (aset e (with_child en x) (nodes s)) = None).
        { rewrite aget_aset_neq by auto. auto. }
        rewrite <- aset_absent by auto.
        (* aset x (with_child ..) on  (aset e .. l ++ [(x, mk)])  *)
        rewrite aset_absent by auto.
        assert (E2 : aset x (with_child (mk_child shp e cleg) y) (aset e (with_child en x) (nodes s) ++ [(x, mk_child shp e cleg)])
                     = aset e (with_child en x) (nodes s) ++ [(x, with_child (mk_child shp e cleg) y)]).
        { clear - Exe. induction (aset e (with_child en x) (nodes s)) as [|[k v] t IHt]; simpl in *.
          - rewrite Nat.eqb_refl; auto.
          - destruct (Nat.eqb x k); [discriminate|]. rewrite IHt; auto. }
        rewrite E2. rewrite <- app_assoc. simpl. reflexivity.
    + congruence.
    + simpl. constructor; auto.
    + intros y [<-|Hy]; auto. apply Hfresh0; auto.
Qed.

(* acceptance of a path: consecutive shapes agree on the bond dimension *)
Fixpoint path_dims_ok (d : nat) (xs : list pstep) : Prop :=
  match xs with
  | [] => True
  | (x, shp, cleg) :: rest =>
      cleg <= 1 /\ cleg < length shp /\ nth cleg shp 0 = d
      /\ match rest with
         | [] => True
         | _ => 2 <= length shp /\ path_dims_ok (nth (nth 1 (child_perm (length shp) cleg) 0) shp 0) rest
         end
  end.

Theorem attach_path_accepts xs : forall s e en d,
  aget e (nodes s) = Some en -> nvirt en < nlegs en -> leg_dim s e (nvirt en) d -> dims_bounded s ->
  NoDup (path_ids xs) -> (forall x, In x (path_ids xs) -> aget x (nodes s) = None) ->
  path_dims_ok d xs ->
  exists s', attach_path s e (nvirt en) xs = Some s' /\ dims_bounded s'
             /\ (forall y leg d', ~ In y (path_ids xs) -> leg_dim s y leg d' -> leg_dim s' y leg d').
Proof.
  induction xs as [|[[x shp] cleg] rest IH]; intros s e en d He Hl Hd B Hnd Hfresh Hok.
  - exists s; simpl; repeat split; auto.
  - simpl in Hok. destruct Hok as (Hc1 & Hcl & Hdim & Hrest).
    assert (Hx : aget x (nodes s) = None) by (apply Hfresh; simpl; auto).
    destruct (add_child_accepts s x shp cleg e en d He Hl Hd Hx Hcl Hc1 Hdim) as (s1 & E1).
    destruct (add_child_spec _ _ _ _ _ _ _ He E1 Hc1) as (_ & Hxe & _ & _ & Hn & Hr & HB & Hframe & Hnew).
    simpl. rewrite E1. simpl.
    inversion Hnd as [|? ? Hnotin Hnd']; subst.
    assert (Hx1 : aget x (nodes s1) = Some (mk_child shp e cleg)).
    { rewrite Hn, aget_aset_neq, aget_app, Hx by auto. simpl. rewrite Nat.eqb_refl. auto. }
    destruct rest as [|r0 rest'].
    + exists s1. simpl. repeat split; auto. intros y leg d' Hy. apply Hframe. intros ->. apply Hy; simpl; auto.
    + destruct Hrest as (H2 & Hrest).
      change 1 with (nvirt (mk_child shp e cleg)).
      destruct (IH s1 x (mk_child shp e cleg) _ Hx1) as (s' & E' & B' & Hframe'); auto.
      * unfold nlegs; simpl. rewrite child_perm_length by auto. lia.
      * simpl. apply Hnew; auto.
      * intros y Hy. rewrite Hn.
        assert (y <> e).
        { intros ->. apply Hfresh in He; [discriminate|]. simpl. auto. }
        assert (y <> x) by (intros ->; auto).
        rewrite aget_aset_neq, aget_app by auto. rewrite (Hfresh y) by (simpl; auto). simpl.
        destruct (Nat.eqb_spec y x); congruence.
      * exists s'. repeat split; auto.
        intros y leg d' Hy Hld. apply Hframe'; [intros Hin; apply Hy; simpl; auto|].
        apply Hframe; auto. intros ->. apply Hy; simpl; auto.
Qed.
