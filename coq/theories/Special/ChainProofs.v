(* Proofs about Special/Chain.v: the matrix-product constructor in closed form (all lengths, all
   root positions), acceptance on the documented input format, the star dimension defect, and the
   leg permutation of TTNO.from_tensor. *)
From Coq Require Import List Arith Bool ZArith Lia Permutation.
From PTN Require Import TTN.Store TTN.Inv TTN.InvProofs TTN.InvBuild Tree.RTree Tree.RTreeProofs Special.Chain.
Import ListNotations.

(* ================================================================================================ *)
(* association lists                                                                                *)
(* ================================================================================================ *)
Section Assoc.
  Context {V : Type}.
  Implicit Types l : list (nat * V).

  Lemma aget_app l1 l2 k : aget k (l1 ++ l2) = match aget k l1 with Some v => Some v | None => aget k l2 end.
  Proof. induction l1 as [|[k' v] t IH]; simpl; auto. destruct (Nat.eqb k k'); auto. Qed.

  Lemma aget_None_keys l k : aget k l = None <-> ~ In k (akeys l).
  Proof.
    induction l as [|[k' v] t IH]; simpl; [tauto|].
    destruct (Nat.eqb_spec k k') as [->|N].
    - split; [discriminate|]. intros H; exfalso; apply H; auto.
    - rewrite IH. split; [intros H [E|E]; [congruence|auto] | intros H E; apply H; auto].
  Qed.

  Lemma amem_false_keys l k : amem k l = false <-> ~ In k (akeys l).
  Proof. unfold amem. rewrite <- aget_None_keys. destruct (aget k l); split; congruence. Qed.

  Lemma aset_absent l k v : aget k l = None -> aset k v l = l ++ [(k, v)].
  Proof.
    induction l as [|[k' v'] t IH]; simpl; auto.
    destruct (Nat.eqb k k'); [discriminate|]. intros H; rewrite IH; auto.
  Qed.

  Lemma aget_aset_eq l k v : aget k (aset k v l) = Some v.
  Proof.
    induction l as [|[k' v'] t IH]; simpl; [rewrite Nat.eqb_refl; auto|].
    destruct (Nat.eqb k k') eqn:E; simpl; [rewrite Nat.eqb_refl; auto| rewrite E; auto].
  Qed.

  Lemma aget_aset_neq l k k2 v : k2 <> k -> aget k2 (aset k v l) = aget k2 l.
  Proof.
    intros N. induction l as [|[k' v'] t IH]; simpl.
    - destruct (Nat.eqb_spec k2 k); congruence.
    - destruct (Nat.eqb_spec k k'); subst; simpl.
      + destruct (Nat.eqb_spec k2 k'); congruence.
      + destruct (Nat.eqb k2 k'); auto.
  Qed.

  Lemma aset_app_l l1 l2 k v v0 : aget k l1 = Some v0 -> aset k v (l1 ++ l2) = aset k v l1 ++ l2.
  Proof.
    induction l1 as [|[k' v'] t IH]; simpl; [discriminate|].
    destruct (Nat.eqb k k'); auto. intros H; rewrite IH; auto.
  Qed.

  Lemma akeys_app l1 l2 : akeys (l1 ++ l2) = akeys l1 ++ akeys l2.
  Proof. unfold akeys; apply map_app. Qed.

  Lemma akeys_aset_present l k v v0 : aget k l = Some v0 -> akeys (aset k v l) = akeys l.
  Proof.
    induction l as [|[k' v'] t IH]; simpl; [discriminate|].
    destruct (Nat.eqb_spec k k'); subst; simpl; auto. intros H; rewrite IH; auto.
  Qed.
End Assoc.

(* ================================================================================================ *)
(* list surgery                                                                                     *)
(* ================================================================================================ *)
Lemma pop_insert_same {A} (l : list A) i x l' : pop i l = Some (x, l') -> insert i x l' = l.
Proof.
  revert i x l'. induction l as [|a t IH]; intros [|i] x l'; simpl; try discriminate.
  - intros H; inversion H; subst; destruct l'; auto.
  - destruct (pop i t) as [[y t']|] eqn:E; [|discriminate].
    intros H; inversion H; subst. simpl. f_equal. eauto.
Qed.

Lemma pop_lt {A} (l : list A) i : i < length l -> exists x l', pop i l = Some (x, l').
Proof.
  revert i; induction l as [|a t IH]; intros i H; simpl in *; [lia|].
  destruct i as [|i]; simpl; [eauto|]. destruct (IH i) as (x & l' & E); [lia|]. rewrite E; eauto.
Qed.

Lemma move_same {A} (l : list A) i : i < length l -> move i i l = Some l.
Proof.
  intros H. unfold move. destruct (pop_lt l i H) as (x & l' & E). rewrite E.
  f_equal. eapply pop_insert_same; eauto.
Qed.

Lemma move_0_0 n : 1 <= n -> move 0 0 (seq 0 n) = Some (seq 0 n).
Proof. intros; apply move_same; rewrite seq_length; lia. Qed.

Lemma move_1_0 n : 2 <= n -> move 1 0 (seq 0 n) = Some (1 :: 0 :: seq 2 (n - 2)).
Proof.
  intros H. destruct n as [|[|n]]; try lia. simpl. rewrite Nat.sub_0_r. reflexivity.
Qed.

(* the leg permutation of a freshly attached child: child leg cleg moved to the front *)
Definition child_perm (n cleg : nat) : list nat :=
  match cleg with 0 => seq 0 n | _ => 1 :: 0 :: seq 2 (n - 2) end.

(* ================================================================================================ *)
(* node-level effect of add_child_to_parent with the first-open-leg rule                            *)
(* ================================================================================================ *)
Definition with_child (pn : node) (c : id) : node :=
  {| parent := parent pn; children := children pn ++ [c]; perm := perm pn; shape := shape pn |}.
Definition mk_child (shp : list nat) (p : id) (cleg : nat) : node :=
  {| parent := Some p; children := []; perm := child_perm (length shp) cleg; shape := shp |}.

Lemma nvirt_with_child pn c : nvirt (with_child pn c) = S (nvirt pn).
Proof. unfold nvirt, with_child, nparents; simpl. rewrite app_length; simpl. lia. Qed.
Lemma nlegs_with_child pn c : nlegs (with_child pn c) = nlegs pn.
Proof. reflexivity. Qed.
Lemma nvirt_mk_child shp p cleg : nvirt (mk_child shp p cleg) = 1.
Proof. reflexivity. Qed.

Lemma child_perm_length n cleg : cleg < n -> cleg <= 1 -> length (child_perm n cleg) = n.
Proof.
  intros H H1. destruct cleg as [|[|]]; simpl; try lia; rewrite seq_length; lia.
Qed.

Lemma olp_new shp p cleg : cleg < length shp -> cleg <= 1 ->
  open_leg_to_parent (new_node shp) p cleg = Some (mk_child shp p cleg).
Proof.
  intros H H1. unfold open_leg_to_parent, open_leg_ok, new_node, is_root, nopen, nlegs, nvirt, nparents; simpl.
  rewrite seq_length, Nat.sub_0_r.
  assert (E0 : Nat.eqb (length shp) 0 = false) by (apply Nat.eqb_neq; lia). rewrite E0.
  assert (E1 : Nat.ltb cleg (length shp) = true) by (apply Nat.ltb_lt; lia). rewrite E1. simpl.
  destruct cleg as [|[|]]; try lia.
  - rewrite move_0_0 by lia. reflexivity.
  - rewrite move_1_0 by lia. reflexivity.
Qed.

Lemma olc_first_open pn c : nvirt pn < nlegs pn ->
  open_leg_to_child pn c (nvirt pn) = Some (with_child pn c).
Proof.
  intros H. unfold open_leg_to_child, open_leg_ok, nopen.
  assert (E0 : Nat.eqb (nlegs pn - nvirt pn) 0 = false) by (apply Nat.eqb_neq; lia). rewrite E0.
  rewrite Nat.ltb_irrefl.
  assert (E1 : Nat.ltb (nvirt pn) (nlegs pn) = true) by (apply Nat.ltb_lt; lia). rewrite E1. simpl.
  rewrite move_same by (unfold nlegs in H; lia). reflexivity.
Qed.

Lemma olc_Some_lt pn c leg pn' : open_leg_to_child pn c leg = Some pn' -> nvirt pn <= leg < nlegs pn.
Proof.
  unfold open_leg_to_child, open_leg_ok. intros H.
  destruct (Nat.eqb (nopen pn) 0); simpl in H; [discriminate|].
  destruct (Nat.ltb_spec leg (nvirt pn)); simpl in H; [discriminate|].
  destruct (Nat.ltb_spec leg (nlegs pn)); simpl in H; [|discriminate]. lia.
Qed.

(* ================================================================================================ *)
(* fresh wires / atoms                                                                              *)
(* ================================================================================================ *)
Lemma fw_spec ds : forall s s' ws, fresh_wires s ds = (s', ws) ->
  ws = seq (next_wire s) (length ds) /\ nodes s' = nodes s /\ tensors s' = tensors s /\ root s' = root s
  /\ dims s' = dims s ++ combine (seq (next_wire s) (length ds)) ds
  /\ next_wire s' = next_wire s + length ds.
Proof.
  induction ds as [|d t IH]; intros s s' ws H; simpl in H.
  - inversion H; subst; simpl. rewrite app_nil_r, Nat.add_0_r. repeat split; auto.
  - match type of H with context [fresh_wires ?s1 t] => destruct (fresh_wires s1 t) as [s2 ws2] eqn:E end.
    inversion H; subst. apply IH in E. simpl in E. destruct E as (-> & En & Et & Er & Ed & Ew).
    simpl. rewrite En, Et, Er, Ed, Ew, <- app_assoc. simpl. repeat split; auto; lia.
Qed.

Definition dims_bounded (s : store) : Prop := forall w, In w (akeys (dims s)) -> w < next_wire s.

Lemma akeys_combine_seq a (ds : list nat) : akeys (combine (seq a (length ds)) ds) = seq a (length ds).
Proof.
  unfold akeys. revert a; induction ds as [|d t IH]; intros a; simpl; auto. rewrite IH; auto.
Qed.

Lemma aget_combine_seq a (ds : list nat) j : j < length ds -> aget (a + j) (combine (seq a (length ds)) ds) = Some (nth j ds 0).
Proof.
  revert a j; induction ds as [|d t IH]; intros a j H; simpl in *; [lia|].
  destruct j.
  - rewrite Nat.add_0_r, Nat.eqb_refl; auto.
  - destruct (Nat.eqb_spec (a + S j) a); [lia|]. replace (a + S j) with (S a + j) by lia. apply IH; lia.
Qed.

(* ================================================================================================ *)
(* add_root / add_child: exact effect on the observable parts                                        *)
(* ================================================================================================ *)
(* the logical wire on leg `leg` of node y has a recorded dimension d *)
Definition leg_dim (s : store) (y : id) (leg d : nat) : Prop :=
  exists yn yt, aget y (nodes s) = Some yn /\ aget y (tensors s) = Some yt
                /\ aget (nth (nth leg (perm yn) 0) (axes yt) 0) (dims s) = Some d.

Lemma add_root_spec n shp s :
  add_root empty_store n shp = Some s ->
  nodes s = [(n, new_node shp)] /\ root s = Some n /\ dims_bounded s
  /\ (forall j, j < length shp -> leg_dim s n j (nth j shp 0)).
Proof.
  unfold add_root; simpl.
  destruct (fresh_wires empty_store shp) as [s1 ws] eqn:E. apply fw_spec in E.
  simpl in E. destruct E as (-> & En & Et & Er & Ed & Ew).
  intros H; inversion H; subst; clear H. simpl. rewrite En, Et. simpl. repeat split; auto.
  - intros w Hw. simpl in *. rewrite Ed, akeys_combine_seq in Hw. apply in_seq in Hw. rewrite Ew. lia.
  - intros j Hj. exists (new_node shp), {| axes := seq 0 (length shp); atoms := [next_atom s1]; bnd := [] |}.
    simpl. rewrite Nat.eqb_refl. repeat split; auto.
    rewrite Ed. assert (E : nth j (seq 0 (length shp)) 0 = j) by (rewrite seq_nth; lia).
    rewrite E. etransitivity; [|apply (aget_combine_seq 0 shp j Hj)]. f_equal. apply seq_nth; lia.
Qed.

Lemma set_nth_other {A} (l : list A) i j x d : i <> j -> nth j (set_nth i x l) d = nth j l d.
Proof.
  revert i j; induction l as [|a t IH]; intros [|i] [|j] N; simpl; auto; try lia.
Qed.

(* what add_child does when the parent leg is the parent's first open leg *)
Lemma add_child_spec s c shp cleg p pn s' :
  aget p (nodes s) = Some pn ->
  add_child s c shp cleg p (nvirt pn) = Some s' ->
  cleg <= 1 ->
  aget c (nodes s) = None /\ c <> p /\ cleg < length shp /\ nvirt pn < nlegs pn
  /\ nodes s' = aset p (with_child pn c) (nodes s ++ [(c, mk_child shp p cleg)])
  /\ root s' = root s
  /\ (dims_bounded s -> dims_bounded s')
  /\ (forall y leg d, y <> c -> leg_dim s y leg d -> leg_dim s' y leg d)
  /\ (dims_bounded s -> forall leg, 1 <= leg -> leg < length shp ->
        leg_dim s' c leg (nth (nth leg (child_perm (length shp) cleg) 0) shp 0)).
Proof.
  intros Hp H Hc1. unfold add_child in H. rewrite Hp in H.
  destruct (aget p (tensors s)) as [pt|] eqn:Hpt; [|discriminate].
  destruct (amem c (nodes s)) eqn:Hm; [discriminate|].
  destruct (Nat.ltb_spec cleg (length shp)) as [Hcl|]; simpl in H; [|discriminate].
  destruct (Nat.ltb_spec (nvirt pn) (nlegs pn)) as [Hpl|]; simpl in H; [|discriminate].
  match type of H with context [negb (Nat.eqb ?a ?b)] => destruct (Nat.eqb a b) eqn:Hd end; simpl in H; [|discriminate].
  rewrite olp_new, olc_first_open in H by auto.
  destruct (fresh_wires s shp) as [s1 ws] eqn:E. apply fw_spec in E.
  destruct E as (-> & En & Et & Er & Ed & Ew).
  inversion H; subst; clear H. simpl.
  assert (Hcn : aget c (nodes s) = None) by (unfold amem in Hm; destruct (aget c (nodes s)); congruence).
  assert (Hcp : c <> p) by congruence.
  rewrite En, Et, Er.
  repeat split; auto.
  - rewrite (aset_absent (nodes s) c) by auto. reflexivity.
  - intros B w Hw. simpl in *. rewrite Ed, akeys_app, akeys_combine_seq in Hw. rewrite Ew.
    apply in_app_or in Hw. destruct Hw as [Hw|Hw]; [apply B in Hw; lia| apply in_seq in Hw; lia].
  - intros y leg d Hy (yn & yt & Hyn & Hyt & Hd'). simpl.
    destruct (Nat.eq_dec y p) as [->|Nyp].
    + exists (with_child pn c), yt. simpl. rewrite aget_aset_eq, aget_aset_neq, Hyt by auto.
      rewrite Hp in Hyn; inversion Hyn; subst. simpl. repeat split; auto.
      rewrite Ed, aget_app, Hd'. auto.
    + exists yn, yt. simpl. rewrite aget_aset_neq, aget_aset_neq, Hyn, aget_aset_neq, Hyt by auto.
      repeat split; auto. rewrite Ed, aget_app, Hd'. auto.
  - intros B leg Hl1 Hl2. simpl.
    eexists (mk_child shp p cleg), _. simpl. rewrite aget_aset_neq, aget_aset_eq, aget_aset_eq by auto.
    repeat split; auto. simpl.
    set (a := nth leg (child_perm (length shp) cleg) 0).
    assert (Ha : a < length shp /\ a <> cleg).
    { unfold a. destruct cleg as [|[|]]; try lia; simpl.
      - rewrite seq_nth by lia. lia.
      - destruct leg as [|[|leg]]; try lia. rewrite seq_nth by lia. lia. }
    destruct Ha as [Ha1 Ha2].
    rewrite set_nth_other by auto. rewrite seq_nth by auto.
    rewrite Ed, aget_app.
    destruct (aget (next_wire s + a) (dims s)) eqn:Eg.
    + exfalso. assert (In (next_wire s + a) (akeys (dims s))).
      { destruct (in_dec Nat.eq_dec (next_wire s + a) (akeys (dims s))) as [|Nin]; auto.
        apply aget_None_keys in Nin. congruence. }
      apply B in H. lia.
    + apply aget_combine_seq; auto.
Qed.

(* when does add_child succeed: the dimension guard *)
Lemma add_child_accepts s c shp cleg p pn d :
  aget p (nodes s) = Some pn -> nvirt pn < nlegs pn ->
  leg_dim s p (nvirt pn) d -> aget c (nodes s) = None ->
  cleg < length shp -> cleg <= 1 -> nth cleg shp 0 = d ->
  exists s', add_child s c shp cleg p (nvirt pn) = Some s'.
Proof.
  intros Hp Hl (yn & yt & Hyn & Hyt & Hd) Hc Hcl Hc1 Hdim.
  rewrite Hp in Hyn; inversion Hyn; subst yn.
  unfold add_child. rewrite Hp, Hyt. unfold amem. rewrite Hc.
  destruct (Nat.ltb_spec cleg (length shp)); [|lia]. destruct (Nat.ltb_spec (nvirt pn) (nlegs pn)); [|lia]. simpl.
  unfold wdim. rewrite Hd, Hdim, Nat.eqb_refl. simpl.
  rewrite olp_new, olc_first_open by auto.
  destruct (fresh_wires s shp) as [s1 ws]. eauto.
Qed.

(* ================================================================================================ *)
(* paths: x1 hangs on e, x2 on x1, ... (every attachment uses the parent's first open leg)           *)
(* ================================================================================================ *)
Definition pstep : Type := id * list nat * nat.        (* identifier, shape, child leg *)

Fixpoint attach_path (s : store) (e : id) (pleg : nat) (xs : list pstep) : option store :=
  match xs with
  | [] => Some s
  | (x, shp, cleg) :: rest => bind (add_child s x shp cleg e pleg) (fun s' => attach_path s' x 1 rest)
  end.

(* the node records of a path hanging on p *)
Fixpoint chain_nodes (p : id) (xs : list pstep) : list (id * node) :=
  match xs with
  | [] => []
  | (x, shp, cleg) :: rest =>
      (x, match rest with
          | [] => mk_child shp p cleg
          | (y, _, _) :: _ => with_child (mk_child shp p cleg) y
          end) :: chain_nodes x rest
  end.

Definition path_ids (xs : list pstep) : list id := map (fun t => fst (fst t)) xs.

Lemma akeys_chain_nodes p xs : akeys (chain_nodes p xs) = path_ids xs.
Proof. revert p; induction xs as [|[[x shp] cleg] rest IH]; intros p; simpl; auto. f_equal. apply IH. Qed.

(* closed form of the node dictionary after attaching a path on e *)
Definition path_nodes (l : list (id * node)) (e : id) (en : node) (xs : list pstep) : list (id * node) :=
  match xs with
  | [] => l
  | (x, _, _) :: _ => aset e (with_child en x) l ++ chain_nodes e xs
  end.

(* what success implies about the number of legs of the attached tensors *)
Fixpoint path_lens_ok (xs : list pstep) : Prop :=
  match xs with
  | [] => True
  | (x, shp, cleg) :: rest => cleg < length shp /\ (rest <> [] -> 2 <= length shp) /\ path_lens_ok rest
  end.

Theorem attach_path_nodes xs : forall s e en s',
  aget e (nodes s) = Some en ->
  attach_path s e (nvirt en) xs = Some s' ->
  Forall (fun t => snd t <= 1) xs ->
  nodes s' = path_nodes (nodes s) e en xs /\ root s' = root s
  /\ NoDup (path_ids xs) /\ (forall x, In x (path_ids xs) -> aget x (nodes s) = None)
  /\ path_lens_ok xs /\ (xs <> [] -> nvirt en < nlegs en).
Proof.
  induction xs as [|[[x shp] cleg] rest IH]; intros s e en s' He H Hc.
  - simpl in H. inversion H; subst. simpl. repeat split; auto. constructor. intros x []. congruence.
  - simpl in H. destruct (add_child s x shp cleg e (nvirt en)) as [s1|] eqn:E1; simpl in H; [|discriminate].
    inversion Hc as [|? ? Hc0 Hc']; subst. simpl in Hc0.
    destruct (add_child_spec _ _ _ _ _ _ _ He E1 Hc0) as (Hx & Hxe & Hcl & Hpl & Hn & Hr & _).
    assert (Hx1 : aget x (nodes s1) = Some (mk_child shp e cleg)).
    { rewrite Hn, aget_aset_neq, aget_app, Hx by auto. simpl. rewrite Nat.eqb_refl. auto. }
    change 1 with (nvirt (mk_child shp e cleg)) in H.
    destruct (IH _ _ _ _ Hx1 H Hc') as (Hn' & Hr' & Hnd & Hfresh & Hlens & Hne).
    assert (Hnotin : ~ In x (path_ids rest)).
    { intros Hin. apply Hfresh in Hin. congruence. }
    assert (Hfresh0 : forall y, In y (path_ids rest) -> aget y (nodes s) = None /\ y <> e).
    { intros y Hy. pose proof (Hfresh y Hy) as Hy1. rewrite Hn in Hy1.
      destruct (Nat.eq_dec y e) as [->|Ne]; [rewrite aget_aset_eq in Hy1; discriminate|].
      rewrite aget_aset_neq, aget_app in Hy1 by auto. destruct (aget y (nodes s)); [discriminate|auto]. }
    repeat split.
    + rewrite Hn'. unfold path_nodes. destruct rest as [|[[y shp'] cleg'] rest'].
      * simpl. rewrite Hn. rewrite (aset_app_l _ _ _ _ en) by auto. reflexivity.
      * rewrite Hn. rewrite (aset_app_l _ _ _ _ en) by auto.
        assert (Exe : aget x (aset e (with_child en x) (nodes s)) = None).
        { rewrite aget_aset_neq by auto. auto. }
        assert (E2 : aset x (with_child (mk_child shp e cleg) y) (aset e (with_child en x) (nodes s) ++ [(x, mk_child shp e cleg)])
                     = aset e (with_child en x) (nodes s) ++ [(x, with_child (mk_child shp e cleg) y)]).
        { clear - Exe. induction (aset e (with_child en x) (nodes s)) as [|[k v] t IHt]; simpl in *.
          - rewrite Nat.eqb_refl; auto.
          - destruct (Nat.eqb x k); [discriminate|]. rewrite IHt; auto. }
        rewrite E2. rewrite <- app_assoc. simpl. reflexivity.
    + congruence.
    + simpl. constructor; auto.
    + intros y [<-|Hy]; auto. apply Hfresh0; auto.
    + exact Hcl.
    + intros Hrest. apply Hne in Hrest. rewrite nvirt_mk_child in Hrest. unfold nlegs, mk_child in Hrest; simpl in Hrest.
      rewrite child_perm_length in Hrest by auto. lia.
    + exact Hlens.
    + intros _. exact Hpl.
Qed.

(* acceptance of a path: consecutive shapes agree on the bond dimension *)
Fixpoint path_dims_ok (d : nat) (xs : list pstep) : Prop :=
  match xs with
  | [] => True
  | (x, shp, cleg) :: rest =>
      cleg <= 1 /\ cleg < length shp /\ nth cleg shp 0 = d
      /\ match rest with
         | [] => True
         | _ => 2 <= length shp /\ path_dims_ok (nth (nth 1 (child_perm (length shp) cleg) 0) shp 0) rest
         end
  end.

Theorem attach_path_accepts xs : forall s e en d,
  aget e (nodes s) = Some en -> nvirt en < nlegs en -> leg_dim s e (nvirt en) d -> dims_bounded s ->
  NoDup (path_ids xs) -> (forall x, In x (path_ids xs) -> aget x (nodes s) = None) ->
  path_dims_ok d xs ->
  exists s', attach_path s e (nvirt en) xs = Some s' /\ dims_bounded s'
             /\ (forall y leg d', ~ In y (path_ids xs) -> leg_dim s y leg d' -> leg_dim s' y leg d').
Proof.
  induction xs as [|[[x shp] cleg] rest IH]; intros s e en d He Hl Hd B Hnd Hfresh Hok.
  - exists s; simpl; repeat split; auto.
  - simpl in Hok. destruct Hok as (Hc1 & Hcl & Hdim & Hrest).
    assert (Hx : aget x (nodes s) = None) by (apply Hfresh; simpl; auto).
    destruct (add_child_accepts s x shp cleg e en d He Hl Hd Hx Hcl Hc1 Hdim) as (s1 & E1).
    destruct (add_child_spec _ _ _ _ _ _ _ He E1 Hc1) as (_ & Hxe & _ & _ & Hn & Hr & HB & Hframe & Hnew).
    simpl. rewrite E1. simpl.
    inversion Hnd as [|? ? Hnotin Hnd']; subst.
    assert (Hx1 : aget x (nodes s1) = Some (mk_child shp e cleg)).
    { rewrite Hn, aget_aset_neq, aget_app, Hx by auto. simpl. rewrite Nat.eqb_refl. auto. }
    destruct rest as [|r0 rest'].
    + exists s1. simpl. split; [reflexivity|]. split; [auto|].
      intros y leg d' Hy. apply Hframe. intros ->. apply Hy; simpl; auto.
    + destruct Hrest as (H2 & Hrest).
      change 1 with (nvirt (mk_child shp e cleg)).
      assert (A1 : nvirt (mk_child shp e cleg) < nlegs (mk_child shp e cleg)).
      { rewrite nvirt_mk_child. unfold nlegs, mk_child; simpl. rewrite child_perm_length by auto. lia. }
      assert (A2 : leg_dim s1 x (nvirt (mk_child shp e cleg)) (nth (nth 1 (child_perm (length shp) cleg) 0) shp 0)).
      { simpl. apply Hnew; auto. }
      assert (A3 : forall y, In y (path_ids (r0 :: rest')) -> aget y (nodes s1) = None).
      { intros y Hy. rewrite Hn.
        assert (y <> e).
        { intros ->. rewrite Hfresh in He; [discriminate|]. simpl. auto. }
        assert (y <> x) by (intros ->; auto).
        rewrite aget_aset_neq, aget_app by auto. rewrite (Hfresh y) by (simpl; auto). simpl.
        destruct (Nat.eqb_spec y x); congruence. }
      destruct (IH s1 x (mk_child shp e cleg) _ Hx1 A1 A2 (HB B) Hnd' A3 Hrest) as (s' & E' & B' & Hframe').
      exists s'. split; [exact E'|]. split; [exact B'|].
      intros y leg d' Hy Hld. apply Hframe'; [intros Hin; apply Hy; simpl; auto|].
      apply Hframe; [intros ->; apply Hy; simpl; auto | exact Hld].
Qed.

(* ================================================================================================ *)
(* the matrix-product constructor                                                                   *)
(* ================================================================================================ *)
Lemma forM_None {A S} (xs : list A) (body : S -> A -> option S) : forM xs None body = None.
Proof. unfold forM. induction xs; simpl; auto. Qed.

Lemma forM_cons {A S} (x : A) xs (s0 : option S) body : forM (x :: xs) s0 body = forM xs (bind s0 (fun s => body s x)) body.
Proof. reflexivity. Qed.

Lemma forM_map {A B S} (g : A -> B) xs (s0 : option S) body :
  forM (map g xs) s0 body = forM xs s0 (fun s x => body s (g x)).
Proof. unfold forM. revert s0; induction xs; simpl; auto. Qed.

Lemma forM_ext {A S} xs (s0 : option S) (b1 b2 : S -> A -> option S) :
  (forall s x, In x xs -> b1 s x = b2 s x) -> forM xs s0 b1 = forM xs s0 b2.
Proof.
  unfold forM. revert s0; induction xs as [|x xs IH]; intros s0 H; simpl; auto.
  rewrite IH by (intros; apply H; simpl; auto). f_equal.
  destruct s0; simpl; auto. apply H; simpl; auto.
Qed.

Definition left_steps (shapes : list (list nat)) (r : nat) : list pstep :=
  map (fun i => let site := r - 1 - i in (site, nth site shapes [], if site =? 0 then 0 else 1)) (seq 0 r).
Definition right_steps (shapes : list (list nat)) (r : nat) : list pstep :=
  map (fun site => (site, nth site shapes [], 0)) (seq (S r) (length shapes - S r)).

Definition left_end (m : mpt) : id * nat :=
  match lefts m with
  | [] => let r := root_or0 (mst m) in
          (r, match aget r (nodes (mst m)) with Some n => length (children n) | None => 0 end)
  | x :: _ => (x, 1)
  end.
Definition right_end (m : mpt) : id :=
  match rights m with [] => root_or0 (mst m) | _ => last (rights m) 0 end.

Lemma left_path xs : forall m m',
  forM xs (Some m) (fun m t => attach_left m (fst (fst t)) (snd (fst t)) (snd t =? 0)) = Some m' ->
  Forall (fun t : pstep => snd t <= 1) xs ->
  attach_path (mst m) (fst (left_end m)) (snd (left_end m)) xs = Some (mst m')
  /\ lefts m' = rev (path_ids xs) ++ lefts m /\ rights m' = rights m.
Proof.
  induction xs as [|[[x shp] cleg] rest IH]; intros m m' H Hc.
  - simpl in H. inversion H; subst. simpl. auto.
  - rewrite forM_cons in H. simpl in H.
    inversion Hc as [|? ? Hc0 Hc']; subst. simpl in Hc0.
    unfold attach_left in H. fold (left_end m) in H.
    destruct (left_end m) as [p pleg] eqn:El.
    assert (Ecl : (if cleg =? 0 then 0 else 1) = cleg) by (destruct cleg as [|[|]]; simpl; auto; lia).
    rewrite Ecl in H.
    destruct (add_child (mst m) x shp cleg p pleg) as [s1|] eqn:E1; simpl in H; [|rewrite forM_None in H; discriminate].
    apply IH in H; auto. destruct H as (Hp & Hl & Hr).
    simpl. rewrite E1. simpl. simpl in Hp. unfold left_end in Hp; simpl in Hp.
    repeat split; auto. rewrite Hl. simpl. rewrite <- app_assoc. reflexivity.
Qed.

Lemma last_snoc {A} (l : list A) x d : last (l ++ [x]) d = x.
Proof. induction l as [|a t IH]; simpl; auto. destruct (t ++ [x]) eqn:E; auto. destruct t; discriminate. Qed.

Lemma right_path xs : forall m m',
  forM xs (Some m) (fun m t => attach_right m (fst (fst t)) (snd (fst t))) = Some m' ->
  Forall (fun t : pstep => snd t = 0) xs ->
  attach_path (mst m) (right_end m) 1 xs = Some (mst m')
  /\ rights m' = rights m ++ path_ids xs /\ lefts m' = lefts m.
Proof.
  induction xs as [|[[x shp] cleg] rest IH]; intros m m' H Hc.
  - simpl in H. inversion H; subst. simpl. rewrite app_nil_r. auto.
  - rewrite forM_cons in H. simpl in H.
    inversion Hc as [|? ? Hc0 Hc']; subst. simpl in Hc0. subst cleg.
    unfold attach_right in H. fold (right_end m) in H.
    destruct (add_child (mst m) x shp 0 (right_end m) 1) as [s1|] eqn:E1; simpl in H; [|rewrite forM_None in H; discriminate].
    apply IH in H; auto. destruct H as (Hp & Hr & Hl).
    simpl. rewrite E1. simpl. simpl in Hp.
    assert (Ee : right_end {| mst := s1; lefts := lefts m; rights := rights m ++ [x] |} = x).
    { unfold right_end; simpl. rewrite last_snoc. destruct (rights m); reflexivity. }
    rewrite Ee in Hp. repeat split; auto. rewrite Hr. simpl. rewrite <- app_assoc. reflexivity.
Qed.

Lemma rev_seq_map r : forall n, n <= r -> map (fun x => r - 1 - x) (seq (r - n) n) = rev (seq 0 n).
Proof.
  induction n as [|n IH]; intros H; auto.
  replace (seq 0 (S n)) with (seq 0 n ++ [n]) by (symmetry; apply seq_S).
  rewrite rev_app_distr. simpl. replace (S (r - S n)) with (r - n) by lia.
  rewrite IH by lia. f_equal. lia.
Qed.

Lemma path_ids_left shapes r : path_ids (left_steps shapes r) = rev (seq 0 r).
Proof.
  unfold path_ids, left_steps. rewrite map_map. simpl.
  pose proof (rev_seq_map r r (le_n r)) as H. rewrite Nat.sub_diag in H. exact H.
Qed.

Lemma path_ids_right shapes r : path_ids (right_steps shapes r) = seq (S r) (length shapes - S r).
Proof. unfold path_ids, right_steps. rewrite map_map. simpl. apply map_id. Qed.

Lemma left_steps_cleg shapes r : Forall (fun t : pstep => snd t <= 1) (left_steps shapes r).
Proof. apply Forall_forall. intros t Ht. apply in_map_iff in Ht. destruct Ht as (i & <- & _). simpl. destruct (_ =? 0); lia. Qed.
Lemma right_steps_cleg shapes r : Forall (fun t : pstep => snd t = 0) (right_steps shapes r).
Proof. apply Forall_forall. intros t Ht. apply in_map_iff in Ht. destruct Ht as (i & <- & _). reflexivity. Qed.
Lemma right_steps_cleg1 shapes r : Forall (fun t : pstep => snd t <= 1) (right_steps shapes r).
Proof. eapply Forall_impl; [|apply right_steps_cleg]. simpl; intros; lia. Qed.

(* the root's record: children appended in the order left, right *)
Definition add_children (n : node) (cs : list id) : node :=
  {| parent := parent n; children := children n ++ cs; perm := perm n; shape := shape n |}.

(* the node dictionary of from_tensor_list in closed form *)
Definition mps_nodes (shapes : list (list nat)) (r : nat) : list (id * node) :=
  (r, add_children (new_node (nth r shapes []))
        ((if 0 <? r then [r - 1] else []) ++ (if S r <? length shapes then [S r] else [])))
  :: chain_nodes r (left_steps shapes r) ++ chain_nodes r (right_steps shapes r).

Lemma with_child_add n c : with_child n c = add_children n [c].
Proof. reflexivity. Qed.
Lemma add_children_nil n : add_children n [] = n.
Proof. destruct n; unfold add_children; simpl. rewrite app_nil_r. reflexivity. Qed.
Lemma add_children_app n a b : add_children (add_children n a) b = add_children n (a ++ b).
Proof. unfold add_children; simpl. rewrite app_assoc. reflexivity. Qed.

Lemma right_steps_head shapes r : S r < length shapes ->
  exists rest, right_steps shapes r = (S r, nth (S r) shapes [], 0) :: rest.
Proof.
  intros H. unfold right_steps. destruct (length shapes - S r) eqn:E; [lia|]. simpl. eauto.
Qed.
Lemma right_steps_nil shapes r : length shapes <= S r -> right_steps shapes r = [].
Proof. intros H. unfold right_steps. replace (length shapes - S r) with 0 by lia. reflexivity. Qed.
Lemma left_steps_head shapes r : 0 < r ->
  exists rest, left_steps shapes r = (r - 1, nth (r - 1) shapes [], if r - 1 =? 0 then 0 else 1) :: rest.
Proof.
  intros H. unfold left_steps. destruct r; [lia|]. simpl. rewrite Nat.sub_0_r. eauto.
Qed.

Theorem mps_from_list_nodes shapes r m :
  mps_from_list shapes r = Some m ->
  r < length shapes /\ nodes (mst m) = mps_nodes shapes r /\ root (mst m) = Some r
  /\ lefts m = seq 0 r /\ rights m = seq (S r) (length shapes - S r)
  /\ (path_lens_ok (left_steps shapes r) /\ path_lens_ok (right_steps shapes r)
      /\ (0 < r -> S r < length shapes -> 2 <= length (nth r shapes []))).
Proof.
  unfold mps_from_list. destruct (Nat.leb_spec (length shapes) r) as [|Hr]; [discriminate|].
  destruct (Nat.eqb_spec r 0) as [->|Hr0].
  - (* leftmost node is the root *)
    unfold mps_leftmost. destruct (add_root empty_store 0 (nth 0 shapes [])) as [s0|] eqn:E0; simpl; [|discriminate].
    destruct (add_root_spec _ _ _ E0) as (Hn0 & Hroot0 & _).
    intros H. split; auto.
    assert (Hrn : aget 0 (nodes s0) = Some (new_node (nth 0 shapes []))) by (rewrite Hn0; reflexivity).
    assert (Hgoal : exists s', attach_path s0 0 0 (right_steps shapes 0) = Some s' /\ mst m = s'
                               /\ lefts m = [] /\ rights m = path_ids (right_steps shapes 0)).
    { destruct (Nat.ltb_spec 1 (length shapes)) as [H1|H1].
      - destruct (add_child s0 1 (nth 1 shapes []) 0 0 0) as [s1|] eqn:E1; simpl in H; [|discriminate].
        unfold right_steps. destruct (length shapes - 1) eqn:EL; [lia|]. simpl.
        rewrite E1. simpl.
        replace (length shapes - 2) with n in H by lia.
        rewrite <- (map_id (seq 2 n)) in H at 1.
        pose proof (right_path (map (fun site => (site, nth site shapes [], 0)) (seq 2 n))
                      {| mst := s1; lefts := []; rights := [1] |} m) as RP.
        rewrite forM_map in RP. simpl in RP. rewrite map_id in H.
        destruct RP as (Hp & Hrr & Hll); auto.
        { apply Forall_forall. intros t Ht. apply in_map_iff in Ht. destruct Ht as (i & <- & _). reflexivity. }
        exists (mst m). unfold right_end in Hp; simpl in Hp. repeat split; auto.
      - simpl in H. replace (length shapes - 2) with 0 in H by lia. simpl in H. inversion H; subst. simpl.
        rewrite right_steps_nil by lia. simpl. eauto. }
    destruct Hgoal as (s' & Hp & -> & Hl & Hrg).
    change 0 with (nvirt (new_node (nth 0 shapes []))) in Hp at 2.
    destruct (attach_path_nodes _ _ _ _ _ Hrn Hp (right_steps_cleg1 shapes 0)) as (Hn & Hroot & _ & _ & Hlens & Hne).
    rewrite Hn, Hroot, Hroot0, Hl, Hrg, path_ids_right.
    split; [|split; [reflexivity|split; [reflexivity|split; [reflexivity|]]]];
      [|split; [exact I|split; [exact Hlens|intros; lia]]].
    unfold mps_nodes. simpl. rewrite Hn0.
    destruct (Nat.ltb_spec 1 (length shapes)) as [H1|H1].
    + destruct (right_steps_head shapes 0 H1) as (rest & Er). rewrite Er. simpl.
      rewrite with_child_add. reflexivity.
    + rewrite right_steps_nil by lia. simpl. rewrite add_children_nil. reflexivity.
  - (* a root in the middle or at the right end *)
    destruct (add_root empty_store r (nth r shapes [])) as [s0|] eqn:E0; simpl; [|discriminate].
    destruct (add_root_spec _ _ _ E0) as (Hn0 & Hroot0 & _).
    intros H. split; auto.
    set (rn := new_node (nth r shapes [])) in *.
    assert (Hrn : aget r (nodes s0) = Some rn) by (rewrite Hn0; simpl; rewrite Nat.eqb_refl; reflexivity).
    destruct (forM (seq 0 r) (Some {| mst := s0; lefts := []; rights := [] |})
                (fun m i => attach_left m (r - 1 - i) (nth (r - 1 - i) shapes []) (r - 1 - i =? 0))) as [m1|] eqn:EL;
      [|rewrite forM_None in H; discriminate].
    (* left part *)
    assert (EL' : forM (left_steps shapes r) (Some {| mst := s0; lefts := []; rights := [] |})
                    (fun m t => attach_left m (fst (fst t)) (snd (fst t)) (snd t =? 0)) = Some m1).
    { unfold left_steps. rewrite forM_map. rewrite <- EL. apply forM_ext. intros s i _. simpl.
      destruct (r - 1 - i =? 0); reflexivity. }
    destruct (left_path _ _ _ EL' (left_steps_cleg shapes r)) as (Hp1 & Hl1 & Hr1).
    unfold left_end in Hp1; simpl in Hp1. unfold root_or0 in Hp1. rewrite Hroot0, Hrn in Hp1. simpl in Hp1.
    change 0 with (nvirt rn) in Hp1.
    destruct (attach_path_nodes _ _ _ _ _ Hrn Hp1 (left_steps_cleg shapes r)) as (Hn1 & Hroot1 & _ & _ & Hlens1 & Hne1).
    destruct (left_steps_head shapes r ltac:(lia)) as (lrest & Els).
    assert (Hrn1 : aget r (nodes (mst m1)) = Some (with_child rn (r - 1))).
    { rewrite Hn1, Els. unfold path_nodes. rewrite aget_app, aget_aset_eq. reflexivity. }
    (* right part *)
    assert (ER' : forM (right_steps shapes r) (Some m1) (fun m t => attach_right m (fst (fst t)) (snd (fst t))) = Some m).
    { unfold right_steps. rewrite forM_map. exact H. }
    destruct (right_path _ _ _ ER' (right_steps_cleg shapes r)) as (Hp2 & Hr2 & Hl2).
    unfold right_end in Hp2. rewrite Hr1 in Hp2. simpl in Hp2. unfold root_or0 in Hp2. rewrite Hroot1, Hroot0 in Hp2.
    change 1 with (nvirt (with_child rn (r - 1))) in Hp2.
    destruct (attach_path_nodes _ _ _ _ _ Hrn1 Hp2 (right_steps_cleg1 shapes r)) as (Hn2 & Hroot2 & _ & _ & Hlens2 & Hne2).
    rewrite Hroot2, Hroot1, Hroot0, Hl2, Hl1, Hr2, Hr1, path_ids_left, path_ids_right, rev_involutive, app_nil_r.
    split; [|split; [reflexivity|split; [reflexivity|split; [reflexivity|]]]];
      [|split; [exact Hlens1|split; [exact Hlens2|]]].
    2:{ intros _ H1. destruct (right_steps_head shapes r H1) as (rest & Er).
        assert (Hx : right_steps shapes r <> []) by (rewrite Er; discriminate).
        apply Hne2 in Hx. rewrite nvirt_with_child in Hx. unfold nlegs, with_child, rn, new_node in Hx; simpl in Hx.
        rewrite seq_length in Hx. unfold nvirt, nparents in Hx; simpl in Hx. lia. }
    rewrite Hn2. unfold mps_nodes.
    assert (E0r : (0 <? r) = true) by (apply Nat.ltb_lt; lia). rewrite E0r.
    rewrite Hn1, Els. unfold path_nodes at 2. rewrite Hn0. simpl aset. rewrite Nat.eqb_refl. rewrite <- Els.
    destruct (Nat.ltb_spec (S r) (length shapes)) as [H1|H1].
    + destruct (right_steps_head shapes r H1) as (rest & Er). rewrite Er. unfold path_nodes. rewrite <- Er.
      simpl. rewrite Nat.eqb_refl. rewrite !with_child_add, add_children_app. simpl.
      reflexivity.
    + rewrite right_steps_nil by lia. simpl. rewrite app_nil_r, with_child_add. reflexivity.
Qed.

(* ---- the records site by site ---------------------------------------------------------------------- *)
Definition lnode (shapes : list (list nat)) (i : nat) : node :=
  {| parent := Some (S i); children := if 0 <? i then [i - 1] else [];
     perm := child_perm (length (nth i shapes [])) (if i =? 0 then 0 else 1); shape := nth i shapes [] |}.
Definition rnode (shapes : list (list nat)) (i : nat) : node :=
  {| parent := Some (i - 1); children := if S i <? length shapes then [S i] else [];
     perm := seq 0 (length (nth i shapes [])); shape := nth i shapes [] |}.
Definition rootnode (shapes : list (list nat)) (r : nat) : node :=
  {| parent := None; children := (if 0 <? r then [r - 1] else []) ++ (if S r <? length shapes then [S r] else []);
     perm := seq 0 (length (nth r shapes [])); shape := nth r shapes [] |}.
Definition mps_node (shapes : list (list nat)) (r i : nat) : node :=
  if i <? r then lnode shapes i else if r <? i then rnode shapes i else rootnode shapes r.

Lemma left_steps_S shapes j :
  left_steps shapes (S j) = (j, nth j shapes [], if j =? 0 then 0 else 1) :: left_steps shapes j.
Proof.
  unfold left_steps. cbn [seq map]. f_equal.
  - replace (S j - 1 - 0) with j by lia. reflexivity.
  - rewrite <- seq_shift, map_map. apply map_ext. intros i.
    replace (S j - 1 - S i) with (j - 1 - i) by lia. reflexivity.
Qed.

Lemma chain_left shapes j :
  chain_nodes j (left_steps shapes j) = map (fun i => (i, lnode shapes i)) (rev (seq 0 j)).
Proof.
  induction j as [|j IH]; auto.
  rewrite left_steps_S.
  replace (seq 0 (S j)) with (seq 0 j ++ [j]) by (symmetry; apply seq_S).
  rewrite rev_app_distr. simpl. rewrite IH. f_equal. f_equal.
  unfold lnode. destruct j as [|j].
  - reflexivity.
  - rewrite left_steps_S. simpl. rewrite Nat.sub_0_r. reflexivity.
Qed.

Lemma chain_right_gen shapes : forall k a, 1 <= a -> a + k = length shapes ->
  chain_nodes (a - 1) (map (fun site => (site, nth site shapes [], 0)) (seq a k))
  = map (fun i => (i, rnode shapes i)) (seq a k).
Proof.
  induction k as [|k IH]; intros a Ha Hk; auto.
  simpl. f_equal.
  - f_equal. unfold rnode. destruct k as [|k]; simpl.
    + assert (E : (S a <? length shapes) = false) by (apply Nat.ltb_ge; lia). rewrite E. reflexivity.
    + assert (E : (S a <? length shapes) = true) by (apply Nat.ltb_lt; lia). rewrite E. reflexivity.
  - replace a with (S a - 1) at 1 by lia. apply IH; lia.
Qed.

Lemma chain_right shapes r : r < length shapes ->
  chain_nodes r (right_steps shapes r) = map (fun i => (i, rnode shapes i)) (seq (S r) (length shapes - S r)).
Proof.
  intros H. unfold right_steps. replace r with (S r - 1) at 1 by lia. apply chain_right_gen; lia.
Qed.

Lemma aget_map_key {V} (f : nat -> V) l k :
  aget k (map (fun i => (i, f i)) l) = if memb k l then Some (f k) else None.
Proof.
  unfold memb. induction l as [|a t IH]; simpl; auto.
  destruct (Nat.eqb_spec k a); subst; simpl; auto.
Qed.

Lemma memb_true x l : memb x l = true <-> In x l.
Proof.
  unfold memb. rewrite existsb_exists. split.
  - intros (y & Hy & E). apply Nat.eqb_eq in E. subst; auto.
  - intros H. exists x. rewrite Nat.eqb_refl. auto.
Qed.

Lemma mps_nodes_keys shapes r : r < length shapes ->
  akeys (mps_nodes shapes r) = r :: rev (seq 0 r) ++ seq (S r) (length shapes - S r).
Proof.
  intros H. unfold mps_nodes. simpl. rewrite akeys_app, !akeys_chain_nodes, path_ids_left, path_ids_right. reflexivity.
Qed.

Theorem mps_nodes_site shapes r i : r < length shapes -> i < length shapes ->
  aget i (mps_nodes shapes r) = Some (mps_node shapes r i).
Proof.
  intros Hr Hi. unfold mps_nodes, mps_node. simpl.
  destruct (Nat.eqb_spec i r) as [->|N].
  - rewrite Nat.ltb_irrefl. unfold rootnode, add_children, new_node. simpl. reflexivity.
  - rewrite chain_left, chain_right, aget_app, !aget_map_key by auto.
    destruct (Nat.ltb_spec i r) as [L|L].
    + assert (E : memb i (rev (seq 0 r)) = true) by (apply memb_true; rewrite <- in_rev; apply in_seq; lia).
      rewrite E. reflexivity.
    + assert (E : memb i (rev (seq 0 r)) = false).
      { destruct (memb i (rev (seq 0 r))) eqn:E; auto. apply memb_true in E. rewrite <- in_rev in E. apply in_seq in E. lia. }
      rewrite E.
      assert (E2 : memb i (seq (S r) (length shapes - S r)) = true) by (apply memb_true; apply in_seq; lia).
      rewrite E2. destruct (Nat.ltb_spec r i); [reflexivity|lia].
Qed.

(* the tensor axis (position in the tensor as handed over) that is bound to neighbour x *)
Definition axis_to (n : node) (x : id) : option nat :=
  option_map (fun k => nth k (perm n) 0) (neighbour_index n x).

Lemma path_lens_left shapes r : path_lens_ok (left_steps shapes r) ->
  forall i, i < r -> (if i =? 0 then 0 else 1) < length (nth i shapes []).
Proof.
  induction r as [|r IH]; intros H i Hi; [lia|].
  rewrite left_steps_S in H. simpl in H. destruct H as (H1 & _ & H3).
  destruct (Nat.eq_dec i r) as [->|N]; auto. apply IH; auto. lia.
Qed.

Lemma path_lens_right_gen shapes : forall k a,
  path_lens_ok (map (fun site => (site, nth site shapes [], 0)) (seq a k)) ->
  forall i, a <= i -> S i < a + k -> 2 <= length (nth i shapes []).
Proof.
  induction k as [|k IH]; intros a H i Hi1 Hi2; [lia|].
  simpl in H. destruct H as (_ & H2 & H3).
  destruct (Nat.eq_dec i a) as [->|N].
  - apply H2. destruct k; [lia|]. simpl. discriminate.
  - apply (IH (S a)); auto; lia.
Qed.

(* neighbours: exactly i-1 and i+1; axis 0 -> left neighbour, axis 1 -> right neighbour (site 0: axis 0) *)
Theorem mps_site_facts shapes r i :
  r < length shapes -> i < length shapes ->
  path_lens_ok (right_steps shapes r) ->
  (0 < r -> S r < length shapes -> 2 <= length (nth r shapes [])) ->
  let n := mps_node shapes r i in
  (forall x, In x (neighbouring_nodes n) <-> (S x = i \/ (x = S i /\ x < length shapes)))
  /\ parent n = (if i <? r then Some (S i) else if r <? i then Some (i - 1) else None)
  /\ shape n = nth i shapes []
  /\ (0 < i -> axis_to n (i - 1) = Some 0)
  /\ (S i < length shapes -> axis_to n (S i) = Some (if i =? 0 then 0 else 1)).
Proof.
  intros Hr Hi Hlr Hroot n. unfold n, mps_node.
  destruct (Nat.ltb_spec i r) as [L|L].
  - (* left of the root *)
    unfold lnode, neighbouring_nodes, axis_to, neighbour_index; cbn [parent children perm shape].
    repeat split.
    + destruct (Nat.ltb_spec 0 i); simpl; intuition lia.
    + destruct (Nat.ltb_spec 0 i); simpl; intuition lia.
    + intros H0.
      assert (E1 : (i - 1 =? S i) = false) by (apply Nat.eqb_neq; lia).
      assert (E2 : (0 <? i) = true) by (apply Nat.ltb_lt; lia).
      assert (E3 : (i =? 0) = false) by (apply Nat.eqb_neq; lia).
      rewrite E1, E2, E3. cbn [index_of]. rewrite Nat.eqb_refl. reflexivity.
    + intros _. rewrite Nat.eqb_refl. cbn [option_map]. destruct (Nat.eqb_spec i 0) as [->|]; cbn [child_perm nth]; auto.
      destruct (length (nth 0 shapes [])); reflexivity.
  - destruct (Nat.ltb_spec r i) as [G|G].
    + (* right of the root *)
      unfold rnode, neighbouring_nodes, axis_to, neighbour_index; cbn [parent children perm shape].
      repeat split.
      * destruct (Nat.ltb_spec (S i) (length shapes)); simpl; intuition lia.
      * destruct (Nat.ltb_spec (S i) (length shapes)); simpl; intuition lia.
      * intros _. rewrite Nat.eqb_refl. cbn [option_map]. destruct (length (nth i shapes [])); reflexivity.
      * intros HS.
        assert (E1 : (S i =? i - 1) = false) by (apply Nat.eqb_neq; lia).
        assert (E2 : (S i <? length shapes) = true) by (apply Nat.ltb_lt; lia).
        assert (E3 : (i =? 0) = false) by (apply Nat.eqb_neq; lia).
        rewrite E1, E2, E3. cbn [index_of]. rewrite Nat.eqb_refl. cbn [option_map Nat.add].
        assert (H2 : 2 <= length (nth i shapes [])).
        { unfold right_steps in Hlr. apply (path_lens_right_gen shapes _ _ Hlr i); lia. }
        destruct (length (nth i shapes [])) as [|[|k]]; try lia. reflexivity.
    + (* the root *)
      assert (i = r) by lia. subst i.
      unfold rootnode, neighbouring_nodes, axis_to, neighbour_index; cbn [parent children perm shape].
      repeat split.
      * destruct (Nat.ltb_spec 0 r); destruct (Nat.ltb_spec (S r) (length shapes)); simpl; intuition lia.
      * destruct (Nat.ltb_spec 0 r); destruct (Nat.ltb_spec (S r) (length shapes)); simpl; intuition lia.
      * intros H0.
        assert (E2 : (0 <? r) = true) by (apply Nat.ltb_lt; lia). rewrite E2.
        cbn [app index_of]. rewrite Nat.eqb_refl. cbn [option_map].
        destruct (length (nth r shapes [])); reflexivity.
      * intros HS.
        assert (E2 : (S r <? length shapes) = true) by (apply Nat.ltb_lt; lia). rewrite E2.
        destruct (Nat.ltb_spec 0 r) as [H0|H0]; cbn [app index_of].
        -- assert (E1 : (S r =? r - 1) = false) by (apply Nat.eqb_neq; lia).
           assert (E3 : (r =? 0) = false) by (apply Nat.eqb_neq; lia).
           rewrite E1, E3, Nat.eqb_refl. cbn [option_map].
           pose proof (Hroot H0 HS) as H2.
           destruct (length (nth r shapes [])) as [|[|k]]; try lia. reflexivity.
        -- assert (r = 0) by lia. subst r. cbn [Nat.eqb option_map]. destruct (length (nth 0 shapes [])); reflexivity.
Qed.

(* ================================================================================================ *)
(* well-formedness of the produced stores (store invariant of TTN/Inv.v)                             *)
(* ================================================================================================ *)
Lemma forM_inv {A S} (P : S -> Prop) (xs : list A) (body : S -> A -> option S) :
  (forall s x s1, P s -> body s x = Some s1 -> P s1) ->
  forall s0 s', P s0 -> forM xs (Some s0) body = Some s' -> P s'.
Proof.
  intros Hb. induction xs as [|x xs IH]; intros s0 s' H0 H.
  - simpl in H. inversion H; subst; auto.
  - rewrite forM_cons in H. simpl in H. destruct (body s0 x) as [s1|] eqn:E; [|rewrite forM_None in H; discriminate].
    apply (IH s1 s'); [eapply Hb; eauto|exact H].
Qed.

Lemma attach_right_wf m c shp m' : Inv.wf (mst m) -> attach_right m c shp = Some m' -> Inv.wf (mst m').
Proof.
  unfold attach_right. intros Hw H.
  destruct (add_child (mst m) c shp 0 _ 1) as [s|] eqn:E; simpl in H; [|discriminate].
  inversion H; subst; simpl. eapply add_child_preserves_wf; eauto.
Qed.

Lemma attach_left_wf m c shp f m' : Inv.wf (mst m) -> attach_left m c shp f = Some m' -> Inv.wf (mst m').
Proof.
  unfold attach_left. intros Hw H.
  destruct (lefts m);
    match type of H with context [add_child ?a ?b ?c ?d ?e ?g] => destruct (add_child a b c d e g) as [s|] eqn:E end;
    simpl in H; try discriminate; inversion H; subst; simpl; eapply add_child_preserves_wf; eauto.
Qed.

Theorem mps_from_list_wf shapes r m : mps_from_list shapes r = Some m -> wfb (mst m) = true.
Proof.
  intros H. apply wfb_iff. revert H. unfold mps_from_list.
  destruct (length shapes <=? r); [discriminate|].
  destruct (r =? 0).
  - unfold mps_leftmost.
    destruct (add_root empty_store 0 (nth 0 shapes [])) as [s0|] eqn:E0; simpl; [|discriminate].
    pose proof (add_root_wf _ _ _ _ blank_empty E0) as W0.
    destruct (1 <? length shapes).
    + destruct (add_child s0 1 (nth 1 shapes []) 0 0 0) as [s1|] eqn:E1; simpl; [|discriminate].
      intros H. eapply (forM_inv (fun m => Inv.wf (mst m))); [|  |exact H].
      * intros ? ? ? Hs Hb; cbv beta in Hb; eapply attach_right_wf; eauto.
      * simpl. eapply add_child_preserves_wf; eauto.
    + simpl. intros H. eapply (forM_inv (fun m => Inv.wf (mst m))); [|  |exact H].
      * intros ? ? ? Hs Hb; cbv beta in Hb; eapply attach_right_wf; eauto.
      * exact W0.
  - destruct (add_root empty_store r (nth r shapes [])) as [s0|] eqn:E0; simpl; [|discriminate].
    pose proof (add_root_wf _ _ _ _ blank_empty E0) as W0.
    destruct (forM (seq 0 r) _ _) as [m1|] eqn:EL; [|rewrite forM_None; discriminate].
    intros H. eapply (forM_inv (fun m => Inv.wf (mst m))); [|  |exact H].
    + intros ? ? ? Hs Hb; cbv beta in Hb; eapply attach_right_wf; eauto.
    + eapply (forM_inv (fun m => Inv.wf (mst m))); [|  |exact EL].
      * intros ? ? ? Hs Hb; cbv beta in Hb; eapply attach_left_wf; eauto.
      * exact W0.
Qed.

Theorem star_build_wf center calls m : star_build center calls = Some m -> wfb (sst m) = true.
Proof.
  intros H. apply wfb_iff. revert H. unfold star_build, star_add_center.
  destruct (add_root empty_store center_id center) as [s0|] eqn:E0; simpl; [|rewrite forM_None; discriminate].
  pose proof (add_root_wf _ _ _ _ blank_empty E0) as W0.
  intros H. eapply (forM_inv (fun m => Inv.wf (sst m))); [|  |exact H]; [|exact W0].
  intros s x s1 Hw Hb. unfold star_add_chain_node in Hb.
  destruct (aget center_id (nodes (sst s))) as [cn|]; [|discriminate].
  destruct (nlegs cn <? snd x); [discriminate|].
  destruct (length (chains s) <? snd x); [discriminate|].
  destruct (snd x =? length (chains s)).
  - destruct (add_child (sst s) _ (fst x) 0 center_id (nvirt cn)) as [s2|] eqn:E; simpl in Hb; [|discriminate].
    inversion Hb; subst; simpl. eapply add_child_preserves_wf; eauto.
  - destruct (aget (last (nth (snd x) (chains s) []) 0) (nodes (sst s))) as [pn|]; [|discriminate].
    destruct (add_child (sst s) _ (fst x) 0 _ (nvirt pn)) as [s2|] eqn:E; simpl in Hb; [|discriminate].
    inversion Hb; subst; simpl. eapply add_child_preserves_wf; eauto.
Qed.

Theorem fork_build_wf calls m : fork_build calls = Some m -> mainc m <> [] -> wfb (fst_ m) = true.
Proof.
  intros H Hne. apply wfb_iff. revert H. unfold fork_build.
  (* invariant: the store is blank while the main chain is empty, well-formed afterwards *)
  intros H.
  assert (G : (mainc m = [] /\ blank (fst_ m)) \/ Inv.wf (fst_ m)).
  { eapply (forM_inv (fun m => (mainc m = [] /\ blank (fst_ m)) \/ Inv.wf (fst_ m))); [| |exact H].
    - intros s x s1 Hs Hb. destruct x as [shp|shp idx].
      + unfold fork_add_main in Hb.
        destruct (length (mainc s) =? 0) eqn:E0.
        * destruct (add_root (fst_ s) _ shp) as [s2|] eqn:E; simpl in Hb; [|discriminate].
          inversion Hb; subst; simpl. right. destruct Hs as [[_ Hbl]|Hw].
          -- eapply add_root_wf; eauto.
          -- apply Nat.eqb_eq in E0. destruct (wf_root _ Hw) as (r & rn & Hr & _).
             unfold add_root in E. rewrite Hr in E. discriminate.
        * destruct (aget (last (mainc s) 0) (nodes (fst_ s))) as [pn|] eqn:Ep; [|discriminate].
          destruct (add_child (fst_ s) _ shp 0 _ (nvirt pn)) as [s2|] eqn:E; simpl in Hb; [|discriminate].
          inversion Hb; subst; simpl. right. destruct Hs as [[_ Hbl]|Hw].
          -- destruct Hbl as (Hn & _). rewrite Hn in Ep. discriminate.
          -- eapply add_child_preserves_wf; eauto.
      + unfold fork_add_sub in Hb.
        destruct (length (mainc s) <? idx); [discriminate|].
        destruct (length (subc s) <=? idx); [discriminate|].
        match type of Hb with context [aget ?k (nodes (fst_ s))] => destruct (aget k (nodes (fst_ s))) as [pn|] eqn:Ep end; [|discriminate].
        destruct (add_child (fst_ s) _ shp 0 _ (nvirt pn)) as [s2|] eqn:E; simpl in Hb; [|discriminate].
        inversion Hb; subst; simpl. right. destruct Hs as [[_ Hbl]|Hw].
        * destruct Hbl as (Hn & _). rewrite Hn in Ep. discriminate.
        * eapply add_child_preserves_wf; eauto.
    - left. split; [reflexivity|apply blank_empty]. }
  destruct G as [[G _]|G]; [contradiction|exact G].
Qed.

(* ================================================================================================ *)
(* TTNO.from_tensor: the leg permutation                                                             *)
(* ================================================================================================ *)
Section QR.
  Variable leg : nat -> list nat.
  Let g (c : rtree) := qr_acc leg c [].

  Lemma qr_acc_unfold i cs acc :
    qr_acc leg (RNode i cs) acc = leg i ++ fold_left (fun a c => qr_acc leg c a) cs acc.
  Proof.
    reflexivity.
  Qed.

  Lemma fold_qr cs : Forall (fun c => forall acc, qr_acc leg c acc = g c ++ acc) cs ->
    forall acc, fold_left (fun a c => qr_acc leg c a) cs acc = concat (rev (map g cs)) ++ acc.
  Proof.
    induction 1 as [|c cs Hc _ IH]; intros acc; simpl; auto.
    rewrite IH, Hc, concat_app. simpl. rewrite app_nil_r, <- app_assoc. reflexivity.
  Qed.

  Lemma qr_acc_acc t : forall acc, qr_acc leg t acc = g t ++ acc.
  Proof.
    induction t as [i cs IH] using rtree_ind2. intros acc. unfold g.
    rewrite !qr_acc_unfold, !fold_qr by auto. rewrite app_nil_r, <- app_assoc. reflexivity.
  Qed.

  (* closed form: own legs, then the blocks of the children in REVERSE order *)
  Theorem qr_acc_closed i cs acc :
    qr_acc leg (RNode i cs) acc = leg i ++ concat (rev (map g cs)) ++ acc.
  Proof.
    rewrite qr_acc_unfold, fold_qr; auto. apply Forall_forall. intros c _. apply qr_acc_acc.
  Qed.

  (* hence the legs of the first child's subtree are the last block: what _from_tensor_rec splits off *)
  Corollary qr_first_child_last i c cs :
    qr_acc leg (RNode i (c :: cs)) [] = (leg i ++ concat (rev (map g cs))) ++ g c.
  Proof.
    rewrite qr_acc_closed. simpl. rewrite concat_app. simpl. rewrite !app_nil_r, app_assoc. reflexivity.
  Qed.

  Lemma flat_map_flat_map {A B C} (f : A -> list B) (h : B -> list C) l :
    flat_map h (flat_map f l) = flat_map (fun a => flat_map h (f a)) l.
  Proof. induction l; simpl; auto. rewrite flat_map_app, IHl. reflexivity. Qed.

  Theorem qr_acc_perm t : Permutation (g t) (flat_map leg (ids t)).
  Proof.
    induction t as [i cs IH] using rtree_ind2. unfold g. rewrite qr_acc_closed, app_nil_r.
    simpl. apply Permutation_app_head.
    rewrite flat_map_flat_map.
    transitivity (flat_map g cs).
    - rewrite (flat_map_concat_map g cs). generalize (map g cs). clear.
      induction l as [|a l IHl]; simpl; auto.
      rewrite concat_app. simpl. rewrite app_nil_r.
      eapply Permutation_trans; [apply Permutation_app_comm|]. apply Permutation_app_head. exact IHl.
    - apply flat_map_perm. exact IH.
  Qed.
End QR.

Lemma flat_map_pair_perm {A} (f h : A -> nat) l :
  Permutation (flat_map (fun i => [f i; h i]) l) (map f l ++ map h l).
Proof.
  induction l as [|a l IH]; simpl; auto. constructor.
  apply Permutation_trans with (h a :: map f l ++ map h l); [constructor; exact IH|].
  apply Permutation_middle.
Qed.

Lemma map_add_seq n : forall k a, map (fun x => n + x) (seq a k) = seq (n + a) k.
Proof. induction k as [|k IH]; intros a; simpl; auto. rewrite IH. f_equal. f_equal. lia. Qed.

(* _get_qr_decomposition_shape yields a permutation of all 2n tensor legs whenever leg_dict is a
   bijection nodes -> 0..n-1 *)
Theorem ft_perm_is_permutation lg half t :
  Permutation (map lg (ids t)) (seq 0 half) ->
  Permutation (ft_perm lg half t) (seq 0 (2 * half)).
Proof.
  intros H. unfold ft_perm.
  eapply Permutation_trans; [apply qr_acc_perm|].
  eapply Permutation_trans; [apply flat_map_pair_perm|].
  replace (2 * half) with (half + half) by lia. rewrite seq_app. apply Permutation_app; auto.
  rewrite <- (map_map lg (fun x => half + x)). replace (0 + half) with (half + 0) by lia. rewrite <- map_add_seq.
  apply Permutation_map. exact H.
Qed.

Theorem ft_perm_length lg half t : length (ft_perm lg half t) = 2 * size t.
Proof.
  unfold ft_perm. rewrite (Permutation_length (qr_acc_perm _ t)).
  rewrite (Permutation_length (flat_map_pair_perm _ _ _)), app_length, !map_length, size_length_ids. lia.
Qed.

(* ================================================================================================ *)
(* the star product state: the dimension defect                                                      *)
(* ================================================================================================ *)
Theorem star_dim_refuted sv dim clen nch :
  check_ps sv dim = true -> dim <> 2%Z -> (1 <= clen)%Z -> (1 <= nch)%Z ->
  star_cps true sv dim clen nch = None.
Proof.
  intros Hc Hd Hcl Hn. unfold star_cps. rewrite Hc. simpl.
  assert (E1 : ((nch <? 0)%Z || (clen <? 0)%Z) = false).
  { apply orb_false_iff. split; apply Z.ltb_ge; lia. }
  rewrite E1.
  unfold star_add_center.
  destruct (add_root empty_store center_id (repeat 1 (Z.to_nat nch) ++ [Z.to_nat dim])) as [s0|]; simpl; auto.
  destruct (Z.to_nat nch) as [|nc] eqn:En; [lia|].
  destruct (Z.to_nat clen) as [|cl] eqn:Ec; [lia|].
  cbn [seq flat_map map app]. rewrite forM_cons. cbn [bind fst snd].
  unfold star_chain_shape.
  assert (E2 : (Z.to_nat dim =? 2) = false).
  { apply Nat.eqb_neq. unfold check_ps in Hc. apply andb_true_iff in Hc. destruct Hc as [Hc _].
    apply andb_true_iff in Hc. destruct Hc as [Hc _]. apply Z.ltb_lt in Hc. lia. }
  rewrite E2. cbn [bind]. rewrite forM_None. reflexivity.
Qed.

(* ================================================================================================ *)
(* acceptance of the documented input format                                                         *)
(* ================================================================================================ *)
Definition mps_shape_i (bonds : list nat) (opens : list (list nat)) (i : nat) : list nat :=
  (if 0 <? i then [nth (i - 1) bonds 0] else []) ++ (if i <? length bonds then [nth i bonds 0] else []) ++ nth i opens [].

Lemma mps_shapes_mid_spec : forall bonds opens bl, length opens = S (length bonds) ->
  length (mps_shapes_mid bl bonds opens) = length opens /\
  forall j, j < length opens ->
    nth j (mps_shapes_mid bl bonds opens) [] =
    nth j (bl :: bonds) 0 :: (if j <? length bonds then [nth j bonds 0] else []) ++ nth j opens [].
Proof.
  induction bonds as [|b bs IH]; intros opens bl H.
  - destruct opens as [|o [|]]; simpl in H; try discriminate. simpl. split; auto.
    intros [|j] Hj; [reflexivity|lia].
  - destruct opens as [|o os]; simpl in H; [discriminate|]. injection H as H.
    destruct (IH os b H) as [IH1 IH2]. simpl. split; [rewrite IH1; reflexivity|].
    intros [|j] Hj; [reflexivity|]. rewrite IH2 by lia. reflexivity.
Qed.

Lemma mps_shapes_spec bonds opens : length opens = S (length bonds) ->
  length (mps_shapes bonds opens) = length opens /\
  forall i, i < length opens -> nth i (mps_shapes bonds opens) [] = mps_shape_i bonds opens i.
Proof.
  intros H. destruct bonds as [|b bs].
  - destruct opens as [|o [|]]; simpl in H; try discriminate. simpl. split; auto.
    intros [|i] Hi; [reflexivity|lia].
  - destruct opens as [|o os]; simpl in H; [discriminate|]. injection H as H.
    destruct (mps_shapes_mid_spec bs os b H) as [M1 M2]. simpl. split; [rewrite M1; reflexivity|].
    intros [|i] Hi; [reflexivity|]. rewrite M2 by lia. unfold mps_shape_i. simpl. rewrite Nat.sub_0_r. reflexivity.
Qed.

Section Accept.
  Variables (bonds : list nat) (opens : list (list nat)).
  Hypothesis Hlen : length opens = S (length bonds).
  Let shapes := mps_shapes bonds opens.
  Let HL : length shapes = S (length bonds).
  Proof. unfold shapes. rewrite (proj1 (mps_shapes_spec _ _ Hlen)). exact Hlen. Qed.
  Let Hsh : forall i, i <= length bonds -> nth i shapes [] = mps_shape_i bonds opens i.
  Proof. intros i Hi. apply (proj2 (mps_shapes_spec _ _ Hlen)). lia. Qed.

  Lemma right_dims_ok : forall k a, 1 <= a -> a + k = length shapes ->
    path_dims_ok (nth (a - 1) bonds 0) (map (fun site => (site, nth site shapes [], 0)) (seq a k)).
  Proof.
    induction k as [|k IH]; intros a Ha Hk; [exact I|].
    pose proof (IH (S a)) as IH'. clear IH.
    cbn [seq map]. set (rest := map (fun site => (site, nth site shapes [], 0)) (seq (S a) k)) in *.
    cbn [path_dims_ok]. rewrite Hsh by lia. unfold mps_shape_i.
    assert (E0 : (0 <? a) = true) by (apply Nat.ltb_lt; lia). rewrite E0.
    split; [lia|]. split; [simpl; lia|]. split; [reflexivity|].
    destruct k as [|k].
    - exact I.
    - assert (E1 : (a <? length bonds) = true) by (apply Nat.ltb_lt; lia). rewrite E1.
      replace rest with (map (fun site => (site, nth site shapes [], 0)) (seq (S a) (S k))) by reflexivity.
      cbn [seq map]. split; [simpl; lia|].
      cbn [app length child_perm seq nth].
      replace (S a - 1) with a in IH' by lia. apply IH'; lia.
  Qed.

  Lemma left_dims_ok : forall j, j <= length bonds ->
    path_dims_ok (nth (j - 1) bonds 0) (left_steps shapes j).
  Proof.
    induction j as [|j IH]; intros Hj; [exact I|].
    rewrite left_steps_S. set (rest := left_steps shapes j) in *.
    cbn [path_dims_ok]. rewrite Hsh by lia. unfold mps_shape_i.
    assert (E1 : (j <? length bonds) = true) by (apply Nat.ltb_lt; lia). rewrite E1.
    destruct j as [|j].
    - cbn. repeat split; lia.
    - assert (E0 : (0 <? S j) = true) by reflexivity. rewrite E0.
      assert (E2 : (S j =? 0) = false) by reflexivity. rewrite E2.
      split; [lia|]. split; [simpl; lia|]. split; [simpl; f_equal; lia|].
      assert (Er : rest = (j, nth j shapes [], if j =? 0 then 0 else 1) :: left_steps shapes j)
        by (unfold rest; apply left_steps_S).
      destruct rest as [|r0 rest']; [discriminate|].
      split; [simpl; lia|].
      cbn [app length child_perm seq nth]. apply IH. lia.
  Qed.
End Accept.

Lemma left_path_eq xs : forall m, Forall (fun t : pstep => snd t <= 1) xs ->
  forM xs (Some m) (fun m t => attach_left m (fst (fst t)) (snd (fst t)) (snd t =? 0))
  = option_map (fun s' => {| mst := s'; lefts := rev (path_ids xs) ++ lefts m; rights := rights m |})
               (attach_path (mst m) (fst (left_end m)) (snd (left_end m)) xs).
Proof.
  induction xs as [|[[x shp] cleg] rest IH]; intros m Hc.
  - simpl. destruct m; reflexivity.
  - rewrite forM_cons. inversion Hc as [|? ? Hc0 Hc']; subst. simpl in Hc0.
    cbn [bind fst snd attach_path]. unfold attach_left. fold (left_end m).
    destruct (left_end m) as [p pleg] eqn:El.
    assert (Ecl : (if cleg =? 0 then 0 else 1) = cleg) by (destruct cleg as [|[|]]; simpl; auto; lia).
    rewrite Ecl. cbn [fst snd].
    destruct (add_child (mst m) x shp cleg p pleg) as [s1|] eqn:E1; cbn [bind]; [|rewrite forM_None; reflexivity].
    rewrite IH by auto. unfold left_end at 1 2. cbn [lefts mst fst snd rights].
    destruct (attach_path s1 x 1 rest); cbn [option_map]; auto.
    simpl. rewrite <- app_assoc. reflexivity.
Qed.

Lemma right_path_eq xs : forall m, Forall (fun t : pstep => snd t = 0) xs ->
  forM xs (Some m) (fun m t => attach_right m (fst (fst t)) (snd (fst t)))
  = option_map (fun s' => {| mst := s'; lefts := lefts m; rights := rights m ++ path_ids xs |})
               (attach_path (mst m) (right_end m) 1 xs).
Proof.
  induction xs as [|[[x shp] cleg] rest IH]; intros m Hc.
  - simpl. rewrite app_nil_r. destruct m; reflexivity.
  - rewrite forM_cons. inversion Hc as [|? ? Hc0 Hc']; subst. simpl in Hc0. subst cleg.
    cbn [bind fst snd attach_path]. unfold attach_right. fold (right_end m).
    destruct (add_child (mst m) x shp 0 (right_end m) 1) as [s1|] eqn:E1; cbn [bind]; [|rewrite forM_None; reflexivity].
    rewrite IH by auto.
    assert (Ee : right_end {| mst := s1; lefts := lefts m; rights := rights m ++ [x] |} = x).
    { unfold right_end; simpl. rewrite last_snoc. destruct (rights m); reflexivity. }
    rewrite Ee. cbn [lefts mst rights].
    destruct (attach_path s1 x 1 rest); cbn [option_map]; auto.
    simpl. rewrite <- app_assoc. reflexivity.
Qed.

(* from_tensor_list accepts every tensor list in the documented format, for every root position *)
Theorem mps_accepts bonds opens r :
  length opens = S (length bonds) -> r <= length bonds ->
  exists m, mps_from_list (mps_shapes bonds opens) r = Some m.
Proof.
  intros Hlen Hr.
  set (shapes := mps_shapes bonds opens).
  assert (HL : length shapes = S (length bonds)).
  { unfold shapes. rewrite (proj1 (mps_shapes_spec _ _ Hlen)). exact Hlen. }
  assert (Hsh : forall i, i <= length bonds -> nth i shapes [] = mps_shape_i bonds opens i).
  { intros i Hi. apply (proj2 (mps_shapes_spec _ _ Hlen)). lia. }
  unfold mps_from_list.
  destruct (Nat.leb_spec (length shapes) r); [lia|].
  destruct (add_root_accepted empty_store r (nth r shapes []) eq_refl) as (s0 & E0).
  destruct (add_root_spec _ _ _ E0) as (Hn0 & Hroot0 & HB0 & Hld0).
  set (rn := new_node (nth r shapes [])) in *.
  assert (Hrn : aget r (nodes s0) = Some rn) by (rewrite Hn0; simpl; rewrite Nat.eqb_refl; reflexivity).
  assert (Hnl : nlegs rn = length (nth r shapes [])) by (unfold nlegs, rn, new_node; simpl; apply seq_length).
  assert (Hfresh0 : forall x, x <> r -> aget x (nodes s0) = None).
  { intros x Hx. rewrite Hn0. simpl. destruct (Nat.eqb_spec x r); [contradiction|reflexivity]. }
  destruct (Nat.eqb_spec r 0) as [->|Hr0].
  - (* leftmost node is the root *)
    unfold mps_leftmost. rewrite E0. cbn [bind].
    destruct (Nat.ltb_spec 1 (length shapes)) as [H1|H1].
    + destruct (attach_path_accepts (right_steps shapes 0) s0 0 rn (nth 0 bonds 0) Hrn) as (s' & Hp & _).
      * rewrite Hnl, Hsh by lia. unfold mps_shape_i. simpl. unfold nvirt, rn, new_node, nparents; simpl.
        destruct (0 <? length bonds) eqn:E; simpl; [lia|apply Nat.ltb_ge in E; lia].
      * unfold nvirt, rn, new_node, nparents; simpl.
        assert (Hl0 : 0 < length (nth 0 shapes [])).
        { rewrite Hsh by lia. unfold mps_shape_i. simpl.
          destruct (0 <? length bonds) eqn:E; simpl; [lia|apply Nat.ltb_ge in E; lia]. }
        pose proof (Hld0 0 Hl0) as Hd. rewrite Hsh in Hd by lia. unfold mps_shape_i in Hd. simpl in Hd.
        assert (E : (0 <? length bonds) = true) by (apply Nat.ltb_lt; lia). rewrite E in Hd. exact Hd.
      * exact HB0.
      * rewrite path_ids_right. apply seq_NoDup.
      * intros x Hx. rewrite path_ids_right in Hx. apply in_seq in Hx. apply Hfresh0. lia.
      * unfold right_steps. apply (right_dims_ok bonds opens Hlen (length shapes - 1) 1); fold shapes; lia.
      * destruct (right_steps_head shapes 0 H1) as (rest & Er).
        assert (Erest : rest = map (fun site => (site, nth site shapes [], 0)) (seq 2 (length shapes - 2))).
        { unfold right_steps in Er. replace (length shapes - 1) with (S (length shapes - 2)) in Er by lia.
          cbn [seq map] in Er. inversion Er. reflexivity. }
        rewrite Er in Hp. cbn [attach_path] in Hp. change (nvirt rn) with 0 in Hp.
        destruct (add_child s0 1 (nth 1 shapes []) 0 0 0) as [s1|]; cbn [bind] in Hp; [|discriminate].
        cbn [bind].
        assert (Hc : Forall (fun t : pstep => snd t = 0) rest).
        { rewrite Erest. apply Forall_forall. intros t Ht. apply in_map_iff in Ht. destruct Ht as (i & <- & _). reflexivity. }
        pose proof (right_path_eq rest {| mst := s1; lefts := []; rights := [1] |} Hc) as RP.
        unfold right_end in RP; cbn [rights mst last lefts] in RP.
        rewrite Hp in RP. cbn [option_map] in RP.
        rewrite Erest in RP at 1. rewrite forM_map in RP. cbn [fst snd] in RP.
        rewrite RP. eauto.
    + cbn [bind]. replace (length shapes - 2) with 0 by lia. simpl. eauto.
  - (* a root in the middle or at the right end *)
    rewrite E0. cbn [bind].
    (* left part *)
    assert (Hl0 : 0 < length (nth r shapes [])).
    { rewrite Hsh by lia. unfold mps_shape_i. assert (E : (0 <? r) = true) by (apply Nat.ltb_lt; lia). rewrite E. simpl. lia. }
    destruct (attach_path_accepts (left_steps shapes r) s0 r rn (nth (r - 1) bonds 0) Hrn) as (s1 & Hp1 & HB1 & Hfr1).
    + rewrite Hnl. unfold nvirt, rn, new_node, nparents; simpl. lia.
    + unfold nvirt, rn, new_node, nparents; simpl.
      pose proof (Hld0 0 Hl0) as Hd. rewrite Hsh in Hd by lia. unfold mps_shape_i in Hd.
      assert (E : (0 <? r) = true) by (apply Nat.ltb_lt; lia). rewrite E in Hd. exact Hd.
    + exact HB0.
    + rewrite path_ids_left. apply NoDup_rev, seq_NoDup.
    + intros x Hx. rewrite path_ids_left in Hx. rewrite <- in_rev in Hx. apply in_seq in Hx. apply Hfresh0. lia.
    + apply (left_dims_ok bonds opens Hlen). lia.
    + assert (EL : forM (seq 0 r) (Some {| mst := s0; lefts := []; rights := [] |})
                     (fun m i => attach_left m (r - 1 - i) (nth (r - 1 - i) shapes []) (r - 1 - i =? 0))
                   = Some {| mst := s1; lefts := seq 0 r; rights := [] |}).
      { pose proof (left_path_eq (left_steps shapes r) {| mst := s0; lefts := []; rights := [] |} (left_steps_cleg shapes r)) as LP.
        unfold left_end in LP; cbn [lefts mst fst snd] in LP. unfold root_or0 in LP. rewrite Hroot0, Hrn in LP.
        change (length (children rn)) with (nvirt rn) in LP. rewrite Hp1 in LP. cbn [option_map rights] in LP.
        rewrite path_ids_left, rev_involutive, app_nil_r in LP. rewrite <- LP.
        unfold left_steps. rewrite forM_map. apply forM_ext. intros s i _. simpl.
        destruct (r - 1 - i =? 0); reflexivity. }
      rewrite EL.
      destruct (Nat.ltb_spec (S r) (length shapes)) as [H1|H1].
      * (* right part *)
        destruct (attach_path_nodes _ _ _ _ _ Hrn Hp1 (left_steps_cleg shapes r)) as (Hn1 & Hroot1 & _).
        destruct (left_steps_head shapes r ltac:(lia)) as (lrest & Els).
        assert (Hrn1 : aget r (nodes s1) = Some (with_child rn (r - 1))).
        { rewrite Hn1, Els. unfold path_nodes. rewrite aget_app, aget_aset_eq. reflexivity. }
        assert (Hl2 : 2 <= length (nth r shapes [])).
        { rewrite Hsh by lia. unfold mps_shape_i.
          assert (E : (0 <? r) = true) by (apply Nat.ltb_lt; lia). rewrite E.
          assert (E' : (r <? length bonds) = true) by (apply Nat.ltb_lt; lia). rewrite E'. simpl. lia. }
        destruct (attach_path_accepts (right_steps shapes r) s1 r (with_child rn (r - 1)) (nth r bonds 0) Hrn1) as (s2 & Hp2 & _).
        -- rewrite nvirt_with_child, nlegs_with_child, Hnl. unfold nvirt, rn, new_node, nparents; simpl. lia.
        -- rewrite nvirt_with_child. unfold nvirt, rn, new_node, nparents; simpl.
           apply Hfr1. { rewrite path_ids_left, <- in_rev, in_seq. lia. }
           pose proof (Hld0 1 ltac:(lia)) as Hd. rewrite Hsh in Hd by lia. unfold mps_shape_i in Hd.
           assert (E : (0 <? r) = true) by (apply Nat.ltb_lt; lia). rewrite E in Hd.
           assert (E' : (r <? length bonds) = true) by (apply Nat.ltb_lt; lia). rewrite E' in Hd. exact Hd.
        -- exact HB1.
        -- rewrite path_ids_right. apply seq_NoDup.
        -- intros x Hx. rewrite path_ids_right in Hx. apply in_seq in Hx.
           apply aget_None_keys. rewrite Hn1, Els. unfold path_nodes. rewrite <- Els.
           rewrite akeys_app, akeys_chain_nodes, path_ids_left.
           rewrite (akeys_aset_present _ _ _ rn) by auto. rewrite Hn0. simpl.
           intros [E|E]; [lia|]. rewrite <- in_rev in E. apply in_seq in E. lia.
        -- unfold right_steps. replace (nth r bonds 0) with (nth (S r - 1) bonds 0) by (f_equal; lia).
           apply (right_dims_ok bonds opens Hlen (length shapes - S r) (S r)); fold shapes; lia.
        -- pose proof (right_path_eq (right_steps shapes r) {| mst := s1; lefts := seq 0 r; rights := [] |} (right_steps_cleg shapes r)) as RP.
           unfold right_end in RP; cbn [rights mst] in RP. unfold root_or0 in RP. rewrite Hroot1, Hroot0 in RP.
           rewrite nvirt_with_child in Hp2. change (nvirt rn) with 0 in Hp2. rewrite Hp2 in RP. cbn [option_map] in RP.
           unfold right_steps in RP. rewrite forM_map in RP. cbn [fst snd] in RP. rewrite RP. eauto.
      * replace (length shapes - S r) with 0 by lia. simpl. eauto.
Qed.

(* ================================================================================================ *)
(* summary statements                                                                                *)
(* ================================================================================================ *)
Theorem mps_from_list_struct shapes r m :
  mps_from_list shapes r = Some m ->
  r < length shapes /\ nodes (mst m) = mps_nodes shapes r /\ root (mst m) = Some r
  /\ lefts m = seq 0 r /\ rights m = seq (S r) (length shapes - S r).
Proof. intros H. destruct (mps_from_list_nodes _ _ _ H) as (A & B & C & D & E & _). auto. Qed.

(* the chain: every site's neighbours are i-1 and i+1, parents point toward the root, the root is the
   requested site, axis 0 / axis 1 of tensor i are bound to the left / right neighbour *)
Theorem mps_chain shapes r m i :
  mps_from_list shapes r = Some m -> i < length shapes ->
  exists n, aget i (nodes (mst m)) = Some n
    /\ (forall x, In x (neighbouring_nodes n) <-> (S x = i \/ (x = S i /\ x < length shapes)))
    /\ parent n = (if i <? r then Some (S i) else if r <? i then Some (i - 1) else None)
    /\ shape n = nth i shapes []
    /\ (0 < i -> axis_to n (i - 1) = Some 0)
    /\ (S i < length shapes -> axis_to n (S i) = Some (if i =? 0 then 0 else 1)).
Proof.
  intros H Hi. destruct (mps_from_list_nodes _ _ _ H) as (Hr & Hn & _ & _ & _ & _ & Hlr & Hroot).
  exists (mps_node shapes r i). split.
  - rewrite Hn. apply mps_nodes_site; auto.
  - apply mps_site_facts; auto.
Qed.

(* bounded statements (finite parameter ranges, checked by evaluation of the model) *)
Definition star_ok_b (dim sv cl nc : nat) : bool :=
  match star_cps false (Z.of_nat sv) (Z.of_nat dim) (Z.of_nat cl) (Z.of_nat nc) with
  | Some (m, _) => wfb (sst m) && Nat.eqb (length (nodes (sst m))) (1 + nc * cl)
  | None => false
  end.

Theorem star_fixed_bounded dim sv cl nc :
  In dim (seq 1 4) -> In sv (seq 0 dim) -> In cl (seq 1 4) -> In nc (seq 0 5) -> star_ok_b dim sv cl nc = true.
Proof.
  assert (G : forallb (fun dim => forallb (fun sv => forallb (fun cl => forallb (fun nc => star_ok_b dim sv cl nc)
                (seq 0 5)) (seq 1 4)) (seq 0 dim)) (seq 1 4) = true) by (vm_compute; reflexivity).
  intros H1 H2 H3 H4.
  rewrite forallb_forall in G. specialize (G _ H1).
  rewrite forallb_forall in G. specialize (G _ H2).
  rewrite forallb_forall in G. specialize (G _ H3).
  rewrite forallb_forall in G. exact (G _ H4).
Qed.

Definition binary_ok_b (n bd : nat) : bool :=
  match binary_ttns (Z.of_nat n) (Z.of_nat bd) (if n =? 1 then [2] else [bd; 2]) with
  | Some (s, lab) => wfb s && Nat.eqb (length (nodes s)) (2 * n - 1)
  | None => false
  end.

Theorem binary_bounded n bd : In n (seq 1 16) -> In bd (seq 1 3) -> binary_ok_b n bd = true.
Proof.
  assert (G : forallb (fun n => forallb (fun bd => binary_ok_b n bd) (seq 1 3)) (seq 1 16) = true) by (vm_compute; reflexivity).
  intros H1 H2. rewrite forallb_forall in G. specialize (G _ H1). rewrite forallb_forall in G. exact (G _ H2).
Qed.

Definition ftps_ok_b (w h bd : nat) : bool :=
  match constant_ftps 2 (Z.of_nat w) (Z.of_nat h) (Z.of_nat bd) with
  | Some m => wfb (fst_ m) && Nat.eqb (length (nodes (fst_ m))) (w * h) && Nat.eqb (length (mainc m)) h
  | None => false
  end.

Theorem ftps_bounded w h bd : In w (seq 1 5) -> In h (seq 1 5) -> In bd (seq 1 3) -> ftps_ok_b w h bd = true.
Proof.
  assert (G : forallb (fun w => forallb (fun h => forallb (fun bd => ftps_ok_b w h bd) (seq 1 3)) (seq 1 5)) (seq 1 5) = true)
    by (vm_compute; reflexivity).
  intros H1 H2 H3. rewrite forallb_forall in G. specialize (G _ H1).
  rewrite forallb_forall in G. specialize (G _ H2). rewrite forallb_forall in G. exact (G _ H3).
Qed.

(* ================================================================================================ *)
(* the padded product-state tensors contract to the product state, whatever the padding              *)
(* ================================================================================================ *)
Lemma fold_zero (f : nat -> Z) l : (forall k, In k l -> f k = 0%Z) ->
  fold_right (fun k acc => (f k + acc)%Z) 0%Z l = 0%Z.
Proof.
  induction l as [|a l IH]; intros H; simpl; auto.
  rewrite (H a) by (simpl; auto). rewrite IH; [reflexivity|]. intros k Hk. apply H. simpl; auto.
Qed.

Lemma zsum_delta d (g : nat -> Z) : 1 <= d -> zsum d (fun r => (delta r 0 * g r)%Z) = g 0.
Proof.
  intros H. unfold zsum. destruct d as [|d]; [lia|]. cbn [seq fold_right].
  rewrite fold_zero.
  - replace (delta 0 0) with 1%Z by reflexivity. ring.
  - intros k Hk. apply in_seq in Hk. unfold delta. destruct (Nat.eqb_spec k 0); [lia|]. ring.
Qed.

Lemma zsum_ext d (f g : nat -> Z) : (forall k, f k = g k) -> zsum d f = zsum d g.
Proof. intros H. unfold zsum. induction (seq 0 d); simpl; auto. rewrite H, IHl. reflexivity. Qed.

Definition all_sv (sv : nat) (ps : list nat) : Z := if forallb (fun p => p =? sv) ps then 1%Z else 0%Z.

Lemma all_sv_cons sv p ps : all_sv sv (p :: ps) = (delta p sv * all_sv sv ps)%Z.
Proof. unfold all_sv, delta. simpl. destruct (p =? sv); destruct (forallb _ ps); reflexivity. Qed.

Lemma chain_val_spec sv : forall bonds ps l, Forall (fun d => 1 <= d) bonds -> length ps = S (length bonds) ->
  chain_val sv bonds ps l = (delta l 0 * all_sv sv ps)%Z.
Proof.
  induction bonds as [|d bonds IH]; intros ps l Hb Hl.
  - destruct ps as [|p [|]]; simpl in Hl; try discriminate. simpl. unfold cps_end.
    rewrite all_sv_cons. replace (all_sv sv []) with 1%Z by reflexivity. ring.
  - destruct ps as [|p ps]; simpl in Hl; [discriminate|]. injection Hl as Hl.
    inversion Hb as [|? ? Hd Hb']; subst. cbn [chain_val].
    rewrite (zsum_ext d _ (fun r => (delta r 0 * (delta l 0 * delta p sv * (delta r 0 * all_sv sv ps)))%Z)).
    + rewrite zsum_delta by auto. rewrite all_sv_cons. replace (delta 0 0) with 1%Z by reflexivity. ring.
    + intros k. rewrite IH by auto. unfold cps_mid. ring.
Qed.

(* contraction of constant_product_state's tensors = the product basis state, for all bond paddings >= 1 *)
Theorem mps_product_state_value sv bonds ps :
  bonds <> [] -> Forall (fun d => 1 <= d) bonds -> length ps = S (length bonds) ->
  mps_val sv bonds ps = all_sv sv ps.
Proof.
  intros Hne Hb Hl. destruct bonds as [|d bonds]; [contradiction|].
  destruct ps as [|p ps]; simpl in Hl; [discriminate|]. injection Hl as Hl.
  inversion Hb as [|? ? Hd Hb']; subst. unfold mps_val.
  rewrite (zsum_ext d _ (fun r => (delta r 0 * (delta p sv * (delta r 0 * all_sv sv ps)))%Z)).
  - rewrite zsum_delta by auto. rewrite all_sv_cons. replace (delta 0 0) with 1%Z by reflexivity. ring.
  - intros k. rewrite chain_val_spec by auto. unfold cps_end. ring.
Qed.
