(* Proofs about Special/FromTensor.v, part 3: the VALUE of the network from_tensor builds.
   Over any commutative semiring and any table of atom entries: if every factorisation the program recorded
   holds (def_holds of TTN/InvSem.v: Q . R summed over the new bond = the tensor that was factorised), the
   contraction of the final network equals the input tensor: for every assignment rho of indices to wires
        net_value s' tbl rho = tbl 0 [rho 0; ...; rho (ndim - 1)]
   (atom 0 = the input tensor, wire a = its axis a; the open legs of node k are the wires lg k, half + lg k). *)
From Coq Require Import List Arith Bool Lia Permutation.
From PTN Require Import TTN.Store TTN.StoreProofs TTN.Inv TTN.InvProofs TTN.InvNode TTN.InvBuild TTN.InvContract
  Wire.Sem Wire.SemProofs TTN.InvSem TTN.InvSemProofs TTN.InvSemWfs TTN.InvSemValue
  Tree.RTree Tree.RTreeProofs Special.Chain Special.ChainProofs Special.FromTensor Special.FromTensorProofs Special.FromTensorTree.
Import ListNotations.

Local Notation wf := Inv.wf.

(* every tensor is one atom, nothing is summed inside a tensor, atoms only touch allocated wires *)
Definition simple (s : store) : Prop :=
  (forall k t, aget k (tensors s) = Some t ->
     bnd t = [] /\ exists a, atoms t = [a] /\ a < next_atom s /\ forall x, In x (atom_wires s a) -> x < next_wire s)
  /\ (forall a, In a (akeys (atab s)) -> a < next_atom s).

(* the static world only grows *)
Definition wle (s s' : store) : Prop :=
  (forall a, a < next_atom s -> atom_wires s' a = atom_wires s a) /\
  (forall w, w < next_wire s -> wdim s' w = wdim s w) /\
  next_atom s <= next_atom s' /\ next_wire s <= next_wire s'.

Lemma wle_refl s : wle s s.
Proof. repeat split; auto. Qed.

Lemma wle_same s s' : atab s' = atab s -> dims s' = dims s -> next_atom s' = next_atom s -> next_wire s' = next_wire s ->
  wle s s'.
Proof.
  intros E1 E2 E3 E4. unfold wle, atom_wires, wdim. rewrite E1, E2, E3, E4. repeat split; auto.
Qed.

Lemma wle_trans a b c : wle a b -> wle b c -> wle a c.
Proof.
  intros (A1 & A2 & A3 & A4) (B1 & B2 & B3 & B4). repeat split; try lia.
  - intros x Hx. rewrite B1 by lia. apply A1. exact Hx.
  - intros x Hx. rewrite B2 by lia. apply A2. exact Hx.
Qed.

Lemma flat_map_nil {A B} (f : A -> list B) l : (forall x, In x l -> f x = []) -> flat_map f l = [].
Proof.
  induction l as [|x t IH]; intros H; [reflexivity|]. cbn. rewrite (H x (or_introl eq_refl)). apply IH.
  intros y Hy. apply H. right. exact Hy.
Qed.

Lemma total_bnd_nil s : wf s -> simple s -> total_bnd s = [].
Proof.
  intros W [H _]. unfold total_bnd. apply flat_map_nil. intros [k t] Hin. cbn [snd].
  apply (In_aget _ _ _ (wf_tnd s W)) in Hin. destruct (H k t Hin) as [E _]. exact E.
Qed.

Lemma adel_aset_same {V} k (v : V) l : adel k (aset k v l) = adel k l.
Proof.
  induction l as [|[k' v'] t IH]; cbn; [rewrite Nat.eqb_refl; reflexivity|].
  destruct (Nat.eqb_spec k k') as [->|Hne]; cbn; [rewrite Nat.eqb_refl; reflexivity|].
  apply Nat.eqb_neq in Hne. rewrite Hne, IH. reflexivity.
Qed.

(* totals over the tensor dictionary before / after the step *)
Lemma flat_map_step {W} (f : nat * sarr -> list W) l cur c (Q Rt t : sarr) :
  aget cur l = Some t -> aget c l = None -> c <> cur ->
  Permutation (flat_map f (aset c Rt (aset cur Q l))) (f (cur, Q) ++ f (c, Rt) ++ flat_map f (adel cur l))
  /\ Permutation (flat_map f l) (f (cur, t) ++ flat_map f (adel cur l)).
Proof.
  intros E1 E2 Hne. split; [|apply flat_map_adel_perm; exact E1].
  rewrite (ib_aset_absent c Rt (aset cur Q l)) by (rewrite aget_aset_other by exact Hne; exact E2).
  rewrite flat_map_app. cbn [flat_map]. rewrite app_nil_r.
  rewrite (flat_map_adel_perm f cur Q (aset cur Q l) (aget_aset_same cur Q l)), adel_aset_same.
  rewrite <- !app_assoc. apply Permutation_app_head. apply Permutation_app_comm.
Qed.

Section Value.
  Variable R : Type.
  Variables (zero one : R) (add mul : R -> R -> R).
  Hypothesis SR : comm_semiring zero one add mul.
  Variable tbl : nat -> list nat -> R.

  Local Notation net_value := (net_value zero one add mul).
  Local Notation def_holds := (def_holds zero one add mul).

  Definition good (s : store) : Prop := wf s /\ simple s.

  (* what holds across a piece of the program *)
  Definition vrel (s s' : store) : Prop :=
    good s ->
    good s' /\ wle s s' /\
    exists ds, defs s' = defs s ++ ds /\
      forall sF, wle s' sF -> (forall d, In d ds -> def_holds sF tbl d) ->
      forall rho, net_value s' tbl rho = net_value s tbl rho.

  Lemma vrel_refl s : vrel s s.
  Proof.
    intros G. split; [exact G|]. split; [apply wle_refl|]. exists []. split; [rewrite app_nil_r; reflexivity|]. auto.
  Qed.

  Lemma vrel_trans a b c : vrel a b -> vrel b c -> vrel a c.
  Proof.
    intros H1 H2 G. destruct (H1 G) as (Gb & L1 & ds1 & E1 & V1). destruct (H2 Gb) as (Gc & L2 & ds2 & E2 & V2).
    split; [exact Gc|]. split; [apply (wle_trans a b c L1 L2)|]. exists (ds1 ++ ds2).
    split; [rewrite E2, E1, app_assoc; reflexivity|].
    intros sF LF HD rho. rewrite (V2 sF LF) by (intros d Hd; apply HD; apply in_or_app; right; exact Hd).
    apply (V1 sF (wle_trans b c sF L2 LF)). intros d Hd. apply HD. apply in_or_app. left. exact Hd.
  Qed.

  Lemma vrel_access s n s' nd t : wf s -> access s n = Some (s', nd, t) -> vrel s s'.
  Proof.
    intros W Ha [_ [S1 S2]].
    destruct (access_inv _ _ _ _ _ Ha) as (nd0 & t0 & En & Et & -> & -> & ->).
    split; [split|].
    - apply (access_preserves_wf _ _ _ _ _ W Ha).
    - split; [|exact S2]. intros k tk E. cbn [tensors upd_tensors upd_nodes] in E. rewrite aget_aset in E.
      destruct (Nat.eqb k n); [injection E as <-; apply (S1 n t0 Et)|apply (S1 k tk E)].
    - split; [apply wle_same; reflexivity|]. exists []. split; [cbn; rewrite app_nil_r; reflexivity|].
      intros _ _ _ rho. apply (access_net_value R zero one add mul SR tbl _ _ _ _ _ W Ha).
  Qed.

  Lemma sr_mul_1_r' x : mul x one = x.
  Proof. rewrite (csr_mul_comm _ _ _ _ SR). apply (csr_mul_1_l _ _ _ _ SR). Qed.

  Section StepValue.
    Variables (s : store) (cur c : id) (nd : node) (t : sarr) (r : nat) (dm : dmode) (tbv : nat).
    Hypothesis P : step_pre s cur c nd t r.
    Hypothesis G : good s.

    Local Notation s3 := (step_result s cur c nd t r dm tbv).
    Local Notation qa := (next_atom s).
    Local Notation b := (next_wire s).
    Local Notation Q := (q_of s t r).
    Local Notation Rt := (r_of s t r).

    Let W : wf s := proj1 G.
    Let Et : aget cur (tensors s) = Some t := sp_tensor _ _ _ _ _ _ P.

    Lemma sv_c_absent_t : aget c (tensors s) = None.
    Proof.
      destruct (aget c (tensors s)) as [tc|] eqn:E; [|reflexivity].
      assert (H : amem c (nodes s) = true) by (apply (wf_tn s W); apply amem_aget; eauto).
      apply amem_aget in H. destruct H as [v Hv]. pose proof (sp_fresh _ _ _ _ _ _ P). congruence.
    Qed.

    Lemma sv_tensors : tensors s3 = aset c Rt (aset cur Q (tensors s)).
    Proof. reflexivity. Qed.

    Lemma sv_atab : atab s3 = (atab s ++ [(qa, axes Q)]) ++ [(S qa, axes Rt)].
    Proof. reflexivity. Qed.

    Lemma sv_atab_fresh a : qa <= a -> aget a (atab s) = None.
    Proof. intros Ha. apply aget_None. intros Hin. pose proof (proj2 (proj2 G) a Hin). lia. Qed.

    Lemma sv_aw_old a : a < qa -> atom_wires s3 a = atom_wires s a.
    Proof. intros Ha. unfold atom_wires. rewrite sv_atab, !aget_snoc_other by lia. reflexivity. Qed.

    Lemma sv_aw_q : atom_wires s3 qa = axes Q.
    Proof.
      unfold atom_wires. rewrite sv_atab, aget_snoc_other by lia. rewrite InvProofs.aget_app, (sv_atab_fresh qa) by lia.
      cbn [aget]. rewrite Nat.eqb_refl. reflexivity.
    Qed.

    Lemma sv_aw_r : atom_wires s3 (S qa) = axes Rt.
    Proof.
      unfold atom_wires. rewrite sv_atab, InvProofs.aget_app, InvProofs.aget_app, (sv_atab_fresh (S qa)) by lia.
      cbn [aget]. destruct (Nat.eqb_spec (S qa) qa) as [E|_]; [lia|]. rewrite Nat.eqb_refl. reflexivity.
    Qed.

    Lemma sv_wle : wle s s3.
    Proof.
      repeat split.
      - intros a Ha. apply sv_aw_old. exact Ha.
      - intros w Hw. apply (factored_wdim_old s t r dm tbv w W Hw).
      - cbn. lia.
      - cbn. lia.
    Qed.

    Lemma sv_axes_lt x : In x (axes t) -> x < b.
    Proof. intros Hx. apply (wf_wires s W cur t x Et Hx). Qed.

    Lemma sv_simple : simple s3.
    Proof.
      pose proof G as [_ [S1 S2]]. pose proof (step_c_ne _ _ _ _ _ _ P) as Hne. split.
      - intros k tk E. rewrite sv_tensors, !aget_aset in E. change (next_atom s3) with (S (S qa)). change (next_wire s3) with (S b).
        destruct (Nat.eqb k c).
        + injection E as <-. split; [reflexivity|]. exists (S qa). split; [reflexivity|]. split; [lia|].
          intros x Hx. rewrite sv_aw_r in Hx. cbn [axes r_of] in Hx. destruct Hx as [<-|Hx]; [lia|].
          apply skipn_In || idtac. assert (In x (axes t)) by (rewrite <- (firstn_skipn (length (axes t) - r) (axes t)); apply in_or_app; right; exact Hx).
          pose proof (sv_axes_lt x H). lia.
        + destruct (Nat.eqb k cur).
          * injection E as <-. split; [reflexivity|]. exists qa. split; [reflexivity|]. split; [lia|].
            intros x Hx. rewrite sv_aw_q in Hx. cbn [axes q_of] in Hx. apply in_app_or in Hx. destruct Hx as [Hx|[<-|[]]]; [|lia].
            assert (In x (axes t)) by (rewrite <- (firstn_skipn (length (axes t) - r) (axes t)); apply in_or_app; left; exact Hx).
            pose proof (sv_axes_lt x H). lia.
          * destruct (S1 k tk E) as (B & a & A1 & A2 & A3). split; [exact B|]. exists a. split; [exact A1|]. split; [lia|].
            intros x Hx. rewrite (sv_aw_old a A2) in Hx. pose proof (A3 x Hx). lia.
      - intros a Ha. rewrite sv_atab, !akeys_app in Ha. change (next_atom s3) with (S (S qa)). cbn [akeys map fst] in Ha.
        apply in_app_or in Ha. destruct Ha as [Ha|[<-|[]]]; [|lia].
        apply in_app_or in Ha. destruct Ha as [Ha|[<-|[]]]; [|lia]. pose proof (S2 a Ha). lia.
    Qed.

    Lemma sv_good : good s3.
    Proof. split; [apply (step_wf _ _ _ _ _ _ dm tbv P)|apply sv_simple]. Qed.

    (* the atom of the factorised tensor *)
    Lemma sv_atom : bnd t = [] /\ exists a, atoms t = [a] /\ a < qa.
    Proof. pose proof G as [_ [S1 _]]. destruct (S1 cur t Et) as (B & a & A1 & A2 & _). eauto. Qed.

    Local Notation restA := (flat_map (fun kt : id * sarr => atoms (snd kt)) (adel cur (tensors s))).

    Lemma sv_rest a : In a restA -> a < qa /\ forall x, In x (atom_wires s a) -> x < b.
    Proof.
      intros Hin. apply in_flat_map in Hin. destruct Hin as ([k tk] & Hk & Ha). cbn [snd] in Ha.
      apply In_adel in Hk. apply (In_aget _ _ _ (wf_tnd s W)) in Hk.
      pose proof G as [_ [S1 _]]. destruct (S1 k tk Hk) as (_ & a' & A1 & A2 & A3). rewrite A1 in Ha.
      destruct Ha as [<-|[]]. auto.
    Qed.

    Theorem step_net_value sF :
      wle s3 sF -> def_holds sF tbl (def_of s t dm) ->
      forall rho, net_value s3 tbl rho = net_value s tbl rho.
    Proof.
      intros (F1 & F2 & F3 & F4) HD rho.
      destruct sv_atom as (Bt & a & At & Alt).
      pose proof (step_wf _ _ _ _ _ _ dm tbv P) as W3.
      pose proof (step_c_ne _ _ _ _ _ _ P) as Hne.
      (* totals *)
      destruct (flat_map_step (fun kt : id * sarr => atoms (snd kt)) (tensors s) cur c Q Rt t Et sv_c_absent_t Hne) as [PA3 PA].
      destruct (flat_map_step (fun kt : id * sarr => sarr_ends (snd kt)) (tensors s) cur c Q Rt t Et sv_c_absent_t Hne) as [PE3 PE].
      cbn [snd] in PA3, PA, PE3, PE. rewrite At in PA. cbn [atoms q_of r_of] in PA3.
      assert (PEE : Permutation (total_ends s3 ++ [] ++ []) (total_ends s ++ [b] ++ [b])).
      { unfold total_ends. rewrite sv_tensors, PE3, PE. unfold sarr_ends. rewrite Bt. cbn [axes bnd q_of r_of app].
        rewrite !app_nil_r.
        set (F := firstn (length (axes t) - r) (axes t)). set (Sk := skipn (length (axes t) - r) (axes t)).
        assert (FS : axes t = F ++ Sk) by (symmetry; apply firstn_skipn). rewrite FS.
        apply (Permutation_count_occ Nat.eq_dec). intros z. rewrite !count_occ_app. cbn [count_occ]. rewrite !count_occ_app. cbn [count_occ].
        destruct (Nat.eq_dec b z); unfold wire in *; lia. }
      destruct (ends_determine_bnd s s3 [] [b] W W3 PEE) as [_ PB]. rewrite app_nil_r in PB.
      (* normal forms *)
      unfold InvSem.net_value, value_s.
      rewrite (value_perm_gen R zero one add mul SR (atom_wires s3) (wdim s3) tbl (net_diagram s3)
                 {| axes := []; atoms := [qa; S qa] ++ restA; bnd := net_bnd s ++ [b] |} rho PA3 PB).
      rewrite (value_perm_gen R zero one add mul SR (atom_wires s) (wdim s) tbl (net_diagram s)
                 {| axes := []; atoms := [a] ++ restA; bnd := net_bnd s ++ [] |} rho PA (eq_ind_r (fun l => Permutation (net_bnd s) l) (Permutation_refl _) (app_nil_r _))).
      unfold value. cbn [atoms bnd].
      assert (Av3 : atoms_avoid (atom_wires s3) restA [b]).
      { intros a' Hin x Hx [<-|[]]. destruct (sv_rest a' Hin) as [L1 L2]. rewrite (sv_aw_old a' L1) in Hx. pose proof (L2 b Hx). lia. }
      assert (Av : atoms_avoid (atom_wires s) restA []) by (intros a' _ x _ []).
      rewrite (sum_factor R zero one add mul SR tbl (atom_wires s3) (wdim s3) _ _ _ _ rho Av3).
      rewrite (sum_factor R zero one add mul SR tbl (atom_wires s) (wdim s) _ _ _ _ rho Av).
      apply sum_bnd_world.
      - intros w Hw. apply (factored_wdim_old s t r dm tbv w W).
        unfold net_bnd in Hw. rewrite (total_bnd_nil s W (proj2 G)) in Hw. cbn [app] in Hw.
        assert (Hown : In w (own_wires s)) by (rewrite own_wires_split; apply in_or_app; left; exact Hw).
        unfold own_wires in Hown. apply in_flat_map in Hown. destruct Hown as ([k nk] & Hk & Hwk).
        apply (wf_own_bound s k nk w W (In_aget _ _ _ (wf_nd s W) Hk) Hwk).
      - intros rr. f_equal.
        + (* Q . R over the bond = the factorised tensor *)
          cbn [sum_bnd atoms_val prod_over].
          specialize (HD rr). unfold InvSem.def_holds in HD. cbn [kq kr kbond kinput def_of] in HD.
          unfold value_s, value in HD. rewrite Bt, At in HD. cbn [sum_bnd atoms_val prod_over] in HD.
          rewrite (F2 b) in HD by (cbn; lia).
          etransitivity; [|etransitivity; [exact HD|]].
          * apply (sum_upto_ext R zero add). intros k _. rewrite sr_mul_1_r'.
            unfold atom_val. rewrite (F1 qa), (F1 (S qa)) by (cbn; lia). reflexivity.
          * unfold atom_val. rewrite (F1 a) by (cbn; lia). rewrite (sv_aw_old a Alt). reflexivity.
        + apply atoms_val_world. intros a' Hin. apply sv_aw_old. apply (sv_rest a' Hin).
    Qed.
  End StepValue.

  Lemma vrel_step dm tbf s cur c nd t r : step_pre s cur c nd t r ->
    vrel s (step_result s cur c nd t r dm (tbf c)).
  Proof.
    intros P G. split; [apply (sv_good s cur c nd t r dm (tbf c) P G)|].
    split; [apply (sv_wle s cur c nd t r dm (tbf c) G)|].
    exists [def_of s t dm]. split; [reflexivity|].
    intros sF LF HD rho. apply (step_net_value s cur c nd t r dm (tbf c) P G sF LF).
    apply HD. left. reflexivity.
  Qed.
End Value.

(* ---- from_tensor: the whole statement --------------------------------------------------------------------- *)
Lemma init_simple r shape p : simple (init_store r shape p).
Proof.
  split.
  - intros k t E. cbn [tensors init_store aget] in E. destruct (Nat.eqb k r); [|discriminate]. injection E as <-.
    split; [reflexivity|]. exists 0. split; [reflexivity|]. split; [cbn; lia|].
    intros x Hx. cbn in Hx. apply in_seq in Hx. cbn. lia.
  - intros a [<-|[]]. cbn. lia.
Qed.

Lemma open_wires_by_keys s (f : id -> list wire) :
  wf s -> (forall k nk, aget k (nodes s) = Some nk -> open_of nk (tens s k) = f k) ->
  open_wires s = flat_map f (akeys (nodes s)).
Proof.
  intros W H. unfold open_wires, akeys. rewrite flat_map_concat_map, flat_map_concat_map, map_map. f_equal.
  apply map_ext_in. intros [k nk] Hin. unfold node_open. cbn [fst snd]. apply H.
  apply (In_aget _ _ _ (wf_nd s W) Hin).
Qed.

Theorem from_tensor_correct (R : Type) (zero one : R) (add mul : R -> R -> R) (tbl : nat -> list nat -> R)
    dm tb t lg shape :
  comm_semiring zero one add mul ->
  NoDup (ids t) -> length shape = 2 * size t -> Permutation (map lg (ids t)) (seq 0 (size t)) ->
  exists s', from_tensor t lg shape dm tb = Some s' /\ wfb s' = true
    /\ akeys (nodes s') = ids t /\ root s' = Some (rid t)
    /\ (forall k, In k (ids t) ->
        exists nk, aget k (nodes s') = Some nk /\ parent nk = parent_of k t /\ children nk = children_ids t k
                   /\ open_of nk (tens s' k) = [lg k; size t + lg k] /\ perm nk = seq 0 (nlegs nk))
    /\ open_wires s' = flat_map (fun k => [lg k; size t + lg k]) (ids t)
    /\ ((forall d, In d (defs s') -> def_holds zero one add mul s' tbl d) ->
        forall rho, net_value zero one add mul s' tbl rho = tbl 0 (map rho (seq 0 (length shape)))).
Proof.
  intros SR ND Hlen Hlg.
  destruct (from_tensor_post dm tb t lg shape ND Hlen Hlg (vrel R zero one add mul tbl)) as (s' & E & [W K Rt F B L]).
  - apply vrel_refl.
  - apply vrel_trans.
  - intros s n s1 nd t1. apply (vrel_access R zero one add mul SR tbl).
  - intros s cur c nd t1 r. apply (vrel_step R zero one add mul SR tbl dm tb).
  - set (s0 := init_store (rid t) shape (ft_perm lg (size t) t)) in *.
    assert (Hstruct : forall k, In k (ids t) ->
        exists nk, aget k (nodes s') = Some nk /\ parent nk = parent_of k t /\ children nk = children_ids t k
                   /\ open_of nk (tens s' k) = [lg k; size t + lg k] /\ perm nk = seq 0 (nlegs nk)).
    { intros k Hk. destruct (built_lookup _ _ _ _ B ND k Hk) as (nk & E1 & E2 & E3 & E4 & E5). exists nk.
      split; [exact E1|]. split; [|auto]. rewrite E2. destruct (Nat.eqb_spec k (rid t)) as [->|_]; [|reflexivity].
      symmetry. apply parent_of_root. exact ND. }
    assert (Hkeys : akeys (nodes s') = ids t).
    { rewrite K. unfold s0. cbn [nodes init_store akeys map fst app]. destruct t as [i cs]. reflexivity. }
    exists s'. split; [exact E|]. split; [apply wf_wfb; exact W|]. split; [exact Hkeys|].
    split; [rewrite Rt; reflexivity|]. split; [exact Hstruct|]. split.
    + rewrite (open_wires_by_keys s' (fun k => [lg k; size t + lg k]) W); [rewrite Hkeys; reflexivity|].
      intros k nk Ek. assert (Hk : In k (ids t)) by (rewrite <- Hkeys; apply (aget_Some_keys _ _ _ Ek)).
      destruct (Hstruct k Hk) as (nk' & E1 & _ & _ & E4 & _). congruence.
    + assert (G0 : good s0).
      { split; [|apply init_simple]. apply init_wf. rewrite Hlen. apply (ft_perm_is_permutation lg (size t) t Hlg). }
      destruct (L G0) as (G' & L' & ds & Eds & V).
      intros HD rho. rewrite (V s' (wle_refl s')).
      * unfold InvSem.net_value, value_s, value, net_diagram, net_bnd, total_bnd, edge_wires, node_edge, total_atoms, s0.
        cbn [nodes tensors init_store flat_map snd fst bnd atoms app nparents parent new_node firstn sum_bnd atoms_val prod_over].
        unfold atom_val, atom_wires. cbn [atab init_store aget Nat.eqb].
        rewrite (csr_mul_comm _ _ _ _ SR). apply (csr_mul_1_l _ _ _ _ SR).
      * intros d Hd. apply HD. rewrite Eds. unfold s0. cbn [defs init_store app]. exact Hd.
Qed.

(* one step, with the contract stated in the world of the store it produces *)
Theorem step_value (R : Type) (zero one : R) (add mul : R -> R -> R) (tbl : nat -> list nat -> R)
    s cur c nd t r dm tbv :
  comm_semiring zero one add mul -> step_pre s cur c nd t r -> simple s ->
  def_holds zero one add mul (step_result s cur c nd t r dm tbv) tbl (def_of s t dm) ->
  simple (step_result s cur c nd t r dm tbv) /\
  forall rho, net_value zero one add mul (step_result s cur c nd t r dm tbv) tbl rho = net_value zero one add mul s tbl rho.
Proof.
  intros SR P S HD. assert (G : good s) by (split; [apply (sp_wf _ _ _ _ _ _ P)|exact S]).
  split; [apply (sv_simple s cur c nd t r dm tbv P G)|].
  apply (step_net_value R zero one add mul SR tbl s cur c nd t r dm tbv P G _ (wle_refl _) HD).
Qed.

(* the same under the decidable form of the hypotheses *)
Theorem from_tensor_correct_checked (R : Type) (zero one : R) (add mul : R -> R -> R) (tbl : nat -> list nat -> R)
    dm tb t lg shape :
  comm_semiring zero one add mul -> ft_hyp t lg shape = true ->
  exists s', from_tensor t lg shape dm tb = Some s' /\ wfb s' = true
    /\ akeys (nodes s') = ids t /\ root s' = Some (rid t)
    /\ (forall k, In k (ids t) ->
        exists nk, aget k (nodes s') = Some nk /\ parent nk = parent_of k t /\ children nk = children_ids t k
                   /\ open_of nk (tens s' k) = [lg k; size t + lg k] /\ perm nk = seq 0 (nlegs nk))
    /\ open_wires s' = flat_map (fun k => [lg k; size t + lg k]) (ids t)
    /\ ((forall d, In d (defs s') -> def_holds zero one add mul s' tbl d) ->
        forall rho, net_value zero one add mul s' tbl rho = tbl 0 (map rho (seq 0 (length shape)))).
Proof.
  intros SR H. destruct (ft_hyp_sound t lg shape H) as (H1 & H2 & H3).
  apply from_tensor_correct; assumption.
Qed.
