(* Proofs about the index / shape model of Index/Flat.v (property C11).
   Part 1: row-major flatten / unflatten are inverse bijections between the index box and [0, size).
   Part 2: leg lists, np.transpose index map (scatter / gather), matricisation entry formula.
   Part 3: shapes of tensor_qr / tensor_svd / truncated SVD per mode.
   Part 4 (Section RingProofs): values in an arbitrary commutative ring; np.linalg.qr / svd are Section
           variables with contracts; KEEP zero padding, reconstruction, isometries, contraction modes. *)
From Coq Require Import List Arith Bool Lia Permutation Ring ZArith.
From PTN Require Import Index.Flat.
Import ListNotations.

(* ---- size ---- *)
Lemma size_app : forall s1 s2, size (s1 ++ s2) = size s1 * size s2.
Proof. unfold size. induction s1; intros; simpl; [lia|]. rewrite IHs1. lia. Qed.

Lemma size_cons : forall d s, size (d :: s) = d * size s.
Proof. reflexivity. Qed.

Lemma in_box_length : forall s idx, in_box s idx = true -> length idx = length s.
Proof. induction s; destruct idx; cbn; intros; try discriminate; auto.
  apply andb_true_iff in H. destruct H. f_equal; auto. Qed.

Lemma in_box_cons : forall d s i idx, in_box (d :: s) (i :: idx) = true <-> i < d /\ in_box s idx = true.
Proof. intros. cbn [in_box]. rewrite andb_true_iff, Nat.ltb_lt. tauto. Qed.

Lemma flatten_lt : forall s idx, in_box s idx = true -> flatten s idx < size s.
Proof.
  induction s; destruct idx; intros H; try discriminate.
  - cbn. lia.
  - apply in_box_cons in H. destruct H as [Hi H]. apply IHs in H.
    cbn [flatten]. rewrite size_cons. nia.
Qed.

Lemma unflatten_flatten : forall s idx, in_box s idx = true -> unflatten s (flatten s idx) = idx.
Proof.
  induction s; destruct idx; intros H; try discriminate; auto.
  apply in_box_cons in H. destruct H as [Hi H].
  pose proof (flatten_lt _ _ H) as Hlt.
  cbn [flatten unflatten].
  assert (Hp : size s <> 0) by lia.
  rewrite Nat.div_add_l by exact Hp. rewrite (Nat.div_small _ _ Hlt).
  rewrite (Nat.add_comm (n * size s)), Nat.mod_add by exact Hp. rewrite (Nat.mod_small _ _ Hlt).
  rewrite IHs by exact H. f_equal. lia.
Qed.

Lemma unflatten_in_box : forall s f, f < size s -> in_box s (unflatten s f) = true.
Proof.
  induction s; intros f H; [reflexivity|].
  rewrite size_cons in H. cbn [unflatten]. apply in_box_cons.
  assert (Hp : size s <> 0) by (intro E; rewrite E in H; lia).
  split.
  - apply Nat.div_lt_upper_bound; [exact Hp | lia].
  - apply IHs. apply Nat.mod_upper_bound. exact Hp.
Qed.

Lemma flatten_unflatten : forall s f, f < size s -> flatten s (unflatten s f) = f.
Proof.
  induction s; intros f H.
  - cbn in *. lia.
  - rewrite size_cons in H. cbn [unflatten flatten].
    assert (Hp : size s <> 0) by (intro E; rewrite E in H; lia).
    rewrite IHs by (apply Nat.mod_upper_bound; exact Hp).
    pose proof (Nat.div_mod f (size s) Hp). lia.
Qed.

Lemma unflatten_length : forall s f, length (unflatten s f) = length s.
Proof. induction s; intros; cbn; auto. Qed.

Lemma flatten_inj : forall s i j, in_box s i = true -> in_box s j = true -> flatten s i = flatten s j -> i = j.
Proof. intros. rewrite <- (unflatten_flatten s i), <- (unflatten_flatten s j) by assumption. congruence. Qed.

(* ---- app ---- *)
Lemma in_box_app : forall s1 s2 i1 i2, length i1 = length s1 ->
  in_box (s1 ++ s2) (i1 ++ i2) = in_box s1 i1 && in_box s2 i2.
Proof.
  induction s1; destruct i1; cbn [app in_box length]; intros; try discriminate; auto.
  rewrite IHs1 by lia. now rewrite andb_assoc.
Qed.

Lemma flatten_app : forall s1 s2 i1 i2, length i1 = length s1 ->
  flatten (s1 ++ s2) (i1 ++ i2) = flatten s1 i1 * size s2 + flatten s2 i2.
Proof.
  induction s1; destruct i1; cbn [app flatten length]; intros; try discriminate; auto.
  rewrite IHs1 by lia. rewrite size_app. lia.
Qed.

Lemma unflatten_app : forall s1 s2 a b, a < size s1 -> b < size s2 ->
  unflatten (s1 ++ s2) (a * size s2 + b) = unflatten s1 a ++ unflatten s2 b.
Proof.
  intros.
  assert (E : a * size s2 + b = flatten (s1 ++ s2) (unflatten s1 a ++ unflatten s2 b)).
  { rewrite flatten_app by apply unflatten_length. now rewrite !flatten_unflatten. }
  rewrite E. apply unflatten_flatten. rewrite in_box_app by apply unflatten_length.
  now rewrite !unflatten_in_box.
Qed.

Lemma in_box_split : forall s1 s2 idx, in_box (s1 ++ s2) idx = true ->
  idx = firstn (length s1) idx ++ skipn (length s1) idx /\
  in_box s1 (firstn (length s1) idx) = true /\ in_box s2 (skipn (length s1) idx) = true.
Proof.
  intros. split; [now rewrite firstn_skipn|].
  pose proof (in_box_length _ _ H) as L. rewrite app_length in L.
  rewrite <- (firstn_skipn (length s1) idx) in H.
  rewrite in_box_app in H by (rewrite firstn_length; lia).
  now apply andb_true_iff in H.
Qed.

(* ---- box enumeration ---- *)
Lemma map_add_seq : forall c n z, map (fun x => c + x) (seq z n) = seq (c + z) n.
Proof. induction n; intros; cbn; auto. rewrite IHn. f_equal. f_equal. lia. Qed.

Lemma box_flat : forall s, map (flatten s) (box s) = seq 0 (size s).
Proof.
  induction s; [reflexivity|].
  cbn [box]. rewrite size_cons.
  assert (G : forall d k, map (flatten (a :: s)) (flat_map (fun i => map (cons i) (box s)) (seq k d)) = seq (k * size s) (d * size s)).
  { induction d; intros k; [reflexivity|].
    cbn [seq flat_map]. rewrite map_app, IHd, map_map. cbn [flatten].
    replace (S d * size s) with (size s + d * size s) by lia. rewrite seq_app. f_equal.
    - rewrite <- (map_map (flatten s) (fun x => k * size s + x)), IHs, map_add_seq. f_equal. lia.
    - f_equal. lia. }
  apply (G a 0).
Qed.

Lemma box_in_box : forall s idx, In idx (box s) <-> in_box s idx = true.
Proof.
  induction s; intros idx.
  - cbn. destruct idx; split; intros; auto; try discriminate. destruct H; [discriminate | contradiction].
  - cbn [box]. rewrite in_flat_map. split.
    + intros (i & Hi & H). apply in_map_iff in H. destruct H as (t & <- & Ht).
      apply in_box_cons. apply in_seq in Hi. split; [lia|]. now apply IHs.
    + destruct idx as [|i t]; [discriminate|]. intros H. apply in_box_cons in H. destruct H.
      exists i. split; [apply in_seq; lia|]. apply in_map. now apply IHs.
Qed.

Lemma box_length : forall s, length (box s) = size s.
Proof. intros. rewrite <- (map_length (flatten s)), box_flat. apply seq_length. Qed.

Lemma box_unflatten : forall s, box s = map (unflatten s) (seq 0 (size s)).
Proof.
  intros. rewrite <- box_flat, map_map. rewrite <- (map_id (box s)) at 1.
  apply map_ext_in. intros idx H. symmetry. apply unflatten_flatten. now apply box_in_box.
Qed.
(* ---- legs ---- *)
Lemma existsb_eqb_In : forall a l, existsb (Nat.eqb a) l = true <-> In a l.
Proof.
  intros. rewrite existsb_exists. split.
  - intros (x & Hx & E). apply Nat.eqb_eq in E. now subst.
  - intros. exists a. split; auto. apply Nat.eqb_refl.
Qed.

Lemma nodupb_NoDup : forall l, nodupb l = true <-> NoDup l.
Proof.
  induction l; cbn [nodupb].
  - split; auto. constructor.
  - rewrite andb_true_iff, negb_true_iff, IHl. split.
    + intros [H1 H2]. constructor; auto. intro Hin. apply existsb_eqb_In in Hin. congruence.
    + intros H. inversion H; subst. split; auto.
      destruct (existsb (Nat.eqb a) l) eqn:E; auto. apply existsb_eqb_In in E. contradiction.
Qed.

Lemma legs_ok_spec : forall n legs, legs_ok n legs = true <->
  length legs = n /\ (forall a, In a legs -> a < n) /\ NoDup legs.
Proof.
  intros. unfold legs_ok. rewrite !andb_true_iff, Nat.eqb_eq, forallb_forall, nodupb_NoDup.
  split; intros [[H1 H2] H3] || intros [H1 [H2 H3]]; repeat split; auto; intros a Ha.
  - apply Nat.ltb_lt; auto.
  - apply Nat.ltb_lt; auto.
Qed.

Lemma legs_ok_surj : forall n legs, legs_ok n legs = true -> forall a, a < n -> In a legs.
Proof.
  intros n legs H a Ha. apply legs_ok_spec in H. destruct H as (L & Hr & Hn).
  assert (I : incl (seq 0 n) legs).
  { apply NoDup_length_incl; auto.
    - rewrite seq_length. lia.
    - intros x Hx. apply in_seq. specialize (Hr x Hx). lia. }
  apply I. apply in_seq. lia.
Qed.

Lemma legs_ok_perm : forall n legs, legs_ok n legs = true <-> Permutation legs (seq 0 n).
Proof.
  intros. split.
  - intros H. pose proof (legs_ok_surj _ _ H) as S. apply legs_ok_spec in H. destruct H as (L & Hr & Hn).
    apply NoDup_Permutation; auto. apply seq_NoDup.
    intros x. rewrite in_seq. split; intros.
    + specialize (Hr x H). lia.
    + apply S. lia.
  - intros P. apply legs_ok_spec. repeat split.
    + rewrite (Permutation_length P). apply seq_length.
    + intros a Ha. apply (Permutation_in _ P) in Ha. apply in_seq in Ha. lia.
    + apply (Permutation_NoDup (Permutation_sym P)). apply seq_NoDup.
Qed.

Lemma index_of_In : forall a l, In a l -> index_of a l < length l /\ nth (index_of a l) l 0 = a.
Proof.
  induction l; intros H; [contradiction|].
  cbn [index_of]. destruct (a =? a0) eqn:E.
  - apply Nat.eqb_eq in E. subst. cbn. split; auto. lia.
  - destruct H as [H|H]; [subst; rewrite Nat.eqb_refl in E; discriminate|].
    destruct (IHl H). cbn [length nth]. split; auto. lia.
Qed.

Lemma index_of_nth : forall l j, NoDup l -> j < length l -> index_of (nth j l 0) l = j.
Proof.
  induction l; intros j Hn Hj; [cbn in Hj; lia|].
  inversion Hn; subst. destruct j; cbn [nth index_of].
  - now rewrite Nat.eqb_refl.
  - cbn [length] in Hj. destruct (nth j l 0 =? a) eqn:E.
    + apply Nat.eqb_eq in E. exfalso. apply H1. rewrite <- E. apply nth_In. lia.
    + f_equal. apply IHl; auto. lia.
Qed.

Lemma nth_map0 : forall (f : nat -> nat) l j, j < length l -> nth j (map f l) 0 = f (nth j l 0).
Proof. intros. rewrite (nth_indep _ 0 (f 0)) by (rewrite map_length; lia). apply map_nth. Qed.

Lemma dims_length : forall s legs, length (dims s legs) = length legs.
Proof. intros. apply map_length. Qed.

Lemma dims_nth : forall s legs j, j < length legs -> nth j (dims s legs) 0 = nth (nth j legs 0) s 0.
Proof. intros. unfold dims. now rewrite nth_map0. Qed.

Lemma dims_app : forall s l1 l2, dims s (l1 ++ l2) = dims s l1 ++ dims s l2.
Proof. intros. apply map_app. Qed.

Lemma dims_seq : forall s, dims s (seq 0 (length s)) = s.
Proof.
  intros. apply (nth_ext _ _ 0 0).
  - now rewrite dims_length, seq_length.
  - intros j Hj. rewrite dims_length, seq_length in Hj. rewrite dims_nth by (rewrite seq_length; lia).
    now rewrite seq_nth by lia.
Qed.

Lemma size_perm : forall l l', Permutation l l' -> size l = size l'.
Proof. induction 1; rewrite ?size_cons in *; try lia. Qed.

Lemma size_dims_perm : forall s perm, legs_ok (length s) perm = true -> size (dims s perm) = size s.
Proof.
  intros. apply legs_ok_perm in H. rewrite <- (dims_seq s) at 2.
  apply size_perm. unfold dims. now apply Permutation_map.
Qed.

Lemma scatter_length : forall perm idx, length (scatter perm idx) = length perm.
Proof. intros. unfold scatter. now rewrite map_length, seq_length. Qed.

Lemma scatter_nth : forall perm idx a, a < length perm ->
  nth a (scatter perm idx) 0 = nth (index_of a perm) idx 0.
Proof. intros. unfold scatter. rewrite nth_map0 by (rewrite seq_length; lia). now rewrite seq_nth by lia. Qed.

Lemma gather_length : forall perm orig, length (gather perm orig) = length perm.
Proof. intros. apply map_length. Qed.

(* original axis perm[j] is addressed by component j of the transposed index *)
Lemma scatter_spec : forall n perm idx j, legs_ok n perm = true -> j < n ->
  nth (nth j perm 0) (scatter perm idx) 0 = nth j idx 0.
Proof.
  intros n perm idx j H Hj. apply legs_ok_spec in H. destruct H as (L & Hr & Hn).
  rewrite scatter_nth.
  - rewrite index_of_nth; auto; lia.
  - rewrite L. apply Hr. apply nth_In. lia.
Qed.

Lemma gather_scatter : forall n perm idx, legs_ok n perm = true -> length idx = n ->
  gather perm (scatter perm idx) = idx.
Proof.
  intros n perm idx H Li. pose proof H as H'. apply legs_ok_spec in H'. destruct H' as (L & Hr & Hn).
  apply (nth_ext _ _ 0 0).
  - rewrite gather_length. lia.
  - intros j Hj. rewrite gather_length in Hj. unfold gather. rewrite nth_map0 by lia.
    apply (scatter_spec n); auto. lia.
Qed.

Lemma scatter_gather : forall n perm orig, legs_ok n perm = true -> length orig = n ->
  scatter perm (gather perm orig) = orig.
Proof.
  intros n perm orig H Lo. pose proof (legs_ok_surj _ _ H) as S.
  pose proof H as H'. apply legs_ok_spec in H'. destruct H' as (L & Hr & Hn).
  apply (nth_ext _ _ 0 0).
  - rewrite scatter_length. lia.
  - intros a Ha. rewrite scatter_length in Ha. rewrite scatter_nth by lia.
    destruct (index_of_In a perm) as [I1 I2]; [apply S; lia|].
    unfold gather. rewrite nth_map0 by lia. now rewrite I2.
Qed.

Lemma in_box_nth : forall s idx, in_box s idx = true <->
  length idx = length s /\ forall j, j < length s -> nth j idx 0 < nth j s 0.
Proof.
  induction s; destruct idx; cbn [length].
  - split; auto. intros. split; auto. intros; lia.
  - split; [discriminate | intros [H _]; discriminate].
  - split; [discriminate | intros [H _]; discriminate].
  - rewrite in_box_cons, IHs. split.
    + intros (H1 & H2 & H3). split; [lia|]. intros [|j] Hj; cbn [nth]; auto. apply H3. lia.
    + intros (H1 & H2). split; [apply (H2 0); lia|]. split; [lia|]. intros j Hj. apply (H2 (S j)). lia.
Qed.

Lemma scatter_in_box : forall s perm idx, legs_ok (length s) perm = true ->
  in_box (dims s perm) idx = true -> in_box s (scatter perm idx) = true.
Proof.
  intros s perm idx H B. pose proof (legs_ok_surj _ _ H) as S.
  pose proof H as H'. apply legs_ok_spec in H'. destruct H' as (L & Hr & Hn).
  apply in_box_nth in B. destruct B as [B1 B2]. rewrite dims_length in *.
  apply in_box_nth. rewrite scatter_length. split; [lia|].
  intros a Ha. rewrite scatter_nth by lia.
  destruct (index_of_In a perm) as [I1 I2]; [apply S; lia|].
  specialize (B2 _ I1). rewrite dims_nth in B2 by lia. now rewrite I2 in B2.
Qed.

Lemma gather_in_box : forall s perm orig, legs_ok (length s) perm = true ->
  in_box s orig = true -> in_box (dims s perm) (gather perm orig) = true.
Proof.
  intros s perm orig H B. apply legs_ok_spec in H. destruct H as (L & Hr & Hn).
  apply in_box_nth in B. destruct B as [B1 B2].
  apply in_box_nth. rewrite gather_length, dims_length. split; auto.
  intros j Hj. rewrite dims_nth by lia. unfold gather. rewrite nth_map0 by lia.
  apply B2. apply Hr. apply nth_In. lia.
Qed.

(* ---- matricisation ---- *)
Lemma firstn_dims : forall s l1 l2, firstn (length l1) (dims s (l1 ++ l2)) = dims s l1.
Proof. intros. rewrite dims_app. rewrite <- (dims_length s l1) at 1. rewrite firstn_app, Nat.sub_diag, firstn_all. cbn. apply app_nil_r. Qed.

Lemma skipn_dims : forall s l1 l2, skipn (length l1) (dims s (l1 ++ l2)) = dims s l2.
Proof. intros. rewrite dims_app. rewrite <- (dims_length s l1) at 1. rewrite skipn_app, Nat.sub_diag, skipn_all. reflexivity. Qed.

Lemma flatten_pair : forall m n r c, flatten [m; n] [r; c] = r * n + c.
Proof. intros. cbn. lia. Qed.

Lemma matricize_some : forall A (t : tensor A) ql rl,
  legs_ok (length (tshape t)) (ql ++ rl) = true ->
  matricize t ql rl =
  Some (reshape (transpose t (ql ++ rl)) [size (dims (tshape t) ql); size (dims (tshape t) rl)]).
Proof.
  intros. unfold matricize, transpose_by_leg_list. rewrite H.
  cbn [tshape transpose]. now rewrite firstn_dims, skipn_dims.
Qed.

Lemma matricize_none : forall A (t : tensor A) ql rl,
  legs_ok (length (tshape t)) (ql ++ rl) = false -> matricize t ql rl = None.
Proof. intros. unfold matricize, transpose_by_leg_list. now rewrite H. Qed.

Lemma matricize_entry : forall A (t : tensor A) ql rl,
  legs_ok (length (tshape t)) (ql ++ rl) = true ->
  exists M, matricize t ql rl = Some M /\
    tshape M = [size (dims (tshape t) ql); size (dims (tshape t) rl)] /\
    size (dims (tshape t) ql) * size (dims (tshape t) rl) = size (tshape t) /\
    forall r c, r < size (dims (tshape t) ql) -> c < size (dims (tshape t) rl) ->
      tent M [r; c] =
      tent t (scatter (ql ++ rl) (unflatten (dims (tshape t) ql) r ++ unflatten (dims (tshape t) rl) c)).
Proof.
  intros. eexists. split; [apply matricize_some; auto|]. split; [reflexivity|]. split.
  - rewrite <- size_app, <- dims_app. now apply size_dims_perm.
  - intros r c Hr Hc. cbn [reshape transpose tent tshape]. rewrite flatten_pair, dims_app.
    now rewrite unflatten_app.
Qed.

Lemma transpose_entry : forall A (t : tensor A) fl ll,
  legs_ok (length (tshape t)) (fl ++ ll) = true ->
  exists T, transpose_by_leg_list t fl ll = Some T /\
    tshape T = dims (tshape t) fl ++ dims (tshape t) ll /\
    forall idx, tent T idx = tent t (scatter (fl ++ ll) idx).
Proof.
  intros. unfold transpose_by_leg_list. rewrite H. eexists. split; [reflexivity|].
  split; [apply dims_app | reflexivity].
Qed.
(* ---- shapes ---- *)
Lemma last_snoc : forall (l : list nat) a d, last (l ++ [a]) d = a.
Proof. intros. apply last_last. Qed.

Lemma removelast_snoc : forall (l : list nat) a, removelast (l ++ [a]) = l.
Proof. intros. apply removelast_last. Qed.

Definition qr_result_ok {A} (md : mode) (s ql rl : list nat) (res : option (tensor A * tensor A)) : Prop :=
  let k := qr_bond md (size (dims s ql)) (size (dims s rl)) in
  match res with
  | Some (q, r) => (md = KEEP -> rl <> []) /\ tshape q = dims s ql ++ [k] /\ tshape r = k :: dims s rl
  | None => md = KEEP /\ rl = []
  end.

Lemma tensor_qr_shapes : forall A (zero : A) qr md (t : tensor A) ql rl,
  legs_ok (length (tshape t)) (ql ++ rl) = true ->
  qr_result_ok md (tshape t) ql rl (tensor_qr zero qr md t ql rl).
Proof.
  intros. unfold tensor_qr, qr_result_ok. rewrite matricize_some by assumption.
  cbn [tshape reshape nth]. destruct md; cbn [qr_kernel_shapes fst snd determine_tensor_shape qr_bond].
  - split; [discriminate|]. split; reflexivity.
  - split; [discriminate|]. split; reflexivity.
  - destruct rl as [|a rl]; [split; reflexivity|].
    split; [discriminate|]. cbn [pad_last pad_first tshape reshape tl hd].
    rewrite last_snoc, removelast_snoc. split; f_equal; try f_equal; lia.
Qed.

Lemma tensor_qr_none : forall A (zero : A) qr md (t : tensor A) ql rl,
  legs_ok (length (tshape t)) (ql ++ rl) = false -> tensor_qr zero qr md t ql rl = None.
Proof. intros. unfold tensor_qr. now rewrite matricize_none. Qed.

Lemma qr_shapes_spec : forall md s ql rl, legs_ok (length s) (ql ++ rl) = true ->
  let k := qr_bond md (size (dims s ql)) (size (dims s rl)) in
  qr_shapes md s ql rl =
  match md, rl with
  | KEEP, [] => None
  | _, _ => Some (dims s ql ++ [k], k :: dims s rl)
  end.
Proof.
  intros. unfold qr_shapes.
  pose proof (tensor_qr_shapes nat 0 dummy_qr md (enc s) ql rl H) as Q. unfold qr_result_ok in Q.
  cbn [enc tshape] in Q. fold k in Q.
  destruct (tensor_qr 0 dummy_qr md (enc s) ql rl) as [[q r]|].
  - destruct Q as (Q0 & Q1 & Q2). rewrite Q1, Q2. destruct md; auto. destruct rl; auto. exfalso. now apply Q0.
  - destruct Q as [-> ->]. reflexivity.
Qed.

Lemma qr_shapes_none : forall md s ql rl, legs_ok (length s) (ql ++ rl) = false -> qr_shapes md s ql rl = None.
Proof. intros. unfold qr_shapes. now rewrite tensor_qr_none. Qed.

(* KEEP, a single split-off leg a: Q has the input's shape with the legs reordered as q_legs ++ [a] *)
Lemma qr_keep_single_leg : forall s ql a, legs_ok (length s) (ql ++ [a]) = true ->
  exists rshape, qr_shapes KEEP s ql [a] = Some (dims s (ql ++ [a]), rshape).
Proof.
  intros. rewrite qr_shapes_spec by assumption. eexists. f_equal. f_equal.
  rewrite dims_app. f_equal. cbn. f_equal. lia.
Qed.

Definition svd_bonds (md : mode) (m n : nat) : nat * nat :=
  match md with REDUCED => (Nat.min m n, Nat.min m n) | _ => (m, n) end.

Lemma tensor_svd_shapes : forall A svd md (t : tensor A) ul vl,
  legs_ok (length (tshape t)) (ul ++ vl) = true ->
  let s := tshape t in let m := size (dims s ul) in let n := size (dims s vl) in
  exists u sv vh, tensor_svd svd md t ul vl = Some (u, (Nat.min m n, sv), vh) /\
    tshape u = dims s ul ++ [fst (svd_bonds md m n)] /\ tshape vh = snd (svd_bonds md m n) :: dims s vl.
Proof.
  intros. unfold tensor_svd. rewrite matricize_some by assumption.
  cbn [tshape reshape nth].
  destruct md; cbn [svd_kernel_shapes fst snd]; do 3 eexists; (split; [reflexivity|]); split; reflexivity.
Qed.

Lemma svd_shapes_spec : forall md s ul vl, legs_ok (length s) (ul ++ vl) = true ->
  let m := size (dims s ul) in let n := size (dims s vl) in
  svd_shapes md s ul vl = Some (dims s ul ++ [fst (svd_bonds md m n)], Nat.min m n, snd (svd_bonds md m n) :: dims s vl).
Proof.
  intros. unfold svd_shapes.
  destruct (tensor_svd_shapes nat dummy_svd md (enc s) ul vl H) as (u & sv & vh & E & E1 & E2).
  rewrite E. cbn [enc tshape] in *. now rewrite E1, E2.
Qed.

Lemma svd_shapes_none : forall md s ul vl, legs_ok (length s) (ul ++ vl) = false -> svd_shapes md s ul vl = None.
Proof. intros. unfold svd_shapes, tensor_svd. now rewrite matricize_none. Qed.

Lemma truncated_svd_shapes : forall A svd trunc (t : tensor A) ul vl,
  legs_ok (length (tshape t)) (ul ++ vl) = true ->
  let s := tshape t in let k := Nat.min (size (dims s ul)) (size (dims s vl)) in
  exists u sv vh, tensor_svd svd REDUCED t ul vl = Some (u, (k, sv), vh) /\
    let p' := fst (trunc k sv) in
    truncated_tensor_svd svd trunc t ul vl = Some (slice_last u p', trunc k sv, slice_first vh p') /\
    tshape (slice_last u p') = dims s ul ++ [Nat.min p' k] /\
    tshape (slice_first vh p') = Nat.min p' k :: dims s vl.
Proof.
  intros. destruct (tensor_svd_shapes A svd REDUCED t ul vl H) as (u & sv & vh & E & E1 & E2).
  exists u, sv, vh. split; [exact E|]. unfold truncated_tensor_svd. rewrite E. split; [reflexivity|].
  cbn [slice_last slice_first tshape]. rewrite E1, E2. cbn [svd_bonds fst snd hd tl].
  now rewrite last_snoc, removelast_snoc.
Qed.
(* ---- ring-valued part ---- *)
Section RingProofs.
  Variable R : Type.
  Variables (rO rI : R) (radd rmul rsub : R -> R -> R) (ropp : R -> R).
  Hypothesis Rth : ring_theory rO rI radd rmul rsub ropp eq.
  Add Ring Rring : Rth.

  Local Notation "a +! b" := (radd a b) (at level 50, left associativity).
  Local Notation "a *! b" := (rmul a b) (at level 40, left associativity).
  Local Notation sum := (sum_n rO radd).
  Local Notation sumb := (sum_box rO radd).
  Local Notation mm := (mmul rO radd rmul).
  Local Notation cb := (contract_bond rO radd rmul).

  Lemma sum_ext : forall n f g, (forall l, l < n -> f l = g l) -> sum f n = sum g n.
  Proof. induction n; intros; cbn; auto. rewrite (IHn f g), H by auto. reflexivity. Qed.

  Lemma sum_zero : forall n f, (forall l, l < n -> f l = rO) -> sum f n = rO.
  Proof. induction n; intros; cbn; auto. rewrite IHn, H by auto. ring. Qed.

  Lemma sum_split : forall a b f, sum f (a + b) = sum f a +! sum (fun l => f (a + l)) b.
  Proof.
    induction b; intros; cbn.
    - rewrite Nat.add_0_r. ring.
    - rewrite Nat.add_succ_r. cbn. rewrite IHb. ring.
  Qed.

  Lemma sum_scale_r : forall n f c, sum (fun l => f l *! c) n = sum f n *! c.
  Proof. induction n; intros; cbn; [ring|]. rewrite IHn. ring. Qed.

  Lemma sum_delta : forall n l0 (c : R) f, l0 < n ->
    sum (fun l => (if l0 =? l then c else rO) *! f l) n = c *! f l0.
  Proof.
    induction n; intros; [lia|]. cbn.
    destruct (Nat.eq_dec l0 n) as [->|Hne].
    - rewrite Nat.eqb_refl. rewrite sum_zero; [ring|].
      intros l Hl. replace (n =? l) with false by (symmetry; apply Nat.eqb_neq; lia). ring.
    - rewrite IHn by lia. replace (l0 =? n) with false by (symmetry; apply Nat.eqb_neq; lia). ring.
  Qed.

  Lemma sum_delta' : forall n l0 (c : nat -> R) f, l0 < n ->
    sum (fun l => f l *! (if l =? l0 then c l else rO)) n = f l0 *! c l0.
  Proof.
    induction n; intros; [lia|]. cbn.
    destruct (Nat.eq_dec l0 n) as [->|Hne].
    - rewrite Nat.eqb_refl. rewrite sum_zero; [ring|].
      intros l Hl. replace (l =? n) with false by (symmetry; apply Nat.eqb_neq; lia). ring.
    - rewrite IHn by lia. replace (n =? l0) with false by (symmetry; apply Nat.eqb_neq; lia). ring.
  Qed.

  Lemma sum_mul_block : forall d P g, sum g (d * P) = sum (fun i => sum (fun r => g (i * P + r)) P) d.
  Proof.
    induction d; intros; [reflexivity|].
    cbn [sum_n]. rewrite <- IHd. replace (S d * P) with (d * P + P) by lia. apply sum_split.
  Qed.

  Lemma sumb_ext_all : forall s f g, (forall idx, f idx = g idx) -> sumb s f = sumb s g.
  Proof. induction s; intros; cbn; auto. apply sum_ext. intros. apply IHs. auto. Qed.

  Lemma sumb_zero : forall s f, (forall idx, f idx = rO) -> sumb s f = rO.
  Proof. induction s; intros; cbn; auto. apply sum_zero. intros. apply IHs. auto. Qed.

  (* nested sums over a box = one sum over the row-major flat index *)
  Lemma sumb_flat : forall s f, sumb s f = sum (fun r => f (unflatten s r)) (size s).
  Proof.
    induction s; intros.
    - cbn. ring.
    - cbn [sum_box]. rewrite size_cons, sum_mul_block. apply sum_ext. intros i Hi.
      rewrite IHs. apply sum_ext. intros r Hr. cbn [unflatten].
      assert (Hp : size s <> 0) by lia.
      rewrite Nat.div_add_l, (Nat.div_small r), (Nat.add_comm (i * size s)), Nat.mod_add, (Nat.mod_small r) by assumption.
      now rewrite Nat.add_0_r.
  Qed.

  (* ---- matrices: the KEEP zero padding ---- *)
  Theorem keep_padding : forall k d (A B : matrix R) i j,
    mm (k + d) (pad_cols rO k A) (pad_rows rO k B) i j = mm k A B i j.
  Proof.
    intros. unfold mmul. rewrite sum_split. rewrite (sum_zero d).
    - rewrite (sum_ext k _ (fun l => A i l *! B l j)); [ring|].
      intros l Hl. unfold pad_cols, pad_rows. apply Nat.ltb_lt in Hl. now rewrite Hl.
    - intros l Hl. unfold pad_cols, pad_rows.
      replace (k + l <? k) with false by (symmetry; apply Nat.ltb_ge; lia). ring.
  Qed.

  Theorem keep_gram_cols : forall (cj : R -> R) m k (Q : matrix R) a b, cj rO = rO ->
    gram_cols rO radd rmul cj m (pad_cols rO k Q) a b =
    if (a <? k) && (b <? k) then gram_cols rO radd rmul cj m Q a b else rO.
  Proof.
    intros. unfold gram_cols, pad_cols. destruct (a <? k); [destruct (b <? k)|]; cbn [andb]; auto.
    - apply sum_zero. intros. ring.
    - apply sum_zero. intros. rewrite H. ring.
  Qed.

  (* ---- tensors ---- *)
  Lemma unflatten_pair : forall m n r c, r < m -> c < n -> unflatten [m; n] (r * n + c) = [r; c].
  Proof.
    intros. rewrite <- flatten_pair with (m := m). apply unflatten_flatten.
    cbn [in_box]. apply Nat.ltb_lt in H, H0. now rewrite H, H0.
  Qed.

  Lemma reshape_q_entry : forall m k (Q : matrix R) dq iq l,
    size dq = m -> in_box dq iq = true -> l < k ->
    tent (reshape (mat_tensor m k Q) (dq ++ [k])) (iq ++ [l]) = Q (flatten dq iq) l.
  Proof.
    intros. cbn [reshape tent mat_tensor tshape].
    rewrite flatten_app by (now apply in_box_length).
    replace (size [k]) with k by (cbn; lia). replace (flatten [k] [l]) with l by (cbn; lia).
    rewrite unflatten_pair; auto. rewrite <- H. now apply flatten_lt.
  Qed.

  Lemma reshape_r_entry : forall k n (Rm : matrix R) dr ir l,
    size dr = n -> in_box dr ir = true -> l < k ->
    tent (reshape (mat_tensor k n Rm) (k :: dr)) (l :: ir) = Rm l (flatten dr ir).
  Proof.
    intros. cbn [reshape tent mat_tensor tshape flatten]. rewrite H.
    rewrite unflatten_pair; auto. rewrite <- H. now apply flatten_lt.
  Qed.

  Lemma contract_entry : forall (a b : tensor R) dq k iq ir,
    tshape a = dq ++ [k] -> length iq = length dq ->
    tent (cb a b) (iq ++ ir) = sum (fun l => tent a (iq ++ [l]) *! tent b (l :: ir)) k.
  Proof.
    intros. cbn [contract_bond tent]. rewrite H, last_snoc, app_length. cbn [length].
    replace (length dq + 1 - 1) with (length iq) by lia.
    rewrite firstn_app, Nat.sub_diag, firstn_all, skipn_app, Nat.sub_diag, skipn_all. cbn [firstn skipn app].
    now rewrite app_nil_r.
  Qed.

  Lemma contract_shape : forall (a b : tensor R) dq k k' dr,
    tshape a = dq ++ [k] -> tshape b = k' :: dr -> tshape (cb a b) = dq ++ dr.
  Proof. intros. cbn [contract_bond tshape]. now rewrite H, H0, removelast_snoc. Qed.

  (* contraction of the reshaped matrix factors over the bond = the matrix product, entrywise *)
  Lemma factors_contract : forall m n k (Qm Rm : matrix R) dq dr iq ir,
    size dq = m -> size dr = n -> in_box dq iq = true -> in_box dr ir = true ->
    tent (cb (reshape (mat_tensor m k Qm) (dq ++ [k])) (reshape (mat_tensor k n Rm) (k :: dr))) (iq ++ ir)
    = mm k Qm Rm (flatten dq iq) (flatten dr ir).
  Proof.
    intros. rewrite (contract_entry _ _ dq k) by (auto; now apply in_box_length).
    unfold mmul. apply sum_ext. intros l Hl.
    now rewrite reshape_q_entry, reshape_r_entry.
  Qed.

  (* the KEEP padding on the tensor level *)
  Lemma contract_pad : forall (a b : tensor R) dq dr k d iq ir,
    tshape a = dq ++ [k] -> tshape b = k :: dr -> length iq = length dq ->
    tent (cb (pad_last rO a d) (pad_first rO b d)) (iq ++ ir) = tent (cb a b) (iq ++ ir).
  Proof.
    intros. rewrite (contract_entry _ _ dq (k + d)), (contract_entry _ _ dq k); auto.
    2: { cbn [pad_last tshape]. now rewrite H, removelast_snoc, last_snoc. }
    rewrite sum_split, (sum_zero d).
    - rewrite (sum_ext k _ (fun l => tent a (iq ++ [l]) *! tent b (l :: ir))); [ring|].
      intros l Hl. cbn [pad_last pad_first tent]. rewrite H, H0, !last_snoc. cbn [hd].
      apply Nat.ltb_lt in Hl. now rewrite Hl.
    - intros l Hl. cbn [pad_last pad_first tent]. rewrite H, H0, !last_snoc. cbn [hd].
      replace (k + l <? k) with false by (symmetry; apply Nat.ltb_ge; lia). ring.
  Qed.

  (* the entry of the matricisation at the flat indices of iq, ir is the transposed tensor at iq ++ ir *)
  Lemma matricize_at_flat : forall (t : tensor R) ql rl iq ir,
    let s := tshape t in
    in_box (dims s ql) iq = true -> in_box (dims s rl) ir = true ->
    tent (reshape (transpose t (ql ++ rl)) [size (dims s ql); size (dims s rl)]) [flatten (dims s ql) iq; flatten (dims s rl) ir]
    = tent t (scatter (ql ++ rl) (iq ++ ir)).
  Proof.
    intros. cbn [reshape transpose tent tshape]. rewrite flatten_pair. fold s. rewrite dims_app.
    rewrite unflatten_app by (now apply flatten_lt). now rewrite !unflatten_flatten.
  Qed.

  Section QR.
    Variable qr : mode -> nat -> nat -> matrix R -> matrix R * matrix R.
    (* kernel contract: the product of the factors np.linalg.qr returns is the input matrix *)
    Hypothesis qr_contract : forall md m n (A : matrix R) r c, r < m -> c < n ->
      mm (snd (fst (qr_kernel_shapes md m n))) (fst (qr md m n A)) (snd (qr md m n A)) r c = A r c.

    Theorem qr_reconstruct : forall md (t : tensor R) ql rl q r,
      legs_ok (length (tshape t)) (ql ++ rl) = true ->
      tensor_qr rO qr md t ql rl = Some (q, r) ->
      tshape (cb q r) = dims (tshape t) (ql ++ rl) /\
      forall idx, in_box (dims (tshape t) (ql ++ rl)) idx = true ->
        tent (cb q r) idx = tent t (scatter (ql ++ rl) idx).
    Proof.
      intros md t ql rl q r Hl E.
      pose proof (tensor_qr_shapes R rO qr md t ql rl Hl) as S. rewrite E in S.
      destruct S as (S0 & S1 & S2). split.
      { rewrite dims_app. eapply contract_shape; eauto. }
      intros idx B. rewrite dims_app in B. destruct (in_box_split _ _ _ B) as (Ei & B1 & B2).
      rewrite dims_length in *. set (iq := firstn (length ql) idx) in *. set (ir := skipn (length ql) idx) in *.
      rewrite Ei. clear Ei.
      unfold tensor_qr in E. rewrite matricize_some in E by assumption.
      cbn [tshape reshape nth] in E.
      set (s := tshape t) in *. set (m := size (dims s ql)) in *. set (n := size (dims s rl)) in *.
      set (M := reshape (transpose t (ql ++ rl)) [m; n]) in E.
      pose proof (qr_contract md m n (tensor_mat M)) as C.
      assert (Main : forall kq, kq = snd (fst (qr_kernel_shapes md m n)) ->
        tent (cb (reshape (mat_tensor m kq (fst (qr md m n (tensor_mat M)))) (dims s ql ++ [kq]))
                 (reshape (mat_tensor kq n (snd (qr md m n (tensor_mat M)))) (kq :: dims s rl))) (iq ++ ir)
        = tent t (scatter (ql ++ rl) (iq ++ ir))).
      { intros kq ->. rewrite factors_contract; auto. rewrite C by (now apply flatten_lt).
        unfold tensor_mat. subst M. apply matricize_at_flat; auto. }
      destruct md; cbn [qr_kernel_shapes fst snd determine_tensor_shape] in E.
      - inversion E; subst q r. apply Main. reflexivity.
      - inversion E; subst q r. apply Main. reflexivity.
      - destruct rl as [|a rl']; [discriminate|]. inversion E; subst q r.
        erewrite contract_pad; [apply Main; reflexivity | reflexivity | reflexivity | now apply in_box_length].
    Qed.
  End QR.
  (* ---- SVD ---- *)
  Lemma svd_factors_contract : forall m n ku kv p (Um : matrix R) (sv : nat -> R) (Vm : matrix R) dq dr,
    size dq = m -> size dr = n -> p <= ku -> p <= kv ->
    let us := scale_last rmul (slice_last (reshape (mat_tensor m ku Um) (dq ++ [ku])) p) sv in
    let vs := slice_first (reshape (mat_tensor kv n Vm) (kv :: dr)) p in
    tshape us = dq ++ [p] /\ tshape vs = p :: dr /\
    forall iq ir, in_box dq iq = true -> in_box dr ir = true ->
      tent (cb us vs) (iq ++ ir) =
      sum (fun l => Um (flatten dq iq) l *! sv l *! Vm l (flatten dr ir)) p.
  Proof.
    intros. assert (S1 : tshape us = dq ++ [p]).
    { subst us. cbn [scale_last slice_last tshape reshape]. rewrite removelast_snoc, last_snoc. f_equal. f_equal. lia. }
    assert (S2 : tshape vs = p :: dr).
    { subst vs. cbn [slice_first tshape reshape hd tl]. f_equal. lia. }
    split; auto. split; auto. intros iq ir B1 B2.
    rewrite (contract_entry _ _ dq p) by (auto; now apply in_box_length).
    apply sum_ext. intros l Hl. subst us vs.
    cbn [scale_last slice_last slice_first tent]. fold (reshape (mat_tensor m ku Um) (dq ++ [ku])).
    change (tent (mkT _ (tent ?x))) with (tent x).
    rewrite last_snoc.
    rewrite reshape_q_entry by (auto; lia).
    change (tent (reshape (mat_tensor kv n Vm) (kv :: dr)) (l :: ir)) with (tent (reshape (mat_tensor kv n Vm) (kv :: dr)) (l :: ir)).
    rewrite reshape_r_entry by (auto; lia). reflexivity.
  Qed.

  Section SVD.
    Variable svd : mode -> nat -> nat -> matrix R -> matrix R * (nat -> R) * matrix R.
    (* kernel contract: U[:, :p] diag(s) Vh[:p, :] is the input matrix, p = min m n *)
    Hypothesis svd_contract : forall md m n (A : matrix R) r c, r < m -> c < n ->
      sum (fun l => fst (fst (svd md m n A)) r l *! snd (fst (svd md m n A)) l *! snd (svd md m n A) l c)
          (Nat.min m n) = A r c.

    Theorem svd_reconstruct : forall md (t : tensor R) ul vl u p sv vh,
      legs_ok (length (tshape t)) (ul ++ vl) = true ->
      tensor_svd svd md t ul vl = Some (u, (p, sv), vh) ->
      let us := scale_last rmul (slice_last u p) sv in
      let vs := slice_first vh p in
      tshape (cb us vs) = dims (tshape t) (ul ++ vl) /\
      forall idx, in_box (dims (tshape t) (ul ++ vl)) idx = true ->
        tent (cb us vs) idx = tent t (scatter (ul ++ vl) idx).
    Proof.
      intros md t ul vl u p sv vh Hl E.
      unfold tensor_svd in E. rewrite matricize_some in E by assumption.
      cbn [tshape reshape nth] in E.
      set (s := tshape t) in *. set (m := size (dims s ul)) in *. set (n := size (dims s vl)) in *.
      set (M := reshape (transpose t (ul ++ vl)) [m; n]) in E.
      pose proof (svd_contract md m n (tensor_mat M)) as C.
      assert (Main : forall ku kv, Nat.min m n <= ku -> Nat.min m n <= kv ->
        let us := scale_last rmul (slice_last (reshape (mat_tensor m ku (fst (fst (svd md m n (tensor_mat M))))) (dims s ul ++ [ku])) (Nat.min m n)) (snd (fst (svd md m n (tensor_mat M)))) in
        let vs := slice_first (reshape (mat_tensor kv n (snd (svd md m n (tensor_mat M)))) (kv :: dims s vl)) (Nat.min m n) in
        tshape (cb us vs) = dims s (ul ++ vl) /\
        forall idx, in_box (dims s (ul ++ vl)) idx = true -> tent (cb us vs) idx = tent t (scatter (ul ++ vl) idx)).
      { intros ku kv Hu Hv.
        destruct (svd_factors_contract m n ku kv (Nat.min m n) (fst (fst (svd md m n (tensor_mat M))))
                    (snd (fst (svd md m n (tensor_mat M)))) (snd (svd md m n (tensor_mat M)))
                    (dims s ul) (dims s vl) eq_refl eq_refl Hu Hv) as (S1 & S2 & Ent).
        intros us vs. split.
        { rewrite dims_app. eapply contract_shape; eauto. }
        intros idx B. rewrite dims_app in B. destruct (in_box_split _ _ _ B) as (Ei & B1 & B2).
        rewrite dims_length in *. rewrite Ei. subst us vs. rewrite Ent by assumption.
        rewrite C by (now apply flatten_lt). unfold tensor_mat. subst M. apply matricize_at_flat; auto. }
      destruct md; cbn [svd_kernel_shapes fst snd determine_tensor_shape] in E; inversion E; subst u p sv vh;
        apply Main; lia.
    Qed.

    (* truncated_tensor_svd: the contraction of the sliced factors with the kept singular values is the
       truncated product sum_{l < p'} U[:, l] s'[l] Vh[l, :] of the kernel's factors *)
    Theorem truncated_product : forall trunc (t : tensor R) ul vl u' p' s' vh',
      legs_ok (length (tshape t)) (ul ++ vl) = true ->
      truncated_tensor_svd svd trunc t ul vl = Some (u', (p', s'), vh') ->
      let s := tshape t in let m := size (dims s ul) in let n := size (dims s vl) in
      p' <= Nat.min m n ->
      exists M, matricize t ul vl = Some M /\
        tshape u' = dims s ul ++ [p'] /\ tshape vh' = p' :: dims s vl /\
        forall iq ir, in_box (dims s ul) iq = true -> in_box (dims s vl) ir = true ->
          tent (cb (scale_last rmul u' s') vh') (iq ++ ir) =
          sum (fun l => fst (fst (svd REDUCED m n (tensor_mat M))) (flatten (dims s ul) iq) l *! s' l *!
                        snd (svd REDUCED m n (tensor_mat M)) l (flatten (dims s vl) ir)) p'.
    Proof.
      intros trunc t ul vl u' p' s' vh' Hl E s m n Hp.
      eexists. split; [apply matricize_some; assumption|].
      unfold truncated_tensor_svd, tensor_svd in E. rewrite matricize_some in E by assumption.
      cbn [tshape reshape nth svd_kernel_shapes fst snd determine_tensor_shape] in E.
      fold s m n in E. fold s m n.
      set (M := reshape (transpose t (ul ++ vl)) [m; n]) in *.
      destruct (trunc (Nat.min m n) (snd (fst (svd REDUCED m n (tensor_mat M))))) as [p1 s1] eqn:T.
      cbn [fst] in E. inversion E; subst u' p' s' vh'. clear E.
      destruct (svd_factors_contract m n (Nat.min m n) (Nat.min m n) p1 (fst (fst (svd REDUCED m n (tensor_mat M))))
                  s1 (snd (svd REDUCED m n (tensor_mat M))) (dims s ul) (dims s vl) eq_refl eq_refl Hp Hp) as (S1 & S2 & Ent).
      cbn [scale_last tshape] in S1. split; [exact S1|]. split; [exact S2|].
      intros iq ir B1 B2. rewrite <- Ent by assumption. reflexivity.
    Qed.
  End SVD.

  (* ---- contraction modes of contr_truncated_svd_splitting ---- *)
  Theorem contr_modes : forall cm (u vh : tensor R) dq dr p (s rs : nat -> R) iq ir,
    tshape u = dq ++ [p] -> tshape vh = p :: dr -> length iq = length dq ->
    (forall l, l < p -> rs l *! rs l = s l) ->
    let ab := contr_split rO radd rmul cm u p s rs vh in
    tshape (fst ab) = dq ++ [p] /\ tshape (snd ab) = p :: dr /\
    tshape (cb (fst ab) (snd ab)) = dq ++ dr /\
    tent (cb (fst ab) (snd ab)) (iq ++ ir) = tent (cb (scale_last rmul u s) vh) (iq ++ ir).
  Proof.
    intros cm u vh dq dr p s rs iq ir Hu Hv Li Hrs.
    assert (DV : forall sx l, l < p -> tent (cb (diag rO p sx) vh) (l :: ir) = sx l *! tent vh (l :: ir)).
    { intros sx l Hl. change (l :: ir) with ([l] ++ ir). rewrite (contract_entry _ _ [p] p) by reflexivity.
      cbn [diag tent app nth]. now rewrite sum_delta. }
    assert (DU : forall sx l, l < p -> tent (cb u (diag rO p sx)) (iq ++ [l]) = tent u (iq ++ [l]) *! sx l).
    { intros sx l Hl. rewrite (contract_entry _ _ dq p) by assumption.
      cbn [diag tent nth]. now rewrite (sum_delta' p l sx). }
    assert (SV : forall sx, tshape (cb (diag rO p sx) vh) = p :: dr).
    { intros. rewrite (contract_shape _ _ [p] p p dr); auto. }
    assert (SU : forall sx, tshape (cb u (diag rO p sx)) = dq ++ [p]).
    { intros. rewrite (contract_shape _ _ dq p p [p]); auto. }
    assert (RHS : tent (cb (scale_last rmul u s) vh) (iq ++ ir) = sum (fun l => tent u (iq ++ [l]) *! s l *! tent vh (l :: ir)) p).
    { rewrite (contract_entry _ _ dq p) by assumption. apply sum_ext. intros. cbn [scale_last tent]. now rewrite last_snoc. }
    rewrite RHS. destruct cm; cbn [contr_split fst snd].
    - (* UCONTR *) rewrite SU. repeat split; auto.
      + rewrite (contract_shape _ _ dq p p dr); auto.
      + rewrite (contract_entry _ _ dq p) by auto. apply sum_ext. intros l Hl. now rewrite DU.
    - (* VCONTR *) rewrite SV. repeat split; auto.
      + rewrite (contract_shape _ _ dq p p dr); auto.
      + rewrite (contract_entry _ _ dq p) by auto. apply sum_ext. intros l Hl. rewrite DV by assumption. ring.
    - (* EQUAL *) rewrite SU, SV. repeat split; auto.
      + rewrite (contract_shape _ _ dq p p dr); auto.
      + rewrite (contract_entry _ _ dq p) by auto. apply sum_ext. intros l Hl. rewrite DU, DV by assumption.
        rewrite <- (Hrs l Hl). ring.
  Qed.

  (* ---- isometries ---- *)
  Section Gram.
    Variable cj : R -> R.
    Local Notation gl := (gram_last rO radd rmul cj).
    Local Notation gc := (gram_cols rO radd rmul cj).
    Local Notation gf := (gram_first rO radd rmul cj).
    Local Notation gr := (gram_rows rO radd rmul cj).

    (* Gram matrix of the tensor over the kept legs = Gram matrix of the matrix factor *)
    Theorem isometry_lifts : forall m k (Qm : matrix R) dq a b, size dq = m -> a < k -> b < k ->
      gl (reshape (mat_tensor m k Qm) (dq ++ [k])) a b = gc m Qm a b.
    Proof.
      intros. unfold gram_last, gram_cols. cbn [reshape tshape]. rewrite removelast_snoc, sumb_flat, H.
      apply sum_ext. intros r Hr. fold (reshape (mat_tensor m k Qm) (dq ++ [k])).
      rewrite !reshape_q_entry by (auto; apply unflatten_in_box; lia).
      now rewrite flatten_unflatten by lia.
    Qed.

    Theorem isometry_lifts_first : forall k n (Vm : matrix R) dr a b, size dr = n -> a < k -> b < k ->
      gf (reshape (mat_tensor k n Vm) (k :: dr)) a b = gr n Vm a b.
    Proof.
      intros. unfold gram_first, gram_rows. cbn [reshape tshape tl]. rewrite sumb_flat, H.
      apply sum_ext. intros c Hc. fold (reshape (mat_tensor k n Vm) (k :: dr)).
      rewrite !reshape_r_entry by (auto; apply unflatten_in_box; lia).
      now rewrite flatten_unflatten by lia.
    Qed.

    (* the zero-padded Q of the KEEP mode: Gram matrix diag(G, 0) *)
    Theorem keep_partial_isometry : forall (q : tensor R) dq k d a b, cj rO = rO -> tshape q = dq ++ [k] ->
      gl (pad_last rO q d) a b = if (a <? k) && (b <? k) then gl q a b else rO.
    Proof.
      intros q dq k d a b Hc Hq. unfold gram_last. cbn [pad_last tshape tent].
      rewrite Hq, !removelast_snoc, last_snoc.
      destruct (a <? k) eqn:Ea; [destruct (b <? k) eqn:Eb|]; cbn [andb].
      - apply sumb_ext_all. intros. now rewrite !last_snoc, Ea, Eb.
      - apply sumb_zero. intros. rewrite !last_snoc, Eb. ring.
      - apply sumb_zero. intros. rewrite !last_snoc, Ea, Hc. ring.
    Qed.
  End Gram.

  Section Isometries.
    Variable cj : R -> R.
    Hypothesis cj0 : cj rO = rO.
    Local Notation delta := (fun a b : nat => if a =? b then rI else rO).

    Section QRIso.
      Variable qr : mode -> nat -> nat -> matrix R -> matrix R * matrix R.
      (* kernel contract: the columns of the Q that np.linalg.qr returns are orthonormal *)
      Hypothesis qr_iso : forall md m n (A : matrix R) a b,
        a < snd (fst (qr_kernel_shapes md m n)) -> b < snd (fst (qr_kernel_shapes md m n)) ->
        gram_cols rO radd rmul cj m (fst (qr md m n A)) a b = delta a b.

      Theorem qr_isometry : forall md (t : tensor R) ql rl q r,
        legs_ok (length (tshape t)) (ql ++ rl) = true ->
        tensor_qr rO qr md t ql rl = Some (q, r) ->
        let m := size (dims (tshape t) ql) in let n := size (dims (tshape t) rl) in
        let kq := snd (fst (qr_kernel_shapes md m n)) in
        forall a b, a < qr_bond md m n -> b < qr_bond md m n ->
          gram_last rO radd rmul cj q a b = if (a <? kq) && (b <? kq) then delta a b else rO.
      Proof.
        intros md t ql rl q r Hl E m n kq a b Ha Hb.
        unfold tensor_qr in E. rewrite matricize_some in E by assumption.
        cbn [tshape reshape nth] in E. fold m n in E.
        set (M := reshape (transpose t (ql ++ rl)) [m; n]) in E.
        destruct md; cbn [qr_kernel_shapes fst snd determine_tensor_shape qr_bond] in *.
        - inversion E; subst q r. subst kq. apply Nat.ltb_lt in Ha as Ha', Hb as Hb'. rewrite Ha', Hb'. cbn [andb].
          rewrite isometry_lifts by auto. apply (qr_iso FULL); assumption.
        - inversion E; subst q r. subst kq. apply Nat.ltb_lt in Ha as Ha', Hb as Hb'. rewrite Ha', Hb'. cbn [andb].
          rewrite isometry_lifts by auto. apply (qr_iso REDUCED); assumption.
        - destruct rl as [|x rl']; [discriminate|]. inversion E; subst q r.
          erewrite keep_partial_isometry by (auto; reflexivity). fold kq.
          destruct (a <? kq) eqn:Ea; [destruct (b <? kq) eqn:Eb|]; cbn [andb]; auto.
          apply Nat.ltb_lt in Ea, Eb. rewrite isometry_lifts by auto. apply (qr_iso KEEP); assumption.
      Qed.
    End QRIso.

    Section SVDIso.
      Variable svd : mode -> nat -> nat -> matrix R -> matrix R * (nat -> R) * matrix R.
      (* kernel contract: orthonormal columns of U, orthonormal rows of Vh *)
      Hypothesis svd_iso_u : forall md m n (A : matrix R) a b,
        a < snd (fst (fst (svd_kernel_shapes md m n))) -> b < snd (fst (fst (svd_kernel_shapes md m n))) ->
        gram_cols rO radd rmul cj m (fst (fst (svd md m n A))) a b = delta a b.
      Hypothesis svd_iso_v : forall md m n (A : matrix R) a b,
        a < fst (snd (svd_kernel_shapes md m n)) -> b < fst (snd (svd_kernel_shapes md m n)) ->
        gram_rows rO radd rmul cj n (snd (svd md m n A)) a b = delta a b.

      Theorem svd_isometry : forall md (t : tensor R) ul vl u psv vh,
        legs_ok (length (tshape t)) (ul ++ vl) = true ->
        tensor_svd svd md t ul vl = Some (u, psv, vh) ->
        let m := size (dims (tshape t) ul) in let n := size (dims (tshape t) vl) in
        (forall a b, a < fst (svd_bonds md m n) -> b < fst (svd_bonds md m n) ->
           gram_last rO radd rmul cj u a b = delta a b) /\
        (forall a b, a < snd (svd_bonds md m n) -> b < snd (svd_bonds md m n) ->
           gram_first rO radd rmul cj vh a b = delta a b).
      Proof.
        intros md t ul vl u psv vh Hl E m n.
        unfold tensor_svd in E. rewrite matricize_some in E by assumption.
        cbn [tshape reshape nth] in E. fold m n in E.
        set (M := reshape (transpose t (ul ++ vl)) [m; n]) in E.
        destruct md; cbn [svd_kernel_shapes fst snd determine_tensor_shape svd_bonds] in *;
          inversion E; subst u psv vh; split; intros a b Ha Hb.
        - rewrite isometry_lifts by auto. apply (svd_iso_u FULL); assumption.
        - rewrite isometry_lifts_first by auto. apply (svd_iso_v FULL); assumption.
        - rewrite isometry_lifts by auto. apply (svd_iso_u REDUCED); assumption.
        - rewrite isometry_lifts_first by auto. apply (svd_iso_v REDUCED); assumption.
        - rewrite isometry_lifts by auto. apply (svd_iso_u KEEP); assumption.
        - rewrite isometry_lifts_first by auto. apply (svd_iso_v KEEP); assumption.
      Qed.
    End SVDIso.
  End Isometries.

End RingProofs.

(* ---- the Z instance: the identity-factor kernel satisfies the product contract ---- *)
Lemma idqr_contract : forall md m n (A : matrix Z) r c, r < m -> c < n ->
  mmul 0%Z Z.add Z.mul (snd (fst (qr_kernel_shapes md m n))) (fst (idqr md m n A)) (snd (idqr md m n A)) r c = A r c.
Proof.
  intros md m n A r c Hr Hc. unfold mmul.
  assert (L : forall k, r < k -> sum_n 0%Z Z.add (fun l => (idmat r l * A l c)%Z) k = A r c).
  { intros k Hk. unfold idmat. rewrite (sum_delta Z 0%Z 1%Z Z.add Z.mul Z.sub Z.opp Zth k r 1%Z (fun l => A l c) Hk). ring. }
  assert (L' : forall k, c < k -> sum_n 0%Z Z.add (fun l => (A r l * idmat l c)%Z) k = A r c).
  { intros k Hk. unfold idmat. rewrite (sum_delta' Z 0%Z 1%Z Z.add Z.mul Z.sub Z.opp Zth k c (fun _ => 1%Z) (fun l => A r l) Hk). ring. }
  destruct md; cbn [idqr qr_kernel_shapes fst snd]; try (apply L; assumption);
    destruct (m <=? n) eqn:E; cbn [fst snd];
    try (apply Nat.leb_le in E; apply L; lia); apply Nat.leb_gt in E; apply L'; lia.
Qed.

(* ---- the statements of Props/C11.v that combine several lemmas ---- *)
Lemma flatten_unflatten_box : forall (s : list nat) (f : nat), f < size s ->
  flatten s (unflatten s f) = f /\ in_box s (unflatten s f) = true.
Proof. intros; split; [now apply flatten_unflatten | now apply unflatten_in_box]. Qed.

Lemma unflatten_flatten_lt : forall (s idx : list nat), in_box s idx = true ->
  unflatten s (flatten s idx) = idx /\ flatten s idx < size s.
Proof. intros; split; [now apply unflatten_flatten | now apply flatten_lt]. Qed.

Lemma flatten_bijection : forall s : list nat,
  map (flatten s) (box s) = seq 0 (size s) /\
  (forall idx, In idx (box s) <-> in_box s idx = true) /\
  (forall i j, in_box s i = true -> in_box s j = true -> flatten s i = flatten s j -> i = j).
Proof. intros; split; [apply box_flat | split; [apply box_in_box | apply flatten_inj]]. Qed.

Lemma transpose_index_map : forall (s perm : list nat), legs_ok (length s) perm = true ->
  (forall idx j, j < length s -> nth (nth j perm 0) (scatter perm idx) 0 = nth j idx 0) /\
  (forall idx, in_box (dims s perm) idx = true ->
     in_box s (scatter perm idx) = true /\ gather perm (scatter perm idx) = idx) /\
  (forall orig, in_box s orig = true ->
     in_box (dims s perm) (gather perm orig) = true /\ scatter perm (gather perm orig) = orig) /\
  size (dims s perm) = size s.
Proof.
  intros s perm H. split; [intros; now apply (scatter_spec (length s))|]. split; [|split].
  - intros idx B. split; [now apply scatter_in_box|]. apply (gather_scatter (length s)); auto.
    apply in_box_length in B. rewrite dims_length in B. apply legs_ok_spec in H. destruct H as [L _]. lia.
  - intros orig B. split; [now apply gather_in_box|]. apply (scatter_gather (length s)); auto.
    now apply in_box_length.
  - now apply size_dims_perm.
Qed.

Lemma transpose_by_leg_list_spec : forall A (t : tensor A) (fl ll : list nat),
  (legs_ok (length (tshape t)) (fl ++ ll) = true ->
   exists T, transpose_by_leg_list t fl ll = Some T /\
     tshape T = dims (tshape t) fl ++ dims (tshape t) ll /\
     forall idx, tent T idx = tent t (scatter (fl ++ ll) idx)) /\
  (legs_ok (length (tshape t)) (fl ++ ll) = false -> transpose_by_leg_list t fl ll = None).
Proof.
  intros; split; [apply transpose_entry|]. intros H. unfold transpose_by_leg_list. now rewrite H.
Qed.

Lemma shapes_reject : forall (md : mode) (s ql rl : list nat),
  legs_ok (length s) (ql ++ rl) = false -> qr_shapes md s ql rl = None /\ forall md', svd_shapes md' s ql rl = None.
Proof. intros; split; [now apply qr_shapes_none | intros; now apply svd_shapes_none]. Qed.
