(* Model of the index / shape bookkeeping of
     pytreenet/util/tensor_util.py   : transpose_tensor_by_leg_list, tensor_matricization
     pytreenet/util/tensor_splitting.py : SplitMode, _determine_tensor_shape, tensor_qr_decomposition
                                       (incl. the KEEP zero padding), tensor_svd, truncated_tensor_svd,
                                       ContractionMode, contr_truncated_svd_splitting
   np.linalg.qr / np.linalg.svd / the float truncation rule are kernels: they enter as function
   arguments (here) and as Section variables with contracts (FlatProofs.v), never as models.
   np.transpose / np.reshape / np.pad / np.tensordot(axes=(-1,0)) / np.diag / basic slicing are
   modelled by their index maps (row-major order).  Definitions only; proofs are in FlatProofs.v. *)
From Coq Require Import List Arith Bool ZArith.
Import ListNotations.

(* ---- row-major flat index <-> multi-index ------------------------------------------ *)
Definition size (s : list nat) : nat := fold_right Nat.mul 1 s.          (* math.prod(shape) *)

Fixpoint flatten (s idx : list nat) : nat :=
  match s, idx with
  | _ :: s', i :: idx' => i * size s' + flatten s' idx'
  | _, _ => 0
  end.

Fixpoint unflatten (s : list nat) (f : nat) : list nat :=
  match s with
  | [] => []
  | _ :: s' => (f / size s') :: unflatten s' (f mod size s')
  end.

(* the index box of a shape *)
Fixpoint in_box (s idx : list nat) : bool :=
  match s, idx with
  | [], [] => true
  | d :: s', i :: idx' => (i <? d) && in_box s' idx'
  | _, _ => false
  end.

(* all multi-indices of a shape in lexicographic (itertools.product) order *)
Fixpoint box (s : list nat) : list (list nat) :=
  match s with
  | [] => [[]]
  | d :: s' => flat_map (fun i => map (cons i) (box s')) (seq 0 d)
  end.

(* ---- leg lists, axis permutations ---------------------------------------------------- *)
(* [old_shape[i] for i in legs]  (also: np.transpose's result shape) *)
Definition dims (s legs : list nat) : list nat := map (fun a => nth a s 0) legs.

(* position of the first occurrence (length l when absent) *)
Fixpoint index_of (a : nat) (l : list nat) : nat :=
  match l with
  | [] => 0
  | h :: t => if a =? h then 0 else S (index_of a t)
  end.

(* np.transpose(t, perm)[idx] = t[scatter perm idx]: original axis a carries the component of idx
   at the position where a occurs in perm *)
Definition scatter (perm idx : list nat) : list nat :=
  map (fun a => nth (index_of a perm) idx 0) (seq 0 (length perm)).

(* the inverse direction: the transposed multi-index of an original one *)
Definition gather (perm orig : list nat) : list nat := map (fun a => nth a orig 0) perm.

Fixpoint nodupb (l : list nat) : bool :=
  match l with
  | [] => true
  | h :: t => negb (existsb (Nat.eqb h) t) && nodupb t
  end.

(* what `assert tensor.ndim == len(first_legs) + len(last_legs)` and np.transpose accept
   (non-negative axes only: the documented domain) *)
Definition legs_ok (n : nat) (legs : list nat) : bool :=
  (length legs =? n) && forallb (fun a => a <? n) legs && nodupb legs.

(* ---- tensors as (shape, entry function) ---------------------------------------------- *)
Record tensor (A : Type) := mkT { tshape : list nat; tent : list nat -> A }.
Arguments mkT {A}. Arguments tshape {A}. Arguments tent {A}.

Definition tabulate {A} (t : tensor A) : list A := map (tent t) (box (tshape t)).

Definition transpose {A} (t : tensor A) (perm : list nat) : tensor A :=
  mkT (dims (tshape t) perm) (fun idx => tent t (scatter perm idx)).

(* np.reshape (C order); numpy demands size s' = size (tshape t) *)
Definition reshape {A} (t : tensor A) (s' : list nat) : tensor A :=
  mkT s' (fun idx => tent t (unflatten (tshape t) (flatten s' idx))).

Definition transpose_by_leg_list {A} (t : tensor A) (first_legs last_legs : list nat) : option (tensor A) :=
  if legs_ok (length (tshape t)) (first_legs ++ last_legs)
  then Some (transpose t (first_legs ++ last_legs))
  else None.                                           (* AssertionError / ValueError / AxisError *)

(* tensor_matricization with correctly_ordered=False.  (tensor_qr_decomposition / tensor_svd compute
   `correctly_ordered` as `tuple + tuple == list`, which is False for tuples; for lists it is True only
   when the permutation is the identity, where transposing changes nothing: no special case here.) *)
Definition matricize {A} (t : tensor A) (output_legs input_legs : list nat) : option (tensor A) :=
  match transpose_by_leg_list t output_legs input_legs with
  | None => None
  | Some tc =>
      let sh := tshape tc in
      Some (reshape tc [size (firstn (length output_legs) sh); size (skipn (length output_legs) sh)])
  end.

Definition mat_tensor {A} (m n : nat) (M : nat -> nat -> A) : tensor A :=
  mkT [m; n] (fun idx => M (nth 0 idx 0) (nth 1 idx 0)).

Definition tensor_mat {A} (t : tensor A) : nat -> nat -> A := fun r c => tent t [r; c].

(* np.pad on the last / first axis with (0, diff) *)
Definition pad_last {A} (zero : A) (t : tensor A) (diff : nat) : tensor A :=
  let sh := tshape t in
  mkT (removelast sh ++ [last sh 0 + diff])
      (fun idx => if last idx 0 <? last sh 0 then tent t idx else zero).

Definition pad_first {A} (zero : A) (t : tensor A) (diff : nat) : tensor A :=
  let sh := tshape t in
  mkT ((hd 0 sh + diff) :: tl sh)
      (fun idx => if hd 0 idx <? hd 0 sh then tent t idx else zero).

(* u[..., :p] and vh[:p, ...] (basic slices clamp) *)
Definition slice_last {A} (t : tensor A) (p : nat) : tensor A :=
  let sh := tshape t in mkT (removelast sh ++ [Nat.min p (last sh 0)]) (tent t).
Definition slice_first {A} (t : tensor A) (p : nat) : tensor A :=
  let sh := tshape t in mkT (Nat.min p (hd 0 sh) :: tl sh) (tent t).

(* ---- split modes and kernel shape contracts ------------------------------------------- *)
Inductive mode := FULL | REDUCED | KEEP.

(* np.linalg.qr(m x n, mode=numpy_qr_mode): "complete" for FULL, "reduced" otherwise *)
Definition qr_kernel_shapes (md : mode) (m n : nat) : (nat * nat) * (nat * nat) :=
  match md with
  | FULL => ((m, m), (m, n))
  | _ => ((m, Nat.min m n), (Nat.min m n, n))
  end.

(* np.linalg.svd(m x n, full_matrices = mode is not REDUCED) *)
Definition svd_kernel_shapes (md : mode) (m n : nat) : (nat * nat) * nat * (nat * nat) :=
  match md with
  | REDUCED => ((m, Nat.min m n), Nat.min m n, (Nat.min m n, n))
  | _ => ((m, m), Nat.min m n, (n, n))
  end.

Definition determine_tensor_shape (old_shape : list nat) (mshape : nat * nat) (legs : list nat)
    (output : bool) : list nat :=
  if output then dims old_shape legs ++ [snd mshape] else fst mshape :: dims old_shape legs.

Definition matrix (A : Type) := nat -> nat -> A.

(* tensor_qr_decomposition.  `qr md m n M` stands for np.linalg.qr of the m x n matrix M. *)
Definition tensor_qr {A} (zero : A)
    (qr : mode -> nat -> nat -> matrix A -> matrix A * matrix A)
    (md : mode) (t : tensor A) (q_legs r_legs : list nat) : option (tensor A * tensor A) :=
  match matricize t q_legs r_legs with
  | None => None
  | Some M =>
      let m := nth 0 (tshape M) 0 in
      let n := nth 1 (tshape M) 0 in
      let QR := qr md m n (tensor_mat M) in
      let shp := qr_kernel_shapes md m n in
      let qs := fst shp in let rs := snd shp in
      let q := reshape (mat_tensor (fst qs) (snd qs) (fst QR)) (determine_tensor_shape (tshape t) qs q_legs true) in
      let r := reshape (mat_tensor (fst rs) (snd rs) (snd QR)) (determine_tensor_shape (tshape t) rs r_legs false) in
      match md with
      | KEEP =>
          match r_legs with
          | [] => None        (* np.prod(()) is the float 1.0; np.pad raises TypeError *)
          | _ => let diff := size (tl (tshape r)) - last (tshape q) 0 in
                 Some (pad_last zero q diff, pad_first zero r diff)
          end
      | _ => Some (q, r)
      end
  end.

(* tensor_svd.  `svd md m n M` stands for np.linalg.svd; the singular values are a function on [0, p) *)
Definition tensor_svd {A}
    (svd : mode -> nat -> nat -> matrix A -> matrix A * (nat -> A) * matrix A)
    (md : mode) (t : tensor A) (u_legs v_legs : list nat) : option (tensor A * (nat * (nat -> A)) * tensor A) :=
  match matricize t u_legs v_legs with
  | None => None
  | Some M =>
      let m := nth 0 (tshape M) 0 in
      let n := nth 1 (tshape M) 0 in
      let USV := svd md m n (tensor_mat M) in
      let shp := svd_kernel_shapes md m n in
      let us := fst (fst shp) in let p := snd (fst shp) in let vs := snd shp in
      let u := reshape (mat_tensor (fst us) (snd us) (fst (fst USV))) (determine_tensor_shape (tshape t) us u_legs true) in
      let vh := reshape (mat_tensor (fst vs) (snd vs) (snd USV)) (determine_tensor_shape (tshape t) vs v_legs false) in
      Some (u, (p, snd (fst USV)), vh)
  end.

(* truncated_tensor_svd: `trunc p s` stands for truncate_singular_values (length and values of new_s) *)
Definition truncated_tensor_svd {A}
    (svd : mode -> nat -> nat -> matrix A -> matrix A * (nat -> A) * matrix A)
    (trunc : nat -> (nat -> A) -> nat * (nat -> A))
    (t : tensor A) (u_legs v_legs : list nat) : option (tensor A * (nat * (nat -> A)) * tensor A) :=
  match tensor_svd svd REDUCED t u_legs v_legs with
  | None => None
  | Some (u, (p, s), vh) =>
      let ns := trunc p s in
      Some (slice_last u (fst ns), ns, slice_first vh (fst ns))
  end.

(* ---- shapes only (evaluated by the correspondence check) ------------------------------- *)
Definition enc (s : list nat) : tensor nat := mkT s (flatten s).       (* index-encoding tensor *)

Definition tab_opt (o : option (tensor nat)) : option (list nat * list nat) :=
  match o with Some t => Some (tshape t, tabulate t) | None => None end.

Definition matricize_enc (s ol il : list nat) := tab_opt (matricize (enc s) ol il).
Definition transpose_enc (s fl ll : list nat) := tab_opt (transpose_by_leg_list (enc s) fl ll).

(* comparison inside Coq (keeps the printed output small): the implementation's entries are passed in as
   binary numbers; result = the model's shape and the first position where the entries differ *)
Fixpoint first_diff (a b : list N) (i : nat) : option nat :=
  match a, b with
  | [], [] => None
  | x :: a', y :: b' => if N.eqb x y then first_diff a' b' (S i) else Some i
  | _, _ => Some i
  end.
Definition cmp_enc (o : option (list nat * list nat)) (impl_entries : list N) : option (list nat * option nat) :=
  match o with
  | Some (sh, es) => Some (sh, first_diff (map N.of_nat es) impl_entries 0)
  | None => None
  end.

Definition dummy_qr (md : mode) (m n : nat) (M : matrix nat) : matrix nat * matrix nat :=
  (fun _ _ => 0, fun _ _ => 0).
Definition dummy_svd (md : mode) (m n : nat) (M : matrix nat) : matrix nat * (nat -> nat) * matrix nat :=
  (fun _ _ => 0, fun _ => 0, fun _ _ => 0).

Definition qr_shapes (md : mode) (s ql rl : list nat) : option (list nat * list nat) :=
  match tensor_qr 0 dummy_qr md (enc s) ql rl with
  | Some (q, r) => Some (tshape q, tshape r)
  | None => None
  end.

Definition svd_shapes (md : mode) (s ul vl : list nat) : option (list nat * nat * list nat) :=
  match tensor_svd dummy_svd md (enc s) ul vl with
  | Some (u, (p, _), vh) => Some (tshape u, p, tshape vh)
  | None => None
  end.

(* shapes of truncated_tensor_svd when truncate_singular_values returns p' values *)
Definition trunc_shapes (p' : nat) (s ul vl : list nat) : option (list nat * nat * list nat) :=
  match truncated_tensor_svd dummy_svd (fun _ f => (p', f)) (enc s) ul vl with
  | Some (u, (p, _), vh) => Some (tshape u, p, tshape vh)
  | None => None
  end.

(* the bond dimension each mode prescribes, for an m x n matricisation *)
Definition qr_bond (md : mode) (m n : nat) : nat :=
  match md with FULL => m | REDUCED => Nat.min m n | KEEP => n end.

(* ---- ring-valued part: products, contractions over the bond ---------------------------- *)
Section Ring.
  Variable R : Type.
  Variables (rO : R) (radd rmul : R -> R -> R).

  Fixpoint sum_n (f : nat -> R) (n : nat) : R :=
    match n with O => rO | S n' => radd (sum_n f n') (f n') end.

  (* nested sum over the index box of a shape (tensordot over several axes) *)
  Fixpoint sum_box (s : list nat) (f : list nat -> R) : R :=
    match s with
    | [] => f []
    | d :: s' => sum_n (fun i => sum_box s' (fun idx => f (i :: idx))) d
    end.

  Definition mmul (k : nat) (A B : matrix R) : matrix R :=
    fun i j => sum_n (fun l => rmul (A i l) (B l j)) k.

  Definition pad_cols (k : nat) (A : matrix R) : matrix R := fun i l => if l <? k then A i l else rO.
  Definition pad_rows (k : nat) (B : matrix R) : matrix R := fun l j => if l <? k then B l j else rO.

  (* np.tensordot(a, b, axes=(-1, 0)); numpy demands last (tshape a) = hd (tshape b) *)
  Definition contract_bond (a b : tensor R) : tensor R :=
    let sa := tshape a in
    let na := length sa - 1 in
    mkT (removelast sa ++ tl (tshape b))
        (fun idx => sum_n (fun l => rmul (tent a (firstn na idx ++ [l])) (tent b (l :: skipn na idx)))
                          (last sa 0)).

  (* np.diag(s) for a vector of length p *)
  Definition diag (p : nat) (s : nat -> R) : tensor R :=
    mkT [p; p] (fun idx => if nth 0 idx 0 =? nth 1 idx 0 then s (nth 0 idx 0) else rO).

  (* u[..., :p] * s  (broadcast over the last axis) *)
  Definition scale_last (u : tensor R) (s : nat -> R) : tensor R :=
    mkT (tshape u) (fun idx => rmul (tent u idx) (s (last idx 0))).

  Inductive cmode := UCONTR | VCONTR | EQUAL.

  (* the tail of contr_truncated_svd_splitting; `rs` stands for np.sqrt(s) *)
  Definition contr_split (cm : cmode) (u : tensor R) (p : nat) (s rs : nat -> R) (vh : tensor R)
      : tensor R * tensor R :=
    match cm with
    | VCONTR => (u, contract_bond (diag p s) vh)
    | UCONTR => (contract_bond u (diag p s), vh)
    | EQUAL => (contract_bond u (diag p rs), contract_bond (diag p rs) vh)
    end.

  (* Gram matrix of a tensor over all legs but the last (compute_transfer_tensor over the kept legs),
     `cj` stands for complex conjugation *)
  Definition gram_last (cj : R -> R) (q : tensor R) : matrix R :=
    fun a b => sum_box (removelast (tshape q)) (fun iq => rmul (cj (tent q (iq ++ [a]))) (tent q (iq ++ [b]))).

  Definition gram_cols (cj : R -> R) (m : nat) (Q : matrix R) : matrix R :=
    fun a b => sum_n (fun r => rmul (cj (Q r a)) (Q r b)) m.

  (* the same for a tensor whose bond is the first leg (Vh): rows against conjugated rows *)
  Definition gram_first (cj : R -> R) (v : tensor R) : matrix R :=
    fun a b => sum_box (tl (tshape v)) (fun ir => rmul (tent v (a :: ir)) (cj (tent v (b :: ir)))).

  Definition gram_rows (cj : R -> R) (n : nat) (V : matrix R) : matrix R :=
    fun a b => sum_n (fun c => rmul (V a c) (cj (V b c))) n.
End Ring.

Arguments sum_n {R}. Arguments sum_box {R}. Arguments mmul {R}. Arguments pad_cols {R}. Arguments pad_rows {R}.
Arguments contract_bond {R}. Arguments diag {R}. Arguments scale_last {R}. Arguments contr_split {R}.
Arguments gram_last {R}. Arguments gram_cols {R}. Arguments gram_first {R}. Arguments gram_rows {R}.

Definition contr_shapes (cm : cmode) (p' : nat) (s ul vl : list nat) : option (list nat * list nat) :=
  match truncated_tensor_svd dummy_svd (fun _ f => (p', f)) (enc s) ul vl with
  | Some (u, (p, sv), vh) =>
      let ab := contr_split 0 Nat.add Nat.mul cm u p sv sv vh in
      Some (tshape (fst ab), tshape (snd ab))
  | None => None
  end.

(* ---- a concrete instance over Z used by the non-vacuity examples ------------------------ *)
(* a kernel that satisfies the product contract exactly: one factor is the identity *)
Definition idmat : matrix Z := fun i j => if i =? j then 1%Z else 0%Z.
Definition idqr (md : mode) (m n : nat) (M : matrix Z) : matrix Z * matrix Z :=
  match md with
  | FULL => (idmat, M)
  | _ => if m <=? n then (idmat, M) else (M, idmat)
  end.
Definition ex_tensor : tensor Z :=
  mkT [2; 3; 2] (fun idx => let c := Z.of_nat (flatten [2; 3; 2] idx) in (c * c - 7)%Z).
Definition qr_roundtrip (md : mode) (t : tensor Z) (ql rl : list nat) : option (list nat * list nat * list Z) :=
  match tensor_qr 0%Z idqr md t ql rl with
  | Some (q, r) => Some (tshape q, tshape r, tabulate (contract_bond 0%Z Z.add Z.mul q r))
  | None => None
  end.
