(* Proofs about Models/Ising.v: shape of the term list, tree edges each once, grid edges each once
   (all grid sizes), one field term per site, term counts, denotation. *)
From Coq Require Import List Arith Bool ZArith Lia Permutation.
From PTN Require Import Tree.RTree Tree.RTreeProofs Models.Ising.
Import ListNotations.

(* ---- generic list facts ------------------------------------------------------------------------- *)
Lemma NoDup_flat_map_key {A B} (f : A -> list B) (key : B -> A) (l : list A) :
  (forall x y, In y (f x) -> key y = x) -> NoDup l -> (forall x, In x l -> NoDup (f x)) -> NoDup (flat_map f l).
Proof.
  intros Hk Hl Hf. induction l as [|a t IH]; simpl; [constructor|].
  inversion Hl as [|? ? Ha Ht]; subst.
  apply NoDup_app_intro.
  - apply Hf; simpl; auto.
  - apply IH; auto. intros x Hx; apply Hf; simpl; auto.
  - intros y Hy1 Hy2. apply in_flat_map in Hy2. destruct Hy2 as (x & Hx & Hy2).
    apply Hk in Hy1. apply Hk in Hy2. subst. auto.
Qed.

Lemma length_flat_map {A B} (f : A -> list B) l : length (flat_map f l) = list_sum (map (fun x => length (f x)) l).
Proof. induction l; simpl; auto. rewrite app_length, IHl. reflexivity. Qed.

Lemma list_sum_const {A} (l : list A) c : list_sum (map (fun _ => c) l) = length l * c.
Proof. induction l; simpl; auto. Qed.

(* ---- the term list ---------------------------------------------------------------------------------- *)
Section TermFacts.
  Context {S : Type}.
  Variable eqb : S -> S -> bool.

  Theorem ising_terms_length (sites : list S) nn : length (ising_terms eqb sites nn) = length sites + length nn.
  Proof. unfold ising_terms, single_terms, nn_terms. rewrite app_length, !map_length. reflexivity. Qed.

  (* every term carries the factor -1; the k-th single-site term is the field on site k with the
     symbol ext_magn, the k-th two-site term the coupling of pair k with the symbol coupling *)
  Theorem ising_terms_shape (sites : list S) nn :
    ising_terms eqb sites nn
    = map (fun i => ((-1)%Z, CExtMagn, [(i, OpExt)])) sites
      ++ map (fun ij => ((-1)%Z, CCoupling, if eqb (fst ij) (snd ij) then [(fst ij, OpNN)] else [(fst ij, OpNN); (snd ij, OpNN)])) nn.
  Proof. reflexivity. Qed.

  Theorem ising_terms_factor (sites : list S) nn t : In t (ising_terms eqb sites nn) -> fst (fst t) = (-1)%Z.
  Proof.
    unfold ising_terms, single_terms, nn_terms. intros H. apply in_app_or in H.
    destruct H as [H|H]; apply in_map_iff in H; destruct H as (x & <- & _); reflexivity.
  Qed.

  Hypothesis eqb_spec : forall a b, eqb a b = true <-> a = b.

  Lemma memS_In x l : memS eqb x l = true <-> In x l.
  Proof.
    unfold memS. rewrite existsb_exists. split.
    - intros (y & Hy & E). apply eqb_spec in E. subst; auto.
    - intros H. exists x. split; auto. apply eqb_spec; auto.
  Qed.

  (* list(set(...)): no repetition, same members *)
  Lemma dedup_spec l : forall seen,
    NoDup (dedup eqb l seen) /\ (forall x, In x (dedup eqb l seen) <-> In x l /\ ~ In x seen).
  Proof.
    induction l as [|a t IH]; intros seen; simpl.
    - split; [constructor|]. intros x; tauto.
    - destruct (memS eqb a seen) eqn:E.
      + apply memS_In in E. destruct (IH seen) as [H1 H2]. split; auto.
        intros x. rewrite H2. split; [tauto|]. intros [[->|H] Hn]; tauto.
      + assert (Ha : ~ In a seen) by (intros H; apply memS_In in H; congruence).
        destruct (IH (a :: seen)) as [H1 H2]. split.
        * constructor; auto. rewrite H2. simpl. tauto.
        * intros x. simpl. rewrite H2. simpl. split.
          -- intros [->|[H3 H4]]; tauto.
          -- intros [[->|H3] H4]; auto.
             destruct (eqb a x) eqn:E2; [apply eqb_spec in E2; auto|].
             right. split; auto. intros [->|H5]; auto.
             assert (eqb x x = true) by (apply eqb_spec; auto). congruence.
  Qed.

  Theorem dedup_NoDup l : NoDup (dedup eqb l []).
  Proof. apply dedup_spec. Qed.
  Theorem dedup_In l x : In x (dedup eqb l []) <-> In x l.
  Proof. rewrite (proj2 (dedup_spec l [])). simpl. tauto. Qed.
End TermFacts.

(* ---- trees -------------------------------------------------------------------------------------------- *)
Lemma NoDup_map_pair {A B} (a : A) (l : list B) : NoDup l -> NoDup (map (fun c => (a, c)) l).
Proof.
  induction 1; simpl; constructor; auto. rewrite in_map_iff. intros (y & E & Hy). inversion E; subst; auto.
Qed.

Lemma edges_NoDup t : NoDup (ids t) -> NoDup (edges t).
Proof.
  induction t as [i cs IH] using rtree_ind2. intros Hnd.
  simpl. pose proof (wf_inv _ _ Hnd) as Hinv.
  apply NoDup_app_intro.
  - (* the root's own edges *)
    clear IH. assert (Hc : NoDup (map rid cs)).
    { simpl in Hnd. inversion Hnd as [|? ? _ Hf]; subst. clear - Hf.
      induction cs as [|c cs IHc]; simpl; [constructor|].
      simpl in Hf. apply NoDup_app_inv in Hf. destruct Hf as (Hc1 & Hc2 & Hc3).
      constructor; auto. rewrite in_map_iff. intros (c' & E & Hc'). apply (Hc3 (rid c)).
      - apply rid_in_ids.
      - apply in_flat_map. exists c'. split; auto. rewrite <- E. apply rid_in_ids. }
    rewrite <- (map_map rid (fun x => (i, x))). apply NoDup_map_pair; auto.
  - (* the children's edge lists *)
    simpl in Hnd. inversion Hnd as [|? ? Hi Hf]; subst. clear Hnd Hinv Hi.
    induction cs as [|c cs IHc]; simpl; [constructor|].
    simpl in Hf. apply NoDup_app_inv in Hf. destruct Hf as (Hc1 & Hc2 & Hc3).
    inversion IH as [|? ? IHc0 IHcs]; subst.
    apply NoDup_app_intro; auto.
    intros [p x] H1 H2. apply edges_in_ids in H1. destruct H1 as [_ H1].
    apply in_flat_map in H2. destruct H2 as (c' & Hc' & H2). apply edges_in_ids in H2. destruct H2 as [_ H2].
    apply (Hc3 x); auto. apply in_flat_map. eauto.
  - intros [p x] H1 H2. apply in_map_iff in H1. destruct H1 as (c & E & Hc). inversion E; subst.
    apply in_flat_map in H2. destruct H2 as (c' & Hc' & H2). apply edges_in_ids in H2. destruct H2 as [H2 _].
    eapply wf_root_notin_child; eauto.
Qed.

(* nearest_neighbours lists every tree edge exactly once, whatever the dictionary order *)
Theorem tree_nn_perm t ord : NoDup (ids t) -> Permutation ord (ids t) -> Permutation (tree_nn t ord) (edges t).
Proof.
  intros Hnd Hp. apply NoDup_Permutation.
  - unfold tree_nn. apply NoDup_flat_map_key with (key := fst).
    + intros x y Hy. apply in_map_iff in Hy. destruct Hy as (c & <- & _). reflexivity.
    + eapply Permutation_NoDup; [apply Permutation_sym; eauto|auto].
    + intros x _. apply NoDup_map_pair.
      unfold children_ids. destruct (subtree x t) as [s|] eqn:E; [|constructor].
      apply subtree_sound in E. destruct E as [_ Hs]. pose proof (is_subtree_wf _ _ Hs Hnd) as Hw.
      destruct s as [j cs]. simpl in *. inversion Hw as [|? ? _ Hf]; subst. clear - Hf.
      induction cs as [|c cs IHc]; simpl; [constructor|].
      simpl in Hf. apply NoDup_app_inv in Hf. destruct Hf as (Hc1 & Hc2 & Hc3).
      constructor; auto. rewrite in_map_iff. intros (c' & E & Hc'). apply (Hc3 (rid c)).
      * apply rid_in_ids.
      * apply in_flat_map. exists c'. split; auto. rewrite <- E. apply rid_in_ids.
  - apply edges_NoDup; auto.
  - intros [p c]. unfold tree_nn. rewrite in_flat_map. split.
    + intros (k & Hk & H). apply in_map_iff in H. destruct H as (c' & E & Hc'). inversion E; subst.
      apply children_ids_edges; auto.
    + intros H. exists p. split.
      * eapply Permutation_in; [apply Permutation_sym; eauto|]. apply edges_in_ids in H. tauto.
      * apply in_map_iff. exists c. split; auto. apply children_ids_edges; auto.
Qed.

Theorem ising_tree_count t ord : NoDup (ids t) -> Permutation ord (ids t) ->
  length (ising_of_tree t ord) = 2 * size t - 1.
Proof.
  intros Hnd Hp. unfold ising_of_tree. rewrite ising_terms_length.
  rewrite (Permutation_length (tree_nn_perm t ord Hnd Hp)).
  rewrite (Permutation_length Hp), <- size_length_ids.
  pose proof (edges_length t). lia.
Qed.

(* ---- grids ---------------------------------------------------------------------------------------------- *)
Definition grid_edge (r c : nat) (e : site2 * site2) : Prop :=
  let '((i, j), b) := e in
  i < r /\ j < c /\ ((b = (S i, j) /\ S i < r) \/ (b = (i, S j) /\ S j < c)).

Lemma cell_pairs_In r c i j e :
  In e (cell_pairs r c i j) <-> (e = ((i, j), (S i, j)) /\ S i < r) \/ (e = ((i, j), (i, S j)) /\ S j < c).
Proof.
  unfold cell_pairs. rewrite in_app_iff.
  destruct (Nat.ltb_spec (S i) r); destruct (Nat.ltb_spec (S j) c); simpl; intuition (try lia; eauto).
Qed.

Theorem grid_pairs_spec r c e : In e (grid_pairs r c) <-> grid_edge r c e.
Proof.
  unfold grid_pairs. rewrite in_flat_map. split.
  - intros (i & Hi & H). apply in_flat_map in H. destruct H as (j & Hj & H).
    apply in_seq in Hi. apply in_seq in Hj. apply cell_pairs_In in H.
    destruct H as [[-> H]|[-> H]]; simpl; intuition lia.
  - destruct e as [[i j] b]. simpl. intros (Hi & Hj & H).
    exists i. split; [apply in_seq; lia|]. apply in_flat_map. exists j. split; [apply in_seq; lia|].
    apply cell_pairs_In. destruct H as [[-> H]|[-> H]]; auto.
Qed.

Lemma cell_pairs_NoDup r c i j : NoDup (cell_pairs r c i j).
Proof.
  unfold cell_pairs. destruct (S i <? r); destruct (S j <? c); simpl; repeat constructor; simpl; auto.
  intros [E|[]]. inversion E. lia.
Qed.

(* each grid edge appears exactly once *)
Theorem grid_pairs_NoDup r c : NoDup (grid_pairs r c).
Proof.
  unfold grid_pairs. apply NoDup_flat_map_key with (key := fun e => fst (fst e)).
  - intros i e H. apply in_flat_map in H. destruct H as (j & _ & H). apply cell_pairs_In in H.
    destruct H as [[-> _]|[-> _]]; reflexivity.
  - apply seq_NoDup.
  - intros i _. apply NoDup_flat_map_key with (key := fun e => snd (fst e)).
    + intros j e H. apply cell_pairs_In in H. destruct H as [[-> _]|[-> _]]; reflexivity.
    + apply seq_NoDup.
    + intros j _. apply cell_pairs_NoDup.
Qed.

Definition site2_dec : forall a b : site2, {a = b} + {a <> b}.
Proof. decide equality; apply Nat.eq_dec. Defined.
Definition edge2_dec : forall a b : site2 * site2, {a = b} + {a <> b}.
Proof. decide equality; apply site2_dec. Defined.

Theorem grid_edge_exactly_once r c e : grid_edge r c e -> count_occ edge2_dec (grid_pairs r c) e = 1.
Proof.
  intros H. apply grid_pairs_spec in H.
  pose proof (grid_pairs_NoDup r c) as Hnd.
  rewrite (NoDup_count_occ edge2_dec) in Hnd. specialize (Hnd e).
  apply (count_occ_In edge2_dec) in H. lia.
Qed.

(* an edge never appears in the reversed orientation as well *)
Theorem grid_pairs_oriented r c a b : In (a, b) (grid_pairs r c) -> ~ In (b, a) (grid_pairs r c).
Proof.
  rewrite !grid_pairs_spec. destruct a as [i j]. destruct b as [i' j']. simpl.
  intros (_ & _ & H) (_ & _ & H'). destruct H as [[E _]|[E _]]; inversion E; subst;
    destruct H' as [[E' _]|[E' _]]; inversion E'; lia.
Qed.

Lemma count_lt (c : nat) : forall n, n <= c ->
  list_sum (map (fun j => if S j <? c then 1 else 0) (seq 0 n)) = Nat.min n (c - 1).
Proof.
  induction n as [|n IH]; intros H; auto.
  rewrite seq_S, map_app, list_sum_app, IH by lia. cbn [map Nat.add]. unfold list_sum. cbn [fold_right].
  destruct (Nat.ltb_spec (S n) c); lia.
Qed.

Lemma cell_pairs_length r c i j :
  length (cell_pairs r c i j) = (if S i <? r then 1 else 0) + (if S j <? c then 1 else 0).
Proof. unfold cell_pairs. rewrite app_length. destruct (S i <? r); destruct (S j <? c); reflexivity. Qed.

Lemma list_sum_plus {A} (f g : A -> nat) l :
  list_sum (map (fun x => f x + g x) l) = list_sum (map f l) + list_sum (map g l).
Proof. induction l; simpl; auto. lia. Qed.

(* the number of coupling terms of an r x c grid *)
Theorem grid_pairs_length r c : length (grid_pairs r c) = (r - 1) * c + r * (c - 1).
Proof.
  unfold grid_pairs. rewrite length_flat_map.
  erewrite map_ext; [|intros i; rewrite length_flat_map;
                      erewrite map_ext; [|intros j; apply cell_pairs_length];
                      rewrite list_sum_plus, list_sum_const, seq_length, count_lt by lia; reflexivity].
  rewrite list_sum_plus, list_sum_const, seq_length.
  erewrite (map_ext (fun i => c * (if S i <? r then 1 else 0)) (fun i => (if S i <? r then 1 else 0) * c))
    by (intros; lia).
  assert (E : forall n, n <= r -> list_sum (map (fun i => (if S i <? r then 1 else 0) * c) (seq 0 n)) = Nat.min n (r - 1) * c).
  { induction n as [|n IH]; intros H; auto.
    rewrite seq_S, map_app, list_sum_app, IH by lia. cbn [map Nat.add]. unfold list_sum. cbn [fold_right].
    destruct (Nat.ltb_spec (S n) r); nia. }
  rewrite E by lia. rewrite Nat.min_r by lia.
  rewrite (Nat.min_r c (c - 1)) by lia. reflexivity.
Qed.

(* sites: every site of a grid with at least two sites occurs in some pair *)
Theorem grid_sites_covered r c i j : 2 <= r * c -> i < r -> j < c ->
  In (i, j) (flat_pairs (grid_pairs r c)).
Proof.
  intros H2 Hi Hj. unfold flat_pairs. apply in_flat_map.
  destruct (Nat.ltb_spec (S i) r) as [A|A].
  - exists ((i, j), (S i, j)). split; [apply grid_pairs_spec; simpl; auto 10|simpl; auto].
  - destruct (Nat.ltb_spec (S j) c) as [B|B].
    + exists ((i, j), (i, S j)). split; [apply grid_pairs_spec; simpl; auto 10|simpl; auto].
    + (* last row and last column: a neighbour above or to the left *)
      destruct i as [|i].
      * destruct j as [|j]; [nia|].
        exists ((0, j), (0, S j)). split; [apply grid_pairs_spec; simpl; intuition lia|simpl; auto].
      * exists ((i, j), (S i, j)). split; [apply grid_pairs_spec; simpl; intuition lia|simpl; auto].
Qed.

Theorem grid_sites_in_range r c s : In s (flat_pairs (grid_pairs r c)) -> fst s < r /\ snd s < c.
Proof.
  unfold flat_pairs. rewrite in_flat_map. intros ([[i j] b] & H & Hs). apply grid_pairs_spec in H. simpl in H.
  destruct H as (Hi & Hj & H). simpl in Hs.
  destruct Hs as [<-|[<-|[]]]; simpl; auto.
  destruct H as [[-> H]|[-> H]]; simpl; lia.
Qed.

Lemma site2_eqb_spec a b : site2_eqb a b = true <-> a = b.
Proof.
  destruct a, b. unfold site2_eqb. simpl. rewrite andb_true_iff, !Nat.eqb_eq. split; [intros []; subst; auto|].
  intros E; inversion E; auto.
Qed.

(* r*c >= 2: the single-site block is a permutation of the grid sites, so every site gets exactly
   one field term *)
Theorem grid_single_sites r c : 2 <= r * c ->
  Permutation (dedup site2_eqb (flat_pairs (grid_pairs r c)) []) (list_prod (seq 0 r) (seq 0 c)).
Proof.
  intros H. apply NoDup_Permutation.
  - apply dedup_NoDup. apply site2_eqb_spec.
  - clear H. assert (G : forall (l1 l2 : list nat), NoDup l1 -> NoDup l2 -> NoDup (list_prod l1 l2)).
    { induction l1 as [|a l1 IH]; intros l2 H1 H2; simpl; [constructor|].
      inversion H1; subst. apply NoDup_app_intro.
      - apply NoDup_map_pair; auto.
      - apply IH; auto.
      - intros [x y] Hx Hy. apply in_map_iff in Hx. destruct Hx as (z & E & _). inversion E; subst.
        apply in_prod_iff in Hy. tauto. }
    apply G; apply seq_NoDup.
  - intros [i j]. rewrite dedup_In by apply site2_eqb_spec. split.
    + intros Hs. apply grid_sites_in_range in Hs. simpl in Hs. apply in_prod_iff. rewrite !in_seq. lia.
    + intros Hs. apply in_prod_iff in Hs. rewrite !in_seq in Hs. apply grid_sites_covered; lia.
Qed.

Theorem ising_grid_count r c : 2 <= r * c ->
  length (ising_of_pairs site2_eqb (grid_pairs r c)) = r * c + ((r - 1) * c + r * (c - 1)).
Proof.
  intros H. unfold ising_of_pairs. rewrite ising_terms_length, grid_pairs_length.
  pose proof (Permutation_length (grid_single_sites r c H)) as E.
  unfold site2 in *. rewrite prod_length, !seq_length in E. rewrite E. reflexivity.
Qed.

(* the 1 x 1 grid: no pair, hence no single-site term either — the field term of the only site is lost *)
Theorem ising_grid_1x1_no_terms : ising_of_grid 1 1 = Some [].
Proof. reflexivity. Qed.

(* ---- exact dense builder: same multiset of terms as the symbolic builder on the chain ------------------ *)
Theorem exact_terms_perm n :
  Permutation (exact_ising_terms n) (ising_terms Nat.eqb (seq 0 n) (chain_pairs n)).
Proof. unfold exact_ising_terms, ising_terms. apply Permutation_app_comm. Qed.

Theorem chain_pairs_is_grid_row n :
  map (fun p => ((0, fst p), (0, snd p))) (chain_pairs n) = grid_pairs 1 n.
Proof.
  unfold chain_pairs, grid_pairs. simpl. rewrite app_nil_r, map_map. simpl.
  destruct n as [|n]; [reflexivity|]. simpl. rewrite Nat.sub_0_r.
  assert (G : forall k a, a + k = n ->
              map (fun x => ((0, x), (0, S x))) (seq a k) = flat_map (fun j => cell_pairs 1 (S n) 0 j) (seq a (S k))).
  { induction k as [|k IH]; intros a H.
    - simpl. unfold cell_pairs. simpl. assert (E : (S a <? S n) = false) by (apply Nat.ltb_ge; lia). rewrite E. reflexivity.
    - cbn [seq map flat_map]. rewrite (IH (S a)) by lia.
      assert (E : cell_pairs 1 (S n) 0 a = [((0, a), (0, S a))]).
      { unfold cell_pairs. assert (E : (S a <? S n) = true) by (apply Nat.ltb_lt; lia). rewrite E. reflexivity. }
      rewrite E. reflexivity. }
  apply (G n 0). lia.
Qed.

(* ---- denotation ----------------------------------------------------------------------------------------------- *)
Section DenoteFacts.
  Context {S R M : Type}.
  Variables (zero : M) (add : M -> M -> M) (smul : R -> M -> M) (rmul : R -> R -> R) (ofZ : Z -> R).
  Variable cval : coef -> R.
  Variable mono : list (S * opsym) -> M.
  Variable eqb : S -> S -> bool.
  Hypothesis add_assoc : forall a b c, add (add a b) c = add a (add b c).
  Hypothesis add_zero_l : forall a, add zero a = a.

  Lemma msum_app l1 l2 : msum zero add (l1 ++ l2) = add (msum zero add l1) (msum zero add l2).
  Proof. induction l1; simpl; [rewrite add_zero_l; auto|]. rewrite IHl1, add_assoc. reflexivity. Qed.

  (* the term list denotes  sum_i (-1 * g) B_i  +  sum_<ij> (-1 * J) A_i A_j *)
  Theorem ising_denotes (sites : list S) (nn : list (S * S)) :
    (forall p, In p nn -> eqb (fst p) (snd p) = false) ->
    eval_terms zero add smul rmul ofZ cval mono (ising_terms eqb sites nn)
    = add (msum zero add (map (fun i => smul (rmul (ofZ (-1)) (cval CExtMagn)) (mono [(i, OpExt)])) sites))
          (msum zero add (map (fun ij => smul (rmul (ofZ (-1)) (cval CCoupling)) (mono [(fst ij, OpNN); (snd ij, OpNN)])) nn)).
  Proof.
    intros Hd. unfold eval_terms, ising_terms. rewrite map_app, msum_app. f_equal.
    - unfold single_terms. rewrite map_map. reflexivity.
    - unfold nn_terms. rewrite map_map. f_equal. apply map_ext_in. intros p Hp. simpl. rewrite Hd by auto. reflexivity.
  Qed.
End DenoteFacts.
