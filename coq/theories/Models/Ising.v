(* Model of the Ising builders: pytreenet/operators/models.py (_abstract_ising_model,
   _get_ham_objects, _abstract_2D_ising, _grid_from_structure, _find_nn_pairs),
   sim_operators.py (single_site_operators, create_single_site_hamiltonian,
   create_nearest_neighbour_hamiltonian) and the term structure of
   exact_operators._exact_abstract_ising_model.
   A Hamiltonian term is (Fraction factor, coefficient symbol, TensorProduct) with the
   TensorProduct an insertion-ordered dictionary site -> operator symbol.
   Definitions only; proofs are in IsingProofs.v. *)
From Coq Require Import List Arith Bool ZArith.
From PTN Require Import Tree.RTree.
Import ListNotations.

Inductive coef := C1 | CExtMagn | CCoupling.        (* "1", "ext_magn", "coupling" *)
Inductive opsym := OpExt | OpNN | OpI1 | OpI2.      (* ext_magn_op[0], nn_op[0], "I1", "I2" *)

Section Terms.
  Context {S : Type}.
  Variable eqb : S -> S -> bool.

  Definition term : Type := Z * coef * list (S * opsym).

  (* single_site_operators(op, ids, factor=(Fraction(-1), "ext_magn")) -> dict values, in the order
     of the identifiers *)
  Definition single_terms (sites : list S) : list term :=
    map (fun i => ((-1)%Z, CExtMagn, [(i, OpExt)])) sites.

  (* TensorProduct({id1: A, id2: A}): a dictionary, so equal identifiers collapse to one entry *)
  Definition nn_terms (nn : list (S * S)) : list term :=
    map (fun ij => ((-1)%Z, CCoupling,
                    if eqb (fst ij) (snd ij) then [(fst ij, OpNN)] else [(fst ij, OpNN); (snd ij, OpNN)])) nn.

  (* ham.add_hamiltonian(single_site_ham); ham.add_hamiltonian(nearest_neighbour_ham) *)
  Definition ising_terms (sites : list S) (nn : list (S * S)) : list term :=
    single_terms sites ++ nn_terms nn.

  (* [identifier for pair in ref_tree for identifier in pair] *)
  Definition flat_pairs (nn : list (S * S)) : list S := flat_map (fun p => [fst p; snd p]) nn.

  (* list(set(...)): the model keeps first occurrences in order; the code's order is Python's hash
     order, so the single-site block is compared as a multiset *)
  Definition memS (x : S) (l : list S) : bool := existsb (eqb x) l.
  Fixpoint dedup (l : list S) (seen : list S) : list S :=
    match l with
    | [] => []
    | x :: t => if memS x seen then dedup t seen else x :: dedup t (x :: seen)
    end.

  (* _abstract_ising_model on a list of nearest-neighbour pairs *)
  Definition ising_of_pairs (nn : list (S * S)) : list term :=
    ising_terms (dedup (flat_pairs nn) []) nn.
End Terms.

(* keys of coeffs_mapping and of conversion_dictionary, in insertion order: Hamiltonian() starts with
   {"1": 1}; update(single) ; update(nn) ; include_identities([1, 2]) *)
Definition ising_coeff_keys : list coef := [C1; CExtMagn; CCoupling].
Definition ising_conv_keys : list opsym := [OpExt; OpNN; OpI1; OpI2].

(* ---- trees: TreeStructure.nearest_neighbours() = for node in dict order, for child in children --- *)
Definition tree_nn (t : rtree) (ord : list nat) : list (nat * nat) :=
  flat_map (fun k => map (fun c => (k, c)) (children_ids t k)) ord.
(* _abstract_ising_model on a TreeStructure whose node dictionary has key order ord *)
Definition ising_of_tree (t : rtree) (ord : list nat) : list (@term nat) :=
  ising_terms Nat.eqb ord (tree_nn t ord).

(* ---- grids: _find_nn_pairs on a rows x cols grid, site (i, j) = f"{prefix}{i}_{j}" ----------------- *)
Definition site2 : Type := nat * nat.
Definition site2_eqb (a b : site2) : bool := Nat.eqb (fst a) (fst b) && Nat.eqb (snd a) (snd b).
Definition cell_pairs (r c i j : nat) : list (site2 * site2) :=
  (if S i <? r then [((i, j), (S i, j))] else []) ++ (if S j <? c then [((i, j), (i, S j))] else []).
Definition grid_pairs (r c : nat) : list (site2 * site2) :=
  flat_map (fun i => flat_map (fun j => cell_pairs r c i j) (seq 0 c)) (seq 0 r).
(* _abstract_2D_ising((prefix, rows, cols), ...): positivity_check on rows and cols *)
Definition ising_of_grid (rows cols : Z) : option (list (@term site2)) :=
  if (rows <? 1)%Z || (cols <? 1)%Z then None
  else Some (ising_of_pairs site2_eqb (grid_pairs (Z.to_nat rows) (Z.to_nat cols))).

(* ---- _exact_abstract_ising_model(J, g, n): first the two-site terms (site i, site i+1), then the
   single-site terms; every term is a Kronecker product over the chain 0..n-1 ------------------------ *)
Definition chain_pairs (n : nat) : list (nat * nat) := map (fun i => (i, S i)) (seq 0 (n - 1)).
Definition exact_ising_terms (n : nat) : list (@term nat) :=
  nn_terms Nat.eqb (chain_pairs n) ++ single_terms (seq 0 n).

(* ---- what a term list denotes, over any additive structure M with scalars R ----------------------- *)
Section Denote.
  Context {S R M : Type}.
  Variables (zero : M) (add : M -> M -> M) (smul : R -> M -> M) (rmul : R -> R -> R) (ofZ : Z -> R).
  Variable cval : coef -> R.                       (* coeffs_mapping *)
  Variable mono : list (S * opsym) -> M.           (* the operator of a TensorProduct *)
  Definition eval_term (t : @term S) : M :=
    let '(f, c, ops) := t in smul (rmul (ofZ f) (cval c)) (mono ops).
  Definition msum (l : list M) : M := fold_right add zero l.
  Definition eval_terms (l : list (@term S)) : M := msum (map eval_term l).
End Denote.
