(* The bridge between the store invariant (TTN/Inv.v) and the diagram semantics (Wire/Sem.v):
   the extended executable invariant [wfsb] (wfb plus the clauses about the atom table, bound wires
   and atom identifiers that the semantic theorems need), its Prop-level reading [wfs], the diagram of
   the WHOLE network [net_diagram] and its value [net_value], and the kernel contracts under which a
   split / an inserted identity preserve that value.
   Definitions only (executable); the proofs are in InvSemProofs.v, InvSemWfs.v, InvSemSplit.v. *)
From Coq Require Import List Arith Bool Permutation.
From PTN Require Import TTN.Store TTN.Inv Wire.Sem.
Import ListNotations.

(* ---- more diagram totals ---------------------------------------------------------------------- *)
(* all raw axes of all tensors, all wires already summed inside some tensor *)
Definition total_axes (s : store) : list wire := flat_map (fun kt => axes (snd kt)) (tensors s).
Definition total_bnd (s : store) : list wire := flat_map (fun kt => bnd (snd kt)) (tensors s).
(* the wire on the parent leg of every node that has a parent: every tree edge once *)
Definition node_edge (s : store) (kn : id * node) : list wire :=
  firstn (nparents (snd kn)) (lax s (fst kn) (snd kn)).
Definition edge_wires (s : store) : list wire := flat_map (node_edge s) (nodes s).

(* ---- the whole network as one diagram ------------------------------------------------------------ *)
(* atoms: all atoms; summed wires: the wires summed inside the tensors and every edge wire once;
   axes: the open legs in canonical order (node dict order, each node's open legs in node order) *)
Definition net_bnd (s : store) : list wire := total_bnd s ++ edge_wires s.
Definition net_diagram (s : store) : sarr :=
  {| axes := open_wires s; atoms := total_atoms s; bnd := net_bnd s |}.

Definition net_value {R : Type} (zero one : R) (add mul : R -> R -> R)
           (s : store) (tbl : nat -> list nat -> R) (rho : wire -> nat) : R :=
  value_s zero one add mul s tbl (net_diagram s) rho.

(* the entry of the tensor the whole network denotes, at a multi-index of its open legs (canonical order) *)
Definition net_entry {R : Type} (zero one : R) (add mul : R -> R -> R)
           (s : store) (tbl : nat -> list nat -> R) (rho0 : wire -> nat) (idx : list nat) : R :=
  entry R zero one add mul (atom_wires s) (wdim s) tbl (net_diagram s) rho0 idx.

(* the value of one node's tensor (raw diagram; transposition does not change the value) *)
Definition node_value {R : Type} (zero one : R) (add mul : R -> R -> R)
           (s : store) (tbl : nat -> list nat -> R) (k : id) (rho : wire -> nat) : R :=
  value_s zero one add mul s tbl (tens s k) rho.

(* ---- the extended executable invariant --------------------------------------------------------- *)
Definition wfsb (s : store) : bool :=
  wfb s
  (* every wire of every atom of a tensor is an axis of that tensor or summed inside it *)
  && forallb (fun kt => closedb (atom_wires s) (snd kt)) (tensors s)
  (* summed wires are pairwise distinct (in particular private to one tensor) ... *)
  && nodupb (total_bnd s)
  (* ... are not an axis of any tensor ... *)
  && forallb (fun w => negb (memb w (total_axes s))) (total_bnd s)
  (* ... and were allocated *)
  && forallb (fun w => Nat.ltb w (next_wire s)) (total_bnd s)
  (* every atom occurs once in the whole network, was allocated, and has an atom-table entry *)
  && nodupb (total_atoms s)
  && forallb (fun a => Nat.ltb a (next_atom s) && amem a (atab s)) (total_atoms s)
  (* atom-table keys were allocated (so a fresh atom's entry is not shadowed) *)
  && forallb (fun aw => Nat.ltb (fst aw) (next_atom s)) (atab s).

(* Prop-level reading; every clause is invariant under reordering the tensor dict *)
Definition closed_in (s : store) (t : sarr) : Prop :=
  forall a, In a (atoms t) -> forall x, In x (atom_wires s a) -> In x (axes t) \/ In x (bnd t).

Record wfs (s : store) : Prop := {
  ws_wf : wf s;
  ws_closed : forall k t, aget k (tensors s) = Some t -> closed_in s t;
  ws_bnd_nd : NoDup (total_bnd s);
  ws_bnd_ax : forall w, In w (total_bnd s) -> ~ In w (total_axes s);
  ws_bnd_lt : forall w, In w (total_bnd s) -> w < next_wire s;
  ws_atoms_nd : NoDup (total_atoms s);
  ws_atoms_lt : forall a, In a (total_atoms s) -> a < next_atom s;
  ws_atoms_tab : forall a, In a (total_atoms s) -> amem a (atab s) = true;
  ws_atab_lt : forall a, In a (akeys (atab s)) -> a < next_atom s
}.

(* wfsb after every operation of a sequence (a rejected operation leaves the store unchanged) *)
Fixpoint run_wfsb (s : store) (ops : list op) : list bool :=
  match ops with
  | [] => []
  | o :: t => match step s o with
              | Some s' => wfsb s' :: run_wfsb s' t
              | None => wfsb s :: run_wfsb s t
              end
  end.

(* ---- kernel contracts ----------------------------------------------------------------------------- *)
(* a recorded factorisation holds in the world of store s: summing the product of the two factor
   atoms over the recorded bond gives back the recorded input diagram, at every wire assignment *)
Definition def_holds {R : Type} (zero one : R) (add mul : R -> R -> R)
           (s : store) (tbl : nat -> list nat -> R) (d : kdef) : Prop :=
  forall rho,
    sum_upto R zero add (wdim s (kbond d))
      (fun k => mul (atom_val R (atom_wires s) tbl (upd rho (kbond d) k) (kq d))
                    (atom_val R (atom_wires s) tbl (upd rho (kbond d) k) (kr d)))
    = value_s zero one add mul s tbl (kinput d) rho.

(* the atom is an identity matrix *)
Definition eye_atom {R : Type} (zero one : R) (tbl : nat -> list nat -> R) (a : nat) : Prop :=
  forall i j, tbl a [i; j] = if Nat.eqb i j then one else zero.

Definition dflt_def : kdef :=
  {| kq := 0; kr := 0; kbond := 0; kinput := empty_sarr; kkind := 0; kmode := None |}.

(* the operations that keep the network (leave the atoms alone or replace atoms by factors): everything
   but add_child (add_root is rejected once a root exists) *)
Definition is_edit_op (o : op) : bool :=
  match o with AddChild _ _ _ _ _ => false | _ => true end.

(* the contracts required along a run: after every accepted split the newest recorded definition
   holds in the store just produced; after every accepted insert_identity the fresh atom is an
   identity matrix *)
Fixpoint contracts_hold {R : Type} (zero one : R) (add mul : R -> R -> R)
         (tbl : nat -> list nat -> R) (s : store) (ops : list op) : Prop :=
  match ops with
  | [] => True
  | o :: t =>
      match step s o with
      | Some s' =>
          match o with
          | Split _ _ _ _ _ _ _ _ => def_holds zero one add mul s' tbl (last (defs s') dflt_def)
          | InsertIdentity _ _ _ => eye_atom zero one tbl (next_atom s)
          | _ => True
          end /\ contracts_hold zero one add mul tbl s' t
      | None => contracts_hold zero one add mul tbl s t
      end
  end.
