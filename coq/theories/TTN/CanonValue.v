(* Property C03, first clause: bringing a network into canonical form, or moving the orthogonality centre,
   LEAVES THE REPRESENTED STATE UNCHANGED.

   The value of the whole network [net_value] (TTN/InvSem.v: the sum over all summed wires of the product of all
   atoms, over any commutative semiring and atom table [tbl], as a function of the assignment [rho] of the open
   wires) is preserved
   - by one step [qr_to_neighbour] (= split_nodes by QR in any of the three modes + contract_nodes of R into the
     neighbour), under the kernel contract that the factorisation the step records holds in [tbl]
     ([def_holds]: Q.R = A summed over the new bond, at every wire assignment);
   - hence by every chain of such steps ([qr_chain]) under the contracts of all definitions recorded along the
     chain, stated in the world of the FINAL store ([new_defs_hold]);
   - hence by canonical_form, move_center, ensure_center and every sequence of Canon / Move / Ensure / EnsureRoot
     operations ([crun_state]; Scramble steps replace a tensor, Base steps are covered by C02).
   The extended invariant [wfs] is preserved along the way, and the open wires are permuted only.

   The proofs do not look at WHICH node is split toward WHICH neighbour: the value argument is per step
   (TTN/InvSemValue.split_net_value, TTN/InvSemProofs.contract_net_value).  What is needed on top is that the world
   (atom table, wire dimensions) only GROWS along a chain, so that a contract stated in the final store can be
   transported back to the store just after the split that recorded the definition. *)
From Coq Require Import List Arith Bool Lia Permutation.
From PTN Require Import TTN.Store TTN.StoreProofs TTN.Inv TTN.InvProofs TTN.InvNode TTN.InvContract TTN.InvEdit
  TTN.InvBuild TTN.InvSplit TTN.InvRun TTN.InvWires Wire.Sem Wire.SemProofs
  TTN.InvSem TTN.InvSemProofs TTN.InvSemWfs TTN.InvSemValue TTN.InvSemOps TTN.InvSemEye TTN.InvSemRun
  TTN.Canon TTN.CanonProofs TTN.CanonTree TTN.CanonMore TTN.CanonStep TTN.CanonDist TTN.CanonIso.
Import ListNotations.

(* ---- the parts of one step --------------------------------------------------------------------------------------- *)
Lemma cv_In_remove_first x y l : In x (remove_first y l) -> In x l.
Proof.
  induction l as [|z t IH]; cbn; [auto|]. destruct (Nat.eqb y z); [auto|]. intros [->|H]; auto.
Qed.

(* the leg specifications of _build_qr_leg_specs describe the node truthfully when nb is a neighbour *)
Lemma cv_build_qr_specs_ok nd nb : In nb (neighbouring_nodes nd) ->
  leg_ok nd (fst (build_qr_leg_specs nd nb)) /\ leg_ok nd (snd (build_qr_leg_specs nd nb)).
Proof.
  intros Hin. unfold build_qr_leg_specs.
  destruct (match parent nd with Some p => Nat.eqb p nb | None => false end) eqn:Hco; cbn [fst snd]; unfold leg_ok; cbn.
  - destruct (parent nd) as [p|] eqn:Hp; [|discriminate]. apply Nat.eqb_eq in Hco. subst p. repeat split; try discriminate; auto.
    + unfold is_root. rewrite Hp. discriminate.
    + intros x Hx. exact Hx.
    + intros l Hl. apply in_seq in Hl. lia.
    + intros x [].
    + intros l [].
  - repeat split; try discriminate; auto.
    + apply is_root_spec.
    + intros x Hx. eapply cv_In_remove_first; eauto.
    + intros l Hl. apply in_seq in Hl. lia.
    + intros x [<-|[]]. apply in_neighbouring in Hin. destruct Hin as [Hp|Hc]; [|exact Hc].
      rewrite Hp, Nat.eqb_refl in Hco. discriminate.
    + intros l [].
Qed.

Lemma cv_parts s n nb m rid s' : qr_to_neighbour s n nb m rid = Some s' ->
  exists nd q r s1, aget n (nodes s) = Some nd /\ build_qr_leg_specs nd nb = (q, r) /\
    split_nodes s n q r n rid 0 m 0 = Some s1 /\ contract_nodes s1 nb rid nb = Some s'.
Proof.
  unfold qr_to_neighbour. destruct (aget n (nodes s)) as [nd|]; [|discriminate].
  destruct (build_qr_leg_specs nd nb) as [q r] eqn:E. destruct (split_nodes s n q r n rid 0 m 0) as [s1|] eqn:Es; [|discriminate].
  intros H. exists nd, q, r, s1. auto.
Qed.

(* the documented preconditions of split_nodes hold in a successful step *)
Lemma cv_side s n nb m rid s' nd q r : aget rid (nodes s) = None -> aget n (nodes s) = Some nd ->
  qr_to_neighbour s n nb m rid = Some s' -> build_qr_leg_specs nd nb = (q, r) ->
  spec_ok s n q r /\ ids_ok s n n rid.
Proof.
  intros Hrid En H Eqr.
  pose proof (qr_step_neighbour s n nb m rid s' nd En H) as Hin.
  pose proof (cv_build_qr_specs_ok nd nb Hin) as [Hq Hr]. rewrite Eqr in Hq, Hr. cbn [fst snd] in Hq, Hr. split.
  - intros nd' E'. rewrite En in E'. injection E' as <-. auto.
  - split; [left; reflexivity|right; apply aget_None; exact Hrid].
Qed.

(* ---- the world only grows ---------------------------------------------------------------------------------------- *)
(* allocated atoms keep their wires, allocated wires keep their dimensions, definitions are appended *)
Definition world_ext (s s' : store) : Prop :=
  next_atom s <= next_atom s' /\ next_wire s <= next_wire s' /\
  (forall a, a < next_atom s -> atom_wires s' a = atom_wires s a) /\
  (forall w, w < next_wire s -> wdim s' w = wdim s w) /\
  exists l, defs s' = defs s ++ l.

Lemma world_ext_refl s : world_ext s s.
Proof. repeat split; auto. exists []. rewrite app_nil_r. reflexivity. Qed.

Lemma world_ext_trans s1 s2 s3 : world_ext s1 s2 -> world_ext s2 s3 -> world_ext s1 s3.
Proof.
  intros (A1 & A2 & A3 & A4 & l1 & A5) (B1 & B2 & B3 & B4 & l2 & B5). split; [lia|]. split; [lia|]. split; [|split].
  - intros a Ha. rewrite B3 by lia. apply A3. exact Ha.
  - intros w Hw. rewrite B4 by lia. apply A4. exact Hw.
  - exists (l1 ++ l2). rewrite B5, A5, app_assoc. reflexivity.
Qed.

(* a definition all of whose atoms and summed wires were allocated in s *)
Definition def_in_world (s : store) (d : kdef) : Prop :=
  kq d < next_atom s /\ kr d < next_atom s /\ kbond d < next_wire s /\
  (forall a, In a (atoms (kinput d)) -> a < next_atom s) /\
  (forall w, In w (bnd (kinput d)) -> w < next_wire s).

(* ---- one step ------------------------------------------------------------------------------------------------- *)
(* everything about one step that does not need the contract *)
Lemma qr_step_world s n nb m rid s' :
  wfs s -> aget rid (nodes s) = None -> qr_to_neighbour s n nb m rid = Some s' ->
  wfs s' /\ aget rid (nodes s') = None /\ world_ext s s' /\
  defs s' = defs s ++ [last (defs s') dflt_def] /\ def_in_world s' (last (defs s') dflt_def).
Proof.
  intros WS Hrid H. pose proof (ws_wf s WS) as W.
  destruct (cv_parts _ _ _ _ _ _ H) as (nd & q & r & s1 & En & Eqr & Es & Hc).
  destruct (cv_side s n nb m rid s' nd q r Hrid En H Eqr) as [Hspec Hids].
  pose proof (split_preserves_wfs s n q r n rid 0 m 0 s1 WS Es Hspec Hids) as WS1.
  assert (WS' : wfs s') by (apply (contract_preserves_wfs s1 nb rid nb s' WS1 Hc); left; reflexivity).
  destruct (contract_world _ _ _ _ _ Hc) as (Eat & Edm & Enw & Ena & Edf).
  destruct (split_new_def s n q r n rid 0 m 0 s1 dflt_def W Es)
    as (sa & nda & t & ol & il & bd & Ha & _ & _ & _ & _ & _ & Hlast & Hdefs & _ & _ & Nw & Na & _ & _).
  destruct (split_access_facts _ _ _ _ _ W Ha) as (nd0 & t0 & _ & Et0 & _ & Etr & _ & _ & _ & _ & _ & _ & _).
  split; [exact WS'|]. split.
  { destruct (qr_step_effect s n nb m rid s' (wf_tstruct s W) Hrid H) as (nd' & _ & _ & SE).
    apply aget_None. rewrite (se_keys _ _ _ _ _ _ SE). apply aget_None. exact Hrid. }
  split.
  { split; [rewrite Ena, Na; lia|]. split; [rewrite Enw, Nw; lia|]. split; [|split].
    - intros a Hlt. unfold atom_wires. rewrite Eat. apply (split_atom_wires_old s n q r n rid 0 m 0 s1 a Es Hlt).
    - intros w Hlt. unfold wdim. rewrite Edm. apply (split_wdim_old s n q r n rid 0 m 0 s1 w W Es Hlt).
    - exists [last (defs s1) dflt_def]. rewrite Edf. exact Hdefs. }
  rewrite Edf. split; [exact Hdefs|]. rewrite Hlast. unfold def_in_world. cbn [kq kr kbond kinput].
  rewrite Ena, Enw, Na, Nw. split; [lia|]. split; [lia|]. split; [lia|].
  rewrite Etr. cbn [s_transpose atoms bnd]. pose proof (aget_In _ _ _ Et0) as It0. split.
  - intros a Hin. pose proof (ws_atoms_lt s WS a (total_atoms_In s n t0 a It0 Hin)). lia.
  - intros w Hin. pose proof (ws_bnd_lt s WS w (total_bnd_In s n t0 w It0 Hin)). lia.
Qed.

(* ---- chains of steps -------------------------------------------------------------------------------------------- *)
Inductive qr_chain (rid : id) : store -> store -> Prop :=
| qc_nil s : qr_chain rid s s
| qc_step s n nb m s1 sf : qr_to_neighbour s n nb m rid = Some s1 -> qr_chain rid s1 sf -> qr_chain rid s sf.

Lemma qr_chain_trans rid s1 s2 s3 : qr_chain rid s1 s2 -> qr_chain rid s2 s3 -> qr_chain rid s1 s3.
Proof. intros H1 H2. induction H1; [exact H2|]. eapply qc_step; eauto. Qed.

Lemma qr_chain_world rid s sf : qr_chain rid s sf -> wfs s -> aget rid (nodes s) = None ->
  wfs sf /\ aget rid (nodes sf) = None /\ world_ext s sf.
Proof.
  intros Hch. induction Hch as [s|s n nb m s1 sf E Hch IH]; intros WS Hrid.
  - split; [exact WS|]. split; [exact Hrid|apply world_ext_refl].
  - destruct (qr_step_world s n nb m rid s1 WS Hrid E) as (WS1 & Hrid1 & X1 & _).
    destruct (IH WS1 Hrid1) as (WSf & Hridf & Xf). split; [exact WSf|]. split; [exact Hridf|].
    apply (world_ext_trans _ _ _ X1 Xf).
Qed.

(* ---- canonical_form, move_center, ensure_center are chains ------------------------------------------------------- *)
Lemma canon_fold_chain d m rid : forall todo s sf,
  fold_left (canon_step d m rid) todo (Some s) = Some sf -> qr_chain rid s sf.
Proof.
  induction todo as [|n todo IH]; intros s sf Hf; cbn [fold_left] in Hf.
  - injection Hf as <-. apply qc_nil.
  - destruct (canon_step d m rid (Some s) n) as [s1|] eqn:E1; [|rewrite canon_fold_none in Hf; discriminate].
    cbn [canon_step] in E1. destruct (aget n (nodes s)) as [nd|]; [|discriminate].
    destruct (first_min d (neighbouring_nodes nd) None) as [nb|]; [|discriminate].
    eapply qc_step; [exact E1|]. apply IH. exact Hf.
Qed.

Lemma canonical_form_chain cs c m rid cs' : canonical_form cs c m rid = Some cs' -> qr_chain rid (fst cs) (fst cs').
Proof.
  rewrite canonical_form_unfold. destruct (negb (amem c (nodes (fst cs)))); [discriminate|].
  destruct (fold_left _ _ _) as [sf|] eqn:Hf; [|discriminate]. intros [= <-]. cbn [fst].
  eapply canon_fold_chain; eauto.
Qed.

Lemma move_fold_chain m rid : forall l s cur cs',
  fold_left (move_step m rid) l (Some (s, Some cur)) = Some cs' -> qr_chain rid s (fst cs').
Proof.
  induction l as [|nb t IH]; intros s cur cs' H; cbn [fold_left] in H.
  - injection H as <-. apply qc_nil.
  - cbn [move_step] in H. destruct (qr_to_neighbour s cur nb m rid) as [s2|] eqn:E; [|rewrite move_fold_none in H; discriminate].
    eapply qc_step; [exact E|]. eapply IH; eauto.
Qed.

Lemma move_center_chain cs c m rid cs' : move_center cs c m rid = Some cs' -> qr_chain rid (fst cs) (fst cs').
Proof.
  destruct cs as [s oc]. unfold move_center. cbn [fst snd]. destruct oc as [c0|]; [|discriminate].
  destruct (Nat.eqb c0 c).
  - intros [= <-]. apply qc_nil.
  - apply (move_fold_chain m rid).
Qed.

Lemma ensure_center_chain cs c m rid cs' : ensure_center cs c m rid = Some cs' -> qr_chain rid (fst cs) (fst cs').
Proof.
  unfold ensure_center. destruct (negb (amem c (nodes (fst cs)))); [discriminate|].
  destruct (snd cs) as [c0|].
  - destruct (Nat.eqb c0 c); [intros [= <-]; apply qc_nil|apply move_center_chain].
  - apply canonical_form_chain.
Qed.

(* ---- sequences ------------------------------------------------------------------------------------------------------ *)
(* the operations of C03 that are claimed to keep the state: everything but the tensor replacement (Scramble) and the
   structural edits of C02 (Base; their value theorem is C02_run_net_value) *)
Definition is_canon_op (o : cop) : bool :=
  match o with Canon _ _ | Move _ _ | Ensure _ _ | EnsureRoot _ => true | _ => false end.

(* the state after a sequence; a rejected operation leaves the state unchanged (as in crun_obs) *)
Definition crun_state (rid : id) (cs : cstore) (ops : list cop) : cstore :=
  fold_left (fun cs o => match cstep rid cs o with Some cs' => cs' | None => cs end) ops cs.

Lemma cstep_chain rid cs o cs' : is_canon_op o = true -> cstep rid cs o = Some cs' -> qr_chain rid (fst cs) (fst cs').
Proof.
  destruct o; cbn [is_canon_op cstep]; try discriminate; intros _.
  - apply canonical_form_chain.
  - apply move_center_chain.
  - apply ensure_center_chain.
  - destruct (root (fst cs)) as [r|]; [apply ensure_center_chain|discriminate].
Qed.

Lemma crun_chain rid : forall ops cs, forallb is_canon_op ops = true -> qr_chain rid (fst cs) (fst (crun_state rid cs ops)).
Proof.
  induction ops as [|o t IH]; intros cs Hall; cbn [forallb] in Hall; [apply qc_nil|].
  apply andb_true_iff in Hall. destruct Hall as [Ho Ht]. unfold crun_state. cbn [fold_left]. fold (crun_state rid).
  destruct (cstep rid cs o) as [cs1|] eqn:E.
  - apply (qr_chain_trans rid _ (fst cs1)); [apply (cstep_chain rid cs o cs1 Ho E)|apply IH; exact Ht].
  - apply IH. exact Ht.
Qed.

Section Value.
  Variable R : Type.
  Variables (zero one : R) (add mul : R -> R -> R).
  Hypothesis SR : comm_semiring zero one add mul.
  Variable tbl : nat -> list nat -> R.

  Local Notation net_value := (net_value zero one add mul).
  Local Notation def_holds := (def_holds zero one add mul).

  (* the contract of a definition allocated in s means the same in every later world *)
  Lemma def_holds_ext s s' d : world_ext s s' -> def_in_world s d -> (def_holds s' tbl d <-> def_holds s tbl d).
  Proof.
    intros (_ & _ & Ha & Hw & _) (Dq & Dr & Db & Dat & Dbn).
    assert (E : forall rho,
      (sum_upto R zero add (wdim s' (kbond d))
         (fun k => mul (atom_val R (atom_wires s') tbl (upd rho (kbond d) k) (kq d))
                       (atom_val R (atom_wires s') tbl (upd rho (kbond d) k) (kr d)))
       = sum_upto R zero add (wdim s (kbond d))
         (fun k => mul (atom_val R (atom_wires s) tbl (upd rho (kbond d) k) (kq d))
                       (atom_val R (atom_wires s) tbl (upd rho (kbond d) k) (kr d))))
      /\ value_s zero one add mul s' tbl (kinput d) rho = value_s zero one add mul s tbl (kinput d) rho).
    { intros rho. split.
      - rewrite (Hw _ Db). apply (sum_upto_ext R zero add). intros k _. unfold atom_val. rewrite (Ha _ Dq), (Ha _ Dr). reflexivity.
      - unfold value_s. apply value_world.
        + intros a Hin. apply Ha. apply Dat. exact Hin.
        + intros w Hin. apply Hw. apply Dbn. exact Hin. }
    unfold InvSem.def_holds. split; intros H rho; destruct (E rho) as [E1 E2].
    - rewrite <- E1, <- E2. apply H.
    - rewrite E1, E2. apply H.
  Qed.

  (* (1) one step split_qr_contract_r_to_neighbour, any mode, under the contract of the definition it records *)
  Theorem qr_net_value s n nb m rid s' :
    wfs s -> aget rid (nodes s) = None -> qr_to_neighbour s n nb m rid = Some s' ->
    def_holds s' tbl (last (defs s') dflt_def) ->
    wfs s' /\ aget rid (nodes s') = None /\
    Permutation (open_wires s') (open_wires s) /\ forall rho, net_value s' tbl rho = net_value s tbl rho.
  Proof.
    intros WS Hrid H Hdef. pose proof (ws_wf s WS) as W.
    destruct (qr_step_world s n nb m rid s' WS Hrid H) as (WS' & Hrid' & _ & _ & _).
    split; [exact WS'|]. split; [exact Hrid'|].
    destruct (cv_parts _ _ _ _ _ _ H) as (nd & q & r & s1 & En & Eqr & Es & Hc).
    destruct (cv_side s n nb m rid s' nd q r Hrid En H Eqr) as [Hspec Hids].
    pose proof (split_preserves_wfs s n q r n rid 0 m 0 s1 WS Es Hspec Hids) as WS1.
    destruct (contract_world _ _ _ _ _ Hc) as (Eat & Edm & Enw & Ena & Edf).
    assert (Hdef1 : def_holds s1 tbl (last (defs s1) dflt_def)).
    { rewrite Edf in Hdef. intros rho. specialize (Hdef rho). unfold value_s, atom_wires, wdim in *.
      rewrite Eat, Edm in Hdef. exact Hdef. }
    destruct (split_net_value R zero one add mul SR tbl s n q r n rid 0 m 0 s1 WS Es Hspec Hids Hdef1) as [P1 V1].
    destruct (contract_net_value R zero one add mul SR tbl s1 nb rid nb s' (ws_wf s1 WS1) Hc (or_introl eq_refl)) as [P2 V2].
    split; [rewrite P2; exact P1|]. intros rho. rewrite V2. apply V1.
  Qed.

  (* the contracts of a chain, in the world of its final store: every definition recorded since s holds *)
  Definition new_defs_hold (s sf : store) : Prop :=
    forall d, In d (skipn (length (defs s)) (defs sf)) -> def_holds sf tbl d.

  Lemma skipn_app_exact {A} (l1 l2 : list A) : skipn (length l1) (l1 ++ l2) = l2.
  Proof. induction l1 as [|x t IH]; cbn; [reflexivity|exact IH]. Qed.

  Lemma new_defs_hold_all s sf : (forall d, In d (defs sf) -> def_holds sf tbl d) -> new_defs_hold s sf.
  Proof.
    intros H d Hin. apply H. rewrite <- (firstn_skipn (length (defs s)) (defs sf)). apply in_or_app. right. exact Hin.
  Qed.

  (* (2) a chain of steps *)
  Theorem qr_chain_net_value rid s sf : qr_chain rid s sf ->
    wfs s -> aget rid (nodes s) = None -> new_defs_hold s sf ->
    wfs sf /\ aget rid (nodes sf) = None /\
    Permutation (open_wires sf) (open_wires s) /\ forall rho, net_value sf tbl rho = net_value s tbl rho.
  Proof.
    intros Hch. induction Hch as [s|s n nb m s1 sf E Hch IH]; intros WS Hrid Hnew.
    - split; [exact WS|]. split; [exact Hrid|]. split; [reflexivity|]. reflexivity.
    - destruct (qr_step_world s n nb m rid s1 WS Hrid E) as (WS1 & Hrid1 & X1 & Hd1 & Dw1).
      destruct (qr_chain_world rid s1 sf Hch WS1 Hrid1) as (_ & _ & Xf).
      destruct Xf as (Xa & Xb & Xc & Xd & l & Hdf).
      set (d1 := last (defs s1) dflt_def) in *.
      assert (Esk : skipn (length (defs s)) (defs sf) = d1 :: l).
      { rewrite Hdf, Hd1, <- app_assoc. apply skipn_app_exact. }
      assert (Hdef1 : def_holds s1 tbl d1).
      { apply (def_holds_ext s1 sf d1); [repeat split; auto; exists l; exact Hdf|exact Dw1|].
        apply Hnew. rewrite Esk. left. reflexivity. }
      destruct (qr_net_value s n nb m rid s1 WS Hrid E Hdef1) as (_ & _ & P1 & V1).
      assert (Hnew1 : new_defs_hold s1 sf).
      { intros d Hin. apply Hnew. rewrite Esk. right. rewrite Hdf, skipn_app_exact in Hin. exact Hin. }
      destruct (IH WS1 Hrid1 Hnew1) as (WSf & Hridf & P2 & V2).
      split; [exact WSf|]. split; [exact Hridf|]. split; [rewrite P2; exact P1|]. intros rho. rewrite V2. apply V1.
  Qed.

  (* ---- (2), (3): the statements ------------------------------------------------------------------------------------------ *)
  Theorem canonical_form_net_value cs c m rid cs' :
    wfs (fst cs) -> aget rid (nodes (fst cs)) = None -> canonical_form cs c m rid = Some cs' ->
    new_defs_hold (fst cs) (fst cs') ->
    wfs (fst cs') /\ Permutation (open_wires (fst cs')) (open_wires (fst cs)) /\
    forall rho, net_value (fst cs') tbl rho = net_value (fst cs) tbl rho.
  Proof.
    intros WS Hrid H Hnew.
    destruct (qr_chain_net_value rid _ _ (canonical_form_chain cs c m rid cs' H) WS Hrid Hnew) as (A & _ & B & C). auto.
  Qed.

  Theorem move_center_net_value cs c m rid cs' :
    wfs (fst cs) -> aget rid (nodes (fst cs)) = None -> move_center cs c m rid = Some cs' ->
    new_defs_hold (fst cs) (fst cs') ->
    wfs (fst cs') /\ Permutation (open_wires (fst cs')) (open_wires (fst cs)) /\
    forall rho, net_value (fst cs') tbl rho = net_value (fst cs) tbl rho.
  Proof.
    intros WS Hrid H Hnew.
    destruct (qr_chain_net_value rid _ _ (move_center_chain cs c m rid cs' H) WS Hrid Hnew) as (A & _ & B & C). auto.
  Qed.

  Theorem ensure_center_net_value cs c m rid cs' :
    wfs (fst cs) -> aget rid (nodes (fst cs)) = None -> ensure_center cs c m rid = Some cs' ->
    new_defs_hold (fst cs) (fst cs') ->
    wfs (fst cs') /\ Permutation (open_wires (fst cs')) (open_wires (fst cs)) /\
    forall rho, net_value (fst cs') tbl rho = net_value (fst cs) tbl rho.
  Proof.
    intros WS Hrid H Hnew.
    destruct (qr_chain_net_value rid _ _ (ensure_center_chain cs c m rid cs' H) WS Hrid Hnew) as (A & _ & B & C). auto.
  Qed.

  Theorem crun_net_value rid cs ops :
    wfs (fst cs) -> aget rid (nodes (fst cs)) = None -> forallb is_canon_op ops = true ->
    new_defs_hold (fst cs) (fst (crun_state rid cs ops)) ->
    wfs (fst (crun_state rid cs ops)) /\ aget rid (nodes (fst (crun_state rid cs ops))) = None /\
    Permutation (open_wires (fst (crun_state rid cs ops))) (open_wires (fst cs)) /\
    forall rho, net_value (fst (crun_state rid cs ops)) tbl rho = net_value (fst cs) tbl rho.
  Proof.
    intros WS Hrid Hall Hnew. apply (qr_chain_net_value rid _ _ (crun_chain rid ops cs Hall) WS Hrid Hnew).
  Qed.

  (* entries of the denoted tensor: two multi-indices that put the same index on every open wire select the same entry *)
  Corollary crun_net_entry rid cs ops rho0 idx idx' :
    wfs (fst cs) -> aget rid (nodes (fst cs)) = None -> forallb is_canon_op ops = true ->
    new_defs_hold (fst cs) (fst (crun_state rid cs ops)) ->
    (forall x, In x (open_wires (fst cs)) ->
       assign rho0 (open_wires (fst (crun_state rid cs ops))) idx' x = assign rho0 (open_wires (fst cs)) idx x) ->
    net_entry zero one add mul (fst (crun_state rid cs ops)) tbl rho0 idx' = net_entry zero one add mul (fst cs) tbl rho0 idx.
  Proof.
    intros WS Hrid Hall Hnew E. destruct (crun_net_value rid cs ops WS Hrid Hall Hnew) as (_ & _ & _ & V).
    apply (net_entry_eq R zero one add mul tbl (fst cs) _ rho0 idx idx' WS V E).
  Qed.

  (* the same statements with the executable hypotheses (evaluated per explored instance by the harness) *)
  Lemma rid_fresh_b rid s : amem rid (nodes s) = false -> aget rid (nodes s) = None.
  Proof. unfold amem. destruct (aget rid (nodes s)); [discriminate|reflexivity]. Qed.

  Theorem canonical_form_state_unchanged s oc c m rid cs' :
    wfsb s = true -> amem rid (nodes s) = false -> canonical_form (s, oc) c m rid = Some cs' ->
    (forall d, In d (skipn (length (defs s)) (defs (fst cs'))) -> def_holds (fst cs') tbl d) ->
    wfsb (fst cs') = true /\ Permutation (open_wires (fst cs')) (open_wires s) /\
    forall rho, net_value (fst cs') tbl rho = net_value s tbl rho.
  Proof.
    intros WS Hrid H Hnew.
    destruct (canonical_form_net_value (s, oc) c m rid cs' (wfsb_wfs s WS) (rid_fresh_b rid s Hrid) H Hnew) as (A & B & C).
    split; [apply wfs_wfsb; exact A|]. split; [exact B|exact C].
  Qed.

  Theorem move_center_state_unchanged cs c m rid cs' :
    wfsb (fst cs) = true -> amem rid (nodes (fst cs)) = false -> move_center cs c m rid = Some cs' ->
    (forall d, In d (skipn (length (defs (fst cs))) (defs (fst cs'))) -> def_holds (fst cs') tbl d) ->
    wfsb (fst cs') = true /\ Permutation (open_wires (fst cs')) (open_wires (fst cs)) /\
    forall rho, net_value (fst cs') tbl rho = net_value (fst cs) tbl rho.
  Proof.
    intros WS Hrid H Hnew.
    destruct (move_center_net_value cs c m rid cs' (wfsb_wfs _ WS) (rid_fresh_b rid _ Hrid) H Hnew) as (A & B & C).
    split; [apply wfs_wfsb; exact A|]. split; [exact B|exact C].
  Qed.

  Theorem ensure_center_state_unchanged cs c m rid cs' :
    wfsb (fst cs) = true -> amem rid (nodes (fst cs)) = false -> ensure_center cs c m rid = Some cs' ->
    (forall d, In d (skipn (length (defs (fst cs))) (defs (fst cs'))) -> def_holds (fst cs') tbl d) ->
    wfsb (fst cs') = true /\ Permutation (open_wires (fst cs')) (open_wires (fst cs)) /\
    forall rho, net_value (fst cs') tbl rho = net_value (fst cs) tbl rho.
  Proof.
    intros WS Hrid H Hnew.
    destruct (ensure_center_net_value cs c m rid cs' (wfsb_wfs _ WS) (rid_fresh_b rid _ Hrid) H Hnew) as (A & B & C).
    split; [apply wfs_wfsb; exact A|]. split; [exact B|exact C].
  Qed.

  Theorem sequence_state_unchanged rid cs ops :
    wfsb (fst cs) = true -> amem rid (nodes (fst cs)) = false -> forallb is_canon_op ops = true ->
    (forall d, In d (skipn (length (defs (fst cs))) (defs (fst (crun_state rid cs ops)))) ->
               def_holds (fst (crun_state rid cs ops)) tbl d) ->
    wfsb (fst (crun_state rid cs ops)) = true /\ amem rid (nodes (fst (crun_state rid cs ops))) = false /\
    Permutation (open_wires (fst (crun_state rid cs ops))) (open_wires (fst cs)) /\
    forall rho, net_value (fst (crun_state rid cs ops)) tbl rho = net_value (fst cs) tbl rho.
  Proof.
    intros WS Hrid Hall Hnew.
    destruct (crun_net_value rid cs ops (wfsb_wfs _ WS) (rid_fresh_b rid _ Hrid) Hall Hnew) as (A & B & C & D).
    split; [apply wfs_wfsb; exact A|]. split; [unfold amem; rewrite B; reflexivity|]. split; [exact C|exact D].
  Qed.

  Theorem qr_step_state_unchanged s n nb m rid s' :
    wfsb s = true -> amem rid (nodes s) = false -> qr_to_neighbour s n nb m rid = Some s' ->
    def_holds s' tbl (last (defs s') dflt_def) ->
    wfsb s' = true /\ amem rid (nodes s') = false /\ defs s' = defs s ++ [last (defs s') dflt_def] /\
    Permutation (open_wires s') (open_wires s) /\ forall rho, net_value s' tbl rho = net_value s tbl rho.
  Proof.
    intros WS Hrid H Hdef.
    destruct (qr_net_value s n nb m rid s' (wfsb_wfs _ WS) (rid_fresh_b rid _ Hrid) H Hdef) as (A & B & C & D).
    destruct (qr_step_world s n nb m rid s' (wfsb_wfs _ WS) (rid_fresh_b rid _ Hrid) H) as (_ & _ & _ & E & _).
    split; [apply wfs_wfsb; exact A|]. split; [unfold amem; rewrite B; reflexivity|]. split; [exact E|]. split; [exact C|exact D].
  Qed.
End Value.

(* ---- observation for the harness: the definitions recorded by every step of a sequence (numerical validation of the
        kernel contract Q.R = A on every explored instance) ------------------------------------------------------------- *)
Definition def_obs (d : kdef) :=
  (kq d, kr d, kbond d, kkind d, axes (kinput d), atoms (kinput d), bnd (kinput d)).
Fixpoint crun_new_defs (rid : id) (cs : cstore) (ops : list cop) :=
  match ops with
  | [] => []
  | o :: t => match cstep rid cs o with
              | Some cs' => map def_obs (skipn (length (defs (fst cs))) (defs (fst cs'))) :: crun_new_defs rid cs' t
              | None => [] :: crun_new_defs rid cs t
              end
  end.

(* ---- non-vacuity: a three-node chain, canonical form at the root (REDUCED), move to the far leaf (KEEP), ensure the middle
        node (FULL); over Z, with concrete tensors and QR factors that are (rectangular) identities on one side, the kernel
        contract of each of the five recorded definitions holds; hence the final network denotes the initial state --------- *)
From Coq Require Import ZArith.
From PTN Require Import Wire.SemInst.
Definition cvx_s0 : store :=
  fst (run empty_store [AddRoot 0 [2; 3]; AddChild 1 [2; 3; 2] 0 0 0; AddChild 2 [3; 2] 0 1 1]).
Definition cvx_cs0 : cstore := (cvx_s0, None).
Definition cvx_ops : list cop := [Canon 0 Reduced; Move 2 Keep; Ensure 1 Full].
Definition cvx_csf : cstore := crun_state 99 cvx_cs0 cvx_ops.

Local Open Scope Z_scope.
Definition cvx_rng (idx dims : list nat) : bool :=
  Nat.eqb (length idx) (length dims) && forallb (fun p => Nat.ltb (fst p) (snd p)) (combine idx dims).
Definition zn (n : nat) : Z := Z.of_nat n.
Definition cvx_delta (i k : nat) : Z := if Nat.eqb i k then 1 else 0.
Definition sumz (n : nat) (f : nat -> Z) : Z := sum_upto Z 0 Z.add n f.
(* the three tensors of the initial state (zero outside their index range) *)
Definition cvx_T0 (w i : nat) : Z := if cvx_rng [w; i] [2; 3]%nat then 1 + zn w - 2 * zn i else 0.
Definition cvx_T1 (w j o : nat) : Z := if cvx_rng [w; j; o] [2; 3; 2]%nat then 2 * zn w + zn j * zn j - 3 * zn o + 1 else 0.
Definition cvx_T2 (j o : nat) : Z := if cvx_rng [j; o] [3; 2]%nat then zn j - 2 * zn o + 2 else 0.
Definition cvx_I2 (k p : nat) : Z := if cvx_rng [k; p] [2; 2]%nat then cvx_delta k p else 0.
(* the factors: one of Q, R is the identity matrix, the other one the matrix that is factorised *)
Definition cvx_t4 (k j : nat) : Z := cvx_T2 j k.
Definition cvx_t5 (a o k : nat) : Z := sumz 3 (fun j => cvx_T1 k j o * cvx_t4 a j).
Definition cvx_t7 (i k : nat) : Z := sumz 2 (fun w => cvx_T0 w i * cvx_I2 k w).
Definition cvx_t9 (a o k : nat) : Z := sumz 2 (fun w => cvx_I2 a w * cvx_t5 k o w).
Definition cvx_t12 (k p : nat) : Z := sumz 2 (fun w => cvx_I2 p w * cvx_I2 k w).
Definition cvx_tbl (a : nat) (idx : list nat) : Z :=
  match a, idx with
  | 0%nat, [w; i] => cvx_T0 w i
  | 1%nat, [w; j; o] => cvx_T1 w j o
  | 2%nat, [j; o] => cvx_T2 j o
  | 3%nat, [i; k] => cvx_I2 i k        (* REDUCED, 2 rows < 3 columns: Q = identity, R = the matrix *)
  | 4%nat, [k; j] => cvx_t4 k j
  | 5%nat, [a; o; k] => cvx_t5 a o k   (* REDUCED, 4 rows >= 2 columns: Q = the matrix, R = identity *)
  | 6%nat, [k; p] => cvx_I2 k p
  | 7%nat, [i; k] => cvx_t7 i k        (* KEEP: bond = dimension of the leg toward the neighbour; Q = the matrix, R = identity *)
  | 8%nat, [k; p] => cvx_I2 k p
  | 9%nat, [a; o; k] => cvx_t9 a o k   (* KEEP *)
  | 10%nat, [k; p] => cvx_I2 k p
  | 11%nat, [i; k] => cvx_I2 i k       (* FULL, square: Q = identity, R = the matrix *)
  | 12%nat, [k; p] => cvx_t12 k p
  | _, _ => 0
  end.
Local Close Scope Z_scope.

Example cvx_structure :
  wfsb (fst cvx_cs0) = true /\ amem 99 (nodes (fst cvx_cs0)) = false /\ forallb is_canon_op cvx_ops = true /\
  snd cvx_csf = Some 1 /\
  map kmode (skipn (length (defs (fst cvx_cs0))) (defs (fst cvx_csf)))
    = [Some Reduced; Some Reduced; Some Keep; Some Keep; Some Full] /\
  open_wires (fst cvx_csf) = open_wires (fst cvx_cs0).
Proof. vm_compute. repeat split; reflexivity. Qed.

Ltac cvx_cases rho ws :=
  match ws with
  | nil => idtac
  | cons ?w ?t => destruct (rho w) as [|[|[|?]]]; cvx_cases rho t
  end.

(* the kernel contracts of the five recorded definitions, in the world of the final store *)
Example cvx_contracts :
  forall d, In d (skipn (length (defs (fst cvx_cs0))) (defs (fst (crun_state 99 cvx_cs0 cvx_ops)))) ->
            def_holds 0%Z 1%Z Z.add Z.mul (fst (crun_state 99 cvx_cs0 cvx_ops)) cvx_tbl d.
Proof.
  intros d Hin. remember (fst (crun_state 99 cvx_cs0 cvx_ops)) as sf eqn:E. vm_compute in E.
  assert (L : length (defs (fst cvx_cs0)) = 0) by (vm_compute; reflexivity). rewrite L in Hin. subst sf. cbn [skipn defs] in Hin.
  destruct Hin as [<-|[<-|[<-|[<-|[<-|[]]]]]]; intros rho;
    unfold value_s, value; cbn [kq kr kbond kinput atoms bnd sum_bnd atoms_val prod_over];
    unfold atom_val, atom_wires, wdim; cbn [atab dims aget Nat.eqb sum_bnd sum_upto map];
    unfold upd; cbn [Nat.eqb].
  - cvx_cases rho [6; 3]; vm_compute; reflexivity.
  - cvx_cases rho [7; 4; 0]; vm_compute; reflexivity.
  - cvx_cases rho [1; 8]; vm_compute; reflexivity.
  - cvx_cases rho [9; 4; 7]; vm_compute; reflexivity.
  - cvx_cases rho [6; 10]; vm_compute; reflexivity.
Qed.

Example cvx_conclusion :
  Permutation (open_wires (fst (crun_state 99 cvx_cs0 cvx_ops))) (open_wires (fst cvx_cs0)) /\
  forall rho, net_value 0%Z 1%Z Z.add Z.mul (fst (crun_state 99 cvx_cs0 cvx_ops)) cvx_tbl rho
              = net_value 0%Z 1%Z Z.add Z.mul (fst cvx_cs0) cvx_tbl rho.
Proof.
  destruct cvx_structure as (H1 & H2 & H3 & _).
  destruct (sequence_state_unchanged Z 0%Z 1%Z Z.add Z.mul Z_csr cvx_tbl 99 cvx_cs0 cvx_ops H1 H2 H3 cvx_contracts)
    as (_ & _ & P & V).
  split; [exact P|exact V].
Qed.

(* the common value is not trivially zero: one entry of the state, computed on both networks *)
Example cvx_entry :
  let rho := fun w : wire => match w with 1 => 2 | 4 => 1 | 6 => 1 | _ => 0 end in
  (net_value 0%Z 1%Z Z.add Z.mul (fst cvx_cs0) cvx_tbl rho, net_value 0%Z 1%Z Z.add Z.mul (fst cvx_csf) cvx_tbl rho) = ((-27)%Z, (-27)%Z).
Proof. vm_compute. reflexivity. Qed.
