(* Model of pytreenet/core/canonical_form.py and TreeTensorNetwork.move_orthogonalization_center
   as programs over the store model (TTN/Store.v).  Definitions only. *)
From Coq Require Import List Arith Bool.
From PTN Require Import TTN.Store.
Import ListNotations.

(* ---- distance_to_node: a dict in DFS pre-order from the centre, neighbours = parent first ---------- *)
Fixpoint dist_rec (fuel : nat) (s : store) (cur : id) (last : option id) : list (id * nat) :=
  match fuel with
  | O => []
  | S f =>
      match aget cur (nodes s) with
      | None => []
      | Some n =>
          let nbs := match last with Some l => remove_first l (neighbouring_nodes n) | None => neighbouring_nodes n end in
          (cur, 0) :: flat_map (fun nb => map (fun kv => (fst kv, S (snd kv))) (dist_rec f s nb (Some cur))) nbs
      end
  end.
Definition distance_to_node (s : store) (c : id) : list (id * nat) := dist_rec (length (nodes s)) s c None.

Definition dget (d : list (id * nat)) (k : id) : nat := match aget k d with Some v => v | None => 0 end.

(* min(dict, key=dict.get): the first minimal neighbour in neighbouring_nodes() order *)
Fixpoint first_min (d : list (id * nat)) (l : list id) (best : option id) : option id :=
  match l with
  | [] => best
  | x :: t => match best with
              | None => first_min d t (Some x)
              | Some b => if Nat.ltb (dget d x) (dget d b) then first_min d t (Some x) else first_min d t best
              end
  end.

(* _build_qr_leg_specs(node, neighbour) *)
Definition build_qr_leg_specs (n : node) (nb : id) : legspec * legspec :=
  let opens := seq (nvirt n) (nopen n) in
  let is_child_of := match parent n with Some p => Nat.eqb p nb | None => false end in
  if is_child_of then
    ({| ls_parent := None; ls_children := children n; ls_open := opens; ls_root := is_root n |},
     {| ls_parent := Some nb; ls_children := []; ls_open := []; ls_root := false |})
  else
    ({| ls_parent := parent n; ls_children := remove_first nb (children n); ls_open := opens; ls_root := is_root n |},
     {| ls_parent := None; ls_children := [nb]; ls_open := []; ls_root := false |}).

(* split_qr_contract_r_to_neighbour: Q keeps the node's identifier, R gets a temporary identifier
   `rid` (a uuid in the code) and is contracted into the neighbour, which keeps its identifier *)
Definition qr_to_neighbour (s : store) (n nb : id) (m : mode) (rid : id) : option store :=
  match aget n (nodes s) with
  | None => None
  | Some nd =>
      let '(q, r) := build_qr_leg_specs nd nb in
      match split_nodes s n q r n rid 0 m 0 with
      | Some s1 => contract_nodes s1 nb rid nb
      | None => None
      end
  end.

Definition cstore := (store * option id)%type.     (* store and orthogonality_center_id *)

Definition canonical_form (cs : cstore) (c : id) (m : mode) (rid : id) : option cstore :=
  let s := fst cs in
  if negb (amem c (nodes s)) then None else
  let d := distance_to_node s c in
  let maxd := fold_right Nat.max 0 (map snd d) in
  let order := flat_map (fun k => map fst (filter (fun kv => Nat.eqb (snd kv) k) d)) (rev (seq 1 maxd)) in
  let r := fold_left (fun acc n =>
                        match acc with
                        | None => None
                        | Some s' =>
                            match aget n (nodes s') with
                            | None => None
                            | Some nd => match first_min d (neighbouring_nodes nd) None with
                                         | Some nb => qr_to_neighbour s' n nb m rid
                                         | None => None
                                         end
                            end
                        end) order (Some s) in
  match r with Some s' => Some (s', Some c) | None => None end.

(* ---- path_from_to, literally as the code computes it ------------------------------------------------ *)
Fixpoint path_to_root (fuel : nat) (s : store) (n : id) : list id :=
  match fuel with
  | O => [n]
  | S f => match aget n (nodes s) with
           | Some nd => match parent nd with Some p => n :: path_to_root f s p | None => [n] end
           | None => [n]
           end
  end.
Definition count_in (x : id) (l : list id) : nat := length (filter (Nat.eqb x) l).
Definition path_from_to (s : store) (a b : id) : list id :=
  if Nat.eqb a b then [a] else
  let pa := path_to_root (length (nodes s)) s a in
  let pb := path_to_root (length (nodes s)) s b in
  let comb := pa ++ pb in
  let ndup := length (filter (fun j => negb (Nat.eqb (count_in j comb) 1)) comb) / 2 in
  let pa' := if Nat.eqb ndup 1 then pa else firstn (length pa - (ndup - 1)) pa in          (* [:-n+1] *)
  let pb' := if Nat.eqb ndup 0 then [] else firstn (length pb - ndup) pb in                 (* [:-n]   *)
  pa' ++ rev pb'.

Definition move_center (cs : cstore) (c : id) (m : mode) (rid : id) : option cstore :=
  match snd cs with
  | None => None
  | Some c0 =>
      if Nat.eqb c0 c then Some cs else
      let path := path_from_to (fst cs) c0 c in
      fold_left (fun acc nb => match acc with
                               | Some (s', Some cur) => match qr_to_neighbour s' cur nb m rid with
                                                        | Some s'' => Some (s'', Some nb)
                                                        | None => None
                                                        end
                               | _ => None
                               end) (tl path) (Some cs)
  end.

(* ---- isometry attribute: every node other than the centre is exactly one Q atom of a QR kernel
        call whose bond wire sits on the node's leg toward the centre ------------------------------------ *)
Definition toward (s : store) (d : list (id * nat)) (nd : node) : option id := first_min d (neighbouring_nodes nd) None.

Definition iso_node (s : store) (d : list (id * nat)) (kn : id * node) : bool :=
  let '(k, nd) := kn in
  match aget k (tensors s), toward s d nd with
  | Some t, Some nb =>
      match atoms t, neighbour_index nd nb with
      | [a], Some leg =>
          existsb (fun df => Nat.eqb (kq df) a && Nat.eqb (kkind df) 0
                             && Nat.eqb (kbond df) (nth (nth leg (perm nd) 0) (axes t) 0)) (defs s)
      | _, _ => false
      end
  | _, _ => false
  end.
Definition iso_check (cs : cstore) : bool :=
  match snd cs with
  | None => false
  | Some c =>
      let s := fst cs in
      let d := distance_to_node s c in
      forallb (fun kn => Nat.eqb (fst kn) c || iso_node s d kn) (nodes s)
  end.

(* ---- sequences ------------------------------------------------------------------------------------------- *)
(* replace_tensor(n, fresh tensor of the same shape): the node's tensor becomes a fresh atom on the
   same wires; the recorded orthogonality centre is NOT touched (the library never resets it) *)
Definition scramble (s : store) (n : id) : option store :=
  match aget n (nodes s), logical s n with
  | Some nd, Some lt =>
      let '(s1, a) := fresh_atom s (axes lt) in
      Some (upd_tensors (upd_nodes s1 (aset n (reset_permutation nd)))
                        (aset n {| axes := axes lt; atoms := [a]; bnd := [] |}))
  | _, _ => None
  end.

Inductive cop := Base (o : op) | Canon (c : id) (m : mode) | Move (c : id) (m : mode) | Scramble (n : id)
  | Ensure (c : id) (m : mode) | EnsureRoot (m : mode).

(* ensure_orth_center: canonical form if no centre is recorded, a move if it is elsewhere *)
Definition ensure_center (cs : cstore) (c : id) (m : mode) (rid : id) : option cstore :=
  if negb (amem c (nodes (fst cs))) then None else
  match snd cs with
  | None => canonical_form cs c m rid
  | Some c0 => if Nat.eqb c0 c then Some cs else move_center cs c m rid
  end.

Definition cstep (rid : id) (cs : cstore) (o : cop) : option cstore :=
  match o with
  | Base b => match step (fst cs) b with Some s' => Some (s', snd cs) | None => None end
  | Canon c m => canonical_form cs c m rid
  | Move c m => move_center cs c m rid
  | Scramble n => match scramble (fst cs) n with Some s' => Some (s', snd cs) | None => None end
  | Ensure c m => ensure_center cs c m rid
  | EnsureRoot m => match root (fst cs) with Some r => ensure_center cs r m rid | None => None end
  end.

Fixpoint crun_obs (rid : id) (cs : cstore) (ops : list cop) :=
  match ops with
  | [] => []
  | o :: t => match cstep rid cs o with
              | Some cs' => (true, observe (fst cs'), match snd cs' with Some c => [c] | None => [] end, iso_check cs') :: crun_obs rid cs' t
              | None => (false, observe (fst cs), match snd cs with Some c => [c] | None => [] end, iso_check cs) :: crun_obs rid cs t
              end
  end.
