(* Proofs about TTN/InvSem.v, part 5: insert_identity preserves the value of the whole network when the
   fresh atom is an identity matrix.  The child's old parent wire cw and the fresh wire w are both summed;
   the identity atom forces their indices to agree, which undoes the relabelling cw -> w of the child's atoms. *)
From Coq Require Import List Arith Bool Lia Permutation.
From PTN Require Import TTN.Store TTN.StoreProofs TTN.Inv TTN.InvProofs TTN.InvNode TTN.InvContract TTN.InvEdit
  TTN.InvBuild TTN.InvSplit TTN.InvRun TTN.InvWires Wire.Sem Wire.SemProofs TTN.InvSem TTN.InvSemProofs TTN.InvSemWfs
  TTN.InvSemValue TTN.InvSemOps.
Import ListNotations.

(* every wire of every live atom was allocated *)
Lemma wfs_atom_wires_lt s a x : wfs s -> In a (total_atoms s) -> In x (atom_wires s a) -> x < next_wire s.
Proof.
  intros WS Ha Hx. unfold total_atoms in Ha. apply in_flat_map in Ha. destruct Ha as ([k t] & Hk & Hak). cbn [snd] in Hak.
  pose proof (In_aget _ _ _ (wf_tnd s (ws_wf s WS)) Hk) as E.
  destruct (ws_closed s WS k t E a Hak x Hx) as [Hax|Hbn].
  - apply (wf_wires s (ws_wf s WS) k t x E Hax).
  - apply (ws_bnd_lt s WS x (total_bnd_In s k t x Hk Hbn)).
Qed.

Section EyeValue.
  Variable R : Type.
  Variables (zero one : R) (add mul : R -> R -> R).
  Hypothesis SR : comm_semiring zero one add mul.
  Variable tbl : nat -> list nat -> R.

  Local Notation net_value := (net_value zero one add mul).
  Local Notation sum_upto := (sum_upto R zero add).
  Local Notation atoms_val := (atoms_val R one mul).

  Lemma sr_mul_1_r' x : mul x one = x.
  Proof. rewrite (csr_mul_comm _ _ _ _ SR). apply (csr_mul_1_l _ _ _ _ SR). Qed.
  Lemma sr_add_0_r x : add x zero = x.
  Proof. rewrite (csr_add_comm _ _ _ _ SR). apply (csr_add_0_l _ _ _ _ SR). Qed.

  (* summing against a Kronecker delta picks one term *)
  Lemma sum_upto_delta d k (f : nat -> R) :
    sum_upto d (fun k' => mul (f k') (if Nat.eqb k k' then one else zero)) = if Nat.ltb k d then f k else zero.
  Proof.
    induction d as [|d IH]; cbn [Sem.sum_upto]; [reflexivity|]. rewrite IH.
    destruct (Nat.ltb_spec k d) as [Hlt|Hge].
    - destruct (Nat.eqb_spec k d) as [->|_]; [lia|]. rewrite (csr_mul_0_r _ _ _ _ SR), sr_add_0_r.
      destruct (Nat.ltb_spec k (S d)); [reflexivity|lia].
    - destruct (Nat.eqb_spec k d) as [->|Hne].
      + rewrite sr_mul_1_r', (csr_add_0_l _ _ _ _ SR). destruct (Nat.ltb_spec d (S d)); [reflexivity|lia].
      + rewrite (csr_mul_0_r _ _ _ _ SR), sr_add_0_r. destruct (Nat.ltb_spec k (S d)); [lia|reflexivity].
  Qed.

  Lemma atoms_val_agree (wo : nat -> list wire) atms (r r' : wire -> nat) :
    (forall a, In a atms -> forall x, In x (wo a) -> r x = r' x) -> atoms_val wo tbl atms r = atoms_val wo tbl atms r'.
  Proof.
    intros H. unfold Sem.atoms_val. apply (prod_over_ext R one mul). intros a Ha.
    unfold atom_val. f_equal. apply map_ext_in. apply (H a Ha).
  Qed.

  Theorem insert_identity_net_value s c p new s' :
    wfs s -> insert_identity s c p new = Some s' -> eye_atom zero one tbl (next_atom s) ->
    open_wires s' = open_wires s /\ forall rho, net_value s' tbl rho = net_value s tbl rho.
  Proof.
    intros WS Hi Heye. pose proof (ws_wf s WS) as W. pose proof (insert_identity_preserves_wf s c p new s' W Hi) as W'.
    pose proof (insert_identity_total_ends s c p new s' W Hi) as PE.
    pose proof (insert_identity_total_atoms s c p new s' W Hi) as EA.
    pose proof (insert_identity_open_wires s c p new s' W Hi) as EO.
    split; [exact EO|].
    destruct (insert_identity_atom_wires s c p new s' WS Hi) as (cn & ct & Ec & Et & Hw1 & Hw2 & Hw3 & _).
    destruct (insert_identity_facts s c p new s' W Hi)
      as (cn' & pn & ct' & pm & L' & Ec' & Ep & Et' & Epar & _ & _ & _ & _ & _ & _ & _ & _ & Hlax & _ & _ & Hcwlt & _ & _ & _ & Hdims & _ & _).
    rewrite Ec in Ec'. injection Ec' as <-. rewrite Et in Et'. injection Et' as <-.
    set (cw := ii_cw cn ct) in *. set (w := next_wire s) in *. set (na := next_atom s) in *.
    assert (Hcww : cw <> w) by (unfold w; lia).
    (* the summed wires *)
    assert (PB : Permutation (net_bnd s') (net_bnd s ++ [w])).
    { destruct (ends_determine_bnd s s' [] [w] W W') as [_ H2]; [|rewrite app_nil_r in H2; exact H2].
      rewrite PE. cbn. rewrite app_nil_r. apply (Permutation_count_occ Nat.eq_dec). intros z.
      cbn [count_occ]. rewrite count_occ_app. cbn [count_occ]. destruct (Nat.eq_dec w z); nlia. }
    assert (Hcwe : In cw (net_bnd s)).
    { unfold net_bnd. apply in_or_app. right. unfold edge_wires. apply in_flat_map. exists (c, cn).
      split; [apply aget_In; exact Ec|]. apply (node_edge_In s c cn cw W Ec). split; [congruence|].
      unfold ew. rewrite Ec. unfold lax. rewrite (tens_aget _ _ _ Et), Hlax. reflexivity. }
    destruct (in_split _ _ Hcwe) as (Y1 & Y2 & EY). set (Y := Y1 ++ Y2).
    assert (PY : Permutation (net_bnd s) (Y ++ [cw])).
    { rewrite EY. unfold Y. rewrite <- Permutation_middle. symmetry. rewrite <- app_assoc. symmetry.
      apply (Permutation_count_occ Nat.eq_dec). intros z. cbn [count_occ]. rewrite !count_occ_app. cbn [count_occ].
      destruct (Nat.eq_dec cw z); nlia. }
    assert (PY' : Permutation (net_bnd s') (Y ++ [cw; w])).
    { rewrite PB, PY, <- app_assoc. reflexivity. }
    (* dimensions *)
    assert (Hwd : forall x, wdim s' x = if Nat.eqb x w then wdim s cw else wdim s x).
    { intros x. apply (wdim_snoc s s' w (wdim s cw) x Hdims). apply aget_None. intros Hin. pose proof (wf_dims s W _ Hin). unfold w in *. lia. }
    (* atoms: the child's and the others *)
    assert (PA : Permutation (total_atoms s) (atoms ct ++ flat_map (fun kt => atoms (snd kt)) (adel c (tensors s)))).
    { unfold total_atoms. apply (flat_map_adel_perm (fun kt : id * sarr => atoms (snd kt)) c ct (tensors s) Et). }
    set (restA := flat_map (fun kt : id * sarr => atoms (snd kt)) (adel c (tensors s))) in *.
    assert (HinA : forall a, In a (atoms ct) -> In a (total_atoms s)).
    { intros a Ha. apply (Permutation_in _ (Permutation_sym PA)). apply in_or_app. left. exact Ha. }
    assert (HinB : forall a, In a restA -> In a (total_atoms s) /\ ~ In a (atoms ct)).
    { intros a Ha. split; [apply (Permutation_in _ (Permutation_sym PA)); apply in_or_app; right; exact Ha|].
      pose proof (ws_atoms_nd s WS) as Hnd. rewrite PA in Hnd. apply NoDup_app_iff in Hnd. destruct Hnd as (_ & _ & Hd).
      intros Hc. apply (Hd a Hc Ha). }
    assert (Hlt : forall a, In a (total_atoms s) -> forall x, In x (atom_wires s a) -> x <> w).
    { intros a Ha x Hx. pose proof (wfs_atom_wires_lt s a x WS Ha Hx). unfold w. lia. }
    (* the atoms of s' evaluated in s' = those of s evaluated in s at the substituted assignment *)
    assert (HvalA : forall r, atoms_val (atom_wires s') tbl (atoms ct) r = atoms_val (atom_wires s) tbl (atoms ct) (upd r cw (r w))).
    { intros r. unfold Sem.atoms_val. apply (prod_over_ext R one mul). intros a Ha. unfold atom_val.
      rewrite (Hw1 a Ha), map_map. f_equal. apply map_ext. intros x. unfold ii_sub, upd.
      destruct (Nat.eqb x cw); reflexivity. }
    assert (HvalB : forall r, atoms_val (atom_wires s') tbl restA r = atoms_val (atom_wires s) tbl restA r).
    { intros r. apply atoms_val_world. intros a Ha. destruct (HinB a Ha) as [H1 H2]. apply (Hw2 a H2).
      pose proof (ws_atoms_lt s WS a H1). unfold na. lia. }
    intros rho. unfold InvSem.net_value, value_s.
    rewrite (value_perm_gen R zero one add mul SR (atom_wires s') (wdim s') tbl (net_diagram s')
               {| axes := []; atoms := (atoms ct ++ restA) ++ [na]; bnd := Y ++ [cw; w] |} rho);
      [|cbn [atoms net_diagram]; rewrite EA; apply Permutation_app_tail; exact PA|exact PY'].
    rewrite (value_perm_gen R zero one add mul SR (atom_wires s) (wdim s) tbl (net_diagram s)
               {| axes := []; atoms := atoms ct ++ restA; bnd := Y ++ [cw] |} rho PA PY).
    unfold value. cbn [atoms bnd]. rewrite !(sum_bnd_app R zero add).
    apply sum_bnd_world.
    - intros x Hx. rewrite Hwd. destruct (Nat.eqb_spec x w) as [->|_]; [|reflexivity].
      exfalso. assert (Hin : In w (net_bnd s)) by (rewrite PY; apply in_or_app; left; exact Hx).
      unfold net_bnd in Hin. apply in_app_or in Hin. destruct Hin as [Hin|Hin].
      + pose proof (ws_bnd_lt s WS w Hin). unfold w in *. lia.
      + assert (Hown : In w (own_wires s)) by (rewrite own_wires_split; apply in_or_app; left; exact Hin).
        unfold own_wires in Hown. apply in_flat_map in Hown. destruct Hown as ([k nk] & Hk & Hwk).
        pose proof (wf_own_bound s k nk w W (In_aget _ _ _ (wf_nd s W) Hk) Hwk). unfold w in *. lia.
    - intros r. cbn [sum_bnd]. rewrite !Hwd. rewrite Nat.eqb_refl.
      destruct (Nat.eqb_spec cw w) as [|_]; [contradiction|].
      apply (sum_upto_ext R zero add). intros k Hk.
      transitivity (sum_upto (wdim s cw)
                      (fun k' => mul (mul (atoms_val (atom_wires s) tbl (atoms ct) (upd r cw k'))
                                          (atoms_val (atom_wires s) tbl restA (upd r cw k)))
                                     (if Nat.eqb k k' then one else zero))).
      + apply (sum_upto_ext R zero add). intros k' Hk'.
        rewrite !(atoms_val_app R zero one add mul SR). rewrite HvalA, HvalB. cbn [Sem.atoms_val prod_over].
        rewrite sr_mul_1_r'. unfold atom_val. rewrite Hw3. cbn [map]. rewrite Heye.
        assert (E1 : upd (upd r cw k) w k' cw = k) by (unfold upd; rewrite Nat.eqb_refl; destruct (Nat.eqb_spec cw w); [contradiction|reflexivity]).
        assert (E2 : upd (upd r cw k) w k' w = k') by (unfold upd; rewrite Nat.eqb_refl; reflexivity).
        rewrite E1, E2. f_equal. f_equal.
        * apply atoms_val_agree. intros a Ha x Hx. pose proof (Hlt a (HinA a Ha) x Hx) as Hxw. unfold upd.
          destruct (Nat.eqb_spec x cw); [reflexivity|]. destruct (Nat.eqb_spec x w); [contradiction|reflexivity].
        * apply atoms_val_agree. intros a Ha x Hx. pose proof (Hlt a (proj1 (HinB a Ha)) x Hx) as Hxw. unfold upd.
          destruct (Nat.eqb_spec x w); [contradiction|reflexivity].
      + rewrite sum_upto_delta. destruct (Nat.ltb_spec k (wdim s cw)); [|lia].
        rewrite (atoms_val_app R zero one add mul SR). reflexivity.
  Qed.
End EyeValue.
