(* contract_nodes preserves the store invariant; diagram totals and the open-leg rule. *)
From Coq Require Import List Arith Bool Lia Permutation.
From PTN Require Import TTN.Store TTN.StoreProofs TTN.Inv TTN.InvProofs TTN.InvNode.
Import ListNotations.

(* id and wire are definitions for nat; lia needs them unfolded to identify @length id with @length nat *)
Ltac nlia := unfold id, wire in *; lia.

(* ---- the node record built by create_contracted_node ------------------------------------------------ *)
Lemma move_0_0 {A} (l l' : list A) : move 0 0 l = Some l' -> l' = l.
Proof. destruct l as [|x t]; cbn; [discriminate|]. intros [= <-]. reflexivity. Qed.

Lemma remove_first_length x l : In x l -> S (length (remove_first x l)) = length l.
Proof. intros H. apply remove_first_perm in H. apply Permutation_length in H. cbn in H. lia. Qed.

Lemma seq_nth_map N (is : list nat) : (forall i, In i is -> i < N) -> map (fun i => nth i (seq 0 N) 0) is = is.
Proof.
  intros H. rewrite <- (map_id is) at 2. apply map_ext_in. intros i Hi. rewrite seq_nth by (apply H; exact Hi). reflexivity.
Qed.

Definition ccn_perm (first : bool) (np npch ncc op oc lp : nat) : list nat :=
  seq 0 np ++
  (if first then seq np npch ++ seq (lp - 1) ncc ++ seq (np + npch) op ++ seq (lp - 1 + ncc) oc
   else seq (lp - 1) ncc ++ seq np npch ++ seq (lp - 1 + ncc) oc ++ seq (np + npch) op).

Lemma ccn_spec shp pn cn c first nn :
  create_contracted_node shp pn cn c first = Some nn ->
  In c (children pn) -> nvirt pn <= nlegs pn -> nvirt cn <= nlegs cn -> nparents cn = 1 ->
  length shp = (nlegs pn - 1) + (nlegs cn - 1) ->
  let pch := remove_first c (children pn) in
  parent nn = parent pn /\ shape nn = shp /\
  children nn = (if first then pch ++ children cn else children cn ++ pch) /\
  perm nn = ccn_perm first (nparents pn) (length pch) (length (children cn)) (nopen pn) (nopen cn) (nlegs pn).
Proof.
  intros H Hc Hvp Hvc Hpc Hlen. unfold create_contracted_node in H. cbv zeta in H |- *.
  set (pch := remove_first c (children pn)) in *.
  set (N := length shp) in *.
  set (np := nparents pn) in *. set (lp := nlegs pn) in *. set (lc := nlegs cn) in *.
  set (cc := children cn) in *.
  assert (Hpch : S (length pch) = length (children pn)) by (apply remove_first_length; exact Hc).
  assert (Eop : lp = np + S (length pch) + nopen pn).
  { unfold nopen. fold lp. unfold nvirt in *. fold np in Hvp |- *. lia. }
  assert (Eoc : lc = 1 + length cc + nopen cn).
  { unfold nopen. fold lc. unfold nvirt in *. rewrite Hpc in *. fold cc in Hvc |- *. lia. }
  set (op := nopen pn) in *. set (oc := nopen cn) in *.
  assert (EN : N = np + length pch + op + length cc + oc) by lia.
  (* n1 *)
  match type of H with match ?r with _ => _ end = _ => destruct r as [n1|] eqn:E1; [|discriminate] end.
  assert (Hn1 : parent n1 = parent pn /\ children n1 = [] /\ perm n1 = seq 0 N /\ shape n1 = shp).
  { destruct (parent pn) as [pp|] eqn:Epp.
    - unfold open_leg_to_parent in E1. cbn in E1.
      destruct (open_leg_ok (new_node shp) 0); cbn in E1; [|discriminate].
      destruct (move 0 0 (seq 0 (length shp))) as [q|] eqn:Em; [|discriminate].
      apply move_0_0 in Em. subst q. injection E1 as <-. cbn. auto.
    - injection E1 as <-. cbn. auto. }
  destruct Hn1 as (P1 & P2 & P3 & P4).
  assert (Hv1 : nvirt n1 = np).
  { unfold nvirt. rewrite P2. cbn. unfold nparents. rewrite P1. fold (nparents pn). fold np. lia. }
  assert (Hwf1 : node_wf n1).
  { split; [rewrite P3, P4; reflexivity|]. rewrite Hv1. unfold nlegs. rewrite P3, seq_length. lia. }
  set (pd := enum_from np pch) in *. set (cd := enum_from (lp - 1) cc) in *.
  set (d := if first then pd ++ cd else cd ++ pd) in *.
  destruct (open_legs_to_children n1 d) as [n2|] eqn:E2; [|discriminate].
  assert (Hlegs : map snd d = if first then seq np (length pch) ++ seq (lp - 1) (length cc)
                              else seq (lp - 1) (length cc) ++ seq np (length pch)).
  { unfold d, pd, cd. destruct first; rewrite map_app, !enum_from_snd; reflexivity. }
  assert (Hids : map fst d = if first then pch ++ cc else cc ++ pch).
  { unfold d, pd, cd. destruct first; rewrite map_app, !enum_from_fst; reflexivity. }
  assert (Hinlegs : forall x, In x (map snd d) <-> (np <= x < np + length pch \/ lp - 1 <= x < lp - 1 + length cc)).
  { intros x. rewrite Hlegs. destruct first; rewrite in_app_iff, !in_seq; tauto. }
  assert (Hndl : NoDup (map snd d)).
  { rewrite Hlegs. destruct first; apply NoDup_app_iff; repeat split; try apply seq_NoDup;
      intros x Hx Hy; apply in_seq in Hx; apply in_seq in Hy; lia. }
  destruct (open_legs_to_children_spec n1 d n2 Hwf1 Hndl E2) as (S1 & S2 & S3 & S4 & S5).
  rewrite P3 in S4. rewrite Hv1 in S4.
  assert (Hvals : map (fun cl : id * nat => nth (snd cl) (seq 0 N) 0) d = map snd d).
  { rewrite <- (map_map snd (fun i => nth i (seq 0 N) 0)). apply seq_nth_map.
    intros i Hi. apply Hinlegs in Hi. lia. }
  rewrite Hvals in S4.
  assert (Hseq : seq 0 N = seq 0 np ++ seq np (length pch) ++ seq (np + length pch) op
                           ++ seq (lp - 1) (length cc) ++ seq (lp - 1 + length cc) oc).
  { rewrite EN. rewrite <- !Nat.add_assoc. rewrite seq_app. f_equal. cbn [Nat.add].
    rewrite seq_app. f_equal. rewrite seq_app. f_equal.
    replace (np + length pch + op) with (lp - 1) by lia. apply seq_app. }
  assert (Hf : firstn np (seq 0 N) = seq 0 np).
  { rewrite Hseq. rewrite <- (seq_length np 0) at 1. apply firstn_app_len. }
  assert (Hs : skipn np (seq 0 N) = seq np (length pch) ++ seq (np + length pch) op
                           ++ seq (lp - 1) (length cc) ++ seq (lp - 1 + length cc) oc).
  { rewrite Hseq. rewrite <- (seq_length np 0) at 1. apply skipn_app_len. }
  assert (Hfilt : filter (fun x => negb (memb x (map snd d))) (skipn np (seq 0 N))
                  = seq (np + length pch) op ++ seq (lp - 1 + length cc) oc).
  { rewrite Hs, !filter_app.
    rewrite (filter_seq_in (map snd d) np) by (intros x Hx; apply Hinlegs; lia).
    rewrite (filter_seq_out (map snd d) (np + length pch)) by (intros x Hx Hi; apply Hinlegs in Hi; lia).
    rewrite (filter_seq_in (map snd d) (lp - 1)) by (intros x Hx; apply Hinlegs; lia).
    rewrite (filter_seq_out (map snd d) (lp - 1 + length cc)) by (intros x Hx Hi; apply Hinlegs in Hi; lia).
    reflexivity. }
  rewrite Hf, Hfilt, Hlegs in S4.
  assert (S3' : children n2 = if first then pch ++ cc else cc ++ pch).
  { rewrite S3, P2. cbn [app]. exact Hids. }
  clear S3. rename S3' into S3.
  destruct first.
  - injection H as <-. repeat split.
    + rewrite S1. exact P1.
    + rewrite S2. exact P4.
    + exact S3.
    + rewrite S4. unfold ccn_perm. rewrite <- !app_assoc. reflexivity.
  - unfold exchange_open_leg_ranges in H.
    set (nv := nvirt n2) in *.
    assert (Hnv : nv = np + length cc + length pch).
    { unfold nv, nvirt. rewrite S3, app_length. unfold nparents. rewrite S1, P1. fold (nparents pn). fold np. nlia. }
    assert (Hl2 : nlegs n2 = N).
    { unfold nlegs. rewrite S4, !app_length, !seq_length. lia. }
    rewrite Hl2 in H.
    replace (nv + op <? nv) with false in H by (symmetry; apply Nat.ltb_ge; lia).
    replace (nv + op <? nv + op) with false in H by (symmetry; apply Nat.ltb_ge; lia).
    replace (N - (nv + op)) with oc in H by lia.
    set (virt := seq 0 np ++ seq (lp - 1) (length cc) ++ seq np (length pch)) in *.
    set (OP := seq (np + length pch) op) in *. set (OC := seq (lp - 1 + length cc) oc) in *.
    assert (Hvl : length virt = nv).
    { unfold virt. rewrite !app_length, !seq_length. lia. }
    assert (HP2 : perm n2 = (virt ++ OP) ++ OC ++ []).
    { rewrite S4. unfold virt. rewrite app_nil_r, <- !app_assoc. reflexivity. }
    rewrite HP2 in H.
    replace oc with (length OC) in H at 1 by (unfold OC; apply seq_length).
    replace (nv + op) with (length (virt ++ OP)) in H at 1 by (rewrite app_length; unfold OP; rewrite seq_length; lia).
    rewrite pop_n_app in H. rewrite app_nil_r in H.
    replace op with (length OP) in H at 1 by (unfold OP; apply seq_length).
    rewrite <- Hvl in H at 1. rewrite <- (app_nil_r (virt ++ OP)) in H. rewrite <- app_assoc in H.
    rewrite pop_n_app in H. rewrite app_nil_r in H.
    replace (insert_list nv OC virt) with (virt ++ OC) in H by (rewrite <- Hvl; symmetry; apply insert_list_end).
    replace (nv + oc + (nv + op - (nv + op))) with (length (virt ++ OC)) in H
      by (rewrite app_length; unfold OC; rewrite seq_length; lia).
    rewrite insert_list_end in H. injection H as <-. cbn. repeat split.
    + rewrite S1. exact P1.
    + rewrite S2. exact P4.
    + exact S3.
    + unfold ccn_perm, virt. rewrite <- !app_assoc. reflexivity.
Qed.

(* ---- replace_node_in_neighbours ---------------------------------------------------------------------- *)
Definition reparent (new : id) (chs : list id) (k : id) (n : node) : node :=
  if memb k chs && negb (Nat.eqb k new) then with_parent n (Some new) else n.

Lemma set_parent_of_aget new l ch k :
  aget k (set_parent_of new l ch)
  = if Nat.eqb k ch then option_map (fun n => with_parent n (Some new)) (aget k l) else aget k l.
Proof.
  unfold set_parent_of. destruct (aget ch l) as [cn|] eqn:E.
  - rewrite aget_aset. destruct (Nat.eqb_spec k ch) as [->|Hne]; [rewrite E; reflexivity|reflexivity].
  - destruct (Nat.eqb_spec k ch) as [->|Hne]; [rewrite E; reflexivity|reflexivity].
Qed.

Lemma set_parent_of_keys new l ch : akeys (set_parent_of new l ch) = akeys l.
Proof.
  unfold set_parent_of. destruct (aget ch l) as [cn|] eqn:E; [|reflexivity].
  eapply akeys_aset_mem. exact E.
Qed.

Definition reparent_fold (new : id) (chs : list id) (l : list (id * node)) :=
  fold_left (fun l c => if Nat.eqb c new then l else set_parent_of new l c) chs l.

Lemma reparent_fold_aget new chs : forall l k,
  aget k (reparent_fold new chs l) = option_map (reparent new chs k) (aget k l).
Proof.
  unfold reparent_fold. induction chs as [|ch t IH]; intros l k.
  - cbn. destruct (aget k l); reflexivity.
  - cbn [fold_left]. rewrite IH. unfold reparent. cbn [memb existsb].
    destruct (Nat.eqb_spec ch new) as [->|Hne].
    + destruct (aget k l) as [n|]; [|reflexivity]. cbn. f_equal.
      destruct (Nat.eqb_spec k new) as [->|Hk]; cbn.
      * rewrite !andb_false_r. reflexivity.
      * reflexivity.
    + rewrite set_parent_of_aget. fold (memb k t).
      destruct (Nat.eqb_spec k ch) as [->|Hk]; cbn.
      * destruct (aget ch l) as [n|]; [|reflexivity]. cbn. f_equal.
        destruct (Nat.eqb_spec ch new); [congruence|]. cbn. destruct (memb ch t); reflexivity.
      * reflexivity.
Qed.

Lemma reparent_fold_keys new chs : forall l, akeys (reparent_fold new chs l) = akeys l.
Proof.
  unfold reparent_fold. induction chs as [|ch t IH]; intros l; [reflexivity|].
  cbn [fold_left]. rewrite IH. destruct (Nat.eqb ch new); [reflexivity|apply set_parent_of_keys].
Qed.

Lemma reparent_children new chs k n : children (reparent new chs k n) = children n.
Proof. unfold reparent. destruct (_ && _); reflexivity. Qed.

Lemma reparent_perm new chs k n : perm (reparent new chs k n) = perm n.
Proof. unfold reparent. destruct (_ && _); reflexivity. Qed.

Lemma reparent_shape new chs k n : shape (reparent new chs k n) = shape n.
Proof. unfold reparent. destruct (_ && _); reflexivity. Qed.

Lemma reparent_parent new chs k n :
  parent (reparent new chs k n) = if memb k chs && negb (Nat.eqb k new) then Some new else parent n.
Proof. unfold reparent. destruct (_ && _); reflexivity. Qed.

Lemma rnin_spec s new old del s' on :
  replace_node_in_neighbours s new old del = Some s' -> new <> old -> NoDup (akeys (nodes s)) ->
  aget old (nodes s) = Some on ->
  exists L, s' = set_root (upd_nodes s (fun _ => L)) (match parent on with None => Some new | Some _ => root s end)
   /\ NoDup (akeys L)
   /\ (forall k, aget k L =
        if del && Nat.eqb k old then None else
        match parent on with
        | Some pp => if negb (Nat.eqb pp new) && Nat.eqb k pp
                     then option_map (fun n => with_children (reparent new (children on) k n)
                                                             (replace_first old new (children n))) (aget k (nodes s))
                     else option_map (reparent new (children on) k) (aget k (nodes s))
        | None => option_map (reparent new (children on) k) (aget k (nodes s))
        end)
   /\ (forall pp, parent on = Some pp -> pp <> new -> exists ppn, aget pp (nodes s) = Some ppn /\ In old (children ppn)).
Proof.
  intros H Hne Hnd Eon. unfold replace_node_in_neighbours in H.
  destruct (Nat.eqb_spec new old) as [|_]; [congruence|]. rewrite Eon in H.
  fold (reparent_fold new (children on) (nodes s)) in H.
  set (l1 := reparent_fold new (children on) (nodes s)) in *.
  assert (Hl1 : forall k, aget k l1 = option_map (reparent new (children on) k) (aget k (nodes s)))
    by (intros k; apply reparent_fold_aget).
  assert (Hnd1 : NoDup (akeys l1)) by (unfold l1; rewrite reparent_fold_keys; exact Hnd).
  assert (Hfin : forall l2 : list (id * node), NoDup (akeys l2) -> NoDup (akeys (if del then adel old l2 else l2))).
  { intros l2 H2. destruct del; [apply NoDup_akeys_adel|]; exact H2. }
  assert (Hdel : forall (l2 : list (id * node)) k, NoDup (akeys l2) ->
            aget k (if del then adel old l2 else l2) = if del && Nat.eqb k old then None else aget k l2).
  { intros l2 k H2. destruct del; cbn; [apply aget_adel; exact H2|reflexivity]. }
  destruct (parent on) as [pp|] eqn:Epp.
  - destruct (Nat.eqb_spec pp new) as [->|Hpn].
    + injection H as <-. exists (if del then adel old l1 else l1). repeat split.
      * apply Hfin. exact Hnd1.
      * intros k. rewrite Hdel by exact Hnd1. rewrite Hl1. reflexivity.
      * intros pp' [= <-] Hc. congruence.
    + destruct (aget pp l1) as [ppn|] eqn:Eppn; [|discriminate].
      destruct (memb old (children ppn)) eqn:Hm; [|discriminate]. injection H as <-.
      set (l2 := aset pp (with_children ppn (replace_first old new (children ppn))) l1).
      assert (Hnd2 : NoDup (akeys l2)) by (apply NoDup_akeys_aset; exact Hnd1).
      rewrite Hl1 in Eppn. destruct (aget pp (nodes s)) as [ppn0|] eqn:Eppn0; [|discriminate].
      cbn in Eppn. injection Eppn as <-.
      exists (if del then adel old l2 else l2). repeat split.
      * apply Hfin. exact Hnd2.
      * intros k. rewrite Hdel by exact Hnd2. unfold l2. rewrite aget_aset, Hl1.
        destruct (Nat.eqb_spec k pp) as [->|Hk]; cbn; [|reflexivity].
        rewrite Eppn0. cbn. rewrite reparent_children. reflexivity.
      * intros pp' [= <-] _. exists ppn0. split; [exact Eppn0|]. apply memb_In.
        rewrite reparent_children in Hm. exact Hm.
  - injection H as <-. exists (if del then adel old l1 else l1). repeat split.
    + apply Hfin. exact Hnd1.
    + intros k. rewrite Hdel by exact Hnd1. rewrite Hl1. reflexivity.
    + intros pp' Hc. discriminate.
Qed.

(* ---- the node dictionary after a contraction --------------------------------------------------------- *)
Lemma node_eq a b : parent a = parent b -> children a = children b -> perm a = perm b -> shape a = shape b -> a = b.
Proof. destruct a, b. cbn. intros -> -> -> ->. reflexivity. Qed.

Lemma replace_first_same x l : replace_first x x l = l.
Proof. induction l as [|y t IH]; cbn; [reflexivity|]. destruct (Nat.eqb_spec x y) as [->|]; [reflexivity|]. f_equal. exact IH. Qed.

(* how a node other than p, c, new is rewritten: children of p or c get parent new, the parent of p
   gets new in place of p *)
Definition rt (p c new : id) (chp chc : list id) (pp : option id) (k : id) (n : node) : node :=
  {| parent := if memb k chp || memb k chc then Some new else parent n;
     children := if (match pp with Some q => Nat.eqb k q | None => false end)
                 then replace_first p new (children n) else children n;
     perm := perm n; shape := shape n |}.

Lemma wf_child_parent s k n x : wf s -> aget k (nodes s) = Some n -> In x (children n) ->
  exists xn, aget x (nodes s) = Some xn /\ parent xn = Some k.
Proof. intros W E Hx. apply (ni_ch _ _ _ (wf_node s W k n E) x Hx). Qed.

Lemma wf_parent_child s k n p : wf s -> aget k (nodes s) = Some n -> parent n = Some p ->
  exists pn, aget p (nodes s) = Some pn /\ In k (children pn).
Proof.
  intros W E Hp. destruct (ni_par _ _ _ (wf_node s W k n E) p Hp) as (pn & i & E1 & E2 & _). eauto.
Qed.

Lemma rnin_same s new del : replace_node_in_neighbours s new new del = Some s.
Proof. unfold replace_node_in_neighbours. rewrite Nat.eqb_refl. reflexivity. Qed.

Lemma contract_view s p c pn cn new nt nn s4 s5 :
  wf s -> aget p (nodes s) = Some pn -> aget c (nodes s) = Some cn -> parent cn = Some p ->
  (new = p \/ new = c \/ ~ In new (akeys (nodes s))) ->
  replace_node_in_neighbours (upd_tensors s (fun l => adel c (adel p l) ++ [(new, nt)])) new p true = Some s4 ->
  replace_node_in_neighbours s4 new c true = Some s5 ->
  let s' := upd_nodes s5 (aset new nn) in
  NoDup (akeys (nodes s')) /\
  aget new (nodes s') = Some nn /\
  (p <> new -> aget p (nodes s') = None) /\ (c <> new -> aget c (nodes s') = None) /\
  (forall k, k <> p -> k <> c -> k <> new ->
     aget k (nodes s') = option_map (rt p c new (children pn) (children cn) (parent pn) k) (aget k (nodes s))) /\
  root s' = (match parent pn with None => Some new | Some _ => root s end) /\
  tensors s' = adel c (adel p (tensors s)) ++ [(new, nt)] /\ dims s' = dims s /\ next_wire s' = next_wire s.
Proof.
  intros W Ep Ec Hpc Hnew H4 H5.
  set (s3 := upd_tensors s (fun l => adel c (adel p l) ++ [(new, nt)])) in *.
  assert (Hpne : p <> c). { intros ->. apply (wf_not_self_parent s c cn W Ec Hpc). }
  assert (Hnd : NoDup (akeys (nodes s3))) by apply (wf_nd s W).
  assert (Hppc : parent pn <> Some c) by (apply (wf_parent_not_child s c cn p pn W Ec Hpc Ep)).
  (* facts used to identify the rewritten records *)
  assert (Hchp : forall k n, aget k (nodes s) = Some n -> memb k (children pn) = true -> parent n = Some p).
  { intros k n E Hm. apply memb_In in Hm. destruct (wf_child_parent s p pn k W Ep Hm) as (xn & E1 & E2). congruence. }
  assert (Hchc : forall k n, aget k (nodes s) = Some n -> memb k (children cn) = true -> parent n = Some c).
  { intros k n E Hm. apply memb_In in Hm. destruct (wf_child_parent s c cn k W Ec Hm) as (xn & E1 & E2). congruence. }
  assert (Hcin : memb c (children pn) = true).
  { apply memb_In. destruct (wf_parent_child s c cn p W Ec Hpc) as (pn' & E1 & E2). congruence. }
  destruct (Nat.eq_dec new p) as [->|Hnp]; [|destruct (Nat.eq_dec new c) as [->|Hnc]].
  - (* new = p *)
    rewrite rnin_same in H4. injection H4 as <-.
    destruct (rnin_spec s3 p c true s5 cn H5 Hpne Hnd Ec) as (L & -> & HndL & HL & _).
    cbn [nodes upd_nodes set_root root tensors dims next_wire]. rewrite Hpc in HL |- *.
    repeat split.
    + apply NoDup_akeys_aset. exact HndL.
    + apply aget_aset_same.
    + congruence.
    + intros _. rewrite aget_aset_other by congruence. rewrite HL. cbn. rewrite Nat.eqb_refl. reflexivity.
    + intros k Hk1 Hk2 _. rewrite aget_aset_other by exact Hk1. rewrite HL.
      destruct (Nat.eqb_spec k c); [congruence|]. rewrite Nat.eqb_refl. cbn [negb andb].
      change (nodes s3) with (nodes s). destruct (aget k (nodes s)) as [nk|] eqn:E; [|reflexivity]. cbn. f_equal.
      apply node_eq; cbn; rewrite ?reparent_children, ?reparent_perm, ?reparent_shape; try reflexivity.
      * rewrite reparent_parent. destruct (Nat.eqb_spec k p); [congruence|]. rewrite andb_true_r.
        destruct (memb k (children cn)); [rewrite orb_true_r; reflexivity|]. rewrite orb_false_r.
        destruct (memb k (children pn)) eqn:Hm; [apply (Hchp k nk E Hm)|reflexivity].
      * rewrite replace_first_same. destruct (parent pn) as [q|]; [destruct (k =? q)|]; reflexivity.
    + destruct (parent pn) eqn:Epp; [reflexivity|]. destruct (wf_root s W) as (r & rn & Hr & _ & _ & Hu).
      change (root s3) with (root s). rewrite Hr. f_equal. symmetry. apply (Hu p pn Ep Epp).
  - (* new = c *)
    rewrite rnin_same in H5. injection H5 as <-.
    destruct (rnin_spec s3 c p true s4 pn H4 (not_eq_sym Hpne) Hnd Ep) as (L & -> & HndL & HL & _).
    cbn [nodes upd_nodes set_root root tensors dims next_wire].
    repeat split.
    + apply NoDup_akeys_aset. exact HndL.
    + apply aget_aset_same.
    + intros _. rewrite aget_aset_other by congruence. rewrite HL. cbn. rewrite Nat.eqb_refl. reflexivity.
    + congruence.
    + intros k Hk1 Hk2 _. rewrite aget_aset_other by exact Hk2. rewrite HL.
      destruct (Nat.eqb_spec k p); [congruence|]. cbn [andb].
      change (nodes s3) with (nodes s).
      assert (Hpar : forall n, aget k (nodes s) = Some n ->
                parent (reparent c (children pn) k n) = (if memb k (children pn) || memb k (children cn) then Some c else parent n)).
      { intros n0 E. rewrite reparent_parent. destruct (Nat.eqb_spec k c); [congruence|]. rewrite andb_true_r.
        destruct (memb k (children pn)); [reflexivity|]. cbn.
        destruct (memb k (children cn)) eqn:Hm; [apply (Hchc k n0 E Hm)|reflexivity]. }
      destruct (parent pn) as [q|] eqn:Epp.
      * destruct (Nat.eqb_spec q c) as [Eq|Hqc]; [exfalso; apply Hppc; f_equal; exact Eq|]. cbn [negb andb].
        destruct (Nat.eqb_spec k q) as [->|Hkq].
        -- destruct (aget q (nodes s)) as [n0|] eqn:E; [|reflexivity]. cbn. f_equal.
           apply node_eq; cbn; rewrite ?reparent_children, ?reparent_perm, ?reparent_shape, ?Nat.eqb_refl; try reflexivity.
           apply Hpar; first [exact E|reflexivity].
        -- destruct (aget k (nodes s)) as [n0|] eqn:E; [|reflexivity]. cbn. f_equal.
           apply node_eq; cbn; rewrite ?reparent_children, ?reparent_perm, ?reparent_shape; try reflexivity.
           ++ apply Hpar; first [exact E|reflexivity].
           ++ destruct (Nat.eqb_spec k q); [congruence|reflexivity].
      * destruct (aget k (nodes s)) as [n0|] eqn:E; [|reflexivity]. cbn. f_equal.
        apply node_eq; cbn; rewrite ?reparent_children, ?reparent_perm, ?reparent_shape; try reflexivity.
        apply Hpar; first [exact E|reflexivity].
  - (* new is a fresh key *)
    assert (Hfresh : aget new (nodes s) = None).
    { destruct Hnew as [?|[?|Hn]]; [congruence|congruence|]. apply aget_None. exact Hn. }
    destruct (rnin_spec s3 new p true s4 pn H4 Hnp Hnd Ep) as (L4 & -> & HndL4 & HL4 & _).
    set (s4 := set_root (upd_nodes s3 (fun _ => L4)) (match parent pn with None => Some new | Some _ => root s3 end)) in *.
    assert (Ec4 : aget c (nodes s4) = Some (reparent new (children pn) c cn)).
    { cbn. rewrite HL4. destruct (Nat.eqb_spec c p); [congruence|]. cbn [andb].
      change (nodes s3) with (nodes s). rewrite Ec.
      destruct (parent pn) as [q|] eqn:Epp; [|reflexivity].
      destruct (Nat.eqb_spec c q) as [Eq|]; [exfalso; apply Hppc; f_equal; symmetry; exact Eq|]. rewrite andb_false_r. reflexivity. }
    assert (Hon5 : parent (reparent new (children pn) c cn) = Some new).
    { rewrite reparent_parent, Hcin. destruct (Nat.eqb_spec c new); [congruence|reflexivity]. }
    destruct (rnin_spec s4 new c true s5 _ H5 Hnc HndL4 Ec4) as (L5 & -> & HndL5 & HL5 & _).
    rewrite Hon5 in HL5. rewrite Nat.eqb_refl in HL5. cbn [negb andb] in HL5. rewrite reparent_children in HL5.
    cbn [nodes upd_nodes set_root root tensors dims next_wire]. rewrite Hon5.
    assert (H4k : forall k, k <> p -> k <> c -> k <> new -> aget k L4 =
               option_map (fun n => {| parent := if memb k (children pn) then Some new else parent n;
                                       children := if (match parent pn with Some q => Nat.eqb k q | None => false end)
                                                   then replace_first p new (children n) else children n;
                                       perm := perm n; shape := shape n |}) (aget k (nodes s))).
    { intros k Hk1 Hk2 Hk3. rewrite HL4. destruct (Nat.eqb_spec k p); [congruence|]. cbn [andb].
      change (nodes s3) with (nodes s).
      assert (Hpar : forall n, parent (reparent new (children pn) k n) = (if memb k (children pn) then Some new else parent n)).
      { intros n0. rewrite reparent_parent. destruct (Nat.eqb_spec k new); [congruence|]. rewrite andb_true_r. reflexivity. }
      destruct (parent pn) as [q|] eqn:Epp.
      - destruct (Nat.eqb_spec q new) as [->|Hqn].
        + exfalso. destruct (wf_parent_child s p pn new W Ep Epp) as (x & Ex & _). congruence.
        + cbn [negb andb]. destruct (Nat.eqb_spec k q) as [->|Hkq].
          * destruct (aget q (nodes s)) as [n0|]; [|reflexivity]. cbn. f_equal.
            apply node_eq; cbn; rewrite ?reparent_children, ?reparent_perm, ?reparent_shape; try reflexivity. apply Hpar.
          * destruct (aget k (nodes s)) as [n0|]; [|reflexivity]. cbn. f_equal.
            apply node_eq; cbn; rewrite ?reparent_children, ?reparent_perm, ?reparent_shape; try reflexivity. apply Hpar.
      - destruct (aget k (nodes s)) as [n0|]; [|reflexivity]. cbn. f_equal.
        apply node_eq; cbn; rewrite ?reparent_children, ?reparent_perm, ?reparent_shape; try reflexivity. apply Hpar. }
    repeat split.
    + apply NoDup_akeys_aset. exact HndL5.
    + apply aget_aset_same.
    + intros _. rewrite aget_aset_other by congruence. rewrite HL5.
      destruct (Nat.eqb_spec p c); [congruence|]. cbn [andb]. rewrite HL4. rewrite Nat.eqb_refl. reflexivity.
    + intros _. rewrite aget_aset_other by congruence. rewrite HL5. rewrite Nat.eqb_refl. reflexivity.
    + intros k Hk1 Hk2 Hk3. rewrite aget_aset_other by exact Hk3. rewrite HL5.
      destruct (Nat.eqb_spec k c); [congruence|]. cbn [andb]. change (nodes s4) with L4. rewrite (H4k k Hk1 Hk2 Hk3).
      destruct (aget k (nodes s)) as [n0|]; [|reflexivity]. cbn. f_equal.
      apply node_eq; cbn; rewrite ?reparent_children, ?reparent_perm, ?reparent_shape; try reflexivity.
      rewrite reparent_parent. cbn. destruct (Nat.eqb_spec k new); [congruence|]. rewrite andb_true_r.
      destruct (memb k (children cn)); [rewrite orb_true_r; reflexivity|]. rewrite orb_false_r. reflexivity.
Qed.

(* ---- the logical axes of a node: parent wire, the children's edge wires, open wires ------------------- *)
(* the wire on x's leg 0 (the edge to its parent, for a non-root node) *)
Definition ew (s : store) (x : id) : wire :=
  match aget x (nodes s) with Some xn => nth 0 (lax s x xn) 0 | None => 0 end.

Lemma skipn_add {A} a b (l : list A) : skipn a (skipn b l) = skipn (b + a) l.
Proof.
  revert l. induction b as [|b IH]; intros l; cbn [Nat.add]; [reflexivity|].
  destruct l as [|x t]; [destruct a; reflexivity|]. cbn [skipn]. apply IH.
Qed.

Lemma nth_firstn_lt {A} i k (l : list A) d : i < k -> nth i (firstn k l) d = nth i l d.
Proof.
  revert i l. induction k as [|k IH]; intros i l H; [lia|]. destruct l as [|x t]; [destruct i; reflexivity|].
  destruct i as [|i]; cbn; [reflexivity|]. apply IH. lia.
Qed.

Lemma wf_lax_children s k n : wf s -> aget k (nodes s) = Some n ->
  firstn (length (children n)) (skipn (nparents n) (lax s k n)) = map (ew s) (children n).
Proof.
  intros W E. pose proof (wf_node s W k n E) as Hn.
  assert (Hlen : length (lax s k n) = nlegs n) by apply laxes_length.
  pose proof (ni_virt _ _ _ Hn) as Hv. unfold nvirt in Hv.
  assert (Hl1 : length (firstn (length (children n)) (skipn (nparents n) (lax s k n))) = length (children n)).
  { apply firstn_length_le. rewrite skipn_length. nlia. }
  apply nth_ext with (d := 0) (d' := ew s 0).
  - rewrite Hl1, map_length. reflexivity.
  - intros i Hi. rewrite Hl1 in Hi. rewrite nth_firstn_lt by exact Hi. rewrite nth_skipn.
    rewrite (map_nth (ew s) (children n) 0 i).
    set (x := nth i (children n) 0).
    assert (Hx : In x (children n)) by (apply nth_In; exact Hi).
    destruct (wf_child_parent s k n x W E Hx) as (xn & Ex & Epx).
    destruct (ni_par _ _ _ (wf_node s W x xn Ex) k Epx) as (n' & i' & E' & _ & Hni & Hw).
    rewrite E in E'. injection E' as <-.
    rewrite (neighbour_index_child n x (wf_parent_not_child s x xn k n W Ex Epx E)) in Hni.
    pose proof (index_of_nth _ _ (ni_chnd _ _ _ Hn) Hi) as Hidx. change (index_of x (children n) = Some i) in Hidx.
    rewrite Hidx in Hni. cbn in Hni. injection Hni as <-.
    unfold ew. fold x. rewrite Ex. symmetry. exact Hw.
Qed.

Lemma wf_lax_decomp s k n : wf s -> aget k (nodes s) = Some n ->
  lax s k n = firstn (nparents n) (lax s k n) ++ map (ew s) (children n) ++ open_of n (tens s k).
Proof.
  intros W E. rewrite <- (wf_lax_children s k n W E). unfold open_of. fold (lax s k n). unfold nvirt.
  rewrite <- skipn_add. rewrite firstn_skipn. rewrite firstn_skipn. reflexivity.
Qed.

(* conversely, a node whose logical axes have this shape satisfies the edge clause for its children *)
Lemma child_edge_from_decomp n (L A O : list wire) (f : id -> wire) x :
  L = A ++ map f (children n) ++ O -> length A = nparents n -> parent n <> Some x -> In x (children n) ->
  exists i, neighbour_index n x = Some i /\ nth i L 0 = f x.
Proof.
  intros HL HA Hp Hx. destruct (index_of_In x (children n) Hx) as [j Hj].
  exists (nparents n + j). split.
  - rewrite (neighbour_index_child n x Hp), Hj. reflexivity.
  - apply index_of_Some in Hj. destruct Hj as [Hj1 Hj2].
    rewrite HL, <- HA. rewrite app_nth2 by lia. replace (length A + j - length A) with j by lia.
    rewrite app_nth1 by (rewrite map_length; exact Hj1).
    rewrite (nth_indep _ 0 (f 0)) by (rewrite map_length; exact Hj1). rewrite map_nth. f_equal. exact Hj2.
Qed.

(* ---- replace_first ----------------------------------------------------------------------------------- *)
Lemma replace_first_length x y l : length (replace_first x y l) = length l.
Proof. induction l as [|z t IH]; cbn; [reflexivity|]. destruct (Nat.eqb x z); cbn; [reflexivity|]. f_equal. exact IH. Qed.

Lemma replace_first_In x y l : In x l -> In y (replace_first x y l).
Proof.
  induction l as [|z t IH]; [intros []|]. intros H. cbn. destruct (Nat.eqb_spec x z) as [->|Hne]; [left; reflexivity|].
  destruct H as [->|H]; [congruence|]. right. apply IH. exact H.
Qed.

Lemma replace_first_In_other x y l k : k <> x -> In k l -> In k (replace_first x y l).
Proof.
  intros Hk. induction l as [|z t IH]; [intros []|]. intros H. cbn. destruct (Nat.eqb_spec x z) as [->|Hne].
  - destruct H as [->|H]; [congruence|]. right. exact H.
  - destruct H as [->|H]; [left; reflexivity|right; apply IH; exact H].
Qed.

Lemma replace_first_In_inv x y l k : NoDup l -> In k (replace_first x y l) -> k = y \/ (In k l /\ k <> x).
Proof.
  induction l as [|z t IH]; [intros _ []|]. intros Hnd H. inversion Hnd as [|? ? Hni Hnd']; subst. cbn in H.
  destruct (Nat.eqb_spec x z) as [->|Hne].
  - destruct H as [<-|H]; [left; reflexivity|]. right. split; [right; exact H|]. intros ->. contradiction.
  - destruct H as [<-|H]; [right; split; [left; reflexivity|congruence]|].
    destruct (IH Hnd' H) as [->|[H1 H2]]; [left; reflexivity|right; split; [right; exact H1|exact H2]].
Qed.

Lemma replace_first_NoDup x y l : NoDup l -> (~ In y l \/ y = x) -> NoDup (replace_first x y l).
Proof.
  intros Hnd [Hy | ->]; [|rewrite replace_first_same; exact Hnd].
  induction l as [|z t IH]; cbn; [constructor|]. inversion Hnd as [|? ? Hni Hnd']; subst.
  destruct (Nat.eqb_spec x z) as [->|Hne].
  - constructor; [|exact Hnd']. intros H. apply Hy. right. exact H.
  - constructor.
    + intros H. apply replace_first_In_inv in H; [|exact Hnd']. destruct H as [->|[H _]]; [apply Hy; left; reflexivity|contradiction].
    + apply IH; [exact Hnd'|]. intros H. apply Hy. right. exact H.
Qed.

Lemma index_of_replace_first_new x y l : (~ In y l \/ y = x) -> index_of y (replace_first x y l) = index_of x l.
Proof.
  intros [Hy | ->]; [|rewrite replace_first_same; reflexivity].
  induction l as [|z t IH]; cbn; [reflexivity|].
  destruct (Nat.eqb_spec x z) as [->|Hne]; cbn.
  - rewrite Nat.eqb_refl. reflexivity.
  - destruct (Nat.eqb_spec y z) as [->|Hyz]; [exfalso; apply Hy; left; reflexivity|].
    rewrite IH; [reflexivity|]. intros H. apply Hy. right. exact H.
Qed.

Lemma index_of_replace_first_other x y l k : k <> x -> k <> y -> index_of k (replace_first x y l) = index_of k l.
Proof.
  intros Hx Hy. induction l as [|z t IH]; cbn; [reflexivity|].
  destruct (Nat.eqb_spec x z) as [->|Hne]; cbn.
  - destruct (Nat.eqb_spec k y); [congruence|]. destruct (Nat.eqb_spec k z); [congruence|]. reflexivity.
  - destruct (Nat.eqb k z); [reflexivity|]. rewrite IH. reflexivity.
Qed.

Lemma remove_first_NoDup x l : NoDup l -> NoDup (remove_first x l) /\ ~ In x (remove_first x l).
Proof.
  intros Hnd. rewrite (remove_first_filter x l Hnd). split; [apply NoDup_filter; exact Hnd|].
  intros H. apply filter_In in H. destruct H as [_ H]. rewrite Nat.eqb_refl in H. discriminate.
Qed.

Lemma remove_first_In x l k : In k (remove_first x l) -> In k l.
Proof.
  induction l as [|z t IH]; cbn; [auto|]. destruct (Nat.eqb x z); [intros H; right; exact H|].
  intros [->|H]; [left; reflexivity|right; apply IH; exact H].
Qed.

Lemma remove_first_In_other x l k : k <> x -> In k l -> In k (remove_first x l).
Proof.
  intros Hk. induction l as [|z t IH]; [intros []|]. cbn. destruct (Nat.eqb_spec x z) as [->|Hne].
  - intros [->|H]; [congruence|exact H].
  - intros [->|H]; [left; reflexivity|right; apply IH; exact H].
Qed.

Lemma index_of_split x l j : index_of x l = Some j ->
  exists l1 l2, l = l1 ++ x :: l2 /\ length l1 = j /\ ~ In x l1.
Proof.
  revert j. induction l as [|z t IH]; intros j; cbn; [discriminate|].
  destruct (Nat.eqb_spec x z) as [->|Hne].
  - intros [= <-]. exists [], t. repeat split. intros [].
  - destruct (index_of x t) as [i|]; [|discriminate]. intros [= <-].
    destruct (IH i eq_refl) as (l1 & l2 & -> & Hl & Hni). exists (z :: l1), l2. repeat split; [cbn; lia|].
    intros [E|H]; [congruence|contradiction].
Qed.


(* ---- the contracted tensor and the new node's logical axes, in segments -------------------------------- *)
Lemma map_nth_seq_at {A} (d : A) l a b c st k :
  l = a ++ b ++ c -> st = length a -> k = length b -> map (fun i => nth i l d) (seq st k) = b.
Proof. intros -> -> ->. apply map_nth_seq_mid. Qed.

Lemma ccn_laxes first (P0 PC PO CC CO : list wire) lp :
  lp - 1 = length P0 + length PC + length PO ->
  map (fun i => nth i (P0 ++ PC ++ PO ++ CC ++ CO) 0)
      (ccn_perm first (length P0) (length PC) (length CC) (length PO) (length CO) lp)
  = P0 ++ (if first then PC ++ CC ++ PO ++ CO else CC ++ PC ++ CO ++ PO).
Proof.
  intros Hlp. set (L := P0 ++ PC ++ PO ++ CC ++ CO).
  assert (S0 : map (fun i => nth i L 0) (seq 0 (length P0)) = P0).
  { apply (map_nth_seq_at 0 L [] P0 (PC ++ PO ++ CC ++ CO)); reflexivity. }
  assert (S1 : map (fun i => nth i L 0) (seq (length P0) (length PC)) = PC).
  { apply (map_nth_seq_at 0 L P0 PC (PO ++ CC ++ CO)); reflexivity. }
  assert (S2 : map (fun i => nth i L 0) (seq (length P0 + length PC) (length PO)) = PO).
  { apply (map_nth_seq_at 0 L (P0 ++ PC) PO (CC ++ CO)); [unfold L; rewrite <- !app_assoc; reflexivity|rewrite app_length; reflexivity|reflexivity]. }
  assert (S3 : map (fun i => nth i L 0) (seq (lp - 1) (length CC)) = CC).
  { apply (map_nth_seq_at 0 L (P0 ++ PC ++ PO) CC CO); [unfold L; rewrite <- !app_assoc; reflexivity|rewrite !app_length; lia|reflexivity]. }
  assert (S4 : map (fun i => nth i L 0) (seq (lp - 1 + length CC) (length CO)) = CO).
  { apply (map_nth_seq_at 0 L (P0 ++ PC ++ PO ++ CC) CO []); [unfold L; rewrite app_nil_r, <- !app_assoc; reflexivity|rewrite !app_length; lia|reflexivity]. }
  unfold ccn_perm. destruct first; rewrite !map_app, S0, S1, S2, S3, S4; reflexivity.
Qed.

Lemma lax_identity s k n : wf s -> aget k (nodes s) = Some n -> perm n = seq 0 (nlegs n) -> lax s k n = axes (tens s k).
Proof.
  intros W E Hp. unfold lax, laxes. rewrite Hp, <- (wf_axes_length s k n W E). apply permute_seq.
Qed.

Lemma contract_segments s p c pn cn ax nt :
  wf s -> aget p (nodes s) = Some pn -> aget c (nodes s) = Some cn -> parent cn = Some p ->
  perm pn = seq 0 (nlegs pn) -> perm cn = seq 0 (nlegs cn) ->
  neighbour_index pn c = Some ax -> s_tensordot (tens s p) (tens s c) ax 0 = Some nt ->
  exists P0 ch1 ch2,
    children pn = ch1 ++ c :: ch2 /\ ~ In c ch1 /\
    lax s p pn = P0 ++ map (ew s) (children pn) ++ open_of pn (tens s p) /\ length P0 = nparents pn /\
    P0 = firstn (nparents pn) (lax s p pn) /\
    lax s c cn = ew s c :: map (ew s) (children cn) ++ open_of cn (tens s c) /\
    axes nt = P0 ++ map (ew s) (ch1 ++ ch2) ++ open_of pn (tens s p) ++ map (ew s) (children cn) ++ open_of cn (tens s c) /\
    atoms nt = atoms (tens s p) ++ atoms (tens s c) /\ bnd nt = ew s c :: bnd (tens s p) ++ bnd (tens s c) /\
    axes (tens s p) = lax s p pn /\ axes (tens s c) = lax s c cn.
Proof.
  intros W Ep Ec Hpc Pp Pc Hax Htd.
  pose proof (lax_identity s p pn W Ep Pp) as HLp. pose proof (lax_identity s c cn W Ec Pc) as HLc.
  pose proof (wf_lax_decomp s p pn W Ep) as Dp. pose proof (wf_lax_decomp s c cn W Ec) as Dc.
  set (P0 := firstn (nparents pn) (lax s p pn)) in *.
  pose proof (wf_node s W p pn Ep) as Hnp. pose proof (wf_node s W c cn Ec) as Hnc.
  assert (HlenP0 : length P0 = nparents pn).
  { unfold P0. apply firstn_length_le. unfold lax. rewrite laxes_length. pose proof (ni_virt _ _ _ Hnp) as Hv. unfold nvirt in Hv. lia. }
  assert (Hc1 : firstn (nparents cn) (lax s c cn) = [ew s c]).
  { unfold ew. rewrite Ec. unfold nparents. rewrite Hpc.
    pose proof (laxes_length cn (tens s c)) as Hl. fold (lax s c cn) in Hl.
    pose proof (ni_virt _ _ _ Hnc) as Hv. unfold nvirt, nparents in Hv. rewrite Hpc in Hv.
    destruct (lax s c cn) as [|x t]; [cbn in Hl; lia|reflexivity]. }
  rewrite Hc1 in Dc. cbn [app] in Dc.
  assert (Hppc : parent pn <> Some c) by apply (wf_parent_not_child s c cn p pn W Ec Hpc Ep).
  rewrite (neighbour_index_child pn c Hppc) in Hax.
  destruct (index_of c (children pn)) as [j|] eqn:Ej; [|discriminate]. cbn in Hax. injection Hax as <-.
  destruct (index_of_split c (children pn) j Ej) as (ch1 & ch2 & Hch & Hl1 & Hni).
  exists P0, ch1, ch2.
  unfold s_tensordot in Htd. rewrite <- HLp, <- HLc in Htd.
  assert (HLp2 : lax s p pn = (P0 ++ map (ew s) ch1) ++ ew s c :: (map (ew s) ch2 ++ open_of pn (tens s p))).
  { rewrite Dp at 1. rewrite Hch, map_app. cbn [map]. rewrite <- !app_assoc. reflexivity. }
  rewrite HLp2 in Htd at 1.
  replace (nparents pn + j) with (length (P0 ++ map (ew s) ch1)) in Htd by (rewrite app_length, map_length; nlia).
  rewrite pop_app in Htd. rewrite Dc in Htd at 1. cbn [pop] in Htd. rewrite Nat.eqb_refl in Htd.
  injection Htd as <-. cbn [axes atoms bnd].
  repeat split; auto.
  rewrite map_app, <- !app_assoc. reflexivity.
Qed.


Ltac ncongr := unfold id, wire in *; congruence.

Lemma open_of_length n t : length (open_of n t) = nopen n.
Proof. unfold open_of, nopen. rewrite skipn_length, laxes_length. reflexivity. Qed.

Lemma contract_tensors_aget (T : list (id * sarr)) p c new nt k :
  NoDup (akeys T) -> aget new (adel c (adel p T)) = None ->
  aget k (adel c (adel p T) ++ [(new, nt)])
  = if Nat.eqb k new then Some nt else if Nat.eqb k p || Nat.eqb k c then None else aget k T.
Proof.
  intros Hnd Hn. rewrite aget_app. destruct (Nat.eqb_spec k new) as [->|Hk].
  - rewrite Hn. cbn. rewrite Nat.eqb_refl. reflexivity.
  - rewrite (aget_adel k c) by (apply NoDup_akeys_adel; exact Hnd). rewrite (aget_adel k p) by exact Hnd.
    destruct (Nat.eqb k c), (Nat.eqb k p); cbn; try (destruct (Nat.eqb_spec k new); [congruence|reflexivity]).
    destruct (aget k T); [reflexivity|]. destruct (Nat.eqb_spec k new); [congruence|reflexivity].
Qed.

Lemma ccn_seq np a op b oc lp : lp - 1 = np + a + op ->
  seq 0 (np + a + op + b + oc) = seq 0 np ++ seq np a ++ seq (np + a) op ++ seq (lp - 1) b ++ seq (lp - 1 + b) oc.
Proof.
  intros H. rewrite H. replace (np + a + op + b + oc) with (np + (a + (op + (b + oc)))) by lia.
  rewrite (seq_app np), (seq_app a), (seq_app op), (seq_app b). cbn [Nat.add].
  reflexivity.
Qed.

Lemma ccn_perm_Permutation first np a b op oc lp : lp - 1 = np + a + op ->
  Permutation (ccn_perm first np a b op oc lp) (seq 0 (np + a + op + b + oc)).
Proof.
  intros H. rewrite (ccn_seq np a op b oc lp H). unfold ccn_perm. apply Permutation_app_head.
  destruct first.
  - apply Permutation_app_head. rewrite !app_assoc. apply Permutation_app_tail. apply Permutation_app_comm.
  - etransitivity; [apply Permutation_app_comm|]. rewrite <- !app_assoc. apply Permutation_app_head.
    rewrite !app_assoc. etransitivity; [|apply Permutation_app_comm]. rewrite !app_assoc. reflexivity.
Qed.

Section ContractCore.
  Variables (s s' : store) (p c new : id) (pn cn nn : node) (ax : nat) (nt : sarr) (first : bool).
  Hypothesis W : wf s.
  Hypothesis Ep : aget p (nodes s) = Some pn.
  Hypothesis Ec : aget c (nodes s) = Some cn.
  Hypothesis Hpc : parent cn = Some p.
  Hypothesis Pp : perm pn = seq 0 (nlegs pn).
  Hypothesis Pc : perm cn = seq 0 (nlegs cn).
  Hypothesis Hnew : new = p \/ new = c \/ ~ In new (akeys (nodes s)).
  Hypothesis Hax : neighbour_index pn c = Some ax.
  Hypothesis Htd : s_tensordot (tens s p) (tens s c) ax 0 = Some nt.
  Hypothesis Hnn : create_contracted_node (map (wdim s) (axes nt)) pn cn c first = Some nn.
  Hypothesis V1 : NoDup (akeys (nodes s')).
  Hypothesis V2 : aget new (nodes s') = Some nn.
  Hypothesis V3 : p <> new -> aget p (nodes s') = None.
  Hypothesis V4 : c <> new -> aget c (nodes s') = None.
  Hypothesis V5 : forall k, k <> p -> k <> c -> k <> new ->
     aget k (nodes s') = option_map (rt p c new (children pn) (children cn) (parent pn) k) (aget k (nodes s)).
  Hypothesis V6 : root s' = (match parent pn with None => Some new | Some _ => root s end).
  Hypothesis V7 : tensors s' = adel c (adel p (tensors s)) ++ [(new, nt)].
  Hypothesis V8 : dims s' = dims s.
  Hypothesis V9 : next_wire s' = next_wire s.

  Let chp := children pn.
  Let chc := children cn.
  Let RT := rt p c new chp chc (parent pn).
  Let PO := open_of pn (tens s p).
  Let CO := open_of cn (tens s c).
  Let pch := remove_first c chp.

  Lemma cc_pc : p <> c.
  Proof. intros ->. apply (wf_not_self_parent s c cn W Ec Hpc). Qed.

  Lemma cc_newkey k : In k (akeys (nodes s)) -> k <> p -> k <> c -> k <> new.
  Proof. intros Hk H1 H2 E. subst k. destruct Hnew as [E|[E|E]]; [apply H1; exact E|apply H2; exact E|apply E; exact Hk]. Qed.

  Lemma cc_memb_chp k nk : aget k (nodes s) = Some nk -> (memb k chp = true <-> parent nk = Some p).
  Proof.
    intros E. split.
    - intros Hm. apply memb_In in Hm. destruct (wf_child_parent s p pn k W Ep Hm) as (xn & E1 & E2). ncongr.
    - intros Hp. apply memb_In. destruct (wf_parent_child s k nk p W E Hp) as (pn' & E1 & E2). unfold chp. ncongr.
  Qed.

  Lemma cc_memb_chc k nk : aget k (nodes s) = Some nk -> (memb k chc = true <-> parent nk = Some c).
  Proof.
    intros E. split.
    - intros Hm. apply memb_In in Hm. destruct (wf_child_parent s c cn k W Ec Hm) as (xn & E1 & E2). ncongr.
    - intros Hp. apply memb_In. destruct (wf_parent_child s k nk c W E Hp) as (pn' & E1 & E2). unfold chc. ncongr.
  Qed.

  (* the parent of a rewritten node *)
  Lemma cc_rt_parent k nk : aget k (nodes s) = Some nk ->
    parent (RT k nk) = match parent nk with
                       | Some q => if Nat.eqb q p || Nat.eqb q c then Some new else Some q
                       | None => None
                       end.
  Proof.
    intros E. unfold RT, rt. cbn [parent].
    destruct (memb k chp) eqn:H1; [apply (cc_memb_chp k nk E) in H1; rewrite H1; cbn beta iota; rewrite Nat.eqb_refl; reflexivity|].
    destruct (memb k chc) eqn:H2; [apply (cc_memb_chc k nk E) in H2; rewrite H2; cbn beta iota; rewrite Nat.eqb_refl, !orb_true_r; reflexivity|].
    cbn. destruct (parent nk) as [q|] eqn:Eq; [|reflexivity].
    destruct (Nat.eqb_spec q p) as [->|]; [apply (cc_memb_chp k nk E) in Eq; congruence|].
    destruct (Nat.eqb_spec q c) as [->|]; [apply (cc_memb_chc k nk E) in Eq; congruence|]. reflexivity.
  Qed.

  Lemma cc_rt_nparents k nk : aget k (nodes s) = Some nk -> nparents (RT k nk) = nparents nk.
  Proof.
    intros E. unfold nparents. rewrite (cc_rt_parent k nk E). destruct (parent nk) as [q|]; [|reflexivity].
    destruct (_ || _); reflexivity.
  Qed.

  Lemma cc_rt_children_length k nk : length (children (RT k nk)) = length (children nk).
  Proof. unfold RT, rt. cbn [children]. destruct (match parent pn with Some q => k =? q | None => false end); [apply replace_first_length|reflexivity]. Qed.

  Lemma cc_rt_nvirt k nk : aget k (nodes s) = Some nk -> nvirt (RT k nk) = nvirt nk.
  Proof. intros E. unfold nvirt. rewrite (cc_rt_nparents k nk E), cc_rt_children_length. reflexivity. Qed.

  Lemma cc_fresh_t : aget new (adel c (adel p (tensors s))) = None.
  Proof.
    pose proof (wf_tnd s W) as Hnd. rewrite (aget_adel new c) by (apply NoDup_akeys_adel; exact Hnd).
    rewrite (aget_adel new p) by exact Hnd.
    destruct (Nat.eqb_spec new c); [reflexivity|]. destruct (Nat.eqb_spec new p); [reflexivity|].
    destruct Hnew as [?|[?|Hn]]; [congruence|congruence|]. apply aget_None. intros Hk. apply Hn.
    apply (wf_keys_iff s new W). exact Hk.
  Qed.

  Lemma cc_tens_new : tens s' new = nt.
  Proof. unfold tens. rewrite V7, (contract_tensors_aget _ _ _ _ _ _ (wf_tnd s W) cc_fresh_t), Nat.eqb_refl. reflexivity. Qed.

  Lemma cc_tens_other k : k <> p -> k <> c -> k <> new -> tens s' k = tens s k.
  Proof.
    intros H1 H2 H3. unfold tens. rewrite V7, (contract_tensors_aget _ _ _ _ _ _ (wf_tnd s W) cc_fresh_t).
    destruct (Nat.eqb_spec k new); [congruence|]. destruct (Nat.eqb_spec k p); [congruence|].
    destruct (Nat.eqb_spec k c); [congruence|]. reflexivity.
  Qed.

  Lemma cc_lax_other k nk : k <> p -> k <> c -> k <> new -> lax s' k (RT k nk) = lax s k nk.
  Proof. intros H1 H2 H3. unfold lax. rewrite (cc_tens_other k H1 H2 H3). reflexivity. Qed.

  (* every node of s' is the new node or a rewritten old node *)
  Lemma cc_nodes' k nk' : aget k (nodes s') = Some nk' ->
    (k = new /\ nk' = nn) \/
    (k <> p /\ k <> c /\ k <> new /\ exists nk, aget k (nodes s) = Some nk /\ nk' = RT k nk).
  Proof.
    intros E. destruct (Nat.eq_dec k new) as [->|H3]; [left; split; [reflexivity|congruence]|].
    destruct (Nat.eq_dec k p) as [->|H1]; [rewrite V3 in E by congruence; discriminate|].
    destruct (Nat.eq_dec k c) as [->|H2]; [rewrite V4 in E by congruence; discriminate|].
    right. repeat split; auto. rewrite (V5 k H1 H2 H3) in E.
    destruct (aget k (nodes s)) as [nk|]; [|discriminate]. injection E as <-. eauto.
  Qed.

  Lemma cc_old_node k nk : aget k (nodes s) = Some nk -> k <> p -> k <> c ->
    k <> new /\ aget k (nodes s') = Some (RT k nk).
  Proof.
    intros E H1 H2. assert (H3 : k <> new) by (apply cc_newkey; [eapply aget_Some_keys; eauto|exact H1|exact H2]).
    split; [exact H3|]. rewrite (V5 k H1 H2 H3), E. reflexivity.
  Qed.

  (* the segments of the two logical tensors and of the contracted tensor *)
  Lemma cc_segments : exists P0 ch1 ch2,
     chp = ch1 ++ c :: ch2 /\ ~ In c ch1 /\ pch = ch1 ++ ch2 /\
     lax s p pn = P0 ++ map (ew s) chp ++ PO /\ length P0 = nparents pn /\ P0 = firstn (nparents pn) (lax s p pn) /\
     lax s c cn = ew s c :: map (ew s) chc ++ CO /\
     axes nt = P0 ++ map (ew s) pch ++ PO ++ map (ew s) chc ++ CO.
  Proof.
    destruct (contract_segments s p c pn cn ax nt W Ep Ec Hpc Pp Pc Hax Htd)
      as (P0 & ch1 & ch2 & H1 & H2 & H3 & H4 & H5 & H6 & H7 & _).
    exists P0, ch1, ch2. assert (Hpch : pch = ch1 ++ ch2).
    { unfold pch, chp. rewrite H1. rewrite remove_first_app_r by exact H2. cbn. rewrite Nat.eqb_refl. reflexivity. }
    repeat split; auto. rewrite Hpch. exact H7.
  Qed.

  Lemma cc_nn :
     parent nn = parent pn /\ shape nn = map (wdim s) (axes nt) /\
     children nn = (if first then pch ++ chc else chc ++ pch) /\
     Permutation (perm nn) (seq 0 (length (axes nt))) /\
     nlegs nn = length (axes nt) /\ nvirt nn <= nlegs nn /\
     laxes nn nt = firstn (nparents pn) (lax s p pn) ++ map (ew s) (children nn) ++ (if first then PO ++ CO else CO ++ PO).
  Proof.
    destruct cc_segments as (P0 & ch1 & ch2 & Hch & Hni & Hpch & Dp & HlenP0 & HP0 & Dc & Hnt).
    pose proof (wf_node s W p pn Ep) as Hnp. pose proof (wf_node s W c cn Ec) as Hnc.
    assert (Hlp : nlegs pn = length P0 + length chp + length PO).
    { rewrite <- (laxes_length pn (tens s p)). fold (lax s p pn). rewrite Dp, !app_length, map_length. nlia. }
    assert (Hlc : nlegs cn = 1 + length chc + length CO).
    { rewrite <- (laxes_length cn (tens s c)). fold (lax s c cn). rewrite Dc. cbn [length]. rewrite app_length, map_length. nlia. }
    assert (Hlchp : length chp = S (length pch)).
    { rewrite Hch, Hpch, !app_length. cbn. nlia. }
    assert (Hlnt : length (axes nt) = nlegs pn - 1 + (nlegs cn - 1)).
    { rewrite Hnt, !app_length, !map_length. nlia. }
    assert (Hinc : In c (children pn)). { fold chp. rewrite Hch. apply in_or_app. right. left. reflexivity. }
    assert (Hpc1 : nparents cn = 1) by (unfold nparents; rewrite Hpc; reflexivity).
    destruct (ccn_spec _ pn cn c first nn Hnn Hinc (ni_virt _ _ _ Hnp) (ni_virt _ _ _ Hnc) Hpc1)
      as (N1 & N2 & N3 & N4).
    { rewrite map_length. exact Hlnt. }
    fold chp pch chc in N3, N4.
    assert (HPO : length PO = nopen pn) by apply open_of_length.
    assert (HCO : length CO = nopen cn) by apply open_of_length.
    assert (Hlax : laxes nn nt = P0 ++ map (ew s) (children nn) ++ (if first then PO ++ CO else CO ++ PO)).
    { unfold laxes, permute. rewrite N4, Hnt, <- HlenP0, <- HPO, <- HCO. unfold id, wire in *.
      replace (length pch) with (length (map (ew s) pch)) by apply map_length.
      replace (length chc) with (length (map (ew s) chc)) by apply map_length.
      rewrite ccn_laxes by (rewrite map_length; nlia).
      rewrite N3. destruct first; rewrite map_app, <- !app_assoc; reflexivity. }
    assert (Hnl : nlegs nn = length (axes nt)).
    { rewrite <- (laxes_length nn nt), Hlax, Hnt, N3, !app_length, !map_length.
      destruct first; rewrite !app_length; nlia. }
    repeat split; auto.
    - rewrite N4, Hlnt.
      replace (nlegs pn - 1 + (nlegs cn - 1)) with (nparents pn + length pch + nopen pn + length chc + nopen cn) by nlia.
      apply ccn_perm_Permutation. nlia.
    - unfold nvirt. rewrite Hnl, Hlnt, N3. unfold nparents. rewrite N1. fold (nparents pn).
      destruct first; rewrite app_length; nlia.
    - rewrite Hlax, HP0. reflexivity.
  Qed.

  Lemma cc_wdim w : wdim s' w = wdim s w.
  Proof. unfold wdim. rewrite V8. reflexivity. Qed.

  Lemma cc_P0_length : length (firstn (nparents pn) (lax s p pn)) = nparents pn.
  Proof.
    apply firstn_length_le. unfold lax. rewrite laxes_length.
    pose proof (ni_virt _ _ _ (wf_node s W p pn Ep)) as Hv. unfold nvirt in Hv. nlia.
  Qed.

  Lemma cc_own_nn :
    own_of nn nt = firstn (nparents pn) (lax s p pn) ++ (if first then PO ++ CO else CO ++ PO)
    /\ open_of nn nt = (if first then PO ++ CO else CO ++ PO).
  Proof.
    destruct cc_nn as (N1 & N2 & N3 & N4 & N5 & N6 & N7). pose proof cc_P0_length as HP0.
    set (P0 := firstn (nparents pn) (lax s p pn)) in *.
    assert (Hnp : nparents nn = length P0) by (unfold nparents; rewrite N1; fold (nparents pn); nlia).
    assert (Hnv : nvirt nn = length (P0 ++ map (ew s) (children nn))).
    { unfold nvirt. rewrite Hnp, app_length, map_length. reflexivity. }
    unfold own_of, open_of. rewrite N7, Hnp, Hnv. rewrite firstn_app_len.
    rewrite (app_assoc P0). rewrite skipn_app_len. split; reflexivity.
  Qed.

  Lemma cc_own_p : own_of pn (tens s p) = firstn (nparents pn) (lax s p pn) ++ PO.
  Proof. reflexivity. Qed.

  Lemma cc_own_c : own_of cn (tens s c) = ew s c :: CO.
  Proof.
    destruct cc_segments as (P0 & ch1 & ch2 & _ & _ & _ & _ & _ & _ & Dc & _).
    unfold own_of. change (skipn (nvirt cn) (laxes cn (tens s c))) with CO.
    change (laxes cn (tens s c)) with (lax s c cn). unfold nparents. rewrite Hpc, Dc. reflexivity.
  Qed.

  Lemma cc_own_nn_in w : In w (own_of nn nt) -> In w (own_of pn (tens s p)) \/ In w (own_of cn (tens s c)).
  Proof.
    destruct cc_own_nn as [H _]. rewrite H, cc_own_p, cc_own_c. cbn [In].
    destruct first; rewrite !in_app_iff; tauto.
  Qed.

  Lemma cc_own_nn_nodup : NoDup (own_of nn nt).
  Proof.
    destruct cc_own_nn as [H _]. rewrite H.
    pose proof (wf_own1 s W p pn Ep) as H1. rewrite cc_own_p in H1.
    pose proof (wf_own1 s W c cn Ec) as H2. rewrite cc_own_c in H2.
    assert (Hd : forall w, In w (firstn (nparents pn) (lax s p pn) ++ PO) -> ~ In w CO).
    { intros w Hw1 Hw2. apply cc_pc. apply (wf_own2 s W p pn c cn w Ep Ec).
      - rewrite cc_own_p. exact Hw1.
      - rewrite cc_own_c. right. exact Hw2. }
    inversion H2 as [|? ? _ H2']; subst.
    assert (Hall : NoDup ((firstn (nparents pn) (lax s p pn) ++ PO) ++ CO)).
    { apply NoDup_app_iff. repeat split; assumption. }
    destruct first.
    - rewrite app_assoc. exact Hall.
    - apply Permutation_NoDup with (l := (firstn (nparents pn) (lax s p pn) ++ PO) ++ CO); [|exact Hall].
      rewrite <- app_assoc. apply Permutation_app_head. apply Permutation_app_comm.
  Qed.

  Lemma cc_own_other k nk : aget k (nodes s) = Some nk -> k <> p -> k <> c -> k <> new ->
    own_of (RT k nk) (tens s' k) = own_of nk (tens s k) /\ open_of (RT k nk) (tens s' k) = open_of nk (tens s k).
  Proof.
    intros E H1 H2 H3. unfold own_of, open_of. rewrite (cc_rt_nparents k nk E), (cc_rt_nvirt k nk E), (cc_tens_other k H1 H2 H3).
    split; reflexivity.
  Qed.

  (* new is not a child of an old node other than p (unless it reuses p's identifier) *)
  Lemma cc_new_notin k nk : aget k (nodes s) = Some nk -> new <> p -> k <> p -> ~ In new (children nk).
  Proof.
    intros E Hnp Hkp Hin. destruct (wf_child_parent s k nk new W E Hin) as (xn & Ex & Epx).
    destruct Hnew as [?|[->|Hn]]; [congruence| |apply Hn; eapply aget_Some_keys; eauto].
    rewrite Ec in Ex. injection Ex as <-. ncongr.
  Qed.

  Lemma cc_children_nodup : NoDup (children nn).
  Proof.
    destruct cc_nn as (_ & _ & N3 & _). rewrite N3.
    pose proof (ni_chnd _ _ _ (wf_node s W p pn Ep)) as Hp. pose proof (ni_chnd _ _ _ (wf_node s W c cn Ec)) as Hc.
    destruct (remove_first_NoDup c chp Hp) as [Hpch _]. fold pch in Hpch.
    assert (Hd : forall x, In x pch -> ~ In x chc).
    { intros x Hx1 Hx2. apply remove_first_In in Hx1.
      destruct (wf_child_parent s p pn x W Ep Hx1) as (xn & Ex & Epx).
      destruct (wf_child_parent s c cn x W Ec Hx2) as (xn' & Ex' & Epx').
      apply cc_pc. ncongr. }
    destruct first; apply NoDup_app_iff; repeat split; auto.
    intros x Hx1 Hx2. apply (Hd x Hx2 Hx1).
  Qed.

  (* a child of the new node: an old child of p (other than c) or of c *)
  Lemma cc_child_cases x : In x (children nn) ->
    exists xn, aget x (nodes s) = Some xn /\ (parent xn = Some p \/ parent xn = Some c) /\ x <> p /\ x <> c.
  Proof.
    destruct cc_nn as (_ & _ & N3 & _). rewrite N3. intros Hx.
    pose proof (ni_chnd _ _ _ (wf_node s W p pn Ep)) as Hp.
    destruct (remove_first_NoDup c chp Hp) as [_ Hcn]. fold pch in Hcn.
    assert (Hx' : In x pch \/ In x chc) by (destruct first; apply in_app_or in Hx; tauto).
    destruct Hx' as [Hx'|Hx'].
    - assert (Hxc : x <> c) by (intros ->; contradiction).
      apply remove_first_In in Hx'. destruct (wf_child_parent s p pn x W Ep Hx') as (xn & Ex & Epx).
      exists xn. repeat split; auto. intros ->. rewrite Ep in Ex. injection Ex as <-.
      apply (wf_not_self_parent s p pn W Ep Epx).
    - destruct (wf_child_parent s c cn x W Ec Hx') as (xn & Ex & Epx).
      exists xn. repeat split; auto.
      + intros ->. rewrite Ep in Ex. injection Ex as <-. apply (wf_parent_not_child s c cn p pn W Ec Hpc Ep Epx).
      + intros ->. rewrite Ec in Ex. injection Ex as <-. apply (wf_not_self_parent s c cn W Ec Epx).
  Qed.

  Lemma cc_child_in k nk : aget k (nodes s) = Some nk -> k <> c -> (parent nk = Some p \/ parent nk = Some c) ->
    In k (children nn).
  Proof.
    intros E Hkc Hpar. destruct cc_nn as (_ & _ & N3 & _). rewrite N3.
    assert (H : In k pch \/ In k chc).
    { destruct Hpar as [Hpar|Hpar].
      - left. apply remove_first_In_other; [exact Hkc|]. apply memb_In. apply (cc_memb_chp k nk E). exact Hpar.
      - right. apply memb_In. apply (cc_memb_chc k nk E). exact Hpar. }
    destruct first; apply in_or_app; tauto.
  Qed.

  Lemma cc_amem_new : amem new (tensors s') = true.
  Proof.
    apply amem_aget. exists nt. rewrite V7, (contract_tensors_aget _ _ _ _ _ _ (wf_tnd s W) cc_fresh_t), Nat.eqb_refl. reflexivity.
  Qed.

  Lemma cc_amem_other k : k <> p -> k <> c -> k <> new -> amem k (tensors s') = amem k (tensors s).
  Proof.
    intros H1 H2 H3. unfold amem. rewrite V7, (contract_tensors_aget _ _ _ _ _ _ (wf_tnd s W) cc_fresh_t).
    destruct (Nat.eqb_spec k new); [congruence|]. destruct (Nat.eqb_spec k p); [congruence|].
    destruct (Nat.eqb_spec k c); [congruence|]. reflexivity.
  Qed.

  Lemma cc_lax_new : lax s' new nn = laxes nn nt.
  Proof. unfold lax. rewrite cc_tens_new. reflexivity. Qed.

  (* depth facts *)
  Lemma cc_no_cycle3 k nk : aget k (nodes s) = Some nk -> (parent nk = Some p \/ parent nk = Some c) -> parent pn <> Some k.
  Proof.
    intros E Hpar Hk. destruct (wf_acyc s W) as [d Hd].
    pose proof (Hd c cn p Ec Hpc). pose proof (Hd p pn k Ep Hk).
    destruct Hpar as [Hpar|Hpar]; pose proof (Hd k nk _ E Hpar); nlia.
  Qed.

  Lemma cc_node_inv_new : node_inv s' new nn.
  Proof.
    destruct cc_nn as (N1 & N2 & N3 & N4 & N5 & N6 & N7).
    constructor.
    - exact cc_amem_new.
    - rewrite N2, map_length. exact N4.
    - rewrite cc_tens_new, N2. apply map_ext. intros w. symmetry. apply cc_wdim.
    - exact N6.
    - exact cc_children_nodup.
    - intros x Hx. destruct (cc_child_cases x Hx) as (xn & Ex & Hpar & Hxp & Hxc).
      destruct (cc_old_node x xn Ex Hxp Hxc) as [_ Ex']. exists (RT x xn). split; [exact Ex'|].
      rewrite (cc_rt_parent x xn Ex). destruct Hpar as [-> | ->]; rewrite Nat.eqb_refl, ?orb_true_r; reflexivity.
    - intros q Hq. rewrite N1 in Hq.
      destruct (ni_par _ _ _ (wf_node s W p pn Ep) q Hq) as (qn & i & Eq & Hin & Hni & Hw).
      assert (Hqp : q <> p) by (intros ->; apply (wf_not_self_parent s p pn W Ep Hq)).
      assert (Hqc : q <> c) by (intros ->; apply (wf_parent_not_child s c cn p pn W Ec Hpc Ep Hq)).
      destruct (cc_old_node q qn Eq Hqp Hqc) as [Hqn Eq'].
      assert (Hch' : children (RT q qn) = replace_first p new (children qn)).
      { unfold RT, rt. cbn [children]. rewrite Hq, Nat.eqb_refl. reflexivity. }
      assert (Hnotin : ~ In new (children qn) \/ new = p).
      { destruct (Nat.eq_dec new p) as [->|Hnp]; [right; reflexivity|left]. apply (cc_new_notin q qn Eq Hnp Hqp). }
      assert (Hqpar : parent qn <> Some p) by apply (wf_parent_not_child s p pn q qn W Ep Hq Eq).
      assert (Hqpar' : parent (RT q qn) <> Some new).
      { rewrite (cc_rt_parent q qn Eq). destruct (parent qn) as [r|] eqn:Er; [|discriminate].
        destruct (Nat.eqb_spec r p) as [->|Hrp]; [congruence|].
        destruct (Nat.eqb_spec r c) as [->|Hrc].
        - exfalso. destruct (wf_acyc s W) as [d Hd].
          pose proof (Hd c cn p Ec Hpc). pose proof (Hd p pn q Ep Hq). pose proof (Hd q qn c Eq Er). nlia.
        - cbn. intros [= ->]. destruct (wf_parent_child s q qn new W Eq Er) as (rn & Ern & _).
          apply (cc_newkey new); [eapply aget_Some_keys; eauto|exact Hrp|exact Hrc|reflexivity]. }
      exists (RT q qn), i. repeat split.
      + exact Eq'.
      + rewrite Hch'. apply replace_first_In. exact Hin.
      + rewrite (neighbour_index_child _ _ Hqpar'). rewrite (neighbour_index_child _ _ Hqpar) in Hni.
        rewrite Hch', (index_of_replace_first_new p new _ Hnotin), (cc_rt_nparents q qn Eq). exact Hni.
      + rewrite cc_lax_new, N7, (cc_lax_other q qn Hqp Hqc Hqn), <- Hw.
        assert (Hnp1 : nparents pn = 1) by (unfold nparents; rewrite Hq; reflexivity).
        pose proof cc_P0_length as HP0. rewrite app_nth1 by nlia. rewrite nth_firstn_lt by nlia. reflexivity.
  Qed.

  Lemma cc_node_inv_other k nk : aget k (nodes s) = Some nk -> k <> p -> k <> c -> node_inv s' k (RT k nk).
  Proof.
    intros E H1 H2. destruct (cc_old_node k nk E H1 H2) as [H3 E'].
    pose proof (wf_node s W k nk E) as Hn.
    assert (Hpp : forall q, parent pn = Some q -> k = q -> new = p \/ ~ In new (children nk)).
    { intros q Hq ->. destruct (Nat.eq_dec new p) as [->|Hnp]; [left; reflexivity|right]. apply (cc_new_notin q nk E Hnp H1). }
    constructor.
    - rewrite (cc_amem_other k H1 H2 H3). apply (ni_t _ _ _ Hn).
    - apply (ni_perm _ _ _ Hn).
    - rewrite (cc_tens_other k H1 H2 H3). change (shape (RT k nk)) with (shape nk). rewrite (ni_shape _ _ _ Hn).
      apply map_ext. intros w. symmetry. apply cc_wdim.
    - rewrite (cc_rt_nvirt k nk E). apply (ni_virt _ _ _ Hn).
    - unfold RT, rt. cbn [children]. destruct (parent pn) as [q|] eqn:Eq; [|apply (ni_chnd _ _ _ Hn)].
      destruct (Nat.eqb_spec k q) as [Hkq|]; [|apply (ni_chnd _ _ _ Hn)].
      apply replace_first_NoDup; [apply (ni_chnd _ _ _ Hn)|]. destruct (Hpp q eq_refl Hkq); [right|left]; assumption.
    - intros x Hx.
      assert (Hx' : (x = new /\ parent pn = Some k) \/ (In x (children nk) /\ x <> p)).
      { unfold RT, rt in Hx. cbn [children] in Hx. destruct (parent pn) as [q|] eqn:Eq.
        - destruct (Nat.eqb_spec k q) as [->|Hkq].
          + apply replace_first_In_inv in Hx; [|apply (ni_chnd _ _ _ Hn)]. destruct Hx as [->|[Hx Hxp]]; [left; auto|right; auto].
          + right. split; [exact Hx|]. intros ->. destruct (wf_child_parent s k nk p W E Hx) as (xn & Ex & Epx). ncongr.
        - right. split; [exact Hx|]. intros ->. destruct (wf_child_parent s k nk p W E Hx) as (xn & Ex & Epx). ncongr. }
      destruct Hx' as [[-> Hq]|[Hx' Hxp]].
      + exists nn. split; [exact V2|]. destruct cc_nn as (N1 & _). rewrite N1. exact Hq.
      + destruct (wf_child_parent s k nk x W E Hx') as (xn & Ex & Epx).
        assert (Hxc : x <> c) by (intros ->; ncongr).
        destruct (cc_old_node x xn Ex Hxp Hxc) as [_ Ex']. exists (RT x xn). split; [exact Ex'|].
        rewrite (cc_rt_parent x xn Ex), Epx.
        destruct (Nat.eqb_spec k p); [congruence|]. destruct (Nat.eqb_spec k c); [congruence|]. reflexivity.
    - intros q Hq. rewrite (cc_rt_parent k nk E) in Hq. destruct (parent nk) as [r|] eqn:Er; [|discriminate].
      destruct (Nat.eqb r p || Nat.eqb r c) eqn:Hrpc.
      + injection Hq as <-.
        assert (Hpar : Some r = Some p \/ Some r = Some c).
        { apply orb_true_iff in Hrpc. destruct Hrpc as [Hr|Hr]; apply Nat.eqb_eq in Hr; subst; auto. }
        destruct cc_nn as (N1 & N2 & N3 & N4 & N5 & N6 & N7).
        assert (Hkin : In k (children nn)) by (apply (cc_child_in k nk E H2); rewrite Er; exact Hpar).
        assert (Hnnp : parent nn <> Some k).
        { rewrite N1. apply (cc_no_cycle3 k nk E). rewrite Er. exact Hpar. }
        assert (HlenP0 : length (firstn (nparents pn) (lax s p pn)) = nparents nn).
        { rewrite cc_P0_length. unfold nparents. rewrite N1. reflexivity. }
        destruct (child_edge_from_decomp nn _ _ _ (ew s) k N7 HlenP0 Hnnp Hkin) as (i & Hi1 & Hi2).
        exists nn, i. repeat split; auto.
        rewrite cc_lax_new, Hi2, (cc_lax_other k nk H1 H2 H3). unfold ew. rewrite E. reflexivity.
      + injection Hq as <-. apply orb_false_iff in Hrpc. destruct Hrpc as [Hrp Hrc].
        apply Nat.eqb_neq in Hrp. apply Nat.eqb_neq in Hrc.
        destruct (ni_par _ _ _ Hn r Er) as (rn & i & Ern & Hin & Hni & Hw).
        destruct (cc_old_node r rn Ern Hrp Hrc) as [Hrn Ern'].
        assert (Hrk : parent rn <> Some k) by apply (wf_parent_not_child s k nk r rn W E Er Ern).
        assert (Hrk' : parent (RT r rn) <> Some k).
        { rewrite (cc_rt_parent r rn Ern). destruct (parent rn) as [r2|]; [|discriminate].
          destruct (_ || _); [intros [= ->]; congruence|exact Hrk]. }
        assert (Hidx : index_of k (children (RT r rn)) = index_of k (children rn)).
        { unfold RT, rt. cbn [children]. destruct (match parent pn with Some q => r =? q | None => false end); [|reflexivity].
          apply index_of_replace_first_other; assumption. }
        exists (RT r rn), i. repeat split.
        * exact Ern'.
        * unfold RT, rt. cbn [children]. destruct (match parent pn with Some q => r =? q | None => false end); [|exact Hin].
          apply replace_first_In_other; assumption.
        * rewrite (neighbour_index_child _ _ Hrk'). rewrite (neighbour_index_child _ _ Hrk) in Hni.
          rewrite Hidx, (cc_rt_nparents r rn Ern). exact Hni.
        * rewrite (cc_lax_other k nk H1 H2 H3), (cc_lax_other r rn Hrp Hrc Hrn). exact Hw.
  Qed.

  Theorem cc_wf : wf s'.
  Proof.
    constructor.
    - exact V1.
    - rewrite V7. apply NoDup_akeys_snoc; [|exact cc_fresh_t]. apply NoDup_akeys_adel, NoDup_akeys_adel, (wf_tnd s W).
    - intros k Hk. destruct (Nat.eq_dec k new) as [->|H3]; [apply amem_aget; eauto|].
      apply amem_aget in Hk. destruct Hk as [t Ht].
      rewrite V7, (contract_tensors_aget _ _ _ _ _ _ (wf_tnd s W) cc_fresh_t) in Ht.
      destruct (Nat.eqb_spec k new); [congruence|]. destruct (Nat.eqb_spec k p) as [|H1]; [discriminate|].
      destruct (Nat.eqb_spec k c) as [|H2]; [discriminate|]. cbn in Ht.
      assert (Hm : amem k (nodes s) = true) by (apply (wf_tn s W); apply amem_aget; eauto).
      apply amem_aget in Hm. destruct Hm as [nk Enk]. destruct (cc_old_node k nk Enk H1 H2) as [_ E']. apply amem_aget. eauto.
    - destruct (wf_root s W) as (r & rn & Hr & Er & Hpr & Hu). destruct cc_nn as (N1 & _).
      assert (Hcase : (exists q, parent pn = Some q) \/ parent pn = None) by (destruct (parent pn); eauto).
      destruct Hcase as [[q Eq]|Eq].
      + assert (Hrp : r <> p) by (intros ->; rewrite Ep in Er; injection Er as <-; congruence).
        assert (Hrc : r <> c) by (intros ->; rewrite Ec in Er; injection Er as <-; congruence).
        destruct (cc_old_node r rn Er Hrp Hrc) as [Hrn Er'].
        exists r, (RT r rn). repeat split.
        * rewrite V6, Eq. exact Hr.
        * exact Er'.
        * rewrite (cc_rt_parent r rn Er), Hpr. reflexivity.
        * intros k nk' E Hpk. destruct (cc_nodes' k nk' E) as [[-> ->]|(H1 & H2 & H3 & nk & Enk & ->)]; [congruence|].
          apply (Hu k nk Enk). rewrite (cc_rt_parent k nk Enk) in Hpk. destruct (parent nk) as [r2|]; [|reflexivity].
          destruct (_ || _); discriminate.
      + exists new, nn. repeat split.
        * rewrite V6, Eq. reflexivity.
        * exact V2.
        * rewrite N1. exact Eq.
        * intros k nk' E Hpk. destruct (cc_nodes' k nk' E) as [[-> ->]|(H1 & H2 & H3 & nk & Enk & ->)]; [reflexivity|].
          exfalso. apply H1. rewrite (Hu p pn Ep Eq). apply (Hu k nk Enk).
          rewrite (cc_rt_parent k nk Enk) in Hpk. destruct (parent nk) as [r2|]; [|reflexivity]. destruct (_ || _); discriminate.
    - intros k nk' E. destruct (cc_nodes' k nk' E) as [[-> ->]|(H1 & H2 & H3 & nk & Enk & ->)].
      + exact cc_node_inv_new.
      + apply (cc_node_inv_other k nk Enk H1 H2).
    - intros k nk' E. destruct (cc_nodes' k nk' E) as [[-> ->]|(H1 & H2 & H3 & nk & Enk & ->)].
      + rewrite cc_tens_new. exact cc_own_nn_nodup.
      + destruct (cc_own_other k nk Enk H1 H2 H3) as [-> _]. apply (wf_own1 s W k nk Enk).
    - assert (Hx : forall k nk w, aget k (nodes s) = Some nk -> k <> p -> k <> c -> In w (own_of nk (tens s k)) ->
                ~ In w (own_of nn nt)).
      { intros k nk w Enk H1 H2 Hw Hw2. destruct (cc_own_nn_in w Hw2) as [Hw3|Hw3].
        - apply H1. apply (wf_own2 s W k nk p pn w Enk Ep Hw Hw3).
        - apply H2. apply (wf_own2 s W k nk c cn w Enk Ec Hw Hw3). }
      intros k1 n1 k2 n2 w E1 E2 Hw1 Hw2.
      destruct (cc_nodes' k1 n1 E1) as [[-> ->]|(H1 & H2 & H3 & m1 & Em1 & ->)];
      destruct (cc_nodes' k2 n2 E2) as [[-> ->]|(H1' & H2' & H3' & m2 & Em2 & ->)].
      + reflexivity.
      + exfalso. rewrite cc_tens_new in Hw1. destruct (cc_own_other k2 m2 Em2 H1' H2' H3') as [Ho _]. rewrite Ho in Hw2.
        apply (Hx k2 m2 w Em2 H1' H2' Hw2 Hw1).
      + exfalso. rewrite cc_tens_new in Hw2. destruct (cc_own_other k1 m1 Em1 H1 H2 H3) as [Ho _]. rewrite Ho in Hw1.
        apply (Hx k1 m1 w Em1 H1 H2 Hw1 Hw2).
      + destruct (cc_own_other k1 m1 Em1 H1 H2 H3) as [Ho1 _]. destruct (cc_own_other k2 m2 Em2 H1' H2' H3') as [Ho2 _].
        rewrite Ho1 in Hw1. rewrite Ho2 in Hw2. apply (wf_own2 s W k1 m1 k2 m2 w Em1 Em2 Hw1 Hw2).
    - intros k t w Et Hw. rewrite V9.
      rewrite V7, (contract_tensors_aget _ _ _ _ _ _ (wf_tnd s W) cc_fresh_t) in Et.
      destruct (Nat.eqb_spec k new) as [->|H3].
      + injection Et as <-. destruct cc_segments as (P0 & ch1 & ch2 & Hch & Hni & Hpch & Dp & HlenP0 & HP0 & Dc & Hnt).
        assert (Hin : In w (lax s p pn) \/ In w (lax s c cn)).
        { rewrite Hnt in Hw. rewrite Dp, Dc, Hch, Hpch in *. rewrite !map_app in *. cbn [map In].
          repeat (rewrite in_app_iff in Hw). repeat rewrite in_app_iff. cbn [In]. tauto. }
        destruct (contract_segments s p c pn cn ax nt W Ep Ec Hpc Pp Pc Hax Htd)
          as (_ & _ & _ & _ & _ & _ & _ & _ & _ & _ & _ & _ & A1 & A2).
        destruct Hin as [Hin|Hin].
        * rewrite <- A1 in Hin. apply (wf_wires s W p _ w (wf_tens s p pn W Ep) Hin).
        * rewrite <- A2 in Hin. apply (wf_wires s W c _ w (wf_tens s c cn W Ec) Hin).
      + destruct (Nat.eqb k p || Nat.eqb k c); [discriminate|]. apply (wf_wires s W k t w Et Hw).
    - intros w Hw. rewrite V8 in Hw. rewrite V9. apply (wf_dims s W w Hw).
    - destruct (wf_acyc s W) as [d Hd]. exists (fun x => if Nat.eqb x new then d p else d x).
      intros k nk' q E Hq. destruct (cc_nodes' k nk' E) as [[-> ->]|(H1 & H2 & H3 & nk & Enk & ->)].
      + rewrite Nat.eqb_refl. destruct cc_nn as (N1 & _). rewrite N1 in Hq.
        assert (Hqp : q <> p) by (intros ->; apply (wf_not_self_parent s p pn W Ep Hq)).
        assert (Hqc : q <> c) by (intros ->; apply (wf_parent_not_child s c cn p pn W Ec Hpc Ep Hq)).
        destruct (wf_parent_child s p pn q W Ep Hq) as (qn & Eqn & _).
        destruct (cc_old_node q qn Eqn Hqp Hqc) as [Hqn _].
        destruct (Nat.eqb_spec q new); [congruence|]. apply (Hd p pn q Ep Hq).
      + destruct (Nat.eqb_spec k new); [congruence|]. rewrite (cc_rt_parent k nk Enk) in Hq.
        destruct (parent nk) as [r|] eqn:Er; [|discriminate].
        destruct (Nat.eqb_spec r p) as [->|Hrp]; [|destruct (Nat.eqb_spec r c) as [->|Hrc]]; cbn in Hq; injection Hq as <-.
        * rewrite Nat.eqb_refl. apply (Hd k nk p Enk Er).
        * rewrite Nat.eqb_refl. pose proof (Hd k nk c Enk Er). pose proof (Hd c cn p Ec Hpc). nlia.
        * destruct (wf_parent_child s k nk r W Enk Er) as (rn & Ern & _).
          destruct (cc_old_node r rn Ern Hrp Hrc) as [Hrn _].
          destruct (Nat.eqb_spec r new); [congruence|]. apply (Hd k nk r Enk Er).
  Qed.

  (* the open-leg rule: the new node's open wires are p's followed by c's (or c's followed by p's when
     the child was named first); every other node keeps its logical axes *)
  Theorem cc_open_new : open_of nn (tens s' new) = (if first then PO ++ CO else CO ++ PO).
  Proof. rewrite cc_tens_new. apply cc_own_nn. Qed.

  Theorem cc_lax_others k nk : aget k (nodes s) = Some nk -> k <> p -> k <> c ->
    exists nk', aget k (nodes s') = Some nk' /\ lax s' k nk' = lax s k nk /\ open_of nk' (tens s' k) = open_of nk (tens s k).
  Proof.
    intros E H1 H2. destruct (cc_old_node k nk E H1 H2) as [H3 E']. exists (RT k nk). repeat split.
    - exact E'.
    - apply (cc_lax_other k nk H1 H2 H3).
    - apply (cc_own_other k nk E H1 H2 H3).
  Qed.
End ContractCore.


(* ---- contract_nodes ------------------------------------------------------------------------------------ *)
Lemma access_result s n s' nd t : access s n = Some (s', nd, t) ->
  aget n (nodes s') = Some nd /\ aget n (tensors s') = Some t /\ perm nd = seq 0 (nlegs nd) /\
  (forall k, k <> n -> aget k (nodes s') = aget k (nodes s) /\ aget k (tensors s') = aget k (tensors s)) /\
  dims s' = dims s /\ next_wire s' = next_wire s /\ root s' = root s /\ akeys (nodes s') = akeys (nodes s) /\
  exists nd0, aget n (nodes s) = Some nd0 /\ parent nd = parent nd0 /\ children nd = children nd0.
Proof.
  intros H. destruct (access_keys _ _ _ _ _ H) as (K1 & _ & _).
  destruct (access_inv _ _ _ _ _ H) as (nd0 & t0 & En & Et & -> & -> & ->). cbn.
  repeat split; auto.
  - apply aget_aset_same.
  - apply aget_aset_same.
  - unfold nlegs. cbn. rewrite seq_length. reflexivity.
  - apply aget_aset_other. exact H0.
  - apply aget_aset_other. exact H0.
  - exists nd0. auto.
Qed.

Lemma determine_parentage_inv s a b p c : determine_parentage s a b = Some (p, c) ->
  exists na nb, aget a (nodes s) = Some na /\ aget b (nodes s) = Some nb /\
    ((p = a /\ c = b /\ parent nb = Some a) \/ (p = b /\ c = a /\ parent na = Some b)).
Proof.
  unfold determine_parentage. destruct (aget a (nodes s)) as [na|]; [|discriminate].
  destruct (aget b (nodes s)) as [nb|]; [|discriminate]. exists na, nb. split; [reflexivity|split; [reflexivity|]].
  destruct (parent nb) as [q|] eqn:Eb.
  - destruct (Nat.eqb_spec q a) as [->|Hq].
    + injection H as <- <-. left. auto.
    + destruct (parent na) as [r|] eqn:Ea; [|discriminate]. destruct (Nat.eqb_spec r b) as [->|]; [|discriminate].
      injection H as <- <-. right. auto.
  - destruct (parent na) as [r|] eqn:Ea; [|discriminate]. destruct (Nat.eqb_spec r b) as [->|]; [|discriminate].
    injection H as <- <-. right. auto.
Qed.

Record contract_facts (s : store) (a b new : id) (s' : store) (p c : id) (s2 : store) (pn cn nn : node) (ax : nat) (nt : sarr) : Prop := {
  cf_pc : (p = a /\ c = b) \/ (p = b /\ c = a);
  cf_ab : a <> b;
  cf_wf2 : wf s2;
  cf_p : aget p (nodes s2) = Some pn;
  cf_c : aget c (nodes s2) = Some cn;
  cf_par : parent cn = Some p;
  cf_pp : perm pn = seq 0 (nlegs pn);
  cf_pc' : perm cn = seq 0 (nlegs cn);
  cf_ax : neighbour_index pn c = Some ax;
  cf_td : s_tensordot (tens s2 p) (tens s2 c) ax 0 = Some nt;
  cf_nn : create_contracted_node (map (wdim s2) (axes nt)) pn cn c (Nat.eqb p a) = Some nn;
  cf_keys : akeys (nodes s2) = akeys (nodes s);
  cf_lax : forall k nk, aget k (nodes s) = Some nk ->
           exists nk2, aget k (nodes s2) = Some nk2 /\ parent nk2 = parent nk /\ children nk2 = children nk /\ lax s2 k nk2 = lax s k nk;
  cf_atoms : total_atoms s2 = total_atoms s;
  cf_ends : Permutation (total_ends s2) (total_ends s);
  cf_tkeys : akeys (tensors s2) = akeys (tensors s);
  cf_view : NoDup (akeys (nodes s')) /\ aget new (nodes s') = Some nn /\
            (p <> new -> aget p (nodes s') = None) /\ (c <> new -> aget c (nodes s') = None) /\
            (forall k, k <> p -> k <> c -> k <> new ->
               aget k (nodes s') = option_map (rt p c new (children pn) (children cn) (parent pn) k) (aget k (nodes s2))) /\
            root s' = (match parent pn with None => Some new | Some _ => root s2 end) /\
            tensors s' = adel c (adel p (tensors s2)) ++ [(new, nt)] /\ dims s' = dims s2 /\ next_wire s' = next_wire s2
}.

Lemma contract_inv s a b new s' :
  wf s -> contract_nodes s a b new = Some s' -> (new = a \/ new = b \/ ~ In new (akeys (nodes s))) ->
  exists p c s2 pn cn nn ax nt, contract_facts s a b new s' p c s2 pn cn nn ax nt.
Proof.
  intros W H Hnew. unfold contract_nodes in H.
  destruct (determine_parentage s a b) as [[p c]|] eqn:Edp; [|discriminate].
  destruct (access s p) as [[[s1 pn] pt]|] eqn:A1; [|discriminate].
  destruct (access s1 c) as [[[s2 cn] ct]|] eqn:A2; [|discriminate].
  destruct (neighbour_index pn c) as [ax|] eqn:Eax; [|discriminate].
  destruct (s_tensordot pt ct ax 0) as [nt|] eqn:Etd; [|discriminate].
  destruct (create_contracted_node _ pn cn c (p =? a)) as [nn|] eqn:Enn; [|discriminate].
  match type of H with match ?r with _ => _ end = _ => destruct r as [s4|] eqn:R4; [|discriminate] end.
  destruct (replace_node_in_neighbours s4 new c true) as [s5|] eqn:R5; [|discriminate].
  injection H as <-.
  destruct (determine_parentage_inv s a b p c Edp) as (na & nb & Ea & Eb & Hcase).
  pose proof (access_preserves_wf s p s1 pn pt W A1) as W1.
  pose proof (access_preserves_wf s1 c s2 cn ct W1 A2) as W2.
  destruct (access_result _ _ _ _ _ A1) as (B1 & B2 & B3 & B4 & B5 & B6 & B7 & B8 & (pn0 & B9 & B10 & B11)).
  destruct (access_result _ _ _ _ _ A2) as (C1 & C2 & C3 & C4 & C5 & C6 & C7 & C8 & (cn0 & C9 & C10 & C11)).
  assert (Hpcne : p <> c /\ a <> b /\ parent cn0 = Some p /\ aget c (nodes s) = Some cn0).
  { destruct Hcase as [(-> & -> & Hp)|(-> & -> & Hp)].
    - assert (a <> b) by (intros ->; apply (wf_not_self_parent s b nb W Eb Hp)).
      destruct (B4 b (not_eq_sym H)) as [B4a _]. rewrite B4a, Eb in C9. injection C9 as <-. auto.
    - assert (b <> a) by (intros ->; apply (wf_not_self_parent s a na W Ea Hp)).
      destruct (B4 a (not_eq_sym H)) as [B4a _]. rewrite B4a, Ea in C9. injection C9 as <-. auto. }
  destruct Hpcne as (Hpc & Hab & Hparc & Ec0).
  destruct (C4 p Hpc) as [C4a C4b].
  assert (Hnew2 : new = p \/ new = c \/ ~ In new (akeys (nodes s2))).
  { rewrite C8, B8. destruct Hcase as [(-> & -> & _)|(-> & -> & _)]; tauto. }
  assert (Hp2 : aget p (nodes s2) = Some pn) by (rewrite C4a; exact B1).
  assert (Hparc2 : parent cn = Some p) by (rewrite C10; exact Hparc).
  assert (Hwd : map (wdim s) (axes nt) = map (wdim s2) (axes nt)).
  { apply map_ext. intros w. unfold wdim. rewrite C5, B5. reflexivity. }
  rewrite Hwd in Enn.
  assert (Hpt : tens s2 p = pt) by (apply tens_aget; rewrite C4b; exact B2).
  assert (Hct : tens s2 c = ct) by (apply tens_aget; exact C2).
  exists p, c, s2, pn, cn, nn, ax, nt. constructor; auto.
  - destruct Hcase as [(-> & -> & _)|(-> & -> & _)]; auto.
  - rewrite Hpt, Hct. exact Etd.
  - rewrite C8, B8. reflexivity.
  - intros k nk E. destruct (access_lax s p s1 pn pt k nk W A1 E) as (nk1 & E1 & P1 & P2 & P3).
    destruct (access_lax s1 c s2 cn ct k nk1 W1 A2 E1) as (nk2 & E2 & Q1 & Q2 & Q3).
    exists nk2. repeat split; congruence.
  - rewrite (access_total_atoms s1 c s2 cn ct W1 A2). apply (access_total_atoms s p s1 pn pt W A1).
  - rewrite (access_total_ends s1 c s2 cn ct W1 A2). apply (access_total_ends s p s1 pn pt W A1).
  - destruct (access_keys _ _ _ _ _ A1) as (_ & K1 & _). destruct (access_keys _ _ _ _ _ A2) as (_ & K2 & _). congruence.
  - apply (contract_view s2 p c pn cn new nt nn s4 s5 W2 Hp2 C1 Hparc2 Hnew2 R4 R5).
Qed.

Theorem contract_preserves_wf s a b new s' :
  wf s -> contract_nodes s a b new = Some s' -> (new = a \/ new = b \/ ~ In new (akeys (nodes s))) -> wf s'.
Proof.
  intros W H Hnew. destruct (contract_inv s a b new s' W H Hnew) as (p & c & s2 & pn & cn & nn & ax & nt & F).
  destruct F as [Fpc Fab Fwf2 Fp Fc Fpar Fpp Fpc' Fax Ftd Fnn Fkeys Flax Fatoms Fends Ftkeys Fview].
  destruct Fview as (V1 & V2 & V3 & V4 & V5 & V6 & V7 & V8 & V9).
  assert (Hnew2 : new = p \/ new = c \/ ~ In new (akeys (nodes s2))).
  { rewrite Fkeys. destruct Fpc as [[-> ->]|[-> ->]]; tauto. }
  apply (cc_wf s2 s' p c new pn cn nn ax nt (Nat.eqb p a)); assumption.
Qed.

Theorem contract_preserves_wfb s a b new s' :
  wfb s = true -> contract_nodes s a b new = Some s' -> (new = a \/ new = b \/ ~ In new (akeys (nodes s))) -> wfb s' = true.
Proof. intros W H Hnew. apply wf_wfb. apply (contract_preserves_wf s a b new s'); [apply wfb_wf; exact W|exact H|exact Hnew]. Qed.


(* ---- diagram totals and the open-leg rule ------------------------------------------------------------------ *)
Lemma flat_map_adel_perm {V W} (f : nat * V -> list W) k v l :
  aget k l = Some v -> Permutation (flat_map f l) (f (k, v) ++ flat_map f (adel k l)).
Proof.
  induction l as [|[k' v'] t IH]; cbn; [discriminate|].
  destruct (Nat.eqb_spec k k') as [->|Hne].
  - intros [= ->]. reflexivity.
  - intros E. cbn. rewrite (IH E). rewrite !app_assoc. apply Permutation_app_tail. apply Permutation_app_comm.
Qed.

(* Permutation of nat lists by counting occurrences *)
Ltac perm_count :=
  apply (Permutation_count_occ Nat.eq_dec); intros ?x;
  repeat (rewrite ?count_occ_app, ?map_app; cbn [count_occ app map]);
  repeat match goal with |- context [Nat.eq_dec ?a ?b] => destruct (Nat.eq_dec a b) end; lia.

Lemma contract_tensors_perm {W} (f : nat * sarr -> list W) (T : list (id * sarr)) p c new pt ct nt :
  p <> c -> aget p T = Some pt -> aget c T = Some ct ->
  Permutation (f (new, nt)) (f (p, pt) ++ f (c, ct)) ->
  Permutation (flat_map f (adel c (adel p T) ++ [(new, nt)])) (flat_map f T).
Proof.
  intros Hpc Ep Ec Hf. rewrite flat_map_app. cbn [flat_map]. rewrite app_nil_r.
  rewrite (flat_map_adel_perm f p pt T Ep).
  assert (Ec' : aget c (adel p T) = Some ct) by (rewrite aget_adel_other by congruence; exact Ec).
  rewrite (flat_map_adel_perm f c ct (adel p T) Ec'). rewrite Hf.
  etransitivity; [apply Permutation_app_comm|]. rewrite <- app_assoc. reflexivity.
Qed.

Theorem contract_total_atoms s a b new s' :
  wf s -> contract_nodes s a b new = Some s' -> (new = a \/ new = b \/ ~ In new (akeys (nodes s))) ->
  Permutation (total_atoms s') (total_atoms s).
Proof.
  intros W H Hnew. destruct (contract_inv s a b new s' W H Hnew) as (p & c & s2 & pn & cn & nn & ax & nt & F).
  destruct F as [Fpc Fab Fwf2 Fp Fc Fpar Fpp Fpc' Fax Ftd Fnn Fkeys Flax Fatoms Fends Ftkeys Fview]. destruct Fview as (_ & _ & _ & _ & _ & _ & V7 & _).
  rewrite <- Fatoms. unfold total_atoms. rewrite V7.
  assert (Hpc : p <> c) by (intros ->; apply (wf_not_self_parent s2 c cn Fwf2 Fc Fpar)).
  apply (contract_tensors_perm _ _ p c new (tens s2 p) (tens s2 c) nt Hpc
           (wf_tens s2 p pn Fwf2 Fp) (wf_tens s2 c cn Fwf2 Fc)).
  cbn [snd].
  destruct (contract_segments s2 p c pn cn ax nt Fwf2 Fp Fc Fpar Fpp Fpc' Fax Ftd)
    as (P0 & ch1 & ch2 & _ & _ & _ & _ & _ & _ & _ & Hat & _). rewrite Hat. reflexivity.
Qed.

(* the contracted wire's two axis ends become one bound wire, counted twice *)
Theorem contract_total_ends s a b new s' :
  wf s -> contract_nodes s a b new = Some s' -> (new = a \/ new = b \/ ~ In new (akeys (nodes s))) ->
  Permutation (total_ends s') (total_ends s).
Proof.
  intros W H Hnew. destruct (contract_inv s a b new s' W H Hnew) as (p & c & s2 & pn & cn & nn & ax & nt & F).
  destruct F as [Fpc Fab Fwf2 Fp Fc Fpar Fpp Fpc' Fax Ftd Fnn Fkeys Flax Fatoms Fends Ftkeys Fview]. destruct Fview as (_ & _ & _ & _ & _ & _ & V7 & _).
  rewrite <- Fends. unfold total_ends. rewrite V7.
  assert (Hpc : p <> c) by (intros ->; apply (wf_not_self_parent s2 c cn Fwf2 Fc Fpar)).
  apply (contract_tensors_perm _ _ p c new (tens s2 p) (tens s2 c) nt Hpc
           (wf_tens s2 p pn Fwf2 Fp) (wf_tens s2 c cn Fwf2 Fc)).
  cbn [snd]. unfold sarr_ends.
  destruct (contract_segments s2 p c pn cn ax nt Fwf2 Fp Fc Fpar Fpp Fpc' Fax Ftd)
    as (P0 & ch1 & ch2 & Hch & _ & Dp & _ & _ & Dc & Hnt & _ & Hbnd & A1 & A2).
  rewrite Hnt, Hbnd, A1, A2, Dp, Dc, Hch. unfold id, wire in *. perm_count.
Qed.

(* the new node's open wires are a's followed by b's; every other node keeps its logical axes *)
Theorem contract_open_rule s a b new s' na nb :
  wf s -> contract_nodes s a b new = Some s' -> (new = a \/ new = b \/ ~ In new (akeys (nodes s))) ->
  aget a (nodes s) = Some na -> aget b (nodes s) = Some nb ->
  exists nn, aget new (nodes s') = Some nn /\
    open_of nn (tens s' new) = open_of na (tens s a) ++ open_of nb (tens s b) /\
    forall k nk, aget k (nodes s) = Some nk -> k <> a -> k <> b ->
      exists nk', aget k (nodes s') = Some nk' /\ lax s' k nk' = lax s k nk /\
                  open_of nk' (tens s' k) = open_of nk (tens s k).
Proof.
  intros W H Hnew Ea Eb. destruct (contract_inv s a b new s' W H Hnew) as (p & c & s2 & pn & cn & nn & ax & nt & F).
  destruct F as [Fpc Fab Fwf2 Fp Fc Fpar Fpp Fpc' Fax Ftd Fnn Fkeys Flax Fatoms Fends Ftkeys Fview]. destruct Fview as (V1 & V2 & V3 & V4 & V5 & V6 & V7 & V8 & V9).
  assert (Hnew2 : new = p \/ new = c \/ ~ In new (akeys (nodes s2))).
  { rewrite Fkeys. destruct Fpc as [[-> ->]|[-> ->]]; tauto. }
  assert (Hopen : forall k nk nk2, aget k (nodes s) = Some nk -> aget k (nodes s2) = Some nk2 ->
            open_of nk2 (tens s2 k) = open_of nk (tens s k) /\ lax s2 k nk2 = lax s k nk).
  { intros k nk nk2 E E2. destruct (Flax k nk E) as (nk2' & E2' & Q1 & Q2 & Q3).
    rewrite E2 in E2'. injection E2' as <-. split; [|exact Q3]. apply open_of_ext; assumption. }
  exists nn. split; [exact V2|]. split.
  - rewrite (cc_open_new s2 s' p c new pn cn nn ax nt (Nat.eqb p a)); try assumption.
    destruct Fpc as [[-> ->]|[-> ->]].
    + rewrite Nat.eqb_refl. destruct (Hopen a na pn Ea Fp) as [-> _]. destruct (Hopen b nb cn Eb Fc) as [-> _]. reflexivity.
    + destruct (Nat.eqb_spec b a) as [Hba|_]; [congruence|].
      destruct (Hopen b nb pn Eb Fp) as [-> _]. destruct (Hopen a na cn Ea Fc) as [-> _]. reflexivity.
  - intros k nk E Hka Hkb. destruct (Flax k nk E) as (nk2 & E2 & Q1 & Q2 & Q3).
    assert (Hkp : k <> p /\ k <> c) by (destruct Fpc as [[-> ->]|[-> ->]]; auto).
    destruct Hkp as [Hkp Hkc].
    destruct (cc_lax_others s2 s' p c new pn cn nt Fwf2 Fp Fc Fpar Hnew2 V5 V7 k nk2 E2 Hkp Hkc)
      as (nk' & E' & L1 & L2).
    exists nk'. split; [exact E'|]. destruct (Hopen k nk nk2 E E2) as [O1 O2]. split; congruence.
Qed.


(* the side condition on the new identifier is needed: neither the model nor ttn.py checks it, and the
   identifier of a third node makes the contraction overwrite that node (here: root 0 with children 1, 2;
   contracting 0 and 1 into "2" leaves a single node that is its own child) *)
Example contract_third_id_counterexample :
  let s := fst (run empty_store [AddRoot 0 [2; 3; 2]; AddChild 1 [2; 2] 1 0 0; AddChild 2 [3; 2] 0 0 1]) in
  wfb s = true /\
  match contract_nodes s 0 1 2 with
  | Some s' => wfb s' = false /\ akeys (nodes s') = [2] /\ option_map children (aget 2 (nodes s')) = Some [2]
  | None => False
  end.
Proof. vm_compute. repeat split; reflexivity. Qed.
