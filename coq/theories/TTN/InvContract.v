(* contract_nodes preserves the store invariant; diagram totals and the open-leg rule. *)
From Coq Require Import List Arith Bool Lia Permutation.
From PTN Require Import TTN.Store TTN.StoreProofs TTN.Inv TTN.InvProofs TTN.InvNode.
Import ListNotations.

(* id and wire are definitions for nat; lia needs them unfolded to identify @length id with @length nat *)
Ltac nlia := unfold id, wire in *; lia.

(* ---- the node record built by create_contracted_node ------------------------------------------------ *)
Lemma move_0_0 {A} (l l' : list A) : move 0 0 l = Some l' -> l' = l.
Proof. destruct l as [|x t]; cbn; [discriminate|]. intros [= <-]. reflexivity. Qed.

Lemma remove_first_length x l : In x l -> S (length (remove_first x l)) = length l.
Proof. intros H. apply remove_first_perm in H. apply Permutation_length in H. cbn in H. lia. Qed.

Lemma seq_nth_map N (is : list nat) : (forall i, In i is -> i < N) -> map (fun i => nth i (seq 0 N) 0) is = is.
Proof.
  intros H. rewrite <- (map_id is) at 2. apply map_ext_in. intros i Hi. rewrite seq_nth by (apply H; exact Hi). reflexivity.
Qed.

Definition ccn_perm (first : bool) (np npch ncc op oc lp : nat) : list nat :=
  seq 0 np ++
  (if first then seq np npch ++ seq (lp - 1) ncc ++ seq (np + npch) op ++ seq (lp - 1 + ncc) oc
   else seq (lp - 1) ncc ++ seq np npch ++ seq (lp - 1 + ncc) oc ++ seq (np + npch) op).

Lemma ccn_spec shp pn cn c first nn :
  create_contracted_node shp pn cn c first = Some nn ->
  In c (children pn) -> nvirt pn <= nlegs pn -> nvirt cn <= nlegs cn -> nparents cn = 1 ->
  length shp = (nlegs pn - 1) + (nlegs cn - 1) ->
  let pch := remove_first c (children pn) in
  parent nn = parent pn /\ shape nn = shp /\
  children nn = (if first then pch ++ children cn else children cn ++ pch) /\
  perm nn = ccn_perm first (nparents pn) (length pch) (length (children cn)) (nopen pn) (nopen cn) (nlegs pn).
Proof.
  intros H Hc Hvp Hvc Hpc Hlen. unfold create_contracted_node in H. cbv zeta in H |- *.
  set (pch := remove_first c (children pn)) in *.
  set (N := length shp) in *.
  set (np := nparents pn) in *. set (lp := nlegs pn) in *. set (lc := nlegs cn) in *.
  set (cc := children cn) in *.
  assert (Hpch : S (length pch) = length (children pn)) by (apply remove_first_length; exact Hc).
  assert (Eop : lp = np + S (length pch) + nopen pn).
  { unfold nopen. fold lp. unfold nvirt in *. fold np in Hvp |- *. lia. }
  assert (Eoc : lc = 1 + length cc + nopen cn).
  { unfold nopen. fold lc. unfold nvirt in *. rewrite Hpc in *. fold cc in Hvc |- *. lia. }
  set (op := nopen pn) in *. set (oc := nopen cn) in *.
  assert (EN : N = np + length pch + op + length cc + oc) by lia.
  (* n1 *)
  match type of H with match ?r with _ => _ end = _ => destruct r as [n1|] eqn:E1; [|discriminate] end.
  assert (Hn1 : parent n1 = parent pn /\ children n1 = [] /\ perm n1 = seq 0 N /\ shape n1 = shp).
  { destruct (parent pn) as [pp|] eqn:Epp.
    - unfold open_leg_to_parent in E1. cbn in E1.
      destruct (open_leg_ok (new_node shp) 0); cbn in E1; [|discriminate].
      destruct (move 0 0 (seq 0 (length shp))) as [q|] eqn:Em; [|discriminate].
      apply move_0_0 in Em. subst q. injection E1 as <-. cbn. auto.
    - injection E1 as <-. cbn. auto. }
  destruct Hn1 as (P1 & P2 & P3 & P4).
  assert (Hv1 : nvirt n1 = np).
  { unfold nvirt. rewrite P2. cbn. unfold nparents. rewrite P1. fold (nparents pn). fold np. lia. }
  assert (Hwf1 : node_wf n1).
  { split; [rewrite P3, P4; reflexivity|]. rewrite Hv1. unfold nlegs. rewrite P3, seq_length. lia. }
  set (pd := enum_from np pch) in *. set (cd := enum_from (lp - 1) cc) in *.
  set (d := if first then pd ++ cd else cd ++ pd) in *.
  destruct (open_legs_to_children n1 d) as [n2|] eqn:E2; [|discriminate].
  assert (Hlegs : map snd d = if first then seq np (length pch) ++ seq (lp - 1) (length cc)
                              else seq (lp - 1) (length cc) ++ seq np (length pch)).
  { unfold d, pd, cd. destruct first; rewrite map_app, !enum_from_snd; reflexivity. }
  assert (Hids : map fst d = if first then pch ++ cc else cc ++ pch).
  { unfold d, pd, cd. destruct first; rewrite map_app, !enum_from_fst; reflexivity. }
  assert (Hinlegs : forall x, In x (map snd d) <-> (np <= x < np + length pch \/ lp - 1 <= x < lp - 1 + length cc)).
  { intros x. rewrite Hlegs. destruct first; rewrite in_app_iff, !in_seq; tauto. }
  assert (Hndl : NoDup (map snd d)).
  { rewrite Hlegs. destruct first; apply NoDup_app_iff; repeat split; try apply seq_NoDup;
      intros x Hx Hy; apply in_seq in Hx; apply in_seq in Hy; lia. }
  destruct (open_legs_to_children_spec n1 d n2 Hwf1 Hndl E2) as (S1 & S2 & S3 & S4 & S5).
  rewrite P3 in S4. rewrite Hv1 in S4.
  assert (Hvals : map (fun cl : id * nat => nth (snd cl) (seq 0 N) 0) d = map snd d).
  { rewrite <- (map_map snd (fun i => nth i (seq 0 N) 0)). apply seq_nth_map.
    intros i Hi. apply Hinlegs in Hi. lia. }
  rewrite Hvals in S4.
  assert (Hseq : seq 0 N = seq 0 np ++ seq np (length pch) ++ seq (np + length pch) op
                           ++ seq (lp - 1) (length cc) ++ seq (lp - 1 + length cc) oc).
  { rewrite EN. rewrite <- !Nat.add_assoc. rewrite seq_app. f_equal. cbn [Nat.add].
    rewrite seq_app. f_equal. rewrite seq_app. f_equal.
    replace (np + length pch + op) with (lp - 1) by lia. apply seq_app. }
  assert (Hf : firstn np (seq 0 N) = seq 0 np).
  { rewrite Hseq. rewrite <- (seq_length np 0) at 1. apply firstn_app_len. }
  assert (Hs : skipn np (seq 0 N) = seq np (length pch) ++ seq (np + length pch) op
                           ++ seq (lp - 1) (length cc) ++ seq (lp - 1 + length cc) oc).
  { rewrite Hseq. rewrite <- (seq_length np 0) at 1. apply skipn_app_len. }
  assert (Hfilt : filter (fun x => negb (memb x (map snd d))) (skipn np (seq 0 N))
                  = seq (np + length pch) op ++ seq (lp - 1 + length cc) oc).
  { rewrite Hs, !filter_app.
    rewrite (filter_seq_in (map snd d) np) by (intros x Hx; apply Hinlegs; lia).
    rewrite (filter_seq_out (map snd d) (np + length pch)) by (intros x Hx Hi; apply Hinlegs in Hi; lia).
    rewrite (filter_seq_in (map snd d) (lp - 1)) by (intros x Hx; apply Hinlegs; lia).
    rewrite (filter_seq_out (map snd d) (lp - 1 + length cc)) by (intros x Hx Hi; apply Hinlegs in Hi; lia).
    reflexivity. }
  rewrite Hf, Hfilt, Hlegs in S4.
  assert (S3' : children n2 = if first then pch ++ cc else cc ++ pch).
  { rewrite S3, P2. cbn [app]. exact Hids. }
  clear S3. rename S3' into S3.
  destruct first.
  - injection H as <-. repeat split.
    + rewrite S1. exact P1.
    + rewrite S2. exact P4.
    + exact S3.
    + rewrite S4. unfold ccn_perm. rewrite <- !app_assoc. reflexivity.
  - unfold exchange_open_leg_ranges in H.
    set (nv := nvirt n2) in *.
    assert (Hnv : nv = np + length cc + length pch).
    { unfold nv, nvirt. rewrite S3, app_length. unfold nparents. rewrite S1, P1. fold (nparents pn). fold np. nlia. }
    assert (Hl2 : nlegs n2 = N).
    { unfold nlegs. rewrite S4, !app_length, !seq_length. lia. }
    rewrite Hl2 in H.
    replace (nv + op <? nv) with false in H by (symmetry; apply Nat.ltb_ge; lia).
    replace (nv + op <? nv + op) with false in H by (symmetry; apply Nat.ltb_ge; lia).
    replace (N - (nv + op)) with oc in H by lia.
    set (virt := seq 0 np ++ seq (lp - 1) (length cc) ++ seq np (length pch)) in *.
    set (OP := seq (np + length pch) op) in *. set (OC := seq (lp - 1 + length cc) oc) in *.
    assert (Hvl : length virt = nv).
    { unfold virt. rewrite !app_length, !seq_length. lia. }
    assert (HP2 : perm n2 = (virt ++ OP) ++ OC ++ []).
    { rewrite S4. unfold virt. rewrite app_nil_r, <- !app_assoc. reflexivity. }
    rewrite HP2 in H.
    replace oc with (length OC) in H at 1 by (unfold OC; apply seq_length).
    replace (nv + op) with (length (virt ++ OP)) in H at 1 by (rewrite app_length; unfold OP; rewrite seq_length; lia).
    rewrite pop_n_app in H. rewrite app_nil_r in H.
    replace op with (length OP) in H at 1 by (unfold OP; apply seq_length).
    rewrite <- Hvl in H at 1. rewrite <- (app_nil_r (virt ++ OP)) in H. rewrite <- app_assoc in H.
    rewrite pop_n_app in H. rewrite app_nil_r in H.
    replace (insert_list nv OC virt) with (virt ++ OC) in H by (rewrite <- Hvl; symmetry; apply insert_list_end).
    replace (nv + oc + (nv + op - (nv + op))) with (length (virt ++ OC)) in H
      by (rewrite app_length; unfold OC; rewrite seq_length; lia).
    rewrite insert_list_end in H. injection H as <-. cbn. repeat split.
    + rewrite S1. exact P1.
    + rewrite S2. exact P4.
    + exact S3.
    + unfold ccn_perm, virt. rewrite <- !app_assoc. reflexivity.
Qed.

(* ---- replace_node_in_neighbours ---------------------------------------------------------------------- *)
Definition reparent (new : id) (chs : list id) (k : id) (n : node) : node :=
  if memb k chs && negb (Nat.eqb k new) then with_parent n (Some new) else n.

Lemma set_parent_of_aget new l ch k :
  aget k (set_parent_of new l ch)
  = if Nat.eqb k ch then option_map (fun n => with_parent n (Some new)) (aget k l) else aget k l.
Proof.
  unfold set_parent_of. destruct (aget ch l) as [cn|] eqn:E.
  - rewrite aget_aset. destruct (Nat.eqb_spec k ch) as [->|Hne]; [rewrite E; reflexivity|reflexivity].
  - destruct (Nat.eqb_spec k ch) as [->|Hne]; [rewrite E; reflexivity|reflexivity].
Qed.

Lemma set_parent_of_keys new l ch : akeys (set_parent_of new l ch) = akeys l.
Proof.
  unfold set_parent_of. destruct (aget ch l) as [cn|] eqn:E; [|reflexivity].
  eapply akeys_aset_mem. exact E.
Qed.

Definition reparent_fold (new : id) (chs : list id) (l : list (id * node)) :=
  fold_left (fun l c => if Nat.eqb c new then l else set_parent_of new l c) chs l.

Lemma reparent_fold_aget new chs : forall l k,
  aget k (reparent_fold new chs l) = option_map (reparent new chs k) (aget k l).
Proof.
  unfold reparent_fold. induction chs as [|ch t IH]; intros l k.
  - cbn. destruct (aget k l); reflexivity.
  - cbn [fold_left]. rewrite IH. unfold reparent. cbn [memb existsb].
    destruct (Nat.eqb_spec ch new) as [->|Hne].
    + destruct (aget k l) as [n|]; [|reflexivity]. cbn. f_equal.
      destruct (Nat.eqb_spec k new) as [->|Hk]; cbn.
      * rewrite !andb_false_r. reflexivity.
      * reflexivity.
    + rewrite set_parent_of_aget. fold (memb k t).
      destruct (Nat.eqb_spec k ch) as [->|Hk]; cbn.
      * destruct (aget ch l) as [n|]; [|reflexivity]. cbn. f_equal.
        destruct (Nat.eqb_spec ch new); [congruence|]. cbn. destruct (memb ch t); reflexivity.
      * reflexivity.
Qed.

Lemma reparent_fold_keys new chs : forall l, akeys (reparent_fold new chs l) = akeys l.
Proof.
  unfold reparent_fold. induction chs as [|ch t IH]; intros l; [reflexivity|].
  cbn [fold_left]. rewrite IH. destruct (Nat.eqb ch new); [reflexivity|apply set_parent_of_keys].
Qed.

Lemma reparent_children new chs k n : children (reparent new chs k n) = children n.
Proof. unfold reparent. destruct (_ && _); reflexivity. Qed.

Lemma reparent_perm new chs k n : perm (reparent new chs k n) = perm n.
Proof. unfold reparent. destruct (_ && _); reflexivity. Qed.

Lemma reparent_shape new chs k n : shape (reparent new chs k n) = shape n.
Proof. unfold reparent. destruct (_ && _); reflexivity. Qed.

Lemma reparent_parent new chs k n :
  parent (reparent new chs k n) = if memb k chs && negb (Nat.eqb k new) then Some new else parent n.
Proof. unfold reparent. destruct (_ && _); reflexivity. Qed.

Lemma rnin_spec s new old del s' on :
  replace_node_in_neighbours s new old del = Some s' -> new <> old -> NoDup (akeys (nodes s)) ->
  aget old (nodes s) = Some on ->
  exists L, s' = set_root (upd_nodes s (fun _ => L)) (match parent on with None => Some new | Some _ => root s end)
   /\ NoDup (akeys L)
   /\ (forall k, aget k L =
        if del && Nat.eqb k old then None else
        match parent on with
        | Some pp => if negb (Nat.eqb pp new) && Nat.eqb k pp
                     then option_map (fun n => with_children (reparent new (children on) k n)
                                                             (replace_first old new (children n))) (aget k (nodes s))
                     else option_map (reparent new (children on) k) (aget k (nodes s))
        | None => option_map (reparent new (children on) k) (aget k (nodes s))
        end)
   /\ (forall pp, parent on = Some pp -> pp <> new -> exists ppn, aget pp (nodes s) = Some ppn /\ In old (children ppn)).
Proof.
  intros H Hne Hnd Eon. unfold replace_node_in_neighbours in H.
  destruct (Nat.eqb_spec new old) as [|_]; [congruence|]. rewrite Eon in H.
  fold (reparent_fold new (children on) (nodes s)) in H.
  set (l1 := reparent_fold new (children on) (nodes s)) in *.
  assert (Hl1 : forall k, aget k l1 = option_map (reparent new (children on) k) (aget k (nodes s)))
    by (intros k; apply reparent_fold_aget).
  assert (Hnd1 : NoDup (akeys l1)) by (unfold l1; rewrite reparent_fold_keys; exact Hnd).
  assert (Hfin : forall l2 : list (id * node), NoDup (akeys l2) -> NoDup (akeys (if del then adel old l2 else l2))).
  { intros l2 H2. destruct del; [apply NoDup_akeys_adel|]; exact H2. }
  assert (Hdel : forall (l2 : list (id * node)) k, NoDup (akeys l2) ->
            aget k (if del then adel old l2 else l2) = if del && Nat.eqb k old then None else aget k l2).
  { intros l2 k H2. destruct del; cbn; [apply aget_adel; exact H2|reflexivity]. }
  destruct (parent on) as [pp|] eqn:Epp.
  - destruct (Nat.eqb_spec pp new) as [->|Hpn].
    + injection H as <-. exists (if del then adel old l1 else l1). repeat split.
      * apply Hfin. exact Hnd1.
      * intros k. rewrite Hdel by exact Hnd1. rewrite Hl1. reflexivity.
      * intros pp' [= <-] Hc. congruence.
    + destruct (aget pp l1) as [ppn|] eqn:Eppn; [|discriminate].
      destruct (memb old (children ppn)) eqn:Hm; [|discriminate]. injection H as <-.
      set (l2 := aset pp (with_children ppn (replace_first old new (children ppn))) l1).
      assert (Hnd2 : NoDup (akeys l2)) by (apply NoDup_akeys_aset; exact Hnd1).
      rewrite Hl1 in Eppn. destruct (aget pp (nodes s)) as [ppn0|] eqn:Eppn0; [|discriminate].
      cbn in Eppn. injection Eppn as <-.
      exists (if del then adel old l2 else l2). repeat split.
      * apply Hfin. exact Hnd2.
      * intros k. rewrite Hdel by exact Hnd2. unfold l2. rewrite aget_aset, Hl1.
        destruct (Nat.eqb_spec k pp) as [->|Hk]; cbn; [|reflexivity].
        rewrite Eppn0. cbn. rewrite reparent_children. reflexivity.
      * intros pp' [= <-] _. exists ppn0. split; [exact Eppn0|]. apply memb_In.
        rewrite reparent_children in Hm. exact Hm.
  - injection H as <-. exists (if del then adel old l1 else l1). repeat split.
    + apply Hfin. exact Hnd1.
    + intros k. rewrite Hdel by exact Hnd1. rewrite Hl1. reflexivity.
    + intros pp' Hc. discriminate.
Qed.

(* ---- the node dictionary after a contraction --------------------------------------------------------- *)
Lemma node_eq a b : parent a = parent b -> children a = children b -> perm a = perm b -> shape a = shape b -> a = b.
Proof. destruct a, b. cbn. intros -> -> -> ->. reflexivity. Qed.

Lemma replace_first_same x l : replace_first x x l = l.
Proof. induction l as [|y t IH]; cbn; [reflexivity|]. destruct (Nat.eqb_spec x y) as [->|]; [reflexivity|]. f_equal. exact IH. Qed.

(* how a node other than p, c, new is rewritten: children of p or c get parent new, the parent of p
   gets new in place of p *)
Definition rt (p c new : id) (chp chc : list id) (pp : option id) (k : id) (n : node) : node :=
  {| parent := if memb k chp || memb k chc then Some new else parent n;
     children := if (match pp with Some q => Nat.eqb k q | None => false end)
                 then replace_first p new (children n) else children n;
     perm := perm n; shape := shape n |}.

Lemma wf_child_parent s k n x : wf s -> aget k (nodes s) = Some n -> In x (children n) ->
  exists xn, aget x (nodes s) = Some xn /\ parent xn = Some k.
Proof. intros W E Hx. apply (ni_ch _ _ _ (wf_node s W k n E) x Hx). Qed.

Lemma wf_parent_child s k n p : wf s -> aget k (nodes s) = Some n -> parent n = Some p ->
  exists pn, aget p (nodes s) = Some pn /\ In k (children pn).
Proof.
  intros W E Hp. destruct (ni_par _ _ _ (wf_node s W k n E) p Hp) as (pn & i & E1 & E2 & _). eauto.
Qed.

Lemma rnin_same s new del : replace_node_in_neighbours s new new del = Some s.
Proof. unfold replace_node_in_neighbours. rewrite Nat.eqb_refl. reflexivity. Qed.

Lemma contract_view s p c pn cn new nt nn s4 s5 :
  wf s -> aget p (nodes s) = Some pn -> aget c (nodes s) = Some cn -> parent cn = Some p ->
  (new = p \/ new = c \/ ~ In new (akeys (nodes s))) ->
  replace_node_in_neighbours (upd_tensors s (fun l => adel c (adel p l) ++ [(new, nt)])) new p true = Some s4 ->
  replace_node_in_neighbours s4 new c true = Some s5 ->
  let s' := upd_nodes s5 (aset new nn) in
  NoDup (akeys (nodes s')) /\
  aget new (nodes s') = Some nn /\
  (p <> new -> aget p (nodes s') = None) /\ (c <> new -> aget c (nodes s') = None) /\
  (forall k, k <> p -> k <> c -> k <> new ->
     aget k (nodes s') = option_map (rt p c new (children pn) (children cn) (parent pn) k) (aget k (nodes s))) /\
  root s' = (match parent pn with None => Some new | Some _ => root s end) /\
  tensors s' = adel c (adel p (tensors s)) ++ [(new, nt)] /\ dims s' = dims s /\ next_wire s' = next_wire s.
Proof.
  intros W Ep Ec Hpc Hnew H4 H5.
  set (s3 := upd_tensors s (fun l => adel c (adel p l) ++ [(new, nt)])) in *.
  assert (Hpne : p <> c). { intros ->. apply (wf_not_self_parent s c cn W Ec Hpc). }
  assert (Hnd : NoDup (akeys (nodes s3))) by apply (wf_nd s W).
  assert (Hppc : parent pn <> Some c) by (apply (wf_parent_not_child s c cn p pn W Ec Hpc Ep)).
  (* facts used to identify the rewritten records *)
  assert (Hchp : forall k n, aget k (nodes s) = Some n -> memb k (children pn) = true -> parent n = Some p).
  { intros k n E Hm. apply memb_In in Hm. destruct (wf_child_parent s p pn k W Ep Hm) as (xn & E1 & E2). congruence. }
  assert (Hchc : forall k n, aget k (nodes s) = Some n -> memb k (children cn) = true -> parent n = Some c).
  { intros k n E Hm. apply memb_In in Hm. destruct (wf_child_parent s c cn k W Ec Hm) as (xn & E1 & E2). congruence. }
  assert (Hcin : memb c (children pn) = true).
  { apply memb_In. destruct (wf_parent_child s c cn p W Ec Hpc) as (pn' & E1 & E2). congruence. }
  destruct (Nat.eq_dec new p) as [->|Hnp]; [|destruct (Nat.eq_dec new c) as [->|Hnc]].
  - (* new = p *)
    rewrite rnin_same in H4. injection H4 as <-.
    destruct (rnin_spec s3 p c true s5 cn H5 Hpne Hnd Ec) as (L & -> & HndL & HL & _).
    cbn [nodes upd_nodes set_root root tensors dims next_wire]. rewrite Hpc in HL |- *.
    repeat split.
    + apply NoDup_akeys_aset. exact HndL.
    + apply aget_aset_same.
    + congruence.
    + intros _. rewrite aget_aset_other by congruence. rewrite HL. cbn. rewrite Nat.eqb_refl. reflexivity.
    + intros k Hk1 Hk2 _. rewrite aget_aset_other by exact Hk1. rewrite HL.
      destruct (Nat.eqb_spec k c); [congruence|]. rewrite Nat.eqb_refl. cbn [negb andb].
      change (nodes s3) with (nodes s). destruct (aget k (nodes s)) as [nk|] eqn:E; [|reflexivity]. cbn. f_equal.
      apply node_eq; cbn; rewrite ?reparent_children, ?reparent_perm, ?reparent_shape; try reflexivity.
      * rewrite reparent_parent. destruct (Nat.eqb_spec k p); [congruence|]. rewrite andb_true_r.
        destruct (memb k (children cn)); [rewrite orb_true_r; reflexivity|]. rewrite orb_false_r.
        destruct (memb k (children pn)) eqn:Hm; [apply (Hchp k nk E Hm)|reflexivity].
      * rewrite replace_first_same. destruct (parent pn) as [q|]; [destruct (k =? q)|]; reflexivity.
    + destruct (parent pn) eqn:Epp; [reflexivity|]. destruct (wf_root s W) as (r & rn & Hr & _ & _ & Hu).
      change (root s3) with (root s). rewrite Hr. f_equal. symmetry. apply (Hu p pn Ep Epp).
  - (* new = c *)
    rewrite rnin_same in H5. injection H5 as <-.
    destruct (rnin_spec s3 c p true s4 pn H4 (not_eq_sym Hpne) Hnd Ep) as (L & -> & HndL & HL & _).
    cbn [nodes upd_nodes set_root root tensors dims next_wire].
    repeat split.
    + apply NoDup_akeys_aset. exact HndL.
    + apply aget_aset_same.
    + intros _. rewrite aget_aset_other by congruence. rewrite HL. cbn. rewrite Nat.eqb_refl. reflexivity.
    + congruence.
    + intros k Hk1 Hk2 _. rewrite aget_aset_other by exact Hk2. rewrite HL.
      destruct (Nat.eqb_spec k p); [congruence|]. cbn [andb].
      change (nodes s3) with (nodes s).
      assert (Hpar : forall n, aget k (nodes s) = Some n ->
                parent (reparent c (children pn) k n) = (if memb k (children pn) || memb k (children cn) then Some c else parent n)).
      { intros n0 E. rewrite reparent_parent. destruct (Nat.eqb_spec k c); [congruence|]. rewrite andb_true_r.
        destruct (memb k (children pn)); [reflexivity|]. cbn.
        destruct (memb k (children cn)) eqn:Hm; [apply (Hchc k n0 E Hm)|reflexivity]. }
      destruct (parent pn) as [q|] eqn:Epp.
      * destruct (Nat.eqb_spec q c) as [Eq|Hqc]; [exfalso; apply Hppc; f_equal; exact Eq|]. cbn [negb andb].
        destruct (Nat.eqb_spec k q) as [->|Hkq].
        -- destruct (aget q (nodes s)) as [n0|] eqn:E; [|reflexivity]. cbn. f_equal.
           apply node_eq; cbn; rewrite ?reparent_children, ?reparent_perm, ?reparent_shape, ?Nat.eqb_refl; try reflexivity.
           apply Hpar; first [exact E|reflexivity].
        -- destruct (aget k (nodes s)) as [n0|] eqn:E; [|reflexivity]. cbn. f_equal.
           apply node_eq; cbn; rewrite ?reparent_children, ?reparent_perm, ?reparent_shape; try reflexivity.
           ++ apply Hpar; first [exact E|reflexivity].
           ++ destruct (Nat.eqb_spec k q); [congruence|reflexivity].
      * destruct (aget k (nodes s)) as [n0|] eqn:E; [|reflexivity]. cbn. f_equal.
        apply node_eq; cbn; rewrite ?reparent_children, ?reparent_perm, ?reparent_shape; try reflexivity.
        apply Hpar; first [exact E|reflexivity].
  - (* new is a fresh key *)
    assert (Hfresh : aget new (nodes s) = None).
    { destruct Hnew as [?|[?|Hn]]; [congruence|congruence|]. apply aget_None. exact Hn. }
    destruct (rnin_spec s3 new p true s4 pn H4 Hnp Hnd Ep) as (L4 & -> & HndL4 & HL4 & _).
    set (s4 := set_root (upd_nodes s3 (fun _ => L4)) (match parent pn with None => Some new | Some _ => root s3 end)) in *.
    assert (Ec4 : aget c (nodes s4) = Some (reparent new (children pn) c cn)).
    { cbn. rewrite HL4. destruct (Nat.eqb_spec c p); [congruence|]. cbn [andb].
      change (nodes s3) with (nodes s). rewrite Ec.
      destruct (parent pn) as [q|] eqn:Epp; [|reflexivity].
      destruct (Nat.eqb_spec c q) as [Eq|]; [exfalso; apply Hppc; f_equal; symmetry; exact Eq|]. rewrite andb_false_r. reflexivity. }
    assert (Hon5 : parent (reparent new (children pn) c cn) = Some new).
    { rewrite reparent_parent, Hcin. destruct (Nat.eqb_spec c new); [congruence|reflexivity]. }
    destruct (rnin_spec s4 new c true s5 _ H5 Hnc HndL4 Ec4) as (L5 & -> & HndL5 & HL5 & _).
    rewrite Hon5 in HL5. rewrite Nat.eqb_refl in HL5. cbn [negb andb] in HL5. rewrite reparent_children in HL5.
    cbn [nodes upd_nodes set_root root tensors dims next_wire]. rewrite Hon5.
    assert (H4k : forall k, k <> p -> k <> c -> k <> new -> aget k L4 =
               option_map (fun n => {| parent := if memb k (children pn) then Some new else parent n;
                                       children := if (match parent pn with Some q => Nat.eqb k q | None => false end)
                                                   then replace_first p new (children n) else children n;
                                       perm := perm n; shape := shape n |}) (aget k (nodes s))).
    { intros k Hk1 Hk2 Hk3. rewrite HL4. destruct (Nat.eqb_spec k p); [congruence|]. cbn [andb].
      change (nodes s3) with (nodes s).
      assert (Hpar : forall n, parent (reparent new (children pn) k n) = (if memb k (children pn) then Some new else parent n)).
      { intros n0. rewrite reparent_parent. destruct (Nat.eqb_spec k new); [congruence|]. rewrite andb_true_r. reflexivity. }
      destruct (parent pn) as [q|] eqn:Epp.
      - destruct (Nat.eqb_spec q new) as [->|Hqn].
        + exfalso. destruct (wf_parent_child s p pn new W Ep Epp) as (x & Ex & _). congruence.
        + cbn [negb andb]. destruct (Nat.eqb_spec k q) as [->|Hkq].
          * destruct (aget q (nodes s)) as [n0|]; [|reflexivity]. cbn. f_equal.
            apply node_eq; cbn; rewrite ?reparent_children, ?reparent_perm, ?reparent_shape; try reflexivity. apply Hpar.
          * destruct (aget k (nodes s)) as [n0|]; [|reflexivity]. cbn. f_equal.
            apply node_eq; cbn; rewrite ?reparent_children, ?reparent_perm, ?reparent_shape; try reflexivity. apply Hpar.
      - destruct (aget k (nodes s)) as [n0|]; [|reflexivity]. cbn. f_equal.
        apply node_eq; cbn; rewrite ?reparent_children, ?reparent_perm, ?reparent_shape; try reflexivity. apply Hpar. }
    repeat split.
    + apply NoDup_akeys_aset. exact HndL5.
    + apply aget_aset_same.
    + intros _. rewrite aget_aset_other by congruence. rewrite HL5.
      destruct (Nat.eqb_spec p c); [congruence|]. cbn [andb]. rewrite HL4. rewrite Nat.eqb_refl. reflexivity.
    + intros _. rewrite aget_aset_other by congruence. rewrite HL5. rewrite Nat.eqb_refl. reflexivity.
    + intros k Hk1 Hk2 Hk3. rewrite aget_aset_other by exact Hk3. rewrite HL5.
      destruct (Nat.eqb_spec k c); [congruence|]. cbn [andb]. change (nodes s4) with L4. rewrite (H4k k Hk1 Hk2 Hk3).
      destruct (aget k (nodes s)) as [n0|]; [|reflexivity]. cbn. f_equal.
      apply node_eq; cbn; rewrite ?reparent_children, ?reparent_perm, ?reparent_shape; try reflexivity.
      rewrite reparent_parent. cbn. destruct (Nat.eqb_spec k new); [congruence|]. rewrite andb_true_r.
      destruct (memb k (children cn)); [rewrite orb_true_r; reflexivity|]. rewrite orb_false_r. reflexivity.
Qed.

(* ---- the logical axes of a node: parent wire, the children's edge wires, open wires ------------------- *)
(* the wire on x's leg 0 (the edge to its parent, for a non-root node) *)
Definition ew (s : store) (x : id) : wire :=
  match aget x (nodes s) with Some xn => nth 0 (lax s x xn) 0 | None => 0 end.

Lemma skipn_add {A} a b (l : list A) : skipn a (skipn b l) = skipn (b + a) l.
Proof.
  revert l. induction b as [|b IH]; intros l; cbn [Nat.add]; [reflexivity|].
  destruct l as [|x t]; [destruct a; reflexivity|]. cbn [skipn]. apply IH.
Qed.

Lemma nth_firstn_lt {A} i k (l : list A) d : i < k -> nth i (firstn k l) d = nth i l d.
Proof.
  revert i l. induction k as [|k IH]; intros i l H; [lia|]. destruct l as [|x t]; [destruct i; reflexivity|].
  destruct i as [|i]; cbn; [reflexivity|]. apply IH. lia.
Qed.

Lemma wf_lax_children s k n : wf s -> aget k (nodes s) = Some n ->
  firstn (length (children n)) (skipn (nparents n) (lax s k n)) = map (ew s) (children n).
Proof.
  intros W E. pose proof (wf_node s W k n E) as Hn.
  assert (Hlen : length (lax s k n) = nlegs n) by apply laxes_length.
  pose proof (ni_virt _ _ _ Hn) as Hv. unfold nvirt in Hv.
  assert (Hl1 : length (firstn (length (children n)) (skipn (nparents n) (lax s k n))) = length (children n)).
  { apply firstn_length_le. rewrite skipn_length. nlia. }
  apply nth_ext with (d := 0) (d' := ew s 0).
  - rewrite Hl1, map_length. reflexivity.
  - intros i Hi. rewrite Hl1 in Hi. rewrite nth_firstn_lt by exact Hi. rewrite nth_skipn.
    rewrite (map_nth (ew s) (children n) 0 i).
    set (x := nth i (children n) 0).
    assert (Hx : In x (children n)) by (apply nth_In; exact Hi).
    destruct (wf_child_parent s k n x W E Hx) as (xn & Ex & Epx).
    destruct (ni_par _ _ _ (wf_node s W x xn Ex) k Epx) as (n' & i' & E' & _ & Hni & Hw).
    rewrite E in E'. injection E' as <-.
    rewrite (neighbour_index_child n x (wf_parent_not_child s x xn k n W Ex Epx E)) in Hni.
    pose proof (index_of_nth _ _ (ni_chnd _ _ _ Hn) Hi) as Hidx. change (index_of x (children n) = Some i) in Hidx.
    rewrite Hidx in Hni. cbn in Hni. injection Hni as <-.
    unfold ew. fold x. rewrite Ex. symmetry. exact Hw.
Qed.

Lemma wf_lax_decomp s k n : wf s -> aget k (nodes s) = Some n ->
  lax s k n = firstn (nparents n) (lax s k n) ++ map (ew s) (children n) ++ open_of n (tens s k).
Proof.
  intros W E. rewrite <- (wf_lax_children s k n W E). unfold open_of. fold (lax s k n). unfold nvirt.
  rewrite <- skipn_add. rewrite firstn_skipn. rewrite firstn_skipn. reflexivity.
Qed.

(* conversely, a node whose logical axes have this shape satisfies the edge clause for its children *)
Lemma child_edge_from_decomp n (L A O : list wire) (f : id -> wire) x :
  L = A ++ map f (children n) ++ O -> length A = nparents n -> parent n <> Some x -> In x (children n) ->
  exists i, neighbour_index n x = Some i /\ nth i L 0 = f x.
Proof.
  intros HL HA Hp Hx. destruct (index_of_In x (children n) Hx) as [j Hj].
  exists (nparents n + j). split.
  - rewrite (neighbour_index_child n x Hp), Hj. reflexivity.
  - apply index_of_Some in Hj. destruct Hj as [Hj1 Hj2].
    rewrite HL, <- HA. rewrite app_nth2 by lia. replace (length A + j - length A) with j by lia.
    rewrite app_nth1 by (rewrite map_length; exact Hj1).
    rewrite (nth_indep _ 0 (f 0)) by (rewrite map_length; exact Hj1). rewrite map_nth. f_equal. exact Hj2.
Qed.

(* ---- replace_first ----------------------------------------------------------------------------------- *)
Lemma replace_first_length x y l : length (replace_first x y l) = length l.
Proof. induction l as [|z t IH]; cbn; [reflexivity|]. destruct (Nat.eqb x z); cbn; [reflexivity|]. f_equal. exact IH. Qed.

Lemma replace_first_In x y l : In x l -> In y (replace_first x y l).
Proof.
  induction l as [|z t IH]; [intros []|]. intros H. cbn. destruct (Nat.eqb_spec x z) as [->|Hne]; [left; reflexivity|].
  destruct H as [->|H]; [congruence|]. right. apply IH. exact H.
Qed.

Lemma replace_first_In_other x y l k : k <> x -> In k l -> In k (replace_first x y l).
Proof.
  intros Hk. induction l as [|z t IH]; [intros []|]. intros H. cbn. destruct (Nat.eqb_spec x z) as [->|Hne].
  - destruct H as [->|H]; [congruence|]. right. exact H.
  - destruct H as [->|H]; [left; reflexivity|right; apply IH; exact H].
Qed.

Lemma replace_first_In_inv x y l k : NoDup l -> In k (replace_first x y l) -> k = y \/ (In k l /\ k <> x).
Proof.
  induction l as [|z t IH]; [intros _ []|]. intros Hnd H. inversion Hnd as [|? ? Hni Hnd']; subst. cbn in H.
  destruct (Nat.eqb_spec x z) as [->|Hne].
  - destruct H as [<-|H]; [left; reflexivity|]. right. split; [right; exact H|]. intros ->. contradiction.
  - destruct H as [<-|H]; [right; split; [left; reflexivity|congruence]|].
    destruct (IH Hnd' H) as [->|[H1 H2]]; [left; reflexivity|right; split; [right; exact H1|exact H2]].
Qed.

Lemma replace_first_NoDup x y l : NoDup l -> (~ In y l \/ y = x) -> NoDup (replace_first x y l).
Proof.
  intros Hnd [Hy | ->]; [|rewrite replace_first_same; exact Hnd].
  induction l as [|z t IH]; cbn; [constructor|]. inversion Hnd as [|? ? Hni Hnd']; subst.
  destruct (Nat.eqb_spec x z) as [->|Hne].
  - constructor; [|exact Hnd']. intros H. apply Hy. right. exact H.
  - constructor.
    + intros H. apply replace_first_In_inv in H; [|exact Hnd']. destruct H as [->|[H _]]; [apply Hy; left; reflexivity|contradiction].
    + apply IH; [exact Hnd'|]. intros H. apply Hy. right. exact H.
Qed.

Lemma index_of_replace_first_new x y l : (~ In y l \/ y = x) -> index_of y (replace_first x y l) = index_of x l.
Proof.
  intros [Hy | ->]; [|rewrite replace_first_same; reflexivity].
  induction l as [|z t IH]; cbn; [reflexivity|].
  destruct (Nat.eqb_spec x z) as [->|Hne]; cbn.
  - rewrite Nat.eqb_refl. reflexivity.
  - destruct (Nat.eqb_spec y z) as [->|Hyz]; [exfalso; apply Hy; left; reflexivity|].
    rewrite IH; [reflexivity|]. intros H. apply Hy. right. exact H.
Qed.

Lemma index_of_replace_first_other x y l k : k <> x -> k <> y -> index_of k (replace_first x y l) = index_of k l.
Proof.
  intros Hx Hy. induction l as [|z t IH]; cbn; [reflexivity|].
  destruct (Nat.eqb_spec x z) as [->|Hne]; cbn.
  - destruct (Nat.eqb_spec k y); [congruence|]. destruct (Nat.eqb_spec k z); [congruence|]. reflexivity.
  - destruct (Nat.eqb k z); [reflexivity|]. rewrite IH. reflexivity.
Qed.

Lemma remove_first_NoDup x l : NoDup l -> NoDup (remove_first x l) /\ ~ In x (remove_first x l).
Proof.
  intros Hnd. rewrite (remove_first_filter x l Hnd). split; [apply NoDup_filter; exact Hnd|].
  intros H. apply filter_In in H. destruct H as [_ H]. rewrite Nat.eqb_refl in H. discriminate.
Qed.

Lemma remove_first_In x l k : In k (remove_first x l) -> In k l.
Proof.
  induction l as [|z t IH]; cbn; [auto|]. destruct (Nat.eqb x z); [intros H; right; exact H|].
  intros [->|H]; [left; reflexivity|right; apply IH; exact H].
Qed.

Lemma remove_first_In_other x l k : k <> x -> In k l -> In k (remove_first x l).
Proof.
  intros Hk. induction l as [|z t IH]; [intros []|]. cbn. destruct (Nat.eqb_spec x z) as [->|Hne].
  - intros [->|H]; [congruence|exact H].
  - intros [->|H]; [left; reflexivity|right; apply IH; exact H].
Qed.

Lemma index_of_split x l j : index_of x l = Some j ->
  exists l1 l2, l = l1 ++ x :: l2 /\ length l1 = j /\ ~ In x l1.
Proof.
  revert j. induction l as [|z t IH]; intros j; cbn; [discriminate|].
  destruct (Nat.eqb_spec x z) as [->|Hne].
  - intros [= <-]. exists [], t. repeat split. intros [].
  - destruct (index_of x t) as [i|]; [|discriminate]. intros [= <-].
    destruct (IH i eq_refl) as (l1 & l2 & -> & Hl & Hni). exists (z :: l1), l2. repeat split; [cbn; lia|].
    intros [E|H]; [congruence|contradiction].
Qed.


(* ---- the contracted tensor and the new node's logical axes, in segments -------------------------------- *)
Lemma map_nth_seq_at {A} (d : A) l a b c st k :
  l = a ++ b ++ c -> st = length a -> k = length b -> map (fun i => nth i l d) (seq st k) = b.
Proof. intros -> -> ->. apply map_nth_seq_mid. Qed.

Lemma ccn_laxes first (P0 PC PO CC CO : list wire) lp :
  lp - 1 = length P0 + length PC + length PO ->
  map (fun i => nth i (P0 ++ PC ++ PO ++ CC ++ CO) 0)
      (ccn_perm first (length P0) (length PC) (length CC) (length PO) (length CO) lp)
  = P0 ++ (if first then PC ++ CC ++ PO ++ CO else CC ++ PC ++ CO ++ PO).
Proof.
  intros Hlp. set (L := P0 ++ PC ++ PO ++ CC ++ CO).
  assert (S0 : map (fun i => nth i L 0) (seq 0 (length P0)) = P0).
  { apply (map_nth_seq_at 0 L [] P0 (PC ++ PO ++ CC ++ CO)); reflexivity. }
  assert (S1 : map (fun i => nth i L 0) (seq (length P0) (length PC)) = PC).
  { apply (map_nth_seq_at 0 L P0 PC (PO ++ CC ++ CO)); reflexivity. }
  assert (S2 : map (fun i => nth i L 0) (seq (length P0 + length PC) (length PO)) = PO).
  { apply (map_nth_seq_at 0 L (P0 ++ PC) PO (CC ++ CO)); [unfold L; rewrite <- !app_assoc; reflexivity|rewrite app_length; reflexivity|reflexivity]. }
  assert (S3 : map (fun i => nth i L 0) (seq (lp - 1) (length CC)) = CC).
  { apply (map_nth_seq_at 0 L (P0 ++ PC ++ PO) CC CO); [unfold L; rewrite <- !app_assoc; reflexivity|rewrite !app_length; lia|reflexivity]. }
  assert (S4 : map (fun i => nth i L 0) (seq (lp - 1 + length CC) (length CO)) = CO).
  { apply (map_nth_seq_at 0 L (P0 ++ PC ++ PO ++ CC) CO []); [unfold L; rewrite app_nil_r, <- !app_assoc; reflexivity|rewrite !app_length; lia|reflexivity]. }
  unfold ccn_perm. destruct first; rewrite !map_app, S0, S1, S2, S3, S4; reflexivity.
Qed.

Lemma lax_identity s k n : wf s -> aget k (nodes s) = Some n -> perm n = seq 0 (nlegs n) -> lax s k n = axes (tens s k).
Proof.
  intros W E Hp. unfold lax, laxes. rewrite Hp, <- (wf_axes_length s k n W E). apply permute_seq.
Qed.

Lemma contract_segments s p c pn cn ax nt :
  wf s -> aget p (nodes s) = Some pn -> aget c (nodes s) = Some cn -> parent cn = Some p ->
  perm pn = seq 0 (nlegs pn) -> perm cn = seq 0 (nlegs cn) ->
  neighbour_index pn c = Some ax -> s_tensordot (tens s p) (tens s c) ax 0 = Some nt ->
  exists P0 ch1 ch2,
    children pn = ch1 ++ c :: ch2 /\ ~ In c ch1 /\
    lax s p pn = P0 ++ map (ew s) (children pn) ++ open_of pn (tens s p) /\ length P0 = nparents pn /\
    P0 = firstn (nparents pn) (lax s p pn) /\
    lax s c cn = ew s c :: map (ew s) (children cn) ++ open_of cn (tens s c) /\
    axes nt = P0 ++ map (ew s) (ch1 ++ ch2) ++ open_of pn (tens s p) ++ map (ew s) (children cn) ++ open_of cn (tens s c) /\
    atoms nt = atoms (tens s p) ++ atoms (tens s c) /\ bnd nt = ew s c :: bnd (tens s p) ++ bnd (tens s c) /\
    axes (tens s p) = lax s p pn /\ axes (tens s c) = lax s c cn.
Proof.
  intros W Ep Ec Hpc Pp Pc Hax Htd.
  pose proof (lax_identity s p pn W Ep Pp) as HLp. pose proof (lax_identity s c cn W Ec Pc) as HLc.
  pose proof (wf_lax_decomp s p pn W Ep) as Dp. pose proof (wf_lax_decomp s c cn W Ec) as Dc.
  set (P0 := firstn (nparents pn) (lax s p pn)) in *.
  pose proof (wf_node s W p pn Ep) as Hnp. pose proof (wf_node s W c cn Ec) as Hnc.
  assert (HlenP0 : length P0 = nparents pn).
  { unfold P0. apply firstn_length_le. unfold lax. rewrite laxes_length. pose proof (ni_virt _ _ _ Hnp) as Hv. unfold nvirt in Hv. lia. }
  assert (Hc1 : firstn (nparents cn) (lax s c cn) = [ew s c]).
  { unfold ew. rewrite Ec. unfold nparents. rewrite Hpc.
    pose proof (laxes_length cn (tens s c)) as Hl. fold (lax s c cn) in Hl.
    pose proof (ni_virt _ _ _ Hnc) as Hv. unfold nvirt, nparents in Hv. rewrite Hpc in Hv.
    destruct (lax s c cn) as [|x t]; [cbn in Hl; lia|reflexivity]. }
  rewrite Hc1 in Dc. cbn [app] in Dc.
  assert (Hppc : parent pn <> Some c) by apply (wf_parent_not_child s c cn p pn W Ec Hpc Ep).
  rewrite (neighbour_index_child pn c Hppc) in Hax.
  destruct (index_of c (children pn)) as [j|] eqn:Ej; [|discriminate]. cbn in Hax. injection Hax as <-.
  destruct (index_of_split c (children pn) j Ej) as (ch1 & ch2 & Hch & Hl1 & Hni).
  exists P0, ch1, ch2.
  unfold s_tensordot in Htd. rewrite <- HLp, <- HLc in Htd.
  assert (HLp2 : lax s p pn = (P0 ++ map (ew s) ch1) ++ ew s c :: (map (ew s) ch2 ++ open_of pn (tens s p))).
  { rewrite Dp at 1. rewrite Hch, map_app. cbn [map]. rewrite <- !app_assoc. reflexivity. }
  rewrite HLp2 in Htd at 1.
  replace (nparents pn + j) with (length (P0 ++ map (ew s) ch1)) in Htd by (rewrite app_length, map_length; nlia).
  rewrite pop_app in Htd. rewrite Dc in Htd at 1. cbn [pop] in Htd. rewrite Nat.eqb_refl in Htd.
  injection Htd as <-. cbn [axes atoms bnd].
  repeat split; auto.
  rewrite map_app, <- !app_assoc. reflexivity.
Qed.
