(* contract_nodes preserves the store invariant; diagram totals and the open-leg rule. *)
From Coq Require Import List Arith Bool Lia Permutation.
From PTN Require Import TTN.Store TTN.StoreProofs TTN.Inv TTN.InvProofs TTN.InvNode.
Import ListNotations.

(* ---- the node record built by create_contracted_node ------------------------------------------------ *)
Lemma move_0_0 {A} (l l' : list A) : move 0 0 l = Some l' -> l' = l.
Proof. destruct l as [|x t]; cbn; [discriminate|]. intros [= <-]. reflexivity. Qed.

Lemma remove_first_length x l : In x l -> S (length (remove_first x l)) = length l.
Proof. intros H. apply remove_first_perm in H. apply Permutation_length in H. cbn in H. lia. Qed.

Lemma seq_nth_map N (is : list nat) : (forall i, In i is -> i < N) -> map (fun i => nth i (seq 0 N) 0) is = is.
Proof.
  intros H. rewrite <- (map_id is) at 2. apply map_ext_in. intros i Hi. rewrite seq_nth by (apply H; exact Hi). reflexivity.
Qed.

Definition ccn_perm (first : bool) (np npch ncc op oc lp : nat) : list nat :=
  seq 0 np ++
  (if first then seq np npch ++ seq (lp - 1) ncc ++ seq (np + npch) op ++ seq (lp - 1 + ncc) oc
   else seq (lp - 1) ncc ++ seq np npch ++ seq (lp - 1 + ncc) oc ++ seq (np + npch) op).

Lemma ccn_spec shp pn cn c first nn :
  create_contracted_node shp pn cn c first = Some nn ->
  In c (children pn) -> nvirt pn <= nlegs pn -> nvirt cn <= nlegs cn -> nparents cn = 1 ->
  length shp = (nlegs pn - 1) + (nlegs cn - 1) ->
  let pch := remove_first c (children pn) in
  parent nn = parent pn /\ shape nn = shp /\
  children nn = (if first then pch ++ children cn else children cn ++ pch) /\
  perm nn = ccn_perm first (nparents pn) (length pch) (length (children cn)) (nopen pn) (nopen cn) (nlegs pn).
Proof.
  intros H Hc Hvp Hvc Hpc Hlen. unfold create_contracted_node in H. cbv zeta in H |- *.
  set (pch := remove_first c (children pn)) in *.
  set (N := length shp) in *.
  set (np := nparents pn) in *. set (lp := nlegs pn) in *. set (lc := nlegs cn) in *.
  set (cc := children cn) in *.
  assert (Hpch : S (length pch) = length (children pn)) by (apply remove_first_length; exact Hc).
  assert (Eop : lp = np + S (length pch) + nopen pn).
  { unfold nopen. fold lp. unfold nvirt in *. fold np in Hvp |- *. lia. }
  assert (Eoc : lc = 1 + length cc + nopen cn).
  { unfold nopen. fold lc. unfold nvirt in *. rewrite Hpc in *. fold cc in Hvc |- *. lia. }
  set (op := nopen pn) in *. set (oc := nopen cn) in *.
  assert (EN : N = np + length pch + op + length cc + oc) by lia.
  (* n1 *)
  match type of H with match ?r with _ => _ end = _ => destruct r as [n1|] eqn:E1; [|discriminate] end.
  assert (Hn1 : parent n1 = parent pn /\ children n1 = [] /\ perm n1 = seq 0 N /\ shape n1 = shp).
  { destruct (parent pn) as [pp|] eqn:Epp.
    - unfold open_leg_to_parent in E1. cbn in E1.
      destruct (open_leg_ok (new_node shp) 0); cbn in E1; [|discriminate].
      destruct (move 0 0 (seq 0 (length shp))) as [q|] eqn:Em; [|discriminate].
      apply move_0_0 in Em. subst q. injection E1 as <-. cbn. auto.
    - injection E1 as <-. cbn. auto. }
  destruct Hn1 as (P1 & P2 & P3 & P4).
  assert (Hv1 : nvirt n1 = np).
  { unfold nvirt. rewrite P2. cbn. unfold nparents. rewrite P1. fold (nparents pn). fold np. lia. }
  assert (Hwf1 : node_wf n1).
  { split; [rewrite P3, P4; reflexivity|]. rewrite Hv1. unfold nlegs. rewrite P3, seq_length. lia. }
  set (pd := enum_from np pch) in *. set (cd := enum_from (lp - 1) cc) in *.
  set (d := if first then pd ++ cd else cd ++ pd) in *.
  destruct (open_legs_to_children n1 d) as [n2|] eqn:E2; [|discriminate].
  assert (Hlegs : map snd d = if first then seq np (length pch) ++ seq (lp - 1) (length cc)
                              else seq (lp - 1) (length cc) ++ seq np (length pch)).
  { unfold d, pd, cd. destruct first; rewrite map_app, !enum_from_snd; reflexivity. }
  assert (Hids : map fst d = if first then pch ++ cc else cc ++ pch).
  { unfold d, pd, cd. destruct first; rewrite map_app, !enum_from_fst; reflexivity. }
  assert (Hinlegs : forall x, In x (map snd d) <-> (np <= x < np + length pch \/ lp - 1 <= x < lp - 1 + length cc)).
  { intros x. rewrite Hlegs. destruct first; rewrite in_app_iff, !in_seq; tauto. }
  assert (Hndl : NoDup (map snd d)).
  { rewrite Hlegs. destruct first; apply NoDup_app_iff; repeat split; try apply seq_NoDup;
      intros x Hx Hy; apply in_seq in Hx; apply in_seq in Hy; lia. }
  destruct (open_legs_to_children_spec n1 d n2 Hwf1 Hndl E2) as (S1 & S2 & S3 & S4 & S5).
  rewrite P3 in S4. rewrite Hv1 in S4.
  assert (Hvals : map (fun cl : id * nat => nth (snd cl) (seq 0 N) 0) d = map snd d).
  { rewrite <- (map_map snd (fun i => nth i (seq 0 N) 0)). apply seq_nth_map.
    intros i Hi. apply Hinlegs in Hi. lia. }
  rewrite Hvals in S4.
  assert (Hseq : seq 0 N = seq 0 np ++ seq np (length pch) ++ seq (np + length pch) op
                           ++ seq (lp - 1) (length cc) ++ seq (lp - 1 + length cc) oc).
  { rewrite EN. rewrite <- !Nat.add_assoc. rewrite seq_app. f_equal. cbn [Nat.add].
    rewrite seq_app. f_equal. rewrite seq_app. f_equal.
    replace (np + length pch + op) with (lp - 1) by lia. apply seq_app. }
  assert (Hf : firstn np (seq 0 N) = seq 0 np).
  { rewrite Hseq. rewrite <- (seq_length np 0) at 1. apply firstn_app_len. }
  assert (Hs : skipn np (seq 0 N) = seq np (length pch) ++ seq (np + length pch) op
                           ++ seq (lp - 1) (length cc) ++ seq (lp - 1 + length cc) oc).
  { rewrite Hseq. rewrite <- (seq_length np 0) at 1. apply skipn_app_len. }
  assert (Hfilt : filter (fun x => negb (memb x (map snd d))) (skipn np (seq 0 N))
                  = seq (np + length pch) op ++ seq (lp - 1 + length cc) oc).
  { rewrite Hs, !filter_app.
    rewrite (filter_seq_in (map snd d) np) by (intros x Hx; apply Hinlegs; lia).
    rewrite (filter_seq_out (map snd d) (np + length pch)) by (intros x Hx Hi; apply Hinlegs in Hi; lia).
    rewrite (filter_seq_in (map snd d) (lp - 1)) by (intros x Hx; apply Hinlegs; lia).
    rewrite (filter_seq_out (map snd d) (lp - 1 + length cc)) by (intros x Hx Hi; apply Hinlegs in Hi; lia).
    reflexivity. }
  rewrite Hf, Hfilt, Hlegs in S4. rewrite P2, Hids in S3. cbn in S3.
  destruct first.
  - injection H as <-. repeat split.
    + rewrite S1. exact P1.
    + rewrite S2. exact P4.
    + exact S3.
    + rewrite S4. unfold ccn_perm. rewrite <- !app_assoc. reflexivity.
  - unfold exchange_open_leg_ranges in H.
    set (nv := nvirt n2) in *.
    assert (Hnv : nv = np + length cc + length pch).
    { unfold nv, nvirt. rewrite S3, app_length. unfold nparents. rewrite S1, P1. fold (nparents pn). fold np. lia. }
    assert (Hl2 : nlegs n2 = N).
    { unfold nlegs. rewrite S4, !app_length, !seq_length. lia. }
    rewrite Hl2 in H.
    replace (nv + op <? nv) with false in H by (symmetry; apply Nat.ltb_ge; lia).
    replace (nv + op <? nv + op) with false in H by (symmetry; apply Nat.ltb_ge; lia).
    replace (N - (nv + op)) with oc in H by lia.
    set (virt := seq 0 np ++ seq (lp - 1) (length cc) ++ seq np (length pch)) in *.
    set (OP := seq (np + length pch) op) in *. set (OC := seq (lp - 1 + length cc) oc) in *.
    assert (Hvl : length virt = nv).
    { unfold virt. rewrite !app_length, !seq_length. lia. }
    assert (HP2 : perm n2 = (virt ++ OP) ++ OC ++ []).
    { rewrite S4. unfold virt. rewrite app_nil_r, <- !app_assoc. reflexivity. }
    rewrite HP2 in H.
    replace oc with (length OC) in H at 1 by (unfold OC; apply seq_length).
    replace (nv + op) with (length (virt ++ OP)) in H at 1 by (rewrite app_length; unfold OP; rewrite seq_length; lia).
    rewrite pop_n_app in H. rewrite app_nil_r in H.
    replace op with (length OP) in H at 1 by (unfold OP; apply seq_length).
    rewrite <- Hvl in H at 1. rewrite <- (app_nil_r (virt ++ OP)) in H. rewrite <- app_assoc in H.
    rewrite pop_n_app in H. rewrite app_nil_r in H.
    rewrite <- Hvl in H at 1. rewrite insert_list_end in H.
    replace (nv + oc + (nv + op - (nv + op))) with (length (virt ++ OC)) in H
      by (rewrite app_length; unfold OC; rewrite seq_length; lia).
    rewrite insert_list_end in H. injection H as <-. cbn. repeat split.
    + rewrite S1. exact P1.
    + rewrite S2. exact P4.
    + exact S3.
    + unfold ccn_perm, virt. rewrite <- !app_assoc. reflexivity.
Qed.
