(* Preservation of the store invariant (TTN/Inv.v) by the editing operations of the Layer-W
   model: replace_tensor, rename (change_node_identifier), insert_identity.  For each operation:
   an inversion lemma, the invariant, and the diagram totals (atoms, wire ends, open wires) and
   the logical view of every node. *)
From Coq Require Import List Arith Bool Lia Permutation.
From PTN Require Import TTN.Store TTN.StoreProofs TTN.Inv TTN.InvProofs.
Import ListNotations.

(* ================================================================================================ *)
(* ---- general list helpers ------------------------------------------------------------------- *)
(* ================================================================================================ *)

Lemma permute_permute {A} (d : A) p q (l : list A) :
  (forall i, In i p -> i < length q) -> permute d p (permute d q l) = permute d (permute 0 p q) l.
Proof.
  intros H. unfold permute. rewrite map_map. apply map_ext_in. intros i Hi.
  rewrite (nth_indep _ d ((fun j => nth j l d) 0)) by (rewrite map_length; apply H; exact Hi).
  apply (map_nth (fun j => nth j l d)).
Qed.

Lemma NoDup_incl_perm_seq p n : NoDup p -> length p = n -> (forall i, In i p -> i < n) -> Permutation p (seq 0 n).
Proof.
  intros Hnd Hl Hb. apply NoDup_Permutation_bis; [exact Hnd|rewrite seq_length; lia|].
  intros i Hi. apply in_seq. specialize (Hb i Hi). lia.
Qed.

Lemma forallb_ltb_spec p n : forallb (fun i => Nat.ltb i n) p = true <-> (forall i, In i p -> i < n).
Proof.
  rewrite forallb_forall. split; intros H i Hi; specialize (H i Hi); [apply Nat.ltb_lt|apply Nat.ltb_lt]; exact H.
Qed.

(* ================================================================================================ *)
(* ---- 1. replace_tensor ------------------------------------------------------------------------- *)
(* ================================================================================================ *)

(* The code only compares dimensions: a transposition of two legs of equal dimension is accepted
   without a compensating permutation, and the wires end up on the wrong legs. *)
Example replace_tensor_wfb_counterexample :
  let s := fst (run empty_store [AddRoot 0 [2; 2]; AddChild 1 [2; 3] 0 0 0]) in
  wfb s = true /\
  match replace_tensor s 0 [1; 0] None with
  | Some s' => wfb s' = false
  | None => False
  end.
Proof. vm_compute. split; reflexivity. Qed.

Definition inverse_of (pp q : list nat) : Prop := permute 0 pp q = seq 0 (length q).

Definition rt_perm (q : list nat) (p : option (list nat)) : list nat :=
  match p with Some p' => p' | None => seq 0 (length q) end.

Lemma replace_tensor_inv s n q p s' :
  replace_tensor s n q p = Some s' ->
  exists nd t nd',
    aget n (nodes s) = Some nd /\ aget n (tensors s) = Some t /\
    Permutation q (seq 0 (length q)) /\ length q = length (perm nd) /\
    parent nd' = parent nd /\ children nd' = children nd /\
    perm nd' = rt_perm q p /\
    shape nd' = map (wdim s) (axes (s_transpose q (s_transpose (perm nd) t))) /\
    (forall i, In i (perm nd') -> i < length q) /\
    permute 0 (perm nd') (shape nd') = node_shape nd /\
    s' = upd_tensors (upd_nodes s (aset n nd')) (aset n (s_transpose q (s_transpose (perm nd) t))).
Proof.
  unfold replace_tensor, logical. destruct (aget n (nodes s)) as [nd|] eqn:En; [|discriminate].
  destruct (aget n (tensors s)) as [t|] eqn:Et; [|discriminate].
  destruct (is_perm_of_seq q && Nat.eqb (length q) (length (axes (s_transpose (perm nd) t)))) eqn:Hc; cbn [negb]; [|discriminate].
  apply andb_true_iff in Hc. destruct Hc as [Hq Hl]. apply is_perm_of_seq_spec in Hq. apply Nat.eqb_eq in Hl.
  cbn [s_transpose axes] in Hl. rewrite permute_length in Hl.
  set (nt := s_transpose q (s_transpose (perm nd) t)).
  assert (Hlt : length (map (wdim s) (axes nt)) = length q).
  { rewrite map_length. unfold nt. cbn. apply permute_length. }
  destruct (node_replace_tensor nd (map (wdim s) (axes nt)) p) as [nd'|] eqn:Hr; [|discriminate].
  intros [= <-]. exists nd, t, nd'. unfold node_replace_tensor in Hr. destruct p as [pq|].
  - destruct (forallb (fun i => Nat.ltb i (length (map (wdim s) (axes nt)))) pq && list_eqb (permute 0 pq (map (wdim s) (axes nt))) (node_shape nd)) eqn:Hc; [|discriminate].
    injection Hr as <-. apply andb_true_iff in Hc. destruct Hc as [Hb He]. apply list_eqb_eq in He.
    rewrite Hlt in Hb. pose proof (proj1 (forallb_ltb_spec _ _) Hb) as Hb2. cbn. repeat split; auto.
  - destruct (list_eqb (node_shape nd) (map (wdim s) (axes nt))) eqn:He; [|discriminate].
    injection Hr as <-. apply list_eqb_eq in He. cbn. repeat split; auto.
    + intros i Hi. apply in_seq in Hi. lia.
    + apply (reset_permutation_shape nd).
Qed.

(* with p inverting q the logical axes are unchanged *)
Lemma replace_tensor_laxes q pp nd nd' t :
  inverse_of pp q -> perm nd' = pp -> (forall i, In i pp -> i < length q) ->
  length q = length (perm nd) ->
  laxes nd' (s_transpose q (s_transpose (perm nd) t)) = laxes nd t.
Proof.
  intros Hinv Hp Hb Hl. unfold laxes. cbn [s_transpose axes]. rewrite Hp.
  rewrite permute_permute by exact Hb. rewrite Hinv.
  rewrite <- (permute_length 0 (perm nd) (axes t)) in Hl. rewrite Hl. apply permute_seq.
Qed.

Lemma inverse_of_perm pp q :
  inverse_of pp q -> (forall i, In i pp -> i < length q) -> Permutation pp (seq 0 (length q)).
Proof.
  intros Hinv Hb. unfold inverse_of, permute in Hinv.
  apply NoDup_incl_perm_seq; [|apply (f_equal (@length nat)) in Hinv; rewrite map_length, seq_length in Hinv; exact Hinv|exact Hb].
  apply (NoDup_map_inv (fun i => nth i q 0)). rewrite Hinv. apply seq_NoDup.
Qed.

(* the facts shared by all replace_tensor theorems *)
Lemma replace_tensor_facts s n q p s' :
  wf s -> replace_tensor s n q p = Some s' -> inverse_of (rt_perm q p) q ->
  exists nd t nd' t',
    aget n (nodes s) = Some nd /\ aget n (tensors s) = Some t /\
    s' = upd_tensors (upd_nodes s (aset n nd')) (aset n t') /\
    parent nd' = parent nd /\ children nd' = children nd /\ laxes nd' t' = laxes nd t /\
    Permutation (perm nd') (seq 0 (length (shape nd'))) /\ shape nd' = map (wdim s) (axes t') /\
    incl (axes t') (axes t) /\ atoms t' = atoms t /\ bnd t' = bnd t /\ Permutation (axes t') (axes t).
Proof.
  intros H Hr Hinv. destruct (replace_tensor_inv _ _ _ _ _ Hr) as (nd & t & nd' & En & Et & Hq & Hl & Hp & Hc & Hpm & Hsh & Hb & _ & ->).
  exists nd, t, nd', (s_transpose q (s_transpose (perm nd) t)).
  pose proof (wf_node s H n nd En) as Hn.
  assert (Hlen : length (shape nd) = length (axes t)).
  { rewrite (ni_shape _ _ _ Hn), (tens_aget _ _ _ Et), map_length. reflexivity. }
  assert (Hb1 : forall i, In i (perm nd) -> i < length (axes t)).
  { rewrite <- Hlen. apply perm_bound. apply (ni_perm _ _ _ Hn). }
  assert (Hb2 : forall i, In i q -> i < length (permute 0 (perm nd) (axes t))).
  { rewrite permute_length, <- Hl. apply perm_bound. exact Hq. }
  rewrite Hpm in Hb.
  repeat split; auto.
  - apply replace_tensor_laxes with (pp := rt_perm q p); auto.
  - rewrite Hsh, map_length. cbn [s_transpose axes]. rewrite permute_length, Hpm.
    apply inverse_of_perm; assumption.
  - cbn [s_transpose axes]. intros x Hx. apply (permute_incl 0 _ _ Hb2) in Hx. apply (permute_incl 0 _ _ Hb1) in Hx. exact Hx.
  - cbn [s_transpose axes]. rewrite permute_is_perm.
    + apply permute_is_perm. rewrite <- Hlen. apply (ni_perm _ _ _ Hn).
    + rewrite permute_length, <- Hl. exact Hq.
Qed.

Theorem replace_tensor_preserves_wf s n q p s' :
  wf s -> replace_tensor s n q p = Some s' ->
  inverse_of (match p with Some p' => p' | None => seq 0 (length q) end) q -> wf s'.
Proof.
  intros H Hr Hinv.
  destruct (replace_tensor_facts _ _ _ _ _ H Hr Hinv) as (nd & t & nd' & t' & En & Et & -> & Hp & Hc & Hl & Hpm & Hsh & Hi & _).
  apply (wf_update_node s n nd t); assumption.
Qed.

Theorem replace_tensor_preserves_wfb s n q p s' :
  wfb s = true -> replace_tensor s n q p = Some s' ->
  inverse_of (match p with Some p' => p' | None => seq 0 (length q) end) q -> wfb s' = true.
Proof. intros H Hr Hinv. apply wfb_iff. eapply replace_tensor_preserves_wf; [apply wfb_iff; exact H|exact Hr|exact Hinv]. Qed.

Theorem replace_tensor_total_atoms s n q p s' :
  wf s -> replace_tensor s n q p = Some s' ->
  inverse_of (match p with Some p' => p' | None => seq 0 (length q) end) q -> total_atoms s' = total_atoms s.
Proof.
  intros H Hr Hinv.
  destruct (replace_tensor_facts _ _ _ _ _ H Hr Hinv) as (nd & t & nd' & t' & En & Et & -> & Hp & Hc & Hl & Hpm & Hsh & Hi & Hat & Hbd & Hax).
  unfold total_atoms. cbn. apply (flat_map_aset_eq _ _ n _ t); auto. apply (wf_tnd s H).
Qed.

Theorem replace_tensor_total_ends s n q p s' :
  wf s -> replace_tensor s n q p = Some s' ->
  inverse_of (match p with Some p' => p' | None => seq 0 (length q) end) q -> Permutation (total_ends s') (total_ends s).
Proof.
  intros H Hr Hinv.
  destruct (replace_tensor_facts _ _ _ _ _ H Hr Hinv) as (nd & t & nd' & t' & En & Et & -> & Hp & Hc & Hl & Hpm & Hsh & Hi & Hat & Hbd & Hax).
  unfold total_ends. cbn. apply (flat_map_aset_perm _ _ n _ t); auto; [apply (wf_tnd s H)|].
  cbn. unfold sarr_ends. rewrite Hbd. apply Permutation_app_tail. exact Hax.
Qed.

Theorem replace_tensor_open_wires s n q p s' :
  wf s -> replace_tensor s n q p = Some s' ->
  inverse_of (match p with Some p' => p' | None => seq 0 (length q) end) q -> open_wires s' = open_wires s.
Proof.
  intros H Hr Hinv.
  destruct (replace_tensor_facts _ _ _ _ _ H Hr Hinv) as (nd & t & nd' & t' & En & Et & -> & Hp & Hc & Hl & Hpm & Hsh & Hi & Hat & Hbd & Hax).
  unfold open_wires. cbn [nodes upd_tensors upd_nodes].
  apply (flat_map_aset_eq _ _ n _ nd); auto; [apply (wf_nd s H)| |].
  - unfold node_open, tens. cbn. rewrite aget_aset_same, Et. apply open_of_ext; auto.
  - intros k2 v2 Hne. unfold node_open, tens. cbn. rewrite aget_aset_other by exact Hne. reflexivity.
Qed.

(* every node keeps parent, children and logical axes *)
Theorem replace_tensor_lax s n q p s' k nk :
  wf s -> replace_tensor s n q p = Some s' ->
  inverse_of (match p with Some p' => p' | None => seq 0 (length q) end) q ->
  aget k (nodes s) = Some nk ->
  exists nk', aget k (nodes s') = Some nk' /\ parent nk' = parent nk /\ children nk' = children nk /\ lax s' k nk' = lax s k nk.
Proof.
  intros H Hr Hinv E.
  destruct (replace_tensor_facts _ _ _ _ _ H Hr Hinv) as (nd & t & nd' & t' & En & Et & -> & Hp & Hc & Hl & Hpm & Hsh & Hi & Hat & Hbd & Hax).
  cbn. rewrite aget_aset. unfold lax, tens. cbn. rewrite aget_aset. destruct (Nat.eqb_spec k n) as [->|Hne].
  - rewrite E in En. injection En as <-. exists nd'. rewrite Et. repeat split; auto.
  - exists nk. auto.
Qed.

(* the resulting logical axes in terms of q and p, without the inverse hypothesis *)
Theorem replace_tensor_new_lax s n q p s' nd :
  wf s -> replace_tensor s n q p = Some s' -> aget n (nodes s) = Some nd ->
  exists nd', aget n (nodes s') = Some nd' /\ parent nd' = parent nd /\ children nd' = children nd /\
              lax s' n nd' = permute 0 (match p with Some p' => p' | None => seq 0 (length q) end) (permute 0 q (lax s n nd)).
Proof.
  intros H Hr En0. destruct (replace_tensor_inv _ _ _ _ _ Hr) as (nd0 & t & nd' & En & Et & Hq & Hl & Hp & Hc & Hpm & Hsh & Hb & _ & ->).
  rewrite En0 in En. injection En as <-. exists nd'. cbn. rewrite aget_aset_same. repeat split; auto.
  unfold lax, tens. cbn. rewrite aget_aset_same, Et. unfold laxes. cbn. rewrite Hpm. reflexivity.
Qed.

(* ================================================================================================ *)
(* ---- more helpers: association lists, replace_first, index_of --------------------------------- *)
(* ================================================================================================ *)
Section AssocMore.
  Context {V : Type}.
  Implicit Types (l : list (nat * V)) (k : nat) (v : V).

  Lemma akeys_adel k l : akeys (adel k l) = remove_first k (akeys l).
  Proof.
    induction l as [|[k2 v2] t IH]; cbn; [reflexivity|].
    destruct (Nat.eqb k k2); cbn; [reflexivity|]. f_equal. exact IH.
  Qed.

  Lemma aset_fresh k v l : aget k l = None -> aset k v l = l ++ [(k, v)].
  Proof.
    induction l as [|[k2 v2] t IH]; cbn; [reflexivity|].
    destruct (Nat.eqb k k2); [discriminate|]. intros H. f_equal. apply IH. exact H.
  Qed.

  Lemma adel_aset k v l : adel k (aset k v l) = adel k l.
  Proof.
    induction l as [|[k2 v2] t IH]; cbn.
    - rewrite Nat.eqb_refl. reflexivity.
    - destruct (Nat.eqb_spec k k2) as [->|Hne]; cbn.
      + rewrite Nat.eqb_refl. reflexivity.
      + destruct (Nat.eqb_spec k k2); [congruence|]. f_equal. exact IH.
  Qed.

  Lemma adel_aset_other k k' v l : k <> k' -> amem k' l = true -> adel k (aset k' v l) = aset k' v (adel k l).
  Proof.
    intros Hne. unfold amem. induction l as [|[k2 v2] t IH]; cbn; [discriminate|].
    destruct (Nat.eqb_spec k' k2) as [->|Hne2]; cbn.
    - destruct (Nat.eqb_spec k k2); [congruence|]. cbn. rewrite Nat.eqb_refl. reflexivity.
    - intros Hm. destruct (Nat.eqb_spec k k2) as [->|Hne3]; cbn.
      + (* k2 removed; k' must still be set in the tail *) reflexivity.
      + destruct (Nat.eqb_spec k' k2); [congruence|]. f_equal. apply IH. exact Hm.
  Qed.

  Lemma akeys_aset_amem k v l : amem k l = true -> akeys (aset k v l) = akeys l.
  Proof. intros H. rewrite akeys_aset, H. reflexivity. Qed.

  Lemma amem_aset k k' v l : amem k (aset k' v l) = Nat.eqb k k' || amem k l.
  Proof. unfold amem. rewrite aget_aset. destruct (Nat.eqb k k'); reflexivity. Qed.

  Lemma amem_false k l : amem k l = false <-> aget k l = None.
  Proof. unfold amem. destruct (aget k l); split; congruence. Qed.

  (* the removed entry can be put in front, up to permutation *)
  Lemma flat_map_adel_perm {W} (f : nat * V -> list W) k v l :
    aget k l = Some v -> Permutation (flat_map f l) (f (k, v) ++ flat_map f (adel k l)).
  Proof.
    induction l as [|[k2 v2] t IH]; cbn; [discriminate|].
    destruct (Nat.eqb_spec k k2) as [->|Hne].
    - intros [= ->]. reflexivity.
    - intros E. cbn. rewrite (IH E). rewrite !app_assoc. apply Permutation_app_tail. apply Permutation_app_comm.
  Qed.

  (* same keys in the same order, pointwise equal images *)
  Lemma flat_map_assoc_eq {V' W} (f : nat * V -> list W) (f' : nat * V' -> list W) l (l' : list (nat * V')) :
    NoDup (akeys l) -> akeys l' = akeys l ->
    (forall k v (u : V'), aget k l = Some v -> aget k l' = Some u -> f' (k, u) = f (k, v)) ->
    flat_map f' l' = flat_map f l.
  Proof.
    revert l'. induction l as [|[k v] t IH]; intros [|[k' u'] t'] Hnd Hk Hpt; cbn in Hk; try discriminate; [reflexivity|].
    injection Hk as -> Hk. inversion Hnd as [|? ? Hni Hnd']; subst. cbn [flat_map]. f_equal.
    - apply Hpt; cbn; rewrite Nat.eqb_refl; reflexivity.
    - apply IH; [exact Hnd'|exact Hk|]. intros k2 v2 v2' E E'.
      assert (k2 <> k) by (intros ->; apply Hni; eapply aget_Some_keys; eauto).
      apply Hpt; cbn; destruct (Nat.eqb_spec k2 k); try congruence.
  Qed.
End AssocMore.

Lemma remove_first_not_in x l : ~ In x l -> remove_first x l = l.
Proof.
  induction l as [|y t IH]; cbn; [reflexivity|]. intros H. destruct (Nat.eqb_spec x y) as [->|Hne].
  - exfalso. apply H. left. reflexivity.
  - f_equal. apply IH. intros Hin. apply H. right. exact Hin.
Qed.

(* renaming one identifier *)
Definition ren1 (old new : id) (x : id) : id := if Nat.eqb x old then new else x.

Lemma ren1_other old new x : x <> old -> ren1 old new x = x.
Proof. unfold ren1. intros H. destruct (Nat.eqb_spec x old); congruence. Qed.

Lemma ren1_same old new : ren1 old new old = new.
Proof. unfold ren1. rewrite Nat.eqb_refl. reflexivity. Qed.

Lemma ren1_id old x : ren1 old old x = x.
Proof. unfold ren1. destruct (Nat.eqb_spec x old); congruence. Qed.

Lemma map_ren1_not_in old new l : ~ In old l -> map (ren1 old new) l = l.
Proof.
  induction l as [|y t IH]; cbn; [reflexivity|]. intros H. rewrite ren1_other by (intros ->; apply H; left; reflexivity).
  f_equal. apply IH. intros Hin. apply H. right. exact Hin.
Qed.

Lemma replace_first_not_in x y l : ~ In x l -> replace_first x y l = l.
Proof.
  induction l as [|z t IH]; cbn; [reflexivity|]. intros H. destruct (Nat.eqb_spec x z) as [->|Hne].
  - exfalso. apply H. left. reflexivity.
  - f_equal. apply IH. intros Hin. apply H. right. exact Hin.
Qed.

(* on a duplicate-free list replace_first is the pointwise renaming *)
Lemma replace_first_map x y l : NoDup l -> replace_first x y l = map (ren1 x y) l.
Proof.
  induction l as [|z t IH]; cbn; [reflexivity|]. intros Hnd. inversion Hnd as [|? ? Hni Hnd']; subst.
  unfold ren1 at 1. rewrite (Nat.eqb_sym z x). destruct (Nat.eqb_spec x z) as [->|Hne].
  - f_equal. symmetry. apply map_ren1_not_in. exact Hni.
  - f_equal. apply IH. exact Hnd'.
Qed.

Lemma replace_first_length x y l : length (replace_first x y l) = length l.
Proof. induction l as [|z t IH]; cbn; [reflexivity|]. destruct (Nat.eqb x z); cbn; congruence. Qed.

Lemma In_replace_first x y l z : In z (replace_first x y l) -> z = y \/ (In z l /\ (NoDup l -> z <> x)).
Proof.
  induction l as [|a t IH]; cbn; [intros []|]. destruct (Nat.eqb_spec x a) as [->|Hne]; cbn.
  - intros [<-|Hin]; [left; reflexivity|]. right. split; [right; exact Hin|].
    intros Hnd ->. inversion Hnd; subst. contradiction.
  - intros [<-|Hin].
    + right. split; [left; reflexivity|]. intros _ ->. congruence.
    + destruct (IH Hin) as [->|[H1 H2]]; [left; reflexivity|]. right. split; [right; exact H1|].
      intros Hnd. inversion Hnd; subst. apply H2. assumption.
Qed.

Lemma In_replace_first_new x y l : In x l -> In y (replace_first x y l).
Proof.
  induction l as [|a t IH]; cbn; [intros []|]. destruct (Nat.eqb_spec x a) as [->|Hne]; cbn.
  - intros _. left. reflexivity.
  - intros [->|Hin]; [congruence|]. right. apply IH. exact Hin.
Qed.

Lemma In_replace_first_other x y l z : In z l -> z <> x -> In z (replace_first x y l).
Proof.
  induction l as [|a t IH]; cbn; [intros []|]. destruct (Nat.eqb_spec x a) as [->|Hne]; cbn.
  - intros [->|Hin] Hz; [congruence|]. right. exact Hin.
  - intros [->|Hin] Hz; [left; reflexivity|]. right. apply IH; assumption.
Qed.

(* index_of under an injective-enough renaming *)
Lemma index_of_map_inj (f : nat -> nat) x l :
  (forall y, In y l -> f y = f x -> y = x) -> index_of (f x) (map f l) = index_of x l.
Proof.
  induction l as [|y t IH]; cbn; [reflexivity|]. intros H.
  destruct (Nat.eqb_spec x y) as [->|Hne].
  - rewrite Nat.eqb_refl. reflexivity.
  - destruct (Nat.eqb_spec (f x) (f y)) as [E|_].
    + exfalso. apply Hne. symmetry. apply H; [left; reflexivity|congruence].
    + rewrite IH; [reflexivity|]. intros z Hz. apply H. right. exact Hz.
Qed.

Lemma index_of_lt x l i : index_of x l = Some i -> i < length l /\ nth i l 0 = x.
Proof.
  revert i. induction l as [|y t IH]; cbn; [discriminate|]. intros i.
  destruct (Nat.eqb_spec x y) as [->|Hne].
  - intros [= <-]. split; [lia|reflexivity].
  - destruct (index_of x t) as [j|]; [|discriminate]. intros [= <-]. destruct (IH j eq_refl). split; [lia|assumption].
Qed.

Lemma index_of_some_in x l : In x l -> exists i, index_of x l = Some i.
Proof.
  induction l as [|y t IH]; cbn; [intros []|]. destruct (Nat.eqb_spec x y) as [->|Hne]; [eauto|].
  intros [->|Hin]; [congruence|]. destruct (IH Hin) as [i ->]. cbn. eauto.
Qed.

(* ================================================================================================ *)
(* ---- replace_node_in_neighbours: general specification ---------------------------------------- *)
(* ================================================================================================ *)
Lemma set_parent_of_aget new l c k :
  aget k (set_parent_of new l c) =
  if Nat.eqb k c then option_map (fun cn => with_parent cn (Some new)) (aget k l) else aget k l.
Proof.
  unfold set_parent_of. destruct (Nat.eqb_spec k c) as [->|Hne].
  - destruct (aget c l) as [cn|] eqn:E; cbn; [apply aget_aset_same|exact E].
  - destruct (aget c l) as [cn|] eqn:E; [apply aget_aset_other; exact Hne|reflexivity].
Qed.

Lemma set_parent_of_keys new l c : akeys (set_parent_of new l c) = akeys l.
Proof.
  unfold set_parent_of. destruct (aget c l) as [cn|] eqn:E; [|reflexivity]. eapply akeys_aset_mem; eauto.
Qed.

Definition set_parents (new : id) (cs : list id) (l : list (id * node)) : list (id * node) :=
  fold_left (fun l c => if Nat.eqb c new then l else set_parent_of new l c) cs l.

Lemma set_parents_keys new cs l : akeys (set_parents new cs l) = akeys l.
Proof.
  unfold set_parents. revert l. induction cs as [|c cs IH]; intros l; cbn [fold_left]; [reflexivity|].
  rewrite IH. destruct (Nat.eqb c new); [reflexivity|apply set_parent_of_keys].
Qed.

Lemma with_parent_idem n x : with_parent (with_parent n x) x = with_parent n x.
Proof. reflexivity. Qed.

Lemma set_parents_aget new cs l k :
  aget k (set_parents new cs l) =
  if memb k cs && negb (Nat.eqb k new) then option_map (fun cn => with_parent cn (Some new)) (aget k l) else aget k l.
Proof.
  unfold set_parents. revert l. induction cs as [|c cs IH]; intros l; cbn [fold_left memb existsb]; [reflexivity|].
  rewrite IH. fold (memb k cs).
  destruct (Nat.eqb_spec c new) as [->|Hcn].
  - destruct (Nat.eqb_spec k new) as [->|Hkn]; cbn.
    + rewrite !andb_false_r. reflexivity.
    + reflexivity.
  - rewrite set_parent_of_aget. destruct (Nat.eqb_spec k c) as [->|Hkc]; cbn.
    + destruct (Nat.eqb_spec c new); [congruence|]. cbn. rewrite andb_true_r.
      destruct (memb c cs); [|reflexivity]. destruct (aget c l); reflexivity.
    + reflexivity.
Qed.

(* what happens to the node stored under k *)
Definition rnin_fix (new old : id) (on : node) (k : id) (nk : node) : node :=
  let nk1 := if memb k (children on) && negb (Nat.eqb k new) then with_parent nk (Some new) else nk in
  if (match parent on with Some p => Nat.eqb k p | None => false end) && negb (Nat.eqb k new)
  then with_children nk1 (replace_first old new (children nk1)) else nk1.

Lemma rnin_fix_perm new old on k nk : perm (rnin_fix new old on k nk) = perm nk /\ shape (rnin_fix new old on k nk) = shape nk.
Proof.
  unfold rnin_fix. destruct (memb k (children on) && negb (Nat.eqb k new));
    destruct ((match parent on with Some p => Nat.eqb k p | None => false end) && negb (Nat.eqb k new)); cbn; auto.
Qed.

Lemma rnin_fix_parent new old on k nk :
  parent (rnin_fix new old on k nk) = if memb k (children on) && negb (Nat.eqb k new) then Some new else parent nk.
Proof.
  unfold rnin_fix. destruct (memb k (children on) && negb (Nat.eqb k new));
    destruct ((match parent on with Some p => Nat.eqb k p | None => false end) && negb (Nat.eqb k new)); cbn; auto.
Qed.

Lemma rnin_fix_children new old on k nk :
  children (rnin_fix new old on k nk) =
  if (match parent on with Some p => Nat.eqb k p | None => false end) && negb (Nat.eqb k new)
  then replace_first old new (children nk) else children nk.
Proof.
  unfold rnin_fix. destruct (memb k (children on) && negb (Nat.eqb k new));
    destruct ((match parent on with Some p => Nat.eqb k p | None => false end) && negb (Nat.eqb k new)); cbn; auto.
Qed.

Lemma replace_node_in_neighbours_same s new del : replace_node_in_neighbours s new new del = Some s.
Proof. unfold replace_node_in_neighbours. rewrite Nat.eqb_refl. reflexivity. Qed.

(* General specification (new may be any identifier different from old, in particular a child or
   the parent of old as in contract_nodes). *)
Theorem replace_node_in_neighbours_spec s new old del s' :
  NoDup (akeys (nodes s)) -> new <> old ->
  replace_node_in_neighbours s new old del = Some s' ->
  exists on,
    aget old (nodes s) = Some on /\
    (forall k, aget k (nodes s') =
               if del && Nat.eqb k old then None else option_map (rnin_fix new old on k) (aget k (nodes s))) /\
    akeys (nodes s') = (if del then remove_first old (akeys (nodes s)) else akeys (nodes s)) /\
    root s' = (match parent on with None => Some new | Some _ => root s end) /\
    (match parent on with
     | Some p => p = new \/ exists pn, aget p (nodes s) = Some pn /\ In old (children pn)
     | None => True end) /\
    tensors s' = tensors s /\ dims s' = dims s /\ next_wire s' = next_wire s /\
    next_atom s' = next_atom s /\ defs s' = defs s /\ atab s' = atab s.
Proof.
  intros Hnd Hne. unfold replace_node_in_neighbours.
  destruct (Nat.eqb_spec new old) as [|_]; [congruence|].
  destruct (aget old (nodes s)) as [on|] eqn:Eo; [|discriminate].
  fold (set_parents new (children on) (nodes s)). set (l1 := set_parents new (children on) (nodes s)).
  assert (K1 : akeys l1 = akeys (nodes s)) by apply set_parents_keys.
  assert (G1 : forall k, aget k l1 = if memb k (children on) && negb (Nat.eqb k new)
                                     then option_map (fun cn => with_parent cn (Some new)) (aget k (nodes s)) else aget k (nodes s))
    by (intros k; apply set_parents_aget).
  (* the final adel step *)
  assert (Fin : forall l2 r,
            akeys l2 = akeys (nodes s) ->
            (forall k, aget k l2 = option_map (rnin_fix new old on k) (aget k (nodes s))) ->
            let s2 := set_root (upd_nodes s (fun _ => if del then adel old l2 else l2)) r in
            (forall k, aget k (nodes s2) = if del && Nat.eqb k old then None else option_map (rnin_fix new old on k) (aget k (nodes s))) /\
            akeys (nodes s2) = (if del then remove_first old (akeys (nodes s)) else akeys (nodes s))).
  { intros l2 r K2 G2. cbn. destruct del; cbn.
    - split.
      + intros k. rewrite aget_adel by (rewrite K2; exact Hnd). destruct (Nat.eqb k old); [reflexivity|apply G2].
      + rewrite akeys_adel, K2. reflexivity.
    - split; [exact G2|exact K2]. }
  destruct (parent on) as [p|] eqn:Ep.
  - destruct (Nat.eqb_spec p new) as [->|Hpn].
    + intros [= <-]. exists on. rewrite Ep.
      destruct (Fin l1 (root s) K1) as [F1 F2].
      { intros k. rewrite G1. unfold rnin_fix. rewrite Ep.
        destruct (Nat.eqb_spec k new) as [->|Hk]; cbn; rewrite ?andb_false_r; cbn.
        - destruct (aget new (nodes s)); reflexivity.
        - rewrite andb_true_r. destruct (memb k (children on)); destruct (aget k (nodes s)); reflexivity. }
      split; [reflexivity|]. split; [exact F1|]. split; [exact F2|]. split; [reflexivity|]. split; [left; reflexivity|].
      cbn. repeat split.
    + destruct (aget p l1) as [pn|] eqn:Epn; [|discriminate].
      destruct (memb old (children pn)) eqn:Hm; [|discriminate].
      intros [= <-]. exists on. rewrite Ep.
      set (l2 := aset p (with_children pn (replace_first old new (children pn))) l1).
      destruct (Fin l2 (root s)) as [F1 F2].
      { unfold l2. rewrite (akeys_aset_mem _ _ pn _ Epn). exact K1. }
      { intros k. unfold l2. rewrite aget_aset. unfold rnin_fix. rewrite Ep.
        destruct (Nat.eqb_spec k p) as [->|Hkp].
        - destruct (Nat.eqb_spec p new); [congruence|]. cbn [negb andb]. rewrite andb_true_r.
          rewrite G1 in Epn. destruct (Nat.eqb_spec p new); [congruence|]. cbn [negb] in Epn. rewrite andb_true_r in Epn.
          destruct (memb p (children on)); destruct (aget p (nodes s)) as [np|]; cbn in Epn; try discriminate;
            injection Epn as <-; reflexivity.
        - cbn [andb]. rewrite G1. destruct (memb k (children on) && negb (Nat.eqb k new)); destruct (aget k (nodes s)); reflexivity. }
      split; [reflexivity|]. split; [exact F1|]. split; [exact F2|]. split; [reflexivity|]. split.
      * right. rewrite G1 in Epn. apply memb_In in Hm.
        destruct (memb p (children on) && negb (Nat.eqb p new)); destruct (aget p (nodes s)) as [np|]; cbn in Epn; try discriminate;
          injection Epn as <-; exists np; split; auto.
      * cbn. repeat split.
  - intros [= <-]. exists on. rewrite Ep.
    destruct (Fin l1 (Some new) K1) as [F1 F2].
    { intros k. rewrite G1. unfold rnin_fix. rewrite Ep. cbn [andb].
      destruct (memb k (children on) && negb (Nat.eqb k new)); destruct (aget k (nodes s)); reflexivity. }
    split; [reflexivity|]. split; [exact F1|]. split; [exact F2|]. split; [reflexivity|]. split; [exact I|].
    cbn. repeat split.
Qed.
