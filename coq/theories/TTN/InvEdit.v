(* Preservation of the store invariant (TTN/Inv.v) by the editing operations of the Layer-W
   model: replace_tensor, rename (change_node_identifier), insert_identity.  For each operation:
   an inversion lemma, the invariant, and the diagram totals (atoms, wire ends, open wires) and
   the logical view of every node. *)
From Coq Require Import List Arith Bool Lia Permutation.
From PTN Require Import TTN.Store TTN.StoreProofs TTN.Inv TTN.InvProofs.
Import ListNotations.

(* ================================================================================================ *)
(* ---- general list helpers ------------------------------------------------------------------- *)
(* ================================================================================================ *)

Lemma permute_permute {A} (d : A) p q (l : list A) :
  (forall i, In i p -> i < length q) -> permute d p (permute d q l) = permute d (permute 0 p q) l.
Proof.
  intros H. unfold permute. rewrite map_map. apply map_ext_in. intros i Hi.
  rewrite (nth_indep _ d ((fun j => nth j l d) 0)) by (rewrite map_length; apply H; exact Hi).
  apply (map_nth (fun j => nth j l d)).
Qed.

Lemma NoDup_incl_perm_seq p n : NoDup p -> length p = n -> (forall i, In i p -> i < n) -> Permutation p (seq 0 n).
Proof.
  intros Hnd Hl Hb. apply NoDup_Permutation_bis; [exact Hnd|rewrite seq_length; lia|].
  intros i Hi. apply in_seq. specialize (Hb i Hi). lia.
Qed.

Lemma forallb_ltb_spec p n : forallb (fun i => Nat.ltb i n) p = true <-> (forall i, In i p -> i < n).
Proof.
  rewrite forallb_forall. split; intros H i Hi; specialize (H i Hi); [apply Nat.ltb_lt|apply Nat.ltb_lt]; exact H.
Qed.

(* ================================================================================================ *)
(* ---- 1. replace_tensor ------------------------------------------------------------------------- *)
(* ================================================================================================ *)

(* The code only compares dimensions: a transposition of two legs of equal dimension is accepted
   without a compensating permutation, and the wires end up on the wrong legs. *)
Example replace_tensor_wfb_counterexample :
  let s := fst (run empty_store [AddRoot 0 [2; 2]; AddChild 1 [2; 3] 0 0 0]) in
  wfb s = true /\
  match replace_tensor s 0 [1; 0] None with
  | Some s' => wfb s' = false
  | None => False
  end.
Proof. vm_compute. split; reflexivity. Qed.

Definition inverse_of (pp q : list nat) : Prop := permute 0 pp q = seq 0 (length q).

Definition rt_perm (q : list nat) (p : option (list nat)) : list nat :=
  match p with Some p' => p' | None => seq 0 (length q) end.

Lemma replace_tensor_inv s n q p s' :
  replace_tensor s n q p = Some s' ->
  exists nd t nd',
    aget n (nodes s) = Some nd /\ aget n (tensors s) = Some t /\
    Permutation q (seq 0 (length q)) /\ length q = length (perm nd) /\
    parent nd' = parent nd /\ children nd' = children nd /\
    perm nd' = rt_perm q p /\
    shape nd' = map (wdim s) (axes (s_transpose q (s_transpose (perm nd) t))) /\
    (forall i, In i (perm nd') -> i < length q) /\
    permute 0 (perm nd') (shape nd') = node_shape nd /\
    s' = upd_tensors (upd_nodes s (aset n nd')) (aset n (s_transpose q (s_transpose (perm nd) t))).
Proof.
  unfold replace_tensor, logical. destruct (aget n (nodes s)) as [nd|] eqn:En; [|discriminate].
  destruct (aget n (tensors s)) as [t|] eqn:Et; [|discriminate].
  destruct (is_perm_of_seq q && Nat.eqb (length q) (length (axes (s_transpose (perm nd) t)))) eqn:Hc; cbn [negb]; [|discriminate].
  apply andb_true_iff in Hc. destruct Hc as [Hq Hl]. apply is_perm_of_seq_spec in Hq. apply Nat.eqb_eq in Hl.
  cbn [s_transpose axes] in Hl. rewrite permute_length in Hl.
  set (nt := s_transpose q (s_transpose (perm nd) t)).
  assert (Hlt : length (map (wdim s) (axes nt)) = length q).
  { rewrite map_length. unfold nt. cbn. apply permute_length. }
  destruct (node_replace_tensor nd (map (wdim s) (axes nt)) p) as [nd'|] eqn:Hr; [|discriminate].
  intros [= <-]. exists nd, t, nd'. unfold node_replace_tensor in Hr. destruct p as [pq|].
  - destruct (forallb (fun i => Nat.ltb i (length (map (wdim s) (axes nt)))) pq && list_eqb (permute 0 pq (map (wdim s) (axes nt))) (node_shape nd)) eqn:Hc; [|discriminate].
    injection Hr as <-. apply andb_true_iff in Hc. destruct Hc as [Hb He]. apply list_eqb_eq in He.
    rewrite Hlt in Hb. pose proof (proj1 (forallb_ltb_spec _ _) Hb) as Hb2. cbn. repeat split; auto.
  - destruct (list_eqb (node_shape nd) (map (wdim s) (axes nt))) eqn:He; [|discriminate].
    injection Hr as <-. apply list_eqb_eq in He. cbn. repeat split; auto.
    + intros i Hi. apply in_seq in Hi. lia.
    + apply (reset_permutation_shape nd).
Qed.

(* with p inverting q the logical axes are unchanged *)
Lemma replace_tensor_laxes q pp nd nd' t :
  inverse_of pp q -> perm nd' = pp -> (forall i, In i pp -> i < length q) ->
  length q = length (perm nd) ->
  laxes nd' (s_transpose q (s_transpose (perm nd) t)) = laxes nd t.
Proof.
  intros Hinv Hp Hb Hl. unfold laxes. cbn [s_transpose axes]. rewrite Hp.
  rewrite permute_permute by exact Hb. rewrite Hinv.
  rewrite <- (permute_length 0 (perm nd) (axes t)) in Hl. rewrite Hl. apply permute_seq.
Qed.

Lemma inverse_of_perm pp q :
  inverse_of pp q -> (forall i, In i pp -> i < length q) -> Permutation pp (seq 0 (length q)).
Proof.
  intros Hinv Hb. unfold inverse_of, permute in Hinv.
  apply NoDup_incl_perm_seq; [|apply (f_equal (@length nat)) in Hinv; rewrite map_length, seq_length in Hinv; exact Hinv|exact Hb].
  apply (NoDup_map_inv (fun i => nth i q 0)). rewrite Hinv. apply seq_NoDup.
Qed.

(* the facts shared by all replace_tensor theorems *)
Lemma replace_tensor_facts s n q p s' :
  wf s -> replace_tensor s n q p = Some s' -> inverse_of (rt_perm q p) q ->
  exists nd t nd' t',
    aget n (nodes s) = Some nd /\ aget n (tensors s) = Some t /\
    s' = upd_tensors (upd_nodes s (aset n nd')) (aset n t') /\
    parent nd' = parent nd /\ children nd' = children nd /\ laxes nd' t' = laxes nd t /\
    Permutation (perm nd') (seq 0 (length (shape nd'))) /\ shape nd' = map (wdim s) (axes t') /\
    incl (axes t') (axes t) /\ atoms t' = atoms t /\ bnd t' = bnd t /\ Permutation (axes t') (axes t).
Proof.
  intros H Hr Hinv. destruct (replace_tensor_inv _ _ _ _ _ Hr) as (nd & t & nd' & En & Et & Hq & Hl & Hp & Hc & Hpm & Hsh & Hb & _ & ->).
  exists nd, t, nd', (s_transpose q (s_transpose (perm nd) t)).
  pose proof (wf_node s H n nd En) as Hn.
  assert (Hlen : length (shape nd) = length (axes t)).
  { rewrite (ni_shape _ _ _ Hn), (tens_aget _ _ _ Et), map_length. reflexivity. }
  assert (Hb1 : forall i, In i (perm nd) -> i < length (axes t)).
  { rewrite <- Hlen. apply perm_bound. apply (ni_perm _ _ _ Hn). }
  assert (Hb2 : forall i, In i q -> i < length (permute 0 (perm nd) (axes t))).
  { rewrite permute_length, <- Hl. apply perm_bound. exact Hq. }
  rewrite Hpm in Hb.
  repeat split; auto.
  - apply replace_tensor_laxes with (pp := rt_perm q p); auto.
  - rewrite Hsh, map_length. cbn [s_transpose axes]. rewrite permute_length, Hpm.
    apply inverse_of_perm; assumption.
  - cbn [s_transpose axes]. intros x Hx. apply (permute_incl 0 _ _ Hb2) in Hx. apply (permute_incl 0 _ _ Hb1) in Hx. exact Hx.
  - cbn [s_transpose axes]. rewrite permute_is_perm.
    + apply permute_is_perm. rewrite <- Hlen. apply (ni_perm _ _ _ Hn).
    + rewrite permute_length, <- Hl. exact Hq.
Qed.

Theorem replace_tensor_preserves_wf s n q p s' :
  wf s -> replace_tensor s n q p = Some s' ->
  inverse_of (match p with Some p' => p' | None => seq 0 (length q) end) q -> wf s'.
Proof.
  intros H Hr Hinv.
  destruct (replace_tensor_facts _ _ _ _ _ H Hr Hinv) as (nd & t & nd' & t' & En & Et & -> & Hp & Hc & Hl & Hpm & Hsh & Hi & _).
  apply (wf_update_node s n nd t); assumption.
Qed.

Theorem replace_tensor_preserves_wfb s n q p s' :
  wfb s = true -> replace_tensor s n q p = Some s' ->
  inverse_of (match p with Some p' => p' | None => seq 0 (length q) end) q -> wfb s' = true.
Proof. intros H Hr Hinv. apply wfb_iff. eapply replace_tensor_preserves_wf; [apply wfb_iff; exact H|exact Hr|exact Hinv]. Qed.

Theorem replace_tensor_total_atoms s n q p s' :
  wf s -> replace_tensor s n q p = Some s' ->
  inverse_of (match p with Some p' => p' | None => seq 0 (length q) end) q -> total_atoms s' = total_atoms s.
Proof.
  intros H Hr Hinv.
  destruct (replace_tensor_facts _ _ _ _ _ H Hr Hinv) as (nd & t & nd' & t' & En & Et & -> & Hp & Hc & Hl & Hpm & Hsh & Hi & Hat & Hbd & Hax).
  unfold total_atoms. cbn. apply (flat_map_aset_eq _ _ n _ t); auto. apply (wf_tnd s H).
Qed.

Theorem replace_tensor_total_ends s n q p s' :
  wf s -> replace_tensor s n q p = Some s' ->
  inverse_of (match p with Some p' => p' | None => seq 0 (length q) end) q -> Permutation (total_ends s') (total_ends s).
Proof.
  intros H Hr Hinv.
  destruct (replace_tensor_facts _ _ _ _ _ H Hr Hinv) as (nd & t & nd' & t' & En & Et & -> & Hp & Hc & Hl & Hpm & Hsh & Hi & Hat & Hbd & Hax).
  unfold total_ends. cbn. apply (flat_map_aset_perm _ _ n _ t); auto; [apply (wf_tnd s H)|].
  cbn. unfold sarr_ends. rewrite Hbd. apply Permutation_app_tail. exact Hax.
Qed.

Theorem replace_tensor_open_wires s n q p s' :
  wf s -> replace_tensor s n q p = Some s' ->
  inverse_of (match p with Some p' => p' | None => seq 0 (length q) end) q -> open_wires s' = open_wires s.
Proof.
  intros H Hr Hinv.
  destruct (replace_tensor_facts _ _ _ _ _ H Hr Hinv) as (nd & t & nd' & t' & En & Et & -> & Hp & Hc & Hl & Hpm & Hsh & Hi & Hat & Hbd & Hax).
  unfold open_wires. cbn [nodes upd_tensors upd_nodes].
  apply (flat_map_aset_eq _ _ n _ nd); auto; [apply (wf_nd s H)| |].
  - unfold node_open, tens. cbn. rewrite aget_aset_same, Et. apply open_of_ext; auto.
  - intros k2 v2 Hne. unfold node_open, tens. cbn. rewrite aget_aset_other by exact Hne. reflexivity.
Qed.

(* every node keeps parent, children and logical axes *)
Theorem replace_tensor_lax s n q p s' k nk :
  wf s -> replace_tensor s n q p = Some s' ->
  inverse_of (match p with Some p' => p' | None => seq 0 (length q) end) q ->
  aget k (nodes s) = Some nk ->
  exists nk', aget k (nodes s') = Some nk' /\ parent nk' = parent nk /\ children nk' = children nk /\ lax s' k nk' = lax s k nk.
Proof.
  intros H Hr Hinv E.
  destruct (replace_tensor_facts _ _ _ _ _ H Hr Hinv) as (nd & t & nd' & t' & En & Et & -> & Hp & Hc & Hl & Hpm & Hsh & Hi & Hat & Hbd & Hax).
  cbn. rewrite aget_aset. unfold lax, tens. cbn. rewrite aget_aset. destruct (Nat.eqb_spec k n) as [->|Hne].
  - rewrite E in En. injection En as <-. exists nd'. rewrite Et. repeat split; auto.
  - exists nk. auto.
Qed.

(* the resulting logical axes in terms of q and p, without the inverse hypothesis *)
Theorem replace_tensor_new_lax s n q p s' nd :
  wf s -> replace_tensor s n q p = Some s' -> aget n (nodes s) = Some nd ->
  exists nd', aget n (nodes s') = Some nd' /\ parent nd' = parent nd /\ children nd' = children nd /\
              lax s' n nd' = permute 0 (match p with Some p' => p' | None => seq 0 (length q) end) (permute 0 q (lax s n nd)).
Proof.
  intros H Hr En0. destruct (replace_tensor_inv _ _ _ _ _ Hr) as (nd0 & t & nd' & En & Et & Hq & Hl & Hp & Hc & Hpm & Hsh & Hb & _ & ->).
  rewrite En0 in En. injection En as <-. exists nd'. cbn. rewrite aget_aset_same. repeat split; auto.
  unfold lax, tens. cbn. rewrite aget_aset_same, Et. unfold laxes. cbn. rewrite Hpm. reflexivity.
Qed.

(* ================================================================================================ *)
(* ---- more helpers: association lists, replace_first, index_of --------------------------------- *)
(* ================================================================================================ *)
Section AssocMore.
  Context {V : Type}.
  Implicit Types (l : list (nat * V)) (k : nat) (v : V).

  Lemma akeys_adel k l : akeys (adel k l) = remove_first k (akeys l).
  Proof.
    induction l as [|[k2 v2] t IH]; cbn; [reflexivity|].
    destruct (Nat.eqb k k2); cbn; [reflexivity|]. f_equal. exact IH.
  Qed.

  Lemma aset_fresh k v l : aget k l = None -> aset k v l = l ++ [(k, v)].
  Proof.
    induction l as [|[k2 v2] t IH]; cbn; [reflexivity|].
    destruct (Nat.eqb k k2); [discriminate|]. intros H. f_equal. apply IH. exact H.
  Qed.

  Lemma adel_aset k v l : adel k (aset k v l) = adel k l.
  Proof.
    induction l as [|[k2 v2] t IH]; cbn.
    - rewrite Nat.eqb_refl. reflexivity.
    - destruct (Nat.eqb_spec k k2) as [->|Hne]; cbn.
      + rewrite Nat.eqb_refl. reflexivity.
      + destruct (Nat.eqb_spec k k2); [congruence|]. f_equal. exact IH.
  Qed.

  Lemma adel_aset_other k k' v l : k <> k' -> amem k' l = true -> adel k (aset k' v l) = aset k' v (adel k l).
  Proof.
    intros Hne. unfold amem. induction l as [|[k2 v2] t IH]; cbn; [discriminate|].
    destruct (Nat.eqb_spec k' k2) as [->|Hne2]; cbn.
    - destruct (Nat.eqb_spec k k2); [congruence|]. cbn. rewrite Nat.eqb_refl. reflexivity.
    - intros Hm. destruct (Nat.eqb_spec k k2) as [->|Hne3]; cbn.
      + (* k2 removed; k' must still be set in the tail *) reflexivity.
      + destruct (Nat.eqb_spec k' k2); [congruence|]. f_equal. apply IH. exact Hm.
  Qed.

  Lemma akeys_aset_amem k v l : amem k l = true -> akeys (aset k v l) = akeys l.
  Proof. intros H. rewrite akeys_aset, H. reflexivity. Qed.

  Lemma amem_aset k k' v l : amem k (aset k' v l) = Nat.eqb k k' || amem k l.
  Proof. unfold amem. rewrite aget_aset. destruct (Nat.eqb k k'); reflexivity. Qed.

  Lemma amem_false k l : amem k l = false <-> aget k l = None.
  Proof. unfold amem. destruct (aget k l); split; congruence. Qed.

  (* the removed entry can be put in front, up to permutation *)
  Lemma flat_map_adel_perm {W} (f : nat * V -> list W) k v l :
    aget k l = Some v -> Permutation (flat_map f l) (f (k, v) ++ flat_map f (adel k l)).
  Proof.
    induction l as [|[k2 v2] t IH]; cbn; [discriminate|].
    destruct (Nat.eqb_spec k k2) as [->|Hne].
    - intros [= ->]. reflexivity.
    - intros E. cbn. rewrite (IH E). rewrite !app_assoc. apply Permutation_app_tail. apply Permutation_app_comm.
  Qed.

  (* same keys in the same order, pointwise equal images *)
  Lemma flat_map_assoc_eq {V' W} (f : nat * V -> list W) (f' : nat * V' -> list W) l (l' : list (nat * V')) :
    NoDup (akeys l) -> akeys l' = akeys l ->
    (forall k v (u : V'), aget k l = Some v -> aget k l' = Some u -> f' (k, u) = f (k, v)) ->
    flat_map f' l' = flat_map f l.
  Proof.
    revert l'. induction l as [|[k v] t IH]; intros [|[k' u'] t'] Hnd Hk Hpt; cbn in Hk; try discriminate; [reflexivity|].
    injection Hk as -> Hk. inversion Hnd as [|? ? Hni Hnd']; subst. cbn [flat_map]. f_equal.
    - apply Hpt; cbn; rewrite Nat.eqb_refl; reflexivity.
    - apply IH; [exact Hnd'|exact Hk|]. intros k2 v2 v2' E E'.
      assert (k2 <> k) by (intros ->; apply Hni; eapply aget_Some_keys; eauto).
      apply Hpt; cbn; destruct (Nat.eqb_spec k2 k); try congruence.
  Qed.
End AssocMore.

Lemma remove_first_not_in x l : ~ In x l -> remove_first x l = l.
Proof.
  induction l as [|y t IH]; cbn; [reflexivity|]. intros H. destruct (Nat.eqb_spec x y) as [->|Hne].
  - exfalso. apply H. left. reflexivity.
  - f_equal. apply IH. intros Hin. apply H. right. exact Hin.
Qed.

(* renaming one identifier *)
Definition ren1 (old new : id) (x : id) : id := if Nat.eqb x old then new else x.

Lemma ren1_other old new x : x <> old -> ren1 old new x = x.
Proof. unfold ren1. intros H. destruct (Nat.eqb_spec x old); congruence. Qed.

Lemma ren1_same old new : ren1 old new old = new.
Proof. unfold ren1. rewrite Nat.eqb_refl. reflexivity. Qed.

Lemma ren1_id old x : ren1 old old x = x.
Proof. unfold ren1. destruct (Nat.eqb_spec x old); congruence. Qed.

Lemma map_ren1_not_in old new l : ~ In old l -> map (ren1 old new) l = l.
Proof.
  induction l as [|y t IH]; cbn; [reflexivity|]. intros H. rewrite ren1_other by (intros ->; apply H; left; reflexivity).
  f_equal. apply IH. intros Hin. apply H. right. exact Hin.
Qed.

Lemma replace_first_not_in x y l : ~ In x l -> replace_first x y l = l.
Proof.
  induction l as [|z t IH]; cbn; [reflexivity|]. intros H. destruct (Nat.eqb_spec x z) as [->|Hne].
  - exfalso. apply H. left. reflexivity.
  - f_equal. apply IH. intros Hin. apply H. right. exact Hin.
Qed.

(* on a duplicate-free list replace_first is the pointwise renaming *)
Lemma replace_first_map x y l : NoDup l -> replace_first x y l = map (ren1 x y) l.
Proof.
  induction l as [|z t IH]; cbn; [reflexivity|]. intros Hnd. inversion Hnd as [|? ? Hni Hnd']; subst.
  unfold ren1 at 1. rewrite (Nat.eqb_sym z x). destruct (Nat.eqb_spec x z) as [->|Hne].
  - f_equal. symmetry. apply map_ren1_not_in. exact Hni.
  - f_equal. apply IH. exact Hnd'.
Qed.

Lemma replace_first_length x y l : length (replace_first x y l) = length l.
Proof. induction l as [|z t IH]; cbn; [reflexivity|]. destruct (Nat.eqb x z); cbn; congruence. Qed.

Lemma In_replace_first x y l z : In z (replace_first x y l) -> z = y \/ (In z l /\ (NoDup l -> z <> x)).
Proof.
  induction l as [|a t IH]; cbn; [intros []|]. destruct (Nat.eqb_spec x a) as [->|Hne]; cbn.
  - intros [<-|Hin]; [left; reflexivity|]. right. split; [right; exact Hin|].
    intros Hnd ->. inversion Hnd; subst. contradiction.
  - intros [<-|Hin].
    + right. split; [left; reflexivity|]. intros _ ->. congruence.
    + destruct (IH Hin) as [->|[H1 H2]]; [left; reflexivity|]. right. split; [right; exact H1|].
      intros Hnd. inversion Hnd; subst. apply H2. assumption.
Qed.

Lemma In_replace_first_new x y l : In x l -> In y (replace_first x y l).
Proof.
  induction l as [|a t IH]; cbn; [intros []|]. destruct (Nat.eqb_spec x a) as [->|Hne]; cbn.
  - intros _. left. reflexivity.
  - intros [->|Hin]; [congruence|]. right. apply IH. exact Hin.
Qed.

Lemma In_replace_first_other x y l z : In z l -> z <> x -> In z (replace_first x y l).
Proof.
  induction l as [|a t IH]; cbn; [intros []|]. destruct (Nat.eqb_spec x a) as [->|Hne]; cbn.
  - intros [->|Hin] Hz; [congruence|]. right. exact Hin.
  - intros [->|Hin] Hz; [left; reflexivity|]. right. apply IH; assumption.
Qed.

(* index_of under an injective-enough renaming *)
Lemma index_of_map_inj (f : nat -> nat) x l :
  (forall y, In y l -> f y = f x -> y = x) -> index_of (f x) (map f l) = index_of x l.
Proof.
  induction l as [|y t IH]; cbn; [reflexivity|]. intros H.
  destruct (Nat.eqb_spec x y) as [->|Hne].
  - rewrite Nat.eqb_refl. reflexivity.
  - destruct (Nat.eqb_spec (f x) (f y)) as [E|_].
    + exfalso. apply Hne. symmetry. apply H; [left; reflexivity|congruence].
    + rewrite IH; [reflexivity|]. intros z Hz. apply H. right. exact Hz.
Qed.

Lemma index_of_lt x l i : index_of x l = Some i -> i < length l /\ nth i l 0 = x.
Proof.
  revert i. induction l as [|y t IH]; cbn; [discriminate|]. intros i.
  destruct (Nat.eqb_spec x y) as [->|Hne].
  - intros [= <-]. split; [lia|reflexivity].
  - destruct (index_of x t) as [j|]; [|discriminate]. intros [= <-]. destruct (IH j eq_refl). split; [lia|assumption].
Qed.

Lemma index_of_some_in x l : In x l -> exists i, index_of x l = Some i.
Proof.
  induction l as [|y t IH]; cbn; [intros []|]. destruct (Nat.eqb_spec x y) as [->|Hne]; [eauto|].
  intros [->|Hin]; [congruence|]. destruct (IH Hin) as [i ->]. cbn. eauto.
Qed.

(* ================================================================================================ *)
(* ---- replace_node_in_neighbours: general specification ---------------------------------------- *)
(* ================================================================================================ *)
Lemma set_parent_of_aget new l c k :
  aget k (set_parent_of new l c) =
  if Nat.eqb k c then option_map (fun cn => with_parent cn (Some new)) (aget k l) else aget k l.
Proof.
  unfold set_parent_of. destruct (Nat.eqb_spec k c) as [->|Hne].
  - destruct (aget c l) as [cn|] eqn:E; cbn; [apply aget_aset_same|exact E].
  - destruct (aget c l) as [cn|] eqn:E; [apply aget_aset_other; exact Hne|reflexivity].
Qed.

Lemma set_parent_of_keys new l c : akeys (set_parent_of new l c) = akeys l.
Proof.
  unfold set_parent_of. destruct (aget c l) as [cn|] eqn:E; [|reflexivity]. eapply akeys_aset_mem; eauto.
Qed.

Definition set_parents (new : id) (cs : list id) (l : list (id * node)) : list (id * node) :=
  fold_left (fun l c => if Nat.eqb c new then l else set_parent_of new l c) cs l.

Lemma set_parents_keys new cs l : akeys (set_parents new cs l) = akeys l.
Proof.
  unfold set_parents. revert l. induction cs as [|c cs IH]; intros l; cbn [fold_left]; [reflexivity|].
  rewrite IH. destruct (Nat.eqb c new); [reflexivity|apply set_parent_of_keys].
Qed.

Lemma with_parent_idem n x : with_parent (with_parent n x) x = with_parent n x.
Proof. reflexivity. Qed.

Lemma set_parents_aget new cs l k :
  aget k (set_parents new cs l) =
  if memb k cs && negb (Nat.eqb k new) then option_map (fun cn => with_parent cn (Some new)) (aget k l) else aget k l.
Proof.
  unfold set_parents. revert l. induction cs as [|c cs IH]; intros l; cbn [fold_left memb existsb]; [reflexivity|].
  rewrite IH. fold (memb k cs).
  destruct (Nat.eqb_spec c new) as [->|Hcn].
  - destruct (Nat.eqb k new); cbn; rewrite ?andb_false_r; reflexivity.
  - rewrite set_parent_of_aget. destruct (Nat.eqb_spec k c) as [->|Hkc]; cbn.
    + destruct (Nat.eqb_spec c new); [congruence|]. cbn. rewrite andb_true_r.
      destruct (memb c cs); [|reflexivity]. destruct (aget c l); reflexivity.
    + reflexivity.
Qed.

(* what happens to the node stored under k *)
Definition rnin_fix (new old : id) (on : node) (k : id) (nk : node) : node :=
  let nk1 := if memb k (children on) && negb (Nat.eqb k new) then with_parent nk (Some new) else nk in
  if (match parent on with Some p => Nat.eqb k p | None => false end) && negb (Nat.eqb k new)
  then with_children nk1 (replace_first old new (children nk1)) else nk1.

Lemma rnin_fix_perm new old on k nk : perm (rnin_fix new old on k nk) = perm nk /\ shape (rnin_fix new old on k nk) = shape nk.
Proof.
  unfold rnin_fix. destruct (memb k (children on) && negb (Nat.eqb k new));
    destruct ((match parent on with Some p => Nat.eqb k p | None => false end) && negb (Nat.eqb k new)); cbn; auto.
Qed.

Lemma rnin_fix_parent new old on k nk :
  parent (rnin_fix new old on k nk) = if memb k (children on) && negb (Nat.eqb k new) then Some new else parent nk.
Proof.
  unfold rnin_fix. destruct (memb k (children on) && negb (Nat.eqb k new));
    destruct ((match parent on with Some p => Nat.eqb k p | None => false end) && negb (Nat.eqb k new)); cbn; auto.
Qed.

Lemma rnin_fix_children new old on k nk :
  children (rnin_fix new old on k nk) =
  if (match parent on with Some p => Nat.eqb k p | None => false end) && negb (Nat.eqb k new)
  then replace_first old new (children nk) else children nk.
Proof.
  unfold rnin_fix. destruct (memb k (children on) && negb (Nat.eqb k new));
    destruct ((match parent on with Some p => Nat.eqb k p | None => false end) && negb (Nat.eqb k new)); cbn; auto.
Qed.

Lemma replace_node_in_neighbours_same s new del : replace_node_in_neighbours s new new del = Some s.
Proof. unfold replace_node_in_neighbours. rewrite Nat.eqb_refl. reflexivity. Qed.

(* General specification (new may be any identifier different from old, in particular a child or
   the parent of old as in contract_nodes). *)
Theorem replace_node_in_neighbours_spec s new old del s' :
  NoDup (akeys (nodes s)) -> new <> old ->
  replace_node_in_neighbours s new old del = Some s' ->
  exists on,
    aget old (nodes s) = Some on /\
    (forall k, aget k (nodes s') =
               if del && Nat.eqb k old then None else option_map (rnin_fix new old on k) (aget k (nodes s))) /\
    akeys (nodes s') = (if del then remove_first old (akeys (nodes s)) else akeys (nodes s)) /\
    root s' = (match parent on with None => Some new | Some _ => root s end) /\
    (match parent on with
     | Some p => p = new \/ exists pn, aget p (nodes s) = Some pn /\ In old (children pn)
     | None => True end) /\
    tensors s' = tensors s /\ dims s' = dims s /\ next_wire s' = next_wire s /\
    next_atom s' = next_atom s /\ defs s' = defs s /\ atab s' = atab s.
Proof.
  intros Hnd Hne. unfold replace_node_in_neighbours.
  destruct (Nat.eqb_spec new old) as [|_]; [congruence|].
  destruct (aget old (nodes s)) as [on|] eqn:Eo; [|discriminate].
  fold (set_parents new (children on) (nodes s)). set (l1 := set_parents new (children on) (nodes s)).
  assert (K1 : akeys l1 = akeys (nodes s)) by apply set_parents_keys.
  assert (G1 : forall k, aget k l1 = if memb k (children on) && negb (Nat.eqb k new)
                                     then option_map (fun cn => with_parent cn (Some new)) (aget k (nodes s)) else aget k (nodes s))
    by (intros k; apply set_parents_aget).
  (* the final adel step *)
  assert (Fin : forall l2 r,
            akeys l2 = akeys (nodes s) ->
            (forall k, aget k l2 = option_map (rnin_fix new old on k) (aget k (nodes s))) ->
            let s2 := set_root (upd_nodes s (fun _ => if del then adel old l2 else l2)) r in
            (forall k, aget k (nodes s2) = if del && Nat.eqb k old then None else option_map (rnin_fix new old on k) (aget k (nodes s))) /\
            akeys (nodes s2) = (if del then remove_first old (akeys (nodes s)) else akeys (nodes s))).
  { intros l2 r K2 G2. cbn [nodes set_root upd_nodes]. destruct del; cbn [andb].
    - split.
      + intros k. rewrite aget_adel by (rewrite K2; exact Hnd). destruct (Nat.eqb k old); [reflexivity|apply G2].
      + rewrite akeys_adel, K2. reflexivity.
    - split; [exact G2|exact K2]. }
  destruct (parent on) as [p|] eqn:Ep.
  - destruct (Nat.eqb_spec p new) as [->|Hpn].
    + intros [= <-]. exists on. rewrite Ep.
      destruct (Fin l1 (root s) K1) as [F1 F2].
      { intros k. rewrite G1. unfold rnin_fix. rewrite Ep.
        destruct (Nat.eqb_spec k new) as [->|Hk]; cbn; rewrite ?andb_false_r; cbn.
        - destruct (aget new (nodes s)); reflexivity.
        - rewrite andb_true_r. destruct (memb k (children on)); destruct (aget k (nodes s)); reflexivity. }
      split; [reflexivity|]. split; [exact F1|]. split; [exact F2|]. split; [reflexivity|]. split; [left; reflexivity|].
      cbn. repeat split.
    + destruct (aget p l1) as [pn|] eqn:Epn; [|discriminate].
      destruct (memb old (children pn)) eqn:Hm; [|discriminate].
      intros [= <-]. exists on. rewrite Ep.
      set (l2 := aset p (with_children pn (replace_first old new (children pn))) l1).
      destruct (Fin l2 (root s)) as [F1 F2].
      { unfold l2. rewrite (akeys_aset_mem _ _ pn _ Epn). exact K1. }
      { intros k. unfold l2. rewrite aget_aset. unfold rnin_fix. rewrite Ep.
        destruct (Nat.eqb_spec k p) as [->|Hkp].
        - destruct (Nat.eqb_spec p new); [congruence|]. cbn [negb andb]. rewrite andb_true_r.
          rewrite G1 in Epn. destruct (Nat.eqb_spec p new); [congruence|]. cbn [negb] in Epn. rewrite andb_true_r in Epn.
          destruct (memb p (children on)); destruct (aget p (nodes s)) as [np|]; cbn in Epn; try discriminate;
            injection Epn as <-; reflexivity.
        - cbn [andb]. rewrite G1. destruct (memb k (children on) && negb (Nat.eqb k new)); destruct (aget k (nodes s)); reflexivity. }
      split; [reflexivity|]. split; [exact F1|]. split; [exact F2|]. split; [reflexivity|]. split.
      * right. rewrite G1 in Epn. apply memb_In in Hm.
        destruct (memb p (children on) && negb (Nat.eqb p new)); destruct (aget p (nodes s)) as [np|]; cbn in Epn; try discriminate;
          injection Epn as <-; exists np; split; auto.
      * cbn. repeat split.
  - intros [= <-]. exists on. rewrite Ep.
    destruct (Fin l1 (Some new) K1) as [F1 F2].
    { intros k. rewrite G1. unfold rnin_fix. rewrite Ep. cbn [andb].
      destruct (memb k (children on) && negb (Nat.eqb k new)); destruct (aget k (nodes s)); reflexivity. }
    split; [reflexivity|]. split; [exact F1|]. split; [exact F2|]. split; [reflexivity|]. split; [exact I|].
    cbn. repeat split.
Qed.

(* ================================================================================================ *)
(* ---- relabelling the identifiers of a store by a function injective on its keys -------------- *)
(* ================================================================================================ *)
Definition ren_node (f : id -> id) (n : node) : node :=
  {| parent := option_map f (parent n); children := map f (children n); perm := perm n; shape := shape n |}.

Lemma ren_node_nparents f n : nparents (ren_node f n) = nparents n.
Proof. unfold nparents. cbn. destruct (parent n); reflexivity. Qed.

Lemma ren_node_nvirt f n : nvirt (ren_node f n) = nvirt n.
Proof. unfold nvirt. rewrite ren_node_nparents. cbn. rewrite map_length. reflexivity. Qed.

Lemma own_of_ext2 a ta b tb :
  nparents a = nparents b -> nvirt a = nvirt b -> laxes a ta = laxes b tb -> own_of a ta = own_of b tb.
Proof. intros Hp Hc Hl. unfold own_of. rewrite Hl, Hp, Hc. reflexivity. Qed.

Lemma open_of_ext2 a ta b tb : nvirt a = nvirt b -> laxes a ta = laxes b tb -> open_of a ta = open_of b tb.
Proof. intros Hc Hl. unfold open_of. rewrite Hl, Hc. reflexivity. Qed.

Lemma neighbour_index_ren f pn k :
  (forall y, In y (neighbouring_nodes pn) -> f y = f k -> y = k) ->
  neighbour_index (ren_node f pn) (f k) = neighbour_index pn k.
Proof.
  unfold neighbour_index, neighbouring_nodes. cbn [ren_node parent children].
  destruct (parent pn) as [q|]; cbn [option_map]; intros H.
  - destruct (Nat.eqb_spec k q) as [->|Hne].
    + rewrite Nat.eqb_refl. reflexivity.
    + destruct (Nat.eqb_spec (f k) (f q)) as [E|_].
      * exfalso. apply Hne. symmetry. apply H; [left; reflexivity|congruence].
      * rewrite index_of_map_inj; [reflexivity|]. intros y Hy. apply H. right. exact Hy.
  - apply index_of_map_inj. exact H.
Qed.

Lemma wf_neighbours_keys s k nk x :
  wf s -> aget k (nodes s) = Some nk -> In x (neighbouring_nodes nk) -> In x (akeys (nodes s)).
Proof.
  intros H E Hx. pose proof (wf_node s H k nk E) as Hn. unfold neighbouring_nodes in Hx.
  assert (Hc : In x (children nk) -> In x (akeys (nodes s))).
  { intros Hc. destruct (ni_ch _ _ _ Hn x Hc) as (cn & Ec & _). eapply aget_Some_keys; eauto. }
  destruct (parent nk) as [p|] eqn:Ep; [|auto]. destruct Hx as [<-|Hx]; [|auto].
  destruct (ni_par _ _ _ Hn p Ep) as (pn & i & Epn & _). eapply aget_Some_keys; eauto.
Qed.

Lemma NoDup_map_inj_in {A B} (f : A -> B) l :
  (forall a b, In a l -> In b l -> f a = f b -> a = b) -> NoDup l -> NoDup (map f l).
Proof.
  induction l as [|x t IH]; cbn; intros Hinj Hnd; [constructor|]. inversion Hnd as [|? ? Hni Hnd']; subst. constructor.
  - intros Hin. apply in_map_iff in Hin. destruct Hin as (y & Ey & Hy).
    assert (y = x) by (apply Hinj; auto). subst. contradiction.
  - apply IH; [|exact Hnd']. intros a b Ha Hb. apply Hinj; right; assumption.
Qed.

Lemma find_inj (f : id -> id) keys k :
  (forall a b, In a keys -> In b keys -> f a = f b -> a = b) -> In k keys ->
  find (fun x => Nat.eqb (f x) (f k)) keys = Some k.
Proof.
  intros Hinj Hk. destruct (find (fun x => Nat.eqb (f x) (f k)) keys) as [x|] eqn:E.
  - apply find_some in E. destruct E as [Hx E]. apply Nat.eqb_eq in E. f_equal. apply Hinj; assumption.
  - exfalso. pose proof (find_none _ _ E k Hk) as Hf. cbn in Hf. rewrite Nat.eqb_refl in Hf. discriminate.
Qed.

Theorem wf_relabel (f : id -> id) s s' :
  wf s ->
  (forall a b, In a (akeys (nodes s)) -> In b (akeys (nodes s)) -> f a = f b -> a = b) ->
  NoDup (akeys (nodes s')) -> NoDup (akeys (tensors s')) ->
  (forall k nk, aget k (nodes s) = Some nk -> aget (f k) (nodes s') = Some (ren_node f nk)) ->
  (forall k', In k' (akeys (nodes s')) -> exists k, k' = f k /\ In k (akeys (nodes s))) ->
  (forall k, In k (akeys (nodes s)) -> aget (f k) (tensors s') = aget k (tensors s)) ->
  (forall k', In k' (akeys (tensors s')) -> exists k, k' = f k /\ In k (akeys (nodes s))) ->
  root s' = option_map f (root s) ->
  dims s' = dims s -> next_wire s' = next_wire s ->
  wf s'.
Proof.
  intros H Hinj Hnd Htnd Hn1 Hn2 Ht1 Ht2 Hroot Hdims Hnw.
  assert (N2 : forall k' n', aget k' (nodes s') = Some n' ->
            exists k nk, k' = f k /\ aget k (nodes s) = Some nk /\ n' = ren_node f nk).
  { intros k' n' E. destruct (Hn2 k' (aget_Some_keys _ _ _ E)) as (k & -> & Hk).
    apply keys_aget in Hk. destruct Hk as [nk Ek]. exists k, nk. split; [reflexivity|]. split; [exact Ek|].
    rewrite (Hn1 k nk Ek) in E. congruence. }
  assert (T : forall k nk, aget k (nodes s) = Some nk -> tens s' (f k) = tens s k).
  { intros k nk E. unfold tens. rewrite Ht1 by (eapply aget_Some_keys; eauto). reflexivity. }
  assert (L : forall k nk, aget k (nodes s) = Some nk -> lax s' (f k) (ren_node f nk) = lax s k nk).
  { intros k nk E. unfold lax. rewrite (T k nk E). reflexivity. }
  assert (O : forall k nk, aget k (nodes s) = Some nk -> own_of (ren_node f nk) (tens s' (f k)) = own_of nk (tens s k)).
  { intros k nk E. apply own_of_ext2; [apply ren_node_nparents|apply ren_node_nvirt|apply (L k nk E)]. }
  assert (W : forall w, wdim s' w = wdim s w) by (intros w; unfold wdim; rewrite Hdims; reflexivity).
  assert (Inj : forall k nk x, aget k (nodes s) = Some nk -> In x (akeys (nodes s)) ->
            forall y, In y (neighbouring_nodes nk) -> f y = f x -> y = x).
  { intros k nk x E Hx y Hy. apply Hinj; [|exact Hx]. eapply wf_neighbours_keys; eauto. }
  constructor.
  - exact Hnd.
  - exact Htnd.
  - intros k' Hk'. apply amem_true in Hk'. destruct (Ht2 k' Hk') as (k & -> & Hk).
    apply keys_aget in Hk. destruct Hk as [nk Ek]. apply amem_aget. rewrite (Hn1 k nk Ek). eauto.
  - destruct (wf_root s H) as (r & rn & Hr & Er & Hpr & Huniq).
    exists (f r), (ren_node f rn). split; [rewrite Hroot, Hr; reflexivity|]. split; [apply Hn1; exact Er|].
    split; [cbn; rewrite Hpr; reflexivity|].
    intros k' n' E Hp. destruct (N2 k' n' E) as (k & nk & -> & Ek & ->). f_equal. apply (Huniq k nk Ek).
    cbn in Hp. destruct (parent nk); [discriminate|reflexivity].
  - intros k' n' E. destruct (N2 k' n' E) as (k & nk & -> & Ek & ->).
    pose proof (wf_node s H k nk Ek) as Hn. constructor.
    + apply amem_aget. rewrite Ht1 by (eapply aget_Some_keys; eauto). apply amem_aget. apply (ni_t _ _ _ Hn).
    + cbn. apply (ni_perm _ _ _ Hn).
    + cbn [ren_node shape]. rewrite (T k nk Ek). rewrite (ni_shape _ _ _ Hn). apply map_ext. intros w. symmetry. apply W.
    + rewrite ren_node_nvirt. apply (ni_virt _ _ _ Hn).
    + cbn. apply NoDup_map_inj_in; [|apply (ni_chnd _ _ _ Hn)].
      intros a b Ha Hb. apply Hinj; (eapply wf_neighbours_keys; [exact H|exact Ek|]); unfold neighbouring_nodes;
        destruct (parent nk); [right|idtac|right|idtac]; assumption.
    + intros c' Hc'. cbn in Hc'. apply in_map_iff in Hc'. destruct Hc' as (c & <- & Hc).
      destruct (ni_ch _ _ _ Hn c Hc) as (cn & Ec & Epc). exists (ren_node f cn). split; [apply Hn1; exact Ec|].
      cbn. rewrite Epc. reflexivity.
    + intros p' Hp'. cbn in Hp'. destruct (parent nk) as [p|] eqn:Ep; [|discriminate]. injection Hp' as <-.
      destruct (ni_par _ _ _ Hn p Ep) as (pn & i & Epn & Hin & Hni & Hw).
      exists (ren_node f pn), i. split; [apply Hn1; exact Epn|]. split; [cbn; apply in_map; exact Hin|]. split.
      * rewrite neighbour_index_ren; [exact Hni|]. apply (Inj p pn k Epn). eapply aget_Some_keys; eauto.
      * rewrite (L k nk Ek), (L p pn Epn). exact Hw.
  - intros k' n' E. destruct (N2 k' n' E) as (k & nk & -> & Ek & ->). rewrite (O k nk Ek). apply (wf_own1 s H k nk Ek).
  - intros k1' n1' k2' n2' w E1 E2. destruct (N2 k1' n1' E1) as (k1 & m1 & -> & G1 & ->).
    destruct (N2 k2' n2' E2) as (k2 & m2 & -> & G2 & ->). rewrite (O k1 m1 G1), (O k2 m2 G2).
    intros H1 H2. f_equal. apply (wf_own2 s H k1 m1 k2 m2 w G1 G2 H1 H2).
  - intros k' t w E Hw. rewrite Hnw. destruct (Ht2 k' (aget_Some_keys _ _ _ E)) as (k & -> & Hk).
    rewrite (Ht1 k Hk) in E. apply (wf_wires s H k t w E Hw).
  - rewrite Hdims, Hnw. apply (wf_dims s H).
  - destruct (wf_acyc s H) as [d Hd].
    exists (fun k' => match find (fun x => Nat.eqb (f x) k') (akeys (nodes s)) with Some k => d k | None => 0 end).
    intros c' cn' p' E Hp'. destruct (N2 c' cn' E) as (c & cn & -> & Ec & ->).
    cbn in Hp'. destruct (parent cn) as [p|] eqn:Ep; [|discriminate]. injection Hp' as <-.
    assert (Hpk : In p (akeys (nodes s))).
    { eapply wf_neighbours_keys; [exact H|exact Ec|]. unfold neighbouring_nodes. rewrite Ep. left. reflexivity. }
    rewrite (find_inj f _ p Hinj Hpk). rewrite (find_inj f _ c Hinj (aget_Some_keys _ _ _ Ec)).
    apply (Hd c cn p Ec Ep).
Qed.

Record relabels (f : id -> id) (s s' : store) : Prop := {
  rl_inj : forall a b, In a (akeys (nodes s)) -> In b (akeys (nodes s)) -> f a = f b -> a = b;
  rl_nd : NoDup (akeys (nodes s'));
  rl_tnd : NoDup (akeys (tensors s'));
  rl_n1 : forall k nk, aget k (nodes s) = Some nk -> aget (f k) (nodes s') = Some (ren_node f nk);
  rl_n2 : forall k', In k' (akeys (nodes s')) -> exists k, k' = f k /\ In k (akeys (nodes s));
  rl_t1 : forall k, In k (akeys (nodes s)) -> aget (f k) (tensors s') = aget k (tensors s);
  rl_t2 : forall k', In k' (akeys (tensors s')) -> exists k, k' = f k /\ In k (akeys (nodes s));
  rl_root : root s' = option_map f (root s);
  rl_dims : dims s' = dims s;
  rl_nw : next_wire s' = next_wire s
}.

Theorem relabels_wf f s s' : wf s -> relabels f s s' -> wf s'.
Proof. intros H [H1 H2 H3 H4 H5 H6 H7 H8 H9 H10]. eapply wf_relabel; eauto. Qed.

Lemma In_remove_first x y l : NoDup l -> (In x (remove_first y l) <-> In x l /\ x <> y).
Proof.
  induction l as [|z t IH]; cbn; intros Hnd; [tauto|]. inversion Hnd as [|? ? Hni Hnd']; subst.
  destruct (Nat.eqb_spec y z) as [->|Hne].
  - split.
    + intros Hx. split; [right; exact Hx|]. intros ->. contradiction.
    + intros [[->|Hx] Hxz]; [congruence|exact Hx].
  - cbn. rewrite (IH Hnd'). split.
    + intros [->|[Hx Hxy]]; [split; [left; reflexivity|congruence]|split; [right; exact Hx|exact Hxy]].
    + intros [[->|Hx] Hxy]; [left; reflexivity|right; split; assumption].
Qed.

(* flat_map over two association lists related by a relabelling of the keys *)
Lemma flat_map_relabel_perm {V V' W} (f : nat -> nat) (g : nat * V -> list W) (g' : nat * V' -> list W) l l' :
  NoDup (akeys l) -> NoDup (akeys l') ->
  (forall a b, In a (akeys l) -> In b (akeys l) -> f a = f b -> a = b) ->
  (forall k v, aget k l = Some v -> exists v', aget (f k) l' = Some v' /\ Permutation (g' (f k, v')) (g (k, v))) ->
  (forall k', In k' (akeys l') -> exists k, k' = f k /\ In k (akeys l)) ->
  Permutation (flat_map g' l') (flat_map g l).
Proof.
  revert l'. induction l as [|[k v] t IH]; intros l' Hnd Hnd' Hinj H1 H2.
  - destruct l' as [|[k' v'] t']; [reflexivity|]. destruct (H2 k' (or_introl eq_refl)) as (k & _ & []).
  - inversion Hnd as [|? ? Hni Hndt]; subst.
    destruct (H1 k v) as (v' & E' & Hp); [cbn; rewrite Nat.eqb_refl; reflexivity|].
    rewrite (flat_map_adel_perm g' (f k) v' l' E'). cbn [flat_map]. apply Permutation_app; [exact Hp|].
    apply IH.
    + exact Hndt.
    + apply NoDup_akeys_adel. exact Hnd'.
    + intros a b Ha Hb. apply Hinj; right; assumption.
    + intros k2 v2 E2.
      assert (Hk2 : In k2 (akeys t)) by (eapply aget_Some_keys; eauto).
      assert (Hne : k2 <> k) by (intros ->; contradiction).
      destruct (H1 k2 v2) as (v2' & E2' & Hp2).
      { cbn. destruct (Nat.eqb_spec k2 k); [congruence|exact E2]. }
      exists v2'. split; [|exact Hp2]. rewrite aget_adel_other; [exact E2'|].
      intros Ef. apply Hne. apply Hinj; [right; exact Hk2|left; reflexivity|exact Ef].
    + intros k' Hk'. rewrite akeys_adel in Hk'. apply (In_remove_first _ _ _ Hnd') in Hk'. destruct Hk' as [Hk' Hne].
      destruct (H2 k' Hk') as (k2 & -> & Hk2). cbn in Hk2. destruct Hk2 as [<-|Hk2]; [congruence|]. exists k2. split; [reflexivity|exact Hk2].
Qed.

Theorem relabels_lax f s s' k nk :
  wf s -> relabels f s s' -> aget k (nodes s) = Some nk ->
  aget (f k) (nodes s') = Some (ren_node f nk) /\ tens s' (f k) = tens s k /\ lax s' (f k) (ren_node f nk) = lax s k nk.
Proof.
  intros H R E. split; [apply (rl_n1 _ _ _ R); exact E|].
  assert (T : tens s' (f k) = tens s k).
  { unfold tens. rewrite (rl_t1 _ _ _ R) by (eapply aget_Some_keys; eauto). reflexivity. }
  split; [exact T|]. unfold lax. rewrite T. reflexivity.
Qed.

Theorem relabels_open_wires f s s' : wf s -> relabels f s s' -> Permutation (open_wires s') (open_wires s).
Proof.
  intros H R. unfold open_wires. apply (flat_map_relabel_perm f).
  - apply (wf_nd s H).
  - apply (rl_nd _ _ _ R).
  - apply (rl_inj _ _ _ R).
  - intros k nk E. destruct (relabels_lax f s s' k nk H R E) as (E' & T & L). exists (ren_node f nk). split; [exact E'|].
    unfold node_open. cbn [fst snd]. rewrite (open_of_ext2 (ren_node f nk) (tens s' (f k)) nk (tens s k)); [reflexivity| |].
    + apply ren_node_nvirt.
    + exact L.
  - apply (rl_n2 _ _ _ R).
Qed.

Lemma relabels_tensors_perm {W} f s s' (g : sarr -> list W) :
  wf s -> relabels f s s' ->
  Permutation (flat_map (fun kt => g (snd kt)) (tensors s')) (flat_map (fun kt => g (snd kt)) (tensors s)).
Proof.
  intros H R. apply (flat_map_relabel_perm f).
  - apply (wf_tnd s H).
  - apply (rl_tnd _ _ _ R).
  - intros a b Ha Hb. apply (rl_inj _ _ _ R); apply (wf_keys_iff s _ H); assumption.
  - intros k t E. exists t. split; [|reflexivity]. rewrite (rl_t1 _ _ _ R); [exact E|].
    apply (wf_keys_iff s _ H). eapply aget_Some_keys; eauto.
  - intros k' Hk'. destruct (rl_t2 _ _ _ R k' Hk') as (k & -> & Hk). exists k. split; [reflexivity|].
    apply (wf_keys_iff s _ H). exact Hk.
Qed.

Theorem relabels_total_atoms f s s' : wf s -> relabels f s s' -> Permutation (total_atoms s') (total_atoms s).
Proof. intros H R. apply (relabels_tensors_perm f s s' atoms H R). Qed.

Theorem relabels_total_ends f s s' : wf s -> relabels f s s' -> Permutation (total_ends s') (total_ends s).
Proof. intros H R. apply (relabels_tensors_perm f s s' sarr_ends H R). Qed.

(* ================================================================================================ *)
(* ---- 2. rename (change_node_identifier) ------------------------------------------------------- *)
(* ================================================================================================ *)
Lemma node_ext a b : parent a = parent b -> children a = children b -> perm a = perm b -> shape a = shape b -> a = b.
Proof. destruct a, b; cbn; intros -> -> -> ->; reflexivity. Qed.

Lemma ren_node_id f n : (forall x, f x = x) -> ren_node f n = n.
Proof.
  intros Hf. apply node_ext; cbn; try reflexivity.
  - destruct (parent n); cbn; [rewrite Hf|]; reflexivity.
  - rewrite (map_ext f (fun x => x) Hf). apply map_id.
Qed.

Lemma wf_not_self_child s k nk : wf s -> aget k (nodes s) = Some nk -> ~ In k (children nk).
Proof.
  intros H E Hin. destruct (ni_ch _ _ _ (wf_node s H k nk E) k Hin) as (cn & Ec & Ep).
  apply (wf_not_self_parent s k cn H Ec Ep).
Qed.

Lemma ren1_inj old new keys a b :
  new = old \/ ~ In new keys -> In a keys -> In b keys -> ren1 old new a = ren1 old new b -> a = b.
Proof.
  intros Hnew Ha Hb. unfold ren1. destruct (Nat.eqb_spec a old) as [->|Ha']; destruct (Nat.eqb_spec b old) as [->|Hb']; auto.
  - intros ->. destruct Hnew as [->|Hn]; [congruence|contradiction].
  - intros <-. destruct Hnew as [->|Hn]; [congruence|contradiction].
Qed.

Section MoveEnd.
  Context {V : Type}.
  Implicit Types (l : list (nat * V)) (v : V).

  Lemma aget_new_adel old new l : NoDup (akeys l) -> new = old \/ aget new l = None -> aget new (adel old l) = None.
  Proof.
    intros Hnd [->|Hn]; [apply aget_adel_same; exact Hnd|].
    destruct (Nat.eq_dec new old) as [->|Hne]; [apply aget_adel_same; exact Hnd|]. rewrite aget_adel_other by exact Hne. exact Hn.
  Qed.

  Lemma aget_move_end old new v l k :
    NoDup (akeys l) -> aget old l = Some v -> new = old \/ aget new l = None -> In k (akeys l) ->
    aget (ren1 old new k) (adel old l ++ [(new, v)]) = aget k l.
  Proof.
    intros Hnd Eo Hnew Hk. rewrite aget_app. unfold ren1. destruct (Nat.eqb_spec k old) as [->|Hne].
    - rewrite (aget_new_adel old new l Hnd Hnew). cbn. rewrite Nat.eqb_refl. symmetry. exact Eo.
    - rewrite aget_adel_other by exact Hne. apply keys_aget in Hk. destruct Hk as [u ->]. reflexivity.
  Qed.

  Lemma NoDup_move_end old new v l :
    NoDup (akeys l) -> new = old \/ aget new l = None -> NoDup (akeys (adel old l ++ [(new, v)])).
  Proof.
    intros Hnd Hnew. apply NoDup_akeys_snoc; [apply NoDup_akeys_adel; exact Hnd|apply aget_new_adel; assumption].
  Qed.

  Lemma keys_move_end old new v l k' :
    NoDup (akeys l) -> In old (akeys l) -> In k' (akeys (adel old l ++ [(new, v)])) ->
    exists k, k' = ren1 old new k /\ In k (akeys l).
  Proof.
    intros Hnd Ho Hk'. rewrite akeys_app, akeys_adel in Hk'. apply in_app_or in Hk'. destruct Hk' as [Hk'|Hk'].
    - apply (In_remove_first _ _ _ Hnd) in Hk'. destruct Hk' as [Hk' Hne]. exists k'. split; [|exact Hk'].
      symmetry. apply ren1_other. exact Hne.
    - cbn in Hk'. destruct Hk' as [<-|[]]. exists old. split; [|exact Ho]. symmetry. apply ren1_same.
  Qed.
End MoveEnd.

Lemma rename_inv s new old s' :
  rename s new old = Some s' ->
  exists s0 nd t, access s old = Some (s0, nd, t) /\
    ((old = new /\ s' = upd_tensors s0 (fun l => adel old l ++ [(new, t)])) \/
     (old <> new /\ amem new (nodes s) = false /\
      exists s2, replace_node_in_neighbours (upd_tensors s0 (fun l => adel old l ++ [(new, t)])) new old false = Some s2 /\
                 s' = upd_nodes s2 (fun l => adel old l ++ [(new, nd)]))).
Proof.
  unfold rename. destruct (access s old) as [[[s0 nd] t]|]; [|discriminate].
  intros Hr. exists s0, nd, t. split; [reflexivity|].
  destruct (Nat.eqb_spec old new) as [->|Hne].
  - left. injection Hr as <-. split; reflexivity.
  - right. destruct (amem new (nodes s)); [discriminate|].
    destruct (replace_node_in_neighbours _ new old false) as [s2|] eqn:E; [|discriminate].
    injection Hr as <-. split; [exact Hne|]. split; [reflexivity|]. exists s2. split; reflexivity.
Qed.

(* under the invariant, with a fresh new identifier, replace_node_in_neighbours is the pointwise renaming *)
Lemma rnin_fix_ren s old new nd k nk :
  wf s -> aget old (nodes s) = Some nd -> aget k (nodes s) = Some nk -> k <> new ->
  rnin_fix new old nd k nk = ren_node (ren1 old new) nk.
Proof.
  intros H Eo Ek Hkn. pose proof (wf_node s H k nk Ek) as Hn. pose proof (wf_node s H old nd Eo) as Ho.
  assert (Hb : negb (Nat.eqb k new) = true) by (destruct (Nat.eqb_spec k new); [congruence|reflexivity]).
  apply node_ext.
  - rewrite rnin_fix_parent, Hb, andb_true_r. cbn. destruct (memb k (children nd)) eqn:Hm.
    + apply memb_In in Hm. destruct (ni_ch _ _ _ Ho k Hm) as (cn & Ec & Ep). rewrite Ek in Ec. injection Ec as <-.
      rewrite Ep. cbn. rewrite ren1_same. reflexivity.
    + apply memb_false in Hm. destruct (parent nk) as [q|] eqn:Eq; [|reflexivity]. cbn. rewrite ren1_other; [reflexivity|].
      intros ->. destruct (ni_par _ _ _ Hn old Eq) as (pn & i & Epn & Hin & _). rewrite Eo in Epn. injection Epn as <-. contradiction.
  - rewrite rnin_fix_children, Hb, andb_true_r. cbn.
    destruct (match parent nd with Some p => Nat.eqb k p | None => false end) eqn:Hp.
    + apply replace_first_map. apply (ni_chnd _ _ _ Hn).
    + symmetry. apply map_ren1_not_in. intros Hin. destruct (ni_ch _ _ _ Hn old Hin) as (cn & Ec & Ep).
      rewrite Eo in Ec. injection Ec as <-. rewrite Ep, Nat.eqb_refl in Hp. discriminate.
  - cbn. apply rnin_fix_perm.
  - cbn. apply rnin_fix_perm.
Qed.

Theorem rename_relabels s new old s' :
  wf s -> rename s new old = Some s' ->
  exists s0 nd t, access s old = Some (s0, nd, t) /\ wf s0 /\ relabels (ren1 old new) s0 s'.
Proof.
  intros H Hr. destruct (rename_inv _ _ _ _ Hr) as (s0 & nd & t & Ha & Hcases).
  exists s0, nd, t. split; [exact Ha|].
  pose proof (access_preserves_wf _ _ _ _ _ H Ha) as H0. split; [exact H0|].
  destruct (access_keys _ _ _ _ _ Ha) as (Kn & Kt & _).
  destruct (access_inv _ _ _ _ _ Ha) as (ndo & to & Endo & Eto & _ & _ & Es0).
  assert (Eo : aget old (nodes s0) = Some nd) by (rewrite Es0; cbn; apply aget_aset_same).
  assert (Et : aget old (tensors s0) = Some t) by (rewrite Es0; cbn; apply aget_aset_same).
  assert (Hto : In old (akeys (tensors s0))) by (eapply aget_Some_keys; eauto).
  assert (Hno : In old (akeys (nodes s0))) by (eapply aget_Some_keys; eauto).
  (* the tensor dictionary is the same in both cases *)
  assert (TT : new = old \/ aget new (nodes s0) = None ->
          let ts' := adel old (tensors s0) ++ [(new, t)] in
          NoDup (akeys ts') /\
          (forall k, In k (akeys (nodes s0)) -> aget (ren1 old new k) ts' = aget k (tensors s0)) /\
          (forall k', In k' (akeys ts') -> exists k, k' = ren1 old new k /\ In k (akeys (nodes s0)))).
  { intros Hnew ts'.
    assert (Hnew' : new = old \/ aget new (tensors s0) = None).
    { destruct Hnew as [->|Hn]; [left; reflexivity|right]. apply aget_None. intros Hin. apply (wf_keys_iff s0 _ H0) in Hin.
      apply aget_None in Hn. contradiction. }
    split; [apply NoDup_move_end; [apply (wf_tnd s0 H0)|exact Hnew']|]. split.
    - intros k Hk. apply aget_move_end; auto; [apply (wf_tnd s0 H0)|apply (wf_keys_iff s0 _ H0); exact Hk].
    - intros k' Hk'. destruct (keys_move_end old new t (tensors s0) k' (wf_tnd s0 H0) Hto Hk') as (k & -> & Hk).
      exists k. split; [reflexivity|apply (wf_keys_iff s0 _ H0); exact Hk]. }
  destruct Hcases as [[<- ->]|(Hne & Hm & s2 & Hrn & ->)].
  - (* old = new: only the tensor dictionary is reordered *)
    destruct (TT (or_introl eq_refl)) as (T1 & T2 & T3).
    constructor; cbn [nodes tensors root dims next_wire upd_tensors].
    + intros a b Ha' Hb'. rewrite !ren1_id. auto.
    + apply (wf_nd s0 H0).
    + exact T1.
    + intros k nk E. rewrite ren1_id, ren_node_id by apply ren1_id. exact E.
    + intros k' Hk'. exists k'. split; [symmetry; apply ren1_id|exact Hk'].
    + exact T2.
    + exact T3.
    + destruct (root s0); cbn; [rewrite ren1_id|]; reflexivity.
    + reflexivity.
    + reflexivity.
  - (* old <> new, new fresh *)
    assert (Hn0 : aget new (nodes s0) = None).
    { apply aget_None. rewrite Kn. apply aget_None. apply amem_false. exact Hm. }
    destruct (TT (or_intror Hn0)) as (T1 & T2 & T3).
    set (s1 := upd_tensors s0 (fun l => adel old l ++ [(new, t)])) in *.
    destruct (replace_node_in_neighbours_spec s1 new old false s2 (wf_nd s0 H0) (fun E => Hne (eq_sym E)) Hrn)
      as (on & Eon & G & K & R & _ & Ets & Edims & Enw & _).
    cbn [nodes s1 upd_tensors] in Eon, G, K. rewrite Eo in Eon. injection Eon as <-.
    cbn [andb] in G.
    assert (Hnd2 : NoDup (akeys (nodes s2))) by (rewrite K; apply (wf_nd s0 H0)).
    assert (Hnew2 : new = old \/ aget new (nodes s2) = None) by (right; rewrite G, Hn0; reflexivity).
    assert (Eo2 : aget old (nodes s2) = Some nd).
    { rewrite G, Eo. cbn. f_equal. rewrite (rnin_fix_ren s0 old new nd old nd H0 Eo Eo (fun E => Hne E)).
      apply node_ext; cbn; try reflexivity.
      - destruct (parent nd) as [q|] eqn:Eq; [|reflexivity]. cbn. rewrite ren1_other; [reflexivity|].
        intros ->. apply (wf_not_self_parent s0 old nd H0 Eo Eq).
      - apply map_ren1_not_in. apply (wf_not_self_child s0 old nd H0 Eo). }
    constructor; cbn [nodes tensors root dims next_wire upd_nodes].
    + intros a b. apply ren1_inj. right. apply aget_None. exact Hn0.
    + apply NoDup_move_end; assumption.
    + rewrite Ets. exact T1.
    + intros k nk E. transitivity (aget k (nodes s2)).
      * apply (aget_move_end old new nd (nodes s2) k Hnd2 Eo2 Hnew2). rewrite K. eapply aget_Some_keys; eauto.
      * rewrite G, E. cbn. f_equal. apply (rnin_fix_ren s0 old new nd k nk H0 Eo E). intros ->. congruence.
    + intros k' Hk'. rewrite <- K. apply (keys_move_end old new nd (nodes s2) k' Hnd2); [rewrite K; exact Hno|exact Hk'].
    + rewrite Ets. exact T2.
    + rewrite Ets. exact T3.
    + rewrite R. cbn [root s1 upd_tensors]. destruct (wf_root s0 H0) as (r & rn & Hroot & Er & Hpr & Huniq). rewrite Hroot. cbn.
      destruct (parent nd) as [q|] eqn:Eq.
      * rewrite ren1_other; [reflexivity|]. intros ->. rewrite Eo in Er. injection Er as <-. congruence.
      * rewrite (Huniq old nd Eo Eq). rewrite ren1_same. reflexivity.
    + rewrite Edims. reflexivity.
    + rewrite Enw. reflexivity.
Qed.

Theorem rename_preserves_wf s new old s' : wf s -> rename s new old = Some s' -> wf s'.
Proof.
  intros H Hr. destruct (rename_relabels _ _ _ _ H Hr) as (s0 & nd & t & Ha & H0 & R).
  apply (relabels_wf _ s0 s' H0 R).
Qed.

Theorem rename_preserves_wfb s new old s' : wfb s = true -> rename s new old = Some s' -> wfb s' = true.
Proof. intros H Hr. apply wfb_iff. eapply rename_preserves_wf; [apply wfb_iff; exact H|exact Hr]. Qed.

Theorem rename_total_atoms s new old s' :
  wf s -> rename s new old = Some s' -> Permutation (total_atoms s') (total_atoms s).
Proof.
  intros H Hr. destruct (rename_relabels _ _ _ _ H Hr) as (s0 & nd & t & Ha & H0 & R).
  rewrite (relabels_total_atoms _ s0 s' H0 R). rewrite (access_total_atoms _ _ _ _ _ H Ha). reflexivity.
Qed.

Theorem rename_total_ends s new old s' :
  wf s -> rename s new old = Some s' -> Permutation (total_ends s') (total_ends s).
Proof.
  intros H Hr. destruct (rename_relabels _ _ _ _ H Hr) as (s0 & nd & t & Ha & H0 & R).
  rewrite (relabels_total_ends _ s0 s' H0 R). apply (access_total_ends _ _ _ _ _ H Ha).
Qed.

(* the renamed node moves to the end of the node dictionary *)
Theorem rename_open_wires s new old s' :
  wf s -> rename s new old = Some s' -> Permutation (open_wires s') (open_wires s).
Proof.
  intros H Hr. destruct (rename_relabels _ _ _ _ H Hr) as (s0 & nd & t & Ha & H0 & R).
  rewrite (relabels_open_wires _ s0 s' H0 R). rewrite (access_open_wires _ _ _ _ _ H Ha). reflexivity.
Qed.

(* every node k is found under (ren1 old new k) with parent and children renamed pointwise and the
   same logical axes *)
Theorem rename_lax s new old s' k nk :
  wf s -> rename s new old = Some s' -> aget k (nodes s) = Some nk ->
  exists nk', aget (ren1 old new k) (nodes s') = Some nk' /\
              parent nk' = option_map (ren1 old new) (parent nk) /\
              children nk' = map (ren1 old new) (children nk) /\
              lax s' (ren1 old new k) nk' = lax s k nk.
Proof.
  intros H Hr E. destruct (rename_relabels _ _ _ _ H Hr) as (s0 & nd & t & Ha & H0 & R).
  destruct (access_lax _ _ _ _ _ k nk H Ha E) as (nk0 & E0 & Hp & Hc & Hl).
  destruct (relabels_lax _ s0 s' k nk0 H0 R E0) as (E' & _ & L).
  exists (ren_node (ren1 old new) nk0). split; [exact E'|]. rewrite L, Hl. cbn [ren_node parent children].
  rewrite Hp, Hc. auto.
Qed.

(* the node formerly called old: found under new, parent and children unchanged *)
Theorem rename_lax_old s new old s' nk :
  wf s -> rename s new old = Some s' -> aget old (nodes s) = Some nk ->
  exists nk', aget new (nodes s') = Some nk' /\ parent nk' = parent nk /\ children nk' = children nk /\
              lax s' new nk' = lax s old nk.
Proof.
  intros H Hr E. destruct (rename_lax _ _ _ _ _ _ H Hr E) as (nk' & E' & Hp & Hc & Hl).
  rewrite ren1_same in E', Hl. exists nk'. split; [exact E'|]. split; [|split; [|exact Hl]].
  - rewrite Hp. destruct (parent nk) as [q|] eqn:Eq; [|reflexivity]. cbn. rewrite ren1_other; [reflexivity|].
    intros ->. apply (wf_not_self_parent s old nk H E Eq).
  - rewrite Hc. apply map_ren1_not_in. apply (wf_not_self_child s old nk H E).
Qed.

(* every other node keeps its key; old is replaced by new in its parent and children *)
Theorem rename_lax_other s new old s' k nk :
  wf s -> rename s new old = Some s' -> k <> old -> aget k (nodes s) = Some nk ->
  exists nk', aget k (nodes s') = Some nk' /\
              parent nk' = option_map (fun x => if Nat.eqb x old then new else x) (parent nk) /\
              children nk' = map (fun x => if Nat.eqb x old then new else x) (children nk) /\
              children nk' = replace_first old new (children nk) /\
              lax s' k nk' = lax s k nk.
Proof.
  intros H Hr Hne E. destruct (rename_lax _ _ _ _ _ _ H Hr E) as (nk' & E' & Hp & Hc & Hl).
  rewrite (ren1_other old new k Hne) in E', Hl. exists nk'. repeat split; auto.
  rewrite Hc. symmetry. apply replace_first_map. apply (ni_chnd _ _ _ (wf_node s H k nk E)).
Qed.

(* the old identifier disappears (unless it is reused) *)
Theorem rename_old_gone s new old s' :
  wf s -> rename s new old = Some s' -> old <> new -> aget old (nodes s') = None /\ aget old (tensors s') = None.
Proof.
  intros H Hr Hne. destruct (rename_relabels _ _ _ _ H Hr) as (s0 & nd & t & Ha & H0 & R). split.
  - apply aget_None. intros Hin. destruct (rl_n2 _ _ _ R old Hin) as (k & Ek & Hk).
    unfold ren1 in Ek. destruct (Nat.eqb_spec k old); congruence.
  - apply aget_None. intros Hin. destruct (rl_t2 _ _ _ R old Hin) as (k & Ek & Hk).
    unfold ren1 in Ek. destruct (Nat.eqb_spec k old); congruence.
Qed.

(* ================================================================================================ *)
(* ---- 3. insert_identity ------------------------------------------------------------------------- *)
(* ================================================================================================ *)
Definition ii_node (p c : id) (d : nat) : node := {| parent := Some p; children := [c]; perm := [0; 1]; shape := [d; d] |}.

Lemma insert_identity_inv s c p new s' :
  insert_identity s c p new = Some s' ->
  exists cn pn ct pn',
    aget c (nodes s) = Some cn /\ aget p (nodes s) = Some pn /\ aget c (tensors s) = Some ct /\
    parent cn = Some p /\ In c (children pn) /\ aget new (nodes s) = None /\
    replace_neighbour pn c new = Some pn' /\
    let j := nth 0 (perm cn) 0 in
    let cw := nth j (axes ct) 0 in
    let w := next_wire s in
    let d := wdim s cw in
    nodes s' = aset new (ii_node p c d) (aset p pn' (aset c (with_parent cn (Some new)) (nodes s))) /\
    tensors s' = aset new {| axes := [cw; w]; atoms := [next_atom s]; bnd := [] |}
                   (aset c {| axes := set_nth j w (axes ct); atoms := atoms ct; bnd := bnd ct |} (tensors s)) /\
    root s' = root s /\ dims s' = dims s ++ [(w, d)] /\ next_wire s' = S w /\ next_atom s' = S (next_atom s).
Proof.
  unfold insert_identity.
  destruct (aget c (nodes s)) as [cn|] eqn:Ec; [|discriminate].
  destruct (aget p (nodes s)) as [pn|] eqn:Ep; [|discriminate].
  destruct (aget c (tensors s)) as [ct|] eqn:Et; [|discriminate].
  destruct (parent cn) as [q|] eqn:Eq; cbn [negb]; [|discriminate].
  destruct (Nat.eqb_spec q p) as [->|Hne]; cbn [negb]; [|discriminate].
  destruct (memb c (children pn)) eqn:Hm; cbn [negb]; [|discriminate].
  destruct (amem new (nodes s)) eqn:Hnew; [discriminate|].
  unfold replace_neighbour at 1. rewrite Eq, Nat.eqb_refl.
  destruct (replace_neighbour pn c new) as [pn'|] eqn:Epn'; [|discriminate].
  cbn [fresh_wires fresh_atom hd].
  set (d := wdim s (nth (nth 0 (perm cn) 0) (axes ct) 0)).
  change (open_leg_to_parent (new_node [d; d]) p 0)
    with (Some {| parent := Some p; children := []; perm := [0; 1]; shape := [d; d] |}).
  cbv iota beta.
  change (open_leg_to_child {| parent := Some p; children := []; perm := [0; 1]; shape := [d; d] |} c 1)
    with (Some (ii_node p c d)).
  cbv iota beta. intros [= <-].
  exists cn, pn, ct, pn'. apply memb_In in Hm. apply amem_false in Hnew.
  cbn zeta. repeat split; assumption.
Qed.

(* ---- set_nth ----------------------------------------------------------------------------------- *)
Section SetNth.
  Context {A : Type}.
  Implicit Types (l : list A) (x d : A).

  Lemma set_nth_length j x l : length (set_nth j x l) = length l.
  Proof. revert j. induction l as [|y t IH]; intros [|j]; cbn; auto. Qed.

  Lemma nth_set_nth_same j x l d : j < length l -> nth j (set_nth j x l) d = x.
  Proof. revert j. induction l as [|y t IH]; intros [|j] H; cbn in *; try lia; auto. apply IH. lia. Qed.

  Lemma nth_set_nth_other i j x l d : i <> j -> nth i (set_nth j x l) d = nth i l d.
  Proof.
    revert i j. induction l as [|y t IH]; intros [|i] [|j] H; cbn; try reflexivity; try congruence.
    apply IH. congruence.
  Qed.

  Lemma In_set_nth j x l y : In y (set_nth j x l) -> y = x \/ In y l.
  Proof.
    revert j. induction l as [|z t IH]; intros [|j]; cbn; try tauto.
    - intros [<-|H]; auto.
    - intros [<-|H]; auto. destruct (IH j H); auto.
  Qed.

  Lemma set_nth_nth j l d : set_nth j (nth j l d) l = l.
  Proof. revert j. induction l as [|z t IH]; intros [|j]; cbn; try reflexivity. f_equal. apply IH. Qed.

  Lemma set_nth_perm j x l d : j < length l -> Permutation (nth j l d :: set_nth j x l) (x :: l).
  Proof.
    revert j. induction l as [|z t IH]; intros [|j] H; cbn in *; try lia.
    - apply perm_swap.
    - rewrite perm_swap. rewrite (IH j) by lia. apply perm_swap.
  Qed.

  Lemma permute_set_nth d p j x l :
    j < length l -> permute d p (set_nth j x l) = map (fun i => if Nat.eqb i j then x else nth i l d) p.
  Proof.
    intros Hj. unfold permute. apply map_ext. intros i. destruct (Nat.eqb_spec i j) as [->|Hne].
    - apply nth_set_nth_same. exact Hj.
    - apply nth_set_nth_other. exact Hne.
  Qed.
End SetNth.

Lemma map_set_nth {A B} (f : A -> B) j x (l : list A) : map f (set_nth j x l) = set_nth j (f x) (map f l).
Proof. revert j. induction l as [|z t IH]; intros [|j]; cbn; try reflexivity. f_equal. apply IH. Qed.

(* a permutation starting with j, applied after overwriting position j *)
Lemma permute_set_nth_head (j : nat) (pm : list nat) (x : nat) (l : list nat) :
  j < length l -> ~ In j pm -> permute 0 (j :: pm) (set_nth j x l) = x :: permute 0 pm l.
Proof.
  intros Hj Hni. rewrite (permute_set_nth 0) by exact Hj. cbn [map]. rewrite Nat.eqb_refl. f_equal.
  unfold permute. apply map_ext_in. intros i Hi. destruct (Nat.eqb_spec i j) as [->|]; [contradiction|reflexivity].
Qed.

Lemma index_of_replace_first_new c new l : ~ In new l -> index_of new (replace_first c new l) = index_of c l.
Proof.
  induction l as [|z t IH]; cbn; [reflexivity|]. intros Hni.
  destruct (Nat.eqb_spec c z) as [->|Hne]; cbn.
  - rewrite Nat.eqb_refl. reflexivity.
  - destruct (Nat.eqb_spec new z) as [->|_]; [exfalso; apply Hni; left; reflexivity|].
    rewrite IH; [reflexivity|]. intros Hin. apply Hni. right. exact Hin.
Qed.

Lemma index_of_replace_first_other c new l k : k <> c -> k <> new -> index_of k (replace_first c new l) = index_of k l.
Proof.
  intros Hc Hn. induction l as [|z t IH]; cbn; [reflexivity|].
  destruct (Nat.eqb_spec c z) as [->|Hne]; cbn.
  - destruct (Nat.eqb_spec k new); [congruence|]. destruct (Nat.eqb_spec k z); [congruence|]. reflexivity.
  - rewrite IH. reflexivity.
Qed.

Lemma NoDup_replace_first c new l : NoDup l -> ~ In new l -> NoDup (replace_first c new l).
Proof.
  induction l as [|z t IH]; cbn; intros Hnd Hni; [constructor|]. inversion Hnd as [|? ? Hz Hnd']; subst.
  destruct (Nat.eqb_spec c z) as [->|Hne].
  - constructor; [|exact Hnd']. intros Hin. apply Hni. right. exact Hin.
  - constructor.
    + intros Hin. apply In_replace_first in Hin. destruct Hin as [->|[Hin _]]; [apply Hni; left; reflexivity|contradiction].
    + apply IH; [exact Hnd'|]. intros Hin. apply Hni. right. exact Hin.
Qed.

Lemma wdim_snoc s s' w d x :
  dims s' = dims s ++ [(w, d)] -> aget w (dims s) = None ->
  wdim s' x = if Nat.eqb x w then d else wdim s x.
Proof.
  intros Hd Hw. unfold wdim. rewrite Hd, aget_app. destruct (Nat.eqb_spec x w) as [->|Hne].
  - rewrite Hw. cbn. rewrite Nat.eqb_refl. reflexivity.
  - destruct (aget x (dims s)); [reflexivity|]. cbn. destruct (Nat.eqb_spec x w); [congruence|reflexivity].
Qed.

Definition ii_j (cn : node) : nat := nth 0 (perm cn) 0.
Definition ii_cw (cn : node) (ct : sarr) : wire := nth (ii_j cn) (axes ct) 0.
Definition ii_ct (s : store) (cn : node) (ct : sarr) : sarr :=
  {| axes := set_nth (ii_j cn) (next_wire s) (axes ct); atoms := atoms ct; bnd := bnd ct |}.
Definition ii_nt (s : store) (cn : node) (ct : sarr) : sarr :=
  {| axes := [ii_cw cn ct; next_wire s]; atoms := [next_atom s]; bnd := [] |}.
Definition ii_pn (c new : id) (pn : node) : node := with_children pn (replace_first c new (children pn)).

Lemma insert_identity_facts s c p new s' :
  wf s -> insert_identity s c p new = Some s' ->
  exists cn pn ct pm L',
    aget c (nodes s) = Some cn /\ aget p (nodes s) = Some pn /\ aget c (tensors s) = Some ct /\
    parent cn = Some p /\ In c (children pn) /\ aget new (nodes s) = None /\
    p <> c /\ new <> p /\ new <> c /\
    perm cn = ii_j cn :: pm /\ ~ In (ii_j cn) pm /\ ii_j cn < length (axes ct) /\
    laxes cn ct = ii_cw cn ct :: L' /\ laxes (with_parent cn (Some new)) (ii_ct s cn ct) = next_wire s :: L' /\
    ~ In (next_wire s) L' /\ ii_cw cn ct < next_wire s /\
    nodes s' = aset new (ii_node p c (wdim s (ii_cw cn ct)))
                 (aset p (ii_pn c new pn) (aset c (with_parent cn (Some new)) (nodes s))) /\
    tensors s' = aset new (ii_nt s cn ct) (aset c (ii_ct s cn ct) (tensors s)) /\
    root s' = root s /\ dims s' = dims s ++ [(next_wire s, wdim s (ii_cw cn ct))] /\
    next_wire s' = S (next_wire s) /\ next_atom s' = S (next_atom s).
Proof.
  intros H Hi. destruct (insert_identity_inv _ _ _ _ _ Hi) as (cn & pn & ct & pn' & Ec & Ep & Et & Epar & Hin & Hnew & Hrn & Hs').
  cbv zeta in Hs'. destruct Hs' as (Hn' & Ht' & Hr' & Hd' & Hw' & Ha').
  pose proof (wf_node s H c cn Ec) as Hcn.
  assert (Htc : tens s c = ct) by (apply tens_aget; exact Et).
  assert (Hlen : length (shape cn) = length (axes ct)).
  { rewrite (ni_shape _ _ _ Hcn), Htc, map_length. reflexivity. }
  assert (Hpc : p <> c) by (intros ->; apply (wf_not_self_parent s c cn H Ec Epar)).
  assert (Hnp : new <> p) by (intros ->; congruence).
  assert (Hnc : new <> c) by (intros ->; congruence).
  (* the parent's record *)
  assert (Epn' : pn' = ii_pn c new pn).
  { unfold replace_neighbour in Hrn. apply memb_In in Hin. rewrite Hin in Hrn.
    destruct (parent pn) as [pp|] eqn:Epp; [|injection Hrn as <-; reflexivity].
    destruct (Nat.eqb_spec pp c) as [->|_]; [|injection Hrn as <-; reflexivity].
    exfalso. apply (wf_parent_not_child s c cn p pn H Ec Epar Ep Epp). }
  subst pn'.
  (* the child's permutation starts with the parent leg *)
  destruct (perm cn) as [|j pm] eqn:Epm.
  { exfalso. pose proof (ni_virt _ _ _ Hcn) as Hv. unfold nvirt, nparents, nlegs in Hv. rewrite Epar, Epm in Hv. cbn in Hv. lia. }
  assert (Hj : ii_j cn = j) by (unfold ii_j; rewrite Epm; reflexivity).
  pose proof (ni_perm _ _ _ Hcn) as Hperm. rewrite Epm in Hperm.
  assert (Hndp : NoDup (j :: pm)) by (apply (Permutation_NoDup (Permutation_sym Hperm)); apply seq_NoDup).
  assert (Hb : forall i, In i (j :: pm) -> i < length (axes ct)) by (rewrite <- Hlen; apply (perm_bound _ _ Hperm)).
  inversion Hndp as [|? ? Hjni Hndpm]; subst x l.
  assert (Hjlt : j < length (axes ct)) by (apply Hb; left; reflexivity).
  assert (Hwires : forall x, In x (axes ct) -> x < next_wire s) by (intros x Hx; apply (wf_wires s H c ct x Et Hx)).
  exists cn, pn, ct, pm, (permute 0 pm (axes ct)).
  rewrite Hj. do 9 (split; [assumption|]).
  split; [exact Epm|]. split; [exact Hjni|]. split; [exact Hjlt|].
  split; [unfold laxes, ii_cw; rewrite Epm, Hj; reflexivity|].
  split.
  { unfold laxes, ii_ct. cbn [with_parent perm axes]. rewrite Epm, Hj. apply permute_set_nth_head; assumption. }
  split.
  { intros Hin'. apply (permute_incl 0) in Hin'; [|intros i Hi'; apply Hb; right; exact Hi'].
    apply Hwires in Hin'. lia. }
  split.
  { unfold ii_cw. rewrite Hj. apply Hwires. apply nth_In. exact Hjlt. }
  unfold ii_ct, ii_nt, ii_cw. rewrite Hj. unfold ii_j in *. rewrite Epm in *. cbn [nth] in *.
  repeat split; assumption.
Qed.

Lemma firstn_incl' {A} n (l : list A) : incl (firstn n l) l.
Proof. intros x Hx. rewrite <- (firstn_skipn n l). apply in_or_app. left. exact Hx. Qed.

Lemma skipn_incl' {A} n (l : list A) : incl (skipn n l) l.
Proof. intros x Hx. rewrite <- (firstn_skipn n l). apply in_or_app. right. exact Hx. Qed.

Lemma own_of_incl_laxes n t : incl (own_of n t) (laxes n t).
Proof.
  unfold own_of. intros x Hx. apply in_app_or in Hx. destruct Hx as [Hx|Hx].
  - apply (firstn_incl' _ _ x Hx).
  - apply (skipn_incl' _ _ x Hx).
Qed.

Lemma wf_laxes_incl s k nk : wf s -> aget k (nodes s) = Some nk -> incl (lax s k nk) (axes (tens s k)).
Proof.
  intros H E. unfold lax, laxes. apply permute_incl.
  pose proof (wf_node s H k nk E) as Hn.
  replace (length (axes (tens s k))) with (length (shape nk)); [apply perm_bound; apply (ni_perm _ _ _ Hn)|].
  rewrite (ni_shape _ _ _ Hn), map_length. reflexivity.
Qed.

Lemma wf_lax_lt s k nk x : wf s -> aget k (nodes s) = Some nk -> In x (lax s k nk) -> x < next_wire s.
Proof.
  intros H E Hx. apply (wf_laxes_incl s k nk H E) in Hx.
  apply (wf_wires s H k (tens s k) x (wf_tens s k nk H E) Hx).
Qed.

Theorem insert_identity_preserves_wf s c p new s' : wf s -> insert_identity s c p new = Some s' -> wf s'.
Proof.
  intros H Hi.
  destruct (insert_identity_facts _ _ _ _ _ H Hi)
    as (cn & pn & ct & pm & L' & Ec & Ep & Et & Epar & Hin & Hnew & Hpc & Hnp & Hnc & Epm & Hjni & Hjlt & HL & HL2 & HwL & Hcw
        & Hn' & Ht' & Hr' & Hd' & Hw' & _).
  set (w := next_wire s) in *. set (cw := ii_cw cn ct) in *. set (d := wdim s cw) in *.
  set (cn' := with_parent cn (Some new)) in *. set (pn' := ii_pn c new pn) in *. set (n2 := ii_node p c d) in *.
  set (ct' := ii_ct s cn ct) in *. set (nt := ii_nt s cn ct) in *.
  pose proof (wf_node s H c cn Ec) as Hcn. pose proof (wf_node s H p pn Ep) as Hpn.
  assert (Htc : tens s c = ct) by (apply tens_aget; exact Et).
  assert (Hnewk : ~ In new (akeys (nodes s))) by (apply aget_None; exact Hnew).
  assert (F1 : forall k, aget k (nodes s') =
            if Nat.eqb k new then Some n2 else if Nat.eqb k p then Some pn' else if Nat.eqb k c then Some cn' else aget k (nodes s)).
  { intros k. rewrite Hn', !aget_aset. reflexivity. }
  assert (F2 : forall k, tens s' k = if Nat.eqb k new then nt else if Nat.eqb k c then ct' else tens s k).
  { intros k. unfold tens. rewrite Ht', !aget_aset. destruct (Nat.eqb k new); [reflexivity|]. destruct (Nat.eqb k c); reflexivity. }
  assert (Hwd : aget w (dims s) = None).
  { apply aget_None. intros Hin'. apply (wf_dims s H) in Hin'. unfold w in Hin'. lia. }
  assert (W : forall x, wdim s' x = if Nat.eqb x w then d else wdim s x) by (intros x; apply (wdim_snoc s s' w d x Hd' Hwd)).
  assert (Wold : forall k nk, aget k (nodes s) = Some nk ->
            map (wdim s') (axes (tens s k)) = map (wdim s) (axes (tens s k))).
  { intros k nk E. apply map_ext_in. intros x Hx. rewrite W.
    pose proof (wf_wires s H k (tens s k) x (wf_tens s k nk H E) Hx) as Hlt. fold w in Hlt.
    destruct (Nat.eqb_spec x w); [lia|reflexivity]. }
  assert (Hlc : lax s c cn = cw :: L') by (unfold lax; rewrite Htc; exact HL).
  assert (Hlc' : lax s' c cn' = w :: L').
  { unfold lax. rewrite F2. destruct (Nat.eqb_spec c new); [congruence|]. rewrite Nat.eqb_refl. exact HL2. }
  assert (Hnewch : forall k nk, aget k (nodes s) = Some nk -> ~ In new (children nk)).
  { intros k nk E Hx. apply Hnewk. apply (wf_neighbours_keys s k nk new H E). unfold neighbouring_nodes.
    destruct (parent nk); [right|]; exact Hx. }
  assert (Hnewpar : forall k nk, aget k (nodes s) = Some nk -> parent nk <> Some new).
  { intros k nk E Hx. apply Hnewk. apply (wf_neighbours_keys s k nk new H E). unfold neighbouring_nodes.
    rewrite Hx. left. reflexivity. }
  (* backward and forward correspondence of the old nodes *)
  assert (C3 : forall k nk', k <> new -> aget k (nodes s') = Some nk' ->
            exists nk, aget k (nodes s) = Some nk /\ perm nk' = perm nk /\ shape nk' = shape nk /\
                       parent nk' = (if Nat.eqb k c then Some new else parent nk) /\
                       children nk' = (if Nat.eqb k p then replace_first c new (children nk) else children nk) /\
                       lax s' k nk' = (if Nat.eqb k c then w :: L' else lax s k nk)).
  { intros k nk' Hk E. rewrite F1 in E. destruct (Nat.eqb_spec k new); [congruence|].
    destruct (Nat.eqb_spec k p) as [->|Hkp].
    - injection E as <-. exists pn. destruct (Nat.eqb_spec p c); [congruence|]. repeat split; auto.
      unfold lax. rewrite F2. destruct (Nat.eqb_spec p new); [congruence|]. destruct (Nat.eqb_spec p c); [congruence|]. reflexivity.
    - destruct (Nat.eqb_spec k c) as [->|Hkc].
      + injection E as <-. exists cn. repeat split; auto.
      + exists nk'. repeat split; auto. unfold lax. rewrite F2.
        destruct (Nat.eqb_spec k new); [congruence|]. destruct (Nat.eqb_spec k c); [congruence|]. reflexivity. }
  assert (C4 : forall k nk, aget k (nodes s) = Some nk ->
            exists nk', aget k (nodes s') = Some nk' /\ perm nk' = perm nk /\ shape nk' = shape nk /\
                        parent nk' = (if Nat.eqb k c then Some new else parent nk) /\
                        children nk' = (if Nat.eqb k p then replace_first c new (children nk) else children nk) /\
                        lax s' k nk' = (if Nat.eqb k c then w :: L' else lax s k nk)).
  { intros k nk E. assert (Hk : k <> new) by (intros ->; congruence).
    assert (exists nk', aget k (nodes s') = Some nk') as [nk' E'].
    { rewrite F1. destruct (Nat.eqb k new); [eauto|]. destruct (Nat.eqb k p); [eauto|]. destruct (Nat.eqb k c); eauto. }
    exists nk'. split; [exact E'|]. destruct (C3 k nk' Hk E') as (nk0 & E0 & R). rewrite E in E0. injection E0 as <-. exact R. }
  assert (Hnvirt : forall k nk nk', parent nk' = (if Nat.eqb k c then Some new else parent nk) ->
            children nk' = (if Nat.eqb k p then replace_first c new (children nk) else children nk) ->
            aget k (nodes s) = Some nk -> nparents nk' = nparents nk /\ nvirt nk' = nvirt nk).
  { intros k nk nk' Hp Hc E. assert (Hnp' : nparents nk' = nparents nk).
    { unfold nparents. rewrite Hp. destruct (Nat.eqb_spec k c) as [->|]; [|reflexivity].
      rewrite Ec in E. injection E as <-. rewrite Epar. reflexivity. }
    split; [exact Hnp'|]. unfold nvirt. rewrite Hnp', Hc. destruct (Nat.eqb k p); [rewrite replace_first_length|]; reflexivity. }
  (* owned wires *)
  destruct (nvirt cn) as [|m] eqn:Hm.
  { exfalso. unfold nvirt, nparents in Hm. rewrite Epar in Hm. cbn in Hm. lia. }
  set (R := skipn m L').
  assert (Hownc : own_of cn (tens s c) = cw :: R).
  { unfold own_of, nparents. rewrite Epar, Hm, Htc, HL. reflexivity. }
  assert (Hownc' : own_of cn' (tens s' c) = w :: R).
  { unfold own_of. fold (lax s' c cn'). rewrite Hlc'.
    assert (Hv' : nvirt cn' = S m).
    { rewrite <- Hm. unfold nvirt, nparents. cbn. rewrite Epar. reflexivity. }
    rewrite Hv'. reflexivity. }
  assert (HRL : incl R L') by (apply skipn_incl').
  assert (HndR : NoDup (cw :: R)) by (rewrite <- Hownc; apply (wf_own1 s H c cn Ec)).
  assert (Hown' : forall k nk nk', k <> c -> aget k (nodes s) = Some nk -> aget k (nodes s') = Some nk' ->
            own_of nk' (tens s' k) = own_of nk (tens s k)).
  { intros k nk nk' Hkc E E'. assert (Hk : k <> new) by (intros ->; congruence).
    destruct (C3 k nk' Hk E') as (nk0 & E0 & _ & _ & Hp & Hc & Hl). rewrite E in E0. injection E0 as <-.
    destruct (Hnvirt k nk nk' Hp Hc E) as [Hnp' Hnv]. apply own_of_ext2; auto.
    destruct (Nat.eqb_spec k c); [congruence|]. exact Hl. }
  assert (Hownnew : own_of n2 (tens s' new) = [cw]).
  { rewrite F2, Nat.eqb_refl. reflexivity. }
  assert (Hownlt : forall k nk x, aget k (nodes s) = Some nk -> In x (own_of nk (tens s k)) -> x < w).
  { intros k nk x E Hx. apply own_of_incl_laxes in Hx. apply (wf_lax_lt s k nk x H E Hx). }
  assert (ClaimA : forall k nk' x, k <> new -> aget k (nodes s') = Some nk' -> In x (own_of nk' (tens s' k)) ->
            (x = w /\ k = c) \/ (x <> w /\ x <> cw /\ exists nk, aget k (nodes s) = Some nk /\ In x (own_of nk (tens s k)))).
  { intros k nk' x Hk E' Hx. destruct (C3 k nk' Hk E') as (nk & E & _).
    destruct (Nat.eq_dec k c) as [->|Hkc].
    - rewrite Ec in E. injection E as <-. assert (nk' = cn').
      { rewrite F1 in E'. destruct (Nat.eqb_spec c new); [congruence|]. destruct (Nat.eqb_spec c p); [congruence|].
        rewrite Nat.eqb_refl in E'. congruence. }
      subst nk'. rewrite Hownc' in Hx. destruct Hx as [<-|Hx]; [left; split; reflexivity|]. right.
      split; [intros ->; apply HwL; apply HRL; exact Hx|]. split.
      + intros ->. inversion HndR; contradiction.
      + exists cn. split; [exact Ec|]. rewrite Hownc. right. exact Hx.
    - rewrite (Hown' k nk nk' Hkc E E') in Hx. right. pose proof (Hownlt k nk x E Hx) as Hlt.
      split; [lia|]. split.
      + intros ->. apply Hkc. apply (wf_own2 s H k nk c cn cw E Ec Hx). rewrite Hownc. left. reflexivity.
      + exists nk. split; assumption. }
  constructor.
  - rewrite Hn'. do 3 apply NoDup_akeys_aset. apply (wf_nd s H).
  - rewrite Ht'. do 2 apply NoDup_akeys_aset. apply (wf_tnd s H).
  - intros k. rewrite Ht', Hn', !amem_aset. intros Hk.
    destruct (Nat.eqb k new); [reflexivity|]. destruct (Nat.eqb k c); [rewrite orb_true_r; reflexivity|]. cbn in Hk.
    rewrite (wf_tn s H k Hk), !orb_true_r. reflexivity.
  - destruct (wf_root s H) as (r & rn & Hr & Er & Hpr & Huniq).
    destruct (C4 r rn Er) as (rn' & Er' & _ & _ & Hp & _).
    exists r, rn'. split; [rewrite Hr'; exact Hr|]. split; [exact Er'|]. split.
    + rewrite Hp. destruct (Nat.eqb_spec r c) as [->|]; [|exact Hpr]. rewrite Ec in Er. injection Er as <-. congruence.
    + intros k nk' E' Hp'. destruct (Nat.eq_dec k new) as [->|Hk].
      * rewrite F1, Nat.eqb_refl in E'. injection E' as <-. discriminate.
      * destruct (C3 k nk' Hk E') as (nk & E & _ & _ & Hp2 & _). rewrite Hp2 in Hp'.
        destruct (Nat.eqb k c); [discriminate|]. apply (Huniq k nk E Hp').
  - intros k nk' E'. destruct (Nat.eq_dec k new) as [->|Hk].
    + (* the new node *)
      rewrite F1, Nat.eqb_refl in E'. injection E' as <-.
      destruct (ni_par _ _ _ Hcn p Epar) as (pn0 & i & Epn0 & _ & Hni & Hwire). rewrite Ep in Epn0. injection Epn0 as <-.
      destruct (C4 p pn Ep) as (pn2 & Ep2 & _ & _ & Hpp & Hpc2 & Hpl).
      rewrite Nat.eqb_refl in Hpc2. destruct (Nat.eqb_spec p c) as [|_]; [congruence|].
      constructor.
      * rewrite Ht', amem_aset, Nat.eqb_refl. reflexivity.
      * reflexivity.
      * rewrite F2, Nat.eqb_refl. cbn. rewrite !W, Nat.eqb_refl. fold cw.
        destruct (Nat.eqb_spec cw w); [lia|]. reflexivity.
      * cbn. lia.
      * cbn. constructor; [intros []|constructor].
      * intros x [<-|[]]. destruct (C4 c cn Ec) as (cn2 & Ec2 & _ & _ & Hcp & _). rewrite Nat.eqb_refl in Hcp. eauto.
      * intros q Hq. cbn in Hq. injection Hq as <-. exists pn2, i. split; [exact Ep2|]. split.
        { rewrite Hpc2. apply In_replace_first_new. exact Hin. }
        split.
        { unfold neighbour_index in *. rewrite Hpp, Hpc2.
          destruct (parent pn) as [pp|] eqn:Epp.
          - destruct (Nat.eqb_spec new pp) as [->|_]; [exfalso; apply (Hnewpar p pn Ep Epp)|].
            destruct (Nat.eqb_spec c pp) as [->|_]; [exfalso; apply (wf_parent_not_child s pp cn p pn H Ec Epar Ep Epp)|].
            rewrite index_of_replace_first_new; [exact Hni|apply (Hnewch p pn Ep)].
          - rewrite index_of_replace_first_new; [exact Hni|apply (Hnewch p pn Ep)]. }
        { rewrite Hpl, <- Hwire, Hlc. unfold lax. rewrite F2, Nat.eqb_refl. reflexivity. }
    + destruct (C3 k nk' Hk E') as (nk & E & Hperm & Hshape & Hp & Hc & Hl).
      pose proof (wf_node s H k nk E) as Hn. destruct (Hnvirt k nk nk' Hp Hc E) as [Hnp' Hnv].
      constructor.
      * rewrite Ht', !amem_aset. rewrite (ni_t _ _ _ Hn), !orb_true_r. reflexivity.
      * rewrite Hperm, Hshape. apply (ni_perm _ _ _ Hn).
      * rewrite Hshape, (ni_shape _ _ _ Hn), F2. destruct (Nat.eqb_spec k new); [congruence|].
        destruct (Nat.eqb_spec k c) as [->|Hkc]; [|symmetry; apply (Wold k nk E)].
        rewrite Htc. unfold ct', ii_ct. cbn [axes]. rewrite map_set_nth. fold w. rewrite W, Nat.eqb_refl.
        pose proof (Wold c cn Ec) as Hwc. rewrite Htc in Hwc. rewrite <- Hwc. unfold d, cw, ii_cw.
        replace (wdim s (nth (ii_j cn) (axes ct) 0)) with (nth (ii_j cn) (map (wdim s') (axes ct)) (wdim s' 0)).
        { rewrite set_nth_nth. reflexivity. }
        rewrite (map_nth (wdim s')). rewrite W. fold (ii_cw cn ct). fold cw. destruct (Nat.eqb_spec cw w); [lia|reflexivity].
      * rewrite Hnv. unfold nlegs. rewrite Hperm. apply (ni_virt _ _ _ Hn).
      * rewrite Hc. destruct (Nat.eqb k p); [|apply (ni_chnd _ _ _ Hn)].
        apply NoDup_replace_first; [apply (ni_chnd _ _ _ Hn)|apply (Hnewch k nk E)].
      * intros x Hx. rewrite Hc in Hx. destruct (Nat.eqb_spec k p) as [->|Hkp].
        { rewrite Ep in E. injection E as <-. apply In_replace_first in Hx. destruct Hx as [->|[Hx Hxc]].
          - exists n2. split; [rewrite F1, Nat.eqb_refl; reflexivity|reflexivity].
          - specialize (Hxc (ni_chnd _ _ _ Hpn)). destruct (ni_ch _ _ _ Hpn x Hx) as (xn & Ex & Epx).
            destruct (C4 x xn Ex) as (xn' & Ex' & _ & _ & Hxp & _). exists xn'. split; [exact Ex'|].
            rewrite Hxp. destruct (Nat.eqb_spec x c); [congruence|exact Epx]. }
        { destruct (ni_ch _ _ _ Hn x Hx) as (xn & Ex & Epx).
          destruct (C4 x xn Ex) as (xn' & Ex' & _ & _ & Hxp & _). exists xn'. split; [exact Ex'|].
          rewrite Hxp. destruct (Nat.eqb_spec x c) as [->|]; [|exact Epx].
          rewrite Ec in Ex. injection Ex as <-. congruence. }
      * intros q Hq. rewrite Hp in Hq. destruct (Nat.eqb_spec k c) as [->|Hkc].
        { (* the child now hangs below the new node *)
          injection Hq as <-. exists n2, 1. split; [rewrite F1, Nat.eqb_refl; reflexivity|].
          split; [left; reflexivity|]. split.
          - unfold neighbour_index. cbn. destruct (Nat.eqb_spec c p); [congruence|]. rewrite Nat.eqb_refl. reflexivity.
          - rewrite Ec in E. injection E as <-. rewrite Hl. unfold lax. rewrite F2, Nat.eqb_refl. reflexivity. }
        destruct (ni_par _ _ _ Hn q Hq) as (qn & i & Eq & Hinq & Hni & Hwire).
        destruct (C4 q qn Eq) as (qn' & Eq' & _ & _ & Hqp & Hqc & Hql).
        exists qn', i. split; [exact Eq'|]. split.
        { rewrite Hqc. destruct (Nat.eqb k p); destruct (Nat.eqb q p); try exact Hinq;
            apply In_replace_first_other; assumption. }
        assert (Hkp : q = c -> k <> p).
        { intros -> ->. rewrite Ec in Eq. injection Eq as <-. apply (wf_parent_not_child s c cn p nk H Ec Epar E Hq). }
        split.
        { unfold neighbour_index in *. rewrite Hqp, Hqc.
          destruct (Nat.eqb_spec q c) as [->|Hqc'].
          - rewrite Ec in Eq. injection Eq as <-. rewrite Epar in Hni.
            destruct (Nat.eqb_spec k new); [congruence|]. destruct (Nat.eqb_spec k p) as [->|_]; [exfalso; apply (Hkp eq_refl eq_refl)|].
            destruct (Nat.eqb_spec c p); [congruence|]. exact Hni.
          - destruct (Nat.eqb_spec q p) as [->|_]; [|exact Hni].
            rewrite (index_of_replace_first_other c new _ k Hkc Hk). exact Hni. }
        { rewrite Hl, Hql. destruct (Nat.eqb_spec k c); [congruence|]. rewrite Hwire.
          destruct (Nat.eqb_spec q c) as [->|]; [|reflexivity].
          rewrite Ec in Eq. injection Eq as <-. rewrite Hlc.
          unfold neighbour_index in Hni. rewrite Epar in Hni.
          destruct (Nat.eqb_spec k p) as [->|_]; [exfalso; apply (Hkp eq_refl eq_refl)|].
          destruct (index_of k (children cn)) as [i0|]; [|discriminate]. injection Hni as <-.
          replace (i0 + 1) with (S i0) by lia. reflexivity. }
  - intros k nk' E'. destruct (Nat.eq_dec k new) as [->|Hk].
    + rewrite F1, Nat.eqb_refl in E'. injection E' as <-. rewrite Hownnew. constructor; [intros []|constructor].
    + destruct (C3 k nk' Hk E') as (nk & E & _). destruct (Nat.eq_dec k c) as [->|Hkc].
      * assert (nk' = cn').
        { rewrite F1 in E'. destruct (Nat.eqb_spec c new); [congruence|]. destruct (Nat.eqb_spec c p); [congruence|].
          rewrite Nat.eqb_refl in E'. congruence. }
        subst nk'. rewrite Hownc'. inversion HndR; subst. constructor; [|assumption].
        intros Hx. apply HwL. apply HRL. exact Hx.
      * rewrite (Hown' k nk nk' Hkc E E'). apply (wf_own1 s H k nk E).
  - intros k1 n1 k2 n2' x E1 E2 H1 H2.
    destruct (Nat.eq_dec k1 new) as [->|Hk1]; destruct (Nat.eq_dec k2 new) as [->|Hk2]; [reflexivity| | |].
    + exfalso. rewrite F1, Nat.eqb_refl in E1. injection E1 as <-. rewrite Hownnew in H1. destruct H1 as [<-|[]].
      destruct (ClaimA k2 n2' cw Hk2 E2 H2) as [[Hx _]|(_ & Hx & _)]; [lia|congruence].
    + exfalso. rewrite F1, Nat.eqb_refl in E2. injection E2 as <-. rewrite Hownnew in H2. destruct H2 as [<-|[]].
      destruct (ClaimA k1 n1 cw Hk1 E1 H1) as [[Hx _]|(_ & Hx & _)]; [lia|congruence].
    + destruct (ClaimA k1 n1 x Hk1 E1 H1) as [[Hx1 Hc1]|(Hx1 & _ & m1 & G1 & O1)];
        destruct (ClaimA k2 n2' x Hk2 E2 H2) as [[Hx2 Hc2]|(Hx2 & _ & m2 & G2 & O2)]; try congruence.
      apply (wf_own2 s H k1 m1 k2 m2 x G1 G2 O1 O2).
  - intros k t x E Hx. rewrite Hw'. fold w. rewrite Ht', !aget_aset in E.
    destruct (Nat.eqb k new).
    + injection E as <-. cbn in Hx. destruct Hx as [<-|[<-|[]]]; lia.
    + destruct (Nat.eqb k c).
      * injection E as <-. cbn in Hx. apply In_set_nth in Hx. destruct Hx as [->|Hx]; [fold w; lia|].
        pose proof (wf_wires s H c ct x Et Hx). fold w in H0. lia.
      * pose proof (wf_wires s H k t x E Hx). fold w in H0. lia.
  - intros x Hx. rewrite Hd', akeys_app in Hx. rewrite Hw'. apply in_app_or in Hx. destruct Hx as [Hx|Hx].
    + apply (wf_dims s H) in Hx. lia.
    + cbn in Hx. destruct Hx as [<-|[]]. fold w. lia.
  - destruct (wf_acyc s H) as [dp Hdp]. pose proof (Hdp c cn p Ec Epar) as Hcp.
    exists (fun k => if Nat.eqb k new then 2 * dp c - 1 else 2 * dp k).
    intros x xn' q E' Hq. destruct (Nat.eqb_spec x new) as [->|Hx].
    + rewrite F1, Nat.eqb_refl in E'. injection E' as <-. cbn in Hq. injection Hq as <-.
      destruct (Nat.eqb_spec p new); [congruence|]. lia.
    + destruct (C3 x xn' Hx E') as (xn & E & _ & _ & Hp & _). rewrite Hp in Hq.
      destruct (Nat.eqb_spec x c) as [->|Hxc].
      * injection Hq as <-. rewrite Nat.eqb_refl. lia.
      * destruct (Nat.eqb_spec q new) as [->|_]; [exfalso; apply (Hnewpar x xn E Hq)|].
        pose proof (Hdp x xn q E Hq). lia.
Qed.

Theorem insert_identity_preserves_wfb s c p new s' : wfb s = true -> insert_identity s c p new = Some s' -> wfb s' = true.
Proof. intros H Hi. apply wfb_iff. eapply insert_identity_preserves_wf; [apply wfb_iff; exact H|exact Hi]. Qed.

(* every old node: the child c gets parent new and the fresh wire on its parent leg, the parent p gets
   new in place of c among its children, everything else is unchanged *)
Theorem insert_identity_lax s c p new s' k nk :
  wf s -> insert_identity s c p new = Some s' -> aget k (nodes s) = Some nk ->
  exists nk', aget k (nodes s') = Some nk' /\ perm nk' = perm nk /\ shape nk' = shape nk /\
              parent nk' = (if Nat.eqb k c then Some new else parent nk) /\
              children nk' = (if Nat.eqb k p then replace_first c new (children nk) else children nk) /\
              lax s' k nk' = (if Nat.eqb k c then next_wire s :: tl (lax s k nk) else lax s k nk).
Proof.
  intros H Hi E.
  destruct (insert_identity_facts _ _ _ _ _ H Hi)
    as (cn & pn & ct & pm & L' & Ec & Ep & Et & Epar & Hin & Hnew & Hpc & Hnp & Hnc & Epm & Hjni & Hjlt & HL & HL2 & HwL & Hcw
        & Hn' & Ht' & Hr' & Hd' & Hw' & _).
  assert (Htc : tens s c = ct) by (apply tens_aget; exact Et).
  assert (Hk : k <> new) by (intros ->; congruence).
  assert (F2 : forall k, tens s' k = if Nat.eqb k new then ii_nt s cn ct else if Nat.eqb k c then ii_ct s cn ct else tens s k).
  { intros k0. unfold tens. rewrite Ht', !aget_aset. destruct (Nat.eqb k0 new); [reflexivity|]. destruct (Nat.eqb k0 c); reflexivity. }
  rewrite Hn', !aget_aset. destruct (Nat.eqb_spec k new); [congruence|].
  destruct (Nat.eqb_spec k p) as [->|Hkp].
  - rewrite Ep in E. injection E as <-. eexists. split; [reflexivity|]. destruct (Nat.eqb_spec p c); [congruence|].
    repeat split. unfold lax. rewrite F2. destruct (Nat.eqb_spec p new); [congruence|]. destruct (Nat.eqb_spec p c); [congruence|]. reflexivity.
  - destruct (Nat.eqb_spec k c) as [->|Hkc].
    + rewrite Ec in E. injection E as <-. eexists. split; [reflexivity|]. repeat split.
      unfold lax at 1. rewrite F2. destruct (Nat.eqb_spec c new); [congruence|]. rewrite Nat.eqb_refl, HL2.
      unfold lax. rewrite Htc, HL. reflexivity.
    + exists nk. repeat split; auto. unfold lax. rewrite F2.
      destruct (Nat.eqb_spec k new); [congruence|]. destruct (Nat.eqb_spec k c); [congruence|]. reflexivity.
Qed.

(* the new node: between p and c, axes [old edge wire; fresh wire], no open legs *)
Theorem insert_identity_new_node s c p new s' :
  wf s -> insert_identity s c p new = Some s' ->
  exists cn n2, aget c (nodes s) = Some cn /\ parent cn = Some p /\ aget new (nodes s) = None /\
                aget new (nodes s') = Some n2 /\ parent n2 = Some p /\ children n2 = [c] /\
                lax s' new n2 = [hd 0 (lax s c cn); next_wire s] /\ open_of n2 (tens s' new) = [] /\
                next_wire s' = S (next_wire s) /\ wdim s' (next_wire s) = wdim s (hd 0 (lax s c cn)).
Proof.
  intros H Hi.
  destruct (insert_identity_facts _ _ _ _ _ H Hi)
    as (cn & pn & ct & pm & L' & Ec & Ep & Et & Epar & Hin & Hnew & Hpc & Hnp & Hnc & Epm & Hjni & Hjlt & HL & HL2 & HwL & Hcw
        & Hn' & Ht' & Hr' & Hd' & Hw' & _).
  assert (Htc : tens s c = ct) by (apply tens_aget; exact Et).
  exists cn, (ii_node p c (wdim s (ii_cw cn ct))). do 3 (split; [assumption|]).
  split; [rewrite Hn'; apply aget_aset_same|]. split; [reflexivity|]. split; [reflexivity|].
  assert (Ht : tens s' new = ii_nt s cn ct) by (unfold tens; rewrite Ht', aget_aset_same; reflexivity).
  assert (Hhd : hd 0 (lax s c cn) = ii_cw cn ct) by (unfold lax; rewrite Htc, HL; reflexivity).
  rewrite Hhd. split; [unfold lax; rewrite Ht; reflexivity|]. split; [rewrite Ht; reflexivity|]. split; [exact Hw'|].
  rewrite (wdim_snoc s s' _ _ _ Hd'), Nat.eqb_refl; [reflexivity|].
  apply aget_None. intros Hin'. apply (wf_dims s H) in Hin'. lia.
Qed.

Theorem insert_identity_total_atoms s c p new s' :
  wf s -> insert_identity s c p new = Some s' -> total_atoms s' = total_atoms s ++ [next_atom s].
Proof.
  intros H Hi.
  destruct (insert_identity_facts _ _ _ _ _ H Hi)
    as (cn & pn & ct & pm & L' & Ec & Ep & Et & Epar & Hin & Hnew & Hpc & Hnp & Hnc & Epm & Hjni & Hjlt & HL & HL2 & HwL & Hcw
        & Hn' & Ht' & Hr' & Hd' & Hw' & _).
  assert (Hnt : aget new (aset c (ii_ct s cn ct) (tensors s)) = None).
  { rewrite aget_aset. destruct (Nat.eqb_spec new c); [congruence|]. apply aget_None. intros Hin'.
    apply (wf_keys_iff s _ H) in Hin'. apply aget_None in Hnew. contradiction. }
  unfold total_atoms. rewrite Ht', (aset_fresh _ _ _ Hnt), flat_map_app. cbn [flat_map snd ii_nt atoms app]. f_equal.
  apply (flat_map_aset_eq _ _ c _ ct); auto. apply (wf_tnd s H).
Qed.

Theorem insert_identity_total_atoms_perm s c p new s' :
  wf s -> insert_identity s c p new = Some s' -> Permutation (total_atoms s') (next_atom s :: total_atoms s).
Proof.
  intros H Hi. rewrite (insert_identity_total_atoms _ _ _ _ _ H Hi). symmetry. apply Permutation_cons_append.
Qed.

(* the fresh wire gets its two ends: one on the child's tensor (replacing the old edge wire, whose
   end moves to the new tensor) and one on the new tensor *)
Theorem insert_identity_total_ends s c p new s' :
  wf s -> insert_identity s c p new = Some s' ->
  Permutation (total_ends s') (next_wire s :: next_wire s :: total_ends s).
Proof.
  intros H Hi.
  destruct (insert_identity_facts _ _ _ _ _ H Hi)
    as (cn & pn & ct & pm & L' & Ec & Ep & Et & Epar & Hin & Hnew & Hpc & Hnp & Hnc & Epm & Hjni & Hjlt & HL & HL2 & HwL & Hcw
        & Hn' & Ht' & Hr' & Hd' & Hw' & _).
  assert (Hnt : aget new (aset c (ii_ct s cn ct) (tensors s)) = None).
  { rewrite aget_aset. destruct (Nat.eqb_spec new c); [congruence|]. apply aget_None. intros Hin'.
    apply (wf_keys_iff s _ H) in Hin'. apply aget_None in Hnew. contradiction. }
  set (E := fun kt : id * sarr => sarr_ends (snd kt)).
  unfold total_ends. fold E. rewrite Ht', (aset_fresh _ _ _ Hnt), flat_map_app.
  rewrite (flat_map_adel_perm E c (ii_ct s cn ct) (aset c (ii_ct s cn ct) (tensors s))) by apply aget_aset_same.
  rewrite adel_aset. rewrite (flat_map_adel_perm E c ct (tensors s) Et).
  set (X := flat_map E (adel c (tensors s))). set (w := next_wire s). set (B := bnd ct ++ bnd ct).
  change (E (c, ii_ct s cn ct)) with (set_nth (ii_j cn) w (axes ct) ++ B).
  change (flat_map E [(new, ii_nt s cn ct)]) with ([ii_cw cn ct; w]).
  change (E (c, ct)) with (axes ct ++ B).
  rewrite Permutation_app_comm. cbn [app]. rewrite perm_swap. apply perm_skip.
  rewrite <- !app_assoc, !app_comm_cons. apply Permutation_app_tail. apply set_nth_perm. exact Hjlt.
Qed.

(* the new node has no open legs and the others keep theirs, in the same order *)
Theorem insert_identity_open_wires s c p new s' :
  wf s -> insert_identity s c p new = Some s' -> open_wires s' = open_wires s.
Proof.
  intros H Hi.
  destruct (insert_identity_facts _ _ _ _ _ H Hi)
    as (cn & pn & ct & pm & L' & Ec & Ep & Et & Epar & Hin & Hnew & Hpc & Hnp & Hnc & Epm & Hjni & Hjlt & HL & HL2 & HwL & Hcw
        & Hn' & Ht' & Hr' & Hd' & Hw' & _).
  destruct (insert_identity_new_node _ _ _ _ _ H Hi) as (cn0 & n2 & _ & _ & _ & En2 & _ & _ & _ & Hopen & _).
  rewrite Hn', aget_aset_same in En2. injection En2 as <-.
  set (l2 := aset p (ii_pn c new pn) (aset c (with_parent cn (Some new)) (nodes s))) in *.
  assert (Hn2 : aget new l2 = None).
  { unfold l2. rewrite !aget_aset. destruct (Nat.eqb_spec new p); [congruence|]. destruct (Nat.eqb_spec new c); [congruence|]. exact Hnew. }
  unfold open_wires. rewrite Hn', (aset_fresh _ _ _ Hn2), flat_map_app. cbn [flat_map]. unfold node_open at 2. cbn [fst snd].
  rewrite Hopen, !app_nil_r.
  apply flat_map_assoc_eq.
  - apply (wf_nd s H).
  - unfold l2. rewrite akeys_aset_amem.
    + apply akeys_aset_amem. apply amem_aget. eauto.
    + rewrite amem_aset. apply orb_true_iff. right. apply amem_aget. eauto.
  - intros k nk nk' E E'. unfold node_open. cbn [fst snd].
    destruct (insert_identity_lax _ _ _ _ _ k nk H Hi E) as (nk2 & E2 & _ & _ & Hp & Hc & Hl).
    assert (Hk : k <> new) by (intros ->; congruence).
    rewrite Hn', aget_aset in E2. destruct (Nat.eqb_spec k new); [congruence|]. fold l2 in E2. rewrite E' in E2. injection E2 as <-.
    unfold open_of. fold (lax s' k nk') (lax s k nk). rewrite Hl.
    assert (Hv : nvirt nk' = nvirt nk).
    { unfold nvirt, nparents. rewrite Hp, Hc. destruct (Nat.eqb_spec k c) as [->|].
      - rewrite Ec in E. injection E as <-. rewrite Epar. destruct (Nat.eqb c p); [rewrite replace_first_length|]; reflexivity.
      - destruct (Nat.eqb k p); [rewrite replace_first_length|]; reflexivity. }
    rewrite Hv. destruct (Nat.eqb_spec k c) as [->|]; [|reflexivity].
    rewrite Ec in E. injection E as <-.
    unfold nvirt, nparents. rewrite Epar. cbn [plus]. unfold lax. rewrite (tens_aget _ _ _ Et), HL. reflexivity.
Qed.

(* ================================================================================================ *)
(* ---- addenda -------------------------------------------------------------------------------------- *)
(* ================================================================================================ *)

(* replace_node_in_neighbours succeeds exactly when old exists and, unless old's parent is new
   itself, that parent lists old among its children *)
Theorem replace_node_in_neighbours_some s new old del on :
  new <> old -> aget old (nodes s) = Some on ->
  (match parent on with
   | Some p => p = new \/ exists pn, aget p (nodes s) = Some pn /\ In old (children pn)
   | None => True end) ->
  exists s', replace_node_in_neighbours s new old del = Some s'.
Proof.
  intros Hne Eo Hp. unfold replace_node_in_neighbours.
  destruct (Nat.eqb_spec new old) as [|_]; [congruence|]. rewrite Eo.
  fold (set_parents new (children on) (nodes s)).
  destruct (parent on) as [p|]; [|eauto].
  destruct (Nat.eqb_spec p new) as [->|Hpn]; [eauto|].
  destruct Hp as [->|(pn & Epn & Hin)]; [congruence|].
  rewrite set_parents_aget, Epn. apply memb_In in Hin.
  destruct (memb p (children on) && negb (Nat.eqb p new)); cbn [option_map];
    [change (children (with_parent pn (Some new))) with (children pn)|]; rewrite Hin; eauto.
Qed.

(* the fresh-identifier case under the invariant: a pointwise renaming of the node records *)
Theorem replace_node_in_neighbours_fresh s new old del s' :
  wf s -> new <> old -> aget new (nodes s) = None ->
  replace_node_in_neighbours s new old del = Some s' ->
  (forall k, aget k (nodes s') =
             if del && Nat.eqb k old then None else option_map (ren_node (ren1 old new)) (aget k (nodes s))) /\
  akeys (nodes s') = (if del then remove_first old (akeys (nodes s)) else akeys (nodes s)) /\
  root s' = option_map (ren1 old new) (root s) /\
  tensors s' = tensors s /\ dims s' = dims s /\ next_wire s' = next_wire s /\
  next_atom s' = next_atom s /\ defs s' = defs s /\ atab s' = atab s.
Proof.
  intros H Hne Hnew Hr.
  destruct (replace_node_in_neighbours_spec s new old del s' (wf_nd s H) Hne Hr) as (on & Eo & G & K & R & _ & Rest).
  split.
  { intros k. rewrite G. destruct (del && Nat.eqb k old); [reflexivity|].
    destruct (aget k (nodes s)) as [nk|] eqn:E; [|reflexivity]. cbn. f_equal.
    apply (rnin_fix_ren s old new on k nk H Eo E). intros ->. congruence. }
  split; [exact K|]. split; [|exact Rest].
  rewrite R. destruct (wf_root s H) as (r & rn & Hroot & Er & Hpr & Huniq). rewrite Hroot. cbn.
  destruct (parent on) as [q|] eqn:Eq.
  - rewrite ren1_other; [reflexivity|]. intros ->. rewrite Eo in Er. injection Er as <-. congruence.
  - rewrite (Huniq old on Eo Eq), ren1_same. reflexivity.
Qed.

(* atoms and wire ends do not need the inverse hypothesis *)
Theorem replace_tensor_total_atoms_any s n q p s' :
  wf s -> replace_tensor s n q p = Some s' -> total_atoms s' = total_atoms s.
Proof.
  intros H Hr. destruct (replace_tensor_inv _ _ _ _ _ Hr) as (nd & t & nd' & En & Et & _ & _ & _ & _ & _ & _ & _ & _ & ->).
  unfold total_atoms. cbn. apply (flat_map_aset_eq _ _ n _ t); auto. apply (wf_tnd s H).
Qed.

Theorem replace_tensor_total_ends_any s n q p s' :
  wf s -> replace_tensor s n q p = Some s' -> Permutation (total_ends s') (total_ends s).
Proof.
  intros H Hr. destruct (replace_tensor_inv _ _ _ _ _ Hr) as (nd & t & nd' & En & Et & Hq & Hl & _ & _ & _ & _ & _ & _ & ->).
  pose proof (wf_node s H n nd En) as Hn.
  assert (Hlen : length (shape nd) = length (axes t)).
  { rewrite (ni_shape _ _ _ Hn), (tens_aget _ _ _ Et), map_length. reflexivity. }
  unfold total_ends. cbn [tensors upd_tensors upd_nodes]. apply (flat_map_aset_perm _ _ n _ t); auto; [apply (wf_tnd s H)|].
  cbn [snd]. unfold sarr_ends. cbn [s_transpose axes bnd]. apply Permutation_app_tail.
  rewrite permute_is_perm.
  - apply permute_is_perm. rewrite <- Hlen. apply (ni_perm _ _ _ Hn).
  - rewrite permute_length, <- Hl. exact Hq.
Qed.

(* the accepted but invariant-breaking input is not an artefact of the boolean checker *)
Example replace_tensor_wf_counterexample :
  exists s s', wf s /\ replace_tensor s 0 [1; 0] None = Some s' /\ ~ wf s'.
Proof.
  exists (fst (run empty_store [AddRoot 0 [2; 2]; AddChild 1 [2; 3] 0 0 0])).
  eexists. split; [apply wfb_iff; vm_compute; reflexivity|]. split; [vm_compute; reflexivity|].
  intros Hwf. apply wfb_iff in Hwf. vm_compute in Hwf. discriminate.
Qed.
